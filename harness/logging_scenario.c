/* C14 scenario: pipeline logger (standard formatter + foreground/background channel + recording writer),
 * the no-alloc logger and the fixed-buffer line formatter, under the controlled scheduler.
 * Scenario lines:
 *   LOGGER <bg|fg|na|std|stdf> <filter 0..6>      na = the no-alloc logger writing to a memory stream (lines observed at
 *                            clean-up); std / stdf = aws_logger_init_standard (default formatter, background channel, file
 *                            writer) writing to a file it opens by name / to a stream handed to it (lines read back after
 *                            clean-up returned: everything accepted must be in the file by then)
 *   LEVELSTR <text> <TEXT>  aws_string_to_log_level(<text>) and, on success, aws_log_level_to_string of the result
 *   NOLOGGER <level>        a log call while no logger is installed (must be a no-op) + aws_logger_get_conditional
 *   PRE <op> ...            main thread, before the producers are launched
 *   PRODUCER <k> <op> ...   k = 1..3, run concurrently
 *   POST <op> ...           main thread, after the producers were joined (before clean up)
 *      ops:  L<level>:<len>:<shape>[:<subj>]   one log call at <level> 1..6 with a payload of <len> characters, for log
 *                                     subject <subj> (0 = a built-in one, 1..NSUBJ-2 = registered here with names of
 *                                     increasing length, NSUBJ-1 = never registered)
 *            S<level>                 aws_logger_set_log_level   (PRE / POST only)
 *            P                        schedule point
 *            B<count>:<level>:<len>   <count> plain log calls in a row (a burst)
 *   (LOGGER takes an optional third word, iso | rfc: the date format of the standard formatter, and an optional fourth,
 *    wf<n>: the recording writer reports failure for every n-th line it receives)
 *   FMT <total> <level> <len> <shape> [<subject name length>]    direct aws_format_standard_log_line into a buffer of <total> bytes
 *   NOALLOC <filter> <level> <len> <shape>  one call through aws_logger_init_noalloc writing to a memory stream
 * The log message is   <shape-dependent preamble>@<k>.<seq>@<payload: len x 'x'>$   so that the writer side can
 * recognise whose line it is and whether the message is complete. */
#include "vh_core.h"

#include "vsched/vsched_impl.h"

#include <aws/common/log_channel.h>
#include <aws/common/log_formatter.h>
#include <aws/common/log_writer.h>
#include <aws/common/logging.h>
#include <aws/common/string.h>
#include <aws/common/thread.h>

#define MAXOPS 40
#define MAXP 4
static const char *LEVELS[] = {"NONE", "FATAL", "ERROR", "WARN", "INFO", "DEBUG", "TRACE"};

struct prog {
    int k;
    int nops;
    char ops[MAXOPS][24];
    int seq;
    struct aws_thread thread;
};
static struct prog pre, post, prods[MAXP];
static int nprods;
static struct aws_logger logger;
static struct aws_log_formatter formatter;
static struct aws_log_channel channel;
static struct aws_log_writer writer;
static bool closed_flag;
static char std_path[4200];
static FILE *std_stream;

/* ---- line analysis (projection): which call, complete?, shape of the line */
/* the date format the caller configured for the logger / formatter call whose line is being described */
static const char *cur_dfmt = "iso";
static void describe_line(const uint8_t *p, size_t n) {
    size_t nl = 0, nul = 0;
    for (size_t i = 0; i < n; ++i) {
        nl += p[i] == '\n';
        nul += p[i] == 0;
    }
    int lvl = -1;
    for (int l = 1; l <= 6; ++l) {
        size_t ll = strlen(LEVELS[l]);
        if (n > ll + 3 && p[0] == '[' && memcmp(p + 1, LEVELS[l], ll) == 0 && p[1 + ll] == ']' && p[2 + ll] == ' ' &&
            p[3 + ll] == '[') {
            lvl = l;
        }
    }
    /* prefix: [LEVEL] [timestamp] [thread id] [subject] - */
    int brackets = 0;
    long sep = -1;
    for (size_t i = 0; i + 2 < n; ++i) {
        if (p[i] == ']') {
            brackets++;
        }
        if (p[i] == ' ' && p[i + 1] == '-' && p[i + 2] == ' ' && brackets >= 4) {
            sep = (long)i;
            break;
        }
    }
    int k = -1, seq = -1;
    long paylen = -1;
    int complete = 0;
    for (size_t i = 0; i + 4 < n; ++i) {
        if (p[i] == '@' && p[i + 1] >= '0' && p[i + 1] <= '9' && p[i + 2] == '.') {
            k = p[i + 1] - '0';
            size_t j = i + 3;
            seq = 0;
            while (j < n && p[j] >= '0' && p[j] <= '9') {
                seq = seq * 10 + (p[j] - '0');
                j++;
            }
            if (j < n && p[j] == '@') {
                j++;
                size_t s = j;
                while (j < n && p[j] == 'x') {
                    j++;
                }
                paylen = (long)(j - s);
                complete = (j + 1 < n && p[j] == '$' && p[j + 1] == '\n' && j + 2 == n);
            } else {
                seq = -1;
            }
            break;
        }
    }
    /* length of the subject name: what stands in the fourth pair of brackets */
    long slen = -1;
    {
        int open = 0;
        for (size_t i = 0; i < n; ++i) {
            if (p[i] == '[' && ++open == 4) {
                size_t j = i + 1;
                while (j < n && p[j] != ']') {
                    j++;
                }
                if (j < n) {
                    slen = (long)(j - i - 1);
                }
                break;
            }
        }
    }
    /* the timestamp: what stands in the second pair of brackets */
    {
        int open = 0;
        size_t a = 0, b = 0;
        for (size_t i = 0; i < n; ++i) {
            if (p[i] == '[' && ++open == 2) {
                size_t j = i + 1;
                while (j < n && p[j] != ']') {
                    j++;
                }
                if (j < n && j - i - 1 <= 48) {
                    a = i + 1;
                    b = j;
                }
                break;
            }
        }
        vh_bytes("ts", p + a, b - a);
        vh_str("dfmt", cur_dfmt);
    }
    vh_int("slen", slen);
    vh_int("len", (long long)n);
    vh_int("nl", (long long)nl);
    vh_int("nul", (long long)nul);
    vh_int("endsnl", n > 0 && p[n - 1] == '\n');
    vh_int("lvl", lvl);
    vh_int("prefix", sep >= 0);
    vh_int("k", k);
    vh_int("seq", seq);
    vh_int("paylen", paylen);
    vh_int("complete", complete);
}

/* a sink that is sometimes unable to take a line (full disk, closed pipe): every wfail-th write reports failure - after
 * the line has been recorded, i.e. it did reach the writer */
static int wfail, wcount;
static int writer_write(struct aws_log_writer *w, const struct aws_string *output) {
    (void)w;
    vh_begin("Write");
    vh_int("on", vs_self());
    vh_int("afterclose", closed_flag);
    describe_line(aws_string_bytes(output), output->len);
    vh_end();
    vs_point(); /* a writer takes time: other threads may run while a line is being written */
    if (wfail && ++wcount % wfail == 0) {
        return aws_raise_error(AWS_ERROR_FILE_WRITE_FAILURE);
    }
    return AWS_OP_SUCCESS;
}
static void writer_clean_up(struct aws_log_writer *w) {
    (void)w;
}
static struct aws_log_writer_vtable writer_vtable = {.write = writer_write, .clean_up = writer_clean_up};

static char payload[70000];

/* log subjects: 0 = built-in, 1..NSUBJ-2 registered below, NSUBJ-1 never registered ("Unknown") */
#define NSUBJ 11
#define VERIF_PKG 20
static const int subj_len[NSUBJ] = {12, 1, 13, 40, 80, 88, 89, 90, 120, 300, 7};
static char subj_names[NSUBJ][304];
static struct aws_log_subject_info subj_infos[NSUBJ];
static struct aws_log_subject_info_list subj_list;
static aws_log_subject_t subj_id(int i) {
    return i == 0 ? (aws_log_subject_t)AWS_LS_COMMON_GENERAL : (aws_log_subject_t)(AWS_LOG_SUBJECT_BEGIN_RANGE(VERIF_PKG) + (unsigned)i - 1);
}
static void subjects_register(void) {
    for (int i = 1; i < NSUBJ - 1; ++i) {
        memset(subj_names[i], 'a' + i, (size_t)subj_len[i]);
        subj_names[i][subj_len[i]] = 0;
        subj_infos[i - 1].subject_id = subj_id(i);
        subj_infos[i - 1].subject_name = subj_names[i];
        subj_infos[i - 1].subject_description = "verif";
    }
    subj_list.subject_list = subj_infos;
    subj_list.count = NSUBJ - 2;
    aws_register_log_subject_info_list(&subj_list);
}

#define EMIT(...) AWS_LOGF((enum aws_log_level)level, subj_id(subj), __VA_ARGS__)
/* one log call through the global logger, in one of several format-argument shapes */
static void emit_log(int level, int k, int seq, int len, int shape, int subj) {
    switch (shape) {
        case 1:
            EMIT("k=%d n=%zu @%d.%d@%.*s$", k, (size_t)len, k, seq, len, payload);
            break;
        case 2:
            EMIT("%c%c @%d.%d@%s$", 'a', '%', k, seq, payload + (sizeof(payload) - 1 - (size_t)len));
            break;
        case 3:
            EMIT("%.2f %p @%d.%d@%.*s$", 1.5, (void *)payload, k, seq, len, payload);
            break;
        default:
            EMIT("@%d.%d@%.*s$", k, seq, len, payload);
            break;
    }
}

static void do_ops(struct prog *pg) {
    for (int i = 0; i < pg->nops; ++i) {
        const char *op = pg->ops[i];
        int repeat = 1;
        if (op[0] == 'B') { /* B<count>:<level>:<len> = that many plain log calls in a row */
            int level = 0, len = 0;
            sscanf(op + 1, "%d:%d:%d", &repeat, &level, &len);
            static __thread char one[24];
            snprintf(one, sizeof(one), "L%d:%d:0:0", level, len);
            op = one;
        }
        for (int rep = 0; rep < repeat && op[0] == 'L'; ++rep) {
            int level = 0, len = 0, shape = 0, subj = 0;
            sscanf(op + 1, "%d:%d:%d:%d", &level, &len, &shape, &subj);
            subj = subj < 0 || subj >= NSUBJ ? 0 : subj;
            int seq = ++pg->seq;
            vh_begin("LogBegin");
            vh_int("k", pg->k);
            vh_int("seq", seq);
            vh_int("level", level);
            vh_int("plen", len);
            vh_int("sl", subj_len[subj]);
            vh_int("on", vs_self());
            vh_end();
            emit_log(level, pg->k, seq, len, shape, subj);
            vh_begin("LogEnd");
            vh_int("k", pg->k);
            vh_int("seq", seq);
            vh_end();
        }
        if (op[0] == 'L') {
        } else if (op[0] == 'S') {
            int level = atoi(op + 1);
            int rc = aws_logger_set_log_level(&logger, (enum aws_log_level)level);
            vh_begin("SetLevel");
            vh_int("level", level);
            vh_int("rc", rc);
            vh_end();
        } else if (op[0] == 'P') {
            vs_point();
        }
    }
}
static void producer_fn(void *arg) {
    do_ops(arg);
}

static void parse_ops(struct prog *pg, char **save) {
    for (char *o = strtok_r(NULL, " ", save); o && pg->nops < MAXOPS; o = strtok_r(NULL, " ", save)) {
        strncpy(pg->ops[pg->nops++], o, 23);
    }
}

static void run_fmt(int total, int level, int len, int shape, bool noalloc, int filter, int sl, bool fmt_rfc) {
    cur_dfmt = (fmt_rfc && !noalloc) ? "rfc" : "iso";
    if (!noalloc) {
        char *sname = malloc((size_t)sl + 1);
        memset(sname, 's', (size_t)sl);
        sname[sl] = 0;
        char *buf = malloc((size_t)total); /* exact size: one byte over is an ASan report */
        memset(buf, 0x7e, (size_t)total);
        struct aws_logging_standard_formatting_data d = {
            .log_line_buffer = buf,
            .total_length = (size_t)total,
            .level = (enum aws_log_level)level,
            .subject_name = sname,
            .format = NULL,
            .date_format = fmt_rfc ? AWS_DATE_FORMAT_RFC822 : AWS_DATE_FORMAT_ISO_8601,
            .allocator = vh_alloc(),
            .amount_written = 0,
        };
        /* go through a varargs trampoline */
        extern int fmt_tramp(struct aws_logging_standard_formatting_data * d, const char *fmt, ...);
        int rc = 0;
        d.format = "@%d.%d@%.*s$";
        switch (shape) {
            case 1:
                d.format = "k=%d n=%zu @%d.%d@%.*s$";
                rc = fmt_tramp(&d, d.format, 9, (size_t)len, 9, 1, len, payload);
                break;
            case 3:
                d.format = "%.2f %p @%d.%d@%.*s$";
                rc = fmt_tramp(&d, d.format, 1.5, (void *)payload, 9, 1, len, payload);
                break;
            default:
                rc = fmt_tramp(&d, d.format, 9, 1, len, payload);
                break;
        }
        vh_begin("Fmt");
        vh_int("total", total);
        vh_int("level", level);
        vh_int("plen", len);
        vh_int("sl", sl);
        vh_rc(rc);
        vh_int("written", (long long)d.amount_written);
        if (rc == 0 && d.amount_written <= (size_t)total) {
            describe_line((uint8_t *)buf, d.amount_written);
        } else {
            describe_line((uint8_t *)"", 0);
        }
        vh_end();
        free(buf);
        free(sname);
    } else {
        char *mem = NULL;
        size_t memsz = 0;
        FILE *ms = open_memstream(&mem, &memsz);
        struct aws_logger_standard_options opt = {.level = (enum aws_log_level)filter, .filename = NULL, .file = ms};
        struct aws_logger nl;
        aws_logger_init_noalloc(&nl, vh_alloc(), &opt);
        aws_logger_set(&nl);
        int subj = 0;
        for (int i = 0; i < NSUBJ; ++i) {
            if (subj_len[i] == sl) {
                subj = i;
            }
        }
        emit_log(level, 9, 1, len, shape, subj);
        fflush(ms);
        vh_begin("NoAlloc");
        vh_int("filter", filter);
        vh_int("level", level);
        vh_int("plen", len);
        vh_int("sl", subj_len[subj]);
        describe_line((uint8_t *)mem, memsz);
        vh_end();
        aws_logger_set(NULL);
        aws_logger_clean_up(&nl);
        fclose(ms);
        free(mem);
    }
}

/* NADEF <filter> <level> <len>: two no-alloc loggers in a row on the default destination (neither a stream nor a file name:
 * the process's stderr, redirected into an anonymous memory file for the duration), one log call each; afterwards stderr must
 * still take a line from the program itself.  lines = complete lines that arrived from the two loggers. */
static void run_noalloc_default(int filter, int level, int len) {
    fflush(stderr);
    int saved = dup(2);
    int mfd = memfd_create("verif-stderr", 0);
    if (saved < 0 || mfd < 0) {
        return;
    }
    dup2(mfd, 2);
    for (int round = 0; round < 2; ++round) {
        struct aws_logger_standard_options opt = {.level = (enum aws_log_level)filter, .filename = NULL, .file = NULL};
        struct aws_logger nl;
        aws_logger_init_noalloc(&nl, vh_alloc(), &opt);
        aws_logger_set(&nl);
        emit_log(level, 8, round + 1, len, 0, 0);
        aws_logger_set(NULL);
        aws_logger_clean_up(&nl);
    }
    int alive = fprintf(stderr, "#still-open\n") > 0 && fflush(stderr) == 0;
    dup2(saved, 2);
    close(saved);
    char buf[8192];
    ssize_t n = pread(mfd, buf, sizeof(buf) - 1, 0);
    close(mfd);
    int lines = 0, mine = 0;
    for (ssize_t i = 0; i < n; ++i) {
        lines += buf[i] == '\n';
    }
    buf[n > 0 ? n : 0] = 0;
    mine = strstr(buf, "#still-open\n") != NULL;
    vh_begin("NoAllocDefault");
    vh_int("filter", filter);
    vh_int("level", level);
    vh_int("lines", lines - mine);
    vh_int("alive", alive && mine);
    vh_end();
}

int fmt_tramp(struct aws_logging_standard_formatting_data *d, const char *fmt, ...) {
    va_list ap;
    va_start(ap, fmt);
    int rc = aws_format_standard_log_line(d, ap);
    va_end(ap);
    return rc;
}

static void scenario(char **lines, int nlines) {
    memset(&pre, 0, sizeof(pre));
    memset(&post, 0, sizeof(post));
    memset(prods, 0, sizeof(prods));
    nprods = 0;
    closed_flag = false;
    memset(payload, 'x', sizeof(payload) - 1);
    payload[sizeof(payload) - 1] = 0;
    bool bg = true, have_logger = false, na = false, rfc = false, std = false, stdf = false;
    int filter = 6;
    static bool registered;
    if (!registered) {
        registered = true;
        subjects_register();
    }
    for (int i = 0; i < nlines; ++i) {
        char *dup = strdup(lines[i]);
        char *save = NULL;
        char *tok = strtok_r(dup, " ", &save);
        if (!tok) {
        } else if (strcmp(tok, "LOGGER") == 0) {
            const char *m = strtok_r(NULL, " ", &save);
            bg = strcmp(m, "bg") == 0;
            na = strcmp(m, "na") == 0;
            stdf = strcmp(m, "stdf") == 0;
            std = stdf || strcmp(m, "std") == 0;
            filter = atoi(strtok_r(NULL, " ", &save));
            const char *df = strtok_r(NULL, " ", &save);
            rfc = df && strcmp(df, "rfc") == 0;
            const char *wf = strtok_r(NULL, " ", &save); /* optional: wf<n> = every n-th write fails */
            wfail = (wf && wf[0] == 'w' && wf[1] == 'f') ? atoi(wf + 2) : 0;
            wcount = 0;
            have_logger = true;
        } else if (strcmp(tok, "PRE") == 0) {
            parse_ops(&pre, &save);
        } else if (strcmp(tok, "POST") == 0) {
            parse_ops(&post, &save);
        } else if (strcmp(tok, "PRODUCER") == 0) {
            struct prog *p = &prods[nprods++];
            p->k = atoi(strtok_r(NULL, " ", &save));
            parse_ops(p, &save);
        } else if (strcmp(tok, "FMT") == 0) {
            int total = atoi(strtok_r(NULL, " ", &save)), level = atoi(strtok_r(NULL, " ", &save));
            int len = atoi(strtok_r(NULL, " ", &save)), shape = atoi(strtok_r(NULL, " ", &save));
            const char *sl = strtok_r(NULL, " ", &save);
            const char *df = strtok_r(NULL, " ", &save);
            run_fmt(total, level, len, shape, false, 0, sl ? atoi(sl) : 13, df && strcmp(df, "rfc") == 0);
        } else if (strcmp(tok, "LEVELSTR") == 0) {
            const char *txt = strtok_r(NULL, " ", &save);
            const char *upper = strtok_r(NULL, " ", &save); /* the driver's own upper-casing of <text>, passed through */
            enum aws_log_level lv = (enum aws_log_level)77;
            int rc = aws_string_to_log_level(txt ? txt : "", &lv);
            const char *back = NULL;
            int rc2 = rc == 0 ? aws_log_level_to_string(lv, &back) : -1;
            vh_begin("LevelStr");
            vh_str("text", txt ? txt : "");
            vh_str("upper", upper ? upper : "");
            vh_int("rc", rc);
            vh_int("level", rc == 0 ? (int)lv : -1);
            vh_int("rc2", rc2);
            vh_str("back", back ? back : "");
            vh_end();
        } else if (strcmp(tok, "NOLOGGER") == 0) {
            int level = atoi(strtok_r(NULL, " ", &save));
            aws_logger_set(NULL);
            size_t before = vh_live_blocks;
            emit_log(level, 9, 1, 5, 0, 0);
            vh_begin("NoLogger");
            vh_int("level", level);
            vh_int("cond", aws_logger_get_conditional(AWS_LS_COMMON_GENERAL, (enum aws_log_level)level) != NULL);
            vh_int("leak", vh_live_blocks != before);
            vh_end();
        } else if (strcmp(tok, "NADEF") == 0) {
            int f = atoi(strtok_r(NULL, " ", &save)), level = atoi(strtok_r(NULL, " ", &save));
            run_noalloc_default(f, level, atoi(strtok_r(NULL, " ", &save)));
        } else if (strcmp(tok, "NOALLOC") == 0) {
            int f = atoi(strtok_r(NULL, " ", &save)), level = atoi(strtok_r(NULL, " ", &save));
            int len = atoi(strtok_r(NULL, " ", &save)), shape = atoi(strtok_r(NULL, " ", &save));
            const char *sl = strtok_r(NULL, " ", &save);
            run_fmt(0, level, len, shape, true, f, sl ? atoi(sl) : 12, false);
        }
        free(dup);
    }
    if (!have_logger) {
        return;
    }
    cur_dfmt = (rfc && !na && !std && !stdf) ? "rfc" : "iso"; /* only the pipeline logger built here takes a date format */
    char *na_mem = NULL;
    size_t na_size = 0;
    FILE *na_stream = NULL;
    if (na) {
        na_stream = open_memstream(&na_mem, &na_size);
        struct aws_logger_standard_options opt = {.level = (enum aws_log_level)filter, .filename = NULL, .file = na_stream};
        aws_logger_init_noalloc(&logger, vh_alloc(), &opt);
        aws_logger_set(&logger);
        vh_begin("Setup");
        vh_str("mode", "na");
        vh_int("filter", filter);
        vh_int("main", vs_self());
        vh_int("rc", 0);
        vh_end();
    } else if (std) {
        snprintf(std_path, sizeof(std_path), "%s.%d.log", vs_out_path, (int)getpid());
        remove(std_path);
        if (stdf) {
            std_stream = fopen(std_path, "w");
        }
        struct aws_logger_standard_options opt = {
            .level = (enum aws_log_level)filter, .filename = stdf ? NULL : std_path, .file = stdf ? std_stream : NULL};
        int rc = aws_logger_init_standard(&logger, vh_alloc(), &opt);
        aws_logger_set(&logger);
        vh_begin("Setup");
        vh_str("mode", "std");
        vh_int("filter", filter);
        vh_int("main", vs_self());
        vh_int("rc", rc);
        vh_end();
    } else {
        struct aws_log_formatter_standard_options fopt = {.date_format = rfc ? AWS_DATE_FORMAT_RFC822 : AWS_DATE_FORMAT_ISO_8601};
        aws_log_formatter_init_default(&formatter, vh_alloc(), &fopt);
        writer.vtable = &writer_vtable;
        writer.allocator = vh_alloc();
        writer.impl = NULL;
        if (bg) {
            aws_log_channel_init_background(&channel, vh_alloc(), &writer);
        } else {
            aws_log_channel_init_foreground(&channel, vh_alloc(), &writer);
        }
        aws_logger_init_from_external(&logger, vh_alloc(), &formatter, &channel, &writer, (enum aws_log_level)filter);
        aws_logger_set(&logger);
        vh_begin("Setup");
        vh_str("mode", bg ? "bg" : "fg");
        vh_int("filter", filter);
        vh_int("main", vs_self());
        vh_int("rc", 0);
        vh_end();
    }
    pre.k = 0;
    do_ops(&pre);
    for (int i = 0; i < nprods; ++i) {
        aws_thread_init(&prods[i].thread, vh_alloc());
        aws_thread_launch(&prods[i].thread, producer_fn, &prods[i], NULL);
    }
    for (int i = 0; i < nprods; ++i) {
        aws_thread_join(&prods[i].thread);
        aws_thread_clean_up(&prods[i].thread);
    }
    post.k = 0;
    post.seq = pre.seq;
    do_ops(&post);
    vh_begin("CleanUpBegin");
    vh_end();
    aws_logger_set(NULL);
    if (na) {
        /* the no-alloc logger writes straight to the stream: report what arrived there, line by line, in file order */
        fflush(na_stream);
        size_t start = 0;
        for (size_t i = 0; i < na_size; ++i) {
            if (na_mem[i] == '\n' || i + 1 == na_size) {
                vh_begin("Write");
                vh_int("on", -1);
                vh_int("afterclose", 0);
                describe_line((uint8_t *)na_mem + start, i + 1 - start);
                vh_end();
                start = i + 1;
            }
        }
        aws_logger_clean_up(&logger);
        fclose(na_stream);
        free(na_mem);
        closed_flag = true;
        vh_begin("CleanUpRet");
        vh_end();
        return;
    }
    if (std) {
        /* the logger owns formatter, channel and writer: one call flushes, joins the background thread and closes a
         * file it opened itself; what is in the file now is everything that will ever be there */
        aws_logger_clean_up(&logger);
        if (stdf) {
            fclose(std_stream);
        }
        FILE *f = fopen(std_path, "r");
        char *ln = NULL;
        size_t cap = 0;
        ssize_t got;
        while (f && (got = getline(&ln, &cap, f)) >= 0) {
            vh_begin("Write");
            vh_int("on", -1);
            vh_int("afterclose", 0);
            describe_line((uint8_t *)ln, (size_t)got);
            vh_end();
        }
        free(ln);
        if (f) {
            fclose(f);
        }
        remove(std_path);
        closed_flag = true;
        vh_begin("CleanUpRet");
        vh_end();
        return;
    }
    aws_logger_clean_up(&logger);
    aws_log_channel_clean_up(&channel);
    closed_flag = true;
    vh_begin("CleanUpRet");
    vh_end();
    aws_log_formatter_clean_up(&formatter);
}

int main(int argc, char **argv) {
    return vs_main(argc, argv, scenario);
}
