/* Harness core: ndjson event writer, line-based script reader, tracking allocator, death/watchdog
 * handlers. Header-only; every adapter includes it exactly once. Adapters are "dumb": they apply an
 * operation to the real library and report what they observed; they hold no expected values. */
#ifndef VH_CORE_H
#define VH_CORE_H

#include <aws/common/allocator.h>
#include <aws/common/common.h>
#include <aws/common/error.h>

#include <ctype.h>
#include <inttypes.h>
#include <locale.h>
#include <signal.h>
#include <stdarg.h>
#include <stdbool.h>
#include <stdint.h>
#include <stdio.h>
#include <stdlib.h>
#include <string.h>
#include <sys/mman.h>
#include <unistd.h>

#ifdef VH_COV
int __llvm_profile_write_file(void);
#    define VH_COV_FLUSH() __llvm_profile_write_file()
#else
#    define VH_COV_FLUSH() ((void)0)
#endif

/* ------------------------------------------------------------------ event writer */
static FILE *vh_out;
static int vh_first_field;
static char vh_outbuf[1 << 16];

static void vh_open(const char *path) {
    vh_out = fopen(path, "w");
    if (!vh_out) {
        perror(path);
        exit(3);
    }
    setvbuf(vh_out, vh_outbuf, _IOFBF, sizeof(vh_outbuf));
}
static void vh_sep(void) {
    if (!vh_first_field) {
        fputc(',', vh_out);
    }
    vh_first_field = 0;
}
/* A library that loops (a corrupted list walked for ever) can make a harness emit events until the watchdog fires - tens
 * of gigabytes.  No execution of any check comes near VH_MAX_EVENTS per process; beyond it the run ends the way a crash does
 * (Died, signal number 99), which every check reports. */
#define VH_MAX_EVENTS 4000000ul
static unsigned long vh_nevents;
static void vh_die_line(int sig);
static void vh_begin(const char *name) {
    if (++vh_nevents > VH_MAX_EVENTS) {
        vh_die_line(99);
        _exit(0);
    }
    fprintf(vh_out, "{\"e\":\"%s\"", name);
    vh_first_field = 0;
}
static void vh_end(void) {
    fputs("}\n", vh_out);
}
static void vh_int(const char *k, long long v) {
    vh_sep();
    fprintf(vh_out, "\"%s\":%lld", k, v);
}
static void vh_bool(const char *k, int v) {
    vh_sep();
    fprintf(vh_out, "\"%s\":%s", k, v ? "true" : "false");
}
static void vh_str(const char *k, const char *v) {
    vh_sep();
    fprintf(vh_out, "\"%s\":\"", k);
    for (const unsigned char *p = (const unsigned char *)(v ? v : ""); *p; ++p) {
        if (*p == '"' || *p == '\\') {
            fprintf(vh_out, "\\%c", *p);
        } else if (*p < 0x20 || *p >= 0x7f) {
            fprintf(vh_out, "\\u%04x", *p);
        } else {
            fputc(*p, vh_out);
        }
    }
    fputc('"', vh_out);
}
static void vh_bytes(const char *k, const uint8_t *p, size_t n) {
    vh_sep();
    fprintf(vh_out, "\"%s\":[", k);
    for (size_t i = 0; i < n; ++i) {
        fprintf(vh_out, i ? ",%u" : "%u", (unsigned)p[i]);
    }
    fputc(']', vh_out);
}
static void vh_ints(const char *k, const long long *p, size_t n) {
    vh_sep();
    fprintf(vh_out, "\"%s\":[", k);
    for (size_t i = 0; i < n; ++i) {
        fprintf(vh_out, i ? ",%lld" : "%lld", p[i]);
    }
    fputc(']', vh_out);
}
/* a 64-bit value as little-endian base-2^15 limbs (TLC integers are 32-bit), always 5 limbs */
static void vh_wide(const char *k, uint64_t v) {
    long long l[5];
    for (int i = 0; i < 5; ++i) {
        l[i] = (long long)(v & 0x7fff);
        v >>= 15;
    }
    vh_ints(k, l, 5);
}
static void vh_arr_begin(const char *k) {
    vh_sep();
    fprintf(vh_out, "\"%s\":[", k);
    vh_first_field = 1;
}
static void vh_arr_end(void) {
    fputc(']', vh_out);
    vh_first_field = 0;
}
static void vh_obj_begin(const char *k) {
    vh_sep();
    if (k) {
        fprintf(vh_out, "\"%s\":{", k);
    } else {
        fputc('{', vh_out);
    }
    vh_first_field = 1;
}
static void vh_obj_end(void) {
    fputc('}', vh_out);
    vh_first_field = 0;
}
static void vh_raw_int(long long v) {
    vh_sep();
    fprintf(vh_out, "%lld", v);
}
/* rc and error name of the last failed call: err is only meaningful when rc != 0 */
static void vh_rc(int rc) {
    vh_int("rc", rc);
    vh_str("err", rc == 0 ? "" : aws_error_name(aws_last_error()));
}

/* ------------------------------------------------------------------ death handling */
static volatile sig_atomic_t vh_dying;
static void vh_die_line(int sig) {
    if (vh_dying) {
        _exit(0);
    }
    vh_dying = 1;
    if (vh_out) {
        /* the current line may be half written: terminate it so the next one is parseable; the
         * runner drops unparseable lines in front of a Died event */
        fprintf(vh_out, "\n{\"e\":\"Died\",\"sig\":%d}\n", sig);
        fflush(vh_out);
    }
}
static void vh_sig_handler(int sig) {
    vh_die_line(sig);
    VH_COV_FLUSH();
    _exit(0);
}
#ifdef VH_NO_ASAN
static void __sanitizer_set_death_callback(void (*cb)(void)) {
    (void)cb;
}
#else
void __sanitizer_set_death_callback(void (*cb)(void));
#endif

static void vh_asan_death(void) {
    vh_die_line(6);
}
static void vh_install_handlers(unsigned watchdog_secs) {
    /* the 'process locale' family (lib/vlib/locale8.py): behave like an application that called setlocale(LC_ALL, "")
     * under a non-C locale before using the library; the self-test keeps a silently ignored locale from passing as a run */
    const char *want_locale = getenv("VH_SETLOCALE");
    if (want_locale && want_locale[0]) {
        if (!setlocale(LC_ALL, "") || !isalpha(0xE9) || isalpha(0xD7)) {
            fprintf(stderr, "vh: locale %s could not be selected\n", want_locale);
            _exit(97);
        }
    }
    aws_common_library_init(aws_default_allocator()); /* registers the error-code tables (aws_error_name) */
    int sigs[] = {SIGSEGV, SIGBUS, SIGABRT, SIGFPE, SIGILL, SIGALRM};
    for (size_t i = 0; i < sizeof(sigs) / sizeof(sigs[0]); ++i) {
        struct sigaction sa;
        memset(&sa, 0, sizeof(sa));
        sa.sa_handler = vh_sig_handler;
        sigaction(sigs[i], &sa, NULL);
    }
    __sanitizer_set_death_callback(vh_asan_death);
    if (getenv("VH_WATCHDOG")) { /* executions that are slow by design (files of hundreds of megabytes) */
        watchdog_secs = (unsigned)atoi(getenv("VH_WATCHDOG"));
    }
    if (watchdog_secs) {
        alarm(watchdog_secs);
    }
}

/* the harness's own number <-> text conversions must not follow the process locale under test (VH_SETLOCALE) */
static locale_t vh_c_locale(void) {
    static locale_t c;
    if (!c) {
        c = newlocale(LC_ALL_MASK, "C", (locale_t)0);
    }
    return c;
}
static int vh_snprintf_c(char *buf, size_t n, const char *fmt, double d) {
    locale_t old = uselocale(vh_c_locale());
    int r = snprintf(buf, n, fmt, d);
    uselocale(old);
    return r;
}
static double vh_strtod_c(const char *s) {
    locale_t old = uselocale(vh_c_locale());
    double d = strtod(s, NULL);
    uselocale(old);
    return d;
}

/* ------------------------------------------------------------------ script reader */
#define VH_MAXTOK 4096
static char *vh_line;
static size_t vh_line_cap;
static char *vh_tok[VH_MAXTOK];
static int vh_ntok;

/* reads next non-empty line, splits on blanks; returns 0 at EOF */
static int vh_next(FILE *f) {
    for (;;) {
        ssize_t n = getline(&vh_line, &vh_line_cap, f);
        if (n < 0) {
            return 0;
        }
        vh_ntok = 0;
        char *save = NULL;
        for (char *t = strtok_r(vh_line, " \t\r\n", &save); t && vh_ntok < VH_MAXTOK; t = strtok_r(NULL, " \t\r\n", &save)) {
            vh_tok[vh_ntok++] = t;
        }
        if (vh_ntok > 1 && strcmp(vh_tok[0], "ERR") == 0) {
            /* leave a stale error code behind, as an unrelated failed call on this thread would: the thread-local
             * last error is only meaningful right after a failure and must never influence a later call */
            aws_raise_error(atoi(vh_tok[1]));
            continue;
        }
        if (vh_ntok > 0 && vh_tok[0][0] != '#') {
            return 1;
        }
    }
}
static long long vh_argi(int i) {
    if (i >= vh_ntok) {
        fprintf(stderr, "script: missing argument %d for %s\n", i, vh_tok[0]);
        exit(3);
    }
    return strtoll(vh_tok[i], NULL, 0);
}
static uint64_t vh_argu(int i) {
    if (i >= vh_ntok) {
        fprintf(stderr, "script: missing argument %d for %s\n", i, vh_tok[0]);
        exit(3);
    }
    return strtoull(vh_tok[i], NULL, 0);
}
static const char *vh_args(int i) {
    if (i >= vh_ntok) {
        fprintf(stderr, "script: missing argument %d for %s\n", i, vh_tok[0]);
        exit(3);
    }
    return vh_tok[i];
}
static bool vh_is(const char *op) {
    return strcmp(vh_tok[0], op) == 0;
}

/* ------------------------------------------------------------------ tracking allocator
 * malloc-backed (so ASan redzones delimit every block exactly), with a side table that knows each live
 * block's size: release-time inspection (was the payload zeroed?), balance, byte totals. */
struct vh_blk {
    void *p;
    size_t n;
};
#define VH_TAB (1u << 16)
static struct vh_blk vh_tab[VH_TAB];
static size_t vh_live_blocks, vh_live_bytes, vh_total_acquires, vh_total_releases;
static int vh_last_release_zeroed = -1; /* 1: every byte of the last released block was 0; 0: not; -1 none yet */
static size_t vh_last_release_size;
static size_t vh_nonzero_releases; /* number of released blocks (size>0) that were NOT all-zero */
static size_t vh_unknown_releases; /* releases of pointers the allocator never handed out */

static size_t vh_slot(void *p) {
    return (size_t)(((uintptr_t)p >> 4) * 0x9E3779B97F4A7C15ull >> 48) & (VH_TAB - 1);
}
static void vh_tab_put(void *p, size_t n) {
    size_t i = vh_slot(p);
    while (vh_tab[i].p && vh_tab[i].p != (void *)1) {
        i = (i + 1) & (VH_TAB - 1);
    }
    vh_tab[i].p = p;
    vh_tab[i].n = n;
    vh_live_blocks++;
    vh_live_bytes += n;
}
static struct vh_blk *vh_tab_find(void *p) {
    size_t i = vh_slot(p);
    while (vh_tab[i].p) {
        if (vh_tab[i].p == p) {
            return &vh_tab[i];
        }
        i = (i + 1) & (VH_TAB - 1);
    }
    return NULL;
}
/* Optional address recycling: released blocks are kept (poisoned, so any use is still an ASan report) and the
 * next acquire of the same size gets the most recently released one back. ASan's own quarantine would otherwise
 * make address reuse - and every defect that needs it, e.g. a table keyed by address - unreachable. */
static int vh_recycle;
static struct vh_blk vh_rcy[128];
static int vh_nrcy;
#if defined(VS_TSAN) || defined(VH_NO_ASAN)
static void __asan_poison_memory_region(void const volatile *addr, size_t size) {
    (void)addr;
    (void)size;
}
static void __asan_unpoison_memory_region(void const volatile *addr, size_t size) {
    (void)addr;
    (void)size;
}
#else
void __asan_poison_memory_region(void const volatile *addr, size_t size);
void __asan_unpoison_memory_region(void const volatile *addr, size_t size);
#endif

/* set by the controlled scheduler when page recycling is on: large blocks served from inside pages the library gave back */
static void *(*vh_take_page_block)(size_t n);
static bool (*vh_give_page_block)(void *p);
static size_t vh_page_blocks; /* how many blocks were served that way */

/* set by the controlled scheduler: memory allocation is a place where a real thread can be preempted for long */
static void (*vh_alloc_point)(void);
static size_t vh_block_size_raw(void *p) {
    struct vh_blk *b = p ? vh_tab_find(p) : NULL;
    return b ? b->n : (size_t)-1;
}
/* Blocks of a gigabyte and more are address space only (mmap, nothing reserved): a request of 4 GiB + 100 bytes is an
 * ordinary call on a 64-bit machine, but filling or scanning it is not something 16 harnesses can do at once.  Callers
 * touch the first and the last VH_EDGE bytes of such a block. */
#define VH_HUGE ((size_t)1 << 30)
#define VH_EDGE ((size_t)4096)
static void *vh_huge_map(size_t n) {
    void *p = mmap(NULL, n, PROT_READ | PROT_WRITE, MAP_PRIVATE | MAP_ANONYMOUS | MAP_NORESERVE, -1, 0);
    if (p == MAP_FAILED) {
        fprintf(stderr, "vh: cannot map %zu bytes of address space\n", n);
        _exit(98);
    }
    return p;
}
static void *vh_acq(struct aws_allocator *a, size_t n) {
    (void)a;
    if (vh_alloc_point) {
        vh_alloc_point();
    }
    void *p = NULL;
    if (n >= VH_HUGE) {
        p = vh_huge_map(n);
        memset(p, 0xA5, VH_EDGE);
        memset((uint8_t *)p + n - VH_EDGE, 0xA5, VH_EDGE);
        vh_tab_put(p, n);
        vh_total_acquires++;
        return p;
    }
#ifndef VS_TSAN /* recycling bypasses free/malloc, which is where the race detector learns that a block changed hands */
    if (vh_recycle) {
        for (int i = vh_nrcy - 1; i >= 0; --i) {
            if (vh_rcy[i].n == n) {
                p = vh_rcy[i].p;
                memmove(&vh_rcy[i], &vh_rcy[i + 1], (size_t)(vh_nrcy - i - 1) * sizeof(vh_rcy[0]));
                vh_nrcy--;
                __asan_unpoison_memory_region(p, n);
                break;
            }
        }
    }
#endif
    if (!p && vh_take_page_block && n > 512) {
        p = vh_take_page_block(n);
        if (p) {
            vh_page_blocks++;
            vh_tab_put(p, n); /* contents deliberately left as found */
            vh_total_acquires++;
            return p;
        }
    }
    if (!p) {
        p = malloc(n ? n : 1);
    }
    memset(p, 0xA5, n);
    vh_tab_put(p, n);
    vh_total_acquires++;
    return p;
}
static void vh_note_release(void *p) {
    struct vh_blk *b = vh_tab_find(p);
    if (!b) {
        vh_unknown_releases++;
        return;
    }
    int z = 1;
    for (size_t i = 0; i < b->n; ++i) {
        if (b->n >= VH_HUGE && i == VH_EDGE) {
            i = b->n - VH_EDGE; /* only the edges of an address-space-only block are looked at */
        }
        if (((uint8_t *)p)[i]) {
            z = 0;
            break;
        }
    }
    vh_last_release_zeroed = z;
    vh_last_release_size = b->n;
    if (!z && b->n) {
        vh_nonzero_releases++;
    }
    vh_live_blocks--;
    vh_live_bytes -= b->n;
    b->p = (void *)1; /* tombstone */
    vh_total_releases++;
}
static void vh_rel(struct aws_allocator *a, void *p) {
    (void)a;
    if (!p) {
        return;
    }
    if (vh_alloc_point) {
        vh_alloc_point();
    }
    size_t n = vh_block_size_raw(p);
    vh_note_release(p);
    if (n != (size_t)-1 && n >= VH_HUGE) {
        munmap(p, n);
        return;
    }
    if (vh_give_page_block && n != (size_t)-1 && vh_give_page_block(p)) {
        return;
    }
#ifndef VS_TSAN
    if (vh_recycle && n != (size_t)-1 && n > 0 && vh_nrcy < 128) {
        __asan_poison_memory_region(p, n);
        vh_rcy[vh_nrcy].p = p;
        vh_rcy[vh_nrcy].n = n;
        vh_nrcy++;
        return;
    }
#endif
    free(p);
}
static void *vh_realloc(struct aws_allocator *a, void *old, size_t oldn, size_t newn) {
    (void)oldn;
    void *p = vh_acq(a, newn);
    if (old) {
        struct vh_blk *b = vh_tab_find(old);
        size_t c = b ? b->n : 0;
        c = c < newn ? c : newn;
        if (c >= VH_HUGE) { /* the edges of what is kept, see VH_HUGE */
            memcpy(p, old, VH_EDGE);
            memcpy((uint8_t *)p + c - VH_EDGE, (uint8_t *)old + c - VH_EDGE, VH_EDGE);
        } else {
            memcpy(p, old, c);
        }
        vh_rel(a, old);
    }
    return p;
}
static void *vh_calloc(struct aws_allocator *a, size_t k, size_t n) {
    void *p = vh_acq(a, k * n);
    if (k * n >= VH_HUGE) {
        memset(p, 0, VH_EDGE); /* the rest is untouched zero pages */
        memset((uint8_t *)p + k * n - VH_EDGE, 0, VH_EDGE);
    } else {
        memset(p, 0, k * n);
    }
    return p;
}
static struct aws_allocator vh_allocator = {
    .mem_acquire = vh_acq,
    .mem_release = vh_rel,
    .mem_realloc = vh_realloc,
    .mem_calloc = vh_calloc,
};
static struct aws_allocator *vh_alloc(void) {
    return &vh_allocator;
}
/* size the allocator recorded for a live block, or (size_t)-1 */
static size_t vh_block_size(void *p) {
    struct vh_blk *b = p ? vh_tab_find(p) : NULL;
    return b ? b->n : (size_t)-1;
}

/* deterministic PRNG for drivers (splitmix64) */
static uint64_t vh_rng_state;
static uint64_t vh_rand(void) {
    uint64_t z = (vh_rng_state += 0x9E3779B97F4A7C15ull);
    z = (z ^ (z >> 30)) * 0xBF58476D1CE4E5B9ull;
    z = (z ^ (z >> 27)) * 0x94D049BB133111EBull;
    return z ^ (z >> 31);
}
static uint64_t vh_randn(uint64_t n) {
    return n ? vh_rand() % n : 0;
}

#endif
