/* C20 scenario: aws_thread launch / join / at-exit callbacks / managed threads under the controlled scheduler.
 * Scenario lines:
 *   THREAD <i> <J|M>[<cpu>][n][r<k>] <op> ...   (r<k>: launched on the handle of the joined thread k, without a new init)
 *   THREAD <i> <J|M>[<cpu>][n] <op> ...   defines thread i (joinable or managed; optionally pinned to cpu <cpu> - one that
 *                                 does not exist makes the first pthread_create fail and the library retry unpinned -
 *                                 and/or given a name) and the script its function runs:
 *        A[<ms>]      register one more at-exit callback (numbered 1,2,.. per thread in registration order); with <ms> it
 *                     sleeps that many virtual milliseconds when it runs
 *        N            register an at-exit callback that, when it runs, registers one more
 *        B<n>         aws_thread_call_once on once-flag n with a once-function that registers an at-exit callback for the
 *                     thread it runs on (lazy per-thread initialisation)
 *        L<j>         launch thread j (must be managed) from inside this thread
 *        P            explicit schedule point
 *        O<n>         aws_thread_call_once on once-flag n (1..3); the once-function contains a schedule point
 *        Z<ms>        aws_thread_current_sleep for <ms> virtual milliseconds
 *        C+ / C-      (joinable threads) aws_thread_increment_unjoined_count / aws_thread_decrement_unjoined_count
 *        S            (joinable threads) aws_thread_join on the thread's own handle: refused, and nothing changes
 *        V            the thread's view of itself: id (aws_thread_current_thread_id vs aws_thread_get_id of its own
 *                     aws_thread and of the main thread), name, aws_thread_current_sleep(1 ms) against the clock
 *   MAIN <op> ...                 ops of the scenario's main thread:
 *        L<i>         launch thread i        J<i>  join (joinable) thread i
 *        JA           aws_thread_join_all_managed, then log the managed-thread count
 *        T<ms>        aws_thread_set_managed_join_timeout_ns(<ms> milliseconds); T0 = unbounded again
 *        P            schedule point          O<n>  aws_thread_call_once on once-flag n
 *        I            aws_common_library_init() once more (dependent libraries do this; it is documented as idempotent)
 */
#include "vh_core.h"

#include "vsched/vsched_impl.h"

#include <aws/common/clock.h>
#include <aws/common/string.h>
#include <aws/common/thread.h>

#define MAXTH 10
#define MAXOPS 16

struct tdef {
    int id;
    bool managed;
    int cpu; /* -1 = not pinned */
    bool named;
    int nops;
    char ops[MAXOPS][8];
    struct aws_thread thread;
    int nreg;
    bool defined;
    int reuse; /* > 0: this (joinable) thread is launched on the handle of thread <reuse>, which has been joined by then - the
                * handle is initialised once and launched again, the way a stopped and restarted event loop does */
};
#define HANDLE(d) ((d)->reuse > 0 ? &T[(d)->reuse].thread : &(d)->thread)
static struct tdef T[MAXTH];
struct cbarg {
    int thr, idx;
    int sleep_ms; /* the callback takes that long (virtual time): clean-up work at thread exit */
};
static struct cbarg cbargs[MAXTH][MAXOPS * 2];

static void launch(int j);
static int launched[MAXTH];

/* once-flags: re-armed for every execution (each execution is a process of its own, forked before the scenario runs) */
#define NONCE 3
static aws_thread_once once_flags[NONCE + 1];
static int once_tag[NONCE + 1];
static aws_thread_id_t main_id;
/* the aws_thread whose function the calling OS thread is running (NULL on the scenario's main thread) */
static __thread struct tdef *cur_def;
static bool once_reg[NONCE + 1]; /* the once-function of flag n also registers an at-exit callback for its thread */
static void register_cb(struct tdef *d, bool nested);
static __thread int pending_cb_sleep; /* op A<ms>: the next callback registered by this thread sleeps that long when it runs */
static void once_fn(void *ud) {
    int n = (int)((int *)ud - once_tag);
    vh_begin("OnceRan");
    vh_int("n", n);
    vh_int("argok", n >= 1 && n <= NONCE && ud == &once_tag[n]);
    vh_int("on", vs_self());
    vh_end();
    vs_point(); /* other threads may call in while the function is still running */
    if (n >= 1 && n <= NONCE && once_reg[n] && cur_def) {
        register_cb(cur_def, false); /* lazy per-thread initialisation that wants to be undone when the thread ends */
    }
    vh_begin("OnceEnd");
    vh_int("n", n);
    vh_end();
}
static void do_once(int n) {
    if (n < 1 || n > NONCE) {
        return;
    }
    aws_thread_call_once(&once_flags[n], once_fn, &once_tag[n]);
    vh_begin("OnceRet");
    vh_int("n", n);
    vh_int("on", vs_self());
    vh_end();
}

static void at_exit_cb(void *ud) {
    struct cbarg *a = ud;
    vh_begin("AtExit");
    vh_int("thr", a->thr);
    vh_int("idx", a->idx);
    vh_int("on", vs_self());
    vh_end();
    if (a->sleep_ms > 0) {
        aws_thread_current_sleep((uint64_t)a->sleep_ms * 1000000ull);
    }
}

/* a callback that registers one more callback while the callbacks are being run */
static void at_exit_nest_cb(void *ud) {
    struct cbarg *a = ud;
    at_exit_cb(ud);
    register_cb(&T[a->thr], false);
}
static void register_cb(struct tdef *d, bool nested) {
    if (d->nreg + 1 >= MAXOPS * 2) {
        return;
    }
    int idx = ++d->nreg;
    cbargs[d->id][idx].thr = d->id;
    cbargs[d->id][idx].idx = idx;
    cbargs[d->id][idx].sleep_ms = pending_cb_sleep;
    pending_cb_sleep = 0;
    int rc = aws_thread_current_at_exit(nested ? at_exit_nest_cb : at_exit_cb, &cbargs[d->id][idx]);
    vh_begin("AtExitReg");
    vh_int("thr", d->id);
    vh_int("idx", idx);
    vh_int("rc", rc);
    vh_end();
}

static void thread_fn(void *arg) {
    struct tdef *d = arg;
    cur_def = d;
    vh_begin("FnRan");
    vh_int("thr", d->id);
    vh_int("on", vs_self());
    vh_int("argok", d == &T[d->id]);
    vh_end();
    for (int i = 0; i < d->nops; ++i) {
        const char *op = d->ops[i];
        if (op[0] == 'A') {
            pending_cb_sleep = atoi(op + 1); /* "A" = 0 */
            register_cb(d, false);
        } else if (op[0] == 'N') {
            register_cb(d, true);
        } else if (op[0] == 'B') {
            int n = atoi(op + 1);
            if (n >= 1 && n <= NONCE) {
                once_reg[n] = true;
                do_once(n);
            }
        } else if (op[0] == 'L') {
            launch(atoi(op + 1));
        } else if (op[0] == 'P') {
            vs_point();
        } else if (op[0] == 'O') {
            do_once(atoi(op + 1));
        } else if (op[0] == 'Z') {
            aws_thread_current_sleep((uint64_t)atoi(op + 1) * 1000000ull);
        } else if (op[0] == 'C' && !d->managed) {
            /* C+ / C- : this (joinable) thread counts itself among the threads join-all waits for, the way event-loop
             * threads of dependent libraries do, and takes itself out again */
            const char *nm = op[1] == '+' ? "CountInc" : "CountDec";
            char ev[24];
            snprintf(ev, sizeof(ev), "%sBegin", nm);
            vh_begin(ev);
            vh_int("thr", d->id);
            vh_end();
            if (op[1] == '+') {
                aws_thread_increment_unjoined_count();
            } else {
                aws_thread_decrement_unjoined_count();
            }
            snprintf(ev, sizeof(ev), "%sEnd", nm);
            vh_begin(ev);
            vh_int("thr", d->id);
            vh_end();
        } else if (op[0] == 'S' && !d->managed) {
            /* a join that must be refused: the thread on its own handle.  The handle stays what it was - the real join
             * by the launcher comes later. */
            for (int w = 0; w < 200 && !__atomic_load_n(&launched[d->id], __ATOMIC_ACQUIRE); ++w) {
                aws_thread_current_sleep(1000000); /* the launcher is still filling in the handle */
            }
            if (!__atomic_load_n(&launched[d->id], __ATOMIC_ACQUIRE)) {
                continue;
            }
            VS_TSAN_ACQUIRE(&launched[d->id]);
            int rc = aws_thread_join(HANDLE(d));
            vh_begin("SelfJoin");
            vh_int("thr", d->id);
            vh_int("rc", rc);
            vh_end();
        } else if (op[0] == 'V') {
            aws_thread_id_t me = aws_thread_current_thread_id();
            struct aws_string *nm = NULL;
            int nrc = aws_thread_current_name(vh_alloc(), &nm);
            uint64_t t0 = 0, t1 = 0;
            aws_high_res_clock_get_ticks(&t0);
            aws_thread_current_sleep(1000000);
            aws_high_res_clock_get_ticks(&t1);
            vh_begin("SelfView");
            vh_int("thr", d->id);
            vh_int("ideq", aws_thread_thread_id_equal(me, aws_thread_get_id(HANDLE(d))));
            vh_int("idmain", aws_thread_thread_id_equal(me, main_id));
            vh_int("named", d->named);
            vh_int("nameok", nrc == 0 && nm != NULL && aws_string_eq_c_str(nm, "verif-thread"));
            vh_int("sleptok", t1 - t0 >= 1000000);
            vh_end();
            aws_string_destroy(nm);
        }
    }
    vh_begin("FnEnd");
    vh_int("thr", d->id);
    vh_end();
}

static void launch(int j) {
    struct tdef *d = &T[j];
    struct aws_thread_options opt = *aws_default_thread_options();
    opt.join_strategy = d->managed ? AWS_TJS_MANAGED : AWS_TJS_MANUAL;
    opt.cpu_id = d->cpu;
    if (d->named) {
        opt.name = aws_byte_cursor_from_c_str("verif-thread");
    }
    if (d->reuse <= 0) {
        aws_thread_init(&d->thread, vh_alloc());
    }
    vh_begin("Launch");
    vh_int("thr", j);
    vh_str("kind", d->managed ? "managed" : "manual");
    vh_end();
    int rc = aws_thread_launch(HANDLE(d), thread_fn, d, &opt);
    VS_TSAN_RELEASE(&launched[j]);
    __atomic_store_n(&launched[j], 1, __ATOMIC_RELEASE); /* the handle is complete: only now may the thread itself look at it */
    vh_begin("LaunchRet");
    vh_int("thr", j);
    vh_int("rc", rc);
    vh_int("detach", rc == 0 ? (int)aws_thread_get_detach_state(HANDLE(d)) : -1);
    vh_end();
}

static void scenario(char **lines, int nlines) {
    memset(T, 0, sizeof(T));
    char mainops[MAXOPS * 2][8];
    int nmain = 0;
    for (int i = 0; i < nlines; ++i) {
        char *dup = strdup(lines[i]);
        char *save = NULL;
        char *tok = strtok_r(dup, " ", &save);
        if (tok && strcmp(tok, "THREAD") == 0) {
            int id = atoi(strtok_r(NULL, " ", &save));
            struct tdef *d = &T[id];
            d->id = id;
            d->defined = true;
            const char *kind = strtok_r(NULL, " ", &save);
            d->managed = kind[0] == 'M';
            d->cpu = (kind[1] >= '0' && kind[1] <= '9') ? atoi(kind + 1) : -1;
            d->named = strchr(kind, 'n') != NULL;
            d->reuse = strchr(kind, 'r') ? atoi(strchr(kind, 'r') + 1) : 0;
            for (char *o = strtok_r(NULL, " ", &save); o && d->nops < MAXOPS; o = strtok_r(NULL, " ", &save)) {
                strncpy(d->ops[d->nops++], o, 7);
            }
        } else if (tok && strcmp(tok, "MAIN") == 0) {
            for (char *o = strtok_r(NULL, " ", &save); o && nmain < MAXOPS * 2; o = strtok_r(NULL, " ", &save)) {
                strncpy(mainops[nmain++], o, 7);
            }
        }
        free(dup);
    }
    {
        aws_thread_once fresh = AWS_THREAD_ONCE_STATIC_INIT;
        for (int n = 0; n <= NONCE; ++n) {
            once_flags[n] = fresh;
        }
    }
    main_id = aws_thread_current_thread_id();
    vh_begin("Setup");
    vh_int("main", vs_self());
    vh_end();
    for (int i = 0; i < nmain; ++i) {
        const char *op = mainops[i];
        if (strcmp(op, "JA") == 0) {
            uint64_t t0 = 0, t1 = 0;
            long uj0 = vs_unforced_fires;
            aws_sys_clock_get_ticks(&t0);
            vh_begin("JoinAllBegin");
            vh_wide("t", t0);
            vh_end();
            int rc = aws_thread_join_all_managed();
            size_t n = aws_thread_get_managed_thread_count();
            aws_sys_clock_get_ticks(&t1);
            vh_begin("JoinAllRet");
            vh_int("rc", rc);
            vh_int("count", (long long)n);
            vh_wide("t", t1);
            /* how often the virtual clock jumped under a runnable thread meanwhile: the library may then have read its
             * starting time later than this harness did, and "returned by its deadline" cannot be judged from here */
            vh_int("uj", vs_unforced_fires - uj0);
            vh_end();
        } else if (op[0] == 'T') {
            uint64_t ns = (uint64_t)atoi(op + 1) * 1000000ull;
            aws_thread_set_managed_join_timeout_ns(ns);
            vh_begin("SetJoinTimeout");
            vh_wide("ns", ns);
            vh_end();
        } else if (op[0] == 'L') {
            launch(atoi(op + 1));
        } else if (op[0] == 'J') {
            int j = atoi(op + 1);
            int rc = aws_thread_join(HANDLE(&T[j]));
            vh_begin("JoinRet");
            vh_int("thr", j);
            vh_int("rc", rc);
            vh_end();
            {
                bool again = false; /* a handle that will be launched again is not cleaned up in between */
                for (int q = 0; q < MAXTH; ++q) {
                    again |= T[q].defined && T[q].reuse == (T[j].reuse > 0 ? T[j].reuse : j) && q != j && !launched[q];
                }
                if (!again) {
                    aws_thread_clean_up(HANDLE(&T[j]));
                }
            }
        } else if (op[0] == 'P') {
            vs_point();
        } else if (op[0] == 'O') {
            do_once(atoi(op + 1));
        } else if (op[0] == 'I') {
            aws_common_library_init(aws_default_allocator());
            vh_begin("ReInit");
            vh_end();
        }
    }
}

int main(int argc, char **argv) {
    return vs_main(argc, argv, scenario);
}
