/* C19 adapter: aws_date_time initialisation, formatting, parsing and the accessors, driven by a script; one ndjson
 * event per call with its inputs, results and the observable state of the date-time afterwards. No expected values.
 *
 * 64-bit quantities are projected with fixed mixed-radix splits (TLC integers are 32-bit):
 *   seconds      -> d = floor(v / 86400), s = v mod 86400
 *   milliseconds -> d = v / 86400000, ms = v mod 86400000
 *   nanoseconds  -> d = v / 86400e9, s = (v mod 86400e9) / 1e9, ns = v mod 1e9
 *   double secs  -> floor part as seconds, round((v - floor) * 1000) as ms
 * PARSE lines carry an annotation (the fields the driver rendered the text from) that is only echoed. */
#include "vh_core.h"

#include <aws/common/byte_buf.h>
#include <aws/common/date_time.h>

#include <math.h>

static int hexval(int c) {
    return c <= '9' ? c - '0' : (c | 0x20) - 'a' + 10;
}
static uint8_t *unhex(const char *tok, size_t *n) {
    *n = (!strcmp(tok, "-") || !strcmp(tok, "X")) ? 0 : strlen(tok) / 2;
    uint8_t *p = malloc(*n ? *n : 1);
    for (size_t i = 0; i < *n; ++i) {
        p[i] = (uint8_t)(hexval(tok[2 * i]) * 16 + hexval(tok[2 * i + 1]));
    }
    return p;
}

static struct aws_date_time dt;
static bool have;
static uint8_t *last_text;
static size_t last_len;
static bool have_text;

static enum aws_date_format fmt_of(const char *s) {
    if (!strcmp(s, "rfc822")) {
        return AWS_DATE_FORMAT_RFC822;
    }
    if (!strcmp(s, "iso")) {
        return AWS_DATE_FORMAT_ISO_8601;
    }
    if (!strcmp(s, "isobasic")) {
        return AWS_DATE_FORMAT_ISO_8601_BASIC;
    }
    return AWS_DATE_FORMAT_AUTO_DETECT;
}

static void split_secs(const char *kd, const char *ks, long long v) {
    long long d = v / 86400, s = v % 86400;
    if (s < 0) {
        s += 86400;
        d -= 1;
    }
    vh_int(kd, d);
    vh_int(ks, s);
}

/* everything the public accessors say about dt (UTC views) */
static void observe(void) {
    vh_int("ok", have);
    if (!have) {
        struct aws_date_time z;
        AWS_ZERO_STRUCT(z);
        dt = z;
    }
    split_secs("td", "ts", (long long)dt.timestamp);
    vh_int("y", aws_date_time_year(&dt, false));
    vh_int("mo", (int)aws_date_time_month(&dt, false));
    vh_int("md", aws_date_time_month_day(&dt, false));
    vh_int("h", aws_date_time_hour(&dt, false));
    vh_int("mi", aws_date_time_minute(&dt, false));
    vh_int("se", aws_date_time_second(&dt, false));
    vh_int("wd", (int)aws_date_time_day_of_week(&dt, false));
    double es = aws_date_time_as_epoch_secs(&dt);
    double fl = floor(es);
    split_secs("esd", "ess", (long long)fl);
    vh_int("esms", (long long)llround((es - fl) * 1000.0));
    uint64_t em = aws_date_time_as_millis(&dt);
    vh_int("emd", (long long)(em / 86400000ull));
    vh_int("emms", (long long)(em % 86400000ull));
    uint64_t en = aws_date_time_as_nanos(&dt);
    vh_int("end", (long long)(en / 86400000000000ull));
    vh_int("ens", (long long)((en % 86400000000000ull) / 1000000000ull));
    vh_int("enn", (long long)(en % 1000000000ull));
}

int main(int argc, char **argv) {
    if (argc < 3) {
        return 3;
    }
    FILE *in = fopen(argv[1], "r");
    vh_open(argv[2]);
    vh_install_handlers(120);
    while (vh_next(in)) {
        if (vh_is("RESET")) {
            have = false;
            have_text = false;
            const char *tz = getenv("TZ");
            vh_begin("Reset");
            vh_str("tz", tz ? tz : "");
            vh_end();
        } else if (vh_is("INITMS")) {
            uint64_t ms = vh_argu(1);
            aws_date_time_init_epoch_millis(&dt, ms);
            have = true;
            vh_begin("Init");
            vh_str("how", "millis");
            vh_int("d", (long long)(ms / 86400000ull));
            vh_int("s", (long long)((ms % 86400000ull) / 1000ull));
            vh_int("ms", (long long)(ms % 1000ull));
            observe();
            vh_end();
        } else if (vh_is("INITSEC")) {
            /* INITSEC secs ms : the double secs + ms/1000 */
            long long secs = vh_argi(1), ms = vh_argi(2);
            double v = (double)secs + (double)ms / 1000.0;
            aws_date_time_init_epoch_secs(&dt, v);
            have = true;
            vh_begin("Init");
            vh_str("how", "secs");
            vh_int("d", secs / 86400);
            vh_int("s", secs % 86400);
            vh_int("ms", ms);
            observe();
            vh_end();
        } else if (vh_is("INITSECU")) {
            /* INITSECU secs micros : the double secs + micros/1e6 (finer than the millisecond grid) */
            long long secs = vh_argi(1), us = vh_argi(2);
            double v = (double)secs + (double)us / 1000000.0;
            aws_date_time_init_epoch_secs(&dt, v);
            have = true;
            vh_begin("InitU");
            vh_int("d", secs / 86400);
            vh_int("s", secs % 86400);
            vh_int("us", us);
            observe();
            vh_end();
            have = false; /* nothing is formatted from it: only the epoch views are judged */
        } else if (vh_is("FMT")) {
            /* FMT fmt short cap prelen */
            if (!have) {
                continue;
            }
            enum aws_date_format f = fmt_of(vh_args(1));
            int sh = (int)vh_argi(2);
            size_t cap = (size_t)vh_argu(3), prelen = (size_t)vh_argu(4);
            if (prelen > cap) {
                prelen = cap;
            }
            uint8_t *buf = malloc(cap ? cap : 1);
            for (size_t i = 0; i < cap; ++i) {
                buf[i] = i < prelen ? (uint8_t)(0x50 + i) : 0xEE;
            }
            uint8_t *pre = malloc(prelen ? prelen : 1);
            memcpy(pre, buf, prelen);
            struct aws_byte_buf out = aws_byte_buf_from_empty_array(buf, cap);
            out.len = prelen;
            int rc = sh ? aws_date_time_to_utc_time_short_str(&dt, f, &out) : aws_date_time_to_utc_time_str(&dt, f, &out);
            vh_begin("Format");
            vh_str("fmt", vh_args(1));
            vh_int("short", sh);
            vh_int("cap", (long long)cap);
            vh_bytes("pre", pre, prelen);
            free(pre);
            vh_rc(rc);
            vh_int("len", (long long)(out.len > 100000 ? 100000 : out.len));
            vh_bytes("out", buf, out.len <= cap ? out.len : 0);
            vh_end();
            free(last_text);
            last_text = NULL;
            have_text = false;
            if (rc == 0 && out.len >= prelen && out.len <= cap) {
                last_len = out.len - prelen;
                last_text = malloc(last_len ? last_len : 1);
                memcpy(last_text, buf + prelen, last_len);
                have_text = true;
            }
            free(buf);
        } else if (vh_is("PARSELAST") || vh_is("PARSE")) {
            /* PARSELAST fmt | PARSE fmt text style dateonly Y M D h m s fsep frac zlit zsign zh zm zcolon [nowd] */
            bool last = vh_is("PARSELAST");
            if (last && !have_text) {
                continue;
            }
            enum aws_date_format f = fmt_of(vh_args(1));
            size_t n;
            uint8_t *t;
            if (last) {
                n = last_len;
                t = malloc(n ? n : 1);
                memcpy(t, last_text, n);
            } else {
                t = unhex(vh_args(2), &n);
            }
            /* both entry points: the cursor form, and the byte-buffer form with the text at the start of a buffer that has
             * spare room behind it (an exact-size heap block of capacity n + extra) */
            static unsigned parse_calls;
            static const size_t extras[] = {0, 1, 40, 72, 101, 200};
            int rc;
            if (++parse_calls % 3 == 0) {
                size_t cap = n + extras[(parse_calls / 3) % 6];
                uint8_t *b = malloc(cap ? cap : 1);
                memcpy(b, t, n);
                memset(b + n, 0xEE, cap - n);
                struct aws_byte_buf bb = aws_byte_buf_from_array(b, n);
                bb.capacity = cap;
                rc = aws_date_time_init_from_str(&dt, &bb, f);
                free(b);
            } else {
                struct aws_byte_cursor c = aws_byte_cursor_from_array(t, n);
                rc = aws_date_time_init_from_str_cursor(&dt, &c, f);
            }
            have = rc == 0;
            vh_begin(last ? "ParseLast" : "ParseText");
            vh_str("fmt", vh_args(1));
            vh_bytes("text", t, n);
            if (!last) {
                vh_str("style", vh_args(3));
                vh_int("dateonly", vh_argi(4));
                vh_int("Y", vh_argi(5));
                vh_int("M", vh_argi(6));
                vh_int("D", vh_argi(7));
                vh_int("hh", vh_argi(8));
                vh_int("mm", vh_argi(9));
                vh_int("ss", vh_argi(10));
                vh_int("fsep", vh_argi(11));
                size_t k;
                uint8_t *p = unhex(vh_args(12), &k);
                vh_bytes("frac", p, k);
                free(p);
                p = unhex(vh_args(13), &k);
                vh_bytes("zlit", p, k);
                free(p);
                vh_int("zsign", vh_argi(14));
                vh_int("zh", vh_argi(15));
                vh_int("zm", vh_argi(16));
                vh_int("zcolon", vh_argi(17));
                vh_int("nowd", vh_ntok > 18 ? vh_argi(18) : 0); /* RFC 822 text written without the optional week day */
            }
            vh_rc(rc);
            free(t);
            observe();
            vh_end();
        }
    }
    free(last_text);
    vh_begin("End");
    vh_int("live", (long long)vh_live_blocks);
    vh_end();
    fclose(vh_out);
    return 0;
}
