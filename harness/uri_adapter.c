/* C13 adapter: aws_uri parsing / building / query iteration and the percent coders, driven by a script; one ndjson
 * event per real call with the inputs and everything the call reported. No expected values here.
 *
 * PARSE / BUILD lines carry, besides the text (or the builder options) that is handed to the library, an annotation
 * saying from which components the driver assembled it; the adapter only echoes the annotation into the event (the
 * specification checks that the annotation renders to exactly the text that was parsed and derives the expected
 * views from it).
 *
 * Views (aws_byte_cursor members of struct aws_uri, params of the query iterator) are projected to
 *   o = ptr - uri_str.buffer (-1: NULL pointer, -2: pointer outside [buffer, buffer+len]),  n = len,
 *   b = the n bytes at ptr (only read when the view lies inside the URI's own copy).
 * The caller's text is an exact-size heap block that is released before the views are read, so a view into the
 * caller's text instead of the URI's own copy is reported as outside (and never dereferenced). */
#include "vh_core.h"

#include <aws/common/array_list.h>
#include <aws/common/byte_buf.h>
#include <aws/common/uri.h>

static int hexval(int c) {
    return c <= '9' ? c - '0' : (c | 0x20) - 'a' + 10;
}
struct blob {
    uint8_t *p; /* exact-size heap block */
    size_t n;
    int present;
};
/* "X" = absent, "-" = present and empty, else hex */
static struct blob load(const char *tok) {
    struct blob b = {NULL, 0, 1};
    if (!strcmp(tok, "X")) {
        b.present = 0;
        b.p = malloc(1);
        return b;
    }
    b.n = strcmp(tok, "-") == 0 ? 0 : strlen(tok) / 2;
    b.p = malloc(b.n ? b.n : 1);
    for (size_t i = 0; i < b.n; ++i) {
        b.p[i] = (uint8_t)(hexval(tok[2 * i]) * 16 + hexval(tok[2 * i + 1]));
    }
    return b;
}
static void echo(const char *k, const char *tok) {
    struct blob b = load(tok);
    vh_bytes(k, b.p, b.n);
    free(b.p);
}
static void echo_has(const char *k, const char *tok) {
    vh_int(k, strcmp(tok, "X") != 0);
}

static struct aws_uri cur;
static bool have;

static void drop(void) {
    if (have) {
        aws_uri_clean_up(&cur);
        have = false;
    }
}

static void log_view(const char *k, const struct aws_byte_cursor *c) {
    const uint8_t *base = cur.uri_str.buffer;
    size_t tot = cur.uri_str.len;
    long long off;
    if (c->ptr == NULL) {
        off = -1;
    } else if (base && c->ptr >= base && c->ptr <= base + tot) {
        off = (long long)(c->ptr - base);
    } else {
        off = -2;
    }
    size_t n = c->len > 1000000 ? 1000000 : c->len;
    vh_obj_begin(k);
    vh_int("o", off);
    vh_int("n", (long long)n);
    if (off >= 0 && (size_t)off + n <= tot) {
        vh_bytes("b", c->ptr, n);
    } else {
        vh_bytes("b", NULL, 0);
    }
    vh_obj_end();
}

static void log_views(void) {
    vh_int("tot", (long long)cur.uri_str.len);
    vh_bytes("str", cur.uri_str.buffer, cur.uri_str.len);
    log_view("vsch", aws_uri_scheme(&cur));
    log_view("vauth", aws_uri_authority(&cur));
    log_view("vui", &cur.userinfo);
    log_view("vusr", &cur.user);
    log_view("vpw", &cur.password);
    log_view("vhost", aws_uri_host_name(&cur));
    log_view("vpath", aws_uri_path(&cur));
    log_view("vq", aws_uri_query_string(&cur));
    log_view("vpq", aws_uri_path_and_query(&cur));
    vh_wide("vport", (uint64_t)aws_uri_port(&cur));
}

static void log_param(const struct aws_uri_param *p) {
    vh_sep();
    fputc('{', vh_out);
    vh_first_field = 1;
    log_view("k", &p->key);
    log_view("v", &p->value);
    vh_obj_end();
}

/* a dynamic buffer with `prelen` bytes of known content and `slack` spare bytes of capacity */
static void make_buf(struct aws_byte_buf *buf, size_t prelen, size_t slack) {
    aws_byte_buf_init(buf, vh_alloc(), prelen + slack);
    for (size_t i = 0; i < prelen; ++i) {
        buf->buffer[i] = (uint8_t)(0x50 + i);
    }
    buf->len = prelen;
}

static uint8_t *last_enc;
static size_t last_enc_len;
static bool have_enc;

int main(int argc, char **argv) {
    if (argc < 3) {
        return 3;
    }
    FILE *in = fopen(argv[1], "r");
    vh_open(argv[2]);
    vh_install_handlers(120);
    while (vh_next(in)) {
        if (vh_is("RESET")) {
            drop();
            have_enc = false;
            vh_begin("Reset");
            vh_end();
        } else if (vh_is("PARSE")) {
            /* PARSE text sch usr pw host v6 port path q */
            drop();
            struct blob t = load(vh_args(1));
            struct aws_byte_cursor tc = aws_byte_cursor_from_array(t.p, t.n);
            int rc = aws_uri_init_parse(&cur, vh_alloc(), &tc);
            vh_begin("Parse");
            vh_bytes("text", t.p, t.n);
            free(t.p); /* the caller's text is gone before any view is looked at */
            echo_has("hs", vh_args(2));
            echo("sch", vh_args(2));
            echo_has("hu", vh_args(3));
            echo("usr", vh_args(3));
            echo_has("hw", vh_args(4));
            echo("pw", vh_args(4));
            echo("host", vh_args(5));
            vh_int("v6", vh_argi(6));
            echo_has("hp", vh_args(7));
            echo("port", vh_args(7));
            echo("path", vh_args(8));
            echo_has("hq", vh_args(9));
            echo("q", vh_args(9));
            vh_rc(rc);
            have = rc == 0;
            log_views();
            vh_end();
        } else if (vh_is("BUILD") || vh_is("BUILDF")) {
            bool free_host = vh_is("BUILDF"); /* a host text outside what the parser reads back: only the text is judged */
            /* BUILD sch host v6 port path N | S q | L n k1 v1 ... ; sch "X" = no scheme, port decimal (0 = none).
             * host is the bare host text; v6=1 hands "[" host "]" to the builder */
            drop();
            struct blob sch = load(vh_args(1)), host = load(vh_args(2)), path = load(vh_args(5));
            int v6 = (int)vh_argi(3);
            uint32_t port = (uint32_t)strtoul(vh_args(4), NULL, 10);
            const char *qm = vh_args(6);
            size_t hn = host.n + (v6 ? 2 : 0);
            uint8_t *hostbuf = malloc(hn ? hn : 1);
            if (v6) {
                hostbuf[0] = '[';
                memcpy(hostbuf + 1, host.p, host.n);
                hostbuf[hn - 1] = ']';
            } else {
                memcpy(hostbuf, host.p, host.n);
            }
            struct aws_uri_builder_options opt;
            AWS_ZERO_STRUCT(opt);
            opt.scheme = aws_byte_cursor_from_array(sch.p, sch.n);
            opt.host_name = aws_byte_cursor_from_array(hostbuf, hn);
            opt.path = aws_byte_cursor_from_array(path.p, path.n);
            opt.port = port;
            struct blob qs = {NULL, 0, 0};
            struct aws_array_list params;
            struct blob *kv = NULL;
            size_t np = 0;
            if (!strcmp(qm, "S")) {
                qs = load(vh_args(7));
                opt.query_string = aws_byte_cursor_from_array(qs.p, qs.n);
            } else if (!strcmp(qm, "L")) {
                np = (size_t)vh_argu(7);
                kv = calloc(2 * np + 1, sizeof(*kv));
                aws_array_list_init_dynamic(&params, vh_alloc(), np, sizeof(struct aws_uri_param));
                for (size_t i = 0; i < np; ++i) {
                    kv[2 * i] = load(vh_args((int)(8 + 2 * i)));
                    kv[2 * i + 1] = load(vh_args((int)(9 + 2 * i)));
                    struct aws_uri_param p = {
                        .key = aws_byte_cursor_from_array(kv[2 * i].p, kv[2 * i].n),
                        .value = aws_byte_cursor_from_array(kv[2 * i + 1].p, kv[2 * i + 1].n),
                    };
                    aws_array_list_push_back(&params, &p);
                }
                opt.query_params = &params;
            }
            int rc = aws_uri_init_from_builder_options(&cur, vh_alloc(), &opt);
            vh_begin(free_host ? "BuildFree" : "Build");
            vh_int("hs", sch.n > 0);
            vh_bytes("sch", sch.p, sch.n);
            vh_bytes("host", host.p, host.n);
            vh_int("v6", v6);
            vh_bytes("port", (const uint8_t *)vh_args(4), strlen(vh_args(4))); /* the decimal digits as given */
            vh_wide("portw", (uint64_t)port);
            vh_bytes("path", path.p, path.n);
            vh_str("qm", qm);
            vh_bytes("qs", qs.p, qs.n);
            vh_arr_begin("params");
            for (size_t i = 0; i < np; ++i) {
                vh_sep();
                fputc('{', vh_out);
                vh_first_field = 1;
                vh_bytes("k", kv[2 * i].p, kv[2 * i].n);
                vh_bytes("v", kv[2 * i + 1].p, kv[2 * i + 1].n);
                vh_obj_end();
            }
            vh_arr_end();
            /* the options and everything they point to are gone before any view is looked at */
            free(sch.p);
            free(host.p);
            free(hostbuf);
            free(path.p);
            free(qs.p);
            for (size_t i = 0; i < 2 * np; ++i) {
                free(kv[i].p);
            }
            free(kv);
            if (!strcmp(qm, "L")) {
                aws_array_list_clean_up(&params);
            }
            vh_rc(rc);
            have = rc == 0;
            log_views();
            vh_end();
        } else if (vh_is("QUERY")) {
            /* QUERY n eq1 k1 v1 ... : iterate the current URI's query both ways; the item annotation is echoed */
            if (!have) {
                continue;
            }
            size_t ni = (size_t)vh_argu(1);
            struct aws_uri_param p;
            AWS_ZERO_STRUCT(p);
            vh_begin("Query");
            vh_arr_begin("items");
            for (size_t i = 0; i < ni; ++i) {
                vh_sep();
                fputc('{', vh_out);
                vh_first_field = 1;
                vh_int("eq", vh_argi((int)(2 + 3 * i)));
                echo("k", vh_args((int)(3 + 3 * i)));
                echo("v", vh_args((int)(4 + 3 * i)));
                vh_obj_end();
            }
            vh_arr_end();
            vh_int("tot", (long long)cur.uri_str.len);
            vh_arr_begin("it");
            int guard = 0;
            while (guard++ < 200 && aws_uri_query_string_next_param(&cur, &p)) {
                log_param(&p);
            }
            vh_arr_end();
            vh_int("more", guard > 200);
            struct aws_array_list out;
            aws_array_list_init_dynamic(&out, vh_alloc(), 0, sizeof(struct aws_uri_param));
            int rc = aws_uri_query_string_params(&cur, &out);
            vh_rc(rc);
            vh_arr_begin("ls");
            for (size_t i = 0; i < aws_array_list_length(&out); ++i) {
                struct aws_uri_param q;
                aws_array_list_get_at(&out, &q, i);
                log_param(&q);
            }
            vh_arr_end();
            aws_array_list_clean_up(&out);
            vh_end();
        } else if (vh_is("ENC")) {
            /* ENC path|param x prelen slack */
            bool is_path = !strcmp(vh_args(1), "path");
            struct blob x = load(vh_args(2));
            size_t prelen = (size_t)vh_argu(3), slack = (size_t)vh_argu(4);
            struct aws_byte_buf buf;
            make_buf(&buf, prelen, slack);
            uint8_t *pre = malloc(prelen ? prelen : 1);
            memcpy(pre, buf.buffer, prelen);
            struct aws_byte_cursor xc = aws_byte_cursor_from_array(x.p, x.n);
            int rc = is_path ? aws_byte_buf_append_encoding_uri_path(&buf, &xc) : aws_byte_buf_append_encoding_uri_param(&buf, &xc);
            vh_begin("Enc");
            vh_str("kind", is_path ? "path" : "param");
            vh_bytes("inp", x.p, x.n);
            vh_bytes("pre", pre, prelen);
            free(pre);
            vh_rc(rc);
            vh_int("len", (long long)buf.len);
            vh_bytes("out", buf.buffer, buf.len <= buf.capacity ? buf.len : 0);
            vh_end();
            free(last_enc);
            last_enc = NULL;
            last_enc_len = 0;
            have_enc = false;
            if (rc == 0 && buf.len >= prelen && buf.len <= buf.capacity) {
                last_enc_len = buf.len - prelen;
                last_enc = malloc(last_enc_len ? last_enc_len : 1);
                memcpy(last_enc, buf.buffer + prelen, last_enc_len);
                have_enc = true;
            }
            free(x.p);
            aws_byte_buf_clean_up(&buf);
        } else if (vh_is("DEC") || vh_is("DECLAST")) {
            /* DEC text prelen slack | DECLAST prelen slack (decodes what the last ENC appended) */
            bool last = vh_is("DECLAST");
            if (last && !have_enc) {
                continue;
            }
            struct blob t;
            if (last) {
                t.n = last_enc_len;
                t.p = malloc(t.n ? t.n : 1);
                memcpy(t.p, last_enc, t.n);
            } else {
                t = load(vh_args(1));
            }
            size_t prelen = (size_t)vh_argu(last ? 1 : 2), slack = (size_t)vh_argu(last ? 2 : 3);
            struct aws_byte_buf buf;
            make_buf(&buf, prelen, slack);
            uint8_t *pre = malloc(prelen ? prelen : 1);
            memcpy(pre, buf.buffer, prelen);
            struct aws_byte_cursor tc = aws_byte_cursor_from_array(t.p, t.n);
            int rc = aws_byte_buf_append_decoding_uri(&buf, &tc);
            vh_begin("Dec");
            vh_str("src", last ? "last" : "text");
            vh_bytes("inp", t.p, t.n);
            vh_bytes("pre", pre, prelen);
            free(pre);
            vh_rc(rc);
            vh_int("len", (long long)buf.len);
            vh_bytes("out", buf.buffer, buf.len <= buf.capacity ? buf.len : 0);
            vh_end();
            free(t.p);
            aws_byte_buf_clean_up(&buf);
        }
    }
    drop();
    free(last_enc);
    vh_begin("End");
    vh_int("live", (long long)vh_live_blocks);
    vh_end();
    fclose(vh_out);
    return 0;
}
