/* C01 adapter: aws_byte_buf / aws_byte_cursor driven by a script. Applies each line to the real public API and
 * reports results plus the observable state after EVERY call: for each buffer len, cap, buffer==NULL, allocator!=NULL
 * and the bytes [0,len); for each cursor (base id, offset, len) derived by pointer arithmetic against the known
 * bases. No expected values live here.
 *
 * Sizes: script tokens MAX, MAX-k, HALF, HALF+k, HALF-k (HALF = SIZE_MAX>>1) or decimals; logged back in the model's
 * encoding (n -> n for n < 65536, HALF+d -> 1000000+d, SIZE_MAX-d -> 2000001-d, anything else -> -1), so the
 * checker never sees a 64-bit number (DESIGN 4.5). */
#include "vh_core.h"

#include <aws/common/array_list.h>
#include <aws/common/byte_buf.h>

#define NB 3
#define NC 4
#define HALFSZ (SIZE_MAX >> 1)

static struct aws_byte_buf B[NB + 1];
static struct aws_byte_cursor C[NC + 1];
static uint8_t *src;
static size_t nsrc;
static uint8_t *one; /* a valid 1-byte object: the pointer of cursors/arrays whose length is huge */
static uint8_t tbl1[256];

static size_t psize(int i) {
    const char *t = vh_args(i);
    if (!strncmp(t, "MAX", 3)) {
        return SIZE_MAX - (t[3] == '-' ? strtoull(t + 4, NULL, 10) : 0);
    }
    if (!strncmp(t, "HALF", 4)) {
        if (t[4] == '+') {
            return HALFSZ + strtoull(t + 5, NULL, 10);
        }
        if (t[4] == '-') {
            return HALFSZ - strtoull(t + 5, NULL, 10);
        }
        return HALFSZ;
    }
    return (size_t)strtoull(t, NULL, 10);
}
static long long enc(size_t v) {
    if (v < 65536) {
        return (long long)v;
    }
    if (v >= HALFSZ - 65536 && v <= HALFSZ + 65536) {
        return 1000000 + (long long)(v - HALFSZ + 65536) - 65536;
    }
    if (SIZE_MAX - v < 65536) {
        return 2000001 - (long long)(SIZE_MAX - v);
    }
    return -1;
}
static long long encdiff(ptrdiff_t d) {
    return (d < -65536 || d > 65536) ? -99999 : (long long)d;
}
/* buffer / cursor slot arguments are validated: a bad script is a harness error, not an observation */
static int argb(int i) {
    long long v = vh_argi(i);
    if (v < 1 || v > NB) {
        fprintf(stderr, "script: bad buffer id %lld\n", v);
        exit(3);
    }
    return (int)v;
}
static int argc_(int i, int allow0) {
    long long v = vh_argi(i);
    if (v < (allow0 ? 0 : 1) || v > NC) {
        fprintf(stderr, "script: bad cursor id %lld\n", v);
        exit(3);
    }
    return (int)v;
}

/* ---- projection */
static void proj(const struct aws_byte_cursor *c, long long *base, long long *off) {
    *off = 0;
    if (c->ptr == NULL) {
        *base = 0;
        return;
    }
    if (src && c->ptr >= src && c->ptr <= src + nsrc) {
        *base = -1;
        *off = c->ptr - src;
        return;
    }
    if (c->ptr >= one && c->ptr <= one + 1) {
        *base = -2;
        *off = c->ptr - one;
        return;
    }
    for (int i = 1; i <= NB; ++i) {
        if (B[i].buffer && c->ptr >= B[i].buffer && c->ptr <= B[i].buffer + B[i].capacity) {
            *base = i;
            *off = c->ptr - B[i].buffer;
            return;
        }
    }
    *base = -3;
}
static void log_cur(const char *k, const struct aws_byte_cursor *c) {
    long long base, off;
    proj(c, &base, &off);
    vh_obj_begin(k);
    vh_int("base", base);
    vh_int("off", off);
    vh_int("len", enc(c->len));
    vh_obj_end();
}
static void state(void) {
    vh_obj_begin("s");
    vh_arr_begin("b");
    for (int i = 1; i <= NB; ++i) {
        vh_obj_begin(NULL);
        vh_int("len", enc(B[i].len));
        vh_int("cap", enc(B[i].capacity));
        vh_int("null", B[i].buffer == NULL);
        vh_int("al", B[i].allocator != NULL);
        size_t n = B[i].len < B[i].capacity ? B[i].len : B[i].capacity;
        vh_bytes("d", B[i].buffer, B[i].buffer ? n : 0);
        vh_obj_end();
    }
    vh_arr_end();
    vh_arr_begin("c");
    for (int i = 1; i <= NC; ++i) {
        log_cur(NULL, &C[i]);
    }
    vh_arr_end();
    vh_obj_end();
}
static size_t rel0, relnz0;
static void rel_begin(void) {
    rel0 = vh_total_releases;
    relnz0 = vh_nonzero_releases;
}
static void rel_log(void) { /* blocks handed back to the allocator during the call, and how many were not all-zero */
    vh_int("rel", (long long)(vh_total_releases - rel0));
    vh_int("relnz", (long long)(vh_nonzero_releases - relnz0));
}
static int all_zero(const struct aws_byte_buf *b) {
    for (size_t i = 0; b->buffer && i < b->capacity; ++i) {
        if (b->buffer[i]) {
            return 0;
        }
    }
    return 1;
}
static void teardown(void) {
    for (int i = 1; i <= NB; ++i) {
        if (B[i].allocator) {
            aws_byte_buf_clean_up(&B[i]);
        }
        AWS_ZERO_STRUCT(B[i]);
    }
    for (int i = 1; i <= NC; ++i) {
        AWS_ZERO_STRUCT(C[i]);
    }
    free(src);
    src = NULL;
    nsrc = 0;
}
static aws_byte_predicate_fn *pred(const char *p) {
    if (!strcmp(p, "space")) {
        return aws_isspace;
    }
    if (!strcmp(p, "digit")) {
        return aws_isdigit;
    }
    if (!strcmp(p, "alpha")) {
        return aws_isalpha;
    }
    if (!strcmp(p, "alnum")) {
        return aws_isalnum;
    }
    return aws_isxdigit;
}
static const uint8_t *table(long long t) {
    return t == 0 ? aws_lookup_table_to_lower_get() : (t == 1 ? tbl1 : aws_lookup_table_hex_to_num_get());
}
static char *cstr_from_src(size_t off, size_t n) {
    char *s = malloc(n + 1);
    memcpy(s, src + off, n);
    s[n] = 0;
    return s;
}
static void log_ok(bool ok) {
    vh_int("ok", ok ? 1 : 0);
}
static void be_bytes(uint64_t v, int k, uint8_t *o) {
    for (int i = 0; i < k; ++i) {
        o[i] = (uint8_t)(v >> (8 * (k - 1 - i)));
    }
}

int main(int argc, char **argv) {
    if (argc < 3) {
        return 3;
    }
    FILE *in = fopen(argv[1], "r");
    vh_open(argv[2]);
    vh_install_handlers(120);
    struct aws_allocator *A = vh_alloc();
    one = malloc(1);
    one[0] = 0x5A;
    for (int i = 0; i < 256; ++i) {
        tbl1[i] = (uint8_t)(i * 7 + 3);
    }
    while (vh_next(in)) {
        if (vh_is("RESET")) {
            teardown();
            nsrc = (size_t)vh_argi(1);
            src = malloc(nsrc ? nsrc : 1);
            for (size_t i = 0; i < nsrc; ++i) {
                src[i] = (uint8_t)vh_argi(2 + (int)i);
            }
            vh_begin("Reset");
            vh_bytes("src", src, nsrc);
            vh_end();
            continue;
        }
        if (vh_is("END")) {
            break;
        }
        /* ------------------------------------------------ init family */
        if (vh_is("INIT")) {
            int b = argb(1);
            size_t n = psize(2);
            int rc = aws_byte_buf_init(&B[b], A, n);
            vh_begin("Init");
            vh_int("b", b);
            vh_int("n", enc(n));
            vh_rc(rc);
        } else if (vh_is("INITCOPY")) {
            int d = argb(1), s = argb(2);
            int rc = aws_byte_buf_init_copy(&B[d], A, &B[s]);
            vh_begin("InitCopy");
            vh_int("d", d);
            vh_int("sb", s);
            vh_rc(rc);
        } else if (vh_is("INITCUR")) {
            int d = argb(1), c = argc_(2, 0);
            int rc = aws_byte_buf_init_copy_from_cursor(&B[d], A, C[c]);
            vh_begin("InitCopyFromCursor");
            vh_int("d", d);
            vh_int("c", c);
            vh_rc(rc);
        } else if (vh_is("INITCACHE")) {
            int d = argb(1), k = (int)vh_argi(2);
            long long cs[3] = {0, 0, 0};
            for (int i = 0; i < k && i < 3; ++i) {
                cs[i] = argc_(3 + i, 0);
            }
            int rc;
            if (k == 1) {
                rc = aws_byte_buf_init_cache_and_update_cursors(&B[d], A, &C[cs[0]], NULL);
            } else if (k == 2) {
                rc = aws_byte_buf_init_cache_and_update_cursors(&B[d], A, &C[cs[0]], &C[cs[1]], NULL);
            } else {
                rc = aws_byte_buf_init_cache_and_update_cursors(&B[d], A, &C[cs[0]], &C[cs[1]], &C[cs[2]], NULL);
            }
            vh_begin("InitCache");
            vh_int("d", d);
            vh_ints("cs", cs, (size_t)k);
            vh_rc(rc);
        }
        /* ------------------------------------------------ appends */
        else if (vh_is("APPEND")) {
            int b = argb(1), c = argc_(2, 0);
            int rc = aws_byte_buf_append(&B[b], &C[c]);
            vh_begin("Append");
            vh_int("b", b);
            vh_int("c", c);
            vh_rc(rc);
        } else if (vh_is("APPENDLK")) {
            int b = argb(1), c = argc_(2, 0);
            long long t = vh_argi(3);
            int rc = aws_byte_buf_append_with_lookup(&B[b], &C[c], table(t));
            vh_begin("AppendWithLookup");
            vh_int("b", b);
            vh_int("c", c);
            vh_int("t", t);
            vh_rc(rc);
        } else if (vh_is("APPENDUPD")) {
            int b = argb(1), c = argc_(2, 0);
            int rc = aws_byte_buf_append_and_update(&B[b], &C[c]);
            vh_begin("AppendAndUpdate");
            vh_int("b", b);
            vh_int("c", c);
            vh_rc(rc);
        } else if (vh_is("CAT")) {
            int d = argb(1), k = (int)vh_argi(2);
            long long ss[3] = {0, 0, 0};
            for (int i = 0; i < k && i < 3; ++i) {
                ss[i] = argb(3 + i);
            }
            int rc;
            if (k == 1) {
                rc = aws_byte_buf_cat(&B[d], 1, &B[ss[0]]);
            } else if (k == 2) {
                rc = aws_byte_buf_cat(&B[d], 2, &B[ss[0]], &B[ss[1]]);
            } else {
                rc = aws_byte_buf_cat(&B[d], 3, &B[ss[0]], &B[ss[1]], &B[ss[2]]);
            }
            vh_begin("Cat");
            vh_int("d", d);
            vh_ints("ss", ss, (size_t)k);
            vh_rc(rc);
        } else if (vh_is("APPENDDYN")) {
            int b = argb(1), c = argc_(2, 0), sec = (int)vh_argi(3);
            rel_begin();
            int rc = sec ? aws_byte_buf_append_dynamic_secure(&B[b], &C[c]) : aws_byte_buf_append_dynamic(&B[b], &C[c]);
            vh_begin("AppendDynamic");
            vh_int("b", b);
            vh_int("c", c);
            vh_int("sec", sec);
            vh_rc(rc);
            rel_log();
        } else if (vh_is("APPENDBYTE")) {
            int b = argb(1), v = (int)vh_argi(2), sec = (int)vh_argi(3);
            rel_begin();
            int rc = sec ? aws_byte_buf_append_byte_dynamic_secure(&B[b], (uint8_t)v)
                         : aws_byte_buf_append_byte_dynamic(&B[b], (uint8_t)v);
            vh_begin("AppendByteDynamic");
            vh_int("b", b);
            vh_int("v", v);
            vh_int("sec", sec);
            vh_rc(rc);
            rel_log();
        } else if (vh_is("APPENDNUL")) {
            int b = argb(1);
            rel_begin();
            int rc = aws_byte_buf_append_null_terminator(&B[b]);
            vh_begin("AppendNullTerminator");
            vh_int("b", b);
            vh_rc(rc);
            rel_log();
        } else if (vh_is("RESERVE")) {
            int kind = (int)vh_argi(1), b = argb(2);
            size_t n = psize(3);
            rel_begin();
            int rc = kind == 0   ? aws_byte_buf_reserve(&B[b], n)
                     : kind == 1 ? aws_byte_buf_reserve_relative(&B[b], n)
                     : kind == 2 ? aws_byte_buf_reserve_smart(&B[b], n)
                                 : aws_byte_buf_reserve_smart_relative(&B[b], n);
            vh_begin("Reserve");
            vh_int("kind", kind);
            vh_int("b", b);
            vh_int("n", enc(n));
            vh_rc(rc);
            rel_log();
        }
        /* ------------------------------------------------ writes */
        else if (vh_is("WRITE")) {
            int b = argb(1);
            size_t off = (size_t)vh_argi(2), n = (size_t)vh_argi(3);
            bool ok = aws_byte_buf_write(&B[b], src + off, n);
            vh_begin("Write");
            vh_int("b", b);
            vh_int("off", (long long)off);
            vh_int("n", enc(n));
            log_ok(ok);
        } else if (vh_is("WRITEBIG")) {
            int b = argb(1);
            size_t n = psize(2);
            bool ok = aws_byte_buf_write(&B[b], one, n);
            vh_begin("Write");
            vh_int("b", b);
            vh_int("off", 0);
            vh_int("n", enc(n));
            log_ok(ok);
        } else if (vh_is("WU8")) {
            int b = argb(1), v = (int)vh_argi(2);
            bool ok = aws_byte_buf_write_u8(&B[b], (uint8_t)v);
            vh_begin("WriteU8");
            vh_int("b", b);
            vh_int("v", v);
            log_ok(ok);
        } else if (vh_is("WU8N")) {
            int b = argb(1), v = (int)vh_argi(2);
            size_t n = psize(3);
            bool ok = aws_byte_buf_write_u8_n(&B[b], (uint8_t)v, n);
            vh_begin("WriteU8N");
            vh_int("b", b);
            vh_int("v", v);
            vh_int("n", enc(n));
            log_ok(ok);
        } else if (vh_is("WBE")) {
            int b = argb(1), k = (int)vh_argi(2);
            int nb = k == 3 ? 4 : k;
            uint8_t vs[8];
            uint64_t x = 0;
            for (int i = 0; i < nb; ++i) {
                vs[i] = (uint8_t)vh_argi(3 + i);
                x = (x << 8) | vs[i];
            }
            bool ok = k == 2   ? aws_byte_buf_write_be16(&B[b], (uint16_t)x)
                      : k == 3 ? aws_byte_buf_write_be24(&B[b], (uint32_t)x)
                      : k == 4 ? aws_byte_buf_write_be32(&B[b], (uint32_t)x)
                               : aws_byte_buf_write_be64(&B[b], x);
            vh_begin("WriteBE");
            vh_int("b", b);
            vh_int("k", k);
            vh_bytes("vs", vs, (size_t)nb);
            log_ok(ok);
        } else if (vh_is("WBUF")) {
            int b = argb(1), s = argb(2);
            bool ok = aws_byte_buf_write_from_whole_buffer(&B[b], B[s]);
            vh_begin("WriteFromWholeBuffer");
            vh_int("b", b);
            vh_int("sb", s);
            log_ok(ok);
        } else if (vh_is("WCUR")) {
            int b = argb(1), c = argc_(2, 0);
            bool ok = aws_byte_buf_write_from_whole_cursor(&B[b], C[c]);
            vh_begin("WriteFromWholeCursor");
            vh_int("b", b);
            vh_int("c", c);
            log_ok(ok);
        } else if (vh_is("WCAP")) {
            int b = argb(1), c = argc_(2, 0), d = argc_(3, 1);
            struct aws_byte_cursor rv = aws_byte_buf_write_to_capacity(&B[b], &C[c]);
            if (d) {
                C[d] = rv;
            }
            vh_begin("WriteToCapacity");
            vh_int("b", b);
            vh_int("c", c);
            vh_int("d", d);
            log_cur("rv", &rv);
        } else if (vh_is("BADV")) {
            int b = argb(1);
            size_t n = psize(2);
            struct aws_byte_buf out;
            AWS_ZERO_STRUCT(out);
            bool ok = aws_byte_buf_advance(&B[b], &out, n);
            vh_begin("BufAdvance");
            vh_int("b", b);
            vh_int("n", enc(n));
            log_ok(ok);
            vh_int("ocap", enc(out.capacity));
            vh_int("olen", enc(out.len));
            vh_int("onull", out.buffer == NULL);
            vh_int("oal", out.allocator != NULL);
            vh_int("ooff", out.buffer && B[b].buffer ? encdiff(out.buffer - B[b].buffer) : -1);
        } else if (vh_is("BRESET")) {
            int b = argb(1), z = (int)vh_argi(2);
            aws_byte_buf_reset(&B[b], z != 0);
            vh_begin("Reset_");
            vh_int("b", b);
            vh_int("z", z);
            vh_int("allz", all_zero(&B[b]));
        } else if (vh_is("BZERO")) {
            int b = argb(1);
            aws_byte_buf_secure_zero(&B[b]);
            vh_begin("SecureZero");
            vh_int("b", b);
            vh_int("allz", all_zero(&B[b]));
        } else if (vh_is("CLEAN")) {
            int b = argb(1), sec = (int)vh_argi(2);
            rel_begin();
            if (sec) {
                aws_byte_buf_clean_up_secure(&B[b]);
            } else {
                aws_byte_buf_clean_up(&B[b]);
            }
            vh_begin("CleanUp");
            vh_int("b", b);
            vh_int("sec", sec);
            rel_log();
        }
        /* ------------------------------------------------ cursor construction (harness level) */
        else if (vh_is("CURNULL")) {
            int c = argc_(1, 0);
            AWS_ZERO_STRUCT(C[c]);
            vh_begin("CurNull");
            vh_int("c", c);
        } else if (vh_is("CURSRC")) {
            int c = argc_(1, 0);
            size_t off = (size_t)vh_argi(2), n = (size_t)vh_argi(3);
            C[c] = aws_byte_cursor_from_array(src + off, n);
            vh_begin("CurSrc");
            vh_int("c", c);
            vh_int("off", (long long)off);
            vh_int("n", (long long)n);
        } else if (vh_is("CURBUF")) {
            int c = argc_(1, 0), b = argb(2);
            C[c] = aws_byte_cursor_from_buf(&B[b]);
            vh_begin("CurBuf");
            vh_int("c", c);
            vh_int("b", b);
        } else if (vh_is("CURBIG")) {
            int c = argc_(1, 0);
            size_t n = psize(2);
            C[c].ptr = one;
            C[c].len = n;
            vh_begin("CurBig");
            vh_int("c", c);
            vh_int("n", enc(n));
        } else if (vh_is("CURCOPY")) {
            int d = argc_(1, 0), c = argc_(2, 0);
            C[d] = C[c];
            vh_begin("CurCopy");
            vh_int("d", d);
            vh_int("c", c);
        }
        /* ------------------------------------------------ advance / read */
        else if (vh_is("CADV")) {
            int c = argc_(1, 0);
            size_t n = psize(2);
            int nospec = (int)vh_argi(3), d = argc_(4, 1);
            struct aws_byte_cursor rv = nospec ? aws_byte_cursor_advance_nospec(&C[c], n) : aws_byte_cursor_advance(&C[c], n);
            if (d) {
                C[d] = rv;
            }
            vh_begin("CurAdvance");
            vh_int("c", c);
            vh_int("n", enc(n));
            vh_int("nospec", nospec);
            vh_int("d", d);
            log_cur("rv", &rv);
        } else if (vh_is("READ")) {
            int c = argc_(1, 0);
            size_t n = psize(2);
            bool small = n < 65536;
            uint8_t *dest = small ? malloc(n ? n : 1) : one;
            if (small) {
                memset(dest, 0xEE, n ? n : 1);
            }
            bool ok = aws_byte_cursor_read(&C[c], dest, n);
            vh_begin("Read");
            vh_int("c", c);
            vh_int("n", enc(n));
            log_ok(ok);
            vh_bytes("out", dest, (ok && small) ? n : 0);
            if (small) {
                free(dest);
            }
        } else if (vh_is("READU")) {
            int c = argc_(1, 0), k = (int)vh_argi(2);
            uint8_t o[8] = {0};
            bool ok;
            if (k == 1) {
                uint8_t v = 0;
                ok = aws_byte_cursor_read_u8(&C[c], &v);
                be_bytes(v, 1, o);
            } else if (k == 2) {
                uint16_t v = 0;
                ok = aws_byte_cursor_read_be16(&C[c], &v);
                be_bytes(v, 2, o);
            } else if (k == 3) {
                uint32_t v = 0;
                ok = aws_byte_cursor_read_be24(&C[c], &v);
                be_bytes(v, 4, o); /* 4 bytes: the top one must be zero */
            } else if (k == 4) {
                uint32_t v = 0;
                ok = aws_byte_cursor_read_be32(&C[c], &v);
                be_bytes(v, 4, o);
            } else {
                uint64_t v = 0;
                ok = aws_byte_cursor_read_be64(&C[c], &v);
                be_bytes(v, 8, o);
            }
            vh_begin("ReadU");
            vh_int("c", c);
            vh_int("k", k);
            log_ok(ok);
            vh_bytes("out", o, ok ? (size_t)(k == 3 ? 4 : k) : 0);
        } else if (vh_is("READHEX")) {
            int c = argc_(1, 0);
            uint8_t v = 0;
            bool ok = aws_byte_cursor_read_hex_u8(&C[c], &v);
            vh_begin("ReadHexU8");
            vh_int("c", c);
            log_ok(ok);
            vh_int("v", ok ? v : 0);
        } else if (vh_is("READFILL")) {
            int c = argc_(1, 0), b = argb(2);
            bool ok = aws_byte_cursor_read_and_fill_buffer(&C[c], &B[b]);
            vh_begin("ReadAndFill");
            vh_int("c", c);
            vh_int("b", b);
            log_ok(ok);
        }
        /* ------------------------------------------------ split */
        else if (vh_is("NSPLIT")) {
            int c = argc_(1, 0), ch = (int)vh_argi(2), k = (int)vh_argi(3);
            struct aws_byte_cursor input = C[c], sub;
            AWS_ZERO_STRUCT(sub);
            vh_begin("NextSplit");
            vh_int("c", c);
            vh_int("ch", ch);
            vh_int("k", k);
            vh_arr_begin("res");
            for (int i = 0; i < k; ++i) {
                bool rv = aws_byte_cursor_next_split(&input, (char)ch, &sub);
                vh_obj_begin(NULL);
                vh_int("rv", rv ? 1 : 0);
                vh_int("off", (rv && input.ptr && sub.ptr) ? encdiff(sub.ptr - input.ptr) : 0);
                vh_int("len", enc(sub.len));
                vh_int("null", sub.ptr == NULL);
                vh_obj_end();
                if (!rv) {
                    break;
                }
            }
            vh_arr_end();
        } else if (vh_is("SPLITN")) {
            int c = argc_(1, 0), ch = (int)vh_argi(2);
            size_t n = (size_t)vh_argi(3), cap = (size_t)vh_argi(4);
            int via_n = (int)vh_argi(5);
            void *mem = malloc(cap * sizeof(struct aws_byte_cursor)); /* exact: a push past the end is an ASan report */
            struct aws_array_list list;
            aws_array_list_init_static(&list, mem, cap, sizeof(struct aws_byte_cursor));
            int rc = via_n ? aws_byte_cursor_split_on_char_n(&C[c], (char)ch, n, &list)
                           : aws_byte_cursor_split_on_char(&C[c], (char)ch, &list);
            vh_begin("SplitOnCharN");
            vh_int("c", c);
            vh_int("ch", ch);
            vh_int("n", (long long)n);
            vh_int("cap", (long long)cap);
            vh_int("viaN", via_n);
            vh_rc(rc);
            vh_arr_begin("ents");
            for (size_t i = 0; i < aws_array_list_length(&list); ++i) {
                struct aws_byte_cursor e;
                AWS_ZERO_STRUCT(e);
                aws_array_list_get_at(&list, &e, i);
                vh_obj_begin(NULL);
                vh_int("off", (C[c].ptr && e.ptr) ? encdiff(e.ptr - C[c].ptr) : 0);
                vh_int("len", enc(e.len));
                vh_obj_end();
            }
            vh_arr_end();
            free(mem);
        }
        /* ------------------------------------------------ trim / predicates / comparisons / search / parse */
        else if (vh_is("TRIM")) {
            int c = argc_(1, 0), w = (int)vh_argi(2), d = argc_(4, 1);
            const char *p = vh_args(3);
            struct aws_byte_cursor rv = w == 0   ? aws_byte_cursor_left_trim_pred(&C[c], pred(p))
                                        : w == 1 ? aws_byte_cursor_right_trim_pred(&C[c], pred(p))
                                                 : aws_byte_cursor_trim_pred(&C[c], pred(p));
            vh_begin("Trim");
            vh_int("c", c);
            vh_int("w", w);
            vh_str("p", p);
            vh_int("d", d);
            log_cur("rv", &rv);
            if (d) {
                C[d] = rv;
            }
        } else if (vh_is("SAT")) {
            int c = argc_(1, 0);
            const char *p = vh_args(2);
            bool r = aws_byte_cursor_satisfies_pred(&C[c], pred(p));
            vh_begin("SatisfiesPred");
            vh_int("c", c);
            vh_str("p", p);
            vh_int("r", r ? 1 : 0);
        } else if (vh_is("EQ")) {
            int c1 = argc_(1, 0), c2 = argc_(2, 0), ic = (int)vh_argi(3);
            bool r = ic ? aws_byte_cursor_eq_ignore_case(&C[c1], &C[c2]) : aws_byte_cursor_eq(&C[c1], &C[c2]);
            vh_begin("CurEq");
            vh_int("c1", c1);
            vh_int("c2", c2);
            vh_int("ic", ic);
            vh_int("r", r ? 1 : 0);
        } else if (vh_is("EQCSTR")) {
            int c = argc_(1, 0), ic = (int)vh_argi(4);
            size_t off = (size_t)vh_argi(2), n = (size_t)vh_argi(3);
            char *s = cstr_from_src(off, n);
            bool r = ic ? aws_byte_cursor_eq_c_str_ignore_case(&C[c], s) : aws_byte_cursor_eq_c_str(&C[c], s);
            free(s);
            vh_begin("CurEqCStr");
            vh_int("c", c);
            vh_int("off", (long long)off);
            vh_int("n", (long long)n);
            vh_int("ic", ic);
            vh_int("r", r ? 1 : 0);
        } else if (vh_is("CEQB")) {
            int c = argc_(1, 0), b = argb(2), ic = (int)vh_argi(3);
            bool r = ic ? aws_byte_cursor_eq_byte_buf_ignore_case(&C[c], &B[b]) : aws_byte_cursor_eq_byte_buf(&C[c], &B[b]);
            vh_begin("CurEqBuf");
            vh_int("c", c);
            vh_int("b", b);
            vh_int("ic", ic);
            vh_int("r", r ? 1 : 0);
        } else if (vh_is("BEQ")) {
            int a = argb(1), b = argb(2), ic = (int)vh_argi(3);
            bool r = ic ? aws_byte_buf_eq_ignore_case(&B[a], &B[b]) : aws_byte_buf_eq(&B[a], &B[b]);
            vh_begin("BufEq");
            vh_int("a", a);
            vh_int("b", b);
            vh_int("ic", ic);
            vh_int("r", r ? 1 : 0);
        } else if (vh_is("BEQCSTR")) {
            int b = argb(1), ic = (int)vh_argi(4);
            size_t off = (size_t)vh_argi(2), n = (size_t)vh_argi(3);
            char *s = cstr_from_src(off, n);
            bool r = ic ? aws_byte_buf_eq_c_str_ignore_case(&B[b], s) : aws_byte_buf_eq_c_str(&B[b], s);
            free(s);
            vh_begin("BufEqCStr");
            vh_int("b", b);
            vh_int("off", (long long)off);
            vh_int("n", (long long)n);
            vh_int("ic", ic);
            vh_int("r", r ? 1 : 0);
        } else if (vh_is("CMP")) {
            int c1 = argc_(1, 0), c2 = argc_(2, 0);
            int r = aws_byte_cursor_compare_lexical(&C[c1], &C[c2]);
            vh_begin("CompareLexical");
            vh_int("c1", c1);
            vh_int("c2", c2);
            vh_int("sign", r < 0 ? -1 : (r > 0 ? 1 : 0));
        } else if (vh_is("CMPLK")) {
            int c1 = argc_(1, 0), c2 = argc_(2, 0);
            long long t = vh_argi(3);
            int r = aws_byte_cursor_compare_lookup(&C[c1], &C[c2], table(t));
            vh_begin("CompareLookup");
            vh_int("c1", c1);
            vh_int("c2", c2);
            vh_int("t", t);
            vh_int("sign", r < 0 ? -1 : (r > 0 ? 1 : 0));
        } else if (vh_is("STARTS")) {
            int c = argc_(1, 0), p = argc_(2, 0), ic = (int)vh_argi(3);
            bool r = ic ? aws_byte_cursor_starts_with_ignore_case(&C[c], &C[p]) : aws_byte_cursor_starts_with(&C[c], &C[p]);
            vh_begin("StartsWith");
            vh_int("c", c);
            vh_int("p", p);
            vh_int("ic", ic);
            vh_int("r", r ? 1 : 0);
        } else if (vh_is("FIND")) {
            int c = argc_(1, 0), f = argc_(2, 0), d = argc_(3, 1);
            struct aws_byte_cursor rv;
            AWS_ZERO_STRUCT(rv);
            int rc = aws_byte_cursor_find_exact(&C[c], &C[f], &rv);
            if (rc == 0 && d) {
                C[d] = rv;
            }
            vh_begin("FindExact");
            vh_int("c", c);
            vh_int("f", f);
            vh_int("d", d);
            vh_rc(rc);
            log_cur("rv", &rv);
        } else if (vh_is("PARSE")) {
            int c = argc_(1, 0), hex = (int)vh_argi(2);
            uint64_t v = 0;
            int rc = hex ? aws_byte_cursor_utf8_parse_u64_hex(C[c], &v) : aws_byte_cursor_utf8_parse_u64(C[c], &v);
            vh_begin("ParseU64");
            vh_int("c", c);
            vh_int("hex", hex);
            vh_rc(rc);
            vh_wide("val", rc == 0 ? v : 0);
        } else {
            fprintf(stderr, "script: unknown op %s\n", vh_tok[0]);
            exit(3);
        }
        state();
        vh_end();
    }
    teardown();
    free(one);
    vh_begin("End");
    vh_int("live", (long long)vh_live_blocks);
    vh_end();
    fclose(vh_out);
    return 0;
}
