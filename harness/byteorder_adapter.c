/* X12 adapter: byte_order.h conversions and zero.h, driven by a script; one event per call. No expected values here.
 *   HTON <w 2|4|8> <value hex, most significant byte first>      aws_hton16/32/64
 *   NTOH <w> <memory image hex, address order>                   aws_ntoh16/32/64 of the datum with that image
 *   HTONF <w 4|8> <bit pattern hex, msb first>  /  NTOHF <w> <image hex>    the float / double variants (by bit pattern)
 *   ENDIAN                                                       aws_is_big_endian + the image of 0x0102
 *   ZERO <buffer hex> <off> <n>                                  aws_secure_zero(buf + off, n) on an exact-size heap copy
 *   ISZ <buffer hex | ->                                         aws_is_mem_zeroed */
#include "vh_core.h"

#include <aws/common/byte_order.h>
#include <aws/common/zero.h>

static int hexval(int c) {
    return c <= '9' ? c - '0' : (c | 0x20) - 'a' + 10;
}
static size_t unhex(const char *tok, uint8_t **out) {
    size_t n = strcmp(tok, "-") == 0 ? 0 : strlen(tok) / 2;
    uint8_t *p = malloc(n ? n : 1);
    for (size_t i = 0; i < n; ++i) {
        p[i] = (uint8_t)(hexval(tok[2 * i]) * 16 + hexval(tok[2 * i + 1]));
    }
    *out = p;
    return n;
}
static uint64_t value_of(const uint8_t *be, size_t n) {
    uint64_t v = 0;
    for (size_t i = 0; i < n; ++i) {
        v = (v << 8) | be[i];
    }
    return v;
}
static void value_bytes(uint64_t v, size_t n, uint8_t *be) {
    for (size_t i = 0; i < n; ++i) {
        be[n - 1 - i] = (uint8_t)(v >> (8 * i));
    }
}

int main(int argc, char **argv) {
    if (argc < 3) {
        return 3;
    }
    FILE *in = fopen(argv[1], "r");
    vh_open(argv[2]);
    vh_install_handlers(120);
    while (vh_next(in)) {
        if (vh_is("RESET")) {
            vh_begin("Reset");
            vh_end();
        } else if (vh_is("END")) {
            break;
        } else if (vh_is("HTON") || vh_is("HTONF")) {
            int w = (int)vh_argi(1);
            bool f = vh_is("HTONF");
            uint8_t *be = NULL;
            size_t n = unhex(vh_args(2), &be);
            uint64_t v = value_of(be, n);
            uint8_t img[8] = {0};
            if (w == 2) {
                uint16_t r = aws_hton16((uint16_t)v);
                memcpy(img, &r, 2);
            } else if (w == 4 && !f) {
                uint32_t r = aws_hton32((uint32_t)v);
                memcpy(img, &r, 4);
            } else if (w == 8 && !f) {
                uint64_t r = aws_hton64(v);
                memcpy(img, &r, 8);
            } else if (w == 4) {
                uint32_t bits = (uint32_t)v;
                float x, r;
                memcpy(&x, &bits, 4);
                r = aws_htonf32(x);
                memcpy(img, &r, 4);
            } else {
                double x, r;
                memcpy(&x, &v, 8);
                r = aws_htonf64(x);
                memcpy(img, &r, 8);
            }
            vh_begin("Hton");
            vh_int("w", w);
            vh_int("f", f);
            vh_bytes("v", be, n);
            vh_bytes("img", img, (size_t)w);
            vh_end();
            free(be);
        } else if (vh_is("NTOH") || vh_is("NTOHF")) {
            int w = (int)vh_argi(1);
            bool f = vh_is("NTOHF");
            uint8_t *img = NULL;
            size_t n = unhex(vh_args(2), &img);
            uint8_t out[8] = {0};
            if (w == 2) {
                uint16_t x;
                memcpy(&x, img, 2);
                value_bytes(aws_ntoh16(x), 2, out);
            } else if (w == 4 && !f) {
                uint32_t x;
                memcpy(&x, img, 4);
                value_bytes(aws_ntoh32(x), 4, out);
            } else if (w == 8 && !f) {
                uint64_t x;
                memcpy(&x, img, 8);
                value_bytes(aws_ntoh64(x), 8, out);
            } else if (w == 4) {
                float x, r;
                uint32_t bits;
                memcpy(&x, img, 4);
                r = aws_ntohf32(x);
                memcpy(&bits, &r, 4);
                value_bytes(bits, 4, out);
            } else {
                double x, r;
                uint64_t bits;
                memcpy(&x, img, 8);
                r = aws_ntohf64(x);
                memcpy(&bits, &r, 8);
                value_bytes(bits, 8, out);
            }
            vh_begin("Ntoh");
            vh_int("w", w);
            vh_int("f", f);
            vh_bytes("img", img, n);
            vh_bytes("v", out, (size_t)w);
            vh_end();
            free(img);
        } else if (vh_is("ENDIAN")) {
            uint16_t probe = 0x0102;
            vh_begin("Endian");
            vh_int("flag", aws_is_big_endian());
            vh_bytes("probe", (const uint8_t *)&probe, 2);
            vh_end();
        } else if (vh_is("ZERO")) {
            uint8_t *buf = NULL;
            size_t n = unhex(vh_args(1), &buf);
            size_t off = (size_t)vh_argu(2), k = (size_t)vh_argu(3);
            uint8_t *before = malloc(n ? n : 1);
            memcpy(before, buf, n);
            aws_secure_zero(buf + off, k);
            vh_begin("SecureZero");
            vh_bytes("before", before, n);
            vh_int("off", (long long)off);
            vh_int("n", (long long)k);
            vh_bytes("after", buf, n);
            vh_end();
            free(before);
            free(buf);
        } else if (vh_is("ISZ")) {
            uint8_t *buf = NULL;
            size_t n = unhex(vh_args(1), &buf);
            vh_begin("IsZeroed");
            vh_bytes("buf", buf, n);
            vh_int("res", aws_is_mem_zeroed(buf, n) ? 1 : 0);
            vh_end();
            free(buf);
        }
    }
    vh_begin("End");
    vh_int("live", (long long)vh_live_blocks);
    vh_end();
    fclose(vh_out);
    return 0;
}
