/* X09 adapter: aws_cross_process_lock (cross_process_lock.h) and the process utilities (process.h) driven by a
 * script, with REAL processes.
 *
 * The process that reads the script is the coordinator. For every execution (RESET np) it forks np long-lived
 * worker processes connected to it by pipes. A script line names the worker that performs the call; the worker makes
 * the real library call and reports what it saw (pointer NULL or not, error name, ...) together with its number of
 * open file descriptors and live allocator blocks; the coordinator asks every other live worker for the same two
 * numbers and writes ONE totally ordered ndjson trace. Steps are performed one at a time, so the order of the trace
 * is the real order. `KILL p` makes the coordinator SIGKILL worker p and reap it (the process dies holding whatever
 * it holds); `SPAWN p` forks a fresh process into the slot. A worker that does not answer within the step time-out
 * (a try-lock that blocks) or that dies turns into a `Died` event - the end of the trace.
 *
 * The adapter holds no expected values. What it knows is the projection: nonce id <-> nonce text (unique per
 * coordinator process and execution, so concurrent runs and stale lock files of earlier runs never meet), handle
 * slot <-> pointer, the text a generated shell command prints <-> (lead white space, core length + two digests,
 * trail white space), a captured string <-> the same shape.
 *
 * Script lines (p = worker 1..3, h = handle slot 1..4, n = nonce id 1..8):
 *   RESET np
 *   ACQ p n h | BAD p k h (k: 1 "a/b", 2 "a/", 3 "a/b/c", 4 "/<nonce 1>") | REL p h (h = 0: release(NULL))
 *   KILL p (SIGKILL) | QUIT p (the worker calls exit) | SPAWN p | STALE p code-or-name (aws_raise_error in the worker: a stale last error)
 *   PID p | LIM p | SETSOFT p v      (v: a number, H = the hard limit, H+k, H-k)
 *   RUN p kind lead clen seed nl trail exit
 *        kind 0: printf '<text>' [; exit N]   1: echo '<text>' [; exit N]   2: true | false | exit N (no text)
 */
#include "vh_core.h"

#include <aws/common/byte_buf.h>
#include <aws/common/cross_process_lock.h>
#include <aws/common/process.h>
#include <aws/common/string.h>

#include <errno.h>
#include <fcntl.h>
#include <poll.h>
#include <sys/prctl.h>
#include <sys/resource.h>
#include <sys/wait.h>

#define NP 3
#define NSLOT 4
#define NNONCE 8
#define STEP_TIMEOUT_MS 20000
#define MAXTEXT 70000

/* ------------------------------------------------------------------ small helpers (both sides) */
static int count_fds(void) {
    int n = 0; /* no descriptor needed (works with a soft limit below what is open) */
    for (int fd = 0; fd < 1024; ++fd) {
        if (fcntl(fd, F_GETFD) != -1) {
            ++n;
        }
    }
    return n;
}
static bool is_ws(unsigned char c) {
    return c == ' ' || c == '\t' || c == '\n' || c == '\v' || c == '\f' || c == '\r';
}
struct shape {
    long long lead, clen, d1, d2, trail;
};
/* text -> (lead white space, core length + digests, trail white space); all white space: lead = n, no core */
static struct shape shape_of(const unsigned char *s, size_t n) {
    struct shape sh = {0, 0, 0, 0, 0};
    size_t a = 0, b = n;
    while (a < n && is_ws(s[a])) {
        ++a;
    }
    while (b > a && is_ws(s[b - 1])) {
        --b;
    }
    sh.lead = (long long)a;
    sh.trail = (long long)(n - b);
    sh.clen = (long long)(b - a);
    for (size_t i = a; i < b; ++i) {
        sh.d1 = (sh.d1 * 31 + s[i] + 1) % 32749;
        sh.d2 = (sh.d2 * 37 + s[i] + 1) % 32719;
    }
    return sh;
}

/* ------------------------------------------------------------------ worker process */
static struct aws_cross_process_lock *slots[NSLOT + 1];

static void w_status(FILE *out) {
    fprintf(out, " %d %zu", count_fds(), vh_live_blocks);
}
static void w_limits(FILE *out) {
    struct rlimit rl;
    memset(&rl, 0, sizeof(rl));
    getrlimit(RLIMIT_NOFILE, &rl);
    fprintf(out, " %llu %llu", (unsigned long long)rl.rlim_cur, (unsigned long long)rl.rlim_max);
}
static void worker_main(int rfd, int wfd) {
    vh_out = NULL; /* the trace belongs to the coordinator; a dying worker just ends (the coordinator sees it) */
    alarm(0);
    prctl(PR_SET_PDEATHSIG, SIGKILL);
    for (int fd = 3; fd < 1024; ++fd) {
        if (fd != rfd && fd != wfd) {
            close(fd);
        }
    }
    FILE *in = fdopen(rfd, "r");
    FILE *out = fdopen(wfd, "w");
    if (!in || !out) {
        _exit(4);
    }
    fprintf(out, "HELLO");
    w_limits(out);
    w_status(out);
    fputc('\n', out);
    fflush(out);
    char *line = NULL;
    size_t cap = 0;
    for (;;) {
        ssize_t n = getline(&line, &cap, in);
        if (n <= 0) {
            _exit(0); /* coordinator gone or done */
        }
        if (line[n - 1] == '\n') {
            line[--n] = 0;
        }
        char op = line[0];
        const char *arg = n > 2 ? line + 2 : "";
        if (op == 'A') { /* A <h> <nonce> */
            int h = atoi(arg);
            const char *nonce = strchr(arg, ' ');
            nonce = nonce ? nonce + 1 : "";
            const char *pre = aws_error_name(aws_last_error());
            struct aws_cross_process_lock *lk =
                aws_cross_process_lock_try_acquire(vh_alloc(), aws_byte_cursor_from_c_str(nonce));
            const char *err = lk ? "-" : aws_error_name(aws_last_error());
            if (lk && h >= 1 && h <= NSLOT) {
                slots[h] = lk;
            }
            fprintf(out, "%d %s %s", lk ? 1 : 0, err, pre);
        } else if (op == 'R') { /* R <h> */
            int h = atoi(arg);
            struct aws_cross_process_lock *lk = (h >= 1 && h <= NSLOT) ? slots[h] : NULL;
            aws_cross_process_lock_release(lk);
            if (h >= 1 && h <= NSLOT) {
                slots[h] = NULL;
            }
            fprintf(out, "%d", lk ? 1 : 0);
        } else if (op == 'E') {
            aws_raise_error(atoi(arg));
            fprintf(out, "%s", aws_error_name(aws_last_error()));
        } else if (op == 'X') {
            exit(0); /* with everything still held */
        } else if (op == 'S') {
            fprintf(out, "S");
        } else if (op == 'P') {
            fprintf(out, "%d", aws_get_pid());
        } else if (op == 'L') {
            fprintf(out, "%llu %llu", (unsigned long long)aws_get_soft_limit_io_handles(),
                    (unsigned long long)aws_get_hard_limit_io_handles());
            w_limits(out);
        } else if (op == 'T') { /* T <v> */
            unsigned long long v = strtoull(arg, NULL, 10);
            int rc = aws_set_soft_limit_io_handles((size_t)v);
            fprintf(out, "%d %s", rc, rc ? aws_error_name(aws_last_error()) : "-");
            fprintf(out, " %llu %llu", (unsigned long long)aws_get_soft_limit_io_handles(),
                    (unsigned long long)aws_get_hard_limit_io_handles());
            w_limits(out);
        } else if (op == 'C') { /* C <shell command> */
            struct aws_run_command_options opt = {.command = arg};
            struct aws_run_command_result res;
            memset(&res, 0x5a, sizeof(res));
            int irc = aws_run_command_result_init(vh_alloc(), &res);
            int rc = aws_run_command(vh_alloc(), &opt, &res);
            struct shape sh = {0, 0, 0, 0, 0};
            int has = res.std_out ? 1 : 0, term = 0;
            if (has) {
                sh = shape_of(aws_string_bytes(res.std_out), res.std_out->len);
                term = aws_string_bytes(res.std_out)[res.std_out->len] == 0 ? 1 : 0;
            }
            fprintf(out, "%d %d %s %d %d %lld %lld %lld %lld %lld %d %d", irc, rc, rc ? aws_error_name(aws_last_error()) : "-",
                    res.ret_code, has, sh.lead, sh.clen, sh.d1, sh.d2, sh.trail, term, res.std_err ? 0 : 1);
            aws_run_command_result_cleanup(&res);
        } else {
            _exit(5);
        }
        w_status(out);
        fputc('\n', out);
        fflush(out);
    }
}

/* ------------------------------------------------------------------ coordinator */
struct wk {
    pid_t pid;
    int to, from; /* pipe ends of the coordinator */
    bool alive;
    long long fds, live;
    unsigned long long soft, hard;
};
static struct wk W[NP + 1];
static int coord_pid, exec_no;
static char resp[4096];
static char *rtok[64];
static int nrtok;

static void nonce_name(char *buf, size_t cap, int n) {
    snprintf(buf, cap, "x09_%d_%d_n%d", coord_pid, exec_no, n);
}
static void remove_lock_files(void) {
    /* the library keeps its lock files in /tmp/aws_crt_cross_process_lock/ (its own choice); ours go away again */
    if (exec_no == 0) {
        return;
    }
    for (int n = 1; n <= NNONCE; ++n) {
        char nm[96], path[192];
        nonce_name(nm, sizeof(nm), n);
        snprintf(path, sizeof(path), "/tmp/aws_crt_cross_process_lock/%s.lock", nm);
        unlink(path);
    }
}
static void reap(int p) {
    if (!W[p].alive) {
        return;
    }
    kill(W[p].pid, SIGKILL);
    int st = 0;
    waitpid(W[p].pid, &st, 0);
    close(W[p].to);
    close(W[p].from);
    W[p].alive = false;
}
static void kill_all(void) {
    for (int p = 1; p <= NP; ++p) {
        reap(p);
    }
}
/* the execution cannot go on: the worker hangs (sig 14) or is gone. Last line of the trace. */
static void die_event(int p, int sig, const char *why) {
    /* an event line may be half written (state of the other workers is collected inside it): terminate it first */
    fprintf(vh_out, "\n{\"e\":\"Died\",\"sig\":%d,\"p\":%d,\"why\":\"%s\"}\n", sig, p, why);
    fflush(vh_out);
    kill_all();
    remove_lock_files();
    VH_COV_FLUSH();
    exit(0);
}
/* one answer line of worker p -> resp / rtok; never blocks longer than the step time-out */
static void read_answer(int p) {
    size_t n = 0;
    for (;;) {
        struct pollfd pf = {.fd = W[p].from, .events = POLLIN};
        int pr = poll(&pf, 1, STEP_TIMEOUT_MS);
        if (pr < 0 && errno == EINTR) {
            continue;
        }
        if (pr == 0) {
            die_event(p, 14, "no answer within the step time-out (call blocked)");
        }
        ssize_t k = read(W[p].from, resp + n, sizeof(resp) - 1 - n);
        if (k < 0 && errno == EINTR) {
            continue;
        }
        if (k <= 0) {
            int st = 0;
            waitpid(W[p].pid, &st, 0);
            W[p].alive = false;
            close(W[p].to);
            close(W[p].from);
            die_event(p, WIFSIGNALED(st) ? WTERMSIG(st) : 6, "worker process ended during the call");
        }
        n += (size_t)k;
        if (resp[n - 1] == '\n' || n >= sizeof(resp) - 1) {
            break;
        }
    }
    resp[n] = 0;
    nrtok = 0;
    char *save = NULL;
    for (char *t = strtok_r(resp, " \n", &save); t && nrtok < 64; t = strtok_r(NULL, " \n", &save)) {
        rtok[nrtok++] = t;
    }
    if (nrtok < 2) {
        die_event(p, 6, "malformed answer");
    }
    /* every answer ends with the worker's descriptors and live blocks */
    W[p].fds = atoll(rtok[nrtok - 2]);
    W[p].live = atoll(rtok[nrtok - 1]);
    nrtok -= 2;
}
static void send_cmd(int p, const char *fmt, ...) {
    static char buf[MAXTEXT * 2 + 64];
    va_list ap;
    va_start(ap, fmt);
    int n = vsnprintf(buf, sizeof(buf) - 1, fmt, ap);
    va_end(ap);
    buf[n++] = '\n';
    size_t off = 0;
    while (off < (size_t)n) {
        ssize_t k = write(W[p].to, buf + off, (size_t)n - off);
        if (k < 0) {
            if (errno == EINTR) {
                continue;
            }
            break; /* the worker is gone: read_answer reports it */
        }
        off += (size_t)k;
    }
}
static void spawn(int p) {
    int c2w[2], w2c[2];
    if (pipe(c2w) || pipe(w2c)) {
        perror("pipe");
        exit(3);
    }
    fflush(vh_out);
    pid_t pid = fork();
    if (pid < 0) {
        perror("fork");
        exit(3);
    }
    if (pid == 0) {
        close(c2w[1]);
        close(w2c[0]);
        worker_main(c2w[0], w2c[1]);
        _exit(0);
    }
    close(c2w[0]);
    close(w2c[1]);
    W[p].pid = pid;
    W[p].to = c2w[1];
    W[p].from = w2c[0];
    W[p].alive = true;
    read_answer(p); /* HELLO soft hard (fds live) */
    if (nrtok < 3 || strcmp(rtok[0], "HELLO")) {
        die_event(p, 6, "worker did not start");
    }
    W[p].soft = strtoull(rtok[1], NULL, 10);
    W[p].hard = strtoull(rtok[2], NULL, 10);
}
/* observable state after the step: for every slot, is there a process, its descriptors and live blocks */
static void state(int acting) {
    long long al[NP], fd[NP], lv[NP];
    for (int p = 1; p <= NP; ++p) {
        if (W[p].alive && p != acting) {
            send_cmd(p, "S");
            read_answer(p);
        }
        al[p - 1] = W[p].alive ? 1 : 0;
        fd[p - 1] = W[p].alive ? W[p].fds : 0;
        lv[p - 1] = W[p].alive ? W[p].live : 0;
    }
    vh_obj_begin("s");
    vh_ints("alive", al, NP);
    vh_ints("fds", fd, NP);
    vh_ints("live", lv, NP);
    vh_obj_end();
}
static void out_limits(void) {
    vh_arr_begin("lim");
    for (int p = 1; p <= NP; ++p) {
        vh_obj_begin(NULL);
        vh_wide("soft", W[p].alive ? W[p].soft : 0);
        vh_wide("hard", W[p].alive ? W[p].hard : 0);
        vh_obj_end();
    }
    vh_arr_end();
}
static void script_error(const char *what) {
    fprintf(stderr, "script: %s (%s)\n", what, vh_tok[0]);
    kill_all();
    remove_lock_files();
    exit(3);
}
static int arg_worker(int i, bool must_live) {
    int p = (int)vh_argi(i);
    if (p < 1 || p > NP || (must_live && !W[p].alive) || (!must_live && W[p].alive)) {
        script_error("bad worker");
    }
    return p;
}
static int arg_range(int i, int lo, int hi) {
    long long v = vh_argi(i);
    if (v < lo || v > hi) {
        script_error("argument out of range");
    }
    return (int)v;
}

/* the text a RUN command prints and the shell command that prints it */
static unsigned char text[MAXTEXT];
static char cmd[MAXTEXT * 2 + 64];
static size_t make_text(int kind, int lead, int clen, unsigned seed, int nl, int trail) {
    static const char al[] = "abcdefghijklmnopqrstuvwxyz0123456789ABCDEFGHIJKLMNOPQRSTUVWXYZ";
    const char *ws = kind == 1 ? "     " : " \n\t \n"; /* the text of an echo command is one line */
    if (kind == 1) {
        nl = 0;
    }
    size_t n = 0;
    unsigned x = seed * 2654435761u + 12345u;
    for (int i = 0; i < lead; ++i) {
        text[n++] = (unsigned char)ws[(seed + (unsigned)i) % 5];
    }
    for (int i = 0; i < clen; ++i) {
        x = x * 1664525u + 1013904223u;
        unsigned r = x >> 8;
        unsigned char c = (unsigned char)al[r % 62];
        if (nl && i > 0 && i < clen - 1) {
            if (r % 41 == 0) {
                c = '\n';
            } else if (r % 23 == 0) {
                c = ' ';
            }
        }
        text[n++] = c;
    }
    for (int i = 0; i < trail; ++i) {
        text[n++] = (unsigned char)ws[(seed + 2 + (unsigned)i) % 5];
    }
    return n;
}
static void make_cmd(int kind, size_t n, int exitc) {
    size_t k = 0;
    if (kind == 2) {
        if (exitc == 0) {
            strcpy(cmd, "true");
        } else if (exitc == 1) {
            strcpy(cmd, "false");
        } else {
            snprintf(cmd, sizeof(cmd), "exit %d", exitc);
        }
        return;
    }
    k += (size_t)sprintf(cmd + k, kind == 0 ? "printf '" : "echo '");
    for (size_t i = 0; i < n; ++i) {
        if (text[i] == '\n' || text[i] == '\t') {
            if (kind == 1) {
                script_error("echo text must be one line");
            }
            cmd[k++] = '\\';
            cmd[k++] = text[i] == '\n' ? 'n' : 't';
        } else {
            cmd[k++] = (char)text[i];
        }
    }
    cmd[k++] = '\'';
    if (exitc) {
        k += (size_t)sprintf(cmd + k, "; exit %d", exitc);
    }
    cmd[k] = 0;
}

int main(int argc, char **argv) {
    if (argc < 3) {
        return 3;
    }
    FILE *in = fopen(argv[1], "r");
    if (!in) {
        perror(argv[1]);
        return 3;
    }
    vh_open(argv[2]);
    vh_install_handlers(120);
    signal(SIGPIPE, SIG_IGN);
    coord_pid = (int)getpid();
    while (vh_next(in)) {
        if (vh_is("RESET")) {
            kill_all();
            remove_lock_files();
            exec_no++;
            int np = arg_range(1, 1, NP);
            for (int p = 1; p <= np; ++p) {
                spawn(p);
            }
            vh_begin("Reset");
            vh_int("np", np);
            out_limits();
            state(0);
            vh_end();
        } else if (vh_is("END")) {
            break;
        } else if (vh_is("ACQ") || vh_is("BAD")) {
            bool bad = vh_is("BAD");
            int p = arg_worker(1, true), n = arg_range(2, 1, bad ? 4 : NNONCE), h = arg_range(3, 1, NSLOT);
            char nm[128];
            if (!bad) {
                nonce_name(nm, sizeof(nm), n);
            } else if (n == 4) { /* '/' in front of the text of nonce 1 (only used by a regression script) */
                nm[0] = '/';
                nonce_name(nm + 1, sizeof(nm) - 1, 1);
            } else { /* a directory of that name never exists in the library's lock directory */
                snprintf(nm, sizeof(nm), n == 1 ? "x09_%d_%d_d/b" : (n == 2 ? "x09_%d_%d_d/" : "x09_%d_%d_d/b/c"), coord_pid, exec_no);
            }
            send_cmd(p, "A %d %s", h, nm);
            read_answer(p);
            if (nrtok < 3) {
                die_event(p, 6, "malformed answer");
            }
            vh_begin(bad ? "BadNonce" : "TryAcquire");
            vh_int("p", p);
            vh_int(bad ? "k" : "n", n);
            vh_int("h", h);
            vh_int("got", atoi(rtok[0]));
            vh_str("err", rtok[1]);
            vh_str("pre", rtok[2]);
            state(p);
            vh_end();
        } else if (vh_is("REL")) {
            int p = arg_worker(1, true), h = arg_range(2, 0, NSLOT);
            send_cmd(p, "R %d", h);
            read_answer(p);
            vh_begin("Release");
            vh_int("p", p);
            vh_int("h", h);
            vh_int("had", atoi(rtok[0])); /* 0: the slot was empty, NULL was passed */
            state(p);
            vh_end();
        } else if (vh_is("KILL") || vh_is("QUIT")) {
            /* the process ends while it holds whatever it holds: killed, or by calling exit() itself */
            bool quit = vh_is("QUIT");
            int p = arg_worker(1, true);
            if (quit) {
                send_cmd(p, "X");
                struct pollfd pf = {.fd = W[p].from, .events = POLLIN};
                char c;
                if (poll(&pf, 1, STEP_TIMEOUT_MS) <= 0 || read(W[p].from, &c, 1) != 0) {
                    die_event(p, 14, "process did not end when asked to exit");
                }
            }
            reap(p);
            vh_begin("Kill");
            vh_int("p", p);
            vh_str("how", quit ? "exit" : "sigkill");
            state(0);
            vh_end();
        } else if (vh_is("SPAWN")) {
            int p = arg_worker(1, false);
            spawn(p);
            vh_begin("Spawn");
            vh_int("p", p);
            out_limits();
            state(0);
            vh_end();
        } else if (vh_is("STALE")) {
            int p = arg_worker(1, true);
            /* a number, or the name of one of these public codes */
            static const struct {
                const char *name;
                int code;
            } codes[] = {
                {"AWS_ERROR_SUCCESS", AWS_ERROR_SUCCESS},
                {"AWS_ERROR_OOM", AWS_ERROR_OOM},
                {"AWS_ERROR_SHORT_BUFFER", AWS_ERROR_SHORT_BUFFER},
                {"AWS_ERROR_INVALID_ARGUMENT", AWS_ERROR_INVALID_ARGUMENT},
                {"AWS_ERROR_MUTEX_CALLER_NOT_OWNER", AWS_ERROR_MUTEX_CALLER_NOT_OWNER},
                {"AWS_ERROR_MUTEX_FAILED", AWS_ERROR_MUTEX_FAILED},
                {"AWS_ERROR_NO_PERMISSION", AWS_ERROR_NO_PERMISSION},
                {"AWS_ERROR_FILE_INVALID_PATH", AWS_ERROR_FILE_INVALID_PATH},
                {"AWS_ERROR_MAX_FDS_EXCEEDED", AWS_ERROR_MAX_FDS_EXCEEDED},
                {"AWS_ERROR_STRING_MATCH_NOT_FOUND", AWS_ERROR_STRING_MATCH_NOT_FOUND},
                {"AWS_ERROR_UNKNOWN", AWS_ERROR_UNKNOWN},
            };
            const char *t = vh_args(2);
            int code = -1;
            for (size_t i = 0; i < sizeof(codes) / sizeof(codes[0]); ++i) {
                if (!strcmp(t, codes[i].name)) {
                    code = codes[i].code;
                }
            }
            if (code < 0) {
                code = (int)vh_argi(2);
            }
            send_cmd(p, "E %d", code);
            read_answer(p);
            vh_begin("Stale");
            vh_int("p", p);
            vh_str("now", rtok[0]);
            state(p);
            vh_end();
        } else if (vh_is("PID")) {
            int p = arg_worker(1, true);
            send_cmd(p, "P");
            read_answer(p);
            vh_begin("Pid");
            vh_int("p", p);
            vh_int("pid", atoll(rtok[0]));
            vh_int("os", (long long)W[p].pid); /* what fork() returned to the parent */
            state(p);
            vh_end();
        } else if (vh_is("LIM")) {
            int p = arg_worker(1, true);
            send_cmd(p, "L");
            read_answer(p);
            if (nrtok < 4) {
                die_event(p, 6, "malformed answer");
            }
            vh_begin("Limits");
            vh_int("p", p);
            vh_wide("soft", strtoull(rtok[0], NULL, 10));
            vh_wide("hard", strtoull(rtok[1], NULL, 10));
            vh_wide("rsoft", strtoull(rtok[2], NULL, 10)); /* plain getrlimit in the same process */
            vh_wide("rhard", strtoull(rtok[3], NULL, 10));
            state(p);
            vh_end();
        } else if (vh_is("SETSOFT")) {
            int p = arg_worker(1, true);
            const char *t = vh_args(2);
            unsigned long long v;
            if (t[0] == 'H') {
                v = W[p].hard;
                if (t[1] == '+') {
                    unsigned long long d = strtoull(t + 2, NULL, 10);
                    v = v + d < v ? v : v + d; /* no number above an unlimited hard limit: the limit itself */
                } else if (t[1] == '-') {
                    v -= strtoull(t + 2, NULL, 10);
                }
            } else {
                v = strtoull(t, NULL, 10);
            }
            send_cmd(p, "T %llu", v);
            read_answer(p);
            if (nrtok < 6) {
                die_event(p, 6, "malformed answer");
            }
            vh_begin("SetSoft");
            vh_int("p", p);
            vh_wide("v", v);
            vh_int("rc", atoi(rtok[0]));
            vh_str("err", rtok[1]);
            vh_wide("soft", strtoull(rtok[2], NULL, 10));
            vh_wide("hard", strtoull(rtok[3], NULL, 10));
            vh_wide("rsoft", strtoull(rtok[4], NULL, 10));
            vh_wide("rhard", strtoull(rtok[5], NULL, 10));
            state(p);
            vh_end();
        } else if (vh_is("RUN")) {
            int p = arg_worker(1, true), kind = arg_range(2, 0, 2), lead = arg_range(3, 0, 64), clen = arg_range(4, 0, 60000);
            unsigned seed = (unsigned)vh_argi(5);
            int nl = arg_range(6, 0, 1), trail = arg_range(7, 0, 64), exitc = arg_range(8, 0, 255);
            size_t n = kind == 2 ? 0 : make_text(kind, lead, clen, seed, nl, trail);
            make_cmd(kind, n, exitc);
            if (kind == 1) {
                text[n++] = '\n'; /* echo ends its line */
            }
            struct shape a = shape_of(text, n);
            send_cmd(p, "C %s", cmd);
            read_answer(p);
            if (nrtok < 12) {
                die_event(p, 6, "malformed answer");
            }
            vh_begin("Run");
            vh_int("p", p);
            vh_int("kind", kind);
            vh_int("cmdlen", (long long)strlen(cmd));
            vh_obj_begin("arg");
            vh_int("lead", a.lead);
            vh_int("clen", a.clen);
            vh_int("d1", a.d1);
            vh_int("d2", a.d2);
            vh_int("trail", a.trail);
            vh_int("exit", exitc);
            vh_obj_end();
            vh_int("irc", atoi(rtok[0]));
            vh_int("rc", atoi(rtok[1]));
            vh_str("err", rtok[2]);
            vh_int("ret", atoll(rtok[3]));
            vh_obj_begin("out");
            vh_int("has", atoi(rtok[4]));
            vh_int("lead", atoll(rtok[5]));
            vh_int("clen", atoll(rtok[6]));
            vh_int("d1", atoll(rtok[7]));
            vh_int("d2", atoll(rtok[8]));
            vh_int("trail", atoll(rtok[9]));
            vh_int("term", atoi(rtok[10]));
            vh_obj_end();
            vh_int("errnull", atoi(rtok[11]));
            state(p);
            vh_end();
        } else {
            script_error("unknown op");
        }
    }
    kill_all();
    remove_lock_files();
    vh_begin("End");
    vh_int("live", (long long)vh_live_blocks);
    vh_end();
    fclose(vh_out);
    return 0;
}
