/* X10 scenario: aws_rw_lock under the controlled scheduler.
 * One readers-writer lock, one protected value (plain memory), rendezvous points built from an aws_mutex and an
 * aws_condition_variable of the harness.
 * Scenario lines:
 *   INIT static|dyn               AWS_RW_LOCK_INIT or aws_rw_lock_init()
 *   THREAD <k> <op> ...           program of thread k (1..6), run by an aws_thread
 *   MAIN <op> ...                 program of the scenario's main thread (k = 0); afterwards the remaining threads are
 *                                 joined and the lock is cleaned up
 * ops (applied blindly; the script is responsible for the documented preconditions):
 *   RL RU WL WU   aws_rw_lock_rlock / runlock / wlock / wunlock
 *   TR TW         aws_rw_lock_try_rlock / try_wlock; when it succeeded: a read (write) section, then the unlock
 *   R             read section: read the value, schedule point, read it again
 *   W             write section: read the value, schedule point, write value + 1
 *   M<b>          rendezvous b: arrive, then wait until a second thread has arrived at b
 *   P             explicit schedule point
 *   J<k>          (MAIN only) aws_thread_join thread k now
 * The events are logged in their real order (one thread runs at a time). */
#include "vh_core.h"

#include "vsched/vsched_impl.h"

#include <aws/common/condition_variable.h>
#include <aws/common/mutex.h>
#include <aws/common/rw_lock.h>
#include <aws/common/thread.h>

#define MAXTH 7
#define MAXOPS 64
#define MAXRV 8

static struct aws_rw_lock rw_static = AWS_RW_LOCK_INIT;
static struct aws_rw_lock rw_dyn;
static struct aws_rw_lock *rw;
static volatile long value;

static struct aws_mutex gate_m = AWS_MUTEX_INIT;
static struct aws_condition_variable gate_c = AWS_CONDITION_VARIABLE_INIT;
static int arrived[MAXRV + 1];

struct tdef {
    int id;
    bool defined, joined;
    int nops;
    char ops[MAXOPS][16];
    struct aws_thread thread;
};
static struct tdef T[MAXTH];

static void ev_k(const char *name, int k) {
    vh_begin(name);
    vh_int("k", k);
}
static void ev_rc(const char *name, int k, int rc) {
    ev_k(name, k);
    vh_rc(rc);
    vh_end();
}
static void ev_v(const char *name, int k, long v) {
    ev_k(name, k);
    vh_int("v", v);
    vh_end();
}

static void read_section(int k) {
    long a = value;
    ev_v("ReadFirst", k, a);
    vs_point();
    long b = value;
    ev_v("ReadSecond", k, b);
}
static void write_section(int k) {
    long a = value;
    ev_v("WriteEnter", k, a);
    vs_point();
    value = a + 1;
    ev_v("WriteLeave", k, a + 1);
}

struct gate_ctx {
    int b;
};
static bool gate_pred(void *p) {
    return arrived[((struct gate_ctx *)p)->b] >= 2;
}
static void rendezvous(int k, int b) {
    struct gate_ctx g = {b};
    aws_mutex_lock(&gate_m);
    arrived[b]++;
    ev_k("Arrive", k);
    vh_int("b", b);
    vh_end();
    aws_condition_variable_notify_all(&gate_c);
    aws_condition_variable_wait_pred(&gate_c, &gate_m, gate_pred, &g);
    ev_k("Depart", k);
    vh_int("b", b);
    vh_end();
    aws_mutex_unlock(&gate_m);
}

static void run_ops(int k, struct tdef *d) {
    for (int i = 0; i < d->nops; ++i) {
        const char *op = d->ops[i];
        if (strcmp(op, "RL") == 0) {
            ev_rc("RLockRet", k, aws_rw_lock_rlock(rw));
        } else if (strcmp(op, "WL") == 0) {
            ev_k("WLockBegin", k);
            vh_end();
            ev_rc("WLockRet", k, aws_rw_lock_wlock(rw));
        } else if (strcmp(op, "RU") == 0) {
            ev_rc("RUnlock", k, aws_rw_lock_runlock(rw));
        } else if (strcmp(op, "WU") == 0) {
            ev_rc("WUnlock", k, aws_rw_lock_wunlock(rw));
        } else if (strcmp(op, "TR") == 0) {
            int rc = aws_rw_lock_try_rlock(rw);
            ev_rc("TryR", k, rc);
            if (rc == AWS_OP_SUCCESS) {
                read_section(k);
                ev_rc("RUnlock", k, aws_rw_lock_runlock(rw));
            }
        } else if (strcmp(op, "TW") == 0) {
            int rc = aws_rw_lock_try_wlock(rw);
            ev_rc("TryW", k, rc);
            if (rc == AWS_OP_SUCCESS) {
                write_section(k);
                ev_rc("WUnlock", k, aws_rw_lock_wunlock(rw));
            }
        } else if (strcmp(op, "R") == 0) {
            read_section(k);
        } else if (strcmp(op, "W") == 0) {
            write_section(k);
        } else if (op[0] == 'M') {
            int b = atoi(op + 1);
            if (b >= 1 && b <= MAXRV) {
                rendezvous(k, b);
            }
        } else if (strcmp(op, "P") == 0) {
            vs_point();
        } else if (op[0] == 'J') {
            int j = atoi(op + 1);
            if (k == 0 && j >= 1 && j < MAXTH && T[j].defined && !T[j].joined) {
                int rc = aws_thread_join(&T[j].thread);
                T[j].joined = true;
                vh_begin("JoinRet");
                vh_int("k", k);
                vh_int("thr", j);
                vh_rc(rc);
                vh_end();
                aws_thread_clean_up(&T[j].thread);
            }
        }
    }
}

static void thread_fn(void *arg) {
    struct tdef *d = arg;
    run_ops(d->id, d);
    ev_k("ThreadEnd", d->id);
    vh_end();
}

static void scenario(char **lines, int nlines) {
    memset(T, 0, sizeof(T));
    memset(arrived, 0, sizeof(arrived));
    value = 0;
    bool dyn = false;
    for (int i = 0; i < nlines; ++i) {
        char *dup = strdup(lines[i]);
        char *save = NULL;
        char *tok = strtok_r(dup, " ", &save);
        struct tdef *d = NULL;
        if (tok && strcmp(tok, "THREAD") == 0) {
            int id = atoi(strtok_r(NULL, " ", &save));
            if (id >= 1 && id < MAXTH) {
                d = &T[id];
                d->id = id;
                d->defined = true;
            }
        } else if (tok && strcmp(tok, "MAIN") == 0) {
            d = &T[0];
        } else if (tok && strcmp(tok, "INIT") == 0) {
            const char *m = strtok_r(NULL, " ", &save);
            dyn = m && strcmp(m, "dyn") == 0;
        }
        if (d) {
            for (char *o = strtok_r(NULL, " ", &save); o && d->nops < MAXOPS; o = strtok_r(NULL, " ", &save)) {
                strncpy(d->ops[d->nops++], o, sizeof(d->ops[0]) - 1);
            }
        }
        free(dup);
    }
    int rc = 0;
    if (dyn) {
        rw = &rw_dyn;
        rc = aws_rw_lock_init(rw);
    } else {
        rw = &rw_static;
    }
    vh_begin("Setup");
    vh_str("mode", dyn ? "dyn" : "static");
    vh_rc(rc);
    vh_end();
    for (int j = 1; j < MAXTH; ++j) {
        if (T[j].defined) {
            aws_thread_init(&T[j].thread, vh_alloc());
            int lrc = aws_thread_launch(&T[j].thread, thread_fn, &T[j], aws_default_thread_options());
            vh_begin("Launch");
            vh_int("thr", j);
            vh_rc(lrc);
            vh_end();
        }
    }
    run_ops(0, &T[0]);
    for (int j = 1; j < MAXTH; ++j) {
        if (T[j].defined && !T[j].joined) {
            int jrc = aws_thread_join(&T[j].thread);
            T[j].joined = true;
            vh_begin("JoinRet");
            vh_int("k", 0);
            vh_int("thr", j);
            vh_rc(jrc);
            vh_end();
            aws_thread_clean_up(&T[j].thread);
        }
    }
    aws_rw_lock_clean_up(rw);
    vh_begin("CleanUp");
    vh_end();
}

int main(int argc, char **argv) {
    return vs_main(argc, argv, scenario);
}
