/* C07 adapter: one aws_task_scheduler and a pool of tasks driven by a script. Every task function is the same C
 * function: it writes an "Invoked" event (task, status, id of the run_all call in progress) and then executes the
 * calls the script attached to this invocation of this task (schedule-now / schedule-future of any task including
 * itself, cancel of another task) - from inside the real callback, so they are genuinely re-entrant. Every call
 * into the scheduler, external or from a task function, writes one event *before* it is made; has_tasks writes its
 * results. The event stream is therefore flat and totally ordered.
 * Timestamps are indices into TT (increasing; first 0, last UINT64_MAX); the same table is known to the spec.
 * The only bookkeeping kept here is which tasks this adapter has scheduled and not yet seen invoked; it is used
 * solely to skip script lines whose API precondition does not hold at that moment (schedule an already scheduled
 * task, cancel a task that is not scheduled) - which script line that is can depend on how the library orders
 * tasks with equal timestamps, which is unspecified. No expected results live here. */
#include "vh_core.h"

#include <aws/common/task_scheduler.h>

#define NT 16
#define MAXINV 16
#define MAXACT 3
static const uint64_t TT[] = {0, 1, 2, 3, 5, 8, 13, 21, 34, 55, 89, 144, 233, 377, 610, 1000, 5000, (uint64_t)1 << 31, (uint64_t)1 << 32,
                              (uint64_t)1 << 33, (uint64_t)1 << 63, UINT64_MAX - 2, UINT64_MAX - 1, UINT64_MAX};
#define NTT ((int)(sizeof(TT) / sizeof(TT[0])))

struct act {
    char op; /* N now, F future, C cancel */
    int t, time;
};
static struct aws_task_scheduler sched;
static bool live;
static struct aws_task *tasks[NT + 1]; /* each its own heap block */
static bool is_sched[NT + 1];          /* scheduled by this adapter, function not yet invoked */
static int ninv[NT + 1];
static struct act prog[NT + 1][MAXINV + 1][MAXACT];
static int nact[NT + 1][MAXINV + 1];
static long long run_id, in_run;

static int time_index(uint64_t v) {
    for (int i = 0; i < NTT; ++i) {
        if (TT[i] == v) {
            return i;
        }
    }
    return -1;
}
static void apply(struct act a) {
    if (a.t < 1 || a.t > NT) {
        return;
    }
    if (a.op == 'I') {
        /* cancel of a task that is not scheduled (initialised, or already run): whether its function is called with
         * CANCELED is left open, but nobody else may be affected */
        if (is_sched[a.t]) {
            return;
        }
        vh_begin("CancelIdle");
        vh_int("t", a.t);
        vh_end();
        aws_task_scheduler_cancel_task(&sched, tasks[a.t]);
        vh_begin("CancelIdleEnd");
        vh_int("t", a.t);
        vh_end();
        return;
    }
    if (a.op == 'C') {
        if (!is_sched[a.t]) {
            return; /* precondition of cancel_task: the task is scheduled */
        }
        vh_begin("Cancel");
        vh_int("t", a.t);
        vh_end();
        aws_task_scheduler_cancel_task(&sched, tasks[a.t]);
        return;
    }
    if (is_sched[a.t]) {
        return; /* precondition of schedule_*: the task is not already scheduled */
    }
    is_sched[a.t] = true;
    if (a.op == 'N') {
        vh_begin("ScheduleNow");
        vh_int("t", a.t);
        vh_end();
        aws_task_scheduler_schedule_now(&sched, tasks[a.t]);
    } else {
        vh_begin("ScheduleFuture");
        vh_int("t", a.t);
        vh_int("time", a.time);
        vh_end();
        aws_task_scheduler_schedule_future(&sched, tasks[a.t], TT[a.time]);
    }
}
static void task_fn(struct aws_task *task, void *arg, enum aws_task_status status) {
    (void)task;
    int t = (int)(intptr_t)arg;
    is_sched[t] = false;
    int k = ++ninv[t];
    vh_begin("Invoked");
    vh_int("t", t);
    vh_str("st", status == AWS_TASK_STATUS_RUN_READY ? "RUN" : (status == AWS_TASK_STATUS_CANCELED ? "CANCELED" : "?"));
    vh_int("rid", in_run ? run_id : 0);
    vh_end();
    if (k <= MAXINV) {
        for (int i = 0; i < nact[t][k]; ++i) {
            apply(prog[t][k][i]);
        }
    }
}
static int parse_act(int i, struct act *a) { /* returns tokens consumed, 0 on error */
    const char *o = vh_args(i);
    if (!strcmp(o, "NOW")) {
        a->op = 'N';
        a->t = (int)vh_argi(i + 1);
        a->time = 0;
        return 2;
    }
    if (!strcmp(o, "CANCELI")) {
        a->op = 'I';
        a->t = (int)vh_argi(i + 1);
        a->time = 0;
        return 2;
    }
    if (!strcmp(o, "CANCEL")) {
        a->op = 'C';
        a->t = (int)vh_argi(i + 1);
        a->time = 0;
        return 2;
    }
    if (!strcmp(o, "FUT")) {
        a->op = 'F';
        a->t = (int)vh_argi(i + 1);
        a->time = (int)vh_argi(i + 2);
        if (a->time < 0 || a->time >= NTT) {
            return 0;
        }
        return 3;
    }
    return 0;
}
static void clean_up(void) {
    vh_begin("CleanUpBegin");
    vh_end();
    aws_task_scheduler_clean_up(&sched);
    vh_begin("CleanUpEnd");
    vh_end();
}

int main(int argc, char **argv) {
    if (argc < 3) {
        return 3;
    }
    FILE *in = fopen(argv[1], "r");
    vh_open(argv[2]);
    vh_install_handlers(120);
    size_t base_blocks = 0;
    while (vh_next(in)) {
        if (vh_is("RESET")) {
            if (live) {
                aws_task_scheduler_clean_up(&sched);
            }
            base_blocks = vh_live_blocks;
            memset(is_sched, 0, sizeof(is_sched));
            memset(ninv, 0, sizeof(ninv));
            memset(nact, 0, sizeof(nact));
            run_id = in_run = 0;
            for (int t = 1; t <= NT; ++t) {
                free(tasks[t]);
                tasks[t] = malloc(sizeof(struct aws_task));
                aws_task_init(tasks[t], task_fn, (void *)(intptr_t)t, "verif");
            }
            aws_task_scheduler_init(&sched, vh_alloc());
            live = true;
            vh_begin("Reset");
            vh_end();
            continue;
        }
        if (vh_is("END") || !live) {
            continue;
        }
        if (vh_is("PROG")) { /* PROG task invocation {NOW t | FUT t time | CANCEL t}* */
            int t = (int)vh_argi(1), k = (int)vh_argi(2);
            if (t < 1 || t > NT || k < 1 || k > MAXINV) {
                return 3;
            }
            int i = 3;
            while (i < vh_ntok && nact[t][k] < MAXACT) {
                int n = parse_act(i, &prog[t][k][nact[t][k]]);
                if (!n) {
                    return 3;
                }
                nact[t][k]++;
                i += n;
            }
            continue;
        }
        if (vh_is("FIN")) {
            clean_up();
            live = false;
            vh_begin("Fin"); /* blocks never released: evidence only */
            vh_int("leaked", (long long)vh_live_blocks - (long long)base_blocks);
            vh_end();
            continue;
        }
        struct act a;
        if (vh_is("NOW") || vh_is("FUT") || vh_is("CANCEL") || vh_is("CANCELI")) {
            if (!parse_act(0, &a)) {
                return 3;
            }
            apply(a);
        } else if (vh_is("RUN")) {
            int ti = (int)vh_argi(1);
            if (ti < 0 || ti >= NTT) {
                return 3;
            }
            ++run_id;
            in_run = 1;
            vh_begin("RunAllBegin");
            vh_int("now", ti);
            vh_end();
            aws_task_scheduler_run_all(&sched, TT[ti]);
            in_run = 0;
            vh_begin("RunAllEnd");
            vh_int("valid", aws_task_scheduler_is_valid(&sched) ? 1 : 0);
            vh_end();
        } else if (vh_is("HAS")) {
            uint64_t next = 12345;
            bool has = aws_task_scheduler_has_tasks(&sched, &next);
            vh_begin("HasTasks");
            vh_int("has", has ? 1 : 0);
            vh_int("next", time_index(next));
            vh_wide("next_raw", next);
            vh_int("valid", aws_task_scheduler_is_valid(&sched) ? 1 : 0);
            vh_end();
        } else if (vh_is("CLEANUP")) { /* clean_up, then a fresh scheduler so the script can go on */
            clean_up();
            aws_task_scheduler_init(&sched, vh_alloc());
        } else {
            fprintf(stderr, "unknown op %s\n", vh_tok[0]);
            return 3;
        }
    }
    if (live) {
        aws_task_scheduler_clean_up(&sched);
    }
    vh_begin("End");
    vh_int("live", (long long)vh_live_blocks);
    vh_end();
    fclose(vh_out);
    return 0;
}
