/* C10 adapter: aws_cbor_encoder / aws_cbor_decoder driven by a script; one ndjson event per public call with the
 * arguments and everything the call reported. No expected values here.
 *
 * Encoder calls report `out` = the bytes the call appended (encoded data [length before the call, length after)) and
 * `len` = the total length afterwards. 64-bit arguments and results travel as 8 bytes, most significant first; a double
 * as the 8 bytes of its IEEE-754 pattern (a trusted memcpy). String payloads are generated from a pattern given in
 * the script (start, step, length): byte i = (start + i * step) mod 256; the event carries the pattern, not the bytes.
 * A decoder reads an exact-size heap copy of the encoded data taken at DNEW (ASan sees a one-byte over-read). */
#include "vh_core.h"

#include <aws/common/byte_buf.h>
#include <aws/common/cbor.h>

#define NDEC 4
static struct aws_cbor_encoder *enc;
static struct aws_cbor_decoder *dec[NDEC];
static uint8_t *dec_src[NDEC];

static int hexval(int c) {
    return c <= '9' ? c - '0' : (c | 0x20) - 'a' + 10;
}
static uint64_t hex_u64(const char *s) {
    uint64_t v = 0;
    for (; *s; ++s) {
        v = (v << 4) | (uint64_t)hexval(*s);
    }
    return v;
}
static void be8(uint64_t v, uint8_t *o) {
    for (int i = 0; i < 8; ++i) {
        o[i] = (uint8_t)(v >> (56 - 8 * i));
    }
}
static void log_be(const char *k, uint64_t v, int nbytes) {
    uint8_t b[8];
    be8(v, b);
    vh_bytes(k, b + 8 - nbytes, (size_t)nbytes);
}
static size_t enc_len(void) {
    return aws_cbor_encoder_get_encoded_data(enc).len;
}
/* the bytes appended since `before` and the total length */
static void log_out(size_t before) {
    struct aws_byte_cursor c = aws_cbor_encoder_get_encoded_data(enc);
    if (c.len >= before) {
        vh_bytes("out", c.ptr + before, c.len - before);
    } else {
        vh_bytes("out", NULL, 0);
    }
    vh_int("len", (long long)c.len);
}
static void free_dec(int d) {
    if (dec[d]) {
        aws_cbor_decoder_destroy(dec[d]);
        dec[d] = NULL;
    }
    free(dec_src[d]);
    dec_src[d] = NULL;
}
static void free_all(void) {
    for (int d = 0; d < NDEC; ++d) {
        free_dec(d);
    }
    if (enc) {
        aws_cbor_encoder_destroy(enc);
        enc = NULL;
    }
}
static int dec_id(int i) {
    long long d = vh_argi(i);
    if (d < 0 || d >= NDEC) {
        fprintf(stderr, "script: decoder id %lld\n", d);
        exit(3);
    }
    return (int)d;
}

int main(int argc, char **argv) {
    if (argc < 3) {
        return 3;
    }
    FILE *in = fopen(argv[1], "r");
    vh_open(argv[2]);
    vh_install_handlers(120);
    while (vh_next(in)) {
        if (vh_is("RESET")) {
            free_all();
            enc = aws_cbor_encoder_new(vh_alloc());
            vh_begin("Reset");
            vh_int("len", (long long)enc_len());
            vh_end();
        } else if (vh_is("END")) {
            break;
        } else if (vh_is("W")) { /* W kind hex */
            const char *k = vh_args(1);
            uint64_t v = hex_u64(vh_args(2));
            size_t before = enc_len();
            int nb = 8;
            if (!strcmp(k, "uint")) {
                aws_cbor_encoder_write_uint(enc, v);
            } else if (!strcmp(k, "negint")) {
                aws_cbor_encoder_write_negint(enc, v);
            } else if (!strcmp(k, "tag")) {
                aws_cbor_encoder_write_tag(enc, v);
            } else if (!strcmp(k, "array")) {
                aws_cbor_encoder_write_array_start(enc, (size_t)v);
            } else if (!strcmp(k, "map")) {
                aws_cbor_encoder_write_map_start(enc, (size_t)v);
            } else if (!strcmp(k, "bool")) {
                aws_cbor_encoder_write_bool(enc, v != 0);
                nb = 1;
            } else {
                fprintf(stderr, "script: W %s\n", k);
                exit(3);
            }
            vh_begin("Write");
            vh_str("k", k);
            log_be("v", v, nb);
            log_out(before);
            vh_end();
        } else if (vh_is("W0")) { /* W0 kind */
            const char *k = vh_args(1);
            size_t before = enc_len();
            if (!strcmp(k, "null")) {
                aws_cbor_encoder_write_null(enc);
            } else if (!strcmp(k, "undef")) {
                aws_cbor_encoder_write_undefined(enc);
            } else if (!strcmp(k, "ibytes")) {
                aws_cbor_encoder_write_indef_bytes_start(enc);
            } else if (!strcmp(k, "itext")) {
                aws_cbor_encoder_write_indef_text_start(enc);
            } else if (!strcmp(k, "iarray")) {
                aws_cbor_encoder_write_indef_array_start(enc);
            } else if (!strcmp(k, "imap")) {
                aws_cbor_encoder_write_indef_map_start(enc);
            } else if (!strcmp(k, "break")) {
                aws_cbor_encoder_write_break(enc);
            } else {
                fprintf(stderr, "script: W0 %s\n", k);
                exit(3);
            }
            vh_begin("Write");
            vh_str("k", k);
            vh_bytes("v", NULL, 0);
            log_out(before);
            vh_end();
        } else if (vh_is("WS")) { /* WS bytes|text start step n */
            const char *k = vh_args(1);
            unsigned a = (unsigned)vh_argu(2), s = (unsigned)vh_argu(3);
            size_t n = (size_t)vh_argu(4);
            uint8_t *p = malloc(n);
            for (size_t i = 0; i < n; ++i) {
                p[i] = (uint8_t)(a + i * s);
            }
            struct aws_byte_cursor c = aws_byte_cursor_from_array(p, n);
            size_t before = enc_len();
            if (!strcmp(k, "bytes")) {
                aws_cbor_encoder_write_bytes(enc, c);
            } else {
                aws_cbor_encoder_write_text(enc, c);
            }
            free(p);
            long long pat[3] = {(long long)(a & 255u), (long long)(s & 255u), (long long)n};
            vh_begin("WriteStr");
            vh_str("k", k);
            vh_ints("pat", pat, 3);
            log_out(before);
            vh_end();
        } else if (vh_is("WX")) { /* WX bytes|text hex|- : explicit payload */
            const char *k = vh_args(1);
            const char *h = vh_args(2);
            size_t n = strcmp(h, "-") == 0 ? 0 : strlen(h) / 2;
            uint8_t *p = malloc(n);
            for (size_t i = 0; i < n; ++i) {
                p[i] = (uint8_t)(hexval(h[2 * i]) * 16 + hexval(h[2 * i + 1]));
            }
            struct aws_byte_cursor c = aws_byte_cursor_from_array(p, n);
            size_t before = enc_len();
            if (!strcmp(k, "bytes")) {
                aws_cbor_encoder_write_bytes(enc, c);
            } else {
                aws_cbor_encoder_write_text(enc, c);
            }
            vh_begin("Write");
            vh_str("k", k);
            vh_bytes("v", p, n);
            log_out(before);
            vh_end();
            free(p);
        } else if (vh_is("WF")) { /* WF hex16: aws_cbor_encoder_write_float(double with that bit pattern) */
            uint64_t u = hex_u64(vh_args(1));
            double dv;
            memcpy(&dv, &u, 8);
            size_t before = enc_len();
            aws_cbor_encoder_write_float(enc, dv);
            vh_begin("WriteFloat");
            log_be("bits", u, 8);
            log_out(before);
            vh_end();
        } else if (vh_is("WSB")) { /* WSB bytes|text start step n : a string of any size, described instead of logged (CborBig.tla) */
            const char *k = vh_args(1);
            unsigned a = (unsigned)vh_argu(2), s = (unsigned)vh_argu(3);
            size_t n = (size_t)vh_argu(4);
            uint8_t *p = malloc(n ? n : 1);
            for (size_t i = 0; i < n; ++i) {
                p[i] = (uint8_t)(a + i * s);
            }
            struct aws_byte_cursor c = aws_byte_cursor_from_array(p, n);
            size_t before = enc_len();
            if (!strcmp(k, "bytes")) {
                aws_cbor_encoder_write_bytes(enc, c);
            } else {
                aws_cbor_encoder_write_text(enc, c);
            }
            struct aws_byte_cursor all = aws_cbor_encoder_get_encoded_data(enc);
            size_t app = all.len >= before ? all.len - before : 0;
            size_t hl = app >= n ? app - n : app; /* what precedes the last n appended bytes */
            int bodyok = app >= n && (n == 0 || memcmp(all.ptr + all.len - n, p, n) == 0);
            free(p);
            long long pat[3] = {(long long)(a & 255u), (long long)(s & 255u), (long long)n};
            vh_begin("WriteBig");
            vh_str("k", k);
            vh_ints("pat", pat, 3);
            vh_bytes("head", all.ptr + before, hl > 12 ? 12 : hl);
            vh_int("bodyok", bodyok);
            vh_int("applen", (long long)app);
            vh_int("len", (long long)all.len);
            vh_end();
        } else if (vh_is("POPB")) { /* POPB d : the next item, which the script knows to be a string, by its own type */
            int d = dec_id(1);
            enum aws_cbor_type t = AWS_CBOR_TYPE_UNKNOWN;
            struct aws_byte_cursor c = {0};
            int rc = aws_cbor_decoder_peek_type(dec[d], &t);
            const char *k = "bytes";
            if (rc == 0) {
                if (t == AWS_CBOR_TYPE_TEXT) {
                    k = "text";
                    rc = aws_cbor_decoder_pop_next_text_val(dec[d], &c);
                } else {
                    rc = aws_cbor_decoder_pop_next_bytes_val(dec[d], &c);
                }
            }
            long long pat[3] = {0, 0, 0};
            int patok = 0;
            if (rc == 0) {
                unsigned a = c.len >= 1 ? c.ptr[0] : 0, s = c.len >= 2 ? (unsigned)(uint8_t)(c.ptr[1] - c.ptr[0]) : 0;
                patok = 1;
                for (size_t i = 0; i < c.len; ++i) {
                    patok &= c.ptr[i] == (uint8_t)(a + i * s);
                }
                pat[0] = a;
                pat[1] = s;
                pat[2] = (long long)c.len;
            }
            vh_begin("PopBig");
            vh_int("d", d);
            vh_rc(rc);
            vh_str("k", k);
            vh_ints("pat", pat, 3);
            vh_int("patok", patok);
            vh_int("rem", (long long)aws_cbor_decoder_get_remaining_length(dec[d]));
            vh_end();
        } else if (vh_is("ERESET")) {
            aws_cbor_encoder_reset(enc);
            vh_begin("EncReset");
            vh_int("len", (long long)enc_len());
            vh_end();
        } else if (vh_is("DATA")) {
            struct aws_byte_cursor c = aws_cbor_encoder_get_encoded_data(enc);
            vh_begin("GetData");
            vh_bytes("bytes", c.ptr, c.len);
            vh_int("len", (long long)c.len);
            vh_end();
        } else if (vh_is("DNEW")) {
            int d = dec_id(1);
            free_dec(d);
            struct aws_byte_cursor c = aws_cbor_encoder_get_encoded_data(enc);
            dec_src[d] = malloc(c.len);
            if (c.len) {
                memcpy(dec_src[d], c.ptr, c.len);
            }
            dec[d] = aws_cbor_decoder_new(vh_alloc(), aws_byte_cursor_from_array(dec_src[d], c.len));
            vh_begin("DecNew");
            vh_int("d", d);
            vh_int("len", (long long)c.len);
            vh_int("rem", (long long)aws_cbor_decoder_get_remaining_length(dec[d]));
            vh_end();
        } else if (vh_is("DFREE")) {
            int d = dec_id(1);
            free_dec(d);
            vh_begin("DecFree");
            vh_int("d", d);
            vh_end();
        } else if (vh_is("PEEK")) {
            int d = dec_id(1);
            enum aws_cbor_type t = AWS_CBOR_TYPE_UNKNOWN;
            int rc = aws_cbor_decoder_peek_type(dec[d], &t);
            vh_begin("Peek");
            vh_int("d", d);
            vh_rc(rc);
            vh_str("ty", rc == 0 ? aws_cbor_type_cstr(t) : "");
            vh_int("rem", (long long)aws_cbor_decoder_get_remaining_length(dec[d]));
            vh_end();
        } else if (vh_is("POP")) { /* POP d kind */
            int d = dec_id(1);
            const char *k = vh_args(2);
            uint64_t u = 0;
            double dv = 0;
            bool b = false;
            struct aws_byte_cursor c = {0};
            int rc, form = 0; /* 0: u64, 1: double, 2: bool, 3: cursor */
            if (!strcmp(k, "uint")) {
                rc = aws_cbor_decoder_pop_next_unsigned_int_val(dec[d], &u);
            } else if (!strcmp(k, "negint")) {
                rc = aws_cbor_decoder_pop_next_negative_int_val(dec[d], &u);
            } else if (!strcmp(k, "tag")) {
                rc = aws_cbor_decoder_pop_next_tag_val(dec[d], &u);
            } else if (!strcmp(k, "array")) {
                rc = aws_cbor_decoder_pop_next_array_start(dec[d], &u);
            } else if (!strcmp(k, "map")) {
                rc = aws_cbor_decoder_pop_next_map_start(dec[d], &u);
            } else if (!strcmp(k, "float")) {
                rc = aws_cbor_decoder_pop_next_float_val(dec[d], &dv);
                form = 1;
            } else if (!strcmp(k, "bool")) {
                rc = aws_cbor_decoder_pop_next_boolean_val(dec[d], &b);
                form = 2;
            } else if (!strcmp(k, "bytes")) {
                rc = aws_cbor_decoder_pop_next_bytes_val(dec[d], &c);
                form = 3;
            } else if (!strcmp(k, "text")) {
                rc = aws_cbor_decoder_pop_next_text_val(dec[d], &c);
                form = 3;
            } else {
                fprintf(stderr, "script: POP %s\n", k);
                exit(3);
            }
            vh_begin("Pop");
            vh_int("d", d);
            vh_str("kind", k);
            vh_rc(rc);
            if (rc != 0) {
                vh_bytes("val", NULL, 0);
            } else if (form == 0) {
                log_be("val", u, 8);
            } else if (form == 1) {
                memcpy(&u, &dv, 8);
                log_be("val", u, 8);
            } else if (form == 2) {
                log_be("val", b ? 1 : 0, 1);
            } else {
                vh_bytes("val", c.ptr, c.len);
            }
            vh_int("rem", (long long)aws_cbor_decoder_get_remaining_length(dec[d]));
            vh_end();
        } else if (vh_is("SKIP") || vh_is("SKIP1")) {
            int d = dec_id(1);
            bool whole = vh_is("SKIP");
            int rc = whole ? aws_cbor_decoder_consume_next_whole_data_item(dec[d])
                           : aws_cbor_decoder_consume_next_single_element(dec[d]);
            vh_begin(whole ? "SkipWhole" : "SkipOne");
            vh_int("d", d);
            vh_rc(rc);
            vh_int("rem", (long long)aws_cbor_decoder_get_remaining_length(dec[d]));
            vh_end();
        } else if (vh_is("REM")) {
            int d = dec_id(1);
            vh_begin("Remaining");
            vh_int("d", d);
            vh_int("rem", (long long)aws_cbor_decoder_get_remaining_length(dec[d]));
            vh_end();
        } else {
            fprintf(stderr, "script: unknown op %s\n", vh_tok[0]);
            exit(3);
        }
    }
    free_all();
    vh_begin("End");
    vh_int("live", (long long)vh_live_blocks);
    vh_end();
    fclose(vh_out);
    return 0;
}
