/* C02 adapter: two aws_hash_table structs driven by a script; reports results, destructor invocations and
 * the public observable state (entry count, a read-only find of every key class) after every call.
 *
 * Key universe: classes 0..8 (0 = the NULL key). Every class >= 1 has four key *objects* (distinct pointers,
 * equal under the table's equality): object 0 is only ever used for look-ups, 1..3 are storable.
 * Key object id = 4 * class + object; values are small ids carried in the pointer itself (0 = NULL).
 *
 * RESET <mode> ...: mode "tab" installs a table-driven hash function: the RESET line carries the 64-bit hash
 * code of each class (so hash assignments chosen by the model checker or by the adversarial random driver are
 * replayed on the real table); the other modes use the library's own hash / equality pairs on real keys.
 * Mode "string_own": keys AND values are aws_strings that the table owns through aws_hash_callback_string_destroy;
 * what the destructor did is observed at the allocator (which of the adapter's string objects were released during
 * the call), so a skipped destruction shows as a missing release and a repeated one as an ASan double free.
 * INIT ... alt=1 (table-driven mode) gives the table a second hash function (the code table read backwards): hash
 * functions belong to a table, not to a key type (aws_hash_table_eq: "need not be equivalent between the two tables").
 * The adapter holds no expected values: it applies calls and projects what it sees. */
#include "vh_core.h"

#include <aws/common/byte_buf.h>
#include <aws/common/hash_table.h>
#include <aws/common/string.h>

#include <ctype.h>

#define NCLS 9 /* classes 0..8 */
#define NOBJ 4
#define NT 2

enum mode { M_TAB, M_CSTR, M_STRING, M_CURSOR, M_CURSOR_IC, M_PTR, M_U64, M_OWN };
static enum mode mode;
static struct aws_hash_table tabs[NT + 1];
static uint64_t codes[NCLS], codes_alt[NCLS];
struct tkey {
    int cls;
};
static void *kobj[NCLS][NOBJ]; /* the key pointers handed to the library */
static void *kmem[NCLS][NOBJ]; /* backing byte blocks of cursors */
static bool kalive[NCLS][NOBJ]; /* string_own: the object has not been released (object lifetime, not table content) */
#define MAXV 512
static void *vobj[MAXV]; /* string_own: value id -> aws_string */
static bool valive[MAXV];
static size_t acq_mark; /* allocator acquisitions before the call under observation */
static struct aws_hash_iter iter;
static bool iter_ok;

/* ---------------------------------------------------------------- callbacks */
static uint64_t tab_hash(const void *k) {
    return codes[((const struct tkey *)k)->cls];
}
static uint64_t tab_hash_alt(const void *k) {
    return codes_alt[((const struct tkey *)k)->cls];
}
static bool tab_eq(const void *a, const void *b) {
    return ((const struct tkey *)a)->cls == ((const struct tkey *)b)->cls;
}
static long long id_of_key(const void *k) {
    if (k == NULL) {
        return 0;
    }
    for (int c = 1; c < NCLS; ++c) {
        for (int p = 1; p < NOBJ; ++p) {
            if (kobj[c][p] == k) {
                return 4 * c + p;
            }
        }
        if (kobj[c][0] == k) {
            return 4 * c;
        }
    }
    return -2; /* not a pointer this adapter ever handed out */
}
static long long id_of_val(const void *v) {
    if (mode == M_OWN) {
        if (v == NULL) {
            return 0;
        }
        for (int i = 1; i < MAXV; ++i) {
            if (vobj[i] == v) {
                return i;
            }
        }
        return -2;
    }
    uintptr_t u = (uintptr_t)v;
    return u < 100000 ? (long long)u : -2;
}
#define MAXD 64
static long long dk_log[MAXD], dv_log[MAXD];
static size_t n_dk, n_dv;
static void destroy_key(void *k) {
    if (n_dk < MAXD) {
        dk_log[n_dk++] = id_of_key(k);
    }
}
static void destroy_val(void *v) {
    if (n_dv < MAXD) {
        dv_log[n_dv++] = id_of_val(v);
    }
}
static void destroyed(void) {
    vh_ints("dk", dk_log, n_dk);
    vh_ints("dv", dv_log, n_dv);
}
/* string_own: the strings are made with this allocator, so aws_hash_callback_string_destroy (= aws_string_destroy)
 * ends here: the release of a key / value object IS its destruction; anything else passes through untouched */
static void own_rel(struct aws_allocator *a, void *p) {
    (void)a;
    for (int c = 1; c < NCLS; ++c) {
        for (int o = 0; o < NOBJ; ++o) {
            if (kalive[c][o] && kobj[c][o] == p) {
                destroy_key(p);
                kalive[c][o] = false;
                kobj[c][o] = NULL; /* the address may be handed out again */
            }
        }
    }
    for (int i = 1; i < MAXV; ++i) {
        if (valive[i] && vobj[i] == p) {
            destroy_val(p);
            valive[i] = false;
            vobj[i] = NULL;
        }
    }
    vh_alloc()->mem_release(vh_alloc(), p);
}
static void *own_acq(struct aws_allocator *a, size_t n) {
    (void)a;
    return vh_alloc()->mem_acquire(vh_alloc(), n);
}
static struct aws_allocator own_allocator = {.mem_acquire = own_acq, .mem_release = own_rel};

/* ---------------------------------------------------------------- key objects */
static void key_text(int c, int p, char *out) {
    /* same letters for every object of a class; objects differ in letter case only (used by cursor_ic) */
    static const char *forms[NOBJ] = {"key-%c%c", "KEY-%c%c", "Key-%c%c", "kEY-%c%c"};
    int variant = (mode == M_CURSOR_IC) ? p : 0;
    char a = (char)('a' + c), b = (char)('a' + (c * 7) % 26);
    if (variant == 1 || variant == 3) {
        a = (char)toupper(a);
    }
    if (variant == 1 || variant == 2) {
        b = (char)toupper(b);
    }
    sprintf(out, forms[variant], a, b);
}
static void free_keys(void) {
    for (int c = 1; c < NCLS; ++c) {
        for (int p = 0; p < NOBJ; ++p) {
            if (mode == M_PTR && p != 1) {
                kobj[c][p] = NULL;
                continue;
            }
            if (mode == M_OWN) {
                if (kalive[c][p]) {
                    aws_string_destroy(kobj[c][p]);
                }
                kobj[c][p] = NULL;
                continue;
            }
            if (kobj[c][p]) {
                if (mode == M_STRING) {
                    aws_string_destroy(kobj[c][p]);
                } else {
                    free(kobj[c][p]);
                }
            }
            free(kmem[c][p]);
            kobj[c][p] = kmem[c][p] = NULL;
        }
    }
    if (mode == M_OWN) { /* the objects no table destroyed are the caller's to free */
        for (int i = 1; i < MAXV; ++i) {
            if (valive[i]) {
                aws_string_destroy(vobj[i]);
            }
            vobj[i] = NULL;
        }
    }
}
static void make_own_key(int c, int p) {
    char txt[32];
    sprintf(txt, "key-%c%c", (char)('a' + c), (char)('a' + (c * 7) % 26));
    kobj[c][p] = aws_string_new_from_array(&own_allocator, (const uint8_t *)txt, strlen(txt));
    kalive[c][p] = true;
}
static void make_keys(void) {
    char txt[32];
    for (int c = 1; c < NCLS; ++c) {
        for (int p = 0; p < NOBJ; ++p) {
            key_text(c, p, txt);
            size_t n = strlen(txt);
            switch (mode) {
                case M_TAB: {
                    struct tkey *k = malloc(sizeof(*k));
                    k->cls = c;
                    kobj[c][p] = k;
                    break;
                }
                case M_CSTR: {
                    char *s = malloc(n + 1); /* exact size: a read past the terminator is an ASan report */
                    memcpy(s, txt, n + 1);
                    kobj[c][p] = s;
                    break;
                }
                case M_STRING:
                    kobj[c][p] = aws_string_new_from_array(vh_alloc(), (const uint8_t *)txt, n);
                    break;
                case M_OWN:
                    make_own_key(c, p);
                    break;
                case M_CURSOR:
                case M_CURSOR_IC: {
                    uint8_t *bytes = malloc(n);
                    memcpy(bytes, txt, n);
                    struct aws_byte_cursor *cur = malloc(sizeof(*cur));
                    cur->ptr = bytes;
                    cur->len = n;
                    kmem[c][p] = bytes;
                    kobj[c][p] = cur;
                    break;
                }
                case M_PTR:
                    if (p == 1) {
                        kobj[c][1] = malloc(1);
                    }
                    break;
                case M_U64: {
                    uint64_t *u = malloc(sizeof(*u));
                    *u = (uint64_t)c * 0x100000001ull; /* same low and high half: exercises the identity hash */
                    kobj[c][p] = u;
                    break;
                }
            }
        }
        if (mode == M_PTR) { /* pointer identity: one object per class */
            kobj[c][0] = kobj[c][2] = kobj[c][3] = kobj[c][1];
        }
    }
}
static const void *key_ptr(int c, int p) {
    if (c != 0 && mode == M_OWN && !kalive[c][p]) {
        make_own_key(c, p); /* the previous object with this id was destroyed: a new object takes the id */
    }
    return c == 0 ? NULL : kobj[c][p];
}
/* values: an id carried in the pointer itself; string_own: an aws_string "v<id mod 3>" (so distinct value objects
 * can be equal under aws_hash_callback_string_eq), made when the id is first used */
static void *val_ptr(long long v) {
    if (mode != M_OWN) {
        return (void *)(uintptr_t)v;
    }
    if (v <= 0 || v >= MAXV) {
        return NULL;
    }
    if (!valive[v]) {
        char txt[16];
        sprintf(txt, "v%d", (int)(v % 3));
        vobj[v] = aws_string_new_from_array(&own_allocator, (const uint8_t *)txt, strlen(txt));
        valive[v] = true;
    }
    return vobj[v];
}
static bool eq_cursor_ic(const void *a, const void *b) {
    return aws_byte_cursor_eq_ignore_case(a, b);
}
static bool eq_cursor(const void *a, const void *b) {
    return aws_byte_cursor_eq(a, b);
}
static aws_hash_fn *hash_fn_of(enum mode m) {
    switch (m) {
        case M_TAB:
            return tab_hash;
        case M_CSTR:
            return aws_hash_c_string;
        case M_STRING:
        case M_OWN:
            return aws_hash_string;
        case M_CURSOR:
            return aws_hash_byte_cursor_ptr;
        case M_CURSOR_IC:
            return aws_hash_byte_cursor_ptr_ignore_case;
        case M_PTR:
            return aws_hash_ptr;
        case M_U64:
            return aws_hash_uint64_t_by_identity;
    }
    return NULL;
}
static aws_hash_callback_eq_fn *eq_fn_of(enum mode m) {
    switch (m) {
        case M_TAB:
            return tab_eq;
        case M_CSTR:
            return aws_hash_callback_c_str_eq;
        case M_STRING:
        case M_OWN:
            return aws_hash_callback_string_eq;
        case M_CURSOR:
            return eq_cursor;
        case M_CURSOR_IC:
            return eq_cursor_ic;
        case M_PTR:
            return aws_ptr_eq;
        case M_U64:
            return aws_hash_compare_uint64_t_eq;
    }
    return NULL;
}
static enum mode mode_of(const char *s) {
    static const char *names[] = {"tab", "cstr", "string", "cursor", "cursor_ic", "ptr", "u64", "string_own"};
    for (int i = 0; i < 8; ++i) {
        if (!strcmp(s, names[i])) {
            return (enum mode)i;
        }
    }
    fprintf(stderr, "script: unknown mode %s\n", s);
    exit(3);
}

/* ---------------------------------------------------------------- projection */
static bool is_live(int t) {
    return tabs[t].p_impl != NULL; /* public field of the public struct */
}
static void state(void) {
    vh_obj_begin("s");
    long long lv[NT], n[NT];
    for (int t = 1; t <= NT; ++t) {
        lv[t - 1] = is_live(t) ? 1 : 0;
        n[t - 1] = is_live(t) ? (long long)aws_hash_table_get_entry_count(&tabs[t]) : -1;
    }
    vh_ints("live", lv, NT);
    vh_ints("n", n, NT);
    long long ok[NT];
    for (int t = 1; t <= NT; ++t) { /* aws_hash_table_is_valid: "best-effort check of the data-structure invariants" */
        ok[t - 1] = is_live(t) ? (aws_hash_table_is_valid(&tabs[t]) ? 1 : 0) : -1;
    }
    vh_ints("ok", ok, NT);
    long long fk[NT][NCLS], fv[NT][NCLS];
    for (int t = 1; t <= NT; ++t) {
        for (int c = 0; c < NCLS; ++c) {
            fk[t - 1][c] = fv[t - 1][c] = -1;
            if (is_live(t)) {
                struct aws_hash_element *el = NULL;
                aws_hash_table_find(&tabs[t], key_ptr(c, 0), &el);
                if (el) {
                    fk[t - 1][c] = id_of_key(el->key);
                    fv[t - 1][c] = id_of_val(el->value);
                }
            }
        }
    }
    vh_arr_begin("fk");
    for (int t = 0; t < NT; ++t) {
        vh_sep();
        fputc('[', vh_out);
        for (int c = 0; c < NCLS; ++c) {
            fprintf(vh_out, c ? ",%lld" : "%lld", fk[t][c]);
        }
        fputc(']', vh_out);
    }
    vh_arr_end();
    vh_arr_begin("fv");
    for (int t = 0; t < NT; ++t) {
        vh_sep();
        fputc('[', vh_out);
        for (int c = 0; c < NCLS; ++c) {
            fprintf(vh_out, c ? ",%lld" : "%lld", fv[t][c]);
        }
        fputc(']', vh_out);
    }
    vh_arr_end();
    vh_obj_end();
}
static void skip(const char *op, const char *why, int t) {
    vh_begin("Skip");
    vh_str("op", op);
    vh_str("why", why);
    vh_int("t", t);
    destroyed();
    state();
    vh_end();
}
static void teardown(void) {
    for (int t = 1; t <= NT; ++t) {
        aws_hash_table_clean_up(&tabs[t]);
    }
    iter_ok = false;
}
static void shown(void) {
    bool done = aws_hash_iter_done(&iter);
    vh_int("done", done ? 1 : 0);
    vh_int("ek", done ? -1 : id_of_key(iter.element.key));
    vh_int("ev", done ? -1 : id_of_val(iter.element.value));
    vh_int("iv", aws_hash_iter_is_valid(&iter) ? 1 : 0);
}

/* foreach callback: answers the scripted flag words in order, CONTINUE afterwards */
struct fe_ctx {
    int flags[64];
    int nflags;
    int calls;
    long long k[64], v[64], f[64];
};
static int fe_cb(void *context, struct aws_hash_element *el) {
    struct fe_ctx *x = context;
    int f = x->calls < x->nflags ? x->flags[x->calls] : AWS_COMMON_HASH_TABLE_ITER_CONTINUE;
    if (x->calls < 64) {
        x->k[x->calls] = id_of_key(el->key);
        x->v[x->calls] = id_of_val(el->value);
        x->f[x->calls] = f;
    }
    x->calls++;
    return f;
}

/* aws_hash_table_eq: the value comparator handed in, and what the library showed it.
 * kind 0: pointer identity (aws_ptr_eq); 1: "same value class" - ids equal mod 3 (string_own: the strings are equal,
 * aws_hash_callback_string_eq); 2: any two values are equal. NULL is only ever equal to NULL. */
static long long cmp_log[MAXD][2];
static size_t n_cmp;
static int veq_kind;
static bool veq(const void *a, const void *b) {
    long long ia = id_of_val(a), ib = id_of_val(b);
    if (n_cmp < MAXD) {
        cmp_log[n_cmp][0] = ia;
        cmp_log[n_cmp][1] = ib;
        n_cmp++;
    }
    if (a == NULL || b == NULL) {
        return a == b;
    }
    switch (veq_kind) {
        case 0:
            return aws_ptr_eq(a, b);
        case 1:
            return mode == M_OWN ? aws_hash_callback_string_eq(a, b) : (ia % 3 == ib % 3);
        default:
            return true;
    }
}

/* ---------------------------------------------------------------- the library's own hash / equality pairs */
static size_t unhex(const char *h, uint8_t *out) {
    size_t n = 0;
    if (!strcmp(h, "-")) {
        return 0;
    }
    for (; h[0] && h[1]; h += 2) {
        unsigned b;
        sscanf(h, "%2x", &b);
        out[n++] = (uint8_t)b;
    }
    return n;
}
static void *own_key(enum mode m, const uint8_t *b, size_t n, int null_ptr, void **backing) {
    static uint8_t cells[256];
    *backing = NULL;
    switch (m) {
        case M_CSTR: {
            char *s = malloc(n + 1);
            memcpy(s, b, n);
            s[n] = 0;
            return s;
        }
        case M_STRING:
            return aws_string_new_from_array(vh_alloc(), b, n);
        case M_CURSOR:
        case M_CURSOR_IC: {
            /* null_ptr packs three things: bit 0 = NULL pointer for an empty cursor, bits 1-2 = offset of the key bytes
             * from a 4-aligned address, bits 3.. = a byte placed right behind the key (0 = none, block is exact-size).
             * Equal keys must hash equally wherever they lie and whatever follows them. */
            int align = (null_ptr >> 1) & 3, guard = null_ptr >> 3;
            struct aws_byte_cursor *cur = malloc(sizeof(*cur));
            uint8_t *base = NULL, *bytes = NULL;
            if (!(n == 0 && (null_ptr & 1))) {
                base = malloc(n + (size_t)align + (guard ? 1 : 0) + ((n + align) ? 0 : 1));
                bytes = base + align;
                if (n) {
                    memcpy(bytes, b, n);
                }
                if (guard) {
                    bytes[n] = (uint8_t)guard;
                }
            }
            cur->ptr = bytes;
            cur->len = n;
            *backing = base;
            return cur;
        }
        case M_PTR:
            return n ? (void *)&cells[b[0]] : NULL; /* the key is the pointer value itself */
        case M_U64: {
            uint64_t *u = malloc(sizeof(*u));
            *u = 0;
            memcpy(u, b, n < 8 ? n : 8);
            return u;
        }
        default:
            return NULL;
    }
}
static void own_free(enum mode m, void *k, void *backing) {
    if (m == M_STRING) {
        aws_string_destroy(k);
    } else if (m != M_PTR) {
        free(k);
    }
    free(backing);
}

int main(int argc, char **argv) {
    if (argc < 3) {
        return 3;
    }
    FILE *in = fopen(argv[1], "r");
    vh_open(argv[2]);
    vh_install_handlers(120);
    bool have_keys = false;
    while (vh_next(in)) {
        n_dk = n_dv = 0;
        if (vh_is("RESET")) {
            teardown();
            if (have_keys) {
                free_keys();
            }
            mode = mode_of(vh_args(1));
            memset(codes, 0, sizeof(codes));
            memset(codes_alt, 0, sizeof(codes_alt));
            /* RESET <mode> <n> <code of class 1> ... <code of class n> */
            int ngiven = 0;
            for (int c = 1; c < NCLS && c + 2 < vh_ntok; ++c) {
                codes[c] = vh_argu(c + 2);
                ngiven = c;
            }
            for (int c = 1; c <= ngiven; ++c) {
                codes_alt[c] = codes[ngiven + 1 - c];
            }
            make_keys();
            have_keys = true;
            vh_begin("Reset");
            vh_str("mode", vh_args(1));
            vh_end();
        } else if (vh_is("HASHEQ")) {
            enum mode m = mode_of(vh_args(1));
            uint8_t a[64], b[64];
            size_t na = unhex(vh_args(2), a), nb = unhex(vh_args(3), b);
            void *ba, *bb;
            void *ka = own_key(m, a, na, (int)vh_argi(4), &ba), *kb = own_key(m, b, nb, (int)vh_argi(5), &bb);
            bool eq = eq_fn_of(m)(ka, kb), qe = eq_fn_of(m)(kb, ka);
            uint64_t ha = hash_fn_of(m)(ka), hb = hash_fn_of(m)(kb);
            vh_begin("HashEq");
            vh_str("fam", vh_args(1));
            vh_str("rel", vh_args(6));
            vh_int("eq", eq ? 1 : 0);
            vh_int("qe", qe ? 1 : 0);
            vh_int("same", ha == hb ? 1 : 0);
            vh_int("refl", (eq_fn_of(m)(ka, ka) && eq_fn_of(m)(kb, kb)) ? 1 : 0);
            vh_int("stable", (hash_fn_of(m)(ka) == ha && hash_fn_of(m)(kb) == hb) ? 1 : 0);
            vh_end();
            own_free(m, ka, ba);
            own_free(m, kb, bb);
        } else if (vh_is("INIT")) {
            int t = (int)vh_argi(1);
            if (is_live(t)) {
                skip("init", "live", t);
                continue;
            }
            int hk = (int)vh_argi(3), hv = (int)vh_argi(4), alt = (vh_ntok > 5 && mode == M_TAB) ? (int)vh_argi(5) : 0;
            aws_hash_callback_destroy_fn *kfn = mode == M_OWN ? aws_hash_callback_string_destroy : destroy_key;
            aws_hash_callback_destroy_fn *vfn = mode == M_OWN ? aws_hash_callback_string_destroy : destroy_val;
            int rc = aws_hash_table_init(
                &tabs[t], vh_alloc(), (size_t)vh_argu(2), alt ? tab_hash_alt : hash_fn_of(mode), eq_fn_of(mode),
                hk ? kfn : NULL, hv ? vfn : NULL);
            iter_ok = false;
            vh_begin("Init");
            vh_int("t", t);
            vh_int("isz", vh_argi(2));
            vh_int("kfn", hk);
            vh_int("vfn", hv);
            vh_int("alt", alt);
            vh_rc(rc);
            destroyed();
            state();
            vh_end();
        } else if (vh_is("PUT")) {
            int t = (int)vh_argi(1), c = (int)vh_argi(2), p = (int)vh_argi(3), v = (int)vh_argi(4), wc = (int)vh_argi(5);
            if (!is_live(t)) {
                skip("put", "dead", t);
                continue;
            }
            int created = -1;
            const void *kp = key_ptr(c, p);
            void *vp = val_ptr(v);
            acq_mark = vh_total_acquires;
            int rc = aws_hash_table_put(&tabs[t], kp, vp, wc ? &created : NULL);
            long long acq = (long long)(vh_total_acquires - acq_mark);
            iter_ok = false;
            vh_begin("Put");
            vh_int("t", t);
            vh_int("c", c);
            vh_int("p", p);
            vh_int("v", v);
            vh_int("wc", created);
            vh_int("acq", acq); /* allocator acquisitions made by the call: did the table grow? */
            vh_rc(rc);
            destroyed();
            state();
            vh_end();
        } else if (vh_is("CREATE")) {
            int t = (int)vh_argi(1), c = (int)vh_argi(2), p = (int)vh_argi(3), setv = (int)vh_argi(4), wc = (int)vh_argi(5);
            if (!is_live(t)) {
                skip("create", "dead", t);
                continue;
            }
            int created = -1;
            struct aws_hash_element *el = NULL;
            const void *kp = key_ptr(c, p);
            void *sp = setv >= 0 ? val_ptr(setv) : NULL;
            acq_mark = vh_total_acquires;
            int rc = aws_hash_table_create(&tabs[t], kp, &el, wc ? &created : NULL);
            long long acq = (long long)(vh_total_acquires - acq_mark);
            iter_ok = false;
            vh_begin("Create");
            vh_int("t", t);
            vh_int("c", c);
            vh_int("p", p);
            vh_int("wc", created);
            vh_int("ek", el ? id_of_key(el->key) : -1);
            vh_int("ev", el ? id_of_val(el->value) : -1);
            vh_int("setv", setv);
            if (el && setv >= 0) {
                el->value = sp; /* "calling code may alter value" */
            }
            vh_int("acq", acq);
            vh_rc(rc);
            destroyed();
            state();
            vh_end();
        } else if (vh_is("FIND")) {
            int t = (int)vh_argi(1), c = (int)vh_argi(2), p = (int)vh_argi(3);
            if (!is_live(t)) {
                skip("find", "dead", t);
                continue;
            }
            struct aws_hash_element *el = (struct aws_hash_element *)(uintptr_t)0x10; /* must be overwritten */
            int rc = aws_hash_table_find(&tabs[t], key_ptr(c, p), &el);
            vh_begin("Find");
            vh_int("t", t);
            vh_int("c", c);
            vh_int("ek", el ? id_of_key(el->key) : -1);
            vh_int("ev", el ? id_of_val(el->value) : -1);
            vh_rc(rc);
            destroyed();
            state();
            vh_end();
        } else if (vh_is("REMOVE")) {
            int t = (int)vh_argi(1), c = (int)vh_argi(2), p = (int)vh_argi(3), out = (int)vh_argi(4), wp = (int)vh_argi(5);
            if (!is_live(t)) {
                skip("remove", "dead", t);
                continue;
            }
            int present = -1;
            struct tkey sentinel_key;
            struct aws_hash_element el = {.key = &sentinel_key, .value = (void *)(uintptr_t)99999};
            int rc = aws_hash_table_remove(&tabs[t], key_ptr(c, p), out ? &el : NULL, wp ? &present : NULL);
            iter_ok = false;
            vh_begin("Remove");
            vh_int("t", t);
            vh_int("c", c);
            vh_int("out", out);
            vh_int("wp", present);
            /* the out element as the call left it; -3 = the adapter's sentinel is still there (not written) */
            vh_int("ok", el.key == &sentinel_key ? -3 : id_of_key(el.key));
            vh_int("ov", el.key == &sentinel_key ? -3 : id_of_val(el.value));
            vh_rc(rc);
            destroyed();
            state();
            vh_end();
        } else if (vh_is("REMELEM")) {
            int t = (int)vh_argi(1), c = (int)vh_argi(2), p = (int)vh_argi(3);
            if (!is_live(t)) {
                skip("remelem", "dead", t);
                continue;
            }
            struct aws_hash_element *el = NULL;
            aws_hash_table_find(&tabs[t], key_ptr(c, p), &el);
            int rc = 0;
            if (el) { /* remove_element requires an element returned by find */
                rc = aws_hash_table_remove_element(&tabs[t], el);
            }
            iter_ok = false;
            vh_begin("RemoveElement");
            vh_int("t", t);
            vh_int("c", c);
            vh_int("found", el ? 1 : 0);
            vh_rc(rc);
            destroyed();
            state();
            vh_end();
        } else if (vh_is("CLEAR")) {
            int t = (int)vh_argi(1);
            if (!is_live(t)) {
                skip("clear", "dead", t);
                continue;
            }
            aws_hash_table_clear(&tabs[t]);
            iter_ok = false;
            vh_begin("Clear");
            vh_int("t", t);
            destroyed();
            state();
            vh_end();
        } else if (vh_is("CLEANUP")) {
            int t = (int)vh_argi(1);
            aws_hash_table_clean_up(&tabs[t]); /* idempotent: also legal on a table that is not live */
            iter_ok = false;
            vh_begin("CleanUp");
            vh_int("t", t);
            destroyed();
            state();
            vh_end();
        } else if (vh_is("SWAP")) {
            int a = (int)vh_argi(1), b = (int)vh_argi(2);
            aws_hash_table_swap(&tabs[a], &tabs[b]);
            iter_ok = false;
            vh_begin("Swap");
            vh_int("a", a);
            vh_int("b", b);
            destroyed();
            state();
            vh_end();
        } else if (vh_is("MOVE")) {
            int to = (int)vh_argi(1), from = (int)vh_argi(2);
            if (!is_live(from)) {
                skip("move", "dead", from);
                continue;
            }
            if (is_live(to)) { /* the header: `to` must be uninitialised or cleaned up (else its memory leaks) */
                skip("move", "live", to);
                continue;
            }
            aws_hash_table_move(&tabs[to], &tabs[from]);
            iter_ok = false;
            vh_begin("Move");
            vh_int("to", to);
            vh_int("from", from);
            destroyed();
            state();
            vh_end();
        } else if (vh_is("ITBEGIN")) {
            int t = (int)vh_argi(1);
            if (!is_live(t)) {
                skip("itbegin", "dead", t);
                continue;
            }
            iter = aws_hash_iter_begin(&tabs[t]);
            iter_ok = true;
            vh_begin("IterBegin");
            vh_int("t", t);
            shown();
            destroyed();
            state();
            vh_end();
        } else if (vh_is("ITNEXT")) {
            if (!iter_ok) {
                skip("itnext", "noiter", 0);
                continue;
            }
            aws_hash_iter_next(&iter);
            vh_begin("IterNext");
            shown();
            destroyed();
            state();
            vh_end();
        } else if (vh_is("ITDEL")) {
            int destroy = (int)vh_argi(1);
            if (!iter_ok) {
                skip("itdel", "noiter", 0);
                continue;
            }
            if (iter.status != AWS_HASH_ITER_STATUS_READY_FOR_USE) { /* precondition of aws_hash_iter_delete */
                skip("itdel", "notready", 0);
                continue;
            }
            aws_hash_iter_delete(&iter, destroy != 0);
            vh_begin("IterDelete");
            vh_int("destroy", destroy);
            vh_int("iv", aws_hash_iter_is_valid(&iter) ? 1 : 0);
            destroyed();
            state();
            vh_end();
        } else if (vh_is("FOREACH")) {
            int t = (int)vh_argi(1);
            if (!is_live(t)) {
                skip("foreach", "dead", t);
                continue;
            }
            struct fe_ctx x;
            memset(&x, 0, sizeof(x));
            for (int i = 2; i < vh_ntok && x.nflags < 64; ++i) {
                x.flags[x.nflags++] = (int)vh_argi(i);
            }
            int rc = aws_hash_table_foreach(&tabs[t], fe_cb, &x);
            iter_ok = false;
            vh_begin("ForEach");
            vh_int("t", t);
            vh_arr_begin("vis");
            for (int i = 0; i < x.calls && i < 64; ++i) {
                vh_sep();
                fprintf(vh_out, "[%lld,%lld,%lld]", x.k[i], x.v[i], x.f[i]);
            }
            vh_arr_end();
            vh_int("ncb", x.calls);
            vh_int("rc", rc); /* the error code behind AWS_OP_ERR is whatever the callback left: not reported */
            destroyed();
            state();
            vh_end();
        } else if (vh_is("EQ")) {
            int a = (int)vh_argi(1), b = (int)vh_argi(2);
            static const char *kinds[] = {"id", "m3", "all"};
            veq_kind = -1;
            for (int i = 0; i < 3; ++i) {
                if (!strcmp(vh_args(3), kinds[i])) {
                    veq_kind = i;
                }
            }
            if (veq_kind < 0) {
                fprintf(stderr, "script: unknown comparator %s\n", vh_args(3));
                exit(3);
            }
            if (!is_live(a) || !is_live(b)) { /* both tables must be valid */
                skip("eq", "dead", is_live(a) ? b : a);
                continue;
            }
            n_cmp = 0;
            bool r = aws_hash_table_eq(&tabs[a], &tabs[b], veq); /* non-mutating: a user iterator stays usable */
            vh_begin("Eq");
            vh_int("a", a);
            vh_int("b", b);
            vh_str("kind", kinds[veq_kind]);
            vh_int("r", r ? 1 : 0);
            vh_arr_begin("cmp");
            for (size_t i = 0; i < n_cmp; ++i) {
                vh_sep();
                fprintf(vh_out, "[%lld,%lld]", cmp_log[i][0], cmp_log[i][1]);
            }
            vh_arr_end();
            destroyed();
            state();
            vh_end();
        } else if (vh_is("COMBINE")) {
            uint64_t a1 = vh_argu(1), b1 = vh_argu(2), a2 = vh_argu(3), b2 = vh_argu(4);
            uint64_t x = aws_hash_combine(a1, b1), y = aws_hash_combine(a2, b2);
            vh_begin("Combine");
            vh_str("rel", vh_args(5));
            vh_wide("x", x);
            vh_wide("y", y);
            vh_int("same", x == y ? 1 : 0);
            vh_int("stable", (aws_hash_combine(a1, b1) == x && aws_hash_combine(a2, b2) == y) ? 1 : 0);
            vh_end();
        } else if (vh_is("XHASH")) {
            /* the same bytes (no NUL among them) as a C string, an aws_string and a byte cursor */
            uint8_t raw[64];
            size_t n = unhex(vh_args(1), raw);
            char *cs = malloc(n + 1);
            memcpy(cs, raw, n);
            cs[n] = 0;
            struct aws_string *st = aws_string_new_from_array(vh_alloc(), raw, n);
            uint8_t *bytes = malloc(n ? n : 1);
            memcpy(bytes, raw, n);
            struct aws_byte_cursor cur = {.len = n, .ptr = bytes};
            uint64_t h1 = aws_hash_c_string(cs), h2 = aws_hash_string(st), h3 = aws_hash_byte_cursor_ptr(&cur);
            vh_begin("XHash");
            vh_int("n", (long long)n);
            vh_int("cs", h1 == h2 ? 1 : 0);
            vh_int("cc", h1 == h3 ? 1 : 0);
            vh_end();
            free(cs);
            free(bytes);
            aws_string_destroy(st);
        } else if (vh_is("END")) {
            break;
        } else {
            fprintf(stderr, "script: unknown command %s\n", vh_tok[0]);
            exit(3);
        }
    }
    teardown();
    if (have_keys) {
        free_keys();
    }
    vh_begin("End");
    vh_int("live", (long long)vh_live_blocks);
    vh_int("unk", (long long)vh_unknown_releases);
    vh_end();
    fclose(vh_out);
    return 0;
}
