/* X03 adapter: the allocator front-end (aws_mem_acquire / calloc / acquire_many / release / realloc,
 * aws_allocator_is_valid, aws_default_allocator, aws_aligned_allocator) driven by a script.
 * Dumb: applies each call, then reports what it measured - NULL-ness, address residues, offsets between
 * returned pointers, how many leading bytes of a block carry the pattern it wrote earlier, and what the
 * four adapter-owned allocators (malloc-backed, exact-size blocks so that ASan delimits them, with or
 * without the optional mem_realloc / mem_calloc callbacks) were asked to do and still hold. */
#include "vh_core.h"

#include <errno.h>
#include <sys/types.h>
#include <sys/wait.h>

/* heap balance as the sanitizer's allocator counts it (bytes currently allocated), sampled tightly around every
 * front-end call and summed per execution: the only way to see a block lost inside the library's own default /
 * aligned allocators, which keep no books */
#if defined(VH_NO_ASAN) || defined(VS_TSAN)
static long long heap_now(void) {
    return 0;
}
#else
size_t __sanitizer_get_current_allocated_bytes(void);
static long long heap_now(void) {
    return (long long)__sanitizer_get_current_allocated_bytes();
}
#endif
static long long heapsum;
#define CALL(stmt)                                                                                                     \
    do {                                                                                                               \
        long long h0_ = heap_now();                                                                                    \
        stmt;                                                                                                          \
        heapsum += heap_now() - h0_;                                                                                   \
    } while (0)

/* ------------------------------------------------------------------ adapter-owned allocators */
#define OWN_TAB 256
struct own {
    struct aws_allocator base;
    struct {
        void *p;
        size_t n;
    } tab[OWN_TAB];
    size_t live, bytes, unk;
    /* what the front-end asked during the current call */
    size_t nacq, nrel, nre, ncal;
    size_t cb_old, cb_new, cb_num, cb_size;
};
static struct own own[4]; /* rc, r, c, n */

static struct own *own_of(struct aws_allocator *a) {
    return (struct own *)a->impl;
}
static void own_put(struct own *o, void *p, size_t n) {
    for (int i = 0; i < OWN_TAB; ++i) {
        if (!o->tab[i].p) {
            o->tab[i].p = p;
            o->tab[i].n = n;
            o->live++;
            o->bytes += n;
            return;
        }
    }
    abort(); /* table full: far beyond anything a script holds */
}
static int own_find(struct own *o, void *p) {
    for (int i = 0; i < OWN_TAB; ++i) {
        if (o->tab[i].p == p) {
            return i;
        }
    }
    return -1;
}
static void *own_new_block(struct own *o, size_t n, int fill) {
    void *p = malloc(n); /* exact size: one byte too many is an ASan report */
    if (p && n) {
        memset(p, fill, n);
    }
    own_put(o, p, n);
    return p;
}
static void own_drop(struct own *o, void *p) {
    int i = p ? own_find(o, p) : -1;
    if (i < 0) {
        o->unk++; /* NULL or a pointer this allocator never handed out */
        return;
    }
    o->live--;
    o->bytes -= o->tab[i].n;
    o->tab[i].p = NULL;
    free(p);
}
static void *own_acq(struct aws_allocator *a, size_t n) {
    struct own *o = own_of(a);
    o->nacq++;
    return own_new_block(o, n, 0xA5);
}
static void own_rel(struct aws_allocator *a, void *p) {
    struct own *o = own_of(a);
    o->nrel++;
    own_drop(o, p);
}
static void *own_realloc(struct aws_allocator *a, void *old, size_t oldn, size_t newn) {
    struct own *o = own_of(a);
    o->nre++;
    o->cb_old = oldn;
    o->cb_new = newn;
    void *p = own_new_block(o, newn, 0xA5); /* always moves: stale pointers are caught */
    if (old) {
        int i = own_find(o, old);
        if (i < 0) {
            o->unk++;
        } else {
            size_t keep = o->tab[i].n < newn ? o->tab[i].n : newn; /* by its own records, not by what it was told */
            memcpy(p, old, keep);
            own_drop(o, old);
        }
    }
    return p;
}
static void *own_calloc(struct aws_allocator *a, size_t k, size_t n) {
    struct own *o = own_of(a);
    o->ncal++;
    o->cb_num = k;
    o->cb_size = n;
    return own_new_block(o, k * n, 0);
}
static void own_setup(void) {
    for (int i = 0; i < 4; ++i) {
        memset(&own[i], 0, sizeof(own[i]));
        own[i].base.mem_acquire = own_acq;
        own[i].base.mem_release = own_rel;
        own[i].base.mem_realloc = (i == 0 || i == 1) ? own_realloc : NULL;
        own[i].base.mem_calloc = (i == 0 || i == 2) ? own_calloc : NULL;
        own[i].base.impl = &own[i];
    }
}
static void own_call_begin(void) {
    for (int i = 0; i < 4; ++i) {
        own[i].nacq = own[i].nrel = own[i].nre = own[i].ncal = 0;
        own[i].cb_old = own[i].cb_new = own[i].cb_num = own[i].cb_size = 0;
    }
}
/* forget everything (after the leak report of an execution) so that executions stay independent */
static void own_forget(void) {
    for (int i = 0; i < 4; ++i) {
        for (int k = 0; k < OWN_TAB; ++k) {
            if (own[i].tab[k].p) {
                free(own[i].tab[k].p);
                own[i].tab[k].p = NULL;
            }
        }
        own[i].live = own[i].bytes = own[i].unk = 0;
    }
}

static const char *FL[6] = {"rc", "r", "c", "n", "def", "aln"};
static int fl_index(const char *s) {
    for (int i = 0; i < 6; ++i) {
        if (strcmp(s, FL[i]) == 0) {
            return i;
        }
    }
    fprintf(stderr, "script: unknown flavour %s\n", s);
    exit(3);
}
static struct aws_allocator *fl_alloc(int f) {
    if (f < 4) {
        return &own[f].base;
    }
    return f == 4 ? aws_default_allocator() : aws_aligned_allocator();
}

/* ------------------------------------------------------------------ slots and content patterns */
#define NSLOT 8
#define MAXPART 5
struct slot {
    void *p; /* NULL: empty */
    int fl;
    size_t size; /* plain block: the size the caller currently believes in */
    int tag;
    int nparts; /* 0: plain; else acquire_many */
    void *part[MAXPART];
    size_t psize[MAXPART];
};
static struct slot slots[NSLOT + 1];

static uint8_t pat(int tag, size_t i) {
    return tag == 0 ? 0 : (uint8_t)((unsigned)tag * 37u + (unsigned)i * 11u + (unsigned)(i >> 8) * 5u + 1u);
}
static void fill(void *p, size_t n, int tag) {
    uint8_t *b = p;
    for (size_t i = 0; i < n; ++i) {
        b[i] = pat(tag, i);
    }
}
static size_t prefix(const void *p, size_t n, int tag) {
    const uint8_t *b = p;
    size_t i = 0;
    while (i < n && b[i] == pat(tag, i)) {
        ++i;
    }
    return i;
}
static int parts_intact(const struct slot *s) {
    for (int k = 0; k < s->nparts; ++k) {
        if (prefix(s->part[k], s->psize[k], s->tag + k) != s->psize[k]) {
            return 0;
        }
    }
    return 1;
}
static long long clampll(long long v, long long lim) {
    return v > lim ? lim : (v < -lim ? -lim : v);
}
static long long small(size_t v) {
    return v > 32767 ? 32767 : (long long)v;
}
/* address facts */
static void out_addr(int f, void *p) {
    uintptr_t a = (uintptr_t)p;
    vh_int("nonnull", p ? 1 : 0);
    vh_int("m16", (long long)(a % 16));
    vh_int("m32", (long long)(a % 32));
    vh_int("m64", (long long)(a % 64));
    long long usz = -1;
    if (f < 4 && p) {
        int i = own_find(&own[f], p);
        usz = i < 0 ? -1 : clampll((long long)own[f].tab[i].n, 1 << 30);
    }
    vh_int("usz", usz);
}
static void state(void) {
    long long nb[4], by[4], unk = 0;
    for (int i = 0; i < 4; ++i) {
        nb[i] = (long long)own[i].live;
        by[i] = clampll((long long)own[i].bytes, 1 << 30);
        unk += (long long)own[i].unk;
    }
    vh_obj_begin("s");
    vh_ints("nb", nb, 4);
    vh_ints("by", by, 4);
    vh_int("unk", unk);
    vh_obj_end();
}
static int started;
static void teardown(void) {
    if (!started) {
        return;
    }
    for (int i = 1; i <= NSLOT; ++i) {
        if (slots[i].p) {
            CALL(aws_mem_release(fl_alloc(slots[i].fl), slots[i].p));
            memset(&slots[i], 0, sizeof(slots[i]));
        }
    }
    long long leak = 0, bytes = 0, unk = 0;
    for (int i = 0; i < 4; ++i) {
        leak += (long long)own[i].live;
        bytes += (long long)own[i].bytes;
        unk += (long long)own[i].unk;
    }
    vh_begin("Teardown");
    vh_int("leak", leak);
    vh_int("bytes", clampll(bytes, 1 << 30));
    vh_int("unk", unk);
    vh_int("heap", clampll(heapsum, 1 << 30));
    vh_end();
    own_forget();
    heapsum = 0;
}
static int slot_arg(int i) {
    long long s = vh_argi(i);
    if (s < 1 || s > NSLOT) {
        fprintf(stderr, "script: bad slot\n");
        exit(3);
    }
    return (int)s;
}

/* a call that is expected not to return is made in a forked child; the parent reports how the child ended */
static const char *calloc_in_child(struct aws_allocator *al, size_t num, size_t size) {
    fflush(vh_out);
    fflush(stderr);
    pid_t pid = -1;
    for (int attempt = 0; attempt < 5 && pid < 0; ++attempt) {
        if (attempt) {
            usleep(200000);
        }
        pid = fork();
    }
    if (pid < 0) {
        perror("fork"); /* the machine, not the library: not something to report as an outcome */
        exit(3);
    }
    if (pid == 0) {
        vh_out = NULL;
        signal(SIGABRT, SIG_DFL);
        if (!freopen("/dev/null", "w", stderr)) {
            _exit(43);
        }
        void *p = aws_mem_calloc(al, num, size);
        _exit(p ? 42 : 41);
    }
    int st = 0;
    pid_t w;
    do {
        w = waitpid(pid, &st, 0);
    } while (w < 0 && errno == EINTR);
    if (w != pid) {
        return "nowait";
    }
    if (WIFSIGNALED(st)) {
        return WTERMSIG(st) == SIGABRT ? "abort" : "signal";
    }
    if (WIFEXITED(st)) {
        int c = WEXITSTATUS(st);
        return (c == 42 || c == 41) ? "returned" : (c == 43 ? "nofork" : "exit");
    }
    return "signal";
}

int main(int argc, char **argv) {
    if (argc < 3) {
        return 3;
    }
    FILE *in = fopen(argv[1], "r");
    if (!in) {
        return 3;
    }
    vh_open(argv[2]);
    vh_install_handlers(120);
    own_setup();
    while (vh_next(in)) {
        if (vh_is("RESET")) {
            teardown();
            started = 1;
            vh_begin("Reset");
            vh_int("ptrsz", (long long)sizeof(void *));
            vh_int("imax", (long long)sizeof(intmax_t));
            vh_end();
        } else if (vh_is("ACQ")) { /* ACQ slot fl size tag */
            int s = slot_arg(1), f = fl_index(vh_args(2)), tag = (int)vh_argi(4);
            size_t n = (size_t)vh_argu(3);
            own_call_begin();
            void *p = NULL;
            CALL(p = aws_mem_acquire(fl_alloc(f), n));
            vh_begin("Acquire");
            vh_int("slot", s);
            vh_str("fl", FL[f]);
            vh_int("size", (long long)n);
            vh_int("tag", tag);
            out_addr(f, p);
            if (p) {
                fill(p, n, tag);
                slots[s] = (struct slot){.p = p, .fl = f, .size = n, .tag = tag};
            }
            state();
            vh_end();
        } else if (vh_is("CAL")) { /* CAL slot fl num size fill tag */
            int s = slot_arg(1), f = fl_index(vh_args(2)), dofill = (int)vh_argi(5), tag = (int)vh_argi(6);
            size_t num = (size_t)vh_argu(3), size = (size_t)vh_argu(4);
            own_call_begin();
            uint8_t *p = NULL;
            CALL(p = aws_mem_calloc(fl_alloc(f), num, size));
            size_t n = num * size, nz = 0;
            for (size_t i = 0; p && i < n; ++i) {
                nz += p[i] != 0;
            }
            vh_begin("Calloc");
            vh_int("slot", s);
            vh_str("fl", FL[f]);
            vh_int("num", (long long)num);
            vh_int("size", (long long)size);
            vh_int("fill", dofill);
            vh_int("tag", dofill ? tag : 0);
            out_addr(f, p);
            vh_int("nz", (long long)nz);
            vh_int("ncal", f < 4 ? (long long)own[f].ncal : 0);
            vh_int("cbn", f < 4 ? small(own[f].cb_num) : 0);
            vh_int("cbs", f < 4 ? small(own[f].cb_size) : 0);
            if (p) {
                if (dofill) {
                    fill(p, n, tag);
                }
                slots[s] = (struct slot){.p = p, .fl = f, .size = n, .tag = dofill ? tag : 0};
            }
            state();
            vh_end();
        } else if (vh_is("OVF")) { /* OVF fl a c b d : num = 2^a + c, size = 2^b + d, a + b >= bits of size_t */
            int f = fl_index(vh_args(1));
            int a = (int)vh_argi(2), b = (int)vh_argi(4);
            size_t num = ((size_t)1 << a) + (size_t)vh_argu(3), size = ((size_t)1 << b) + (size_t)vh_argu(5);
            own_call_begin();
            const char *how = NULL;
            CALL(how = calloc_in_child(fl_alloc(f), num, size));
            vh_begin("CallocOvf");
            vh_str("fl", FL[f]);
            vh_int("a", a);
            vh_int("b", b);
            vh_str("outcome", how);
            state();
            vh_end();
        } else if (vh_is("MANY")) { /* MANY slot fl tag n s1 .. sn */
            int s = slot_arg(1), f = fl_index(vh_args(2)), tag = (int)vh_argi(3), n = (int)vh_argi(4);
            if (n < 1 || n > MAXPART) {
                fprintf(stderr, "script: MANY with %d regions\n", n);
                exit(3);
            }
            size_t z[MAXPART] = {0};
            void *o[MAXPART] = {NULL, NULL, NULL, NULL, NULL};
            for (int k = 0; k < n; ++k) {
                z[k] = (size_t)vh_argu(5 + k);
            }
            struct aws_allocator *al = fl_alloc(f);
            void *ret = NULL;
            own_call_begin();
            switch (n) {
                case 1:
                    CALL(ret = aws_mem_acquire_many(al, 1, &o[0], z[0]));
                    break;
                case 2:
                    CALL(ret = aws_mem_acquire_many(al, 2, &o[0], z[0], &o[1], z[1]));
                    break;
                case 3:
                    CALL(ret = aws_mem_acquire_many(al, 3, &o[0], z[0], &o[1], z[1], &o[2], z[2]));
                    break;
                case 4:
                    CALL(ret = aws_mem_acquire_many(al, 4, &o[0], z[0], &o[1], z[1], &o[2], z[2], &o[3], z[3]));
                    break;
                default:
                    CALL(ret = aws_mem_acquire_many(al, 5, &o[0], z[0], &o[1], z[1], &o[2], z[2], &o[3], z[3], &o[4], z[4]));
                    break;
            }
            long long zs[MAXPART], offs[MAXPART];
            struct slot ns = {.p = ret, .fl = f, .tag = tag, .nparts = n};
            int all = ret != NULL;
            for (int k = 0; k < n; ++k) {
                zs[k] = (long long)z[k];
                offs[k] = clampll((long long)((intptr_t)o[k] - (intptr_t)o[0]), 1 << 30);
                ns.part[k] = o[k];
                ns.psize[k] = z[k];
                all = all && o[k] != NULL;
            }
            vh_begin("Many");
            vh_int("slot", s);
            vh_str("fl", FL[f]);
            vh_int("tag", tag);
            vh_ints("sizes", zs, (size_t)n);
            vh_ints("offs", offs, (size_t)n);
            vh_int("retoff", clampll((long long)((intptr_t)ret - (intptr_t)o[0]), 1 << 30));
            out_addr(f, o[0]);
            int intact = 0;
            if (all) {
                for (int k = 0; k < n; ++k) {
                    fill(o[k], z[k], tag + k);
                }
                intact = parts_intact(&ns);
                slots[s] = ns;
            }
            vh_int("pat", intact);
            state();
            vh_end();
        } else if (vh_is("REL")) { /* REL slot */
            int s = slot_arg(1);
            struct slot *sl = &slots[s];
            long long kept = 0;
            int intact = 1;
            if (sl->p) {
                if (sl->nparts) {
                    intact = parts_intact(sl);
                } else {
                    kept = (long long)prefix(sl->p, sl->size, sl->tag);
                }
            }
            own_call_begin();
            CALL(aws_mem_release(fl_alloc(sl->fl), sl->p));
            memset(sl, 0, sizeof(*sl));
            vh_begin("Release");
            vh_int("slot", s);
            vh_int("kept", kept);
            vh_int("pat", intact);
            state();
            vh_end();
        } else if (vh_is("RELNULL")) { /* RELNULL fl */
            int f = fl_index(vh_args(1));
            own_call_begin();
            CALL(aws_mem_release(fl_alloc(f), NULL));
            vh_begin("ReleaseNull");
            vh_str("fl", FL[f]);
            vh_int("nrel", f < 4 ? (long long)own[f].nrel : 0);
            state();
            vh_end();
        } else if (vh_is("REALLOC") || vh_is("REALLOCNULL")) {
            /* REALLOC slot newsize fill tag   |   REALLOCNULL slot fl newsize tag  (pointer NULL, oldsize 0) */
            int fromnull = vh_is("REALLOCNULL");
            int s = slot_arg(1);
            struct slot *sl = &slots[s];
            int f, dofill, tag;
            size_t newn;
            if (fromnull) {
                f = fl_index(vh_args(2));
                newn = (size_t)vh_argu(3);
                dofill = 1;
                tag = (int)vh_argi(4);
                memset(sl, 0, sizeof(*sl));
            } else {
                f = sl->fl;
                newn = (size_t)vh_argu(2);
                dofill = (int)vh_argi(3);
                tag = (int)vh_argi(4);
            }
            size_t oldn = sl->size;
            int oldtag = sl->tag;
            void *p = sl->p;
            own_call_begin();
            int rc = 0;
            CALL(rc = aws_mem_realloc(fl_alloc(f), &p, oldn, newn));
            size_t lim = oldn < newn ? oldn : newn;
            long long kept = p ? (long long)prefix(p, lim, oldtag) : 0;
            vh_begin(fromnull ? "ReallocNull" : "Realloc");
            vh_int("slot", s);
            vh_str("fl", FL[f]);
            vh_int("oldsize", (long long)oldn);
            vh_int("newsize", (long long)newn);
            vh_int("fill", dofill);
            vh_int("tag", (dofill && newn) ? tag : oldtag);
            vh_rc(rc);
            vh_int("null", p ? 0 : 1);
            vh_int("kept", kept);
            out_addr(f, p);
            vh_int("nre", f < 4 ? (long long)own[f].nre : 0);
            vh_int("cbold", f < 4 ? clampll((long long)own[f].cb_old, 1 << 30) : 0);
            vh_int("cbnew", f < 4 ? clampll((long long)own[f].cb_new, 1 << 30) : 0);
            if (p && newn) {
                if (dofill) {
                    fill(p, newn, tag);
                }
                *sl = (struct slot){.p = p, .fl = f, .size = newn, .tag = dofill ? tag : oldtag};
            } else {
                memset(sl, 0, sizeof(*sl));
            }
            state();
            vh_end();
        } else if (vh_is("VALID")) { /* VALID which */
            const char *w = vh_args(1);
            struct aws_allocator broken = own[3].base;
            const struct aws_allocator *a;
            if (strcmp(w, "null") == 0) {
                a = NULL;
            } else if (strcmp(w, "noacq") == 0) {
                broken.mem_acquire = NULL;
                a = &broken;
            } else if (strcmp(w, "norel") == 0) {
                broken.mem_release = NULL;
                a = &broken;
            } else {
                a = fl_alloc(fl_index(w));
            }
            bool ok = aws_allocator_is_valid(a);
            vh_begin("Valid");
            vh_str("which", w);
            vh_int("res", ok ? 1 : 0);
            vh_end();
        } else if (vh_is("END")) {
            break;
        }
    }
    teardown();
    long long live = (long long)vh_live_blocks;
    for (int i = 0; i < 4; ++i) {
        live += (long long)own[i].live;
    }
    vh_begin("End");
    vh_int("live", live);
    vh_end();
    fclose(vh_out);
    return 0;
}
