/* C16 adapter: evaluates the overflow-checked arithmetic helpers, the power-of-two / bit-count helpers, min/max and
 * the time-unit conversion on operands given by the script and reports what each implementation variant returned.
 * The platform-specific variant files are compiled side by side under renamed symbols:
 *   lib  = whatever <aws/common/math.h> selects for this build (here: math.gcc_overflow.inl + math.gcc_builtin.inl)
 *   fb   = math.fallback.inl        (portable C)
 *   ov   = math.gcc_overflow.inl    (__builtin_*_overflow)
 *   asm  = math.gcc_x64_asm.inl     (x86-64 inline assembly; only when compiled for x86-64)
 *   bi   = math.gcc_builtin.inl     (clz/ctz builtins)
 * No expected values live here: one event per script line with the raw results of every variant. */
#include "vh_core.h"

#include <aws/common/clock.h>
#include <aws/common/math.h>

#define VH_CAT2(a, b) a##b
#define VH_CAT(a, b) VH_CAT2(a, b)
#define VH_V(name) VH_CAT(VH_VARIANT, name)

#define VH_DECLARE_VARIANT(P)                                                                                          \
    static inline uint64_t P##aws_mul_u64_saturating(uint64_t a, uint64_t b);                                          \
    static inline int P##aws_mul_u64_checked(uint64_t a, uint64_t b, uint64_t *r);                                     \
    static inline uint32_t P##aws_mul_u32_saturating(uint32_t a, uint32_t b);                                          \
    static inline int P##aws_mul_u32_checked(uint32_t a, uint32_t b, uint32_t *r);                                     \
    static inline uint64_t P##aws_add_u64_saturating(uint64_t a, uint64_t b);                                          \
    static inline int P##aws_add_u64_checked(uint64_t a, uint64_t b, uint64_t *r);                                     \
    static inline uint32_t P##aws_add_u32_saturating(uint32_t a, uint32_t b);                                          \
    static inline int P##aws_add_u32_checked(uint32_t a, uint32_t b, uint32_t *r);                                     \
    static inline size_t P##aws_clz_u32(uint32_t n);                                                                   \
    static inline size_t P##aws_clz_i32(int32_t n);                                                                    \
    static inline size_t P##aws_clz_u64(uint64_t n);                                                                   \
    static inline size_t P##aws_clz_i64(int64_t n);                                                                    \
    static inline size_t P##aws_clz_size(size_t n);                                                                    \
    static inline size_t P##aws_ctz_u32(uint32_t n);                                                                   \
    static inline size_t P##aws_ctz_i32(int32_t n);                                                                    \
    static inline size_t P##aws_ctz_u64(uint64_t n);                                                                   \
    static inline size_t P##aws_ctz_i64(int64_t n);                                                                    \
    static inline size_t P##aws_ctz_size(size_t n);

VH_DECLARE_VARIANT(fb_)
VH_DECLARE_VARIANT(ov_)
VH_DECLARE_VARIANT(asm_)
VH_DECLARE_VARIANT(bi_)

/* from here on every helper name the variant files define expands to <VH_VARIANT><name> */
#define aws_mul_u64_saturating VH_V(aws_mul_u64_saturating)
#define aws_mul_u64_checked VH_V(aws_mul_u64_checked)
#define aws_mul_u32_saturating VH_V(aws_mul_u32_saturating)
#define aws_mul_u32_checked VH_V(aws_mul_u32_checked)
#define aws_add_u64_saturating VH_V(aws_add_u64_saturating)
#define aws_add_u64_checked VH_V(aws_add_u64_checked)
#define aws_add_u32_saturating VH_V(aws_add_u32_saturating)
#define aws_add_u32_checked VH_V(aws_add_u32_checked)
#define aws_clz_u32 VH_V(aws_clz_u32)
#define aws_clz_i32 VH_V(aws_clz_i32)
#define aws_clz_u64 VH_V(aws_clz_u64)
#define aws_clz_i64 VH_V(aws_clz_i64)
#define aws_clz_size VH_V(aws_clz_size)
#define aws_ctz_u32 VH_V(aws_ctz_u32)
#define aws_ctz_i32 VH_V(aws_ctz_i32)
#define aws_ctz_u64 VH_V(aws_ctz_u64)
#define aws_ctz_i64 VH_V(aws_ctz_i64)
#define aws_ctz_size VH_V(aws_ctz_size)

/* the variant files math.h already pulled in for `lib` are re-read under the new names: drop their include guards */
#undef AWS_COMMON_MATH_FALLBACK_INL
#undef AWS_COMMON_MATH_GCC_OVERFLOW_INL
#undef AWS_COMMON_MATH_GCC_BUILTIN_INL
#undef AWS_COMMON_MATH_GCC_X64_ASM_INL

#define VH_VARIANT fb_
#include <aws/common/math.fallback.inl>
#undef VH_VARIANT

#define VH_VARIANT ov_
#include <aws/common/math.gcc_overflow.inl>
#undef VH_VARIANT

#define VH_VARIANT bi_
#include <aws/common/math.gcc_builtin.inl>
#undef VH_VARIANT

#if defined(__x86_64__)
#    define VH_HAVE_ASM 1
#    define VH_VARIANT asm_
#    include <aws/common/math.gcc_x64_asm.inl>
#    undef VH_VARIANT
#else
#    define VH_HAVE_ASM 0
#endif

#undef aws_mul_u64_saturating
#undef aws_mul_u64_checked
#undef aws_mul_u32_saturating
#undef aws_mul_u32_checked
#undef aws_add_u64_saturating
#undef aws_add_u64_checked
#undef aws_add_u32_saturating
#undef aws_add_u32_checked
#undef aws_clz_u32
#undef aws_clz_i32
#undef aws_clz_u64
#undef aws_clz_i64
#undef aws_clz_size
#undef aws_ctz_u32
#undef aws_ctz_i32
#undef aws_ctz_u64
#undef aws_ctz_i64
#undef aws_ctz_size

static long long n_evals;
#define SENT64 0x5A5A5A5A5A5A5A5AULL
#define SENT32 0x5A5A5A5AU

static void res_begin(const char *v) {
    vh_obj_begin(NULL);
    vh_str("v", v);
}
/* checked result (ok, *r) + saturating result of one variant, the latter evaluated in four usage contexts (the inline
 * variants are expanded at each call site, with whatever registers that site leaves free): s = call argument, s2 =
 * third argument of an opaque function, s3 = stored straight into a structure, sc = operands swapped, same structure */
static void res_arith(const char *v, int rc, uint64_t r, uint64_t s, uint64_t s2, uint64_t s3, uint64_t sc) {
    res_begin(v);
    vh_int("ok", rc == AWS_OP_SUCCESS ? 1 : 0);
    vh_wide("r", r);
    vh_wide("s", s);
    vh_wide("s2", s2);
    vh_wide("s3", s3);
    vh_wide("sc", sc);
    vh_obj_end();
}
struct ctx32 {
    uint32_t pad, x, y;
};
struct ctx64 {
    uint64_t pad, x, y;
};
static __attribute__((noinline)) uint64_t sink32(uint64_t p, uint64_t q, uint32_t val) {
    __asm__ volatile("" : : "r"(p), "r"(q) : "memory");
    return val;
}
static __attribute__((noinline)) uint64_t sink64(uint64_t p, uint64_t q, uint64_t val) {
    __asm__ volatile("" : : "r"(p), "r"(q) : "memory");
    return val;
}
static void res_bits(const char *v, size_t clz, size_t ctz) {
    res_begin(v);
    vh_int("clz", (long long)clz);
    vh_int("ctz", (long long)ctz);
    vh_obj_end();
}

#define ARITH64(P, OP, v)                                                                                              \
    do {                                                                                                               \
        uint64_t r = SENT64;                                                                                           \
        int rc = P##aws_##OP##_u64_checked(a, b, &r);                                                                  \
        volatile struct ctx64 c_;                                                                                      \
        c_.x = P##aws_##OP##_u64_saturating(a, b);                                                                     \
        c_.y = P##aws_##OP##_u64_saturating(b, a);                                                                     \
        uint64_t s2_ = sink64(b, a, P##aws_##OP##_u64_saturating(a, b));                                               \
        res_arith(v, rc, r, P##aws_##OP##_u64_saturating(a, b), s2_, c_.x, c_.y);                                      \
    } while (0)
#define ARITH32(P, OP, v)                                                                                              \
    do {                                                                                                               \
        uint32_t r = SENT32;                                                                                           \
        int rc = P##aws_##OP##_u32_checked((uint32_t)a, (uint32_t)b, &r);                                              \
        volatile struct ctx32 c_;                                                                                      \
        c_.x = P##aws_##OP##_u32_saturating((uint32_t)a, (uint32_t)b);                                                 \
        c_.y = P##aws_##OP##_u32_saturating((uint32_t)b, (uint32_t)a);                                                 \
        uint64_t s2_ = sink32(b, a, P##aws_##OP##_u32_saturating((uint32_t)a, (uint32_t)b));                           \
        res_arith(v, rc, r, P##aws_##OP##_u32_saturating((uint32_t)a, (uint32_t)b), s2_, c_.x, c_.y);                  \
    } while (0)
#define ARITHSZ(OP, v)                                                                                                 \
    do {                                                                                                               \
        size_t r = (size_t)SENT64;                                                                                     \
        int rc = aws_##OP##_size_checked((size_t)a, (size_t)b, &r);                                                    \
        volatile struct ctx64 c_;                                                                                      \
        c_.x = aws_##OP##_size_saturating((size_t)a, (size_t)b);                                                       \
        c_.y = aws_##OP##_size_saturating((size_t)b, (size_t)a);                                                       \
        uint64_t s2_ = sink64(b, a, aws_##OP##_size_saturating((size_t)a, (size_t)b));                                 \
        res_arith(v, rc, r, aws_##OP##_size_saturating((size_t)a, (size_t)b), s2_, c_.x, c_.y);                        \
    } while (0)


/* 32-bit operands reach the helpers the way they do in callers that narrow a 64-bit quantity: in a register whose upper
 * half still holds whatever the wider value had there (the C value is the low half only; an inline-assembly variant that
 * looks at the whole register sees the rest) */
static volatile uint64_t vh_dirty_hi = 0xDEADBEEF00000000ull;
static void do_arith(const char *op, const char *ty, uint64_t a, uint64_t b) {
    if (!strcmp(ty, "u32")) {
        a = (a & 0xFFFFFFFFull) | vh_dirty_hi;
        b = (b & 0xFFFFFFFFull) | (vh_dirty_hi >> 1 << 1);
    }
    vh_begin("Arith");
    vh_str("op", op);
    vh_str("ty", ty);
    vh_wide("a", !strcmp(ty, "u32") ? (a & 0xFFFFFFFFull) : a);
    vh_wide("b", !strcmp(ty, "u32") ? (b & 0xFFFFFFFFull) : b);
    vh_arr_begin("res");
    int is_add = !strcmp(op, "add"), is_mul = !strcmp(op, "mul");
    if (!strcmp(ty, "u64")) {
        if (is_add) {
            ARITH64(, add, "lib");
            ARITH64(fb_, add, "fb");
            ARITH64(ov_, add, "ov");
#if VH_HAVE_ASM
            ARITH64(asm_, add, "asm");
#endif
            n_evals += 2 * (3 + VH_HAVE_ASM);
        } else if (is_mul) {
            ARITH64(, mul, "lib");
            ARITH64(fb_, mul, "fb");
            ARITH64(ov_, mul, "ov");
#if VH_HAVE_ASM
            ARITH64(asm_, mul, "asm");
#endif
            n_evals += 2 * (3 + VH_HAVE_ASM);
        } else {
            ARITH64(, sub, "lib");
            n_evals += 2;
        }
    } else if (!strcmp(ty, "u32")) {
        if (is_add) {
            ARITH32(, add, "lib");
            ARITH32(fb_, add, "fb");
            ARITH32(ov_, add, "ov");
#if VH_HAVE_ASM
            ARITH32(asm_, add, "asm");
#endif
            n_evals += 2 * (3 + VH_HAVE_ASM);
        } else if (is_mul) {
            ARITH32(, mul, "lib");
            ARITH32(fb_, mul, "fb");
            ARITH32(ov_, mul, "ov");
#if VH_HAVE_ASM
            ARITH32(asm_, mul, "asm");
#endif
            n_evals += 2 * (3 + VH_HAVE_ASM);
        } else {
            ARITH32(, sub, "lib");
            n_evals += 2;
        }
    } else { /* size */
        if (is_add) {
            ARITHSZ(add, "lib");
        } else if (is_mul) {
            ARITHSZ(mul, "lib");
        } else {
            ARITHSZ(sub, "lib");
        }
        n_evals += 2;
    }
    vh_arr_end();
    vh_end();
}


/* ---- a compile-time constant as one operand.  The inline variants are expanded at each call site; with a constant operand
 * the compiler is free to keep it wherever it likes (an immediate, a register shared with another operand of an inline-
 * assembly statement).  One tiny out-of-line function per (variant, operation, width, constant, side): the constant is dead
 * after the call, which is the situation in which register sharing happens.  The events are ordinary Arith events (a, b =
 * the constant and the run-time operand), their saturating results computed by these functions. */
#define K_LIST(X) X(0, 0) X(1, 1) X(2, 2) X(3, 0xFFFFFFFFull) X(4, 0x100000000ull) X(5, 0x8000000000000000ull) X(6, 0xFFFFFFFFFFFFFFFEull) X(7, 0xFFFFFFFFFFFFFFFFull)
#define NK 8
#define KF1(P, OP, T, TY, KN, KV)                                                                                      \
    static __attribute__((noinline)) uint64_t P##k_##OP##_##T##_l##KN(TY n) {                                          \
        return P##aws_##OP##_##T##_saturating((TY)(KV), n);                                                            \
    }                                                                                                                  \
    static __attribute__((noinline)) uint64_t P##k_##OP##_##T##_r##KN(TY n) {                                          \
        return P##aws_##OP##_##T##_saturating(n, (TY)(KV));                                                            \
    }
#define KF_ALLK(P, OP, T, TY)                                                                                          \
    KF1(P, OP, T, TY, 0, 0)                                                                                            \
    KF1(P, OP, T, TY, 1, 1)                                                                                            \
    KF1(P, OP, T, TY, 2, 2)                                                                                            \
    KF1(P, OP, T, TY, 3, 0xFFFFFFFFull)                                                                                \
    KF1(P, OP, T, TY, 4, 0x100000000ull)                                                                               \
    KF1(P, OP, T, TY, 5, 0x8000000000000000ull)                                                                        \
    KF1(P, OP, T, TY, 6, 0xFFFFFFFFFFFFFFFEull)                                                                        \
    KF1(P, OP, T, TY, 7, 0xFFFFFFFFFFFFFFFFull)                                                                        \
    static uint64_t (*const P##ktab_##OP##_##T##_l[NK])(TY) = {P##k_##OP##_##T##_l0, P##k_##OP##_##T##_l1, P##k_##OP##_##T##_l2, \
        P##k_##OP##_##T##_l3, P##k_##OP##_##T##_l4, P##k_##OP##_##T##_l5, P##k_##OP##_##T##_l6, P##k_##OP##_##T##_l7};             \
    static uint64_t (*const P##ktab_##OP##_##T##_r[NK])(TY) = {P##k_##OP##_##T##_r0, P##k_##OP##_##T##_r1, P##k_##OP##_##T##_r2, \
        P##k_##OP##_##T##_r3, P##k_##OP##_##T##_r4, P##k_##OP##_##T##_r5, P##k_##OP##_##T##_r6, P##k_##OP##_##T##_r7};
#define KF_VARIANT(P)                                                                                                  \
    KF_ALLK(P, add, u64, uint64_t)                                                                                     \
    KF_ALLK(P, mul, u64, uint64_t)                                                                                     \
    KF_ALLK(P, add, u32, uint32_t)                                                                                     \
    KF_ALLK(P, mul, u32, uint32_t)
KF_VARIANT()
KF_VARIANT(fb_)
KF_VARIANT(ov_)
#if VH_HAVE_ASM
KF_VARIANT(asm_)
#endif
KF_ALLK(, sub, u64, uint64_t)
KF_ALLK(, sub, u32, uint32_t)
static const uint64_t kvals[NK] = {0, 1, 2, 0xFFFFFFFFull, 0x100000000ull, 0x8000000000000000ull, 0xFFFFFFFFFFFFFFFEull, 0xFFFFFFFFFFFFFFFFull};

#define KRES(P, OP, T, TY, v)                                                                                          \
    do {                                                                                                               \
        TY r = (TY)SENT64;                                                                                             \
        int rc = P##aws_##OP##_##T##_checked((TY)a, (TY)n, &r);                                                        \
        uint64_t sl = P##ktab_##OP##_##T##_l[ki]((TY)n), sr = P##ktab_##OP##_##T##_r[ki]((TY)n);                       \
        volatile struct ctx64 c_;                                                                                      \
        c_.x = P##ktab_##OP##_##T##_l[ki]((TY)n);                                                                      \
        res_arith(v, rc, r, sl, sink64(n, a, sl), c_.x, sr);                                                           \
    } while (0)

/* a = the constant kvals[ki] (truncated to the width), b = n */
static void do_arith_k(const char *op, const char *ty, int ki, uint64_t n) {
    bool w64 = !strcmp(ty, "u64");
    uint64_t a = w64 ? kvals[ki] : (uint32_t)kvals[ki];
    vh_begin("Arith");
    vh_str("op", op);
    vh_str("ty", ty);
    vh_wide("a", a);
    vh_wide("b", w64 ? n : (uint32_t)n);
    vh_arr_begin("res");
    if (w64) {
        if (!strcmp(op, "add")) {
            KRES(, add, u64, uint64_t, "lib");
            KRES(fb_, add, u64, uint64_t, "fb");
            KRES(ov_, add, u64, uint64_t, "ov");
#if VH_HAVE_ASM
            KRES(asm_, add, u64, uint64_t, "asm");
#endif
        } else if (!strcmp(op, "mul")) {
            KRES(, mul, u64, uint64_t, "lib");
            KRES(fb_, mul, u64, uint64_t, "fb");
            KRES(ov_, mul, u64, uint64_t, "ov");
#if VH_HAVE_ASM
            KRES(asm_, mul, u64, uint64_t, "asm");
#endif
        } else {
            KRES(, sub, u64, uint64_t, "lib");
        }
    } else {
        if (!strcmp(op, "add")) {
            KRES(, add, u32, uint32_t, "lib");
            KRES(fb_, add, u32, uint32_t, "fb");
            KRES(ov_, add, u32, uint32_t, "ov");
#if VH_HAVE_ASM
            KRES(asm_, add, u32, uint32_t, "asm");
#endif
        } else if (!strcmp(op, "mul")) {
            KRES(, mul, u32, uint32_t, "lib");
            KRES(fb_, mul, u32, uint32_t, "fb");
            KRES(ov_, mul, u32, uint32_t, "ov");
#if VH_HAVE_ASM
            KRES(asm_, mul, u32, uint32_t, "asm");
#endif
        } else {
            KRES(, sub, u32, uint32_t, "lib");
        }
    }
    n_evals += 8;
    vh_arr_end();
    vh_end();
}

static void do_bits(const char *ty, uint64_t a) {
    vh_begin("Bits");
    vh_str("ty", ty);
    vh_wide("a", a);
    vh_arr_begin("res");
    if (!strcmp(ty, "u32")) {
        res_bits("lib", aws_clz_u32((uint32_t)a), aws_ctz_u32((uint32_t)a));
        res_bits("fb", fb_aws_clz_u32((uint32_t)a), fb_aws_ctz_u32((uint32_t)a));
        res_bits("bi", bi_aws_clz_u32((uint32_t)a), bi_aws_ctz_u32((uint32_t)a));
    } else if (!strcmp(ty, "i32")) {
        res_bits("lib", aws_clz_i32((int32_t)(uint32_t)a), aws_ctz_i32((int32_t)(uint32_t)a));
        res_bits("fb", fb_aws_clz_i32((int32_t)(uint32_t)a), fb_aws_ctz_i32((int32_t)(uint32_t)a));
        res_bits("bi", bi_aws_clz_i32((int32_t)(uint32_t)a), bi_aws_ctz_i32((int32_t)(uint32_t)a));
    } else if (!strcmp(ty, "u64")) {
        res_bits("lib", aws_clz_u64(a), aws_ctz_u64(a));
        res_bits("fb", fb_aws_clz_u64(a), fb_aws_ctz_u64(a));
        res_bits("bi", bi_aws_clz_u64(a), bi_aws_ctz_u64(a));
    } else if (!strcmp(ty, "i64")) {
        res_bits("lib", aws_clz_i64((int64_t)a), aws_ctz_i64((int64_t)a));
        res_bits("fb", fb_aws_clz_i64((int64_t)a), fb_aws_ctz_i64((int64_t)a));
        res_bits("bi", bi_aws_clz_i64((int64_t)a), bi_aws_ctz_i64((int64_t)a));
    } else {
        res_bits("lib", aws_clz_size((size_t)a), aws_ctz_size((size_t)a));
        res_bits("fb", fb_aws_clz_size((size_t)a), fb_aws_ctz_size((size_t)a));
        res_bits("bi", bi_aws_clz_size((size_t)a), bi_aws_ctz_size((size_t)a));
    }
    n_evals += 6;
    vh_arr_end();
    vh_end();
}

static void do_pow2(uint64_t a) {
    size_t r = (size_t)SENT64;
    int rc = aws_round_up_to_power_of_two((size_t)a, &r);
    vh_begin("Pow2");
    vh_wide("a", a);
    vh_int("is", aws_is_power_of_two((size_t)a) ? 1 : 0);
    vh_int("ok", rc == AWS_OP_SUCCESS ? 1 : 0);
    vh_wide("r", r);
    vh_end();
    n_evals += 2;
}

/* order-preserving projection of a signed value: x + 2^63 */
static uint64_t bias(int64_t x) {
    return (uint64_t)x ^ (1ULL << 63);
}
static void do_minmax(const char *ty, uint64_t a, uint64_t b) {
    uint64_t pa, pb, mn, mx;
#define MM_U(T, SUF)                                                                                                   \
    do {                                                                                                               \
        T x = (T)a, y = (T)b;                                                                                          \
        pa = x;                                                                                                        \
        pb = y;                                                                                                        \
        mn = aws_min_##SUF(x, y);                                                                                      \
        mx = aws_max_##SUF(x, y);                                                                                      \
    } while (0)
#define MM_S(T, SUF)                                                                                                   \
    do {                                                                                                               \
        T x = (T)a, y = (T)b;                                                                                          \
        pa = bias(x);                                                                                                  \
        pb = bias(y);                                                                                                  \
        mn = bias(aws_min_##SUF(x, y));                                                                                \
        mx = bias(aws_max_##SUF(x, y));                                                                                \
    } while (0)
    if (!strcmp(ty, "u8")) {
        MM_U(uint8_t, u8);
    } else if (!strcmp(ty, "i8")) {
        MM_S(int8_t, i8);
    } else if (!strcmp(ty, "u16")) {
        MM_U(uint16_t, u16);
    } else if (!strcmp(ty, "i16")) {
        MM_S(int16_t, i16);
    } else if (!strcmp(ty, "u32")) {
        MM_U(uint32_t, u32);
    } else if (!strcmp(ty, "i32")) {
        MM_S(int32_t, i32);
    } else if (!strcmp(ty, "u64")) {
        MM_U(uint64_t, u64);
    } else if (!strcmp(ty, "i64")) {
        MM_S(int64_t, i64);
    } else if (!strcmp(ty, "int")) {
        MM_S(int, int);
    } else {
        MM_U(size_t, size);
    }
    vh_begin("MinMax");
    vh_str("ty", ty);
    vh_wide("a", pa);
    vh_wide("b", pb);
    vh_wide("min", mn);
    vh_wide("max", mx);
    vh_end();
    n_evals += 2;
}

/* ---- the checked helpers expanded inside a loop (ARL op ty a1 b1 a2 b2 ...): with several additions in flight the optimiser
 * may move or merge what belongs to one of them (a flag read in an inline-assembly statement of its own, say).  One
 * out-of-line function per variant / operation / width runs the whole array; the event lists every pair with what the loop
 * reported for it. */
#define NLOOP 8
#define LOOPF(P, OP, T, TY)                                                                                            \
    static __attribute__((noinline)) void P##loop_##OP##_##T(const TY *a, const TY *b, TY *r, int *ok, int n) {          \
        for (int i = 0; i < n; ++i) {                                                                                  \
            ok[i] = P##aws_##OP##_##T##_checked(a[i], b[i], &r[i]) == AWS_OP_SUCCESS;                                    \
        }                                                                                                              \
    }
#define LOOP_VARIANT(P) LOOPF(P, add, u64, uint64_t) LOOPF(P, mul, u64, uint64_t) LOOPF(P, add, u32, uint32_t) LOOPF(P, mul, u32, uint32_t)
LOOP_VARIANT()
LOOP_VARIANT(fb_)
LOOP_VARIANT(ov_)
#if VH_HAVE_ASM
LOOP_VARIANT(asm_)
#endif
static void loop_event(const char *op, const char *ty, const char *v, const uint64_t *a, const uint64_t *b, const uint64_t *r,
                       const int *ok, int n) {
    long long okl[NLOOP];
    vh_begin("ArithLoop");
    vh_str("op", op);
    vh_str("ty", ty);
    vh_str("v", v);
    vh_arr_begin("pairs");
    for (int i = 0; i < n; ++i) {
        vh_obj_begin(NULL);
        vh_wide("a", a[i]);
        vh_wide("b", b[i]);
        vh_wide("r", ok[i] ? r[i] : 0);
        vh_obj_end();
        okl[i] = ok[i];
    }
    vh_arr_end();
    vh_ints("ok", okl, (size_t)n);
    vh_end();
    n_evals += n;
}
#define LOOPRUN64(P, OP, v)                                                                                            \
    do {                                                                                                               \
        uint64_t r_[NLOOP];                                                                                            \
        int ok_[NLOOP];                                                                                                \
        P##loop_##OP##_u64(a, b, r_, ok_, n);                                                                           \
        loop_event(#OP, "u64", v, a, b, r_, ok_, n);                                                                    \
    } while (0)
#define LOOPRUN32(P, OP, v)                                                                                            \
    do {                                                                                                               \
        uint32_t a32[NLOOP], b32[NLOOP], r32[NLOOP];                                                                   \
        uint64_t r_[NLOOP];                                                                                            \
        int ok_[NLOOP];                                                                                                \
        for (int i = 0; i < n; ++i) {                                                                                  \
            a32[i] = (uint32_t)a[i];                                                                                   \
            b32[i] = (uint32_t)b[i];                                                                                   \
        }                                                                                                              \
        P##loop_##OP##_u32(a32, b32, r32, ok_, n);                                                                      \
        for (int i = 0; i < n; ++i) {                                                                                  \
            r_[i] = r32[i];                                                                                            \
        }                                                                                                              \
        loop_event(#OP, "u32", v, a, b, r_, ok_, n);                                                                    \
    } while (0)
static void do_arith_loop(const char *op, const char *ty, const uint64_t *a, const uint64_t *b, int n) {
    int is_add = !strcmp(op, "add");
    if (!strcmp(ty, "u64")) {
        if (is_add) {
            LOOPRUN64(, add, "lib");
            LOOPRUN64(fb_, add, "fb");
            LOOPRUN64(ov_, add, "ov");
#if VH_HAVE_ASM
            LOOPRUN64(asm_, add, "asm");
#endif
        } else {
            LOOPRUN64(, mul, "lib");
            LOOPRUN64(fb_, mul, "fb");
            LOOPRUN64(ov_, mul, "ov");
#if VH_HAVE_ASM
            LOOPRUN64(asm_, mul, "asm");
#endif
        }
    } else {
        if (is_add) {
            LOOPRUN32(, add, "lib");
            LOOPRUN32(fb_, add, "fb");
            LOOPRUN32(ov_, add, "ov");
#if VH_HAVE_ASM
            LOOPRUN32(asm_, add, "asm");
#endif
        } else {
            LOOPRUN32(, mul, "lib");
            LOOPRUN32(fb_, mul, "fb");
            LOOPRUN32(ov_, mul, "ov");
#if VH_HAVE_ASM
            LOOPRUN32(asm_, mul, "asm");
#endif
        }
    }
}

static void do_conv(const char *fn, uint64_t t, uint64_t fo, uint64_t fnw) {
    uint64_t rem = SENT64, q, q0;
    if (!strcmp(fn, "unit")) {
        q = aws_timestamp_convert(t, (enum aws_timestamp_unit)fo, (enum aws_timestamp_unit)fnw, &rem);
        q0 = aws_timestamp_convert(t, (enum aws_timestamp_unit)fo, (enum aws_timestamp_unit)fnw, NULL);
    } else {
        q = aws_timestamp_convert_u64(t, fo, fnw, &rem);
        q0 = aws_timestamp_convert_u64(t, fo, fnw, NULL);
    }
    vh_begin("Conv");
    vh_str("fn", fn);
    vh_wide("t", t);
    vh_wide("fo", fo);
    vh_wide("fnew", fnw);
    vh_wide("q", q);
    vh_wide("q0", q0); /* same call without a remainder pointer */
    vh_wide("rem", rem);
    vh_wide("pre", SENT64);
    vh_end();
    n_evals += 2;
}

int main(int argc, char **argv) {
    if (argc < 3) {
        return 3;
    }
    FILE *in = fopen(argv[1], "r");
    vh_open(argv[2]);
    vh_install_handlers(120);
    while (vh_next(in)) {
        if (vh_is("RESET")) {
            vh_begin("Reset");
            vh_int("sizebits", (long long)SIZE_BITS);
            vh_int("asm", VH_HAVE_ASM);
            vh_end();
        } else if (vh_is("AR")) {
            do_arith(vh_args(1), vh_args(2), vh_argu(3), vh_argu(4));
        } else if (vh_is("ARL")) { /* ARL op ty a1 b1 a2 b2 ... (2..8 pairs) */
            uint64_t la[NLOOP], lb[NLOOP];
            int n = 0;
            for (int i = 3; i + 1 < vh_ntok && n < NLOOP; i += 2) {
                la[n] = vh_argu(i);
                lb[n] = vh_argu(i + 1);
                if (!strcmp(vh_args(2), "u32")) {
                    la[n] &= 0xFFFFFFFFull;
                    lb[n] &= 0xFFFFFFFFull;
                }
                n++;
            }
            do_arith_loop(vh_args(1), vh_args(2), la, lb, n);
        } else if (vh_is("ARK")) {
            do_arith_k(vh_args(1), vh_args(2), (int)(vh_argu(3) % NK), vh_argu(4));
        } else if (vh_is("BITS")) {
            do_bits(vh_args(1), vh_argu(2));
        } else if (vh_is("P2")) {
            do_pow2(vh_argu(1));
        } else if (vh_is("MM")) {
            do_minmax(vh_args(1), vh_argu(2), vh_argu(3));
        } else if (vh_is("CV")) {
            do_conv(vh_args(1), vh_argu(2), vh_argu(3), vh_argu(4));
        }
    }
    vh_begin("End");
    vh_int("live", (long long)vh_live_blocks);
    vh_int("evals", n_evals);
    vh_end();
    fclose(vh_out);
    return 0;
}
