/* X06 scenario: aws_mutex / aws_condition_variable / clocks under the controlled scheduler (virtual clock).
 * One mutex, two condition variables, three predicate flags (written only under the mutex), one protected counter.
 * Scenario lines:
 *   INIT static|dyn               how the mutex and the condition variables come to life (AWS_*_INIT or *_init())
 *   THREAD <k> <op> ...           program of thread k (1..6), run by an aws_thread
 *   MAIN <op> ...                 program of the scenario's main thread (k = 0); runs after every thread was launched,
 *                                 then the remaining threads are joined and everything is cleaned up
 * ops (the harness applies them blindly; the script is responsible for the documented preconditions):
 *   L  U          aws_mutex_lock / aws_mutex_unlock
 *   T             aws_mutex_try_lock; when it succeeded: I, then unlock
 *   I             critical section body: read the counter (Enter), schedule point, write counter + 1 (Leave)
 *   S<p>  R<p>    flag p := 1 / := 0
 *   N1[/c] NA[/c] aws_condition_variable_notify_one / notify_all on condition variable c (default 1)
 *   W<p>[/c]      aws_condition_variable_wait_pred on "flag p is set", then a protected read of the flag
 *   F<p>:<ns>[/c] aws_condition_variable_wait_for_pred with time_to_wait = ns
 *   G:<ns>[/c]    aws_condition_variable_wait_for (no predicate)
 *   Z:<ns>        aws_thread_current_sleep
 *   K             read both clocks
 *   P             explicit schedule point
 *   J<k>          (MAIN only) aws_thread_join thread k now
 * Times are logged as base-2^15 limbs (vh_wide). The predicate callback only reads the flag. */
#include "vh_core.h"

#include "vsched/vsched_impl.h"

#include <aws/common/clock.h>
#include <aws/common/condition_variable.h>
#include <aws/common/mutex.h>
#include <aws/common/thread.h>

#define MAXTH 7
#define MAXOPS 64
#define NFLAG 3
#define NCV 2

static struct aws_mutex mtx_static = AWS_MUTEX_INIT;
static struct aws_condition_variable cv_static[NCV + 1] = {
    AWS_CONDITION_VARIABLE_INIT, AWS_CONDITION_VARIABLE_INIT, AWS_CONDITION_VARIABLE_INIT};
static struct aws_mutex mtx_dyn;
static struct aws_condition_variable cv_dyn[NCV + 1];
static struct aws_mutex *mtx;
static struct aws_condition_variable *cv;

static int flags[NFLAG + 1];
static long counter;

struct tdef {
    int id;
    bool defined, joined;
    int nops;
    char ops[MAXOPS][40];
    struct aws_thread thread;
};
static struct tdef T[MAXTH];

static bool pred_fn(void *ctx) {
    return *(int *)ctx != 0;
}

static uint64_t hr_now(void) {
    uint64_t t = 0;
    aws_high_res_clock_get_ticks(&t);
    return t;
}

/* "<digits>[/c]" after position s: the condition variable index */
static int cv_of(const char *s) {
    const char *slash = strchr(s, '/');
    int c = slash ? atoi(slash + 1) : 1;
    return (c >= 1 && c <= NCV) ? c : 1;
}
static int flag_of(const char *s) {
    int p = atoi(s);
    return (p >= 1 && p <= NFLAG) ? p : 1;
}
static uint64_t dur_of(const char *s) {
    const char *colon = strchr(s, ':');
    return colon ? strtoull(colon + 1, NULL, 10) : 0;
}

static void body(int k) {
    long v = counter;
    vh_begin("Enter");
    vh_int("k", k);
    vh_int("v", v);
    vh_end();
    vs_point();
    counter = v + 1;
    vh_begin("Leave");
    vh_int("k", k);
    vh_int("v", v + 1);
    vh_end();
}

static void unlock(int k) {
    int rc = aws_mutex_unlock(mtx);
    vh_begin("Unlock");
    vh_int("k", k);
    vh_rc(rc);
    vh_end();
}

static void wait_ret(int k, int rc, int p) {
    uint64_t t1 = hr_now();
    vh_begin("WaitRet");
    vh_int("k", k);
    vh_rc(rc);
    vh_int("fl", p ? flags[p] : 0);
    vh_wide("t", t1);
    vh_end();
}
static void wait_begin(int k, const char *kind, int p, int c, uint64_t d) {
    vh_begin("WaitBegin");
    vh_int("k", k);
    vh_str("kind", kind);
    vh_int("p", p);
    vh_int("c", c);
    vh_wide("d", d);
    vh_wide("t", hr_now());
    vh_end();
}

static void run_ops(int k, struct tdef *d) {
    for (int i = 0; i < d->nops; ++i) {
        const char *op = d->ops[i];
        switch (op[0]) {
            case 'L': {
                int rc = aws_mutex_lock(mtx);
                vh_begin("LockRet");
                vh_int("k", k);
                vh_rc(rc);
                vh_end();
                break;
            }
            case 'U':
                unlock(k);
                break;
            case 'T': {
                int rc = aws_mutex_try_lock(mtx);
                vh_begin("TryRet");
                vh_int("k", k);
                vh_rc(rc);
                vh_end();
                if (rc == AWS_OP_SUCCESS) {
                    body(k);
                    unlock(k);
                }
                break;
            }
            case 'I':
                body(k);
                break;
            case 'S':
            case 'R': {
                int p = flag_of(op + 1);
                flags[p] = op[0] == 'S';
                vh_begin("SetFlag");
                vh_int("k", k);
                vh_int("p", p);
                vh_int("v", flags[p]);
                vh_end();
                break;
            }
            case 'N': {
                int c = cv_of(op);
                int all = op[1] == 'A';
                int rc = all ? aws_condition_variable_notify_all(&cv[c]) : aws_condition_variable_notify_one(&cv[c]);
                vh_begin("Notify");
                vh_int("k", k);
                vh_int("c", c);
                vh_int("all", all);
                vh_rc(rc);
                vh_end();
                break;
            }
            case 'W': {
                int p = flag_of(op + 1), c = cv_of(op);
                wait_begin(k, "wait_pred", p, c, 0);
                int rc = aws_condition_variable_wait_pred(&cv[c], mtx, pred_fn, &flags[p]);
                wait_ret(k, rc, p);
                break;
            }
            case 'F': {
                int p = flag_of(op + 1), c = cv_of(op);
                uint64_t ns = dur_of(op);
                wait_begin(k, "wait_for_pred", p, c, ns);
                int rc = aws_condition_variable_wait_for_pred(&cv[c], mtx, (int64_t)ns, pred_fn, &flags[p]);
                wait_ret(k, rc, p);
                break;
            }
            case 'G': {
                int c = cv_of(op);
                uint64_t ns = dur_of(op);
                wait_begin(k, "wait_for", 0, c, ns);
                int rc = aws_condition_variable_wait_for(&cv[c], mtx, (int64_t)ns);
                wait_ret(k, rc, 0);
                break;
            }
            case 'Z': {
                uint64_t ns = dur_of(op);
                vh_begin("SleepBegin");
                vh_int("k", k);
                vh_wide("d", ns);
                vh_wide("t", hr_now());
                vh_end();
                aws_thread_current_sleep(ns);
                vh_begin("SleepRet");
                vh_int("k", k);
                vh_wide("t", hr_now());
                vh_end();
                break;
            }
            case 'K': {
                uint64_t h = 0, s = 0;
                int rch = aws_high_res_clock_get_ticks(&h);
                int rcs = aws_sys_clock_get_ticks(&s);
                vh_begin("Clock");
                vh_int("k", k);
                vh_int("rch", rch);
                vh_int("rcs", rcs);
                vh_wide("hr", h);
                vh_wide("sys", s);
                vh_end();
                break;
            }
            case 'P':
                vs_point();
                break;
            case 'J': {
                int j = atoi(op + 1);
                if (k == 0 && j >= 1 && j < MAXTH && T[j].defined && !T[j].joined) {
                    int rc = aws_thread_join(&T[j].thread);
                    T[j].joined = true;
                    vh_begin("JoinRet");
                    vh_int("k", k);
                    vh_int("thr", j);
                    vh_rc(rc);
                    vh_end();
                    aws_thread_clean_up(&T[j].thread);
                }
                break;
            }
            default:
                break;
        }
    }
}

static void thread_fn(void *arg) {
    struct tdef *d = arg;
    vh_begin("ThreadBegin");
    vh_int("k", d->id);
    vh_end();
    run_ops(d->id, d);
    vh_begin("ThreadEnd");
    vh_int("k", d->id);
    vh_end();
}

static void scenario(char **lines, int nlines) {
    memset(T, 0, sizeof(T));
    bool dyn = false;
    for (int i = 0; i < nlines; ++i) {
        char *dup = strdup(lines[i]);
        char *save = NULL;
        char *tok = strtok_r(dup, " ", &save);
        struct tdef *d = NULL;
        if (tok && strcmp(tok, "THREAD") == 0) {
            int id = atoi(strtok_r(NULL, " ", &save));
            if (id >= 1 && id < MAXTH) {
                d = &T[id];
                d->id = id;
                d->defined = true;
            }
        } else if (tok && strcmp(tok, "MAIN") == 0) {
            d = &T[0];
        } else if (tok && strcmp(tok, "INIT") == 0) {
            const char *m = strtok_r(NULL, " ", &save);
            dyn = m && strcmp(m, "dyn") == 0;
        }
        if (d) {
            for (char *o = strtok_r(NULL, " ", &save); o && d->nops < MAXOPS; o = strtok_r(NULL, " ", &save)) {
                strncpy(d->ops[d->nops++], o, sizeof(d->ops[0]) - 1);
            }
        }
        free(dup);
    }
    int rcm = 0, rcc = 0;
    if (dyn) {
        mtx = &mtx_dyn;
        cv = cv_dyn;
        rcm = aws_mutex_init(mtx);
        for (int c = 1; c <= NCV; ++c) {
            rcc |= aws_condition_variable_init(&cv[c]);
        }
    } else {
        mtx = &mtx_static;
        cv = cv_static;
    }
    vh_begin("Setup");
    vh_str("mode", dyn ? "dyn" : "static");
    vh_int("rcm", rcm);
    vh_int("rcc", rcc);
    vh_end();
    for (int j = 1; j < MAXTH; ++j) {
        if (T[j].defined) {
            aws_thread_init(&T[j].thread, vh_alloc());
            int rc = aws_thread_launch(&T[j].thread, thread_fn, &T[j], aws_default_thread_options());
            vh_begin("Launch");
            vh_int("thr", j);
            vh_rc(rc);
            vh_end();
        }
    }
    run_ops(0, &T[0]);
    for (int j = 1; j < MAXTH; ++j) {
        if (T[j].defined && !T[j].joined) {
            int rc = aws_thread_join(&T[j].thread);
            T[j].joined = true;
            vh_begin("JoinRet");
            vh_int("k", 0);
            vh_int("thr", j);
            vh_rc(rc);
            vh_end();
            aws_thread_clean_up(&T[j].thread);
        }
    }
    aws_mutex_clean_up(mtx);
    for (int c = 1; c <= NCV; ++c) {
        aws_condition_variable_clean_up(&cv[c]);
    }
    vh_begin("CleanUp");
    vh_end();
}

int main(int argc, char **argv) {
    return vs_main(argc, argv, scenario);
}
