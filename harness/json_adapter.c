/* C11 adapter: aws_json_value API driven by a script; one ndjson event per public call with the arguments and everything
 * the call reported. No expected values here.
 *
 * A value read from the library is logged as a projection made only with public typed getters:
 *   {"t":"null","x":[]}  {"t":"bool","x":[0|1]}  {"t":"str","x":[bytes]}  {"t":"arr","x":[node,...]}
 *   {"t":"obj","x":[[[key bytes],node],...]}     (members in aws_json_const_iterate_object order)
 *   {"t":"num","x":[[ASCII of "%.15g"],[ASCII of "%.17g"],few,c15]}   with y = strtod("%.15g" text):
 *        few = 1 iff y == the double,  c15 = 1 iff y is within one part in 2^52 of the double
 * (the number renderings are a trusted projection done with libc printf/strtod). {"t":"none","x":[]} = no value.
 * RoundTrip's `close` flags are plain C arithmetic on the numbers of two trees taken in document order.
 * "within one part in 2^52": |x' - x| <= max(|x|, |x'|) * 2^-52, both finite (DESIGN C11: numeric accuracy is outside
 * what the specification can express; taking the larger magnitude differs from |x| by a factor below 1 + 2^-52).
 *
 * The library is initialised with the tracking allocator, so every cJSON node and string is an exact-size heap block
 * (ASan sees a one-byte overrun) and the End event reports blocks still live beyond the library's own start-up ones. */
#include "vh_core.h"

#include <aws/common/byte_buf.h>
#include <aws/common/json.h>

#include <float.h>
#include <math.h>

#define NSLOT 8
static struct aws_json_value *slot[NSLOT];
static uint8_t *last_text;
static size_t last_text_len;

static int hexval(int c) {
    return c <= '9' ? c - '0' : (c | 0x20) - 'a' + 10;
}
/* script token (hex, "-" = empty) -> exact-size heap copy */
static uint8_t *unhex(const char *tok, size_t *n) {
    *n = strcmp(tok, "-") == 0 ? 0 : strlen(tok) / 2;
    uint8_t *p = malloc(*n ? *n : 1);
    for (size_t i = 0; i < *n; ++i) {
        p[i] = (uint8_t)(hexval(tok[2 * i]) * 16 + hexval(tok[2 * i + 1]));
    }
    return p;
}
static int slot_id(int i) {
    long long s = vh_argi(i);
    if (s < 0 || s >= NSLOT) {
        fprintf(stderr, "script: slot %lld\n", s);
        exit(3);
    }
    return (int)s;
}

/* ---- projection */
static void emit_bytes(const uint8_t *p, size_t n) {
    fputc('[', vh_out);
    for (size_t i = 0; i < n; ++i) {
        fprintf(vh_out, i ? ",%u" : "%u", (unsigned)p[i]);
    }
    fputc(']', vh_out);
}
static int within_2_52(double x, double y) {
    if (!isfinite(x) || !isfinite(y)) {
        return 0;
    }
    double m = fabs(x) > fabs(y) ? fabs(x) : fabs(y);
    return fabs(y - x) <= m * DBL_EPSILON;
}
static void emit_node(const struct aws_json_value *v);
struct member_ctx {
    int count;
};
static int on_member(const struct aws_byte_cursor *key, const struct aws_json_value *value, bool *cont, void *ud) {
    struct member_ctx *c = ud;
    (void)cont;
    if (c->count++) {
        fputc(',', vh_out);
    }
    fputc('[', vh_out);
    emit_bytes(key->ptr, key->len);
    fputc(',', vh_out);
    emit_node(value);
    fputc(']', vh_out);
    return AWS_OP_SUCCESS;
}
static void emit_node(const struct aws_json_value *v) {
    if (v == NULL) {
        fputs("{\"t\":\"none\",\"x\":[]}", vh_out);
    } else if (aws_json_value_is_object(v)) {
        fputs("{\"t\":\"obj\",\"x\":[", vh_out);
        struct member_ctx c = {0};
        aws_json_const_iterate_object(v, on_member, &c);
        fputs("]}", vh_out);
    } else if (aws_json_value_is_array(v)) {
        fputs("{\"t\":\"arr\",\"x\":[", vh_out);
        size_t n = aws_json_get_array_size(v);
        for (size_t i = 0; i < n; ++i) {
            if (i) {
                fputc(',', vh_out);
            }
            emit_node(aws_json_get_array_element(v, i));
        }
        fputs("]}", vh_out);
    } else if (aws_json_value_is_string(v)) {
        struct aws_byte_cursor c = {0};
        aws_json_value_get_string(v, &c);
        fputs("{\"t\":\"str\",\"x\":", vh_out);
        emit_bytes(c.ptr, c.len);
        fputc('}', vh_out);
    } else if (aws_json_value_is_number(v)) {
        double d = 0;
        aws_json_value_get_number(v, &d);
        char p15[64], p17[64];
        vh_snprintf_c(p15, sizeof(p15), "%.15g", d);
        vh_snprintf_c(p17, sizeof(p17), "%.17g", d);
        double y = vh_strtod_c(p15);
        int few = y == d;
        fputs("{\"t\":\"num\",\"x\":[", vh_out);
        emit_bytes((const uint8_t *)p15, strlen(p15));
        fputc(',', vh_out);
        emit_bytes((const uint8_t *)p17, strlen(p17));
        fprintf(vh_out, ",%d,%d]}", few, within_2_52(d, y));
    } else if (aws_json_value_is_boolean(v)) {
        bool b = false;
        aws_json_value_get_boolean(v, &b);
        fprintf(vh_out, "{\"t\":\"bool\",\"x\":[%d]}", b ? 1 : 0);
    } else if (aws_json_value_is_null(v)) {
        fputs("{\"t\":\"null\",\"x\":[]}", vh_out);
    } else {
        fputs("{\"t\":\"unknown\",\"x\":[]}", vh_out);
    }
}
/* flat form for very deep trees (the JSON reader of the trace validator stops at 255 levels): the nodes in document
 * order as [kind, number of children, payload]; an object member is a ["key",0,[name bytes]] entry followed by its value */
static int flat_first;
static void flat_entry_begin(const char *kind, size_t n) {
    fprintf(vh_out, "%s[\"%s\",%zu,", flat_first ? "" : ",", kind, n);
    flat_first = 0;
}
static void emit_flat(const struct aws_json_value *v);
static int flat_member(const struct aws_byte_cursor *key, const struct aws_json_value *value, bool *cont, void *ud) {
    (void)cont;
    (void)ud;
    flat_entry_begin("key", 0);
    emit_bytes(key->ptr, key->len);
    fputc(']', vh_out);
    emit_flat(value);
    return AWS_OP_SUCCESS;
}
static int count_member(const struct aws_byte_cursor *key, const struct aws_json_value *value, bool *cont, void *ud) {
    (void)key;
    (void)value;
    (void)cont;
    ++*(size_t *)ud;
    return AWS_OP_SUCCESS;
}
static void emit_flat(const struct aws_json_value *v) {
    if (aws_json_value_is_object(v)) {
        size_t n = 0;
        aws_json_const_iterate_object(v, count_member, &n);
        flat_entry_begin("obj", n);
        fputs("[]]", vh_out);
        aws_json_const_iterate_object(v, flat_member, NULL);
    } else if (aws_json_value_is_array(v)) {
        size_t n = aws_json_get_array_size(v);
        flat_entry_begin("arr", n);
        fputs("[]]", vh_out);
        for (size_t i = 0; i < n; ++i) {
            emit_flat(aws_json_get_array_element(v, i));
        }
    } else {
        /* a scalar: [kind, 0, payload] with the payload of the nested form */
        const char *kind = aws_json_value_is_string(v)    ? "str"
                           : aws_json_value_is_number(v)  ? "num"
                           : aws_json_value_is_boolean(v) ? "bool"
                           : aws_json_value_is_null(v)    ? "null"
                                                          : "unknown";
        flat_entry_begin(kind, 0);
        if (!strcmp(kind, "str")) {
            struct aws_byte_cursor c = {0};
            aws_json_value_get_string(v, &c);
            emit_bytes(c.ptr, c.len);
        } else if (!strcmp(kind, "num")) {
            double d = 0;
            aws_json_value_get_number(v, &d);
            char p15[64], p17[64];
            vh_snprintf_c(p15, sizeof(p15), "%.15g", d);
            vh_snprintf_c(p17, sizeof(p17), "%.17g", d);
            double y = vh_strtod_c(p15);
            fputc('[', vh_out);
            emit_bytes((const uint8_t *)p15, strlen(p15));
            fputc(',', vh_out);
            emit_bytes((const uint8_t *)p17, strlen(p17));
            fprintf(vh_out, ",%d,%d]", y == d, within_2_52(d, y));
        } else if (!strcmp(kind, "bool")) {
            bool b = false;
            aws_json_value_get_boolean(v, &b);
            fprintf(vh_out, "[%d]", b ? 1 : 0);
        } else {
            fputs("[]", vh_out);
        }
        fputc(']', vh_out);
    }
}
static int flat_mode;
static void vh_proj(const char *k, const struct aws_json_value *v) {
    vh_sep();
    fprintf(vh_out, "\"%s\":", k);
    if (flat_mode && v != NULL) {
        fputs("{\"t\":\"flat\",\"x\":[", vh_out);
        flat_first = 1;
        emit_flat(v);
        fputs("]}", vh_out);
    } else {
        emit_node(v);
    }
}

/* ---- numbers of a tree in document order (for the close flags) */
#define MAXNUM 4096
struct numlist {
    double v[MAXNUM];
    size_t n;
};
static void collect(const struct aws_json_value *v, struct numlist *out);
static int collect_member(const struct aws_byte_cursor *key, const struct aws_json_value *value, bool *cont, void *ud) {
    (void)key;
    (void)cont;
    collect(value, ud);
    return AWS_OP_SUCCESS;
}
static void collect(const struct aws_json_value *v, struct numlist *out) {
    if (v == NULL) {
        return;
    }
    if (aws_json_value_is_object(v)) {
        aws_json_const_iterate_object(v, collect_member, out);
    } else if (aws_json_value_is_array(v)) {
        size_t n = aws_json_get_array_size(v);
        for (size_t i = 0; i < n; ++i) {
            collect(aws_json_get_array_element(v, i), out);
        }
    } else if (aws_json_value_is_number(v)) {
        double d = 0;
        aws_json_value_get_number(v, &d);
        if (out->n < MAXNUM) {
            out->v[out->n++] = d;
        }
    }
}

static void destroy_all(void) {
    for (int i = 0; i < NSLOT; ++i) {
        if (slot[i]) {
            aws_json_value_destroy(slot[i]);
            slot[i] = NULL;
        }
    }
    free(last_text);
    last_text = NULL;
    last_text_len = 0;
}

int main(int argc, char **argv) {
    if (argc < 3) {
        return 3;
    }
    FILE *in = fopen(argv[1], "r");
    vh_open(argv[2]);
    vh_install_handlers(120);
    /* re-initialise the library on the tracking allocator: cJSON allocates through the allocator given at init */
    aws_common_library_clean_up();
    aws_common_library_init(vh_alloc());
    size_t base_live = vh_live_blocks;
    struct aws_allocator *A = vh_alloc();
    static struct numlist na, nb;
    while (vh_next(in)) {
        if (vh_is("FLAT")) { /* FLAT 0|1 : projection form of the following events (no library call, no event) */
            flat_mode = (int)vh_argi(1);
        } else if (vh_is("RESET")) {
            flat_mode = 0;
            destroy_all();
            vh_begin("Reset");
            vh_int("live", (long long)(vh_live_blocks - base_live));
            vh_end();
        } else if (vh_is("END")) {
            break;
        } else if (vh_is("NEW")) { /* NEW s kind [arg] */
            int s = slot_id(1);
            const char *k = vh_args(2);
            size_t n = 0;
            uint8_t *arg = NULL;
            if (!strcmp(k, "null")) {
                slot[s] = aws_json_value_new_null(A);
            } else if (!strcmp(k, "bool")) {
                n = 1;
                arg = malloc(1);
                arg[0] = (uint8_t)(vh_argi(3) != 0);
                slot[s] = aws_json_value_new_boolean(A, arg[0] != 0);
            } else if (!strcmp(k, "obj")) {
                slot[s] = aws_json_value_new_object(A);
            } else if (!strcmp(k, "arr")) {
                slot[s] = aws_json_value_new_array(A);
            } else if (!strcmp(k, "str") || !strcmp(k, "cstr")) {
                arg = unhex(vh_args(3), &n);
                if (!strcmp(k, "str")) {
                    slot[s] = aws_json_value_new_string(A, aws_byte_cursor_from_array(arg, n));
                } else {
                    char *z = malloc(n + 1);
                    memcpy(z, arg, n);
                    z[n] = 0;
                    slot[s] = aws_json_value_new_string_from_c_str(A, z);
                    free(z);
                }
                k = "str";
            } else if (!strcmp(k, "num")) { /* decimal text -> double with strtod (input construction) */
                const char *txt = vh_args(3);
                n = strlen(txt);
                arg = malloc(n);
                memcpy(arg, txt, n);
                slot[s] = aws_json_value_new_number(A, vh_strtod_c(txt));
            } else {
                fprintf(stderr, "script: NEW %s\n", k);
                exit(3);
            }
            vh_begin("New");
            vh_int("s", s);
            vh_str("kind", k);
            vh_bytes("arg", arg, n);
            vh_proj("got", slot[s]);
            vh_end();
            free(arg);
        } else if (vh_is("DESTROY")) {
            int s = slot_id(1);
            aws_json_value_destroy(slot[s]);
            slot[s] = NULL;
            vh_begin("Destroy");
            vh_int("s", s);
            vh_end();
        } else if (vh_is("ADDOBJ") || vh_is("GETOBJ") || vh_is("HAS") || vh_is("RMOBJ")) { /* op o keyhex [c] [cstr] */
            int o = slot_id(1);
            size_t n;
            uint8_t *key = unhex(vh_args(2), &n);
            bool is_add = vh_is("ADDOBJ");
            int c = is_add ? slot_id(3) : -1;
            bool cstr = vh_ntok > (is_add ? 4 : 3) && !strcmp(vh_tok[is_add ? 4 : 3], "cstr");
            char *z = malloc(n + 1);
            memcpy(z, key, n);
            z[n] = 0;
            struct aws_byte_cursor kc = aws_byte_cursor_from_array(key, n);
            if (is_add) {
                int rc = cstr ? aws_json_value_add_to_object_c_str(slot[o], z, slot[c]) : aws_json_value_add_to_object(slot[o], kc, slot[c]);
                if (rc == 0) {
                    slot[c] = NULL; /* owned by the object now */
                }
                vh_begin("AddToObject");
                vh_int("o", o);
                vh_bytes("key", key, n);
                vh_int("c", c);
                vh_rc(rc);
                vh_proj("after", slot[o]);
                vh_end();
            } else if (vh_is("GETOBJ")) {
                struct aws_json_value *g = cstr ? aws_json_value_get_from_object_c_str(slot[o], z) : aws_json_value_get_from_object(slot[o], kc);
                vh_begin("GetFromObject");
                vh_int("o", o);
                vh_bytes("key", key, n);
                vh_bool("found", g != NULL);
                vh_proj("got", g);
                vh_end();
            } else if (vh_is("HAS")) {
                bool r = cstr ? aws_json_value_has_key_c_str(slot[o], z) : aws_json_value_has_key(slot[o], kc);
                vh_begin("HasKey");
                vh_int("o", o);
                vh_bytes("key", key, n);
                vh_bool("res", r);
                vh_end();
            } else {
                int rc = cstr ? aws_json_value_remove_from_object_c_str(slot[o], z) : aws_json_value_remove_from_object(slot[o], kc);
                vh_begin("RemoveFromObject");
                vh_int("o", o);
                vh_bytes("key", key, n);
                vh_rc(rc);
                vh_proj("after", slot[o]);
                vh_end();
            }
            free(z);
            free(key);
        } else if (vh_is("ADDARR")) {
            int a = slot_id(1), c = slot_id(2);
            int rc = aws_json_value_add_array_element(slot[a], slot[c]);
            if (rc == 0) {
                slot[c] = NULL;
            }
            vh_begin("AddArrayElement");
            vh_int("a", a);
            vh_int("c", c);
            vh_rc(rc);
            vh_proj("after", slot[a]);
            vh_end();
        } else if (vh_is("GETARR")) {
            int a = slot_id(1);
            long long i = vh_argi(2);
            struct aws_json_value *g = aws_json_get_array_element(slot[a], (size_t)i);
            vh_begin("GetArrayElement");
            vh_int("a", a);
            vh_int("i", i);
            vh_bool("found", g != NULL);
            vh_proj("got", g);
            vh_end();
        } else if (vh_is("SIZE")) {
            int a = slot_id(1);
            vh_begin("GetArraySize");
            vh_int("a", a);
            vh_int("n", (long long)aws_json_get_array_size(slot[a]));
            vh_end();
        } else if (vh_is("RMARR")) {
            int a = slot_id(1);
            long long i = vh_argi(2);
            int rc = aws_json_value_remove_array_element(slot[a], (size_t)i);
            vh_begin("RemoveArrayElement");
            vh_int("a", a);
            vh_int("i", i);
            vh_rc(rc);
            vh_proj("after", slot[a]);
            vh_end();
        } else if (vh_is("DUP")) {
            int s = slot_id(1), d = slot_id(2);
            slot[d] = aws_json_value_duplicate(slot[s]);
            vh_begin("Duplicate");
            vh_int("s", s);
            vh_int("d", d);
            vh_bool("ok", slot[d] != NULL);
            vh_proj("got", slot[d]);
            vh_end();
        } else if (vh_is("DUPOBJ") || vh_is("DUPARR")) {
            /* DUPOBJ o keyhex d | DUPARR a index d : duplicate of a value that is still a member of its container
             * (a borrowed reference from get_from_object / get_array_element); the duplicate is a value of its own */
            bool from_obj = vh_is("DUPOBJ");
            int o = slot_id(1), d = slot_id(3);
            size_t n = 0;
            uint8_t *key = from_obj ? unhex(vh_args(2), &n) : NULL;
            long long i = from_obj ? 0 : vh_argi(2);
            struct aws_json_value *g = from_obj ? aws_json_value_get_from_object(slot[o], aws_byte_cursor_from_array(key, n))
                                                : aws_json_get_array_element(slot[o], (size_t)i);
            if (g && !slot[d]) {
                slot[d] = aws_json_value_duplicate(g);
            }
            vh_begin("DuplicateSub");
            vh_str("from", from_obj ? "obj" : "arr");
            vh_int("o", o);
            vh_bytes("key", key, n);
            vh_int("i", i);
            vh_int("d", d);
            vh_bool("found", g != NULL);
            vh_bool("ok", g != NULL && slot[d] != NULL);
            vh_proj("got", g ? slot[d] : NULL);
            vh_end();
            free(key);
        } else if (vh_is("CMP")) {
            int a = slot_id(1), b = slot_id(2);
            bool r = aws_json_value_compare(slot[a], slot[b], true);
            vh_begin("Compare");
            vh_int("a", a);
            vh_int("b", b);
            vh_bool("res", r);
            vh_end();
        } else if (vh_is("PRINT")) { /* PRINT s fmt cap prelen : appends to a buffer that already holds prelen bytes */
            int s = slot_id(1);
            int fmt = (int)vh_argi(2);
            size_t cap = (size_t)vh_argu(3), prelen = (size_t)vh_argu(4);
            struct aws_byte_buf buf;
            aws_byte_buf_init(&buf, A, cap > prelen ? cap : prelen);
            for (size_t i = 0; i < prelen; ++i) {
                buf.buffer[i] = (uint8_t)('A' + i % 26);
            }
            buf.len = prelen;
            uint8_t *pre = malloc(prelen ? prelen : 1);
            memcpy(pre, buf.buffer, prelen);
            int rc = fmt ? aws_byte_buf_append_json_string_formatted(slot[s], &buf) : aws_byte_buf_append_json_string(slot[s], &buf);
            free(last_text);
            last_text_len = buf.len >= prelen ? buf.len - prelen : 0;
            last_text = malloc(last_text_len ? last_text_len : 1);
            memcpy(last_text, buf.buffer + prelen, last_text_len);
            vh_begin("Serialise");
            vh_int("s", s);
            vh_int("fmt", fmt);
            vh_rc(rc);
            vh_bytes("pre", pre, prelen);
            vh_bytes("out", buf.buffer, buf.len);
            vh_end();
            free(pre);
            aws_byte_buf_clean_up_secure(&buf);
        } else if (vh_is("PARSE") || vh_is("PARSELAST")) { /* PARSE s hex | PARSELAST s : the last serialised text */
            int s = slot_id(1);
            size_t n;
            uint8_t *text;
            if (vh_is("PARSE")) {
                text = unhex(vh_args(2), &n);
            } else {
                n = last_text_len;
                text = malloc(n ? n : 1);
                memcpy(text, last_text, n);
            }
            /* exact-size copy: reading one byte past the text is an ASan report */
            uint8_t *exact = malloc(n);
            memcpy(exact, text, n);
            slot[s] = aws_json_value_new_from_string(A, aws_byte_cursor_from_array(exact, n));
            vh_begin("ParseText");
            vh_int("s", s);
            vh_bytes("text", text, n);
            vh_bool("ok", slot[s] != NULL);
            vh_proj("got", slot[s]);
            vh_end();
            free(exact);
            free(text);
        } else if (vh_is("RT")) { /* RT a b : b was parsed from a serialisation of a */
            int a = slot_id(1), b = slot_id(2);
            na.n = nb.n = 0;
            collect(slot[a], &na);
            collect(slot[b], &nb);
            long long *close = malloc(sizeof(long long) * (na.n ? na.n : 1));
            for (size_t i = 0; i < na.n; ++i) {
                close[i] = i < nb.n && within_2_52(na.v[i], nb.v[i]);
            }
            vh_begin("RoundTrip");
            vh_int("a", a);
            vh_int("b", b);
            vh_ints("close", close, na.n);
            vh_end();
            free(close);
        } else {
            fprintf(stderr, "script: unknown op %s\n", vh_tok[0]);
            exit(3);
        }
    }
    destroy_all();
    vh_begin("End");
    vh_int("live", (long long)(vh_live_blocks - base_live));
    vh_end();
    fclose(vh_out);
    return 0;
}
