--------------------------- MODULE TaskSchedTrace ---------------------------
(* Trace validation for C07: the flat event stream recorded from the real aws_task_scheduler - one  *)
(* event per external call, one "Invoked" event written from inside every task function invocation, *)
(* one event per call a task function makes back into the scheduler - must be a behaviour of      *)
(* TaskSched.  Times are indices into the table the harness shares with this module (index order = *)
(* numeric order; 0 = time zero, MaxT = UINT64_MAX); a has_tasks result that is not in the table is *)
(* logged as -1 and matches nothing.                                                              *)
EXTENDS TaskSched, TraceCommon

VARIABLES l,
          idle       \* the not-scheduled task whose cancel call is in progress and has not invoked its function (0: none)
Ev == TraceLog[l]

(* cancel_task on a task that is not scheduled (freshly initialised, or already run): task_scheduler.h does not say       *)
(* whether its function is then called with CANCELED (the pinned code does call it); either way nothing else changes -    *)
(* in particular no other task is cancelled, lost or delayed.                                                            *)
TCancelIdle == Ev.e = "CancelIdle" /\ idle = 0 /\ owed = NONE /\ Ev.t \in Tasks /\ Ev.t \notin Scheduled
               /\ idle' = Ev.t /\ UNCHANGED tsvars
TInvokedIdle == Ev.e = "Invoked" /\ Ev.st = "CANCELED" /\ idle # 0 /\ Ev.t = idle /\ idle' = 0 /\ UNCHANGED tsvars
TCancelIdleEnd == Ev.e = "CancelIdleEnd" /\ idle' = 0 /\ UNCHANGED tsvars
Other == idle = 0 /\ idle' = 0

TReset == /\ Ev.e = "Reset"
          /\ asap' = <<>> /\ timed' = NoTimes /\ phase' = "idle" /\ now' = 0 /\ runId' = 0
          /\ bAsap' = <<>> /\ bTimed' = NoTimes /\ owed' = NONE
          /\ schedRun' = [t \in Tasks |-> NONE] /\ nsched' = [t \in Tasks |-> 0] /\ ninv' = [t \in Tasks |-> 0]
TScheduleNow == Ev.e = "ScheduleNow" /\ ScheduleNow(Ev.t)
TScheduleFuture == Ev.e = "ScheduleFuture" /\ ScheduleFuture(Ev.t, Ev.time)
TCancel == Ev.e = "Cancel" /\ Cancel(Ev.t)
TRunAllBegin == Ev.e = "RunAllBegin" /\ RunAllBegin(Ev.now)
TInvokedRun == Ev.e = "Invoked" /\ Ev.st = "RUN" /\ InvokedRun(Ev.t, Ev.rid)
TInvokedCanceled == Ev.e = "Invoked" /\ Ev.st = "CANCELED" /\ InvokedCanceled(Ev.t)
TRunAllEnd == Ev.e = "RunAllEnd" /\ RunAllEnd /\ Ev.valid = 1
THasTasks == Ev.e = "HasTasks" /\ HasTasks(Ev.has = 1, Ev.next) /\ Ev.valid = 1
TCleanUpBegin == Ev.e = "CleanUpBegin" /\ CleanUpBegin
TCleanUpEnd == Ev.e = "CleanUpEnd" /\ CleanUpEnd
(* end of an execution: nothing may be left scheduled or owed (clean_up has run) *)
TFin == Ev.e = "Fin" /\ phase = "idle" /\ owed = NONE /\ Scheduled = {} /\ UNCHANGED tsvars
TEnd == Ev.e = "End" /\ UNCHANGED tsvars

TNext == /\ l <= TraceLen /\ l' = l + 1
         /\ \/ TCancelIdle \/ TInvokedIdle \/ TCancelIdleEnd
            \/ Other /\ (\/ TReset \/ TScheduleNow \/ TScheduleFuture \/ TCancel \/ TRunAllBegin \/ TInvokedRun \/ TInvokedCanceled
                          \/ TRunAllEnd \/ THasTasks \/ TCleanUpBegin \/ TCleanUpEnd \/ TFin \/ TEnd)
TInit == l = 1 /\ TSInit /\ idle = 0
TSpec == TInit /\ [][TNext]_<<tsvars, l, idle>>
=============================================================================
