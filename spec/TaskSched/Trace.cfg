SPECIFICATION TSpec
CONSTANTS Tasks = {1, 2, 3, 4, 5, 6, 7, 8, 9, 10, 11, 12, 13, 14, 15, 16}
  MaxT = 23
POSTCONDITION TraceAccepted
CHECK_DEADLOCK FALSE
