SPECIFICATION TSpec
CONSTANTS Tasks = {1, 2, 3, 4, 5, 6}
  MaxT = 7
POSTCONDITION TraceAccepted
CHECK_DEADLOCK FALSE
