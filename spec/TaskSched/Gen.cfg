SPECIFICATION MCSpec
CONSTANTS Tasks = {1, 2, 3, 4, 5}
  MaxT = 4
  MaxSched = 40
  MaxRuns = 12
  Fuel = 2
  GenDepth = 60
INVARIANT Emit
