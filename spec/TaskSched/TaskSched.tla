------------------------------ MODULE TaskSched ------------------------------
(* aws_task_scheduler as property C07 states it.                                                   *)
(*   - every schedule of a task leads to exactly one invocation of its function: with status RUN by *)
(*     the first run_all whose time is at or after the task's time, or with status CANCELED if it  *)
(*     is cancelled - or the scheduler is cleaned up - before that; never RUN early;               *)
(*   - within one run_all: run-now tasks first, in the order they were scheduled, then timed tasks *)
(*     in non-decreasing time order (order among equal times is left open);                        *)
(*   - tasks scheduled from inside a running task wait for a later run_all;                        *)
(*   - has_tasks reports the earliest pending time: 0 if a run-now task is pending, the maximum    *)
(*     value if nothing is.                                                                         *)
(* The observable behaviour is a flat stream of events: the external calls, and - because task     *)
(* functions may call back into the scheduler - everything that happens *inside* run_all, cancel    *)
(* and clean_up, in the order it happens:                                                           *)
(*     RunAllBegin(now)  Invoked(t, RUN) <calls made by t's function> Invoked(t', RUN) ... RunAllEnd *)
(*     Cancel(t) Invoked(t, CANCELED) <calls made by t's function>                                 *)
(*     CleanUpBegin Invoked(t, CANCELED) ... CleanUpEnd                                             *)
(* so a call made by a task function is the same action as the external call, merely taken while   *)
(* a run is open.  Times are indices into a fixed increasing table shared with the harness         *)
(* (first entry 0, last entry UINT64_MAX): only their order matters.                               *)
(* Environment obligations (API preconditions, respected by scripts and harness): a task is        *)
(* scheduled only while it is not scheduled; only a currently scheduled task is cancelled;         *)
(* has_tasks, run_all and clean_up are not called from inside a task function.                     *)
EXTENDS Naturals, Integers, Sequences, FiniteSets

CONSTANTS Tasks,               \* e.g. 1..4
          MaxT                 \* times are 0..MaxT; 0 is time zero, MaxT stands for UINT64_MAX

NONE == -1
Times == 0..MaxT

VARIABLES asap,                \* Seq(Tasks): pending run-now tasks in scheduling order
          timed,               \* [Tasks -> Times \cup {NONE}]: pending timed tasks and their time
          phase,               \* "idle" | "run" | "clean"
          now,                 \* time of the open run_all
          runId,               \* number of run_all calls begun so far
          bAsap,               \* run-now part of the open run's batch, still to be invoked, in order
          bTimed,              \* [Tasks -> Times \cup {NONE}]: timed part of the batch still to be invoked
          owed,                \* task whose CANCELED invocation must be the next event (inside cancel), or NONE
          schedRun,            \* [Tasks -> Int]: runId during which the task was scheduled from inside a run, else NONE
          nsched, ninv         \* [Tasks -> Nat]: schedules / invocations so far
tsvars == <<asap, timed, phase, now, runId, bAsap, bTimed, owed, schedRun, nsched, ninv>>

Range(s) == {s[i] : i \in 1..Len(s)}
Without(s, t) == SelectSeq(s, LAMBDA x : x # t)
PendingOutside == Range(asap) \cup {t \in Tasks : timed[t] # NONE}       \* scheduled, not in an open batch
InBatch == Range(bAsap) \cup {t \in Tasks : bTimed[t] # NONE}
Scheduled == PendingOutside \cup InBatch
NoTimes == [t \in Tasks |-> NONE]

TSInit == /\ asap = <<>> /\ timed = NoTimes /\ phase = "idle" /\ now = 0 /\ runId = 0
          /\ bAsap = <<>> /\ bTimed = NoTimes /\ owed = NONE
          /\ schedRun = [t \in Tasks |-> NONE] /\ nsched = [t \in Tasks |-> 0] /\ ninv = [t \in Tasks |-> 0]

NoteSchedule(t) == /\ nsched' = [nsched EXCEPT ![t] = @ + 1]
                   /\ schedRun' = [schedRun EXCEPT ![t] = IF phase = "run" THEN runId ELSE NONE]

ScheduleNow(t) ==
    /\ owed = NONE /\ t \notin Scheduled
    /\ asap' = Append(asap, t)
    /\ NoteSchedule(t)
    /\ UNCHANGED <<timed, phase, now, runId, bAsap, bTimed, owed, ninv>>

ScheduleFuture(t, time) ==
    /\ owed = NONE /\ t \notin Scheduled /\ time \in Times
    /\ timed' = [timed EXCEPT ![t] = time]
    /\ NoteSchedule(t)
    /\ UNCHANGED <<asap, phase, now, runId, bAsap, bTimed, owed, ninv>>

(* cancel: the task leaves whatever holds it - including the batch of the open run - and its       *)
(* function is invoked with CANCELED before cancel returns (the next event)                        *)
Cancel(t) ==
    /\ owed = NONE /\ t \in Scheduled
    /\ asap' = Without(asap, t) /\ timed' = [timed EXCEPT ![t] = NONE]
    /\ bAsap' = Without(bAsap, t) /\ bTimed' = [bTimed EXCEPT ![t] = NONE]
    /\ owed' = t
    /\ UNCHANGED <<phase, now, runId, schedRun, nsched, ninv>>

(* run_all(n): everything pending now whose time has come forms the batch; nothing else will run   *)
RunAllBegin(n) ==
    /\ phase = "idle" /\ owed = NONE /\ n \in Times
    /\ phase' = "run" /\ now' = n /\ runId' = runId + 1
    /\ bAsap' = asap /\ asap' = <<>>
    /\ bTimed' = [t \in Tasks |-> IF timed[t] # NONE /\ timed[t] <= n THEN timed[t] ELSE NONE]
    /\ timed' = [t \in Tasks |-> IF timed[t] # NONE /\ timed[t] <= n THEN NONE ELSE timed[t]]
    /\ UNCHANGED <<owed, schedRun, nsched, ninv>>

(* which task may be invoked next with RUN: the head of the run-now part, then a timed task of     *)
(* minimal time                                                                                    *)
NextToRun(t) ==
    IF bAsap # <<>> THEN t = Head(bAsap)
    ELSE bTimed[t] # NONE /\ \A u \in Tasks : bTimed[u] # NONE => bTimed[t] <= bTimed[u]

NoteInvoked(t) == ninv' = [ninv EXCEPT ![t] = @ + 1]

(* status RUN: rid = the id of the run_all call the harness was in *)
InvokedRun(t, rid) ==
    /\ phase = "run" /\ owed = NONE /\ rid = runId
    /\ NextToRun(t)
    /\ schedRun[t] # runId                                  \* scheduled inside this very run: must wait
    /\ bAsap' = Without(bAsap, t) /\ bTimed' = [bTimed EXCEPT ![t] = NONE]
    /\ NoteInvoked(t)
    /\ UNCHANGED <<asap, timed, phase, now, runId, owed, schedRun, nsched>>

(* status CANCELED: either the invocation owed by a cancel, or - during clean_up - any pending task *)
InvokedCanceled(t) ==
    /\ IF owed # NONE THEN t = owed /\ UNCHANGED <<asap, timed>>
       ELSE /\ phase = "clean" /\ t \in PendingOutside
            /\ asap' = Without(asap, t) /\ timed' = [timed EXCEPT ![t] = NONE]
    /\ owed' = NONE
    /\ NoteInvoked(t)
    /\ UNCHANGED <<phase, now, runId, bAsap, bTimed, schedRun, nsched>>

(* run_all returns only when the whole batch has been invoked (or cancelled out of it) *)
RunAllEnd ==
    /\ phase = "run" /\ owed = NONE /\ InBatch = {}
    /\ phase' = "idle"
    /\ UNCHANGED <<asap, timed, now, runId, bAsap, bTimed, owed, schedRun, nsched, ninv>>

MinTimed == CHOOSE m \in Times : (\E t \in Tasks : timed[t] = m) /\ \A t \in Tasks : timed[t] # NONE => m <= timed[t]
HasTasks(has, next) ==
    /\ phase = "idle" /\ owed = NONE
    /\ has <=> PendingOutside # {}
    /\ next = IF asap # <<>> THEN 0 ELSE IF \E t \in Tasks : timed[t] # NONE THEN MinTimed ELSE MaxT
    /\ UNCHANGED tsvars

(* clean_up: everything pending - also what cancelled task functions schedule meanwhile - is       *)
(* invoked with CANCELED before clean_up returns                                                   *)
CleanUpBegin ==
    /\ phase = "idle" /\ owed = NONE
    /\ phase' = "clean"
    /\ UNCHANGED <<asap, timed, now, runId, bAsap, bTimed, owed, schedRun, nsched, ninv>>
CleanUpEnd ==
    /\ phase = "clean" /\ owed = NONE /\ PendingOutside = {}
    /\ phase' = "idle"
    /\ UNCHANGED <<asap, timed, now, runId, bAsap, bTimed, owed, schedRun, nsched, ninv>>

-----------------------------------------------------------------------------
(* consistency of the specification itself *)
B01(x) == IF x THEN 1 ELSE 0
OneHolder == /\ \A t \in Tasks : B01(t \in Range(asap)) + B01(timed[t] # NONE) + B01(t \in Range(bAsap))
                                  + B01(bTimed[t] # NONE) <= 1
             /\ Len(asap) = Cardinality(Range(asap)) /\ Len(bAsap) = Cardinality(Range(bAsap))
ExactlyOnce == \A t \in Tasks :             \* one invocation per schedule: outstanding = scheduled, or owed
    nsched[t] - ninv[t] = IF t \in Scheduled \/ t = owed THEN 1 ELSE 0
BatchOnlyInRun == phase # "run" => InBatch = {}
NeverEarly == \A t \in Tasks : bTimed[t] # NONE => bTimed[t] <= now
InsideWaits == \A t \in InBatch : schedRun[t] # runId
=============================================================================
