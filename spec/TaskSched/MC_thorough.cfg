SPECIFICATION MCSpec
CONSTANTS Tasks = {1, 2, 3}
  MaxT = 2
  MaxSched = 6
  MaxRuns = 3
  Fuel = 2
  GenDepth = 0
INVARIANTS OneHolder ExactlyOnce BatchOnlyInRun NeverEarly InsideWaits RunCompletes
PROPERTIES RunOnlyDue BatchOrder
