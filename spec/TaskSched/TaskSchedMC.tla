---------------------------- MODULE TaskSchedMC ----------------------------
(* Bounded exploration of TaskSched with re-entrant task functions: after an Invoked event the     *)
(* invoked task's function may make up to Fuel calls back into the scheduler (schedule any idle    *)
(* task - including itself -, cancel any scheduled task, including one that sits in the open       *)
(* run's batch); a nested cancel invokes another function, which may again call back.  External    *)
(* calls happen only while no run is open.  For behaviour generation the calls made by task       *)
(* functions are recorded per task and per invocation (prog), the external calls in ops.           *)
EXTENDS TaskSched, TLC, Json

CONSTANTS MaxSched,            \* bound on the total number of schedule calls
          MaxRuns,             \* bound on run_all calls
          Fuel,                \* calls a task function may make per invocation
          GenDepth
VARIABLES cur,                 \* task whose function is executing (innermost), NONE if none
          fuel,                \* calls that function may still make
          ops, prog, steps
mcvars == <<asap, timed, phase, now, runId, bAsap, bTimed, owed, schedRun, nsched, ninv, cur, fuel, ops, prog, steps>>

RECURSIVE SumF(_, _)
SumF(f, S) == IF S = {} THEN 0 ELSE LET x == CHOOSE x \in S : TRUE IN f[x] + SumF(f, S \ {x})
Total == SumF(nsched, Tasks)
Act(name, t, time) == [op |-> name, t |-> t, time |-> time]
Gen == GenDepth > 0
G == Gen => steps < GenDepth

MCInit == TSInit /\ cur = NONE /\ fuel = 0 /\ ops = <<>> /\ prog = [t \in Tasks |-> <<>>] /\ steps = 0

(* a call is either external (no run open; ends whatever function was executing) or made by cur's function *)
Place(nested, a) ==
    /\ steps' = (IF Gen THEN steps + 1 ELSE steps)
    /\ IF nested
       THEN /\ cur # NONE /\ fuel > 0 /\ fuel' = fuel - 1 /\ cur' = cur
            /\ prog' = IF Gen THEN [prog EXCEPT ![cur] = [@ EXCEPT ![Len(@)] = Append(@, a)]] ELSE prog
            /\ ops' = ops
       ELSE /\ phase = "idle" /\ cur' = NONE /\ fuel' = 0
            /\ ops' = IF Gen THEN Append(ops, a) ELSE ops
            /\ prog' = prog
Enter(t) == /\ cur' = t /\ fuel' = Fuel /\ steps' = (IF Gen THEN steps + 1 ELSE steps) /\ ops' = ops
            /\ prog' = IF Gen THEN [prog EXCEPT ![t] = Append(@, <<>>)] ELSE prog
External(a) == /\ cur' = NONE /\ fuel' = 0 /\ steps' = (IF Gen THEN steps + 1 ELSE steps) /\ prog' = prog
               /\ ops' = IF Gen /\ a.op # "" THEN Append(ops, a) ELSE ops

MCScheduleNow == G /\ Total < MaxSched /\ \E t \in Tasks, nested \in BOOLEAN :
                    ScheduleNow(t) /\ Place(nested, Act("NOW", t, 0))
MCScheduleFuture == G /\ Total < MaxSched /\ \E t \in Tasks, d \in Times, nested \in BOOLEAN :
                    ScheduleFuture(t, d) /\ Place(nested, Act("FUT", t, d))
MCCancel == G /\ \E t \in Tasks, nested \in BOOLEAN : Cancel(t) /\ Place(nested, Act("CANCEL", t, 0))
MCRunAllBegin == G /\ runId < MaxRuns /\ \E n \in Times : RunAllBegin(n) /\ External(Act("RUN", 0, n))
MCInvokedRun == G /\ \E t \in Tasks : InvokedRun(t, runId) /\ Enter(t)
MCInvokedCanceled == G /\ \E t \in Tasks : InvokedCanceled(t) /\ Enter(t)
MCRunAllEnd == G /\ RunAllEnd /\ External(Act("", 0, 0))
MCHasTasks == G /\ \E has \in BOOLEAN, next \in Times : HasTasks(has, next) /\ External(Act("HAS", 0, 0))
MCCleanUpBegin == G /\ PendingOutside # {} /\ CleanUpBegin /\ External(Act("CLEANUP", 0, 0))
MCCleanUpEnd == G /\ CleanUpEnd /\ External(Act("", 0, 0))

MCNext == \/ MCScheduleNow \/ MCScheduleFuture \/ MCCancel \/ MCRunAllBegin \/ MCInvokedRun \/ MCInvokedCanceled
          \/ MCRunAllEnd \/ MCHasTasks \/ MCCleanUpBegin \/ MCCleanUpEnd
MCSpec == MCInit /\ [][MCNext]_mcvars

-----------------------------------------------------------------------------
(* clauses of the property as checks over the model's behaviours *)
(* RUN is never early and only for a task that was pending when the run began *)
RunOnlyDue == [][\A t \in Tasks : (ninv'[t] > ninv[t] /\ phase = "run" /\ owed = NONE) =>
                    (t \in InBatch /\ (bTimed[t] # NONE => bTimed[t] <= now))]_mcvars
(* run-now tasks of the batch run before its timed tasks; timed tasks in non-decreasing time order *)
BatchOrder == [][\A t \in Tasks : (ninv'[t] > ninv[t] /\ phase = "run" /\ owed = NONE) =>
                    /\ (bTimed[t] # NONE => bAsap = <<>>)
                    /\ (bTimed[t] # NONE => \A u \in Tasks : bTimed[u] # NONE => bTimed[t] <= bTimed[u])
                    /\ (bTimed[t] = NONE => t = Head(bAsap))]_mcvars
(* a run or a clean_up that has begun can always be completed: no task is stranded *)
RunCompletes == (phase = "run" /\ owed = NONE /\ InBatch # {}) => \E t \in Tasks : NextToRun(t) /\ schedRun[t] # runId

View == <<asap, timed, phase, now, runId, bAsap, bTimed, owed, schedRun, nsched, ninv, cur, fuel>>
Emit == (Gen /\ steps = GenDepth) => PrintT(<<"SCRIPT", ToJson([ops |-> ops, prog |-> prog])>>)
=============================================================================
