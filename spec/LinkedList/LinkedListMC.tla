---------------------------- MODULE LinkedListMC ----------------------------
(* Exhaustive exploration of LinkedList over a small node pool (every reachable arrangement of the *)
(* nodes in two lists, every operation from each) and behaviour generation for replay.             *)
EXTENDS LinkedList, TLC, Json

CONSTANTS GenDepth
VARIABLES hist
mcvars == <<ll, hist>>

Op(name, k, a, b) == [op |-> name, k |-> k, a |-> a, b |-> b]
Rec(o) == hist' = IF GenDepth > 0 THEN Append(hist, o) ELSE hist
G == GenDepth > 0 => Len(hist) < GenDepth

MCInit == LLInit /\ hist = <<>>
MCPushFront == G /\ \E k \in Lists, n \in Nodes : PushFront(k, n) /\ Rec(Op("PUSHF", k, n, 0))
MCPushBack == G /\ \E k \in Lists, n \in Nodes : PushBack(k, n) /\ Rec(Op("PUSHB", k, n, 0))
MCPopFront == G /\ \E k \in Lists, n \in Nodes : PopFront(k, n) /\ Rec(Op("POPF", k, 0, 0))
MCPopBack == G /\ \E k \in Lists, n \in Nodes : PopBack(k, n) /\ Rec(Op("POPB", k, 0, 0))
MCFront == G /\ \E k \in Lists, n \in Nodes : Front(k, n) /\ Rec(Op("FRONT", k, 0, 0))
MCBack == G /\ \E k \in Lists, n \in Nodes : Back(k, n) /\ Rec(Op("BACK", k, 0, 0))
MCInsertBefore == G /\ \E b \in Nodes, n \in Nodes : InsertBefore(b, n) /\ Rec(Op("INSB", 0, b, n))
MCInsertAfter == G /\ \E a \in Nodes, n \in Nodes : InsertAfter(a, n) /\ Rec(Op("INSA", 0, a, n))
MCRemove == G /\ \E n \in Nodes : Remove(n) /\ Rec(Op("REMOVE", 0, n, 0))
MCSwapNodes == G /\ \E a \in Nodes, b \in Nodes : SwapNodes(a, b) /\ Rec(Op("SWAPN", 0, a, b))
MCSwapContents == G /\ SwapContents /\ Rec(Op("SWAPC", 0, 0, 0))
MCMoveAllBack == G /\ \E k \in Lists : MoveAllBack(k) /\ Rec(Op("MOVEB", k, 0, 0))
MCMoveAllFront == G /\ \E k \in Lists : MoveAllFront(k) /\ Rec(Op("MOVEF", k, 0, 0))

MCNext == \/ MCPushFront \/ MCPushBack \/ MCPopFront \/ MCPopBack \/ MCFront \/ MCBack \/ MCInsertBefore
          \/ MCInsertAfter \/ MCRemove \/ MCSwapNodes \/ MCSwapContents \/ MCMoveAllBack \/ MCMoveAllFront
MCSpec == MCInit /\ [][MCNext]_mcvars

(* nodes are neither lost nor duplicated by the whole-list operations *)
Conserved == [][(MCSwapContents \/ MCMoveAllBack \/ MCMoveAllFront \/ MCSwapNodes) => Attached' = Attached]_mcvars

Emit == (GenDepth > 0 /\ Len(hist) = GenDepth) => PrintT(<<"SCRIPT", ToJson([ops |-> hist])>>)
=============================================================================
