SPECIFICATION MCSpec
CONSTANTS Nodes = {1, 2, 3, 4, 5}
  GenDepth = 0
INVARIANTS NoDup
PROPERTIES Conserved
