SPECIFICATION TSpec
CONSTANTS Nodes = {1, 2, 3, 4, 5, 6}
POSTCONDITION TraceAccepted
CHECK_DEADLOCK FALSE
