SPECIFICATION MCSpec
CONSTANTS Nodes = {1, 2, 3, 4, 5, 6}
  GenDepth = 40
INVARIANT Emit
