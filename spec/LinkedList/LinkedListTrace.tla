--------------------------- MODULE LinkedListTrace ---------------------------
(* Trace validation for the linked-list half of C09: every recorded call must be the LinkedList   *)
(* action of the same name with the logged arguments and returned node, and the full observation  *)
(* of both lists and of every node taken after the call must be Consistent with the new state.    *)
EXTENDS LinkedList, TraceCommon

VARIABLES l
Ev == TraceLog[l]
Observed(o) == Consistent(o, ll')

TReset == Ev.e = "Reset" /\ ll' = << <<>>, <<>> >> /\ Observed(Ev.s)
TPushFront == Ev.e = "PushFront" /\ PushFront(Ev.k, Ev.n) /\ Observed(Ev.s)
TPushBack == Ev.e = "PushBack" /\ PushBack(Ev.k, Ev.n) /\ Observed(Ev.s)
TPopFront == Ev.e = "PopFront" /\ PopFront(Ev.k, Ev.n) /\ Observed(Ev.s)
TPopBack == Ev.e = "PopBack" /\ PopBack(Ev.k, Ev.n) /\ Observed(Ev.s)
TFront == Ev.e = "Front" /\ Front(Ev.k, Ev.n) /\ Observed(Ev.s)
TBack == Ev.e = "Back" /\ Back(Ev.k, Ev.n) /\ Observed(Ev.s)
TInsertBefore == Ev.e = "InsertBefore" /\ InsertBefore(Ev.a, Ev.n) /\ Observed(Ev.s)
TInsertAfter == Ev.e = "InsertAfter" /\ InsertAfter(Ev.a, Ev.n) /\ Observed(Ev.s)
TRemove == Ev.e = "Remove" /\ Remove(Ev.n) /\ Observed(Ev.s)
TSwapNodes == Ev.e = "SwapNodes" /\ SwapNodes(Ev.a, Ev.b) /\ Observed(Ev.s)
TSwapContents == Ev.e = "SwapContents" /\ SwapContents /\ Observed(Ev.s)
TMoveAllBack == Ev.e = "MoveAllBack" /\ MoveAllBack(Ev.k) /\ Observed(Ev.s)
TMoveAllFront == Ev.e = "MoveAllFront" /\ MoveAllFront(Ev.k) /\ Observed(Ev.s)
TFin == Ev.e = "Fin" /\ UNCHANGED ll
TEnd == Ev.e = "End" /\ UNCHANGED ll

TNext == /\ l <= TraceLen /\ l' = l + 1
         /\ \/ TReset \/ TPushFront \/ TPushBack \/ TPopFront \/ TPopBack \/ TFront \/ TBack \/ TInsertBefore
            \/ TInsertAfter \/ TRemove \/ TSwapNodes \/ TSwapContents \/ TMoveAllBack \/ TMoveAllFront \/ TFin \/ TEnd
TInit == l = 1 /\ LLInit
TSpec == TInit /\ [][TNext]_<<ll, l>>
=============================================================================
