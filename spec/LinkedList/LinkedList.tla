------------------------------ MODULE LinkedList ------------------------------
(* The intrusive doubly linked list of aws-c-common as property C09 states it: two lists over a   *)
(* fixed pool of nodes keep *exact* order under push/pop at both ends, insert before/after,       *)
(* remove, swap_nodes (adjacent, distant or identical), swap_contents and move_all_front/back.    *)
(* The state is nothing but the two node sequences; a node that is in neither is detached.        *)
(* What "forward and backward traversals are mirror images" and "a removed node is fully          *)
(* detached" mean for an observation of the real structure is stated by Consistent below.         *)
(* Environment obligations (documented preconditions; scripts respect them): a node is inserted   *)
(* only while detached; pop/front/back only on a non-empty list; remove/swap/insert-relative only *)
(* with nodes that are in a list; swap_nodes with two nodes of the same list.                     *)
EXTENDS Naturals, Sequences, FiniteSets

CONSTANTS Nodes                \* e.g. 1..6

VARIABLES ll                   \* <<s1, s2>>  sequences of nodes
llvars == <<ll>>

Lists == {1, 2}
Other(k) == 3 - k
Range(s) == {s[i] : i \in 1..Len(s)}
InList(k) == Range(ll[k])
Attached == InList(1) \cup InList(2)
Detached == Nodes \ Attached
ListOf(n) == IF n \in InList(1) THEN 1 ELSE 2
Pos(s, n) == CHOOSE i \in 1..Len(s) : s[i] = n
Set2(f, k, x) == [f EXCEPT ![k] = x]
Reverse(s) == [i \in 1..Len(s) |-> s[Len(s) + 1 - i]]
Without(s, n) == LET p == Pos(s, n) IN SubSeq(s, 1, p - 1) \o SubSeq(s, p + 1, Len(s))
InsertAt(s, p, n) == SubSeq(s, 1, p - 1) \o <<n>> \o SubSeq(s, p, Len(s))     \* n becomes element p

LLInit == ll = << <<>>, <<>> >>

PushFront(k, n) == n \in Detached /\ ll' = Set2(ll, k, <<n>> \o ll[k])
PushBack(k, n) == n \in Detached /\ ll' = Set2(ll, k, Append(ll[k], n))
PopFront(k, n) == ll[k] # <<>> /\ n = Head(ll[k]) /\ ll' = Set2(ll, k, Tail(ll[k]))
PopBack(k, n) == ll[k] # <<>> /\ n = ll[k][Len(ll[k])] /\ ll' = Set2(ll, k, SubSeq(ll[k], 1, Len(ll[k]) - 1))
Front(k, n) == ll[k] # <<>> /\ n = Head(ll[k]) /\ UNCHANGED ll
Back(k, n) == ll[k] # <<>> /\ n = ll[k][Len(ll[k])] /\ UNCHANGED ll
InsertBefore(b, n) == /\ b \in Attached /\ n \in Detached
                      /\ LET k == ListOf(b) IN ll' = Set2(ll, k, InsertAt(ll[k], Pos(ll[k], b), n))
InsertAfter(a, n) == /\ a \in Attached /\ n \in Detached
                     /\ LET k == ListOf(a) IN ll' = Set2(ll, k, InsertAt(ll[k], Pos(ll[k], a) + 1, n))
Remove(n) == n \in Attached /\ LET k == ListOf(n) IN ll' = Set2(ll, k, Without(ll[k], n))
SwapNodes(a, b) == /\ a \in Attached /\ b \in Attached /\ ListOf(a) = ListOf(b)
                   /\ LET k == ListOf(a)
                          pa == Pos(ll[k], a)
                          pb == Pos(ll[k], b)
                      IN ll' = Set2(ll, k, [ll[k] EXCEPT ![pa] = b, ![pb] = a])
SwapContents == ll' = <<ll[2], ll[1]>>
MoveAllBack(dst) == ll' = [k \in Lists |-> IF k = dst THEN ll[dst] \o ll[Other(dst)] ELSE <<>>]
MoveAllFront(dst) == ll' = [k \in Lists |-> IF k = dst THEN ll[Other(dst)] \o ll[dst] ELSE <<>>]

-----------------------------------------------------------------------------
(* An observation of the real structure: for each list the forward walk (begin .. end following   *)
(* next), the backward walk (rbegin .. rend following prev), whether each walk ended at its own   *)
(* sentinel, aws_linked_list_empty; for every node next == NULL, prev == NULL and                 *)
(* aws_linked_list_node_is_in_list.  It is consistent with a state s iff ...                      *)
Consistent(o, s) ==
    /\ \A k \in Lists :
          /\ o.fwd[k] = s[k] /\ o.fok[k] = 1                       \* exact order
          /\ o.bwd[k] = Reverse(s[k]) /\ o.bok[k] = 1              \* mirror image
          /\ (o.emp[k] = 1) <=> (s[k] = <<>>)
    /\ \A n \in Nodes :
          IF n \in Range(s[1]) \cup Range(s[2])
          THEN o.nn[n] = 0 /\ o.pn[n] = 0 /\ o.inl[n] = 1
          ELSE o.nn[n] = 1 /\ o.pn[n] = 1 /\ o.inl[n] = 0          \* fully detached

NoDup == /\ InList(1) \cap InList(2) = {}
         /\ \A k \in Lists : Cardinality(InList(k)) = Len(ll[k])
=============================================================================
