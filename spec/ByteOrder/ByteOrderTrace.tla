---------------------------- MODULE ByteOrderTrace ----------------------------
EXTENDS ByteOrder, TraceCommon
VARIABLES l
Ev == TraceLog[l]
Chk(b) == b = TRUE
TReset == Ev.e = "Reset"
THton == Ev.e = "Hton" /\ Chk(Len(Ev.v) = Ev.w /\ Hton(Ev.v, Ev.img))
TNtoh == Ev.e = "Ntoh" /\ Chk(Len(Ev.img) = Ev.w /\ Ntoh(Ev.img, Ev.v))
TEndian == Ev.e = "Endian" /\ Chk(Endian(Ev.flag, Ev.probe))
TSecureZero == Ev.e = "SecureZero" /\ Chk(SecureZero(Ev.before, Ev.off, Ev.n, Ev.after))
TIsZeroed == Ev.e = "IsZeroed" /\ Chk(IsZeroed(Ev.buf, Ev.res))
TEnd == Ev.e = "End" /\ Ev.live = 0
TNext == l <= TraceLen /\ l' = l + 1 /\ (TReset \/ THton \/ TNtoh \/ TEndian \/ TSecureZero \/ TIsZeroed \/ TEnd)
TSpec == l = 1 /\ [][TNext]_l
=============================================================================
