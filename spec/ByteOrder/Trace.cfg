SPECIFICATION TSpec
POSTCONDITION TraceAccepted
CHECK_DEADLOCK FALSE
