SPECIFICATION MCSpec
CONSTANTS
  Bytes = {0, 1, 255}
  Variant = "ok"
INVARIANTS HtonOk NtohOk RoundTripOk EndianOk
CHECK_DEADLOCK FALSE
