SPECIFICATION MCSpec
CONSTANTS
  Bytes = {0, 1, 255}
  Variant = "never_swap"
INVARIANTS HtonOk NtohOk
CHECK_DEADLOCK FALSE
