----------------------------- MODULE ByteOrderMC -----------------------------
(* The library's algorithm (byte_order.inl: "return the argument on a big-endian host, else the byte-swapped         *)
(* argument", for both directions) on an abstract host of either order, for every value over a small byte alphabet:  *)
(* the definitions of ByteOrder.tla hold on both hosts.  Variant = "swap_on_big" / "never_swap" must be refuted.     *)
EXTENDS ByteOrder, TLC
CONSTANTS Bytes, Variant
VARIABLES host, v, done
mcvars == <<host, v, done>>
(* memory image of a value on a host *)
Image(h, val) == IF h = "big" THEN val ELSE Rev(val)
ValueOf(h, img) == IF h = "big" THEN img ELSE Rev(img)
Swaps(h) == CASE Variant = "ok" -> h = "little"
              [] Variant = "swap_on_big" -> h = "big"
              [] OTHER -> FALSE
ImplConv(h, val) == IF Swaps(h) THEN Rev(val) ELSE val          \* hton and ntoh are the same operation on values
MCInit == host \in {"big", "little"} /\ v = <<>> /\ done = FALSE
Extend == ~done /\ Len(v) < 8 /\ \E b \in Bytes : v' = Append(v, b) /\ UNCHANGED <<host, done>>
Convert == ~done /\ Len(v) \in Widths /\ done' = TRUE /\ UNCHANGED <<host, v>>
MCNext == Extend \/ Convert
MCSpec == MCInit /\ [][MCNext]_mcvars
HtonOk == done => Hton(v, Image(host, ImplConv(host, v)))
(* ntoh: the argument is the value whose image on this host is v (a network-order datum read from memory) *)
NtohOk == done => Ntoh(v, ImplConv(host, ValueOf(host, v)))
RoundTripOk == done => ImplConv(host, ImplConv(host, v)) = v
EndianOk == Endian(IF host = "big" THEN 1 ELSE 0, Image(host, <<1, 2>>))
=============================================================================
