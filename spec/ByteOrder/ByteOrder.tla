------------------------------ MODULE ByteOrder ------------------------------
(* X12 - byte order conversions (byte_order.h) and zeroing (zero.h).                                             *)
(* A value is the sequence of its bytes, most significant first; a memory image is the sequence of the bytes an    *)
(* object occupies, in address order.  "Network byte order" means: the memory image of the converted value IS the  *)
(* value's byte sequence - whatever the host's own order is:                                                       *)
(*   Hton(v, img)    img = memory image of aws_hton<w>(v)                      => img = v                           *)
(*   Ntoh(img, v)    v = value of aws_ntoh<w>(x) where x has memory image img  => v = img                           *)
(* (the float / double variants convert bit patterns: same statements over the 4 / 8 bytes of the pattern)         *)
(*   Endian(flag, probe)   probe = memory image of the 16-bit value 0x0102; flag = 1 exactly on a big-endian host  *)
(*   SecureZero(before, off, n, after)   exactly the n bytes from off are zero afterwards, every other byte is kept *)
(*   IsZeroed(buf, res)                  res = 1 iff every byte is zero (an empty buffer is zeroed)                 *)
EXTENDS Naturals, Sequences

Rev(s) == [i \in 1..Len(s) |-> s[Len(s) + 1 - i]]
Widths == {2, 4, 8}

Hton(v, img) == Len(v) \in Widths /\ img = v
Ntoh(img, v) == Len(img) \in Widths /\ v = img
Endian(flag, probe) == probe \in {<<1, 2>>, <<2, 1>>} /\ (flag = 1) = (probe = <<1, 2>>)
SecureZero(before, off, n, after) ==
    /\ off + n <= Len(before) /\ Len(after) = Len(before)
    /\ \A i \in 1..Len(before) : after[i] = IF i > off /\ i <= off + n THEN 0 ELSE before[i]
IsZeroed(buf, res) == (res = 1) = (\A i \in 1..Len(buf) : buf[i] = 0)
=============================================================================
