SPECIFICATION MCSpec
CONSTANTS
  Bytes = {0, 1, 255}
  Variant = "swap_on_big"
INVARIANTS HtonOk NtohOk
CHECK_DEADLOCK FALSE
