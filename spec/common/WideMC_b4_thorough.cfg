SPECIFICATION Spec
CONSTANTS WBase = 4
  Vals <- ValsSmall
  MulMax = 255
INVARIANTS RoundTrip AddOk SubOk MulOk LeOk MulLimbOk DivOk BitOk Pow2Ok
