------------------------------- MODULE WideMC -------------------------------
(* Wide.tla against TLC's native integer arithmetic: every pair (x, y) of Vals is a state and the *)
(* invariants compare each Wide operator with the native one.  WideMC_b4.cfg: base 4, all values   *)
(* 0..255 (four limbs, every carry/borrow pattern); WideMC_b15.cfg: base 2^15 on values around the *)
(* limb boundaries whose sums and products still fit a TLC integer.                                *)
EXTENDS Wide, TLC

CONSTANTS Vals, MulMax        \* MulMax: products are compared natively only when x*y cannot exceed 2^31-1
VARIABLES x, y

F(n) == WFromNat(n)
ValsSmall == 0..255
ValsQuick == 0..63
ValsLimb == {0, 1, 2, 3, 32766, 32767, 32768, 32769, 46339, 46340, 65535, 65536, 65537, 98303, 98304,
             1000000, 16777215, 16777216, 1073741823, 1073709056, 1073741824 - 32768, 536870912, 536870911}
Init == x \in Vals /\ y \in Vals          \* every pair is an initial state; the invariants do the work
Stay == UNCHANGED <<x, y>>
Next == Stay
Spec == Init /\ [][Next]_<<x, y>>

Pad(a) == a \o <<0, 0>>                       \* operators must accept non-normalised arguments
RoundTrip == WIsWide(F(x)) /\ WToNat(F(x)) = x /\ WNorm(Pad(F(x))) = F(x) /\ WEq(Pad(F(x)), F(x))
AddOk == WAdd(F(x), F(y)) = F(x + y) /\ WAdd(Pad(F(x)), F(y)) = F(x + y)
SubOk == x >= y => (WSub(F(x), F(y)) = F(x - y) /\ WSub(Pad(F(x)), Pad(F(y))) = F(x - y))
MulOk == (x <= MulMax /\ y <= MulMax) => (WMul(F(x), F(y)) = F(x * y) /\ WMul(Pad(F(x)), Pad(F(y))) = F(x * y))
LeOk == (WLe(F(x), F(y)) <=> x <= y) /\ (WLt(F(x), F(y)) <=> x < y) /\ (WLe(Pad(F(x)), F(y)) <=> x <= y)
MulLimbOk == \A d \in 0..(IF WBase <= 8 THEN WBase - 1 ELSE 0) : WMulLimb(F(x), d) = F(x * d)
DivOk == \A d \in {1, 2, 3, WBase - 1} :
            LET r == WDivSmall(F(x), d) IN r.q = F(x \div d) /\ r.r = x % d
BitOk == \A i \in 0..(IF WLB = 2 THEN 9 ELSE 30) : WBit(F(x), i) = (x \div 2 ^ i) % 2
Pow2Ok == \A k \in 0..(IF WLB = 2 THEN 9 ELSE 30) : WPow2(k) = F(2 ^ k) /\ (k >= 1 => WMaxBits(k) = F(2 ^ k - 1))
=============================================================================
