---------------------------- MODULE TraceCommon ----------------------------
(* Shared by every <S>Trace module: the recorded implementation trace (ndjson, one event per   *)
(* line, path in the environment variable TRACE) and the acceptance postcondition.             *)
(* Every trace action consumes exactly one line, so the diameter of the explored graph minus   *)
(* one is the length of the longest prefix of the trace that the specification can explain.    *)
EXTENDS Naturals, Sequences, TLC, Json, IOUtils

TraceLog == ndJsonDeserialize(IOEnv.TRACE)
TraceLen == Len(TraceLog)

TraceAccepted ==
    LET d == TLCGet("stats").diameter IN
    /\ PrintT(<<"TRACE-RESULT", d - 1, TraceLen>>)
    /\ d - 1 = TraceLen

Has(r, f) == f \in DOMAIN r
=============================================================================
