SPECIFICATION Spec
CONSTANTS WBase = 32768
  Vals <- ValsLimb
  MulMax = 46340
INVARIANTS RoundTrip AddOk SubOk MulOk LeOk MulLimbOk DivOk BitOk Pow2Ok
