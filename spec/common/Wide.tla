-------------------------------- MODULE Wide --------------------------------
(* Naturals wider than TLC's 32-bit integers (DESIGN 4.5): little-endian sequences of limbs in  *)
(* base WBase (2^15 for real traces: a product of two limbs plus a carry stays below 2^31).     *)
(* The empty sequence is zero; results are normalised (no most-significant zero limbs), inputs   *)
(* need not be.  No wide/wide division exists on purpose: where a property mentions a quotient   *)
(* the implementation's logged result q is checked by multiplication (q*d <= n < (q+1)*d).       *)
(* WDivSmall divides by a single limb only (needed for ceil(n/3), ceil(n/2)).                     *)
(* Boolean operators use IF (not a guarded disjunction): inside an action TLC explores both sides of *)
(* a disjunction.                                                                                *)
(* WideMC.tla model-checks every operator against native arithmetic (base 4 exhaustively, base   *)
(* 2^15 around the limb boundaries).                                                             *)
EXTENDS Naturals, Sequences

CONSTANT WBase     \* a power of two, 2 <= WBase <= 2^15

WLB == CHOOSE n \in 1..15 : 2 ^ n = WBase          \* bits per limb
WMaxOf(S) == CHOOSE x \in S : \A y \in S : y <= x
WLimb(a, i) == IF i >= 1 /\ i <= Len(a) THEN a[i] ELSE 0
WMaxLen(a, b) == IF Len(a) >= Len(b) THEN Len(a) ELSE Len(b)

WNorm(a) == LET nz == {i \in 1..Len(a) : a[i] # 0}
            IN IF nz = {} THEN <<>> ELSE SubSeq(a, 1, WMaxOf(nz))
WIsWide(a) == \A i \in 1..Len(a) : a[i] \in 0..(WBase - 1)
WZero == <<>>
WOne == <<1>>
WIsZero(a) == WNorm(a) = <<>>
WEq(a, b) == WNorm(a) = WNorm(b)

(* a <= b : at the most significant differing limb a's is smaller (or there is none) *)
WLe(a, b) == LET n == WMaxLen(a, b)
                 d == {i \in 1..n : WLimb(a, i) # WLimb(b, i)}
             IN IF d = {} THEN TRUE ELSE WLimb(a, WMaxOf(d)) < WLimb(b, WMaxOf(d))
WLt(a, b) == ~WLe(b, a)

WAdd(a, b) ==
    LET n == WMaxLen(a, b) + 1
        c[i \in 0..n] == IF i = 0 THEN 0 ELSE (WLimb(a, i) + WLimb(b, i) + c[i - 1]) \div WBase
    IN WNorm([i \in 1..n |-> (WLimb(a, i) + WLimb(b, i) + c[i - 1]) % WBase])

(* a - b, defined for b <= a only *)
WSub(a, b) ==
    LET n == WMaxLen(a, b)
        bw[i \in 0..n] == IF i = 0 THEN 0 ELSE IF WLimb(a, i) < WLimb(b, i) + bw[i - 1] THEN 1 ELSE 0
    IN WNorm([i \in 1..n |-> (WLimb(a, i) + WBase - WLimb(b, i) - bw[i - 1]) % WBase])

(* a * d for a single limb d *)
WMulLimb(a, d) ==
    LET n == Len(a) + 1
        c[i \in 0..n] == IF i = 0 THEN 0 ELSE (WLimb(a, i) * d + c[i - 1]) \div WBase
    IN WNorm([i \in 1..n |-> (WLimb(a, i) * d + c[i - 1]) % WBase])

WShift(a, k) == IF a = <<>> THEN <<>> ELSE [i \in 1..k |-> 0] \o a     \* a * WBase^k

WMul(a, b) ==
    LET acc[j \in 0..Len(b)] == IF j = 0 THEN <<>> ELSE WAdd(acc[j - 1], WShift(WMulLimb(a, b[j]), j - 1))
    IN acc[Len(b)]

(* floor(a / d) and a mod d for a single limb d >= 1 (schoolbook short division) *)
WDivSmall(a, d) ==
    LET n == Len(a)
        r[i \in 1..(n + 1)] == IF i = n + 1 THEN 0 ELSE (r[i + 1] * WBase + a[i]) % d
    IN [q |-> WNorm([i \in 1..n |-> (r[i + 1] * WBase + a[i]) \div d]), r |-> r[1]]

RECURSIVE WFromNat(_)
WFromNat(n) == IF n = 0 THEN <<>> ELSE <<n % WBase>> \o WFromNat(n \div WBase)
(* only for values that fit a TLC integer *)
WToNat(a) == LET s[i \in 0..Len(a)] == IF i = 0 THEN 0 ELSE s[i - 1] + a[i] * WBase ^ (i - 1) IN s[Len(a)]
WFitsNat(a) == Len(WNorm(a)) * WLB <= 30

WPow2(k) == [i \in 1..(k \div WLB + 1) |-> IF i = k \div WLB + 1 THEN 2 ^ (k % WLB) ELSE 0]
WMaxBits(k) == WSub(WPow2(k), WOne)                         \* 2^k - 1
WBit(a, i) == (WLimb(a, i \div WLB + 1) \div 2 ^ (i % WLB)) % 2
=============================================================================
