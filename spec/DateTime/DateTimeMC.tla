------------------------------ MODULE DateTimeMC ------------------------------
(* Model checking of DateTime.tla.                                                                    *)
(*  - calendar: `day` walks through every day of the years in Years (one initial state per year);      *)
(*    on every day the arithmetic CivilFromDays / DaysFromCivil are compared with the defining rules of   *)
(*    the proleptic Gregorian calendar: they are inverse, the fields are in range, the next day is the    *)
(*    successor by month length and leap rule (so, by induction from 1970-01-01, every date is right),    *)
(*    the library's own formats are instances of the general rendering, and local fields with an offset    *)
(*    denote the instant they were derived from.                                                          *)
(*  - actions: on sampled days the call actions of DateTime.tla are taken with the report a correct        *)
(*    implementation gives (Init, Format in every format, ParseBack with the explicit format and with      *)
(*    auto-detection, ParseText with designators / offsets / fractions).                                   *)
(* Gen.cfg: the boundary instants (first / last second of every month, leap days, extremes) are printed    *)
(* as scripts for the harness.                                                                            *)
EXTENDS DateTime, TLC, Json

CONSTANTS Years, SampleEvery, GenMode, GenDense, GenSparse
VARIABLES day, pick
mcvars == <<cur, last, day, pick>>

YearsQuick == (1970..1976) \cup (1996..2004) \cup (2036..2040) \cup (2096..2104) \cup (2196..2204) \cup (2396..2404) \cup {2553, 2554, 2555}
              \cup {3999, 4000, 4001, 7999, 8000, 8001} \cup (9990..9999)
YearsAll == 1970..9999
YearsA == 1970..3999
YearsB == 4000..6999
YearsC == 7000..9999
DenseYears == 1970..2400
SparseYears == {y \in 2401..9999 : y % 100 = 0} \cup {9996, 9999}

NoPick == [kind |-> "", d |-> 0, s |-> 0]
MCInit == /\ DInit /\ pick = NoPick
          /\ IF GenMode THEN day = 0 ELSE day \in {DaysFromCivil(y, 1, 1) : y \in Years}

Step == /\ ~GenMode /\ ~cur.has /\ day < MaxDay
        /\ CivilFromDays(day + 1).y = CivilFromDays(day).y
        /\ day' = day + 1 /\ UNCHANGED <<cur, last, pick>>

(* the report of a correct implementation *)
IdealObs(d, s, ms) ==
    LET c == CivilFromDays(d)
        fits == d <= NanoDays
    IN [td |-> d, ts |-> s, y |-> c.y, mo |-> c.m - 1, md |-> c.d, h |-> s \div 3600, mi |-> (s % 3600) \div 60, se |-> s % 60,
        wd |-> Weekday(d), esd |-> d, ess |-> s, esms |-> ms, emd |-> d, emms |-> s * 1000 + ms,
        end |-> IF fits THEN d ELSE 0, ens |-> IF fits THEN s ELSE 0, enn |-> IF fits THEN ms * 1000000 ELSE 0]
Sampled == ~GenMode /\ day % SampleEvery = 0
DoInit == /\ Sampled /\ ~cur.has
          /\ \E t \in {<<0, 0>>, <<86399, 999>>, <<45296, 7>>} : Init(day, t[1], t[2], IdealObs(day, t[1], t[2]))
          /\ UNCHANGED <<day, pick>>
DoFormat == /\ cur.has /\ ~last.has
            /\ \E f \in Formats, sh \in BOOLEAN :
                  Format(f, sh, 100, <<80>>, 0, <<80>> \o FmtText(cur.d, cur.s, f, sh))
            /\ UNCHANGED <<day, pick>>
DoParseBack == /\ last.has /\ cur.ms # 0
               /\ \E fa \in {last.fmt, "auto"} :
                     ParseBack(fa, last.text, 0, IdealObs(cur.d, IF last.short THEN 0 ELSE cur.s, 0))
               /\ UNCHANGED <<day, pick>>

(* fields of the instant (d, s) as seen at offset sign * (zh:zm) *)
FieldsAt(d, s, style, sign, zh, zm, zlit, fsep, frac) ==
    LET s1 == s + sign * (zh * 3600 + zm * 60)
        dd == d + s1 \div 86400
        sl == s1 % 86400
        c == CivilFromDays(dd)
    IN [style |-> style, dateonly |-> 0, Y |-> c.y, M |-> c.m, D |-> c.d, hh |-> sl \div 3600, mm |-> (sl % 3600) \div 60, ss |-> sl % 60,
        fsep |-> fsep, frac |-> frac, zlit |-> zlit, zsign |-> sign, zh |-> zh, zm |-> zm,
        zcolon |-> IF sign # 0 /\ style = "iso" THEN 1 ELSE 0, nowd |-> 0]
Variants == {<<"rfc822", 0, 0, 0, <<103, 109, 116>>, 0, <<>>>>, <<"rfc822", 0, 0, 0, <<85, 116>>, 0, <<>>>>,
             <<"rfc822", 1, 5, 30, <<>>, 0, <<>>>>, <<"rfc822", -1, 11, 0, <<>>, 0, <<>>>>,
             <<"iso", 0, 0, 0, <<122>>, 46, <<49, 50, 51, 52>>>>, <<"iso", 1, 14, 0, <<>>, 0, <<>>>>, <<"iso", -1, 0, 45, <<>>, 44, <<53>>>>,
             <<"isobasic", 0, 0, 0, <<90>>, 0, <<>>>>, <<"isobasic", -1, 9, 30, <<>>, 46, <<57, 57, 57>>>>, <<"isobasic", 1, 23, 59, <<>>, 0, <<>>>>}
DoParseText ==
    /\ Sampled /\ ~cur.has /\ day >= 2 /\ day < MaxDay - 2
    /\ \E v \in Variants, s \in {0, 86399, 45296} :
          LET a == FieldsAt(day, s, v[1], v[2], v[3], v[4], v[5], v[6], v[7])
          IN \E fa \in {IF v[1] = "isobasic" THEN "iso" ELSE v[1], "auto"}, nw \in (IF v[1] = "rfc822" THEN {0, 1} ELSE {0}) :
                LET b == [a EXCEPT !.nowd = nw] IN               \* RFC 822: with and without the optional week day
                ParseText(fa, b, Render(b), 0, IdealObs(day, s, 0))
    /\ UNCHANGED <<day, pick>>

(* generation: boundary instants *)
GenYears == GenDense \cup GenSparse
PickMonthFirst == /\ GenMode /\ pick = NoPick
                  /\ \E y \in GenYears, m \in 1..12 : pick' = [kind |-> "first", d |-> DaysFromCivil(y, m, 1), s |-> 0]
                  /\ UNCHANGED <<cur, last, day>>
PickMonthLast == /\ GenMode /\ pick = NoPick
                 /\ \E y \in GenYears, m \in 1..12 : pick' = [kind |-> "last", d |-> DaysFromCivil(y, m, DaysInMonth(y, m)), s |-> 86399]
                 /\ UNCHANGED <<cur, last, day>>
PickLeapDay == /\ GenMode /\ pick = NoPick
               /\ \E y \in {yy \in GenYears \cup {yy \in 1970..9999 : yy % 100 = 0} : IsLeap(yy)}, s \in {0, 86399} :
                     pick' = [kind |-> "leap", d |-> DaysFromCivil(y, 2, 29), s |-> s]
               /\ UNCHANGED <<cur, last, day>>
PickExtreme == /\ GenMode /\ pick = NoPick
               /\ \E e \in {<<0, 0>>, <<0, 1>>, <<MaxDay, 86399>>, <<MaxDay, 86398>>, <<NanoDays, 86399>>, <<NanoDays + 1, 0>>,
                            <<24855, 11647>>, <<24855, 11648>>, <<49710, 23295>>, <<49710, 23296>>} :      \* 2^31, 2^32 seconds
                     pick' = [kind |-> "extreme", d |-> e[1], s |-> e[2]]
               /\ UNCHANGED <<cur, last, day>>

MCNext == Step \/ DoInit \/ DoFormat \/ DoParseBack \/ DoParseText \/ PickMonthFirst \/ PickMonthLast \/ PickLeapDay \/ PickExtreme
MCSpec == MCInit /\ [][MCNext]_mcvars

-----------------------------------------------------------------------------
Civ == CivilFromDays(day)
InvInverse == DaysFromCivil(Civ.y, Civ.m, Civ.d) = day
InvRanges == Civ.y \in 1970..9999 /\ Civ.m \in 1..12 /\ Civ.d >= 1 /\ Civ.d <= DaysInMonth(Civ.y, Civ.m)
NextDay(c) == IF c.d < DaysInMonth(c.y, c.m) THEN [c EXCEPT !.d = c.d + 1]
              ELSE IF c.m < 12 THEN [y |-> c.y, m |-> c.m + 1, d |-> 1] ELSE [y |-> c.y + 1, m |-> 1, d |-> 1]
InvSuccessor == day < MaxDay => (CivilFromDays(day + 1) = NextDay(Civ) /\ Weekday(day + 1) = (Weekday(day) + 1) % 7)
InvAnchor == /\ (day = 0 => (Civ = [y |-> 1970, m |-> 1, d |-> 1] /\ Weekday(day) = 4))
             /\ (day = MaxDay => Civ = [y |-> 9999, m |-> 12, d |-> 31])
             /\ (Civ.m = 1 /\ Civ.d = 1 => day = 365 * (Civ.y - 1970) + ((Civ.y - 1969) \div 4) - ((Civ.y - 1901) \div 100) + ((Civ.y - 1601) \div 400))
(* the library's formats are the general rendering with the designators GMT / Z, and have the documented lengths *)
InvFormat ==
    \A s \in {0, 86399, 45296} : \A f \in Formats :
        LET a == FieldsAt(day, s, f, 0, 0, 0, IF f = "rfc822" THEN GMT ELSE <<90>>, 0, <<>>)
        IN /\ FieldsOK(a) /\ FmtText(day, s, f, FALSE) = Render(a) /\ InstantOf(a) = [d |-> day, s |-> s]
           /\ (f # "rfc822" => FmtText(day, s, f, TRUE) = Render([a EXCEPT !.dateonly = 1, !.hh = 0, !.mm = 0, !.ss = 0, !.zlit = <<>>]))
           /\ Len(FmtText(day, s, f, FALSE)) = (IF f = "rfc822" THEN 29 ELSE IF f = "iso" THEN 20 ELSE 16)
           /\ Len(FmtText(day, s, f, TRUE)) = (IF f = "rfc822" THEN 16 ELSE IF f = "iso" THEN 10 ELSE 8)
(* local fields at an offset denote the instant they were derived from *)
InvOffsets ==
    (day >= 2 /\ day < MaxDay - 2) =>
    \A s \in {0, 86399, 45296} : \A sign \in {1, -1} : \A hm \in {<<0, 0>>, <<0, 1>>, <<1, 30>>, <<12, 0>>, <<14, 0>>, <<23, 59>>} :
        LET a == FieldsAt(day, s, "iso", sign, hm[1], hm[2], <<>>, 0, <<>>)
        IN FieldsOK(a) /\ InstantOf(a) = [d |-> day, s |-> s]

Emit == (GenMode /\ pick # NoPick) => PrintT(<<"SCRIPT", ToJson(pick)>>)
=============================================================================
