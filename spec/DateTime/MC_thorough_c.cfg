SPECIFICATION MCSpec
CONSTANTS
  Years <- YearsC
  SampleEvery = 997
  GenMode = FALSE
  GenDense <- DenseYears
  GenSparse <- SparseYears
INVARIANTS InvInverse InvRanges InvSuccessor InvAnchor InvFormat InvOffsets
CHECK_DEADLOCK FALSE
