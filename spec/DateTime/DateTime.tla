------------------------------- MODULE DateTime -------------------------------
(* C19: date-time formatting, parsing and calendar accessors (source/date_time.c, date_time.h).     *)
(*                                                                                                  *)
(* An instant is (d, s, ms): days since 1970-01-01, second of the day, millisecond.  A count of      *)
(* seconds up to year 9999 does not fit TLC's integers, so nothing here ever multiplies a day        *)
(* number by 86400; the adapter projects the library's 64-bit values with fixed mixed-radix splits.   *)
(* The calendar is the proleptic Gregorian one, written arithmetically (CivilFromDays /              *)
(* DaysFromCivil) and checked in DateTimeMC.tla against the defining rules (leap years, month         *)
(* lengths, day after day).  FmtText gives the text the library must produce for each format;        *)
(* Render gives the text of a date-time written by somebody else (zone designators, numeric           *)
(* offsets, fractional seconds) from its fields, and InstantOf the instant such fields denote.        *)
(* The actions relate one public call, what it reported and the abstract state.                       *)
EXTENDS Integers, Sequences

VARIABLES cur,     \* the date-time object: [has |-> FALSE] or the instant it holds
          last     \* the text the last successful formatting call produced, with its format
dvars == <<cur, last>>
NoCur == [has |-> FALSE, d |-> 0, s |-> 0, ms |-> 0]
NoLast == [has |-> FALSE, fmt |-> "", short |-> FALSE, text |-> <<>>]
DInit == cur = NoCur /\ last = NoLast
Chk(b) == b = TRUE      \* evaluate as a plain expression (TLC would split an action-level disjunction into branches)

MaxDay == 2932896                      \* 9999-12-31
NanoDays == 213502                     \* up to this day every instant's nanosecond count fits 64 bits

-----------------------------------------------------------------------------
(* proleptic Gregorian calendar, days >= 0 *)
CivilFromDays(days) ==
    LET z == days + 719468
        era == z \div 146097
        doe == z - era * 146097
        yoe == (doe - doe \div 1460 + doe \div 36524 - doe \div 146096) \div 365
        doy == doe - (365 * yoe + yoe \div 4 - yoe \div 100)
        mp == (5 * doy + 2) \div 153
        m == IF mp < 10 THEN mp + 3 ELSE mp - 9
    IN [y |-> yoe + era * 400 + (IF m <= 2 THEN 1 ELSE 0), m |-> m, d |-> doy - (153 * mp + 2) \div 5 + 1]
DaysFromCivil(y, m, d) ==
    LET yy == IF m <= 2 THEN y - 1 ELSE y
        era == yy \div 400
        yoe == yy - era * 400
        doy == (153 * (IF m > 2 THEN m - 3 ELSE m + 9) + 2) \div 5 + d - 1
        doe == yoe * 365 + yoe \div 4 - yoe \div 100 + doy
    IN era * 146097 + doe - 719468
Weekday(days) == (days + 4) % 7                  \* 0 = Sunday; 1970-01-01 was a Thursday

IsLeap(y) == IF y % 400 = 0 THEN TRUE ELSE IF y % 100 = 0 THEN FALSE ELSE y % 4 = 0
DaysInMonth(y, m) == IF m = 2 THEN (IF IsLeap(y) THEN 29 ELSE 28) ELSE IF m \in {4, 6, 9, 11} THEN 30 ELSE 31

-----------------------------------------------------------------------------
(* text pieces (character codes) *)
Dig2(n) == <<48 + ((n \div 10) % 10), 48 + (n % 10)>>
Dig4(n) == <<48 + ((n \div 1000) % 10), 48 + ((n \div 100) % 10), 48 + ((n \div 10) % 10), 48 + (n % 10)>>
DayNames == << <<83, 117, 110>>, <<77, 111, 110>>, <<84, 117, 101>>, <<87, 101, 100>>, <<84, 104, 117>>, <<70, 114, 105>>, <<83, 97, 116>> >>
MonNames == << <<74, 97, 110>>, <<70, 101, 98>>, <<77, 97, 114>>, <<65, 112, 114>>, <<77, 97, 121>>, <<74, 117, 110>>,
               <<74, 117, 108>>, <<65, 117, 103>>, <<83, 101, 112>>, <<79, 99, 116>>, <<78, 111, 118>>, <<68, 101, 99>> >>
GMT == <<71, 77, 84>>
Formats == {"rfc822", "iso", "isobasic"}

(* date and time of day written in one of the three styles; zone = the text after the seconds *)
DateText(style, y, m, d) ==
    CASE style = "rfc822" -> DayNames[Weekday(DaysFromCivil(y, m, d)) + 1] \o <<44, 32>> \o Dig2(d) \o <<32>> \o MonNames[m] \o <<32>> \o Dig4(y)
      [] style = "iso" -> Dig4(y) \o <<45>> \o Dig2(m) \o <<45>> \o Dig2(d)
      [] style = "isobasic" -> Dig4(y) \o Dig2(m) \o Dig2(d)
TimeText(style, hh, mm, ss) ==
    CASE style = "rfc822" -> <<32>> \o Dig2(hh) \o <<58>> \o Dig2(mm) \o <<58>> \o Dig2(ss)
      [] style = "iso" -> <<84>> \o Dig2(hh) \o <<58>> \o Dig2(mm) \o <<58>> \o Dig2(ss)
      [] style = "isobasic" -> <<84>> \o Dig2(hh) \o Dig2(mm) \o Dig2(ss)

(* what aws_date_time_to_utc_time_str / _short_str write for the instant (d, s) *)
FmtText(d, s, fmt, short) ==
    LET c == CivilFromDays(d)
    IN DateText(fmt, c.y, c.m, c.d) \o
       (IF short THEN <<>>
        ELSE TimeText(fmt, s \div 3600, (s % 3600) \div 60, s % 60) \o (IF fmt = "rfc822" THEN <<32>> \o GMT ELSE <<90>>))

-----------------------------------------------------------------------------
(* a date-time written by somebody else: a = [style, dateonly, Y, M, D, hh, mm, ss, fsep, frac, zlit, zsign, zh, zm, zcolon]    *)
(*   zone: either a designator zlit (Z / UT / UTC / GMT in any case for RFC 822; Z or z for ISO 8601) or a numeric offset      *)
(*   zsign (+1 / -1) zh zm, written +hhmm (RFC 822, ISO basic) or +hh:mm (ISO extended, zcolon = 1);                          *)
(*   ISO 8601 texts may carry a fraction of a second: fsep ('.' or ',') and one or more digits frac.                          *)
Upper(ch) == IF ch >= 97 /\ ch <= 122 THEN ch - 32 ELSE ch
UpperSeq(t) == [i \in 1..Len(t) |-> Upper(t[i])]
ZoneOK(a) ==
    IF a.zsign = 0
    THEN IF a.style = "rfc822" THEN UpperSeq(a.zlit) \in {<<90>>, <<85, 84>>, <<85, 84, 67>>, GMT} ELSE UpperSeq(a.zlit) = <<90>>
    ELSE /\ a.zlit = <<>> /\ a.zsign \in {1, -1} /\ a.zh \in 0..23 /\ a.zm \in 0..59
         /\ a.zcolon = (IF a.style = "iso" THEN 1 ELSE 0)
FieldsOK(a) ==
    /\ a.style \in Formats /\ a.Y \in 1969..9999 /\ a.M \in 1..12 /\ a.D >= 1 /\ a.D <= DaysInMonth(a.Y, a.M)
    /\ a.hh \in 0..23 /\ a.mm \in 0..59 /\ a.ss \in 0..59
    /\ a.nowd \in {0, 1} /\ (a.nowd = 1 => a.style = "rfc822")
    /\ IF a.dateonly = 1
       THEN a.style # "rfc822" /\ a.hh = 0 /\ a.mm = 0 /\ a.ss = 0 /\ a.fsep = 0 /\ a.frac = <<>> /\ a.zlit = <<>> /\ a.zsign = 0
       ELSE /\ ZoneOK(a)
            /\ IF a.fsep = 0 THEN a.frac = <<>>
               ELSE a.style # "rfc822" /\ a.fsep \in {46, 44} /\ a.frac # <<>> /\ \A i \in 1..Len(a.frac) : a.frac[i] >= 48 /\ a.frac[i] <= 57
ZoneText(a) == IF a.zsign = 0 THEN a.zlit
               ELSE <<IF a.zsign = 1 THEN 43 ELSE 45>> \o Dig2(a.zh) \o (IF a.zcolon = 1 THEN <<58>> ELSE <<>>) \o Dig2(a.zm)
(* RFC 822 makes the week day optional: nowd = 1 renders "12 Oct 2000 ..." instead of "Thu, 12 Oct 2000 ..." *)
DateTextOf(a) == LET t == DateText(a.style, a.Y, a.M, a.D) IN IF a.nowd = 1 THEN SubSeq(t, 6, Len(t)) ELSE t
Render(a) ==
    DateTextOf(a) \o
    (IF a.dateonly = 1 THEN <<>>
     ELSE TimeText(a.style, a.hh, a.mm, a.ss) \o (IF a.fsep = 0 THEN <<>> ELSE <<a.fsep>> \o a.frac)
          \o (IF a.style = "rfc822" THEN <<32>> ELSE <<>>) \o ZoneText(a))
(* the instant the fields denote: local fields minus the offset *)
InstantOf(a) ==
    LET s1 == a.hh * 3600 + a.mm * 60 + a.ss - a.zsign * (a.zh * 3600 + a.zm * 60)
    IN [d |-> DaysFromCivil(a.Y, a.M, a.D) + s1 \div 86400, s |-> s1 % 86400]
(* the first three digits of the fraction, as milliseconds *)
FracMs(a) == LET g(i) == IF i <= Len(a.frac) THEN a.frac[i] - 48 ELSE 0 IN g(1) * 100 + g(2) * 10 + g(3)

(* which parse argument must understand which style: the explicit format or auto-detection; date_time.h documents  *)
(* that the two ISO 8601 arguments accept both ISO 8601 forms                                                      *)
Understands(fmtArg, style) == IF fmtArg = "auto" THEN TRUE ELSE IF fmtArg = "rfc822" THEN style = "rfc822" ELSE style # "rfc822"

-----------------------------------------------------------------------------
(* everything the accessors report (obs) for a date-time that holds the instant (d, s, ms):                        *)
(*   td ts: timestamp; y mo md h mi se wd: calendar accessors in UTC (month 0-based, weekday 0 = Sunday);           *)
(*   esd ess esms: as_epoch_secs; emd emms: as_millis; end ens enn: as_nanos (where 64 bits can hold it)             *)
ObsIs(o, d, s, ms) ==
    LET c == CivilFromDays(d)
    IN /\ o.td = d /\ o.ts = s
       /\ o.y = c.y /\ o.mo = c.m - 1 /\ o.md = c.d /\ o.h = s \div 3600 /\ o.mi = (s % 3600) \div 60 /\ o.se = s % 60
       /\ o.wd = Weekday(d)
       /\ o.esd = d /\ o.ess = s /\ o.esms = ms
       /\ o.emd = d /\ o.emms = s * 1000 + ms
       /\ (IF d <= NanoDays THEN o.end = d /\ o.ens = s /\ o.enn = ms * 1000000 ELSE TRUE)
InRange(d, s, ms) == d \in 0..MaxDay /\ s \in 0..86399 /\ ms \in 0..999

(* aws_date_time_init_epoch_millis / _secs *)
Init(d, s, ms, obs) ==
    /\ Chk(InRange(d, s, ms))
    /\ Chk(ObsIs(obs, d, s, ms))
    /\ cur' = [has |-> TRUE, d |-> d, s |-> s, ms |-> ms] /\ last' = NoLast

(* aws_date_time_init_epoch_secs with a double finer than the millisecond grid: d, s and us microseconds.  How the       *)
(* fraction is cut to milliseconds is not documented (down or to the nearest), so the instant the three epoch views show  *)
(* may be either neighbour on the millisecond grid - but they must show the SAME instant, within a millisecond of the      *)
(* input.  The calendar accessors at such an instant are left open, and nothing is formatted from it (cur stays empty).    *)
InitU(d, s, us, o) ==
    /\ Chk(InRange(d, s, 0) /\ s < 86399 /\ us \in 0..999999)
    /\ LET fl == s * 1000 + us \div 1000
       IN /\ Chk(o.emd = d /\ o.emms \in {fl, fl + 1})
          /\ Chk(o.esd = d /\ o.ess * 1000 + o.esms = o.emms)
          /\ Chk(d <= NanoDays => (o.end = d /\ o.ens * 1000 + o.enn \div 1000000 = o.emms /\ o.enn % 1000000 = 0))
    /\ cur' = NoCur /\ last' = NoLast

(* aws_date_time_to_utc_time_str / _short_str into a buffer of capacity cap that already holds pre.  "If buffer is  *)
(* too small, it will return AWS_OP_ERR": whether room for a terminating NUL is required is not stated.             *)
Format(fmt, short, cap, pre, rc, out) ==
    /\ cur.has /\ fmt \in Formats
    /\ LET want == FmtText(cur.d, cur.s, fmt, short)
           room == cap - Len(pre)
       IN /\ Chk(IF room > Len(want) THEN rc = 0 ELSE IF room < Len(want) THEN rc # 0 ELSE TRUE)
          /\ Chk(rc = 0 => out = pre \o want)
          /\ last' = IF rc = 0 THEN [has |-> TRUE, fmt |-> fmt, short |-> short, text |-> want] ELSE NoLast
    /\ UNCHANGED cur

(* aws_date_time_init_from_str on the text the last formatting call produced: the same instant to the format's      *)
(* resolution (seconds; days for the date-only forms)                                                               *)
ParseBack(fmtArg, text, rc, obs) ==
    /\ cur.has /\ last.has
    /\ Chk(text = last.text /\ Understands(fmtArg, last.fmt))
    /\ LET s == IF last.short THEN 0 ELSE cur.s
       IN /\ Chk(rc = 0 /\ ObsIs(obs, cur.d, s, 0))
          /\ cur' = [has |-> TRUE, d |-> cur.d, s |-> s, ms |-> 0]
    /\ UNCHANGED last

(* aws_date_time_init_from_str on a text rendered from the fields a *)
ParseText(fmtArg, a, text, rc, obs) ==
    /\ Chk(FieldsOK(a) /\ text = Render(a) /\ Understands(fmtArg, a.style))
    /\ LET i == InstantOf(a)
       IN /\ Chk(InRange(i.d, i.s, 0))                                        \* driver obligation: stays inside 1970..9999
          /\ Chk(rc = 0)
          /\ Chk(IF ObsIs(obs, i.d, i.s, 0) THEN TRUE ELSE ObsIs(obs, i.d, i.s, FracMs(a)))   \* the fraction may be dropped
          /\ cur' = [has |-> TRUE, d |-> i.d, s |-> i.s, ms |-> obs.esms]
    /\ last' = NoLast
=============================================================================
