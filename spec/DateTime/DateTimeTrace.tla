----------------------------- MODULE DateTimeTrace -----------------------------
(* Trace validation for C19.  Every call recorded by harness/datetime_adapter.c is one event and must  *)
(* be an instance of the corresponding action of DateTime.tla with exactly the logged arguments and     *)
(* results; the event itself carries the accessor report (fields td .. enn).  ParseText events carry    *)
(* the fields the driver rendered the text from: the specification re-renders them, refuses the event   *)
(* if the text differs, and derives the expected instant from the fields.                               *)
EXTENDS DateTime, TraceCommon

VARIABLES l
Ev == TraceLog[l]

(* deviations of known findings (DESIGN 3.3) are enabled from the environment by checks/c19.py, which reads
   known_findings.txt; with nothing enabled this is the strict specification *)
DevOn(name) == ("VERIF_DEV_" \o name) \in DOMAIN IOEnv

AnnOf(e) == [style |-> e.style, dateonly |-> e.dateonly, Y |-> e.Y, M |-> e.M, D |-> e.D, hh |-> e.hh, mm |-> e.mm, ss |-> e.ss,
             fsep |-> e.fsep, frac |-> e.frac, zlit |-> e.zlit, zsign |-> e.zsign, zh |-> e.zh, zm |-> e.zm, zcolon |-> e.zcolon, nowd |-> e.nowd]

TInitEv == Ev.e = "Init" /\ Ev.how \in {"millis", "secs"} /\ Init(Ev.d, Ev.s, Ev.ms, Ev)
TInitU == Ev.e = "InitU" /\ InitU(Ev.d, Ev.s, Ev.us, Ev)
TFormat == Ev.e = "Format" /\ Format(Ev.fmt, Ev.short = 1, Ev.cap, Ev.pre, Ev.rc, Ev.out)
TParseLast == Ev.e = "ParseLast" /\ ParseBack(Ev.fmt, Ev.text, Ev.rc, Ev)
TParseText == Ev.e = "ParseText" /\ ParseText(Ev.fmt, AnnOf(Ev), Ev.text, Ev.rc, Ev)
(* the calendar accessors are compared in UTC and the local-time branch is only exercised with TZ=UTC *)
TReset == Ev.e = "Reset" /\ cur' = NoCur   \* (Ev.tz: the zone of the process, which nothing judged here may depend on)
          /\ last' = NoLast
TEnd == Ev.e = "End" /\ Ev.live = 0 /\ UNCHANGED dvars

-----------------------------------------------------------------------------
(* Known finding "Rfc822DateOnly": the RFC 822 date-only text written by aws_date_time_to_utc_time_short_str       *)
(* ("Thu, 01 Jan 1970") is refused by the parser (s_parse_rfc_822 requires the time and zone fields).  The          *)
(* deviation explains only a refused parse of exactly such a text; the object then holds nothing.                  *)
Dev_Rfc822DateOnly ==
    /\ DevOn("Rfc822DateOnly")
    /\ Ev.e = "ParseLast" /\ Ev.rc # 0
    /\ last.has /\ last.fmt = "rfc822" /\ last.short
    /\ Chk(Ev.text = last.text /\ Understands(Ev.fmt, last.fmt))
    /\ PrintT(<<"FIRED", "Rfc822DateOnly", Ev.fmt>>)
    /\ cur' = NoCur /\ UNCHANGED last

TNext == /\ l <= TraceLen /\ l' = l + 1
         /\ \/ TReset \/ TInitEv \/ TInitU \/ TFormat \/ TParseLast \/ TParseText \/ TEnd \/ Dev_Rfc822DateOnly
TInit == l = 1 /\ DInit
TSpec == TInit /\ [][TNext]_<<l, cur, last>>
=============================================================================
