SPECIFICATION MCSpec
CONSTANTS
  Years <- YearsQuick
  SampleEvery = 61
  GenMode = TRUE
  GenDense <- DenseYears
  GenSparse <- SparseYears
INVARIANT Emit
CHECK_DEADLOCK FALSE
