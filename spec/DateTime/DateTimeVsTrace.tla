-------------------------- MODULE DateTimeVsTrace --------------------------
(* Round trips performed by several threads at once, each on date-time objects of its own        *)
(* (harness/datetime_scenario.c under the controlled scheduler).  The API is stateless, so every  *)
(* event is judged on its own with the definitions of DateTime.tla: the text is the one the       *)
(* format prescribes for the instant and parsing it gives the instant back, to the format's       *)
(* resolution - whatever the other threads are doing.                                             *)
EXTENDS DateTime, TraceCommon
VARIABLES l
Ev == TraceLog[l]

TRT == /\ Ev.e = "RT"
       /\ Chk(InRange(Ev.d, Ev.s, 0) /\ Ev.fmt \in Formats /\ Understands(Ev.pfmt, Ev.fmt))     \* driver obligations
       /\ Chk(~(Ev.fmt = "rfc822" /\ Ev.short = 1))                        \* (no text to parse back: known finding F13)
       /\ Chk(Ev.rcf = 0 /\ Ev.text = FmtText(Ev.d, Ev.s, Ev.fmt, Ev.short = 1))
       /\ Chk(Ev.rcp = 0 /\ Ev.pd = Ev.d /\ Ev.ps = (IF Ev.short = 1 THEN 0 ELSE Ev.s))
       /\ UNCHANGED dvars
TReset == Ev.e = "Reset" /\ UNCHANGED dvars
TEnd == Ev.e = "End" /\ Ev.live = 0 /\ Ev.unjoined = 0 /\ UNCHANGED dvars
TNext == l <= TraceLen /\ l' = l + 1 /\ (TRT \/ TReset \/ TEnd)
TSpec == (l = 1 /\ DInit) /\ [][TNext]_<<l, cur, last>>
=============================================================================
