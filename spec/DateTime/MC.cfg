SPECIFICATION MCSpec
CONSTANTS
  Years <- YearsQuick
  SampleEvery = 61
  GenMode = FALSE
  GenDense <- DenseYears
  GenSparse <- SparseYears
INVARIANTS InvInverse InvRanges InvSuccessor InvAnchor InvFormat InvOffsets
CHECK_DEADLOCK FALSE
