SPECIFICATION MCSpec
CONSTANTS BufIds = {1, 2, 3}
  CurIds = {1, 2, 3, 4}
  Bytes = {0, 32, 49, 59, 65, 97}
  MaxCap = 6
  Src <- SrcGen
  GenDepth = 30
  MaxDepth = 100
  PureOn = TRUE
INVARIANT Emit
