SPECIFICATION TSpec
CONSTANTS BufIds = {1, 2, 3}
  CurIds = {1, 2, 3, 4}
  EnabledDeviations = {"NospecHalfClobber"}
INVARIANT TraceInv
POSTCONDITION TraceAccepted
CHECK_DEADLOCK FALSE
