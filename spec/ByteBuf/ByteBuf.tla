------------------------------- MODULE ByteBuf -------------------------------
(* aws_byte_buf / aws_byte_cursor as property C01 states them.                                     *)
(*   bufs[b] = [alive, cap, data]   data = the bytes at positions [0,len); len = Len(data).        *)
(*             Bytes in [len,cap) are unspecified and never appear in the model.                   *)
(*             ~alive = the zeroed struct (allocator NULL, buffer NULL, cap 0, len 0).             *)
(*   curs[c] = [base, off, len]     a view: base = buffer id | NULLB (ptr NULL) | SRCB (constant   *)
(*             source array) | ONEB (a valid 1-byte object carrying a huge length: must never be   *)
(*             dereferenced) | STALE (the storage it pointed into was released, re-allocated or    *)
(*             truncated: the environment may not use it any more).                                *)
(* Sizes: the model's size_t has SIZE_MAX = MAXS = 2*HALF+1. Real sizes are mapped by the adapter  *)
(* n -> n (n < 2^16), (SIZE_MAX>>1)+d -> HALF+d, SIZE_MAX-d -> MAXS-d. The map preserves order and *)
(* checked addition for every computation the calls perform on such arguments (DESIGN 4.5).        *)
(* Each action is a relation between pre-state, arguments, reported results and post-state.        *)
(* Clauses of the property carried by the actions:                                                 *)
(*   - len <= cap always (LenLeCap); bytes [0,len) only change by the operation's own effect;      *)
(*   - an operation that reports failure leaves bufs and curs unchanged (except Cat / SplitOnCharN *)
(*     which may stop part-way);                                                                   *)
(*   - growth keeps the contents, new capacity is only constrained to be >= what was required.     *)
EXTENDS Naturals, Integers, Sequences, FiniteSets

CONSTANTS BufIds, CurIds      \* small positive integers
VARIABLES bufs, curs, src
bbvars == <<bufs, curs, src>>

HALF == 1000000
MAXS == 2000001
NULLB == 0
SRCB == -1
ONEB == -2
STALE == -3

DeadBuf == [alive |-> FALSE, cap |-> 0, data |-> <<>>]
NullCur == [base |-> NULLB, off |-> 0, len |-> 0]
StaleCur == [base |-> STALE, off |-> 0, len |-> 0]

Min(a, b) == IF a <= b THEN a ELSE b
Take(s, n) == SubSeq(s, 1, n)
Drop(s, n) == SubSeq(s, n + 1, Len(s))
IsPrefix(s, t) == Len(s) <= Len(t) /\ SubSeq(t, 1, Len(s)) = s

BLen(b) == Len(bufs[b].data)
Room(b) == bufs[b].cap - BLen(b)

(* a cursor whose bytes the model knows (the environment may pass it to reading calls) *)
Readable(cu) == cu.base \in BufIds \cup {NULLB, SRCB}
CBytes(cu) == IF cu.base \in BufIds THEN SubSeq(bufs[cu.base].data, cu.off + 1, cu.off + cu.len)
              ELSE IF cu.base = SRCB THEN SubSeq(src, cu.off + 1, cu.off + cu.len)
              ELSE <<>>
(* the sub-view [k, k+n) of a view; a NULL pointer stays NULL *)
Sub(cu, k, n) == IF cu.base = NULLB THEN NullCur ELSE [base |-> cu.base, off |-> cu.off + k, len |-> n]

SetCur(cs, d, v) == IF d = 0 THEN cs ELSE [cs EXCEPT ![d] = v]
Inval(cs, b) == [i \in CurIds |-> IF cs[i].base = b THEN StaleCur ELSE cs[i]]

BBInit(s) == /\ bufs = [b \in BufIds |-> DeadBuf]
             /\ curs = [c \in CurIds |-> NullCur]
             /\ src = s

-----------------------------------------------------------------------------
(* byte classes, lookup tables *)
IsSpace(x) == x \in {32, 9, 10, 11, 12, 13}
IsDigit(x) == x >= 48 /\ x <= 57
IsAlpha(x) == (x >= 65 /\ x <= 90) \/ (x >= 97 /\ x <= 122)
IsXDigit(x) == IsDigit(x) \/ (x >= 65 /\ x <= 70) \/ (x >= 97 /\ x <= 102)
Pred(p, x) == CASE p = "space" -> IsSpace(x) [] p = "digit" -> IsDigit(x) [] p = "alpha" -> IsAlpha(x)
                [] p = "alnum" -> (IsAlpha(x) \/ IsDigit(x)) [] p = "xdigit" -> IsXDigit(x)
ToLower(x) == IF x >= 65 /\ x <= 90 THEN x + 32 ELSE x
HexVal(x) == IF IsDigit(x) THEN x - 48 ELSE IF x >= 65 /\ x <= 70 THEN x - 55
             ELSE IF x >= 97 /\ x <= 102 THEN x - 87 ELSE 255
(* table 0 = aws_lookup_table_to_lower_get, 1 = harness table x -> (7x+3) mod 256, 2 = aws_lookup_table_hex_to_num_get *)
Lookup(t, x) == CASE t = 0 -> ToLower(x) [] t = 1 -> (x * 7 + 3) % 256 [] t = 2 -> HexVal(x)
MapSeq(s, t) == [i \in 1..Len(s) |-> Lookup(t, s[i])]
Lower(s) == MapSeq(s, 0)

-----------------------------------------------------------------------------
(* ---- init family.  Environment obligation: the target struct is not alive (no leak). *)
Init(b, n) ==
    /\ ~bufs[b].alive /\ n <= HALF
    /\ bufs' = [bufs EXCEPT ![b] = [alive |-> TRUE, cap |-> n, data |-> <<>>]]
    /\ UNCHANGED <<curs, src>>

(* dest gets a new backing array holding a copy of src's bytes; its capacity is only required to hold them *)
InitCopy(d, s, newcap) ==
    /\ d # s /\ ~bufs[d].alive
    /\ newcap >= BLen(s)
    /\ (bufs[s].cap = 0) => newcap = 0
    /\ bufs' = [bufs EXCEPT ![d] = [alive |-> TRUE, cap |-> newcap, data |-> bufs[s].data]]
    /\ UNCHANGED <<curs, src>>

(* "Dest capacity and len will be equal to the src len" *)
InitCopyFromCursor(d, c) ==
    /\ ~bufs[d].alive /\ Readable(curs[c])
    /\ bufs' = [bufs EXCEPT ![d] = [alive |-> TRUE, cap |-> curs[c].len, data |-> CBytes(curs[c])]]
    /\ UNCHANGED <<curs, src>>

(* init_cache_and_update_cursors: cs = sequence of distinct cursor ids *)
RECURSIVE SumLen(_), CatBytes(_), OffOf(_, _)
SumLen(cs) == IF cs = <<>> THEN 0 ELSE curs[Head(cs)].len + SumLen(Tail(cs))
CatBytes(cs) == IF cs = <<>> THEN <<>> ELSE CBytes(curs[Head(cs)]) \o CatBytes(Tail(cs))
OffOf(cs, i) == IF i = 1 THEN 0 ELSE curs[cs[i - 1]].len + OffOf(cs, i - 1)
InitCache(d, cs, ok) ==
    /\ ~bufs[d].alive
    /\ \A i, j \in 1..Len(cs) : i # j => cs[i] # cs[j]
    /\ \A i \in 1..Len(cs) : curs[cs[i]].base # STALE
    /\ LET total == SumLen(cs) IN
       IF total > MAXS
       THEN ~ok /\ UNCHANGED <<bufs, curs>>                \* size overflow: nothing allocated, nothing changed
       ELSE /\ \A i \in 1..Len(cs) : Readable(curs[cs[i]])  \* (huge cursors only where the sum overflows)
            /\ ok
            /\ bufs' = [bufs EXCEPT ![d] = [alive |-> TRUE, cap |-> total, data |-> CatBytes(cs)]]
            /\ curs' = [x \in CurIds |->
                         IF \E i \in 1..Len(cs) : cs[i] = x
                         THEN LET i == CHOOSE i \in 1..Len(cs) : cs[i] = x IN
                              IF total = 0 THEN NullCur ELSE [base |-> d, off |-> OffOf(cs, i), len |-> curs[x].len]
                         ELSE curs[x]]
    /\ UNCHANGED src

-----------------------------------------------------------------------------
(* ---- fixed-capacity appends: succeed iff the bytes fit, else change nothing *)
Fits(b, c) == curs[c].len <= Room(b)
CanAppend(c) == curs[c].base # STALE

BufAppend(b, c, ok) ==
    /\ CanAppend(c)
    /\ ok <=> Fits(b, c)
    /\ ok => Readable(curs[c])
    /\ bufs' = IF ok THEN [bufs EXCEPT ![b].data = @ \o CBytes(curs[c])] ELSE bufs
    /\ UNCHANGED <<curs, src>>

AppendWithLookup(b, c, t, ok) ==
    /\ CanAppend(c) /\ curs[c].base # b                    \* documented: no overlap
    /\ ok <=> Fits(b, c)
    /\ ok => Readable(curs[c])
    /\ bufs' = IF ok THEN [bufs EXCEPT ![b].data = @ \o MapSeq(CBytes(curs[c]), t)] ELSE bufs
    /\ UNCHANGED <<curs, src>>

(* on success the cursor is re-pointed at the copy inside the buffer *)
AppendAndUpdate(b, c, ok) ==
    /\ CanAppend(c)
    /\ ok <=> Fits(b, c)
    /\ ok => Readable(curs[c])
    /\ IF ok
       THEN /\ bufs' = [bufs EXCEPT ![b].data = @ \o CBytes(curs[c])]
            /\ curs' = [curs EXCEPT ![c] = IF bufs[b].cap = 0 THEN NullCur
                                            ELSE [base |-> b, off |-> BLen(b), len |-> curs[c].len]]
       ELSE UNCHANGED <<bufs, curs>>
    /\ UNCHANGED src

(* cat: appends the sources in order, stops at the first one that does not fit (partial result is documented) *)
RECURSIVE CatRun(_, _, _, _)
CatRun(d, data, cap, ss) ==
    IF ss = <<>> THEN [ok |-> TRUE, data |-> data]
    ELSE LET sd == IF Head(ss) = d THEN data ELSE bufs[Head(ss)].data IN
         IF Len(sd) <= cap - Len(data) THEN CatRun(d, data \o sd, cap, Tail(ss))
         ELSE [ok |-> FALSE, data |-> data]
Cat(d, ss, ok) ==
    /\ LET r == CatRun(d, bufs[d].data, bufs[d].cap, ss) IN
       /\ ok = r.ok
       /\ bufs' = [bufs EXCEPT ![d].data = r.data]
    /\ UNCHANGED <<curs, src>>

-----------------------------------------------------------------------------
(* ---- growing appends. bytes/n: what is appended (n = its length, possibly huge with bytes = <<>>).  *)
(* Environment obligation: the buffer has an allocator.                                               *)
GrowAppend(b, bytes, n, ok, newcap) ==
    /\ bufs[b].alive
    /\ IF n <= Room(b)
       THEN /\ ok /\ newcap = bufs[b].cap
            /\ bufs' = [bufs EXCEPT ![b].data = @ \o bytes]
            /\ UNCHANGED curs
       ELSE IF BLen(b) + n > MAXS                          \* required capacity overflows size_t
       THEN ~ok /\ newcap = bufs[b].cap /\ UNCHANGED <<bufs, curs>>
       ELSE /\ n <= HALF                                   \* (environment: no allocation of half the address space)
            /\ ok /\ newcap >= BLen(b) + n                 \* growth policy is not part of the property
            /\ bufs' = [bufs EXCEPT ![b] = [alive |-> TRUE, cap |-> newcap, data |-> @.data \o bytes]]
            /\ curs' = Inval(curs, b)                      \* old storage released
    /\ UNCHANGED src

AppendDynamic(b, c, ok, newcap) ==
    /\ CanAppend(c)
    /\ (curs[c].base = ONEB) => BLen(b) + curs[c].len > MAXS
    /\ GrowAppend(b, CBytes(curs[c]), curs[c].len, ok, newcap)
AppendByteDynamic(b, v, ok, newcap) == GrowAppend(b, <<v>>, 1, ok, newcap)
AppendNullTerminator(b, ok, newcap) == GrowAppend(b, <<0>>, 1, ok, newcap)

(* ---- reserve family: kind 0 reserve, 1 reserve_relative, 2 reserve_smart, 3 reserve_smart_relative *)
Reserve(kind, b, n, ok, newcap) ==
    /\ bufs[b].alive
    /\ LET req == IF kind \in {1, 3} THEN BLen(b) + n ELSE n IN
       IF req > MAXS
       THEN ~ok /\ newcap = bufs[b].cap /\ UNCHANGED <<bufs, curs>>     \* checked add failed
       ELSE IF req <= bufs[b].cap
       THEN ok /\ newcap = bufs[b].cap /\ UNCHANGED <<bufs, curs>>      \* never shrinks
       ELSE /\ req <= HALF
            /\ ok /\ newcap >= req
            /\ bufs' = [bufs EXCEPT ![b].cap = newcap]                  \* contents kept
            /\ curs' = Inval(curs, b)
    /\ UNCHANGED src

-----------------------------------------------------------------------------
(* ---- writes: n = 0 always succeeds; otherwise the bytes must fit and neither side may exceed SIZE_MAX/2 *)
WriteOk(b, n) == n = 0 \/ ~(BLen(b) > HALF \/ n > HALF \/ BLen(b) + n > bufs[b].cap)
WriteBytes(b, bytes, n, ok) ==
    /\ ok <=> WriteOk(b, n)
    /\ ok => Len(bytes) = n
    /\ bufs' = IF ok THEN [bufs EXCEPT ![b].data = @ \o bytes] ELSE bufs
    /\ UNCHANGED <<curs, src>>

Write(b, off, n, ok) == /\ (n <= 4096) => off + n <= Len(src)          \* environment: the source array is readable
                        /\ WriteBytes(b, IF n <= 4096 THEN SubSeq(src, off + 1, off + n) ELSE <<>>, n, ok)
WriteU8(b, v, ok) == WriteBytes(b, <<v>>, 1, ok)
WriteU8N(b, v, n, ok) == WriteBytes(b, IF n <= HALF - 1 /\ n <= 4096 THEN [i \in 1..n |-> v] ELSE <<>>, n, ok)
(* big-endian integers: vs = the value's bytes, most significant first (be24 gets 4: a non-zero top byte must fail) *)
WriteBE(b, k, vs, ok) ==
    IF k = 3 /\ vs[1] # 0 THEN ~ok /\ UNCHANGED bbvars
    ELSE WriteBytes(b, IF k = 3 THEN Tail(vs) ELSE vs, k, ok)
WriteFromWholeBuffer(b, s, ok) == WriteBytes(b, bufs[s].data, BLen(s), ok)
WriteFromWholeCursor(b, c, ok) ==
    /\ curs[c].base # STALE
    /\ ok => Readable(curs[c])
    /\ WriteBytes(b, CBytes(curs[c]), curs[c].len, ok)

(* write_to_capacity cannot fail: writes min(room, cursor length) bytes, advances the cursor, returns the written part *)
WtcRv(b, c) == IF curs[c].len > HALF THEN NullCur ELSE Sub(curs[c], 0, Min(Room(b), curs[c].len))
WriteToCapacity(b, c, d, rv) ==
    /\ curs[c].base # STALE /\ d # c
    /\ IF curs[c].len > HALF
       THEN rv = NullCur /\ UNCHANGED bufs /\ curs' = SetCur(curs, d, rv)     \* huge cursor: refused, untouched
       ELSE LET k == Min(Room(b), curs[c].len) IN
            /\ Readable(curs[c])
            /\ rv = Sub(curs[c], 0, k)
            /\ bufs' = [bufs EXCEPT ![b].data = @ \o Take(CBytes(curs[c]), k)]
            /\ curs' = SetCur([curs EXCEPT ![c] = Sub(@, k, @.len - k)], d, rv)
    /\ UNCHANGED src

(* buf advance: hands out the next n bytes as a sub-buffer; their contents (fill) are whatever was there *)
BufAdvance(b, n, ok, fill) ==
    /\ ok <=> n <= Room(b)
    /\ IF ok THEN Len(fill) = n /\ bufs' = [bufs EXCEPT ![b].data = @ \o fill] ELSE UNCHANGED bufs
    /\ UNCHANGED <<curs, src>>

Reset(b) ==
    /\ bufs' = [bufs EXCEPT ![b].data = <<>>]
    /\ curs' = Inval(curs, b)
    /\ UNCHANGED src

CleanUp(b) ==
    /\ bufs' = [bufs EXCEPT ![b] = DeadBuf]
    /\ curs' = Inval(curs, b)
    /\ UNCHANGED src

-----------------------------------------------------------------------------
(* ---- cursors. Harness-level constructors (aws_byte_cursor_from_array / from_buf / struct copy) *)
CurNull(c) == curs' = [curs EXCEPT ![c] = NullCur] /\ UNCHANGED <<bufs, src>>
CurSrc(c, off, n) == /\ off + n <= Len(src)
                     /\ curs' = [curs EXCEPT ![c] = [base |-> SRCB, off |-> off, len |-> n]]
                     /\ UNCHANGED <<bufs, src>>
CurBuf(c, b) == /\ curs' = [curs EXCEPT ![c] = IF bufs[b].cap = 0 THEN NullCur
                                                ELSE [base |-> b, off |-> 0, len |-> BLen(b)]]
                /\ UNCHANGED <<bufs, src>>
CurBig(c, n) == /\ n >= HALF
                /\ curs' = [curs EXCEPT ![c] = [base |-> ONEB, off |-> 0, len |-> n]]
                /\ UNCHANGED <<bufs, src>>
CurCopy(d, c) == curs' = [curs EXCEPT ![d] = curs[c]] /\ UNCHANGED <<bufs, src>>

(* advance / advance_nospec: refused (NULL result, cursor untouched) when n exceeds the length or either exceeds SIZE_MAX/2. *)
(* A cursor of length exactly SIZE_MAX/2 may be served or refused (plain advance serves it, the nospec family refuses it);  *)
(* a refusal must leave the cursor untouched like every other failure.                                                     *)
AdvOk(cu, n) == ~(cu.len > HALF \/ n > HALF \/ n > cu.len)
MayRefuse(cu) == cu.len = HALF
AdvRv(c, n) == IF AdvOk(curs[c], n) THEN Sub(curs[c], 0, n) ELSE NullCur
ReadOut(c, n) == IF n > 0 /\ n <= 4096 /\ AdvOk(curs[c], n) THEN Take(CBytes(curs[c]), n) ELSE <<>>
CurAdvance(c, n, d, rv) ==
    /\ curs[c].base # STALE /\ d # c
    /\ IF AdvOk(curs[c], n) /\ ~(MayRefuse(curs[c]) /\ rv = NullCur)
       THEN /\ rv = Sub(curs[c], 0, n)
            /\ curs' = SetCur([curs EXCEPT ![c] = Sub(@, n, @.len - n)], d, rv)
       ELSE /\ rv = NullCur
            /\ curs' = SetCur(curs, d, rv)
    /\ UNCHANGED <<bufs, src>>

(* read n bytes: n = 0 succeeds trivially; short read => cursor unchanged *)
Read(c, n, ok, out) ==
    /\ curs[c].base # STALE
    /\ IF n = 0 THEN ok ELSE IF AdvOk(curs[c], n) THEN (ok \/ MayRefuse(curs[c])) ELSE ~ok
    /\ IF ok /\ n > 0
       THEN /\ Readable(curs[c])
            /\ out = Take(CBytes(curs[c]), n)
            /\ curs' = [curs EXCEPT ![c] = Sub(@, n, @.len - n)]
       ELSE UNCHANGED curs
    /\ UNCHANGED <<bufs, src>>

ReadHexU8(c, ok, v) ==
    /\ Readable(curs[c])
    /\ LET bs == CBytes(curs[c]) IN
       /\ ok <=> (Len(bs) >= 2 /\ HexVal(bs[1]) # 255 /\ HexVal(bs[2]) # 255)
       /\ IF ok THEN /\ v = 16 * HexVal(bs[1]) + HexVal(bs[2])
                     /\ curs' = [curs EXCEPT ![c] = Sub(@, 2, @.len - 2)]
          ELSE UNCHANGED curs
    /\ UNCHANGED <<bufs, src>>

(* fills the whole capacity of b from the cursor *)
ReadAndFill(c, b, ok) ==
    /\ curs[c].base # STALE /\ curs[c].base # b           \* restrict: no overlap
    /\ LET n == bufs[b].cap IN
       /\ IF n = 0 THEN ok ELSE IF AdvOk(curs[c], n) THEN (ok \/ MayRefuse(curs[c])) ELSE ~ok
       /\ IF ok /\ n > 0
          THEN /\ Readable(curs[c])
               /\ bufs' = [bufs EXCEPT ![b].data = Take(CBytes(curs[c]), n)]
               /\ curs' = [curs EXCEPT ![c] = Sub(@, n, @.len - n)]
          ELSE IF ok THEN bufs' = [bufs EXCEPT ![b].data = <<>>] /\ UNCHANGED curs
          ELSE UNCHANGED <<bufs, curs>>
    /\ UNCHANGED src

-----------------------------------------------------------------------------
(* ---- split *)
FirstIdx(s, ch, from) == LET S == {i \in from..Len(s) : s[i] = ch} IN
                         IF S = {} THEN 0 ELSE CHOOSE i \in S : \A j \in S : i <= j
RECURSIVE SegsFrom(_, _, _)
SegsFrom(s, ch, start) ==                                  \* start = 0-based offset of the current segment
    LET idx == FirstIdx(s, ch, start + 1) IN
    IF idx = 0 THEN << [off |-> start, len |-> Len(s) - start] >>
    ELSE << [off |-> start, len |-> idx - 1 - start] >> \o SegsFrom(s, ch, idx)
Segs(s, ch) == SegsFrom(s, ch, 0)
(* at most n splits (n = 0: unlimited): entry n+1 takes the rest of the input *)
SplitEntries(s, ch, n) ==
    LET g == Segs(s, ch) IN
    IF n = 0 \/ Len(g) <= n THEN g
    ELSE Take(g, n) \o << [off |-> g[n + 1].off, len |-> Len(s) - g[n + 1].off] >>

(* next_split called k times from a zeroed substr: res[i] = [rv, off, len, null] (off relative to the input) *)
NextSplitExp(c, ch, k) ==
    LET g == Segs(CBytes(curs[c]), ch)
        m == Min(k, Len(g) + 1) IN
    [i \in 1..m |-> IF i <= Len(g) THEN [rv |-> 1, off |-> g[i].off, len |-> g[i].len, null |-> 0]
                    ELSE [rv |-> 0, off |-> 0, len |-> 0, null |-> 1]]        \* exhausted: substr zeroed
NextSplit(c, ch, k, res) ==
    /\ Readable(curs[c])
    /\ res = NextSplitExp(c, ch, k)
    /\ UNCHANGED bbvars

(* split into a static list of capacity L: all entries, or failure with a prefix of them (documented partial result) *)
SplitOnCharN(c, ch, n, L, ok, ents) ==
    /\ Readable(curs[c])
    /\ LET e == SplitEntries(CBytes(curs[c]), ch, n)
           same(x, y) == x.len = y.len /\ x.off = y.off IN
       /\ ok <=> Len(e) <= L
       /\ Len(ents) <= Len(e) /\ Len(ents) <= L
       /\ ok => Len(ents) = Len(e)
       /\ \A i \in 1..Len(ents) : same(ents[i], e[i])
    /\ UNCHANGED bbvars

-----------------------------------------------------------------------------
(* ---- trim / predicates / comparisons / search: pure, state unchanged (result cursor may be stored in slot d) *)
RECURSIVE LeadCount(_, _), TrailCount(_, _)
LeadCount(s, p) == IF s = <<>> \/ ~Pred(p, Head(s)) THEN 0 ELSE 1 + LeadCount(Tail(s), p)
TrailCount(s, p) == IF s = <<>> \/ ~Pred(p, s[Len(s)]) THEN 0 ELSE 1 + TrailCount(Take(s, Len(s) - 1), p)
(* which: 0 left, 1 right, 2 both *)
TrimRv(c, which, p) ==
    LET bs == CBytes(curs[c])
        l == IF which \in {0, 2} THEN LeadCount(bs, p) ELSE 0
        r == IF which \in {1, 2} THEN TrailCount(Drop(bs, l), p) ELSE 0 IN
    Sub(curs[c], l, Len(bs) - l - r)
Trim(c, which, p, d, rv) ==
    /\ Readable(curs[c]) /\ d # c
    /\ rv = TrimRv(c, which, p)
    /\ curs' = SetCur(curs, d, rv)
    /\ UNCHANGED <<bufs, src>>

SatisfiesPred(c, p, r) ==
    /\ Readable(curs[c])
    /\ r <=> (\A i \in 1..curs[c].len : Pred(p, CBytes(curs[c])[i]))
    /\ UNCHANGED bbvars

SeqEq(x, y, ic) == IF ic THEN Lower(x) = Lower(y) ELSE x = y
CStr(s) == LET z == FirstIdx(s, 0, 1) IN IF z = 0 THEN s ELSE Take(s, z - 1)   \* a C string ends at its first NUL
PureEq(x, y, ic, r) == (r <=> SeqEq(x, y, ic)) /\ UNCHANGED bbvars

CurEq(c1, c2, ic, r) == Readable(curs[c1]) /\ Readable(curs[c2]) /\ PureEq(CBytes(curs[c1]), CBytes(curs[c2]), ic, r)
CurEqCStr(c, off, n, ic, r) == Readable(curs[c]) /\ PureEq(CBytes(curs[c]), CStr(SubSeq(src, off + 1, off + n)), ic, r)
CurEqBuf(c, b, ic, r) == Readable(curs[c]) /\ PureEq(CBytes(curs[c]), bufs[b].data, ic, r)
BufEq(a, b, ic, r) == PureEq(bufs[a].data, bufs[b].data, ic, r)
BufEqCStr(b, off, n, ic, r) == PureEq(bufs[b].data, CStr(SubSeq(src, off + 1, off + n)), ic, r)

(* lexicographic comparison of byte sequences: -1, 0, 1 *)
RECURSIVE LexCmp(_, _)
LexCmp(x, y) == IF x = <<>> /\ y = <<>> THEN 0 ELSE IF x = <<>> THEN -1 ELSE IF y = <<>> THEN 1
                ELSE IF Head(x) < Head(y) THEN -1 ELSE IF Head(x) > Head(y) THEN 1 ELSE LexCmp(Tail(x), Tail(y))
CompareLexical(c1, c2, sign) ==
    /\ Readable(curs[c1]) /\ Readable(curs[c2])
    /\ sign = LexCmp(CBytes(curs[c1]), CBytes(curs[c2]))
    /\ UNCHANGED bbvars
CompareLookup(c1, c2, t, sign) ==
    /\ Readable(curs[c1]) /\ Readable(curs[c2])
    /\ sign = LexCmp(MapSeq(CBytes(curs[c1]), t), MapSeq(CBytes(curs[c2]), t))
    /\ UNCHANGED bbvars

StartsWith(c, p, ic, r) ==
    /\ Readable(curs[c]) /\ Readable(curs[p])
    /\ LET x == CBytes(curs[c])  y == CBytes(curs[p]) IN
       r <=> (Len(y) <= Len(x) /\ SeqEq(Take(x, Len(y)), y, ic))
    /\ UNCHANGED bbvars

(* find_exact: first occurrence; result view = input from the match to the end. An empty needle is left open. *)
MatchAt(x, y, k) == k + Len(y) <= Len(x) /\ SubSeq(x, k + 1, k + Len(y)) = y      \* k 0-based
FindM(c, f) == LET x == CBytes(curs[c])  y == CBytes(curs[f]) IN {k \in 0..Len(x) : MatchAt(x, y, k)}
FindRv(c, f) == LET M == FindM(c, f) IN
                IF M = {} THEN NullCur
                ELSE LET k == CHOOSE k \in M : \A j \in M : k <= j IN Sub(curs[c], k, curs[c].len - k)
FindExact(c, f, d, ok, rv) ==
    /\ Readable(curs[c]) /\ Readable(curs[f]) /\ d # c /\ d # f
    /\ LET x == CBytes(curs[c])  y == CBytes(curs[f])
           M == {k \in 0..Len(x) : MatchAt(x, y, k)} IN
       /\ (y # <<>>) => (ok <=> M # {})
       /\ ok => /\ M # {}
                /\ LET k == CHOOSE k \in M : \A j \in M : k <= j IN rv = Sub(curs[c], k, Len(x) - k)
    /\ curs' = IF ok THEN SetCur(curs, d, rv) ELSE curs
    /\ UNCHANGED <<bufs, src>>

-----------------------------------------------------------------------------
(* ---- unsigned parsing. Values are 5 little-endian limbs of 15 bits (TLC integers are 32-bit). *)
WZero == <<0, 0, 0, 0, 0>>
WMulAdd(w, m, x) ==
    LET t1 == w[1] * m + x
        t2 == w[2] * m + t1 \div 32768
        t3 == w[3] * m + t2 \div 32768
        t4 == w[4] * m + t3 \div 32768
        t5 == w[5] * m + t4 \div 32768 IN
    <<t1 % 32768, t2 % 32768, t3 % 32768, t4 % 32768, t5>>
FitsU64(w) == w[5] < 16
RECURSIVE ParseRun(_, _, _)
ParseRun(s, w, base) ==                                    \* [ok, w]
    IF s = <<>> THEN [ok |-> TRUE, w |-> w]
    ELSE IF HexVal(Head(s)) >= base THEN [ok |-> FALSE, w |-> w]
    ELSE LET nw == WMulAdd(w, base, HexVal(Head(s))) IN
         IF ~FitsU64(nw) THEN [ok |-> FALSE, w |-> nw] ELSE ParseRun(Tail(s), nw, base)
ParseExp(c, base) == LET bs == CBytes(curs[c])  r == ParseRun(bs, WZero, base) IN
                     [ok |-> bs # <<>> /\ r.ok, w |-> r.w]
ParseU64(c, base, ok, val) ==
    /\ Readable(curs[c])
    /\ LET bs == CBytes(curs[c])
           r == ParseRun(bs, WZero, base) IN
       /\ ok <=> (bs # <<>> /\ r.ok)
       /\ ok => val = r.w
    /\ UNCHANGED bbvars

-----------------------------------------------------------------------------
(* invariants of the specification itself *)
LenLeCap == \A b \in BufIds : BLen(b) <= bufs[b].cap
DeadIsZero == \A b \in BufIds : ~bufs[b].alive => (bufs[b].cap = 0 /\ bufs[b].data = <<>>)
CursorsInBounds ==
    \A c \in CurIds : LET cu == curs[c] IN
        /\ cu.base \in BufIds => (bufs[cu.base].cap > 0 /\ cu.off + cu.len <= BLen(cu.base))
        /\ cu.base = SRCB => cu.off + cu.len <= Len(src)
        /\ cu.base = NULLB => (cu.off = 0 /\ cu.len = 0)
=============================================================================
