SPECIFICATION MSpec
CONSTANTS
  BigIds = {1, 2}
  Sizes = {0, 1, 2, 3}
  Vals = {7, 9}
  MaxLen = 6
  Slack = 1
CONSTRAINT Bound
INVARIANTS LenWithinCap RunsAgree
PROPERTY KeepsPrefixMC
