SPECIFICATION MCSpec
CONSTANTS BufIds = {1, 2}
  CurIds = {1, 2}
  Bytes = {32, 49, 65}
  MaxCap = 3
  Src <- SrcSmall
  GenDepth = 0
  MaxDepth = 4
  PureOn = FALSE
INVARIANTS LenLeCap DeadIsZero CursorsInBounds
PROPERTIES FailureChangesNothing PrefixKept CapMonotone
CONSTRAINT DepthBound
VIEW View
