------------------------------ MODULE ByteBufMC ------------------------------
(* Bounded exhaustive exploration of ByteBuf (all call sequences over a few buffers / cursors, capacities *)
(* 0..MaxCap, huge sizes) with the property's clauses as invariants and action properties, and behaviour   *)
(* generation by simulation (history variable printed as a JSON script).                                   *)
EXTENDS ByteBuf, TLC, Json

CONSTANTS Bytes, MaxCap, Src, GenDepth, MaxDepth, PureOn
VARIABLES last,   \* ghost: [op, ok, partial, out] of the step just taken (for the action properties)
          hist    \* generation mode: the script so far

SrcSmall == <<65, 32, 49>>
SrcGen == <<32, 65, 49, 59, 97, 48, 59, 32, 70, 102>>
mcvars == <<bufs, curs, src, last, hist>>
View == <<bufs, curs, src>>

Gen == GenDepth > 0
Caps == 0..MaxCap
BigN == {HALF, HALF + 1, MAXS - 1, MAXS}
ArgN == (0..(MaxCap + 1)) \cup BigN
BigC == {HALF, HALF + 1, MAXS}
LenCap == IF Gen THEN 24 ELSE MaxCap
DSlot(c) == {0} \cup (CurIds \ {c})
Max(a, b) == IF a >= b THEN a ELSE b
B2I(x) == IF x THEN 1 ELSE 0
Rep(v, k) == [i \in 1..k |-> v]
(* model checking: every capacity >= req the bound allows; generation: the doubling policy the real code is expected to follow *)
NewCaps(b, req, dbl) == IF Gen THEN {IF dbl THEN Max(req, 2 * bufs[b].cap) ELSE req} ELSE {x \in Caps : x >= req}
Seqs1(S) == {<<a>> : a \in S}
Seqs2(S) == {<<a, b>> : a \in S, b \in S}
Seqs3(S) == {<<a, b, c>> : a \in S, b \in S, c \in S}

L(op, ok, partial, out) == last' = [op |-> op, ok |-> ok, partial |-> partial, out |-> out]
H(o, a) == hist' = IF Gen THEN Append(hist, [op |-> o, a |-> a]) ELSE hist
G == Gen => Len(hist) < GenDepth
P == G /\ PureOn

MCInit == BBInit(Src) /\ last = [op |-> "none", ok |-> TRUE, partial |-> FALSE, out |-> 0] /\ hist = <<>>

MCBufInit == G /\ \E b \in BufIds, n \in Caps : Init(b, n) /\ L("Init", TRUE, FALSE, 0) /\ H("INIT", <<b, n>>)
MCInitCopy == G /\ \E d \in BufIds, s \in BufIds : \E nc \in Caps \cup {bufs[s].cap} :
                 (Gen => nc = bufs[s].cap) /\ InitCopy(d, s, nc) /\ L("Init", TRUE, FALSE, 0) /\ H("INITCOPY", <<d, s>>)
MCInitCopyFromCursor == G /\ \E d \in BufIds, c \in CurIds :
                 InitCopyFromCursor(d, c) /\ L("Init", TRUE, FALSE, 0) /\ H("INITCUR", <<d, c>>)
MCInitCache == G /\ \E d \in BufIds, cs \in Seqs1(CurIds) \cup Seqs2(CurIds), ok \in BOOLEAN :
                 /\ SumLen(cs) > MAXS \/ SumLen(cs) <= LenCap
                 /\ InitCache(d, cs, ok) /\ L("Init", ok, FALSE, 0) /\ H("INITCACHE", <<d, Len(cs)>> \o cs)

MCAppend == G /\ \E b \in BufIds, c \in CurIds, ok \in BOOLEAN :
                 BufAppend(b, c, ok) /\ L("Append", ok, FALSE, 0) /\ H("APPEND", <<b, c>>)
MCAppendWithLookup == G /\ \E b \in BufIds, c \in CurIds, t \in {0, 1, 2}, ok \in BOOLEAN :
                 AppendWithLookup(b, c, t, ok) /\ L("AppendWithLookup", ok, FALSE, 0) /\ H("APPENDLK", <<b, c, t>>)
MCAppendAndUpdate == G /\ \E b \in BufIds, c \in CurIds, ok \in BOOLEAN :
                 AppendAndUpdate(b, c, ok) /\ L("AppendAndUpdate", ok, FALSE, 0) /\ H("APPENDUPD", <<b, c>>)
MCCat == G /\ \E d \in BufIds, ss \in Seqs1(BufIds) \cup Seqs2(BufIds) \cup (IF Gen THEN Seqs3(BufIds) ELSE {}), ok \in BOOLEAN :
                 Cat(d, ss, ok) /\ L("Cat", ok, TRUE, 0) /\ H("CAT", <<d, Len(ss)>> \o ss)
MCAppendDynamic == G /\ \E b \in BufIds, c \in CurIds, sec \in {0, 1}, ok \in BOOLEAN :
                 /\ curs[c].len > HALF \/ BLen(b) + curs[c].len <= LenCap
                 /\ \E nc \in NewCaps(b, BLen(b) + curs[c].len, TRUE) \cup {bufs[b].cap} : AppendDynamic(b, c, ok, nc)
                 /\ L("AppendDynamic", ok, FALSE, 0) /\ H("APPENDDYN", <<b, c, sec>>)
MCAppendByteDynamic == G /\ \E b \in BufIds, v \in Bytes, sec \in {0, 1}, ok \in BOOLEAN :
                 /\ BLen(b) + 1 <= LenCap
                 /\ \E nc \in NewCaps(b, BLen(b) + 1, TRUE) \cup {bufs[b].cap} : AppendByteDynamic(b, v, ok, nc)
                 /\ L("AppendByteDynamic", ok, FALSE, 0) /\ H("APPENDBYTE", <<b, v, sec>>)
MCAppendNullTerminator == G /\ \E b \in BufIds, ok \in BOOLEAN :
                 /\ BLen(b) + 1 <= LenCap
                 /\ \E nc \in NewCaps(b, BLen(b) + 1, TRUE) \cup {bufs[b].cap} : AppendNullTerminator(b, ok, nc)
                 /\ L("AppendNullTerminator", ok, FALSE, 0) /\ H("APPENDNUL", <<b>>)
MCReserve == G /\ \E kind \in 0..3, b \in BufIds, n \in ArgN, ok \in BOOLEAN :
                 /\ LET req == IF kind \in {1, 3} THEN BLen(b) + n ELSE n IN
                    /\ req > MAXS \/ req <= Max(LenCap, MaxCap)
                    /\ \E nc \in NewCaps(b, req, kind >= 2) \cup {bufs[b].cap} : Reserve(kind, b, n, ok, nc)
                 /\ L("Reserve", ok, FALSE, 0) /\ H("RESERVE", <<kind, b, n>>)

MCWrite == G /\ \E b \in BufIds, off \in 0..Len(src), n \in 0..Len(src), ok \in BOOLEAN :
                 off + n <= Len(src) /\ n <= MaxCap + 1 /\ Write(b, off, n, ok) /\ L("Write", ok, FALSE, 0) /\ H("WRITE", <<b, off, n>>)
MCWriteBig == G /\ \E b \in BufIds, n \in BigN, ok \in BOOLEAN :
                 Write(b, 0, n, ok) /\ L("Write", ok, FALSE, 0) /\ H("WRITEBIG", <<b, n>>)
MCWriteU8 == G /\ \E b \in BufIds, v \in Bytes, ok \in BOOLEAN :
                 WriteU8(b, v, ok) /\ L("WriteU8", ok, FALSE, 0) /\ H("WU8", <<b, v>>)
MCWriteU8N == G /\ \E b \in BufIds, v \in Bytes, n \in ArgN, ok \in BOOLEAN :
                 WriteU8N(b, v, n, ok) /\ L("WriteU8N", ok, FALSE, 0) /\ H("WU8N", <<b, v, n>>)
MCWriteBE == G /\ \E b \in BufIds, k \in {2, 3, 4, 8}, v \in Bytes, top \in {0, 1}, ok \in BOOLEAN :
                 LET vs == IF k = 3 THEN <<top * v>> \o Rep(v, 3) ELSE Rep(v, k) IN
                 (k # 3 => top = 0) /\ WriteBE(b, k, vs, ok) /\ L("WriteBE", ok, FALSE, 0) /\ H("WBE", <<b, k>> \o vs)
MCWriteFromWholeBuffer == G /\ \E b \in BufIds, s \in BufIds, ok \in BOOLEAN :
                 WriteFromWholeBuffer(b, s, ok) /\ L("WriteFromWholeBuffer", ok, FALSE, 0) /\ H("WBUF", <<b, s>>)
MCWriteFromWholeCursor == G /\ \E b \in BufIds, c \in CurIds, ok \in BOOLEAN :
                 WriteFromWholeCursor(b, c, ok) /\ L("WriteFromWholeCursor", ok, FALSE, 0) /\ H("WCUR", <<b, c>>)
MCWriteToCapacity == G /\ \E b \in BufIds, c \in CurIds : \E d \in DSlot(c) :
                 WriteToCapacity(b, c, d, WtcRv(b, c)) /\ L("WriteToCapacity", TRUE, FALSE, d) /\ H("WCAP", <<b, c, d>>)
MCBufAdvance == G /\ \E b \in BufIds, n \in ArgN, ok \in BOOLEAN, v \in Bytes :
                 /\ v = CHOOSE x \in Bytes : TRUE                       \* exposed bytes: some fixed value in the model
                 /\ BufAdvance(b, n, ok, IF n <= MaxCap + 1 THEN Rep(v, n) ELSE <<>>)
                 /\ L("BufAdvance", ok, FALSE, 0) /\ H("BADV", <<b, n>>)
MCReset == G /\ \E b \in BufIds, z \in {0, 1} : Reset(b) /\ L("Reset", TRUE, FALSE, 0) /\ H("BRESET", <<b, z>>)
MCSecureZero == G /\ \E b \in BufIds : Reset(b) /\ L("Reset", TRUE, FALSE, 0) /\ H("BZERO", <<b>>)
MCCleanUp == G /\ \E b \in BufIds, sec \in {0, 1} : CleanUp(b) /\ L("CleanUp", TRUE, FALSE, 0) /\ H("CLEAN", <<b, sec>>)

MCCurNull == G /\ \E c \in CurIds : CurNull(c) /\ L("Cur", TRUE, FALSE, c) /\ H("CURNULL", <<c>>)
MCCurSrc == G /\ \E c \in CurIds, off \in 0..Len(src), n \in 0..Len(src) :
                 CurSrc(c, off, n) /\ L("Cur", TRUE, FALSE, c) /\ H("CURSRC", <<c, off, n>>)
MCCurBuf == G /\ \E c \in CurIds, b \in BufIds : CurBuf(c, b) /\ L("Cur", TRUE, FALSE, c) /\ H("CURBUF", <<c, b>>)
MCCurBig == G /\ \E c \in CurIds, n \in BigC : CurBig(c, n) /\ L("Cur", TRUE, FALSE, c) /\ H("CURBIG", <<c, n>>)
MCCurCopy == G /\ \E d \in CurIds, c \in CurIds : d # c /\ CurCopy(d, c) /\ L("Cur", TRUE, FALSE, d) /\ H("CURCOPY", <<d, c>>)
MCCurAdvance == G /\ \E c \in CurIds, n \in ArgN, nospec \in {0, 1} : \E d \in DSlot(c) :
                 CurAdvance(c, n, d, AdvRv(c, n)) /\ L("CurAdvance", AdvOk(curs[c], n), FALSE, d) /\ H("CADV", <<c, n, nospec, d>>)
MCRead == G /\ \E c \in CurIds, n \in ArgN, ok \in BOOLEAN :
                 Read(c, n, ok, ReadOut(c, n)) /\ L("Read", ok, FALSE, 0) /\ H("READ", <<c, n>>)
MCReadU == G /\ \E c \in CurIds, n \in {1, 2, 3, 4, 8}, ok \in BOOLEAN :
                 Read(c, n, ok, ReadOut(c, n)) /\ L("Read", ok, FALSE, 0) /\ H("READU", <<c, n>>)
MCReadHexU8 == G /\ \E c \in CurIds, ok \in BOOLEAN :
                 /\ Readable(curs[c])
                 /\ LET bs == CBytes(curs[c]) IN
                    ReadHexU8(c, ok, IF Len(bs) >= 2 THEN 16 * HexVal(bs[1]) + HexVal(bs[2]) ELSE 0)
                 /\ L("ReadHexU8", ok, FALSE, 0) /\ H("READHEX", <<c>>)
MCReadAndFill == G /\ \E c \in CurIds, b \in BufIds, ok \in BOOLEAN :
                 ReadAndFill(c, b, ok) /\ L("ReadAndFill", ok, FALSE, 0) /\ H("READFILL", <<c, b>>)

(* pure calls: evaluated so that the model checker exercises their definitions; state unchanged *)
MCNextSplit == P /\ \E c \in CurIds, ch \in Bytes, k \in 1..4 :
                 /\ Readable(curs[c])
                 /\ NextSplit(c, ch, k, NextSplitExp(c, ch, k)) /\ L("Pure", TRUE, FALSE, 0) /\ H("NSPLIT", <<c, ch, k>>)
MCSplitOnCharN == P /\ \E c \in CurIds, ch \in Bytes, n \in 0..2, cap \in 1..3, ok \in BOOLEAN, viaN \in {0, 1} :
                 /\ Readable(curs[c]) /\ (viaN = 0 => n = 0)
                 /\ LET e == SplitEntries(CBytes(curs[c]), ch, n) IN SplitOnCharN(c, ch, n, cap, ok, Take(e, Min(cap, Len(e))))
                 /\ L("Pure", ok, TRUE, 0) /\ H("SPLITN", <<c, ch, n, cap, viaN>>)
MCTrim == P /\ \E c \in CurIds, w \in 0..2, p \in {"space", "digit", "alpha", "alnum", "xdigit"} : \E d \in DSlot(c) :
                 /\ Readable(curs[c])
                 /\ Trim(c, w, p, d, TrimRv(c, w, p)) /\ L("Pure", TRUE, FALSE, d) /\ H("TRIM", <<c, w, p, d>>)
MCSatisfiesPred == P /\ \E c \in CurIds, p \in {"space", "digit", "alpha", "alnum", "xdigit"}, r \in BOOLEAN :
                 SatisfiesPred(c, p, r) /\ L("Pure", TRUE, FALSE, 0) /\ H("SAT", <<c, p>>)
MCCurEq == P /\ \E c1 \in CurIds, c2 \in CurIds, ic \in BOOLEAN, r \in BOOLEAN :
                 CurEq(c1, c2, ic, r) /\ L("Pure", TRUE, FALSE, 0) /\ H("EQ", <<c1, c2, B2I(ic)>>)
MCCurEqCStr == P /\ \E c \in CurIds, off \in 0..Len(src), n \in 0..Len(src), ic \in BOOLEAN, r \in BOOLEAN :
                 off + n <= Len(src) /\ CurEqCStr(c, off, n, ic, r) /\ L("Pure", TRUE, FALSE, 0) /\ H("EQCSTR", <<c, off, n, B2I(ic)>>)
MCCurEqBuf == P /\ \E c \in CurIds, b \in BufIds, ic \in BOOLEAN, r \in BOOLEAN :
                 CurEqBuf(c, b, ic, r) /\ L("Pure", TRUE, FALSE, 0) /\ H("CEQB", <<c, b, B2I(ic)>>)
MCBufEq == P /\ \E a \in BufIds, b \in BufIds, ic \in BOOLEAN, r \in BOOLEAN :
                 BufEq(a, b, ic, r) /\ L("Pure", TRUE, FALSE, 0) /\ H("BEQ", <<a, b, B2I(ic)>>)
MCBufEqCStr == P /\ \E b \in BufIds, off \in 0..Len(src), n \in 0..Len(src), ic \in BOOLEAN, r \in BOOLEAN :
                 off + n <= Len(src) /\ BufEqCStr(b, off, n, ic, r) /\ L("Pure", TRUE, FALSE, 0) /\ H("BEQCSTR", <<b, off, n, B2I(ic)>>)
MCCompareLexical == P /\ \E c1 \in CurIds, c2 \in CurIds, sg \in {-1, 0, 1} :
                 CompareLexical(c1, c2, sg) /\ L("Pure", TRUE, FALSE, 0) /\ H("CMP", <<c1, c2>>)
MCCompareLookup == P /\ \E c1 \in CurIds, c2 \in CurIds, t \in {0, 1, 2}, sg \in {-1, 0, 1} :
                 CompareLookup(c1, c2, t, sg) /\ L("Pure", TRUE, FALSE, 0) /\ H("CMPLK", <<c1, c2, t>>)
MCStartsWith == P /\ \E c \in CurIds, p \in CurIds, ic \in BOOLEAN, r \in BOOLEAN :
                 StartsWith(c, p, ic, r) /\ L("Pure", TRUE, FALSE, 0) /\ H("STARTS", <<c, p, B2I(ic)>>)
MCFindExact == P /\ \E c \in CurIds, f \in CurIds : \E d \in DSlot(c) \ {f} :
                 /\ Readable(curs[c]) /\ Readable(curs[f]) /\ c # f
                 /\ LET ok == curs[f].len > 0 /\ FindM(c, f) # {} IN
                    FindExact(c, f, d, ok, FindRv(c, f)) /\ L("Find", ok, FALSE, 0)
                 /\ H("FIND", <<c, f, d>>)
MCParseU64 == P /\ \E c \in CurIds, hex \in {0, 1} :
                 /\ Readable(curs[c])
                 /\ LET e == ParseExp(c, IF hex = 1 THEN 16 ELSE 10) IN ParseU64(c, IF hex = 1 THEN 16 ELSE 10, e.ok, e.w)
                 /\ L("Pure", TRUE, FALSE, 0) /\ H("PARSE", <<c, hex>>)

MCNext ==
    \/ MCBufInit \/ MCInitCopy \/ MCInitCopyFromCursor \/ MCInitCache
    \/ MCAppend \/ MCAppendWithLookup \/ MCAppendAndUpdate \/ MCCat
    \/ MCAppendDynamic \/ MCAppendByteDynamic \/ MCAppendNullTerminator \/ MCReserve
    \/ MCWrite \/ MCWriteBig \/ MCWriteU8 \/ MCWriteU8N \/ MCWriteBE \/ MCWriteFromWholeBuffer \/ MCWriteFromWholeCursor
    \/ MCWriteToCapacity \/ MCBufAdvance \/ MCReset \/ MCSecureZero \/ MCCleanUp
    \/ MCCurNull \/ MCCurSrc \/ MCCurBuf \/ MCCurBig \/ MCCurCopy \/ MCCurAdvance
    \/ MCRead \/ MCReadU \/ MCReadHexU8 \/ MCReadAndFill
    \/ MCNextSplit \/ MCSplitOnCharN \/ MCTrim \/ MCSatisfiesPred
    \/ MCCurEq \/ MCCurEqCStr \/ MCCurEqBuf \/ MCBufEq \/ MCBufEqCStr
    \/ MCCompareLexical \/ MCCompareLookup \/ MCStartsWith \/ MCFindExact \/ MCParseU64
MCSpec == MCInit /\ [][MCNext]_mcvars

DepthBound == TLCGet("level") <= MaxDepth

(* ---- the property's clauses, checked on every transition of the bounded model *)
(* an operation that reports failure leaves buffers and cursors exactly as they were (cat / split may stop part-way;  *)
(* the result slot of advance / find is an output, not part of the "cursor" being operated on)                       *)
FailureChangesNothing ==
    [][(~last'.ok /\ ~last'.partial) =>
          (bufs' = bufs /\ \A c \in CurIds : c # last'.out => curs'[c] = curs[c])]_mcvars
(* previously written bytes never change except by operations whose own effect is to discard or overwrite them *)
PrefixKept ==
    [][(last'.op \notin {"Reset", "CleanUp", "Init", "ReadAndFill"}) =>
          \A b \in BufIds : IsPrefix(bufs[b].data, bufs'[b].data)]_mcvars
(* growth keeps the contents and never loses capacity *)
CapMonotone ==
    [][(last'.op \notin {"CleanUp", "Init"}) => \A b \in BufIds : bufs'[b].cap >= bufs[b].cap]_mcvars
(* a cursor is only ever re-pointed by the call operating on it *)
Emit == (Gen /\ Len(hist) = GenDepth) => PrintT(<<"SCRIPT", ToJson([src |-> src, ops |-> hist])>>)
=============================================================================
