---------------------------- MODULE BigBufTrace ----------------------------
(* Trace validation for the large-size family of C01 (harness/bytebuf_big_adapter.c): every recorded call must be one  *)
(* BigBuf action with the logged arguments and results, and the state observed after every call (alive, len, capacity, *)
(* the bytes [0, len) as maximal runs) must equal the specification's post-state.                                       *)
EXTENDS BigBuf, TraceCommon
VARIABLES l
Ev == TraceLog[l]
Ok == Ev.rc = 0
NewCap(b) == Ev.s[b].cap
(* JSON arrays of [value, count] pairs arrive as sequences of 2-element sequences, i.e. directly as runs *)
Observed(s) == \A b \in BigIds : /\ (s[b].al = 1) <=> big'[b].alive
                                 /\ s[b].len = big'[b].len /\ s[b].cap = big'[b].cap
                                 /\ s[b].runs = big'[b].runs
(* secure variants: every block released during the call was all-zero (overruns are the sanitizer's business) *)
Clean == Ev.sec = 1 => Ev.relnz = 0

TReset == Ev.e = "Reset" /\ big' = [b \in BigIds |-> Dead]
TInit == Ev.e = "Init" /\ Init(Ev.b, Ev.n, Ok, NewCap(Ev.b)) /\ Clean /\ Observed(Ev.s)
TAppend == Ev.e = "Append" /\ AppendFixed(Ev.b, Ev.v, Ev.n, Ok, NewCap(Ev.b)) /\ Clean /\ Observed(Ev.s)
           /\ (~Ok => Ev.err = "AWS_ERROR_DEST_COPY_TOO_SMALL")
TAppendDynamic == Ev.e = "AppendDynamic" /\ AppendDynamic(Ev.b, Ev.v, Ev.n, Ok, NewCap(Ev.b)) /\ Clean /\ Observed(Ev.s)
TAppendSelf == Ev.e = "AppendSelf" /\ AppendSelf(Ev.b, Ev.off, Ev.n, Ok, NewCap(Ev.b)) /\ Clean /\ Observed(Ev.s)
TReserve == Ev.e = "Reserve" /\ Reserve(Ev.kind, Ev.b, Ev.n, Ok, NewCap(Ev.b)) /\ Clean /\ Observed(Ev.s)
TInitCopy == Ev.e = "InitCopy" /\ InitCopy(Ev.d, Ev.sb, Ok, NewCap(Ev.d)) /\ Clean /\ Observed(Ev.s)
TWriteU8N == Ev.e = "WriteU8N" /\ WriteU8N(Ev.b, Ev.v, Ev.n, Ev.ok = 1, NewCap(Ev.b)) /\ Clean /\ Observed(Ev.s)
TResetBuf == Ev.e = "ResetBuf" /\ Reset(Ev.b, NewCap(Ev.b)) /\ Clean /\ Observed(Ev.s)
TCleanUp == Ev.e = "CleanUp" /\ CleanUp(Ev.b) /\ Clean /\ Observed(Ev.s)
TEnd == Ev.e = "End" /\ Ev.live = 0 /\ UNCHANGED big

TNext == l <= TraceLen /\ l' = l + 1 /\
         (TReset \/ TInit \/ TAppend \/ TAppendDynamic \/ TAppendSelf \/ TReserve \/ TInitCopy \/ TWriteU8N \/ TResetBuf
            \/ TCleanUp \/ TEnd)
TSpec == (l = 1 /\ BInit0) /\ [][TNext]_<<big, l>>
=============================================================================
