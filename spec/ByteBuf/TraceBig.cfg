SPECIFICATION TSpec
CONSTANTS
  BigIds = {1, 2}
INVARIANTS LenWithinCap RunsAgree
POSTCONDITION TraceAccepted
CHECK_DEADLOCK FALSE
