------------------------------- MODULE BigBuf -------------------------------
(* C01, large sizes.  ByteBuf.tla decides the property on buffers of at most 64 bytes (and symbolic sizes next to     *)
(* SIZE_MAX); everything between - kilobytes to tens of megabytes, where growth policies, page-sized copies and size *)
(* arithmetic of real programs live - is covered here, with the same contract on a content representation that       *)
(* scales: a buffer's written bytes [0, len) are a sequence of runs <<value, count>> (the adapter projects the real   *)
(* bytes to maximal runs, the specification keeps them normalised the same way).                                      *)
(* State: two buffers.  Actions = the growing / copying calls of byte_buf.h, each a relation between pre-state,       *)
(* arguments, reported result (ok) and post-state.  As in ByteBuf.tla the capacity after growth is only bounded from  *)
(* below (cap' >= what is needed, never shrinking) - the growth policy is not part of the property.                   *)
EXTENDS Naturals, Sequences

CONSTANTS BigIds        \* buffer ids

VARIABLES big           \* [BigIds -> [alive, len, cap, runs]]
bvars == <<big>>

Dead == [alive |-> FALSE, len |-> 0, cap |-> 0, runs |-> <<>>]
BInit0 == big = [b \in BigIds |-> Dead]

(* ---- runs *)
RECURSIVE RunsLen(_)
RunsLen(r) == IF r = <<>> THEN 0 ELSE r[1][2] + RunsLen(Tail(r))
(* append one run, merging with an equal-valued last run, dropping empty runs *)
Push(r, v, n) == IF n = 0 THEN r
                 ELSE IF r # <<>> /\ r[Len(r)][1] = v THEN [r EXCEPT ![Len(r)] = <<v, @[2] + n>>]
                 ELSE Append(r, <<v, n>>)
RECURSIVE Concat(_, _)
Concat(r, s) == IF s = <<>> THEN r ELSE Concat(Push(r, s[1][1], s[1][2]), Tail(s))
(* the runs of bytes [off, off + n) of a buffer with runs r *)
RECURSIVE Slice(_, _, _)
Slice(r, off, n) ==
    IF n = 0 \/ r = <<>> THEN <<>>
    ELSE LET c == r[1][2] IN
         IF off >= c THEN Slice(Tail(r), off - c, n)
         ELSE LET take == IF c - off < n THEN c - off ELSE n IN
              Concat(<<<<r[1][1], take>>>>, Slice(Tail(r), 0, n - take))
Normal(r) == /\ \A i \in 1..Len(r) : r[i][2] > 0
             /\ \A i \in 1..Len(r) - 1 : r[i][1] # r[i + 1][1]

Alive(b) == b \in BigIds /\ big[b].alive
Set(b, len, cap, runs) == big' = [big EXCEPT ![b] = [alive |-> TRUE, len |-> len, cap |-> cap, runs |-> runs]]

(* ---- calls.  `ok` is the reported outcome, `newcap` the capacity observed afterwards. *)
(* aws_byte_buf_init(b, allocator, n) *)
Init(b, n, ok, newcap) == /\ b \in BigIds /\ ~big[b].alive /\ ok /\ newcap >= n /\ Set(b, 0, newcap, <<>>)

(* aws_byte_buf_append(b, cursor of n bytes of value v): all or nothing, never grows *)
AppendFixed(b, v, n, ok, newcap) ==
    /\ Alive(b) /\ newcap = big[b].cap
    /\ ok <=> (big[b].len + n <= big[b].cap)
    /\ IF ok THEN Set(b, big[b].len + n, newcap, Push(big[b].runs, v, n)) ELSE UNCHANGED big

(* aws_byte_buf_append_dynamic[_secure](b, cursor of n bytes of value v): always succeeds here (sizes far from       *)
(* SIZE_MAX, allocation cannot fail), keeps what was written, capacity covers the new length and never shrinks       *)
AppendDynamic(b, v, n, ok, newcap) ==
    /\ Alive(b) /\ ok
    /\ newcap >= big[b].len + n /\ newcap >= big[b].cap
    /\ (big[b].len + n <= big[b].cap => newcap = big[b].cap)                 \* enough room: no reallocation
    /\ Set(b, big[b].len + n, newcap, Push(big[b].runs, v, n))

(* the same with a cursor into the destination itself: bytes [off, off + n) of b, off + n <= len *)
AppendSelf(b, off, n, ok, newcap) ==
    /\ Alive(b) /\ ok /\ off + n <= big[b].len
    /\ newcap >= big[b].len + n /\ newcap >= big[b].cap
    /\ (big[b].len + n <= big[b].cap => newcap = big[b].cap)
    /\ Set(b, big[b].len + n, newcap, Concat(big[b].runs, Slice(big[b].runs, off, n)))

(* aws_byte_buf_reserve(b, n) / reserve_relative(b, n): capacity at least n / len + n afterwards, contents kept *)
Reserve(kind, b, n, ok, newcap) ==
    /\ Alive(b) /\ ok
    /\ LET need == IF kind = "rel" THEN big[b].len + n ELSE n IN
       /\ newcap >= need /\ newcap >= big[b].cap
       /\ (need <= big[b].cap => newcap = big[b].cap)
    /\ Set(b, big[b].len, newcap, big[b].runs)

(* aws_byte_buf_init_copy(d, allocator, s): d becomes a copy of s (same len, capacity at least that) *)
InitCopy(d, s, ok, newcap) ==
    /\ d \in BigIds /\ ~big[d].alive /\ Alive(s) /\ d # s /\ ok
    /\ newcap >= big[s].len
    /\ Set(d, big[s].len, newcap, big[s].runs)

(* aws_byte_buf_write_u8_n(b, v, n): all or nothing *)
WriteU8N(b, v, n, ok, newcap) ==
    /\ Alive(b) /\ newcap = big[b].cap
    /\ ok <=> (big[b].len + n <= big[b].cap)
    /\ IF ok THEN Set(b, big[b].len + n, newcap, Push(big[b].runs, v, n)) ELSE UNCHANGED big

(* aws_byte_buf_reset(b, zero_contents): len 0, capacity kept *)
Reset(b, newcap) == Alive(b) /\ newcap = big[b].cap /\ Set(b, 0, newcap, <<>>)

(* aws_byte_buf_clean_up[_secure] *)
CleanUp(b) == Alive(b) /\ big' = [big EXCEPT ![b] = Dead]

(* ---- the property on this representation *)
LenWithinCap == \A b \in BigIds : big[b].len <= big[b].cap
RunsAgree == \A b \in BigIds : RunsLen(big[b].runs) = big[b].len /\ Normal(big[b].runs)
(* every call keeps what was written: the old runs are a prefix of the new ones (as byte strings) unless the call   *)
(* resets or releases the buffer                                                                                     *)
KeepsPrefix == [][\A b \in BigIds : (big[b].alive /\ big'[b].alive /\ big'[b].len >= big[b].len /\ big[b].len > 0)
                      => Slice(big'[b].runs, 0, big[b].len) = big[b].runs]_big
=============================================================================
