---------------------------- MODULE ByteBufTrace ----------------------------
(* Trace validation for C01: every event recorded from the real aws_byte_buf / aws_byte_cursor API must be   *)
(* explained by the ByteBuf action of the same name with exactly the logged arguments and results, and the  *)
(* state observed after EVERY call (each buffer's len, capacity, NULL-ness, allocator flag and bytes [0,len); *)
(* each cursor's (base, offset, len)) must equal the specification's post-state.                              *)
EXTENDS ByteBuf, TraceCommon

CONSTANT EnabledDeviations   \* {} in Trace.cfg (strict); names of Dev_ actions of status:"known" findings in TraceLenient.cfg
VARIABLES l
Ev == TraceLog[l]

Ok == (IF Has(Ev, "rc") THEN Ev.rc = 0 ELSE Ev.ok = 1)
ErrIs(name) == Ev.err = name
NewCap(b) == Ev.s.b[b].cap

Observed(s) ==
    /\ \A b \in BufIds : LET o == s.b[b] IN
         /\ o.len = Len(bufs'[b].data)
         /\ o.cap = bufs'[b].cap
         /\ o.d = bufs'[b].data
         /\ (o.null = 1) <=> (bufs'[b].cap = 0)
         /\ (o.al = 1) <=> bufs'[b].alive
    /\ \A c \in CurIds : curs'[c].base # STALE =>
         (s.c[c].base = curs'[c].base /\ s.c[c].off = curs'[c].off /\ s.c[c].len = curs'[c].len)

TReset == /\ Ev.e = "Reset"
          /\ bufs' = [b \in BufIds |-> DeadBuf] /\ curs' = [c \in CurIds |-> NullCur] /\ src' = Ev.src

TInit == Ev.e = "Init" /\ Init(Ev.b, Ev.n) /\ Ev.rc = 0 /\ Observed(Ev.s)
TInitCopy == Ev.e = "InitCopy" /\ InitCopy(Ev.d, Ev.sb, NewCap(Ev.d)) /\ Ev.rc = 0 /\ Observed(Ev.s)
TInitCopyFromCursor == Ev.e = "InitCopyFromCursor" /\ InitCopyFromCursor(Ev.d, Ev.c) /\ Ev.rc = 0 /\ Observed(Ev.s)
TInitCache == Ev.e = "InitCache" /\ InitCache(Ev.d, Ev.cs, Ok) /\ Observed(Ev.s)

TooSmall == ~Ok => ErrIs("AWS_ERROR_DEST_COPY_TOO_SMALL")        \* documented error code
TAppend == Ev.e = "Append" /\ BufAppend(Ev.b, Ev.c, Ok) /\ TooSmall /\ Observed(Ev.s)
TAppendWithLookup == Ev.e = "AppendWithLookup" /\ AppendWithLookup(Ev.b, Ev.c, Ev.t, Ok) /\ TooSmall /\ Observed(Ev.s)
TAppendAndUpdate == Ev.e = "AppendAndUpdate" /\ AppendAndUpdate(Ev.b, Ev.c, Ok) /\ TooSmall /\ Observed(Ev.s)
TCat == Ev.e = "Cat" /\ Cat(Ev.d, Ev.ss, Ok) /\ TooSmall /\ Observed(Ev.s)

(* secure variants: every block handed back to the allocator during the call was all-zero at release time *)
SecureOk == (Ev.sec = 1) => Ev.relnz = 0
TAppendDynamic == Ev.e = "AppendDynamic" /\ AppendDynamic(Ev.b, Ev.c, Ok, NewCap(Ev.b)) /\ SecureOk /\ Observed(Ev.s)
TAppendByteDynamic == Ev.e = "AppendByteDynamic" /\ AppendByteDynamic(Ev.b, Ev.v, Ok, NewCap(Ev.b)) /\ SecureOk /\ Observed(Ev.s)
TAppendNullTerminator == Ev.e = "AppendNullTerminator" /\ AppendNullTerminator(Ev.b, Ok, NewCap(Ev.b)) /\ Observed(Ev.s)
TReserve == Ev.e = "Reserve" /\ Reserve(Ev.kind, Ev.b, Ev.n, Ok, NewCap(Ev.b)) /\ Observed(Ev.s)

TWrite == Ev.e = "Write" /\ Write(Ev.b, Ev.off, Ev.n, Ok) /\ Observed(Ev.s)
TWriteU8 == Ev.e = "WriteU8" /\ WriteU8(Ev.b, Ev.v, Ok) /\ Observed(Ev.s)
TWriteU8N == Ev.e = "WriteU8N" /\ WriteU8N(Ev.b, Ev.v, Ev.n, Ok) /\ Observed(Ev.s)
TWriteBE == Ev.e = "WriteBE" /\ WriteBE(Ev.b, Ev.k, Ev.vs, Ok) /\ Observed(Ev.s)
TWriteFromWholeBuffer == Ev.e = "WriteFromWholeBuffer" /\ WriteFromWholeBuffer(Ev.b, Ev.sb, Ok) /\ Observed(Ev.s)
TWriteFromWholeCursor == Ev.e = "WriteFromWholeCursor" /\ WriteFromWholeCursor(Ev.b, Ev.c, Ok) /\ Observed(Ev.s)
TWriteToCapacity == Ev.e = "WriteToCapacity" /\ WriteToCapacity(Ev.b, Ev.c, Ev.d, Ev.rv) /\ Observed(Ev.s)

TBufAdvance ==
    /\ Ev.e = "BufAdvance"
    /\ LET b == Ev.b
           old == BLen(b)
           od == Ev.s.b[b].d
           fill == IF Ok /\ Ev.n <= 4096 /\ Len(od) = old + Ev.n THEN SubSeq(od, old + 1, old + Ev.n) ELSE <<>> IN
       /\ BufAdvance(b, Ev.n, Ok, fill)
       /\ IF Ok THEN /\ Ev.ocap = Ev.n /\ Ev.olen = 0 /\ Ev.oal = 0      \* sub-buffer: capacity n, empty, no allocator
                     /\ (Ev.onull = 1) <=> (Ev.n = 0)
                     /\ Ev.n > 0 => Ev.ooff = old                       \* ... located at the old end of the data
          ELSE Ev.ocap = 0 /\ Ev.olen = 0 /\ Ev.onull = 1 /\ Ev.oal = 0   \* documented: all fields nulled
    /\ Observed(Ev.s)
TBufReset == Ev.e = "Reset_" /\ Reset(Ev.b) /\ (Ev.z = 1 => Ev.allz = 1) /\ Observed(Ev.s)
TSecureZero == Ev.e = "SecureZero" /\ Reset(Ev.b) /\ Ev.allz = 1 /\ Observed(Ev.s)
TCleanUp == Ev.e = "CleanUp" /\ CleanUp(Ev.b) /\ SecureOk /\ Observed(Ev.s)

TCurNull == Ev.e = "CurNull" /\ CurNull(Ev.c) /\ Observed(Ev.s)
TCurSrc == Ev.e = "CurSrc" /\ CurSrc(Ev.c, Ev.off, Ev.n) /\ Observed(Ev.s)
TCurBuf == Ev.e = "CurBuf" /\ CurBuf(Ev.c, Ev.b) /\ Observed(Ev.s)
TCurBig == Ev.e = "CurBig" /\ CurBig(Ev.c, Ev.n) /\ Observed(Ev.s)
TCurCopy == Ev.e = "CurCopy" /\ CurCopy(Ev.d, Ev.c) /\ Observed(Ev.s)
TCurAdvance == Ev.e = "CurAdvance" /\ CurAdvance(Ev.c, Ev.n, Ev.d, Ev.rv) /\ Observed(Ev.s)
TRead == Ev.e = "Read" /\ Read(Ev.c, Ev.n, Ok, Ev.out) /\ Observed(Ev.s)
(* typed reads: out = the value's bytes, most significant first (be24 is reported as 4 bytes, the top one must be 0) *)
TReadU == /\ Ev.e = "ReadU"
          /\ IF Ok /\ Ev.k = 3 THEN Len(Ev.out) = 4 /\ Ev.out[1] = 0 /\ Read(Ev.c, 3, TRUE, Tail(Ev.out))
             ELSE Read(Ev.c, Ev.k, Ok, Ev.out)
          /\ Observed(Ev.s)
TReadHexU8 == Ev.e = "ReadHexU8" /\ ReadHexU8(Ev.c, Ok, Ev.v) /\ Observed(Ev.s)
TReadAndFill == Ev.e = "ReadAndFill" /\ ReadAndFill(Ev.c, Ev.b, Ok) /\ Observed(Ev.s)

TNextSplit == Ev.e = "NextSplit" /\ NextSplit(Ev.c, Ev.ch, Ev.k, Ev.res) /\ Observed(Ev.s)
TSplitOnCharN == /\ Ev.e = "SplitOnCharN" /\ (Ev.viaN = 0 => Ev.n = 0)
                 /\ SplitOnCharN(Ev.c, Ev.ch, Ev.n, Ev.cap, Ok, Ev.ents) /\ Observed(Ev.s)
TTrim == Ev.e = "Trim" /\ Trim(Ev.c, Ev.w, Ev.p, Ev.d, Ev.rv) /\ Observed(Ev.s)
TSatisfiesPred == Ev.e = "SatisfiesPred" /\ SatisfiesPred(Ev.c, Ev.p, Ev.r = 1) /\ Observed(Ev.s)
TCurEq == Ev.e = "CurEq" /\ CurEq(Ev.c1, Ev.c2, Ev.ic = 1, Ev.r = 1) /\ Observed(Ev.s)
TCurEqCStr == Ev.e = "CurEqCStr" /\ CurEqCStr(Ev.c, Ev.off, Ev.n, Ev.ic = 1, Ev.r = 1) /\ Observed(Ev.s)
TCurEqBuf == Ev.e = "CurEqBuf" /\ CurEqBuf(Ev.c, Ev.b, Ev.ic = 1, Ev.r = 1) /\ Observed(Ev.s)
TBufEq == Ev.e = "BufEq" /\ BufEq(Ev.a, Ev.b, Ev.ic = 1, Ev.r = 1) /\ Observed(Ev.s)
TBufEqCStr == Ev.e = "BufEqCStr" /\ BufEqCStr(Ev.b, Ev.off, Ev.n, Ev.ic = 1, Ev.r = 1) /\ Observed(Ev.s)
TCompareLexical == Ev.e = "CompareLexical" /\ CompareLexical(Ev.c1, Ev.c2, Ev.sign) /\ Observed(Ev.s)
TCompareLookup == Ev.e = "CompareLookup" /\ CompareLookup(Ev.c1, Ev.c2, Ev.t, Ev.sign) /\ Observed(Ev.s)
TStartsWith == Ev.e = "StartsWith" /\ StartsWith(Ev.c, Ev.p, Ev.ic = 1, Ev.r = 1) /\ Observed(Ev.s)
TFindExact == /\ Ev.e = "FindExact" /\ FindExact(Ev.c, Ev.f, Ev.d, Ok, Ev.rv)
              /\ (~Ok /\ curs[Ev.f].len > 0) => ErrIs("AWS_ERROR_STRING_MATCH_NOT_FOUND")      \* documented
              /\ Observed(Ev.s)
TParseU64 == Ev.e = "ParseU64" /\ ParseU64(Ev.c, IF Ev.hex = 1 THEN 16 ELSE 10, Ok, Ev.val) /\ Observed(Ev.s)

(* Deviation F8 (known_findings.txt; repaired in /repo by 410b286, so it is enabled by no configuration in use): the    *)
(* nospec advance, and the reads built on it, on a cursor of length exactly SIZE_MAX>>1 reported failure AND overwrote   *)
(* the caller's cursor with {NULL, 0}.                                                                                   *)
Dev_NospecHalfClobber ==
    /\ "NospecHalfClobber" \in EnabledDeviations
    /\ Ev.e \in {"CurAdvance", "Read", "ReadU"}
    /\ curs[Ev.c].base = ONEB /\ curs[Ev.c].len = HALF
    /\ IF Ev.e = "CurAdvance"
       THEN /\ Ev.nospec = 1 /\ Ev.n <= HALF /\ Ev.rv = NullCur
            /\ curs' = SetCur([curs EXCEPT ![Ev.c] = NullCur], Ev.d, NullCur)
       ELSE /\ Ev.ok = 0 /\ (Ev.e = "Read" => (Ev.n > 0 /\ Ev.n <= HALF))
            /\ curs' = [curs EXCEPT ![Ev.c] = NullCur]
    /\ UNCHANGED <<bufs, src>>
    /\ PrintT(<<"FIRED", "NospecHalfClobber", l>>)
    /\ Observed(Ev.s)

TEnd == Ev.e = "End" /\ Ev.live = 0 /\ UNCHANGED bbvars

TNext == /\ l <= TraceLen /\ l' = l + 1
         /\ \/ TReset \/ TEnd \/ Dev_NospecHalfClobber
            \/ TInit \/ TInitCopy \/ TInitCopyFromCursor \/ TInitCache
            \/ TAppend \/ TAppendWithLookup \/ TAppendAndUpdate \/ TCat
            \/ TAppendDynamic \/ TAppendByteDynamic \/ TAppendNullTerminator \/ TReserve
            \/ TWrite \/ TWriteU8 \/ TWriteU8N \/ TWriteBE \/ TWriteFromWholeBuffer \/ TWriteFromWholeCursor
            \/ TWriteToCapacity \/ TBufAdvance \/ TBufReset \/ TSecureZero \/ TCleanUp
            \/ TCurNull \/ TCurSrc \/ TCurBuf \/ TCurBig \/ TCurCopy \/ TCurAdvance
            \/ TRead \/ TReadU \/ TReadHexU8 \/ TReadAndFill
            \/ TNextSplit \/ TSplitOnCharN \/ TTrim \/ TSatisfiesPred
            \/ TCurEq \/ TCurEqCStr \/ TCurEqBuf \/ TBufEq \/ TBufEqCStr
            \/ TCompareLexical \/ TCompareLookup \/ TStartsWith \/ TFindExact \/ TParseU64
TInit0 == l = 1 /\ BBInit(<<>>)
TSpec == TInit0 /\ [][TNext]_<<bbvars, l>>

(* every state of an accepted trace satisfies the property's state invariants *)
TraceInv == LenLeCap /\ DeadIsZero /\ CursorsInBounds
=============================================================================
