#!/bin/bash
# dev helper: run_mc.sh <cfg> <module> [extra]
cd /verif/spec/ByteBuf
d=$(mktemp -d /tmp/bbmc.XXXX)
timeout ${TMO:-900} java -XX:+UseParallelGC -Xmx4g -cp /opt/veriftools/tla/tla2tools.jar:/opt/veriftools/tla/CommunityModules-deps.jar -DTLA-Library=/verif/spec/common tlc2.TLC -metadir $d -noGenerateSpecTE -workers ${W:-4} -config $1 "${@:3}" $2.tla 2>&1
rm -rf $d
