------------------------------ MODULE BigBufMC ------------------------------
(* Bounded exploration of BigBuf.tla: all call sequences over a few sizes (in "units": the relations only add and     *)
(* compare sizes, so small numbers exercise the same case analysis), all outcomes the contract allows for the          *)
(* capacity after growth within a small window.                                                                       *)
EXTENDS BigBuf, TLC
CONSTANTS Sizes, Vals, MaxLen, Slack
VARIABLE steps
vars == <<big, steps>>

Caps(need, old) == {c \in 0..(MaxLen + Slack) : c >= need /\ c >= old /\ c <= (IF need > old THEN need ELSE old) + Slack}

MInit == BInit0 /\ steps = 0
St == steps' = steps + 1
MInitB == \E b \in BigIds, n \in Sizes, c \in 0..(MaxLen + Slack) : c <= n + Slack /\ Init(b, n, TRUE, c) /\ St
MAppendFixed == \E b \in BigIds, v \in Vals, n \in Sizes, ok \in BOOLEAN : AppendFixed(b, v, n, ok, big[b].cap) /\ St
MAppendDynamic == \E b \in BigIds, v \in Vals, n \in Sizes :
                      big[b].len + n <= MaxLen /\ \E c \in Caps(big[b].len + n, big[b].cap) : AppendDynamic(b, v, n, TRUE, c) /\ St
MAppendSelf == \E b \in BigIds, off \in 0..MaxLen, n \in Sizes :
                   big[b].len + n <= MaxLen /\ \E c \in Caps(big[b].len + n, big[b].cap) : AppendSelf(b, off, n, TRUE, c) /\ St
MReserve == \E b \in BigIds, k \in {"abs", "rel"}, n \in Sizes :
                \E c \in Caps(IF k = "rel" THEN big[b].len + n ELSE n, big[b].cap) : c <= MaxLen + Slack /\ Reserve(k, b, n, TRUE, c) /\ St
MInitCopy == \E d \in BigIds, s \in BigIds : \E c \in Caps(big[s].len, 0) : InitCopy(d, s, TRUE, c) /\ St
MWriteU8N == \E b \in BigIds, v \in Vals, n \in Sizes, ok \in BOOLEAN : WriteU8N(b, v, n, ok, big[b].cap) /\ St
MReset == \E b \in BigIds : Reset(b, big[b].cap) /\ St
MCleanUp == \E b \in BigIds : CleanUp(b) /\ St

MNext == MInitB \/ MAppendFixed \/ MAppendDynamic \/ MAppendSelf \/ MReserve \/ MInitCopy \/ MWriteU8N \/ MReset \/ MCleanUp
MSpec == MInit /\ [][MNext]_vars
Bound == steps <= 5
KeepsPrefixMC == [][\A b \in BigIds : (big[b].alive /\ big'[b].alive /\ big'[b].len >= big[b].len /\ big[b].len > 0)
                      => Slice(big'[b].runs, 0, big[b].len) = big[b].runs]_vars
=============================================================================
