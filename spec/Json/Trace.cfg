SPECIFICATION TSpec
CONSTANTS SlotIds = {0, 1, 2, 3, 4, 5, 6, 7}
POSTCONDITION TraceAccepted
CHECK_DEADLOCK FALSE
