--------------------------- MODULE JsonValueTrace ---------------------------
(* Trace validation for C11.  Every public call the harness made is one event; it must be the JsonValue.tla       *)
(* action of the same name with exactly the logged arguments and results.  Values read from the library are       *)
(* logged as projections through the typed getters (is_* / get_string / get_number / get_boolean / iterate_object   *)
(* / get_array_size + get_array_element): {"t": tag, "x": payload}, numbers as the printf renderings                *)
(* ["%.15g", "%.17g", few] of the double.  After every call that changes a container the projection of that         *)
(* container is compared with the specification's value (`after`).                                               *)
(* Serialise events carry the output text byte for byte; the specification Parses it.                            *)
EXTENDS JsonValue, TraceCommon

VARIABLES l
Ev == TraceLog[l]
Chk(b) == b = TRUE
DevOn(name) == ("VERIF_DEV_" \o name) \in DOMAIN IOEnv

(* the slot's value after the call is what the library shows *)
After(s, proj) == Chk(Same(Norm(proj), slots'[s]))

TReset == /\ Ev.e = "Reset"
          /\ slots' = [s \in SlotIds |-> Empty] /\ printed' = [s \in SlotIds |-> {}] /\ origin' = [s \in SlotIds |-> NoText]

(* what the arguments of a constructor describe; a number is identified by the projection itself *)
Want(kind, arg, got) ==
    CASE kind = "null" -> VNull
      [] kind = "bool" -> V("bool", arg)
      [] kind = "str" -> V("str", arg)
      [] kind = "obj" -> V("obj", <<>>)
      [] kind = "arr" -> V("arr", <<>>)
      [] kind = "num" -> got
TNew == /\ Ev.e = "New"
        /\ LET got == Norm(Ev.got) IN
           /\ Chk(Ev.kind = "num" => (got.t = "num" /\ got.x.n17 # BadNum))                  \* driver: finite numbers only
           /\ New(Ev.s, Want(Ev.kind, Ev.arg, got), got)
TDestroy == Ev.e = "Destroy" /\ Destroy(Ev.s)
TAddToObject == Ev.e = "AddToObject" /\ AddToObject(Ev.o, Ev.key, Ev.c, Ev.rc) /\ After(Ev.o, Ev.after)
TGetFromObject == Ev.e = "GetFromObject" /\ GetFromObject(Ev.o, Ev.key, Ev.found, Norm(Ev.got))
THasKey == Ev.e = "HasKey" /\ HasKeyOp(Ev.o, Ev.key, Ev.res)
TRemoveFromObject == Ev.e = "RemoveFromObject" /\ RemoveFromObject(Ev.o, Ev.key, Ev.rc) /\ After(Ev.o, Ev.after)
TAddArrayElement == Ev.e = "AddArrayElement" /\ AddArrayElement(Ev.a, Ev.c, Ev.rc) /\ After(Ev.a, Ev.after)
TGetArrayElement == Ev.e = "GetArrayElement" /\ GetArrayElement(Ev.a, Ev.i, Ev.found, Norm(Ev.got))
TGetArraySize == Ev.e = "GetArraySize" /\ GetArraySize(Ev.a, Ev.n)
TRemoveArrayElement == /\ Ev.e = "RemoveArrayElement"
                       /\ RemoveArrayElement(Ev.a, Ev.i, Ev.rc)
                       /\ After(Ev.a, Ev.after)
(* known finding, enabled from known_findings.txt by checks/c11.py: only where the strict action refuses *)
TDevRemoveAtSize == /\ Ev.e = "RemoveArrayElement" /\ DevOn("RMSIZE")
                    /\ Dev_RemoveAtSizeSucceeds(Ev.a, Ev.i, Ev.rc)
                    /\ After(Ev.a, Ev.after)
                    /\ PrintT(<<"FIRED", "RMSIZE", Ev.i>>)
TDuplicate == Ev.e = "Duplicate" /\ Duplicate(Ev.s, Ev.d, Ev.ok, Norm(Ev.got))
TDuplicateSub == Ev.e = "DuplicateSub" /\ DuplicateSub(Ev.from = "obj", Ev.o, Ev.key, Ev.i, Ev.d, Ev.found, Ev.ok, Norm(Ev.got))
TCompare == Ev.e = "Compare" /\ Compare(Ev.a, Ev.b, Ev.res)
TSerialise == Ev.e = "Serialise" /\ Serialise(Ev.s, Ev.rc, Ev.pre, Ev.out)
TParseText == Ev.e = "ParseText" /\ ParseText(Ev.s, Ev.text, Ev.ok, Norm(Ev.got))
TRoundTrip == Ev.e = "RoundTrip" /\ RoundTrip(Ev.a, Ev.b, Ev.close)
TEnd == Ev.e = "End" /\ Ev.live = 0 /\ UNCHANGED jvars

TNext == /\ l <= TraceLen /\ l' = l + 1
         /\ \/ TReset \/ TNew \/ TDestroy \/ TAddToObject \/ TGetFromObject \/ THasKey \/ TRemoveFromObject
            \/ TAddArrayElement \/ TGetArrayElement \/ TGetArraySize \/ TRemoveArrayElement \/ TDevRemoveAtSize
            \/ TDuplicate \/ TDuplicateSub \/ TCompare \/ TSerialise \/ TParseText \/ TRoundTrip \/ TEnd
TInit == l = 1 /\ Init
TSpec == TInit /\ [][TNext]_<<jvars, l>>
=============================================================================
