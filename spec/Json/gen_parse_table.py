#!/usr/bin/env python3
"""Regenerates the Good / Bad tables of JsonValueMC.tla (between the @PARSE-TABLE markers): hand-made JSON texts and the
tree an RFC 8259 reader produces, computed with this language's json module (numbers kept as exact decimals), so the
TLA+ parser is checked against an independent implementation."""
import json
import os
from decimal import Decimal

HERE = os.path.dirname(os.path.abspath(__file__))

GOOD = [
    'null', ' true ', '\tfalse\n', '0', '-0', '-0.0', '1', '-12', '1.5', '0.001', '1e3', '1E3', '1e+3', '1.50e-3', '-1.25E+02', '100', '10.0100',
    '123456789012345', '1.7976931348623157e308', '4.9406564584124654e-324', '2147483648', '-2147483649', '9007199254740993',
    '1e-07', '0e5', '0.0e-5', '""', '"a"', '"a b"', r'"\""', r'"\\"', r'"\/"', r'"\b\f\n\r\t"', '"\\u0041"', '"\\u00e9"', '"\\u00E9"', '"\\u20ac"', '"\\ud83d\\ude00"', '"\\uD83D\\uDE00x"', '"\\udbff\\udfff"', '"\\ud800\\udc00"', '"a\\u00e9b"', r'"A"', r'"é"', r'"é"',
    r'"€"', r'"😀"', r'"😀x"', r'"􏿿"', r'"𐀀"', r'"\u007f"', '"é€\U0001f600"',
    r'"\u001f"', '"\x7f"', '[]', '[ ]', '{}', '{ }', '[1]', '[1,2]', '[ 1 , 2 ]', '[[]]', '[[],[]]', '[{}]', '{"a":1}', '{ "a" : 1 }',
    '{"a":1,"b":[true,null]}', '{"":0}', '{"a":{"b":{"c":[]}}}', '{"a":1,"a":2}', '[1,"1",[1],{"1":1}]',
    '{\n\t"k\\"y":\t[\n\t\t1,\n\t\t"x"\n\t]\n}', ' [ null , true , false ] ', '[1.0e0,1E-0,-1e+00]', '{"a":"\\u0001"}', '[\r\n]',
    '"\\u0080"', '"\\u07ff"', '"\\u0800"', '"\\uffff"', '"\\ud7ff"', '"\\ue000"',
]
BAD = [
    '', ' ', 'nul', 'nulll', 'True', 'tru', '+1', '01', '-01', '1.', '.5', '-.5', '1e', '1e+', '1.e3', '0x10', '--1', '1 2', 'NaN', 'Infinity', '-Infinity',
    '"', '"a', '"\\"', '"\\x"', '"\\u12"', '"\\u12g4"', '"\\ud800"', '"\\ud800x"', '"\\ud800\\u0041"', '"\\udc00"', '"\\ude00\\ud83d"',
    '"\x01"', '"\n"', '"\t"', '"\x1f"', "'a'", '[', ']', '[1', '[1,', '[1,]', '[,1]', '[1 2]', '[1,,2]', '{', '}', '{"a"}', '{"a":}', '{"a":1,}',
    '{,"a":1}', '{a:1}', '{"a" 1}', '{"a":1 "b":2}', '{1:1}', '[1}', '{"a":1]', 'null null', '[] []', '{} x', '[1],', '"a" "b"', 'nullx',
    '[true,fals]', '\x0cnull', '\xa0null',
]


def numeral(d):
    sign, digits, exp = d.as_tuple()
    digits = list(digits)
    while digits and digits[0] == 0:
        digits.pop(0)
    while digits and digits[-1] == 0:
        digits.pop()
        exp += 1
    if not digits:
        return "N(0, <<>>, 0)"
    return "N(%d, <<%s>>, %d)" % (sign, ", ".join(map(str, digits)), len(digits) + exp)


def tla_bytes(b):
    return "<<" + ", ".join(str(x) for x in b) + ">>"


class Pairs(list):
    pass


def tree(v):
    if v is None:
        return "VNull"
    if v is True:
        return 'V("bool", <<1>>)'
    if v is False:
        return 'V("bool", <<0>>)'
    if isinstance(v, Decimal):
        return numeral(v)
    if isinstance(v, str):
        return "S(%s)" % tla_bytes(v.encode("utf-8"))
    if isinstance(v, Pairs):
        return 'V("obj", <<%s>>)' % ", ".join("<<%s, %s>>" % (tla_bytes(k.encode("utf-8")), tree(x)) for k, x in v)
    if isinstance(v, list):
        return 'V("arr", <<%s>>)' % ", ".join(tree(x) for x in v)
    raise ValueError(v)


def main():
    good = []
    for t in GOOD:
        v = json.loads(t, parse_float=Decimal, parse_int=Decimal, object_pairs_hook=Pairs)
        good.append("  <<%s, %s>>" % (tla_bytes(t.encode("utf-8")), tree(v)))
    bad = []
    for t in BAD:
        raw = t.encode("latin-1")
        if t not in ("NaN", "Infinity", "-Infinity", '"\\ud800"', '"\\ud800x"', '"\\ud800\\u0041"', '"\\udc00"', '"\\ude00\\ud83d"'):
            try:
                json.loads(raw.decode("latin-1"))
                raise SystemExit("python accepts %r" % t)
            except ValueError:
                pass
        bad.append("  %s" % tla_bytes(raw))
    p = os.path.join(HERE, "JsonValueMC.tla")
    text = open(p).read()
    for name, rows in (("GOOD", good), ("BAD", bad)):
        a = text.index("\\* @PARSE-TABLE-%s-BEGIN" % name) + len("\\* @PARSE-TABLE-%s-BEGIN\n" % name)
        b = text.index("  \\* @PARSE-TABLE-%s-END" % name)
        text = text[:a] + ",\n".join(rows) + "\n" + text[b:]
    open(p, "w").write(text)
    print(len(good), len(bad))


if __name__ == "__main__":
    main()
