------------------------------ MODULE JsonValue ------------------------------
(* C11: JSON values of aws-c-common (source/json.c over the vendored cJSON).  (The module is not called      *)
(* Json because that is the name of the community module TraceCommon extends.)                              *)
(*                                                                                                          *)
(* Values are recursive structures [t |-> tag, x |-> payload]:                                                *)
(*     "null"  x = <<>>              "bool"  x = <<0>> or <<1>>          "str"  x = byte sequence              *)
(*     "arr"   x = <<value, ...>>    "obj"   x = << <<key bytes, value>>, ... >>   (member order matters)      *)
(*     "num"   in a *text tree* (what Parse reads)  x = a numeral <<neg, digits, exp10>>: the decimal         *)
(*                   0.d1 d2 ... dk * 10^exp10, no leading / trailing zero digit, zero = <<0, <<>>, 0>>        *)
(*             in a *value tree* (what the library holds)  x = [n15, n17, few, c15]: the numerals of the        *)
(*                   double printed with 15 and with 17 significant digits (a trusted projection done by the    *)
(*                   harness with printf), whether the double has at most 15 significant decimal digits         *)
(*                   (few = 1: its 15-digit rendering reads back as the same double) and whether its 15-digit   *)
(*                   rendering reads back within one part in 2^52 (c15 = 1; C arithmetic of the harness)        *)
(* TLC never does floating point: a double is only ever its decimal numerals.                                 *)
(*                                                                                                          *)
(* Parse(text) is an RFC 8259 reader written here (tokenizer + recursive descent over a byte sequence:        *)
(* whitespace, the two-character escapes, backslash-u-XXXX including surrogate pairs -> UTF-8, strict number grammar,    *)
(* no raw control characters, no trailing commas, nothing but whitespace after the value).  It is the          *)
(* "independent parser" of the property: whatever the serialiser emits must Parse to the tree that was          *)
(* serialised.  JsonMC.tla checks it against a reference renderer and a table of hand-made texts.             *)
(*                                                                                                          *)
(* The API is a state machine over `slots` (value handles owned by the caller); each action relates the        *)
(* state, the arguments and the reported results of one public call.                                          *)
EXTENDS Integers, Sequences, FiniteSets

CONSTANTS SlotIds
VARIABLES slots,      \* slot -> value tree, or Empty
          printed,    \* slot -> set of texts serialised from the slot's current value
          origin      \* slot -> the text the slot's current value was parsed from (<<-1>> = none)
jvars == <<slots, printed, origin>>

V(t, x) == [t |-> t, x |-> x]
Empty == V("none", <<>>)
VNull == V("null", <<>>)
VBool(b) == V("bool", <<IF b THEN 1 ELSE 0>>)
NoText == <<-1>>
Holds(b) == b = TRUE          \* evaluate as a plain expression (TLC would split an action-level disjunction into branches)

-----------------------------------------------------------------------------
(* numerals *)
ZeroNum == <<0, <<>>, 0>>
BadNum == <<2, <<>>, 0>>                       \* not a finite number ("inf", "nan", or not a number at all)
At(t, i) == IF i >= 1 /\ i <= Len(t) THEN t[i] ELSE -1
IsDigit(c) == c >= 48 /\ c <= 57
RECURSIVE DigitsEnd(_, _)
DigitsEnd(t, j) == IF IsDigit(At(t, j)) THEN DigitsEnd(t, j + 1) ELSE j
RECURSIVE DecNat(_, _, _, _)
DecNat(t, i, j, acc) == IF i > j THEN acc ELSE DecNat(t, i + 1, j, 10 * acc + (t[i] - 48))
(* the JSON number token starting at i: [ok, next, num] *)
NumFail == [ok |-> FALSE, next |-> 0, num |-> BadNum]
NumTok(t, i) ==
    LET neg == At(t, i) = 45
        i1 == IF neg THEN i + 1 ELSE i
        iend == IF At(t, i1) = 48 THEN i1 + 1 ELSE IF IsDigit(At(t, i1)) THEN DigitsEnd(t, i1) ELSE 0
    IN IF iend = 0 THEN NumFail
       ELSE
       LET hasfrac == At(t, iend) = 46
           fend == IF ~hasfrac THEN iend ELSE IF IsDigit(At(t, iend + 1)) THEN DigitsEnd(t, iend + 1) ELSE 0
       IN IF fend = 0 THEN NumFail
          ELSE
          LET hasexp == At(t, fend) \in {101, 69}
              esign == At(t, fend + 1) \in {43, 45}
              d0 == IF esign THEN fend + 2 ELSE fend + 1
              eend == IF ~hasexp THEN fend ELSE IF IsDigit(At(t, d0)) THEN DigitsEnd(t, d0) ELSE 0
          IN IF eend = 0 \/ (hasexp /\ eend - d0 > 5) THEN NumFail
             ELSE
             LET ev == IF ~hasexp THEN 0 ELSE (IF At(t, fend + 1) = 45 THEN -1 ELSE 1) * DecNat(t, d0, eend - 1, 0)
                 D == [k \in 1..((iend - i1) + (IF hasfrac THEN fend - iend - 1 ELSE 0)) |->
                          IF k <= iend - i1 THEN t[i1 + k - 1] - 48 ELSE t[iend + 1 + (k - (iend - i1)) - 1] - 48]
                 nz == {k \in 1..Len(D) : D[k] # 0}
             IN IF nz = {} THEN [ok |-> TRUE, next |-> eend, num |-> ZeroNum]
                ELSE LET lo == CHOOSE k \in nz : \A m \in nz : k <= m
                         hi == CHOOSE k \in nz : \A m \in nz : k >= m
                     IN [ok |-> TRUE, next |-> eend,
                         num |-> <<IF neg THEN 1 ELSE 0, SubSeq(D, lo, hi), (iend - i1) + ev - (lo - 1)>>]
(* a whole ASCII string as a numeral (the harness' printf renderings); BadNum if it is not a number *)
Numeral(s) == LET r == NumTok(s, 1) IN IF r.ok /\ r.next = Len(s) + 1 THEN r.num ELSE BadNum
SigDigits(num) == Len(num[2])

-----------------------------------------------------------------------------
(* the parser *)
IsWs(c) == c \in {32, 9, 10, 13}
RECURSIVE SkipWs(_, _)
SkipWs(t, i) == IF IsWs(At(t, i)) THEN SkipWs(t, i + 1) ELSE i
HexVal(c) == IF c >= 48 /\ c <= 57 THEN c - 48
             ELSE IF c >= 97 /\ c <= 102 THEN c - 87
             ELSE IF c >= 65 /\ c <= 70 THEN c - 55 ELSE -1
(* backslash-u-XXXX with the backslash at i: the code unit, or -1 *)
Hex4(t, i) == LET a == HexVal(At(t, i + 2)) b == HexVal(At(t, i + 3)) c == HexVal(At(t, i + 4)) d == HexVal(At(t, i + 5))
              IN IF At(t, i) # 92 \/ At(t, i + 1) # 117 \/ a < 0 \/ b < 0 \/ c < 0 \/ d < 0 THEN -1
                 ELSE 4096 * a + 256 * b + 16 * c + d
Utf8(cp) == IF cp < 128 THEN <<cp>>
            ELSE IF cp < 2048 THEN <<192 + (cp \div 64), 128 + (cp % 64)>>
            ELSE IF cp < 65536 THEN <<224 + (cp \div 4096), 128 + ((cp \div 64) % 64), 128 + (cp % 64)>>
            ELSE <<240 + (cp \div 262144), 128 + ((cp \div 4096) % 64), 128 + ((cp \div 64) % 64), 128 + (cp % 64)>>
PFail == [ok |-> FALSE, next |-> 0, v |-> Empty]
(* string body: i is the position after the opening quote *)
RECURSIVE StrLoop(_, _, _)
StrLoop(t, i, acc) ==
    LET c == At(t, i) IN
    IF c = 34 THEN [ok |-> TRUE, next |-> i + 1, v |-> V("str", acc)]
    ELSE IF c < 32 THEN PFail                                            \* end of text or a raw control character
    ELSE IF c # 92 THEN StrLoop(t, i + 1, Append(acc, c))
    ELSE LET e == At(t, i + 1) IN
         IF e \in {34, 92, 47} THEN StrLoop(t, i + 2, Append(acc, e))
         ELSE IF e = 98 THEN StrLoop(t, i + 2, Append(acc, 8))
         ELSE IF e = 102 THEN StrLoop(t, i + 2, Append(acc, 12))
         ELSE IF e = 110 THEN StrLoop(t, i + 2, Append(acc, 10))
         ELSE IF e = 114 THEN StrLoop(t, i + 2, Append(acc, 13))
         ELSE IF e = 116 THEN StrLoop(t, i + 2, Append(acc, 9))
         ELSE IF e # 117 THEN PFail
         ELSE LET u == Hex4(t, i) IN
              IF u < 0 THEN PFail
              ELSE IF u >= 56320 /\ u <= 57343 THEN PFail                 \* lone low surrogate
              ELSE IF u >= 55296 /\ u <= 56319
                   THEN LET w == Hex4(t, i + 6) IN
                        IF w < 56320 \/ w > 57343 THEN PFail              \* high surrogate without its partner
                        ELSE StrLoop(t, i + 12, acc \o Utf8(65536 + (u - 55296) * 1024 + (w - 56320)))
              ELSE StrLoop(t, i + 6, acc \o Utf8(u))
Lit(t, i, w) == i + Len(w) - 1 <= Len(t) /\ SubSeq(t, i, i + Len(w) - 1) = w
RECURSIVE PValue(_, _), PElems(_, _, _), PMembers(_, _, _)
PValue(t, i) ==
    LET c == At(t, i) IN
    IF c = 123 THEN LET j == SkipWs(t, i + 1) IN
                    IF At(t, j) = 125 THEN [ok |-> TRUE, next |-> j + 1, v |-> V("obj", <<>>)] ELSE PMembers(t, j, <<>>)
    ELSE IF c = 91 THEN LET j == SkipWs(t, i + 1) IN
                        IF At(t, j) = 93 THEN [ok |-> TRUE, next |-> j + 1, v |-> V("arr", <<>>)] ELSE PElems(t, j, <<>>)
    ELSE IF c = 34 THEN StrLoop(t, i + 1, <<>>)
    ELSE IF c = 116 THEN (IF Lit(t, i, <<116, 114, 117, 101>>) THEN [ok |-> TRUE, next |-> i + 4, v |-> V("bool", <<1>>)] ELSE PFail)
    ELSE IF c = 102 THEN (IF Lit(t, i, <<102, 97, 108, 115, 101>>) THEN [ok |-> TRUE, next |-> i + 5, v |-> V("bool", <<0>>)] ELSE PFail)
    ELSE IF c = 110 THEN (IF Lit(t, i, <<110, 117, 108, 108>>) THEN [ok |-> TRUE, next |-> i + 4, v |-> VNull] ELSE PFail)
    ELSE IF c = 45 \/ IsDigit(c) THEN LET r == NumTok(t, i) IN
                                      IF r.ok THEN [ok |-> TRUE, next |-> r.next, v |-> V("num", r.num)] ELSE PFail
    ELSE PFail
(* i at the first character of an element *)
PElems(t, i, acc) ==
    LET r == PValue(t, i) IN
    IF ~r.ok THEN PFail
    ELSE LET j == SkipWs(t, r.next) IN
         IF At(t, j) = 44 THEN PElems(t, SkipWs(t, j + 1), Append(acc, r.v))
         ELSE IF At(t, j) = 93 THEN [ok |-> TRUE, next |-> j + 1, v |-> V("arr", Append(acc, r.v))]
         ELSE PFail
(* i at the opening quote of a member name *)
PMembers(t, i, acc) ==
    IF At(t, i) # 34 THEN PFail
    ELSE LET k == StrLoop(t, i + 1, <<>>) IN
         IF ~k.ok THEN PFail
         ELSE LET j == SkipWs(t, k.next) IN
              IF At(t, j) # 58 THEN PFail
              ELSE LET r == PValue(t, SkipWs(t, j + 1)) IN
                   IF ~r.ok THEN PFail
                   ELSE LET m == SkipWs(t, r.next) IN
                        IF At(t, m) = 44 THEN PMembers(t, SkipWs(t, m + 1), Append(acc, <<k.v.x, r.v>>))
                        ELSE IF At(t, m) = 125 THEN [ok |-> TRUE, next |-> m + 1, v |-> V("obj", Append(acc, <<k.v.x, r.v>>))]
                        ELSE PFail
Parse(t) == LET r == PValue(t, SkipWs(t, 1)) IN
            IF r.ok /\ SkipWs(t, r.next) = Len(t) + 1 THEN [ok |-> TRUE, v |-> r.v] ELSE [ok |-> FALSE, v |-> Empty]

-----------------------------------------------------------------------------
(* value trees *)
(* the harness' projection of a library value (numbers as printf renderings) -> value tree *)
RECURSIVE Norm(_)
Norm(p) ==
    CASE p.t = "num" -> V("num", [n15 |-> Numeral(p.x[1]), n17 |-> Numeral(p.x[2]), few |-> p.x[3], c15 |-> p.x[4]])
      [] p.t = "arr" -> V("arr", [i \in 1..Len(p.x) |-> Norm(p.x[i])])
      [] p.t = "obj" -> V("obj", [i \in 1..Len(p.x) |-> <<p.x[i][1], Norm(p.x[i][2])>>])
      [] OTHER -> V(p.t, p.x)
(* a double is identified by its 17-digit numeral; the sign of zero is not part of a numeral *)
SameNum(a, b) == a.n17 = b.n17
RECURSIVE Same(_, _)
Same(a, b) ==
    IF a.t # b.t THEN FALSE
    ELSE CASE a.t = "num" -> SameNum(a.x, b.x)
           [] a.t = "arr" -> Len(a.x) = Len(b.x) /\ \A i \in 1..Len(a.x) : Same(a.x[i], b.x[i])
           [] a.t = "obj" -> Len(a.x) = Len(b.x) /\ \A i \in 1..Len(a.x) : a.x[i][1] = b.x[i][1] /\ Same(a.x[i][2], b.x[i][2])
           [] OTHER -> a.x = b.x
(* text tree tt reads as value tree vt: same structure, member order, strings, literals.  A number token must be   *)
(* the 17-digit numeral of the double (which identifies it), or its 15-digit numeral (integers print with fewer    *)
(* digits: the same numeral) provided that numeral stands for the double:                                       *)
(*   exact = TRUE  (text -> value, parsing):      the 15-digit rendering reads back as the very double (few)      *)
(*   exact = FALSE (value -> text, serialising):  the 15-digit rendering reads back within one part in 2^52 (c15)  *)
NumReads(tok, n, exact) == tok # BadNum /\ (tok = n.n17 \/ (tok = n.n15 /\ (IF exact THEN n.few = 1 ELSE n.c15 = 1)))
RECURSIVE ReadsAs(_, _, _)
ReadsAs(tt, vt, exact) ==
    IF tt.t # vt.t THEN FALSE
    ELSE CASE tt.t = "num" -> NumReads(tt.x, vt.x, exact)
           [] tt.t = "arr" -> Len(tt.x) = Len(vt.x) /\ \A i \in 1..Len(tt.x) : ReadsAs(tt.x[i], vt.x[i], exact)
           [] tt.t = "obj" -> Len(tt.x) = Len(vt.x) /\ \A i \in 1..Len(tt.x) : tt.x[i][1] = vt.x[i][1] /\ ReadsAs(tt.x[i][2], vt.x[i][2], exact)
           [] OTHER -> tt.x = vt.x
(* b is what a became after serialise + parse: everything but numbers identical; a number with at most 15       *)
(* significant digits is the same double                                                                      *)
RECURSIVE Survived(_, _)
Survived(a, b) ==
    IF a.t # b.t THEN FALSE
    ELSE CASE a.t = "num" -> (a.x.few = 1 => SameNum(a.x, b.x))
           [] a.t = "arr" -> Len(a.x) = Len(b.x) /\ \A i \in 1..Len(a.x) : Survived(a.x[i], b.x[i])
           [] a.t = "obj" -> Len(a.x) = Len(b.x) /\ \A i \in 1..Len(a.x) : a.x[i][1] = b.x[i][1] /\ Survived(a.x[i][2], b.x[i][2])
           [] OTHER -> a.x = b.x
RECURSIVE NumCount(_)
RECURSIVE SumCounts(_, _, _)
SumCounts(xs, i, pair) == IF i > Len(xs) THEN 0 ELSE NumCount(IF pair THEN xs[i][2] ELSE xs[i]) + SumCounts(xs, i + 1, pair)
NumCount(v) == CASE v.t = "num" -> 1 [] v.t = "arr" -> SumCounts(v.x, 1, FALSE) [] v.t = "obj" -> SumCounts(v.x, 1, TRUE) [] OTHER -> 0
RECURSIVE Finite(_)
Finite(v) == CASE v.t = "num" -> v.x.n17 # BadNum
               [] v.t = "arr" -> \A i \in 1..Len(v.x) : Finite(v.x[i])
               [] v.t = "obj" -> \A i \in 1..Len(v.x) : Finite(v.x[i][2])
               [] OTHER -> TRUE

Keys(o) == {o.x[i][1] : i \in 1..Len(o.x)}
HasKey(o, k) == o.t = "obj" /\ k \in Keys(o)
FirstIdx(o, k) == CHOOSE i \in 1..Len(o.x) : o.x[i][1] = k /\ \A j \in 1..(i - 1) : o.x[j][1] # k
Without(s, i) == SubSeq(s, 1, i - 1) \o SubSeq(s, i + 1, Len(s))
(* the property does not say what lookups do for keys that differ only in letter case (cJSON folds case): the     *)
(* driver must not create that situation                                                                      *)
Fold(k) == [i \in 1..Len(k) |-> IF k[i] >= 65 /\ k[i] <= 90 THEN k[i] + 32 ELSE k[i]]
CaseClash(o, k) == o.t = "obj" /\ \E i \in 1..Len(o.x) : o.x[i][1] # k /\ Fold(o.x[i][1]) = Fold(k)

-----------------------------------------------------------------------------
Init == /\ slots = [s \in SlotIds |-> Empty]
        /\ printed = [s \in SlotIds |-> {}]
        /\ origin = [s \in SlotIds |-> NoText]
Live(s) == slots[s] # Empty
(* the value of slot s becomes v: texts derived from the old value are forgotten *)
Set(s, v) == /\ slots' = [slots EXCEPT ![s] = v]
             /\ printed' = [printed EXCEPT ![s] = {}]
             /\ origin' = [origin EXCEPT ![s] = NoText]
Set2(s, v, c) == /\ slots' = [slots EXCEPT ![s] = v, ![c] = Empty]
                 /\ printed' = [printed EXCEPT ![s] = {}, ![c] = {}]
                 /\ origin' = [origin EXCEPT ![s] = NoText, ![c] = NoText]

(* aws_json_value_new_*: want = the value the arguments describe; got = what the typed getters read back *)
New(s, want, got) == ~Live(s) /\ Holds(Same(got, want)) /\ Set(s, got)
Destroy(s) == Live(s) /\ Set(s, Empty)

(* aws_json_value_add_to_object: a second member with the same key is refused and the caller keeps the value *)
AddToObject(o, key, c, rc) ==
    /\ Live(o) /\ Live(c) /\ o # c /\ Holds(~CaseClash(slots[o], key))
    /\ IF slots[o].t = "obj" /\ ~HasKey(slots[o], key)
       THEN rc = 0 /\ Set2(o, V("obj", Append(slots[o].x, <<key, slots[c]>>)), c)
       ELSE rc # 0 /\ UNCHANGED jvars
GetFromObject(o, key, found, got) ==
    /\ Live(o) /\ Holds(~CaseClash(slots[o], key)) /\ UNCHANGED jvars
    /\ Holds(IF HasKey(slots[o], key) THEN found /\ Same(got, slots[o].x[FirstIdx(slots[o], key)][2]) ELSE ~found)
HasKeyOp(o, key, res) ==
    /\ Live(o) /\ Holds(~CaseClash(slots[o], key)) /\ UNCHANGED jvars
    /\ Holds(res = HasKey(slots[o], key))
RemoveFromObject(o, key, rc) ==
    /\ Live(o) /\ Holds(~CaseClash(slots[o], key))
    /\ IF HasKey(slots[o], key)
       THEN rc = 0 /\ Set(o, V("obj", Without(slots[o].x, FirstIdx(slots[o], key))))
       ELSE rc # 0 /\ UNCHANGED jvars
(* arrays: indices follow insertion order *)
AddArrayElement(a, c, rc) ==
    /\ Live(a) /\ Live(c) /\ a # c
    /\ IF slots[a].t = "arr" THEN rc = 0 /\ Set2(a, V("arr", Append(slots[a].x, slots[c])), c)
       ELSE rc # 0 /\ UNCHANGED jvars
InRange(a, i) == slots[a].t = "arr" /\ i >= 0 /\ i < Len(slots[a].x)
GetArrayElement(a, i, found, got) ==
    /\ Live(a) /\ UNCHANGED jvars
    /\ Holds(IF InRange(a, i) THEN found /\ Same(got, slots[a].x[i + 1]) ELSE ~found)
GetArraySize(a, n) == Live(a) /\ UNCHANGED jvars /\ Holds(n = (IF slots[a].t = "arr" THEN Len(slots[a].x) ELSE 0))
RemoveArrayElement(a, i, rc) ==
    /\ Live(a)
    /\ IF InRange(a, i) THEN rc = 0 /\ Set(a, V("arr", Without(slots[a].x, i + 1)))
       ELSE rc # 0 /\ UNCHANGED jvars                                   \* json.h: AWS_OP_ERR if the index is out of range
(* known finding (json.c compares index > size): removing at index = size reports success and removes nothing *)
Dev_RemoveAtSizeSucceeds(a, i, rc) ==
    /\ Live(a) /\ slots[a].t = "arr" /\ i = Len(slots[a].x) /\ rc = 0
    /\ UNCHANGED jvars

Duplicate(s, d, ok, got) == Live(s) /\ ~Live(d) /\ Holds(ok /\ Same(got, slots[s])) /\ Set(d, got)
(* a duplicate (any identical tree) compares equal; values of different kinds, different strings or literals do not *)
Compare(a, b, res) ==
    /\ Live(a) /\ Live(b) /\ UNCHANGED jvars
    /\ Holds(Same(slots[a], slots[b]) => res)
    /\ Holds((slots[a].t # slots[b].t \/ (slots[a].t \in {"str", "bool"} /\ slots[a].x # slots[b].x)) => ~res)

(* aws_byte_buf_append_json_string(_formatted): appended after the buffer's content; the text is valid JSON that  *)
(* reads as the value                                                                                         *)
Serialise(s, rc, pre, out) ==
    /\ Live(s) /\ Holds(Finite(slots[s]))
    /\ rc = 0 /\ Len(out) >= Len(pre) /\ SubSeq(out, 1, Len(pre)) = pre
    /\ LET text == SubSeq(out, Len(pre) + 1, Len(out))
           p == Parse(text)
       IN /\ Holds(p.ok /\ ReadsAs(p.v, slots[s], FALSE))
          /\ printed' = [printed EXCEPT ![s] = @ \cup {text}]
    /\ UNCHANGED <<slots, origin>>
(* aws_json_value_new_from_string on valid JSON: succeeds and holds what the text says *)
ParseText(s, text, ok, got) ==
    /\ ~Live(s)
    /\ LET p == Parse(text) IN
       Holds(IF p.ok THEN ok /\ ReadsAs(p.v, got, TRUE) ELSE TRUE)                 \* invalid text: accepting or refusing is left open
    /\ IF ok THEN /\ slots' = [slots EXCEPT ![s] = got]
                  /\ printed' = [printed EXCEPT ![s] = {}]
                  /\ origin' = [origin EXCEPT ![s] = text]
       ELSE UNCHANGED jvars
(* b was parsed from a serialisation of a: it survived.  close[i]: the harness' own arithmetic on the i-th number  *)
(* of both trees, |x' - x| <= |x| * 2^-52 (outside what a decimal specification can express)                   *)
RoundTrip(a, b, close) ==
    /\ Live(a) /\ Live(b) /\ origin[b] \in printed[a] /\ UNCHANGED jvars
    /\ Holds(Survived(slots[a], slots[b]))
    /\ Holds(Len(close) = NumCount(slots[a]) /\ \A i \in 1..Len(close) : close[i] = 1)

-----------------------------------------------------------------------------
(* invariants for the model checker *)
RECURSIVE DistinctKeys(_)
DistinctKeys(v) ==
    CASE v.t = "obj" -> /\ \A i, j \in 1..Len(v.x) : i # j => v.x[i][1] # v.x[j][1]
                        /\ \A i \in 1..Len(v.x) : DistinctKeys(v.x[i][2])
      [] v.t = "arr" -> \A i \in 1..Len(v.x) : DistinctKeys(v.x[i])
      [] OTHER -> TRUE
RECURSIVE Nodes(_)
RECURSIVE SumNodes(_, _, _)
SumNodes(xs, i, pair) == IF i > Len(xs) THEN 0 ELSE Nodes(IF pair THEN xs[i][2] ELSE xs[i]) + SumNodes(xs, i + 1, pair)
Nodes(v) == CASE v.t = "arr" -> 1 + SumNodes(v.x, 1, FALSE) [] v.t = "obj" -> 1 + SumNodes(v.x, 1, TRUE) [] OTHER -> 1
=============================================================================
