------------------------------ MODULE JsonValue ------------------------------
(* C11: JSON values of aws-c-common (source/json.c over the vendored cJSON).  (The module is not called      *)
(* Json because that is the name of the community module TraceCommon extends.)                              *)
(*                                                                                                          *)
(* Values are recursive structures [t |-> tag, x |-> payload]:                                                *)
(*     "null"  x = <<>>              "bool"  x = <<0>> or <<1>>          "str"  x = byte sequence              *)
(*     "arr"   x = <<value, ...>>    "obj"   x = << <<key bytes, value>>, ... >>   (member order matters)      *)
(*     "num"   in a *text tree* (what Parse reads)  x = a numeral <<neg, digits, exp10>>: the decimal         *)
(*                   0.d1 d2 ... dk * 10^exp10, no leading / trailing zero digit, zero = <<0, <<>>, 0>>        *)
(*             in a *value tree* (what the library holds)  x = [n15, n17, few, c15]: the numerals of the        *)
(*                   double printed with 15 and with 17 significant digits (a trusted projection done by the    *)
(*                   harness with printf), whether the double has at most 15 significant decimal digits         *)
(*                   (few = 1: its 15-digit rendering reads back as the same double) and whether its 15-digit   *)
(*                   rendering reads back within one part in 2^52 (c15 = 1; C arithmetic of the harness)        *)
(* TLC never does floating point: a double is only ever its decimal numerals.                                 *)
(*                                                                                                          *)
(* Parse(text) is an RFC 8259 reader written here (tokenizer + recursive descent over a byte sequence:        *)
(* whitespace, the two-character escapes, backslash-u-XXXX including surrogate pairs -> UTF-8, strict number grammar,    *)
(* no raw control characters, no trailing commas, nothing but whitespace after the value).  It is the          *)
(* "independent parser" of the property: whatever the serialiser emits must Parse to the tree that was          *)
(* serialised.  JsonMC.tla checks it against a reference renderer and a table of hand-made texts.             *)
(*                                                                                                          *)
(* The API is a state machine over `slots` (value handles owned by the caller); each action relates the        *)
(* state, the arguments and the reported results of one public call.                                          *)
EXTENDS Integers, Sequences, FiniteSets

CONSTANTS SlotIds
VARIABLES slots,      \* slot -> value tree, or Empty
          printed,    \* slot -> set of texts serialised from the slot's current value
          origin      \* slot -> the text the slot's current value was parsed from (<<-1>> = none)
jvars == <<slots, printed, origin>>

V(t, x) == [t |-> t, x |-> x]
Empty == V("none", <<>>)
VNull == V("null", <<>>)
VBool(b) == V("bool", <<IF b THEN 1 ELSE 0>>)
NoText == <<-1>>
Holds(b) == b = TRUE          \* evaluate as a plain expression (TLC would split an action-level disjunction into branches)

-----------------------------------------------------------------------------
(* numerals *)
ZeroNum == <<0, <<>>, 0>>
BadNum == <<2, <<>>, 0>>                       \* not a finite number ("inf", "nan", or not a number at all)
At(t, i) == IF i >= 1 /\ i <= Len(t) THEN t[i] ELSE -1
IsDigit(c) == c >= 48 /\ c <= 57
RECURSIVE DigitsEnd(_, _)
DigitsEnd(t, j) == IF IsDigit(At(t, j)) THEN DigitsEnd(t, j + 1) ELSE j
RECURSIVE DecNat(_, _, _, _)
DecNat(t, i, j, acc) == IF i > j THEN acc ELSE DecNat(t, i + 1, j, 10 * acc + (t[i] - 48))
(* the JSON number token starting at i: [ok, next, num].  Written as a chain of operators that pass their        *)
(* intermediate positions as parameters (TLC's coverage pass re-expands every use of a LET definition).            *)
NumFail == [ok |-> FALSE, next |-> 0, num |-> BadNum]
(* digits D (integer part of length ilen first), decimal exponent ev, token ends before `next` *)
NumNorm(neg, D, ilen, ev, next) ==
    LET nz == {k \in 1..Len(D) : D[k] # 0} IN
    IF nz = {} THEN [ok |-> TRUE, next |-> next, num |-> ZeroNum]
    ELSE LET lo == CHOOSE k \in nz : \A m \in nz : k <= m
             hi == CHOOSE k \in nz : \A m \in nz : k >= m
         IN [ok |-> TRUE, next |-> next, num |-> <<IF neg THEN 1 ELSE 0, SubSeq(D, lo, hi), ilen + ev - (lo - 1)>>]
(* i1: first digit, iend: after the integer part, fend: after the fraction, d0: first exponent digit, eend: end *)
NumFin(t, neg, i1, iend, fend, d0, eend) ==
    IF eend = 0 \/ eend - d0 > 5 THEN NumFail
    ELSE NumNorm(neg,
                 [k \in 1..((iend - i1) + (IF fend > iend THEN fend - iend - 1 ELSE 0)) |->
                     IF k <= iend - i1 THEN t[i1 + k - 1] - 48 ELSE t[iend + (k - (iend - i1))] - 48],
                 iend - i1,
                 IF eend = fend THEN 0 ELSE (IF At(t, fend + 1) = 45 THEN -1 ELSE 1) * DecNat(t, d0, eend - 1, 0),
                 eend)
NumExp(t, neg, i1, iend, fend) ==
    IF fend = 0 THEN NumFail
    ELSE IF At(t, fend) \notin {101, 69} THEN NumFin(t, neg, i1, iend, fend, fend, fend)
    ELSE IF At(t, fend + 1) \in {43, 45}
         THEN NumFin(t, neg, i1, iend, fend, fend + 2, IF IsDigit(At(t, fend + 2)) THEN DigitsEnd(t, fend + 2) ELSE 0)
         ELSE NumFin(t, neg, i1, iend, fend, fend + 1, IF IsDigit(At(t, fend + 1)) THEN DigitsEnd(t, fend + 1) ELSE 0)
NumFrac(t, neg, i1, iend) ==
    IF iend = 0 THEN NumFail
    ELSE IF At(t, iend) # 46 THEN NumExp(t, neg, i1, iend, iend)
    ELSE NumExp(t, neg, i1, iend, IF IsDigit(At(t, iend + 1)) THEN DigitsEnd(t, iend + 1) ELSE 0)
NumInt(t, neg, i1) ==
    NumFrac(t, neg, i1, IF At(t, i1) = 48 THEN i1 + 1 ELSE IF IsDigit(At(t, i1)) THEN DigitsEnd(t, i1) ELSE 0)
NumTok(t, i) == IF At(t, i) = 45 THEN NumInt(t, TRUE, i + 1) ELSE NumInt(t, FALSE, i)
(* a whole ASCII string as a numeral (the harness' printf renderings); BadNum if it is not a number *)
Numeral(s) == LET r == NumTok(s, 1) IN IF r.ok /\ r.next = Len(s) + 1 THEN r.num ELSE BadNum
SigDigits(num) == Len(num[2])

-----------------------------------------------------------------------------
(* the parser *)
IsWs(c) == c \in {32, 9, 10, 13}
RECURSIVE SkipWs(_, _)
SkipWs(t, i) == IF IsWs(At(t, i)) THEN SkipWs(t, i + 1) ELSE i
HexVal(c) == IF c >= 48 /\ c <= 57 THEN c - 48
             ELSE IF c >= 97 /\ c <= 102 THEN c - 87
             ELSE IF c >= 65 /\ c <= 70 THEN c - 55 ELSE -1
(* backslash-u-XXXX with the backslash at i: the code unit, or -1 *)
Hex4(t, i) == LET a == HexVal(At(t, i + 2)) b == HexVal(At(t, i + 3)) c == HexVal(At(t, i + 4)) d == HexVal(At(t, i + 5))
              IN IF At(t, i) # 92 \/ At(t, i + 1) # 117 \/ a < 0 \/ b < 0 \/ c < 0 \/ d < 0 THEN -1
                 ELSE 4096 * a + 256 * b + 16 * c + d
Utf8(cp) == IF cp < 128 THEN <<cp>>
            ELSE IF cp < 2048 THEN <<192 + (cp \div 64), 128 + (cp % 64)>>
            ELSE IF cp < 65536 THEN <<224 + (cp \div 4096), 128 + ((cp \div 64) % 64), 128 + (cp % 64)>>
            ELSE <<240 + (cp \div 262144), 128 + ((cp \div 4096) % 64), 128 + ((cp \div 64) % 64), 128 + (cp % 64)>>
PFail == [ok |-> FALSE, next |-> 0, v |-> Empty]
(* one step of a string body at position i: [ok, n = characters consumed, bytes = bytes produced]; the closing    *)
(* quote is n = 0                                                                                              *)
StrStep(t, i) ==
    LET c == At(t, i)
        e == At(t, i + 1)
        u == Hex4(t, i)
        w == Hex4(t, i + 6)
        Bad == [ok |-> FALSE, n |-> 0, bytes |-> <<>>]
        Got(n, bytes) == [ok |-> TRUE, n |-> n, bytes |-> bytes]
    IN IF c = 34 THEN Got(0, <<>>)
       ELSE IF c < 32 THEN Bad                                            \* end of text or a raw control character
       ELSE IF c # 92 THEN Got(1, <<c>>)
       ELSE IF e \in {34, 92, 47} THEN Got(2, <<e>>)
       ELSE IF e = 98 THEN Got(2, <<8>>)
       ELSE IF e = 102 THEN Got(2, <<12>>)
       ELSE IF e = 110 THEN Got(2, <<10>>)
       ELSE IF e = 114 THEN Got(2, <<13>>)
       ELSE IF e = 116 THEN Got(2, <<9>>)
       ELSE IF e # 117 \/ u < 0 THEN Bad
       ELSE IF u >= 56320 /\ u <= 57343 THEN Bad                          \* lone low surrogate
       ELSE IF u >= 55296 /\ u <= 56319
            THEN (IF w < 56320 \/ w > 57343 THEN Bad                      \* high surrogate without its partner
                  ELSE Got(12, Utf8(65536 + (u - 55296) * 1024 + (w - 56320))))
       ELSE Got(6, Utf8(u))
(* string body: i is the position after the opening quote *)
RECURSIVE StrLoop(_, _, _)
StrLoop(t, i, acc) ==
    LET s == StrStep(t, i) IN
    IF ~s.ok THEN PFail
    ELSE IF s.n = 0 THEN [ok |-> TRUE, next |-> i + 1, v |-> V("str", acc)]
    ELSE StrLoop(t, i + s.n, acc \o s.bytes)
Lit(t, i, w) == i + Len(w) - 1 <= Len(t) /\ SubSeq(t, i, i + Len(w) - 1) = w
(* Recursive descent.  Intermediate results travel as operator parameters, not LET definitions (see NumTok). *)
Ok(next, v) == [ok |-> TRUE, next |-> next, v |-> v]
NumVal(r) == IF r.ok THEN Ok(r.next, V("num", r.num)) ELSE PFail
RECURSIVE PValue(_, _), PElems(_, _, _), PElemsK(_, _, _), PElemsJ(_, _, _, _),
          PMembers(_, _, _), PMemK(_, _, _), PMemC(_, _, _, _), PMemV(_, _, _, _), PMemE(_, _, _, _, _)
PValue(t, i) ==
    CASE At(t, i) = 123 -> IF At(t, SkipWs(t, i + 1)) = 125 THEN Ok(SkipWs(t, i + 1) + 1, V("obj", <<>>))
                           ELSE PMembers(t, SkipWs(t, i + 1), <<>>)
      [] At(t, i) = 91 -> IF At(t, SkipWs(t, i + 1)) = 93 THEN Ok(SkipWs(t, i + 1) + 1, V("arr", <<>>))
                          ELSE PElems(t, SkipWs(t, i + 1), <<>>)
      [] At(t, i) = 34 -> StrLoop(t, i + 1, <<>>)
      [] At(t, i) = 116 -> IF Lit(t, i, <<116, 114, 117, 101>>) THEN Ok(i + 4, V("bool", <<1>>)) ELSE PFail
      [] At(t, i) = 102 -> IF Lit(t, i, <<102, 97, 108, 115, 101>>) THEN Ok(i + 5, V("bool", <<0>>)) ELSE PFail
      [] At(t, i) = 110 -> IF Lit(t, i, <<110, 117, 108, 108>>) THEN Ok(i + 4, VNull) ELSE PFail
      [] At(t, i) = 45 \/ IsDigit(At(t, i)) -> NumVal(NumTok(t, i))
      [] OTHER -> PFail
(* i at the first character of an element; r = that element; j = first non-blank after it *)
PElems(t, i, acc) == PElemsK(t, acc, PValue(t, i))
PElemsK(t, acc, r) == IF ~r.ok THEN PFail ELSE PElemsJ(t, acc, r, SkipWs(t, r.next))
PElemsJ(t, acc, r, j) ==
    IF At(t, j) = 44 THEN PElems(t, SkipWs(t, j + 1), Append(acc, r.v))
    ELSE IF At(t, j) = 93 THEN Ok(j + 1, V("arr", Append(acc, r.v)))
    ELSE PFail
(* i at the opening quote of a member name; k = the name; j = the colon; r = the value; m = first non-blank after it *)
PMembers(t, i, acc) == IF At(t, i) # 34 THEN PFail ELSE PMemK(t, acc, StrLoop(t, i + 1, <<>>))
PMemK(t, acc, k) == IF ~k.ok THEN PFail ELSE PMemC(t, acc, k, SkipWs(t, k.next))
PMemC(t, acc, k, j) == IF At(t, j) # 58 THEN PFail ELSE PMemV(t, acc, k, PValue(t, SkipWs(t, j + 1)))
PMemV(t, acc, k, r) == IF ~r.ok THEN PFail ELSE PMemE(t, acc, k, r, SkipWs(t, r.next))
PMemE(t, acc, k, r, m) ==
    IF At(t, m) = 44 THEN PMembers(t, SkipWs(t, m + 1), Append(acc, <<k.v.x, r.v>>))
    ELSE IF At(t, m) = 125 THEN Ok(m + 1, V("obj", Append(acc, <<k.v.x, r.v>>)))
    ELSE PFail
ParseEnd(t, r) == IF r.ok /\ SkipWs(t, r.next) = Len(t) + 1 THEN [ok |-> TRUE, v |-> r.v] ELSE [ok |-> FALSE, v |-> Empty]
Parse(t) == ParseEnd(t, PValue(t, SkipWs(t, 1)))

-----------------------------------------------------------------------------
(* value trees *)
(* the harness' projection of a library value (numbers as printf renderings) -> value tree *)
NumX(x) == [n15 |-> Numeral(x[1]), n17 |-> Numeral(x[2]), few |-> x[3], c15 |-> x[4]]
(* the flat form used for very deep trees: nodes in document order as <<kind, number of children, payload>>, an    *)
(* object member being a <<"key", 0, name>> entry followed by its value                                          *)
RECURSIVE UFNode(_, _), UFArr(_, _, _, _), UFArrK(_, _, _, _), UFObj(_, _, _, _), UFObjK(_, _, _, _, _)
UFNode(xs, i) ==
    CASE xs[i][1] = "arr" -> UFArr(xs, i + 1, xs[i][2], <<>>)
      [] xs[i][1] = "obj" -> UFObj(xs, i + 1, xs[i][2], <<>>)
      [] xs[i][1] = "num" -> [v |-> V("num", NumX(xs[i][3])), next |-> i + 1]
      [] OTHER -> [v |-> V(xs[i][1], xs[i][3]), next |-> i + 1]
UFArr(xs, i, n, acc) == IF n = 0 THEN [v |-> V("arr", acc), next |-> i] ELSE UFArrK(xs, n, acc, UFNode(xs, i))
UFArrK(xs, n, acc, r) == UFArr(xs, r.next, n - 1, Append(acc, r.v))
UFObj(xs, i, n, acc) == IF n = 0 THEN [v |-> V("obj", acc), next |-> i] ELSE UFObjK(xs, n, acc, xs[i][3], UFNode(xs, i + 1))
UFObjK(xs, n, acc, key, r) == UFObj(xs, r.next, n - 1, Append(acc, <<key, r.v>>))
RECURSIVE Norm(_)
Norm(p) ==
    CASE p.t = "flat" -> UFNode(p.x, 1).v
      [] p.t = "num" -> V("num", NumX(p.x))
      [] p.t = "arr" -> V("arr", [i \in 1..Len(p.x) |-> Norm(p.x[i])])
      [] p.t = "obj" -> V("obj", [i \in 1..Len(p.x) |-> <<p.x[i][1], Norm(p.x[i][2])>>])
      [] OTHER -> V(p.t, p.x)
(* a double is identified by its 17-digit numeral; the sign of zero is not part of a numeral *)
SameNum(a, b) == a.n17 = b.n17
RECURSIVE Same(_, _)
Same(a, b) ==
    IF a.t # b.t THEN FALSE
    ELSE CASE a.t = "num" -> SameNum(a.x, b.x)
           [] a.t = "arr" -> Len(a.x) = Len(b.x) /\ \A i \in 1..Len(a.x) : Same(a.x[i], b.x[i])
           [] a.t = "obj" -> Len(a.x) = Len(b.x) /\ \A i \in 1..Len(a.x) : a.x[i][1] = b.x[i][1] /\ Same(a.x[i][2], b.x[i][2])
           [] OTHER -> a.x = b.x
(* text tree tt reads as value tree vt: same structure, member order, strings, literals.  A number token must be   *)
(* the 17-digit numeral of the double (which identifies it), or its 15-digit numeral (integers print with fewer    *)
(* digits: the same numeral) provided that numeral stands for the double:                                       *)
(*   exact = TRUE  (text -> value, parsing):      the 15-digit rendering reads back as the very double (few)      *)
(*   exact = FALSE (value -> text, serialising):  the 15-digit rendering reads back within one part in 2^52 (c15)  *)
NumReads(tok, n, exact) == tok # BadNum /\ (tok = n.n17 \/ (tok = n.n15 /\ (IF exact THEN n.few = 1 ELSE n.c15 = 1)))
RECURSIVE ReadsAs(_, _, _)
ReadsAs(tt, vt, exact) ==
    IF tt.t # vt.t THEN FALSE
    ELSE CASE tt.t = "num" -> NumReads(tt.x, vt.x, exact)
           [] tt.t = "arr" -> Len(tt.x) = Len(vt.x) /\ \A i \in 1..Len(tt.x) : ReadsAs(tt.x[i], vt.x[i], exact)
           [] tt.t = "obj" -> Len(tt.x) = Len(vt.x) /\ \A i \in 1..Len(tt.x) : tt.x[i][1] = vt.x[i][1] /\ ReadsAs(tt.x[i][2], vt.x[i][2], exact)
           [] OTHER -> tt.x = vt.x
(* b is what a became after serialise + parse: everything but numbers identical; a number with at most 15       *)
(* significant digits is the same double                                                                      *)
RECURSIVE Survived(_, _)
Survived(a, b) ==
    IF a.t # b.t THEN FALSE
    ELSE CASE a.t = "num" -> (a.x.few = 1 => SameNum(a.x, b.x))
           [] a.t = "arr" -> Len(a.x) = Len(b.x) /\ \A i \in 1..Len(a.x) : Survived(a.x[i], b.x[i])
           [] a.t = "obj" -> Len(a.x) = Len(b.x) /\ \A i \in 1..Len(a.x) : a.x[i][1] = b.x[i][1] /\ Survived(a.x[i][2], b.x[i][2])
           [] OTHER -> a.x = b.x
RECURSIVE NumCount(_)
RECURSIVE SumCounts(_, _, _)
SumCounts(xs, i, pair) == IF i > Len(xs) THEN 0 ELSE NumCount(IF pair THEN xs[i][2] ELSE xs[i]) + SumCounts(xs, i + 1, pair)
NumCount(v) == CASE v.t = "num" -> 1 [] v.t = "arr" -> SumCounts(v.x, 1, FALSE) [] v.t = "obj" -> SumCounts(v.x, 1, TRUE) [] OTHER -> 0
RECURSIVE Finite(_)
Finite(v) == CASE v.t = "num" -> v.x.n17 # BadNum
               [] v.t = "arr" -> \A i \in 1..Len(v.x) : Finite(v.x[i])
               [] v.t = "obj" -> \A i \in 1..Len(v.x) : Finite(v.x[i][2])
               [] OTHER -> TRUE

Keys(o) == {o.x[i][1] : i \in 1..Len(o.x)}
HasKey(o, k) == o.t = "obj" /\ k \in Keys(o)
FirstIdx(o, k) == CHOOSE i \in 1..Len(o.x) : o.x[i][1] = k /\ \A j \in 1..(i - 1) : o.x[j][1] # k
Without(s, i) == SubSeq(s, 1, i - 1) \o SubSeq(s, i + 1, Len(s))
(* the property does not say what lookups do for keys that differ only in letter case (cJSON folds case): the     *)
(* driver must not create that situation                                                                      *)
Fold(k) == [i \in 1..Len(k) |-> IF k[i] >= 65 /\ k[i] <= 90 THEN k[i] + 32 ELSE k[i]]
CaseClash(o, k) == o.t = "obj" /\ \E i \in 1..Len(o.x) : o.x[i][1] # k /\ Fold(o.x[i][1]) = Fold(k)

-----------------------------------------------------------------------------
Init == /\ slots = [s \in SlotIds |-> Empty]
        /\ printed = [s \in SlotIds |-> {}]
        /\ origin = [s \in SlotIds |-> NoText]
Live(s) == slots[s] # Empty
(* the value of slot s becomes v: texts derived from the old value are forgotten *)
Set(s, v) == /\ slots' = [slots EXCEPT ![s] = v]
             /\ printed' = [printed EXCEPT ![s] = {}]
             /\ origin' = [origin EXCEPT ![s] = NoText]
Set2(s, v, c) == /\ slots' = [slots EXCEPT ![s] = v, ![c] = Empty]
                 /\ printed' = [printed EXCEPT ![s] = {}, ![c] = {}]
                 /\ origin' = [origin EXCEPT ![s] = NoText, ![c] = NoText]

(* aws_json_value_new_*: want = the value the arguments describe; got = what the typed getters read back *)
New(s, want, got) == ~Live(s) /\ Holds(Same(got, want)) /\ Set(s, got)
Destroy(s) == Live(s) /\ Set(s, Empty)

(* aws_json_value_add_to_object: a second member with the same key is refused and the caller keeps the value *)
AddToObject(o, key, c, rc) ==
    /\ Live(o) /\ Live(c) /\ o # c /\ Holds(~CaseClash(slots[o], key))
    /\ IF slots[o].t = "obj" /\ ~HasKey(slots[o], key)
       THEN rc = 0 /\ Set2(o, V("obj", Append(slots[o].x, <<key, slots[c]>>)), c)
       ELSE rc # 0 /\ UNCHANGED jvars
GetFromObject(o, key, found, got) ==
    /\ Live(o) /\ Holds(~CaseClash(slots[o], key)) /\ UNCHANGED jvars
    /\ Holds(IF HasKey(slots[o], key) THEN found /\ Same(got, slots[o].x[FirstIdx(slots[o], key)][2]) ELSE ~found)
HasKeyOp(o, key, res) ==
    /\ Live(o) /\ Holds(~CaseClash(slots[o], key)) /\ UNCHANGED jvars
    /\ Holds(res = HasKey(slots[o], key))
RemoveFromObject(o, key, rc) ==
    /\ Live(o) /\ Holds(~CaseClash(slots[o], key))
    /\ IF HasKey(slots[o], key)
       THEN rc = 0 /\ Set(o, V("obj", Without(slots[o].x, FirstIdx(slots[o], key))))
       ELSE rc # 0 /\ UNCHANGED jvars
(* arrays: indices follow insertion order *)
AddArrayElement(a, c, rc) ==
    /\ Live(a) /\ Live(c) /\ a # c
    /\ IF slots[a].t = "arr" THEN rc = 0 /\ Set2(a, V("arr", Append(slots[a].x, slots[c])), c)
       ELSE rc # 0 /\ UNCHANGED jvars
InRange(a, i) == slots[a].t = "arr" /\ i >= 0 /\ i < Len(slots[a].x)
GetArrayElement(a, i, found, got) ==
    /\ Live(a) /\ UNCHANGED jvars
    /\ Holds(IF InRange(a, i) THEN found /\ Same(got, slots[a].x[i + 1]) ELSE ~found)
GetArraySize(a, n) == Live(a) /\ UNCHANGED jvars /\ Holds(n = (IF slots[a].t = "arr" THEN Len(slots[a].x) ELSE 0))
RemoveArrayElement(a, i, rc) ==
    /\ Live(a)
    /\ IF InRange(a, i) THEN rc = 0 /\ Set(a, V("arr", Without(slots[a].x, i + 1)))
       ELSE rc # 0 /\ UNCHANGED jvars                                   \* json.h: AWS_OP_ERR if the index is out of range
(* known finding (json.c compares index > size): removing at index = size reports success and removes nothing *)
Dev_RemoveAtSizeSucceeds(a, i, rc) ==
    /\ Live(a) /\ slots[a].t = "arr" /\ i = Len(slots[a].x) /\ rc = 0
    /\ UNCHANGED jvars

Duplicate(s, d, ok, got) == Live(s) /\ ~Live(d) /\ Holds(ok /\ Same(got, slots[s])) /\ Set(d, got)
(* duplicate of a value that is still inside its container: a value of its own, identical to the member *)
DuplicateSub(fromObj, o, key, i, d, found, ok, got) ==
    /\ Live(o) /\ ~Live(d)
    /\ IF fromObj
       THEN /\ Holds(~CaseClash(slots[o], key))
            /\ IF HasKey(slots[o], key)
               THEN Holds(found /\ ok /\ Same(got, slots[o].x[FirstIdx(slots[o], key)][2])) /\ Set(d, got)
               ELSE Holds(~found) /\ UNCHANGED jvars
       ELSE IF InRange(o, i)
            THEN Holds(found /\ ok /\ Same(got, slots[o].x[i + 1])) /\ Set(d, got)
            ELSE Holds(~found) /\ UNCHANGED jvars
(* a duplicate (any identical tree) compares equal; values of different kinds, different strings or literals do not *)
Compare(a, b, res) ==
    /\ Live(a) /\ Live(b) /\ UNCHANGED jvars
    /\ Holds(Same(slots[a], slots[b]) => res)
    /\ Holds((slots[a].t # slots[b].t \/ (slots[a].t \in {"str", "bool"} /\ slots[a].x # slots[b].x)) => ~res)

(* aws_byte_buf_append_json_string(_formatted): appended after the buffer's content; the text is valid JSON that  *)
(* reads as the value                                                                                         *)
Serialise(s, rc, pre, out) ==
    /\ Live(s) /\ Holds(Finite(slots[s]))
    /\ rc = 0 /\ Len(out) >= Len(pre) /\ SubSeq(out, 1, Len(pre)) = pre
    /\ LET text == SubSeq(out, Len(pre) + 1, Len(out))
           p == Parse(text)
       IN /\ Holds(p.ok /\ ReadsAs(p.v, slots[s], FALSE))
          /\ printed' = [printed EXCEPT ![s] = @ \cup {text}]
    /\ UNCHANGED <<slots, origin>>
(* aws_json_value_new_from_string on valid JSON: succeeds and holds what the text says *)
ParseText(s, text, ok, got) ==
    /\ ~Live(s)
    /\ LET p == Parse(text) IN
       Holds(IF p.ok THEN ok /\ ReadsAs(p.v, got, TRUE) ELSE TRUE)                 \* invalid text: accepting or refusing is left open
    /\ IF ok THEN /\ slots' = [slots EXCEPT ![s] = got]
                  /\ printed' = [printed EXCEPT ![s] = {}]
                  /\ origin' = [origin EXCEPT ![s] = text]
       ELSE UNCHANGED jvars
(* b was parsed from a serialisation of a: it survived.  close[i]: the harness' own arithmetic on the i-th number  *)
(* of both trees, |x' - x| <= |x| * 2^-52 (outside what a decimal specification can express)                   *)
(* (Whether b really is a re-parse of a text printed from a is the driver's business: a script generated from the    *)
(* model may pair two slots whose texts coincide in the model's rendering but not in the library's - an empty       *)
(* container printed formatted - and then the event says nothing about the library.)                                *)
RoundTrip(a, b, close) ==
    /\ Live(a) /\ Live(b) /\ UNCHANGED jvars
    /\ origin[b] \in printed[a] =>
         /\ Holds(Survived(slots[a], slots[b]))
         /\ Holds(Len(close) = NumCount(slots[a]) /\ \A i \in 1..Len(close) : close[i] = 1)

-----------------------------------------------------------------------------
(* invariants for the model checker *)
RECURSIVE DistinctKeys(_)
DistinctKeys(v) ==
    CASE v.t = "obj" -> /\ \A i, j \in 1..Len(v.x) : i # j => v.x[i][1] # v.x[j][1]
                        /\ \A i \in 1..Len(v.x) : DistinctKeys(v.x[i][2])
      [] v.t = "arr" -> \A i \in 1..Len(v.x) : DistinctKeys(v.x[i])
      [] OTHER -> TRUE
RECURSIVE Nodes(_)
RECURSIVE SumNodes(_, _, _)
SumNodes(xs, i, pair) == IF i > Len(xs) THEN 0 ELSE Nodes(IF pair THEN xs[i][2] ELSE xs[i]) + SumNodes(xs, i + 1, pair)
Nodes(v) == CASE v.t = "arr" -> 1 + SumNodes(v.x, 1, FALSE) [] v.t = "obj" -> 1 + SumNodes(v.x, 1, TRUE) [] OTHER -> 1
=============================================================================
