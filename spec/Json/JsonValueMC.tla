----------------------------- MODULE JsonValueMC -----------------------------
(* Bounded exploration of JsonValue.tla.                                                                      *)
(*   MC.cfg    every sequence of API calls over 3 slots, 2 keys, 6 scalars (a string with quote, backslash,      *)
(*             control character and multi-byte UTF-8; a negative fraction with exponent), trees of <= MaxNodes *)
(*             nodes: DistinctKeys (a refused duplicate never gets in), ParserInv (the reference renderer's      *)
(*             compact and indented output of every reachable tree Parses back to that tree), SlotInv           *)
(*   ASSUME    a table of hand-made texts with the tree an RFC 8259 reader must produce (or refuse)              *)
(*   Gen.cfg   simulation: API programs printed as scripts                                                     *)
(* Results (rc, found, got ...) are chosen by the action relations themselves: the model proposes the            *)
(* candidates and the relation keeps the consistent one.                                                       *)
EXTENDS JsonValue, TLC, Json

CONSTANTS KeySet, ScalarSeq, MaxNodes, GenDepth
VARIABLES hist
mcvars == <<slots, printed, origin, hist>>

NumV(n) == V("num", [n15 |-> n, n17 |-> n, few |-> 1, c15 |-> 1])
(* index in this table = scalar id used by generated scripts (checks/c11.py carries the same table) *)
Scalars == << VNull, V("bool", <<1>>), V("bool", <<0>>), V("str", <<97, 34, 92, 10, 1, 195, 169>>), V("str", <<>>),
              NumV(<<1, <<1, 2, 5>>, -2>>), NumV(<<0, <<4, 2>>, 2>>), V("obj", <<>>), V("arr", <<>>) >>
ScalarsMC == << VNull, V("str", <<97, 34, 92, 10, 1, 195, 169>>), NumV(<<1, <<1, 2, 5>>, -2>>), V("obj", <<>>), V("arr", <<>>) >>
KeysAB == {<<97>>, <<98>>}
Symm == Permutations(SlotIds)
KeysGen == {<<97>>, <<98>>, <<>>, <<107, 34, 121>>}

-----------------------------------------------------------------------------
(* reference renderer *)
RECURSIVE Cat(_, _)
Cat(ss, i) == IF i > Len(ss) THEN <<>> ELSE ss[i] \o Cat(ss, i + 1)
HexDigit(v) == IF v < 10 THEN 48 + v ELSE 87 + v
Esc(c) == IF c = 34 THEN <<92, 34>> ELSE IF c = 92 THEN <<92, 92>> ELSE IF c = 10 THEN <<92, 110>>
          ELSE IF c = 9 THEN <<92, 116>> ELSE IF c < 32 THEN <<92, 117, 48, 48, HexDigit(c \div 16), HexDigit(c % 16)>> ELSE <<c>>
RStr(s) == <<34>> \o Cat([i \in 1..Len(s) |-> Esc(s[i])], 1) \o <<34>>
RECURSIVE DecDigits(_)
DecDigits(n) == IF n < 10 THEN <<48 + n>> ELSE Append(DecDigits(n \div 10), 48 + (n % 10))
RNum(n) == IF n = ZeroNum THEN <<48>>
           ELSE (IF n[1] = 1 THEN <<45>> ELSE <<>>) \o <<48, 46>> \o [i \in 1..Len(n[2]) |-> 48 + n[2][i]]
                \o <<101>> \o (IF n[3] < 0 THEN <<45>> \o DecDigits(-n[3]) ELSE DecDigits(n[3]))
Indent(d) == [i \in 1..d |-> 9]
RECURSIVE Render(_, _, _)
Render(v, pretty, d) ==
    LET nl == IF pretty THEN <<10>> \o Indent(d + 1) ELSE <<>>
        nle == IF pretty THEN <<10>> \o Indent(d) ELSE <<>>
        sep == IF pretty THEN <<44>> \o nl ELSE <<44>>
    IN CASE v.t = "null" -> <<110, 117, 108, 108>>
         [] v.t = "bool" -> IF v.x[1] = 1 THEN <<116, 114, 117, 101>> ELSE <<102, 97, 108, 115, 101>>
         [] v.t = "str" -> RStr(v.x)
         [] v.t = "num" -> RNum(v.x.n15)
         [] v.t = "arr" -> IF Len(v.x) = 0 THEN <<91, 93>>
                           ELSE <<91>> \o nl \o Cat([i \in 1..Len(v.x) |-> (IF i > 1 THEN sep ELSE <<>>) \o Render(v.x[i], pretty, d + 1)], 1)
                                \o nle \o <<93>>
         [] v.t = "obj" -> IF Len(v.x) = 0 THEN <<123, 125>>
                           ELSE <<123>> \o nl \o Cat([i \in 1..Len(v.x) |-> (IF i > 1 THEN sep ELSE <<>>) \o RStr(v.x[i][1]) \o <<58>>
                                                         \o (IF pretty THEN <<32>> ELSE <<>>) \o Render(v.x[i][2], pretty, d + 1)], 1)
                                \o nle \o <<125>>

-----------------------------------------------------------------------------
Rec(o) == hist' = IF GenDepth > 0 THEN Append(hist, o) ELSE hist
G == GenDepth > 0 => Len(hist) < GenDepth
Op(name, a, b, k, i) == [op |-> name, a |-> a, b |-> b, k |-> k, i |-> i]
TotalNodes == LET RECURSIVE Sum(_)
                  Sum(S) == IF S = {} THEN 0 ELSE LET s == CHOOSE x \in S : TRUE IN (IF Live(s) THEN Nodes(slots[s]) ELSE 0) + Sum(S \ {s})
              IN Sum(SlotIds)

MCInit == Init /\ hist = <<>>
MCNew == /\ G /\ TotalNodes < MaxNodes
         /\ \E s \in SlotIds, i \in 1..Len(ScalarSeq) : New(s, ScalarSeq[i], ScalarSeq[i]) /\ Rec(Op("NEW", s, 0, <<>>, i))
MCDestroy == G /\ \E s \in SlotIds : Destroy(s) /\ Rec(Op("DESTROY", s, 0, <<>>, 0))
MCAddObj == G /\ \E o, c \in SlotIds, k \in KeySet, rc \in {0, -1} : AddToObject(o, k, c, rc) /\ Rec(Op("ADDOBJ", o, c, k, 0))
MCGetObj == G /\ \E o \in SlotIds, k \in KeySet, found \in BOOLEAN :
                 /\ Live(o)
                 /\ GetFromObject(o, k, found, IF HasKey(slots[o], k) THEN slots[o].x[FirstIdx(slots[o], k)][2] ELSE Empty)
                 /\ Rec(Op("GETOBJ", o, 0, k, 0))
MCHas == G /\ \E o \in SlotIds, k \in KeySet, res \in BOOLEAN : HasKeyOp(o, k, res) /\ Rec(Op("HAS", o, 0, k, 0))
MCRmObj == G /\ \E o \in SlotIds, k \in KeySet, rc \in {0, -1} : RemoveFromObject(o, k, rc) /\ Rec(Op("RMOBJ", o, 0, k, 0))
MCAddArr == G /\ \E a, c \in SlotIds, rc \in {0, -1} : AddArrayElement(a, c, rc) /\ Rec(Op("ADDARR", a, c, <<>>, 0))
MCGetArr == G /\ \E a \in SlotIds, i \in 0..3, found \in BOOLEAN :
                 /\ Live(a)
                 /\ GetArrayElement(a, i, found, IF InRange(a, i) THEN slots[a].x[i + 1] ELSE Empty)
                 /\ Rec(Op("GETARR", a, 0, <<>>, i))
MCSize == G /\ \E a \in SlotIds, n \in 0..MaxNodes : GetArraySize(a, n) /\ Rec(Op("SIZE", a, 0, <<>>, 0))
MCRmArr == G /\ \E a \in SlotIds, i \in 0..3, rc \in {0, -1} : RemoveArrayElement(a, i, rc) /\ Rec(Op("RMARR", a, 0, <<>>, i))
MCDup == /\ G /\ \E s, d \in SlotIds : Live(s) /\ TotalNodes + Nodes(slots[s]) <= MaxNodes
                                        /\ Duplicate(s, d, TRUE, slots[s]) /\ Rec(Op("DUP", s, d, <<>>, 0))
MCCompare == G /\ \E a, b \in SlotIds, res \in BOOLEAN : Compare(a, b, res) /\ Rec(Op("CMP", a, b, <<>>, 0))
(* the reference renderer plays the serialiser *)
MCPrint == G /\ \E s \in SlotIds, pretty \in BOOLEAN :
               /\ Live(s) /\ Cardinality(printed[s]) < 2 /\ (\A o \in SlotIds \ {s} : printed[o] = {})
               /\ Serialise(s, 0, <<120>>, <<120>> \o Render(slots[s], pretty, 0))
               /\ Rec(Op("PRINT", s, 0, <<>>, IF pretty THEN 1 ELSE 0))
(* a correct parser: reads the text of slot s into slot d as the same value *)
MCParse == /\ G /\ \E s, d \in SlotIds : /\ Live(s) /\ TotalNodes + Nodes(slots[s]) <= MaxNodes
                                        /\ \E text \in printed[s] : ParseText(d, text, TRUE, slots[s])
                                        /\ Rec(Op("PARSEOF", d, s, <<>>, 0))
MCRoundTrip == G /\ \E a, b \in SlotIds : RoundTrip(a, b, [i \in 1..NumCount(slots[a]) |-> 1]) /\ Rec(Op("RT", a, b, <<>>, 0))

MCNext == MCNew \/ MCDestroy \/ MCAddObj \/ MCGetObj \/ MCHas \/ MCRmObj \/ MCAddArr \/ MCGetArr \/ MCSize \/ MCRmArr
          \/ MCDup \/ MCCompare \/ MCPrint \/ MCParse \/ MCRoundTrip
MCSpec == MCInit /\ [][MCNext]_mcvars
View == <<slots, printed, origin>>

KeysInv == \A s \in SlotIds : Live(s) => DistinctKeys(slots[s])
ParserInv == \A s \in SlotIds : Live(s) =>
                \A pretty \in BOOLEAN :
                   LET p == Parse(Render(slots[s], pretty, 0)) IN p.ok /\ ReadsAs(p.v, slots[s], TRUE)
SlotInv == \A s \in SlotIds : /\ (~Live(s) => printed[s] = {} /\ origin[s] = NoText)
                              /\ \A t \in printed[s] : Parse(t).ok
Emit == (GenDepth > 0 /\ Len(hist) = GenDepth) => PrintT(<<"SCRIPT", ToJson([ops |-> hist])>>)

-----------------------------------------------------------------------------
(* texts with the tree an RFC 8259 reader produces; <<>> as the tree means "must be refused".                  *)
(* Trees are written in a compact form: T(text) below turns a TLA+ string of the expected value into... no:      *)
(* they are spelled out.                                                                                       *)
S(x) == V("str", x)
N(neg, ds, e) == V("num", <<neg, ds, e>>)
Good == <<
  \* @PARSE-TABLE-GOOD-BEGIN
  <<<<110, 117, 108, 108>>, VNull>>,
  <<<<32, 116, 114, 117, 101, 32>>, V("bool", <<1>>)>>,
  <<<<9, 102, 97, 108, 115, 101, 10>>, V("bool", <<0>>)>>,
  <<<<48>>, N(0, <<>>, 0)>>,
  <<<<45, 48>>, N(0, <<>>, 0)>>,
  <<<<45, 48, 46, 48>>, N(0, <<>>, 0)>>,
  <<<<49>>, N(0, <<1>>, 1)>>,
  <<<<45, 49, 50>>, N(1, <<1, 2>>, 2)>>,
  <<<<49, 46, 53>>, N(0, <<1, 5>>, 1)>>,
  <<<<48, 46, 48, 48, 49>>, N(0, <<1>>, -2)>>,
  <<<<49, 101, 51>>, N(0, <<1>>, 4)>>,
  <<<<49, 69, 51>>, N(0, <<1>>, 4)>>,
  <<<<49, 101, 43, 51>>, N(0, <<1>>, 4)>>,
  <<<<49, 46, 53, 48, 101, 45, 51>>, N(0, <<1, 5>>, -2)>>,
  <<<<45, 49, 46, 50, 53, 69, 43, 48, 50>>, N(1, <<1, 2, 5>>, 3)>>,
  <<<<49, 48, 48>>, N(0, <<1>>, 3)>>,
  <<<<49, 48, 46, 48, 49, 48, 48>>, N(0, <<1, 0, 0, 1>>, 2)>>,
  <<<<49, 50, 51, 52, 53, 54, 55, 56, 57, 48, 49, 50, 51, 52, 53>>, N(0, <<1, 2, 3, 4, 5, 6, 7, 8, 9, 0, 1, 2, 3, 4, 5>>, 15)>>,
  <<<<49, 46, 55, 57, 55, 54, 57, 51, 49, 51, 52, 56, 54, 50, 51, 49, 53, 55, 101, 51, 48, 56>>, N(0, <<1, 7, 9, 7, 6, 9, 3, 1, 3, 4, 8, 6, 2, 3, 1, 5, 7>>, 309)>>,
  <<<<52, 46, 57, 52, 48, 54, 53, 54, 52, 53, 56, 52, 49, 50, 52, 54, 53, 52, 101, 45, 51, 50, 52>>, N(0, <<4, 9, 4, 0, 6, 5, 6, 4, 5, 8, 4, 1, 2, 4, 6, 5, 4>>, -323)>>,
  <<<<50, 49, 52, 55, 52, 56, 51, 54, 52, 56>>, N(0, <<2, 1, 4, 7, 4, 8, 3, 6, 4, 8>>, 10)>>,
  <<<<45, 50, 49, 52, 55, 52, 56, 51, 54, 52, 57>>, N(1, <<2, 1, 4, 7, 4, 8, 3, 6, 4, 9>>, 10)>>,
  <<<<57, 48, 48, 55, 49, 57, 57, 50, 53, 52, 55, 52, 48, 57, 57, 51>>, N(0, <<9, 0, 0, 7, 1, 9, 9, 2, 5, 4, 7, 4, 0, 9, 9, 3>>, 16)>>,
  <<<<49, 101, 45, 48, 55>>, N(0, <<1>>, -6)>>,
  <<<<48, 101, 53>>, N(0, <<>>, 0)>>,
  <<<<48, 46, 48, 101, 45, 53>>, N(0, <<>>, 0)>>,
  <<<<34, 34>>, S(<<>>)>>,
  <<<<34, 97, 34>>, S(<<97>>)>>,
  <<<<34, 97, 32, 98, 34>>, S(<<97, 32, 98>>)>>,
  <<<<34, 92, 34, 34>>, S(<<34>>)>>,
  <<<<34, 92, 92, 34>>, S(<<92>>)>>,
  <<<<34, 92, 47, 34>>, S(<<47>>)>>,
  <<<<34, 92, 98, 92, 102, 92, 110, 92, 114, 92, 116, 34>>, S(<<8, 12, 10, 13, 9>>)>>,
  <<<<34, 92, 117, 48, 48, 52, 49, 34>>, S(<<65>>)>>,
  <<<<34, 92, 117, 48, 48, 101, 57, 34>>, S(<<195, 169>>)>>,
  <<<<34, 92, 117, 48, 48, 69, 57, 34>>, S(<<195, 169>>)>>,
  <<<<34, 92, 117, 50, 48, 97, 99, 34>>, S(<<226, 130, 172>>)>>,
  <<<<34, 92, 117, 100, 56, 51, 100, 92, 117, 100, 101, 48, 48, 34>>, S(<<240, 159, 152, 128>>)>>,
  <<<<34, 92, 117, 68, 56, 51, 68, 92, 117, 68, 69, 48, 48, 120, 34>>, S(<<240, 159, 152, 128, 120>>)>>,
  <<<<34, 92, 117, 100, 98, 102, 102, 92, 117, 100, 102, 102, 102, 34>>, S(<<244, 143, 191, 191>>)>>,
  <<<<34, 92, 117, 100, 56, 48, 48, 92, 117, 100, 99, 48, 48, 34>>, S(<<240, 144, 128, 128>>)>>,
  <<<<34, 97, 92, 117, 48, 48, 101, 57, 98, 34>>, S(<<97, 195, 169, 98>>)>>,
  <<<<34, 65, 34>>, S(<<65>>)>>,
  <<<<34, 195, 169, 34>>, S(<<195, 169>>)>>,
  <<<<34, 195, 169, 34>>, S(<<195, 169>>)>>,
  <<<<34, 226, 130, 172, 34>>, S(<<226, 130, 172>>)>>,
  <<<<34, 240, 159, 152, 128, 34>>, S(<<240, 159, 152, 128>>)>>,
  <<<<34, 240, 159, 152, 128, 120, 34>>, S(<<240, 159, 152, 128, 120>>)>>,
  <<<<34, 244, 143, 191, 191, 34>>, S(<<244, 143, 191, 191>>)>>,
  <<<<34, 240, 144, 128, 128, 34>>, S(<<240, 144, 128, 128>>)>>,
  <<<<34, 92, 117, 48, 48, 55, 102, 34>>, S(<<127>>)>>,
  <<<<34, 195, 169, 226, 130, 172, 240, 159, 152, 128, 34>>, S(<<195, 169, 226, 130, 172, 240, 159, 152, 128>>)>>,
  <<<<34, 92, 117, 48, 48, 49, 102, 34>>, S(<<31>>)>>,
  <<<<34, 127, 34>>, S(<<127>>)>>,
  <<<<91, 93>>, V("arr", <<>>)>>,
  <<<<91, 32, 93>>, V("arr", <<>>)>>,
  <<<<123, 125>>, V("obj", <<>>)>>,
  <<<<123, 32, 125>>, V("obj", <<>>)>>,
  <<<<91, 49, 93>>, V("arr", <<N(0, <<1>>, 1)>>)>>,
  <<<<91, 49, 44, 50, 93>>, V("arr", <<N(0, <<1>>, 1), N(0, <<2>>, 1)>>)>>,
  <<<<91, 32, 49, 32, 44, 32, 50, 32, 93>>, V("arr", <<N(0, <<1>>, 1), N(0, <<2>>, 1)>>)>>,
  <<<<91, 91, 93, 93>>, V("arr", <<V("arr", <<>>)>>)>>,
  <<<<91, 91, 93, 44, 91, 93, 93>>, V("arr", <<V("arr", <<>>), V("arr", <<>>)>>)>>,
  <<<<91, 123, 125, 93>>, V("arr", <<V("obj", <<>>)>>)>>,
  <<<<123, 34, 97, 34, 58, 49, 125>>, V("obj", <<<<<<97>>, N(0, <<1>>, 1)>>>>)>>,
  <<<<123, 32, 34, 97, 34, 32, 58, 32, 49, 32, 125>>, V("obj", <<<<<<97>>, N(0, <<1>>, 1)>>>>)>>,
  <<<<123, 34, 97, 34, 58, 49, 44, 34, 98, 34, 58, 91, 116, 114, 117, 101, 44, 110, 117, 108, 108, 93, 125>>, V("obj", <<<<<<97>>, N(0, <<1>>, 1)>>, <<<<98>>, V("arr", <<V("bool", <<1>>), VNull>>)>>>>)>>,
  <<<<123, 34, 34, 58, 48, 125>>, V("obj", <<<<<<>>, N(0, <<>>, 0)>>>>)>>,
  <<<<123, 34, 97, 34, 58, 123, 34, 98, 34, 58, 123, 34, 99, 34, 58, 91, 93, 125, 125, 125>>, V("obj", <<<<<<97>>, V("obj", <<<<<<98>>, V("obj", <<<<<<99>>, V("arr", <<>>)>>>>)>>>>)>>>>)>>,
  <<<<123, 34, 97, 34, 58, 49, 44, 34, 97, 34, 58, 50, 125>>, V("obj", <<<<<<97>>, N(0, <<1>>, 1)>>, <<<<97>>, N(0, <<2>>, 1)>>>>)>>,
  <<<<91, 49, 44, 34, 49, 34, 44, 91, 49, 93, 44, 123, 34, 49, 34, 58, 49, 125, 93>>, V("arr", <<N(0, <<1>>, 1), S(<<49>>), V("arr", <<N(0, <<1>>, 1)>>), V("obj", <<<<<<49>>, N(0, <<1>>, 1)>>>>)>>)>>,
  <<<<123, 10, 9, 34, 107, 92, 34, 121, 34, 58, 9, 91, 10, 9, 9, 49, 44, 10, 9, 9, 34, 120, 34, 10, 9, 93, 10, 125>>, V("obj", <<<<<<107, 34, 121>>, V("arr", <<N(0, <<1>>, 1), S(<<120>>)>>)>>>>)>>,
  <<<<32, 91, 32, 110, 117, 108, 108, 32, 44, 32, 116, 114, 117, 101, 32, 44, 32, 102, 97, 108, 115, 101, 32, 93, 32>>, V("arr", <<VNull, V("bool", <<1>>), V("bool", <<0>>)>>)>>,
  <<<<91, 49, 46, 48, 101, 48, 44, 49, 69, 45, 48, 44, 45, 49, 101, 43, 48, 48, 93>>, V("arr", <<N(0, <<1>>, 1), N(0, <<1>>, 1), N(1, <<1>>, 1)>>)>>,
  <<<<123, 34, 97, 34, 58, 34, 92, 117, 48, 48, 48, 49, 34, 125>>, V("obj", <<<<<<97>>, S(<<1>>)>>>>)>>,
  <<<<91, 13, 10, 93>>, V("arr", <<>>)>>,
  <<<<34, 92, 117, 48, 48, 56, 48, 34>>, S(<<194, 128>>)>>,
  <<<<34, 92, 117, 48, 55, 102, 102, 34>>, S(<<223, 191>>)>>,
  <<<<34, 92, 117, 48, 56, 48, 48, 34>>, S(<<224, 160, 128>>)>>,
  <<<<34, 92, 117, 102, 102, 102, 102, 34>>, S(<<239, 191, 191>>)>>,
  <<<<34, 92, 117, 100, 55, 102, 102, 34>>, S(<<237, 159, 191>>)>>,
  <<<<34, 92, 117, 101, 48, 48, 48, 34>>, S(<<238, 128, 128>>)>>
  \* @PARSE-TABLE-GOOD-END
>>
Bad == <<
  \* @PARSE-TABLE-BAD-BEGIN
  <<>>,
  <<32>>,
  <<110, 117, 108>>,
  <<110, 117, 108, 108, 108>>,
  <<84, 114, 117, 101>>,
  <<116, 114, 117>>,
  <<43, 49>>,
  <<48, 49>>,
  <<45, 48, 49>>,
  <<49, 46>>,
  <<46, 53>>,
  <<45, 46, 53>>,
  <<49, 101>>,
  <<49, 101, 43>>,
  <<49, 46, 101, 51>>,
  <<48, 120, 49, 48>>,
  <<45, 45, 49>>,
  <<49, 32, 50>>,
  <<78, 97, 78>>,
  <<73, 110, 102, 105, 110, 105, 116, 121>>,
  <<45, 73, 110, 102, 105, 110, 105, 116, 121>>,
  <<34>>,
  <<34, 97>>,
  <<34, 92, 34>>,
  <<34, 92, 120, 34>>,
  <<34, 92, 117, 49, 50, 34>>,
  <<34, 92, 117, 49, 50, 103, 52, 34>>,
  <<34, 92, 117, 100, 56, 48, 48, 34>>,
  <<34, 92, 117, 100, 56, 48, 48, 120, 34>>,
  <<34, 92, 117, 100, 56, 48, 48, 92, 117, 48, 48, 52, 49, 34>>,
  <<34, 92, 117, 100, 99, 48, 48, 34>>,
  <<34, 92, 117, 100, 101, 48, 48, 92, 117, 100, 56, 51, 100, 34>>,
  <<34, 1, 34>>,
  <<34, 10, 34>>,
  <<34, 9, 34>>,
  <<34, 31, 34>>,
  <<39, 97, 39>>,
  <<91>>,
  <<93>>,
  <<91, 49>>,
  <<91, 49, 44>>,
  <<91, 49, 44, 93>>,
  <<91, 44, 49, 93>>,
  <<91, 49, 32, 50, 93>>,
  <<91, 49, 44, 44, 50, 93>>,
  <<123>>,
  <<125>>,
  <<123, 34, 97, 34, 125>>,
  <<123, 34, 97, 34, 58, 125>>,
  <<123, 34, 97, 34, 58, 49, 44, 125>>,
  <<123, 44, 34, 97, 34, 58, 49, 125>>,
  <<123, 97, 58, 49, 125>>,
  <<123, 34, 97, 34, 32, 49, 125>>,
  <<123, 34, 97, 34, 58, 49, 32, 34, 98, 34, 58, 50, 125>>,
  <<123, 49, 58, 49, 125>>,
  <<91, 49, 125>>,
  <<123, 34, 97, 34, 58, 49, 93>>,
  <<110, 117, 108, 108, 32, 110, 117, 108, 108>>,
  <<91, 93, 32, 91, 93>>,
  <<123, 125, 32, 120>>,
  <<91, 49, 93, 44>>,
  <<34, 97, 34, 32, 34, 98, 34>>,
  <<110, 117, 108, 108, 120>>,
  <<91, 116, 114, 117, 101, 44, 102, 97, 108, 115, 93>>,
  <<12, 110, 117, 108, 108>>,
  <<160, 110, 117, 108, 108>>
  \* @PARSE-TABLE-BAD-END
>>
ASSUME \A i \in 1..Len(Good) : Parse(Good[i][1]) = [ok |-> TRUE, v |-> Good[i][2]]
ASSUME \A i \in 1..Len(Bad) : ~Parse(Bad[i]).ok
=============================================================================
