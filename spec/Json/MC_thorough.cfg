SPECIFICATION MCSpec
CONSTANTS SlotIds = {s1, s2, s3}
  KeySet <- KeysAB
  ScalarSeq <- ScalarsMC
  MaxNodes = 5
  GenDepth = 0
INVARIANTS KeysInv ParserInv SlotInv
SYMMETRY Symm
VIEW View
CHECK_DEADLOCK FALSE
