SPECIFICATION MCSpec
CONSTANTS SlotIds = {1, 2, 3, 4}
  KeySet <- KeysGen
  ScalarSeq <- Scalars
  MaxNodes = 14
  GenDepth = 40
INVARIANT Emit
CHECK_DEADLOCK FALSE
