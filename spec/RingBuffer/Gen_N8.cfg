SPECIFICATION GSpec
CONSTANTS N = 8
  MaxOut = 4
  Forms = {"exact", "upto"}
  GenDepth = 40
INVARIANT Emit
