SPECIFICATION Spec
CONSTANTS N = 2
  MaxOut = 4
  Forms = {"exact", "upto"}
INVARIANTS TypeOK NoOverlap InRange PendSafe SizeOK MustSucceed Quiescent
