---- MODULE MC ----
EXTENDS RingBuffer
====
