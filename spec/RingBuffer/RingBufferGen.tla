--------------------------- MODULE RingBufferGen ---------------------------
(* Behaviour generation (model -> code): simulation of RingBuffer with a history variable that  *)
(* records, per acquire, how many releaser steps TLC interleaved before each of the acquirer's   *)
(* atomic accesses.  Each finished behaviour is printed as a JSON script.                        *)
EXTENDS RingBuffer, TLC, Json

CONSTANT GenDepth
VARIABLES hist, steps

PcIdx == CASE pc = "ldTail" -> 1 [] pc = "ldHead" -> 2 [] pc = "stHead" -> 3 [] pc = "stTail" -> 4 [] OTHER -> 0

GInit == Init /\ hist = <<>> /\ steps = 0

GStart == \E r \in Requests :
            /\ A_Start(r.form, r.min, r.n)
            /\ hist' = Append(hist, [op |-> "ACQ", form |-> r.form, min |-> r.min, n |-> r.n, rel |-> <<0, 0, 0, 0>>])

GRel == /\ R_Release
        /\ IF pc = "idle"
           THEN hist' = Append(hist, [op |-> "REL", form |-> "", min |-> 0, n |-> 0, rel |-> <<0, 0, 0, 0>>])
           ELSE hist' = [hist EXCEPT ![Len(hist)].rel[PcIdx] = @ + 1]

GStep == (A_LoadTail \/ A_LoadHead \/ A_StoreHead \/ A_StoreTail) /\ UNCHANGED hist

GNext == /\ steps < GenDepth
         /\ steps' = steps + 1
         /\ (GStart \/ GRel \/ GStep)

GSpec == GInit /\ [][GNext]_<<vars, hist, steps>>

Emit == (steps = GenDepth /\ pc = "idle") => PrintT(<<"SCRIPT", ToJson(hist)>>)
=============================================================================
