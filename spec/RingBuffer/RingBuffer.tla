----------------------------- MODULE RingBuffer -----------------------------
(* aws_ring_buffer: one acquirer thread, one releaser thread (FIFO release).                    *)
(* Implementation-shaped: every atomic load/store of head and tail is one step, so TLC visits    *)
(* every interleaving of the releaser's single store with the acquirer's load/load/store/store.  *)
(* Offsets are relative to the start of the allocation; N = size of the ring (allocation_end).   *)
EXTENDS Naturals, Sequences, FiniteSets

CONSTANTS N,        \* ring size in bytes
          MaxOut,   \* bound on outstanding buffers (model bound only)
          Forms     \* subset of {"exact", "upto"}

VARIABLES head, tail,      \* the two shared atomics
          out,             \* outstanding buffers, oldest first: [lo |-> , hi |-> ]
          pc,              \* acquirer: "idle" | "ldTail" | "ldHead" | "stHead" | "stTail"
          req,             \* current request [form, min, n]
          tailCpy, headCpy,\* acquirer locals
          quiet,           \* ghost: nothing was outstanding when the current acquire started
          pend,            \* buffer decided but not yet returned (empty-ring case, before the tail store)
          last             \* ghost: outcome of the last finished acquire

vars == <<head, tail, out, pc, req, tailCpy, headCpy, quiet, pend, last>>

NoReq  == [form |-> "none", min |-> 0, n |-> 0]
NoBuf  == [lo |-> 0, hi |-> 0]
NoLast == [form |-> "none", min |-> 0, n |-> 0, ok |-> FALSE, lo |-> 0, size |-> 0, quiet |-> FALSE]

Min2(a, b) == IF a < b THEN a ELSE b

(* The decision the C code takes from its two private copies.  Result:                           *)
(* [ok, lo, size, reset]  (reset = the empty-ring branch, which also stores tail := 0).          *)
Fail == [ok |-> FALSE, lo |-> 0, size |-> 0, reset |-> FALSE]
Grant(lo, size, reset) == [ok |-> TRUE, lo |-> lo, size |-> size, reset |-> reset]

DecideExact(h, t, n) ==
    IF h = t THEN (IF n > N THEN Fail ELSE Grant(0, n, TRUE))
    ELSE IF t > h THEN (IF t - h - 1 >= n THEN Grant(h, n, FALSE) ELSE Fail)
    ELSE (IF N - h >= n THEN Grant(h, n, FALSE)
          ELSE IF t > n THEN Grant(0, n, FALSE)
          ELSE Fail)

DecideUpTo(h, t, mn, n) ==
    IF h = t THEN (LET a == Min2(N, n) IN IF a < mn THEN Fail ELSE Grant(0, a, TRUE))
    ELSE IF t > h THEN (LET r == Min2(t - h - 1, n) IN IF r >= mn THEN Grant(h, r, FALSE) ELSE Fail)
    ELSE LET hs == N - h
             ts == t IN
         IF hs >= n THEN Grant(h, n, FALSE)
         ELSE IF ts > n THEN Grant(0, n, FALSE)
         ELSE IF hs >= mn /\ hs >= ts THEN Grant(h, hs, FALSE)
         ELSE IF ts > mn THEN Grant(0, ts - 1, FALSE)
         ELSE Fail

Decide(r, h, t) == IF r.form = "exact" THEN DecideExact(h, t, r.n) ELSE DecideUpTo(h, t, r.min, r.n)

Init ==
    /\ head = 0 /\ tail = 0 /\ out = <<>> /\ pc = "idle" /\ req = NoReq
    /\ tailCpy = 0 /\ headCpy = 0 /\ quiet = FALSE /\ pend = NoBuf /\ last = NoLast

A_Start(form, mn, n) ==
    /\ pc = "idle" /\ Len(out) < MaxOut
    /\ pc' = "ldTail" /\ req' = [form |-> form, min |-> mn, n |-> n]
    /\ quiet' = (out = <<>>)
    /\ UNCHANGED <<head, tail, out, tailCpy, headCpy, pend, last>>

A_LoadTail ==
    /\ pc = "ldTail" /\ tailCpy' = tail /\ pc' = "ldHead"
    /\ UNCHANGED <<head, tail, out, req, headCpy, quiet, pend, last>>

A_LoadHead ==
    /\ pc = "ldHead" /\ headCpy' = head /\ pc' = "stHead"
    /\ UNCHANGED <<head, tail, out, req, tailCpy, quiet, pend, last>>

Finish(d) == last' = [form |-> req.form, min |-> req.min, n |-> req.n, ok |-> d.ok, lo |-> d.lo,
                      size |-> d.size, quiet |-> quiet]

(* The decision is a pure function of the private copies; the head store is the next shared access. *)
A_StoreHead ==
    /\ pc = "stHead"
    /\ LET d == Decide(req, headCpy, tailCpy) IN
       IF ~d.ok
       THEN /\ pc' = "idle" /\ Finish(d) /\ req' = NoReq
            /\ UNCHANGED <<head, tail, out, pend>>
       ELSE /\ head' = d.lo + d.size
            /\ IF d.reset
               THEN /\ pc' = "stTail" /\ pend' = [lo |-> d.lo, hi |-> d.lo + d.size]
                    /\ UNCHANGED <<tail, out, last, req>>
               ELSE /\ pc' = "idle" /\ out' = Append(out, [lo |-> d.lo, hi |-> d.lo + d.size])
                    /\ Finish(d) /\ req' = NoReq
                    /\ UNCHANGED <<tail, pend>>
    /\ UNCHANGED <<tailCpy, headCpy, quiet>>

A_StoreTail ==
    /\ pc = "stTail"
    /\ tail' = 0 /\ out' = Append(out, pend) /\ pend' = NoBuf /\ pc' = "idle"
    /\ Finish([ok |-> TRUE, lo |-> pend.lo, size |-> pend.hi - pend.lo])
    /\ req' = NoReq
    /\ UNCHANGED <<head, tailCpy, headCpy, quiet>>

(* The releaser: one atomic store, possible at any moment something is outstanding. *)
R_Release ==
    /\ out # <<>>
    /\ tail' = out[1].hi /\ out' = Tail(out)
    /\ UNCHANGED <<head, pc, req, tailCpy, headCpy, quiet, pend, last>>

Requests == {r \in [form : Forms, min : 1 .. N + 1, n : 1 .. N + 1] : r.min <= r.n /\ (r.form = "exact" => r.min = r.n)}

Next ==
    \/ \E r \in Requests : A_Start(r.form, r.min, r.n)
    \/ A_LoadTail \/ A_LoadHead \/ A_StoreHead \/ A_StoreTail
    \/ R_Release

Spec == Init /\ [][Next]_vars

-----------------------------------------------------------------------------
(* The property (C15), as invariants over every reachable state of every interleaving. *)

Disj(a, b) == a.hi <= b.lo \/ b.hi <= a.lo
WellFormed(b) == 0 <= b.lo /\ b.lo < b.hi /\ b.hi <= N

NoOverlap == \A i, j \in 1 .. Len(out) : i < j => Disj(out[i], out[j])
InRange == \A i \in 1 .. Len(out) : WellFormed(out[i])
PendSafe == pc = "stTail" => (WellFormed(pend) /\ \A i \in 1 .. Len(out) : Disj(pend, out[i]))

SizeOK == last.ok =>
            IF last.form = "exact" THEN last.size = last.n
            ELSE last.min <= last.size /\ last.size <= last.n

(* nothing outstanding + request not larger than the ring => success *)
MustSucceed == (last.form # "none" /\ last.quiet /\ last.n <= N) => last.ok

(* at quiescence the positions coincide: the whole ring is available again *)
Quiescent == (pc = "idle" /\ out = <<>>) => head = tail

TypeOK == head \in 0 .. N /\ tail \in 0 .. N /\ pc \in {"idle", "ldTail", "ldHead", "stHead", "stTail"}
=============================================================================
