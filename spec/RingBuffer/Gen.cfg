SPECIFICATION GSpec
CONSTANTS N = 5
  MaxOut = 4
  Forms = {"exact", "upto"}
  GenDepth = 40
INVARIANT Emit
