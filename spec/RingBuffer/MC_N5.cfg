SPECIFICATION Spec
CONSTANTS N = 5
  MaxOut = 4
  Forms = {"exact", "upto"}
INVARIANTS TypeOK NoOverlap InRange PendSafe SizeOK MustSucceed Quiescent
