SPECIFICATION Spec
CONSTANTS N = 3
  MaxOut = 4
  Forms = {"exact", "upto"}
INVARIANTS TypeOK NoOverlap InRange PendSafe SizeOK MustSucceed Quiescent
