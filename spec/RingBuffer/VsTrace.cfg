SPECIFICATION VSpec
POSTCONDITION TraceAccepted
CHECK_DEADLOCK FALSE
