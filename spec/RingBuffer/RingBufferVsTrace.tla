------------------------- MODULE RingBufferVsTrace -------------------------
(* The same property-level validation as RingBufferTrace for executions with two real threads     *)
(* (harness/ringbuffer_scenario.c under the controlled scheduler): the acquirer thread logs every  *)
(* event; Release events stand for releases whose call had returned before the next acquire call  *)
(* began, k of an Acquire for those that were in progress or started during it.  In addition the   *)
(* content of every buffer handed out must still be what its owner wrote when it is released      *)
(* (nobody else may write into memory that is handed out): Integrity(bad = 0).                    *)
EXTENDS RingBufferTrace

VReset == Ev.e = "Reset" /\ N' = 0 /\ out' = <<>>
VRingInit == Ev.e = "RingInit" /\ N' = Ev.n /\ out' = <<>>
VIntegrity == /\ Ev.e = "Integrity"
              /\ Ev.bad = 0 /\ Ev.released = Ev.granted /\ out = <<>>       \* everything granted was released, undisturbed
              /\ UNCHANGED <<N, out>>
VEnd == Ev.e = "End" /\ Ev.live = 0 /\ Ev.unjoined = 0 /\ UNCHANGED <<N, out>>

VNext == l <= TraceLen /\ l' = l + 1 /\ (VReset \/ VRingInit \/ TRelease \/ TAcquire \/ VIntegrity \/ VEnd)
VSpec == Init /\ [][VNext]_vars
=============================================================================
