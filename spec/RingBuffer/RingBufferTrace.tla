-------------------------- MODULE RingBufferTrace --------------------------
(* Validates what the real aws_ring_buffer did (offsets it really returned) against the property *)
(* itself: the abstract state is only the FIFO of outstanding buffers.  Nothing of the           *)
(* implementation's head/tail algorithm is assumed here, so a refactoring that keeps the         *)
(* property is accepted and any grant that overlaps, leaves the ring or has the wrong size is    *)
(* rejected.  Events: Reset(n) | Acquire(form,min,n,k,rc,off,cap) | Release(off,cap) | End.      *)
(* k = number of FIFO releases that happened inside the acquire call (at its atomic accesses).   *)
(* busy = 1: a release call counted by an earlier event was still running when this call began  *)
(* (two-thread executions only), so the ring was not known to be idle.                          *)
EXTENDS TraceCommon

VARIABLES l, N, out
vars == <<l, N, out>>

Ev == TraceLog[l]
Disj(a, b) == a.hi <= b.lo \/ b.hi <= a.lo

Init == l = 1 /\ N = 0 /\ out = <<>>

TReset == /\ Ev.e = "Reset" /\ N' = Ev.n /\ out' = <<>>

TRelease ==
    /\ Ev.e = "Release" /\ out # <<>> /\ Ev.valid = 1
    /\ Ev.off = out[1].lo /\ Ev.cap = out[1].hi - out[1].lo
    /\ out' = Tail(out) /\ UNCHANGED N

TAcquire ==
    /\ Ev.e = "Acquire" /\ Ev.valid = 1              \* aws_ring_buffer_is_valid, the library's own invariant, after every call
    /\ Ev.k <= Len(out)
    /\ LET quiet == out = <<>>                       \* nothing outstanding when the call started
           rest  == SubSeq(out, Ev.k + 1, Len(out))   \* still outstanding when it returned
           b     == [lo |-> Ev.off, hi |-> Ev.off + Ev.cap] IN
       IF Ev.rc = 0
       THEN /\ 0 <= b.lo /\ b.lo < b.hi /\ b.hi <= N                       \* inside the ring
            /\ Ev.rem = 0                                                    \* (scaled rings: whole units)
            /\ \A i \in 1 .. Len(rest) : Disj(b, rest[i])                    \* overlaps nothing outstanding
            /\ IF Ev.form = "exact" THEN Ev.cap = Ev.n
               ELSE Ev.min <= Ev.cap /\ Ev.cap <= Ev.n                       \* size exact / within [min, n]
            /\ Ev.len = 0
            /\ out' = Append(rest, b)
       ELSE /\ ~(quiet /\ Ev.busy = 0 /\ Ev.n <= N)                          \* must succeed on an idle ring
            /\ out' = rest
    /\ UNCHANGED N

TEnd == Ev.e = "End" /\ Ev.live = 0 /\ UNCHANGED <<N, out>>

Next == l <= TraceLen /\ l' = l + 1 /\ (TReset \/ TRelease \/ TAcquire \/ TEnd)

Spec == Init /\ [][Next]_vars
=============================================================================
