SPECIFICATION Spec
CONSTANTS DefaultMaxDepth = 20
  MaxNameLen = 256
  MaxAttrs = 10
  FixF6 = TRUE
  FixEq = TRUE
  FixF5 = TRUE
  MaxNodes = 4
  MaxHeight = 3
  Decos = {0, 1, 2}
  MDs = {0, 2}
  Pres <- PresTwo
  GenMode = FALSE
INVARIANTS ImplMeetsSpec SpecSane
CHECK_DEADLOCK FALSE
