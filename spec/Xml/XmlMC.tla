-------------------------------- MODULE XmlMC --------------------------------
(* Bounded exhaustive comparison of the transcribed algorithm (XmlImpl) with the property (Xml!Expected) *)
(* and behaviour generation.                                                                           *)
(* A state is an element tree under construction, kept as its pre-order listing `flat` (depth, name,     *)
(* decoration) - every ordered tree has exactly one such listing, AddNode appends the next element as    *)
(* the last child of an element on the right-most path - together with the callback program `prog`       *)
(* (one action per element; only the prefix consumed by the callbacks that actually happen matters).     *)
(* Names {a, ab, b}: they repeat, nest inside themselves and are prefixes of one another.                *)
(* Decorations: 0 bare; 1 one unquoted attribute, leading text "x y"; 2 two quoted attributes (k="x=y"  *)
(* ab=""), text " " first and "y" after every child element.                                            *)
EXTENDS XmlImpl, TLC, Json

CONSTANTS MaxNodes, MaxHeight, Decos, MDs, Pres, GenMode
VARIABLES flat, acts

Names == {<<97>>, <<97, 98>>, <<98>>}
NoPre == [lead |-> <<>>, items |-> <<>>, tail |-> <<>>]
PreA == [lead |-> <<>>, items |-> <<[k |-> QMARK, c |-> <<120, 63>>, ws |-> <<>>]>>, tail |-> <<>>]
PreB == [lead |-> <<10>>, items |-> <<[k |-> QMARK, c |-> <<120, 32, 97, 61, 34, 98, 34, 63>>, ws |-> <<10>>],
                                     [k |-> BANG, c |-> <<97, 32, 98>>, ws |-> <<32>>]>>, tail |-> <<10>>]
PresNone == {NoPre}
PresTwo == {NoPre, PreB}
PresAll == {NoPre, PreA, PreB}

AttrsOf(deco) == CASE deco = 0 -> <<>>
                   [] deco = 1 -> <<[n |-> <<107>>, v |-> <<120>>, q |-> 0]>>
                   [] OTHER -> <<[n |-> <<107>>, v |-> <<120, 61, 121>>, q |-> 1], [n |-> <<97, 98>>, v |-> <<>>, q |-> 1]>>
RECURSIVE Interleave(_, _)
Interleave(kids, j) == IF j > Len(kids) THEN <<>> ELSE <<kids[j], [t |-> <<121>>]>> \o Interleave(kids, j + 1)
ItemsOf(deco, kids) == CASE deco = 0 -> kids
                         [] deco = 1 -> <<[t |-> <<120, 32, 121>>]>> \o kids
                         [] OTHER -> <<[t |-> <<32>>]>> \o Interleave(kids, 1)

(* nested tree from the pre-order listing *)
RECURSIVE BuildAt(_, _), BuildKids(_, _, _, _)
BuildAt(fl, i) == LET ks == BuildKids(fl, i + 1, fl[i].d + 1, <<>>)
                  IN [node |-> [n |-> fl[i].n, a |-> AttrsOf(fl[i].deco), c |-> ItemsOf(fl[i].deco, ks.nodes)], next |-> ks.next]
BuildKids(fl, j, d, acc) == IF j > Len(fl) THEN [nodes |-> acc, next |-> j]
                            ELSE IF fl[j].d # d THEN [nodes |-> acc, next |-> j]
                            ELSE LET b == BuildAt(fl, j) IN BuildKids(fl, b.next, d, Append(acc, b.node))
Tree == BuildAt(flat, 1).node

(* acts[i] is the action assigned to the i-th element (document order).  An element is reached iff all its      *)
(* ancestors are descended into and no reached element before it aborts; the action of an unreached element is   *)
(* never consulted, so only SKIP is generated for it.  prog = the actions of the reached elements = the program   *)
(* in callback-invocation order that Xml!Expected and the adapter consume.                                       *)
AncestorOf(fl, j, e) == CHOOSE i \in 1..(j - 1) : fl[i].d = e /\ \A m \in (i + 1)..(j - 1) : fl[m].d > e
RECURSIVE ReachedIn(_, _, _)
ReachedIn(fl, ac, j) == /\ \A e \in 1..(fl[j].d - 1) : ac[AncestorOf(fl, j, e)] = DESCEND
                        /\ \A i \in 1..(j - 1) : ac[i] = ABORT => ~ReachedIn(fl, ac, i)
prog == SelectSeq([j \in 1..Len(flat) |-> IF ReachedIn(flat, acts, j) THEN acts[j] ELSE 0], LAMBDA a : a # 0)

Init == /\ \E nm \in Names, dc \in Decos, act \in Actions :
              /\ flat = <<[d |-> 1, n |-> nm, deco |-> dc]>>
              /\ acts = <<act>>
AddNode == /\ Len(flat) < MaxNodes
           /\ \E d \in 2..MaxHeight, nm \in Names, dc \in Decos, act \in Actions :
                 /\ d <= flat[Len(flat)].d + 1
                 /\ LET fl == Append(flat, [d |-> d, n |-> nm, deco |-> dc])
                        ac == Append(acts, act)
                    IN /\ (act # SKIP => ReachedIn(fl, ac, Len(fl)))
                       /\ flat' = fl
                       /\ acts' = ac
Next == AddNode
Spec == Init /\ [][Next]_<<flat, acts>>

-----------------------------------------------------------------------------
(* the transcribed algorithm observes exactly what the property demands, for every max_depth and preamble *)
Same(r, e) == r.obs = e.obs /\ r.ok = e.ok /\ ~r.crash
ImplMeetsSpec ==
    LET t == Tree
    IN \A pre \in Pres :
          LET doc == RenderDoc(t, pre)
          IN \A md \in MDs :
                LET r == Parse(doc, prog, md)
                IN \E s \in BOOLEAN : Same(r, Expected(t, prog, md, s))

(* the definitions themselves: dialect, exactly once in document order at the right depth *)
SpecSane ==
    /\ InDialect(Tree) /\ \A pre \in Pres : PreOk(pre)
    /\ Size(Tree) = Len(flat) /\ Height(Tree) <= MaxHeight
    /\ \A md \in MDs : WithinLimits(Tree, md) =>
          LET e == Expected(Tree, [i \in 1..Len(flat) |-> DESCEND], md, FALSE)
          IN /\ e.ok
             /\ [i \in 1..Len(NodesOf(e.obs)) |-> [d |-> NodesOf(e.obs)[i].d, n |-> NodesOf(e.obs)[i].n, at |-> NodesOf(e.obs)[i].at]]
                   = Preorder(Tree, 1)
(* whatever the program: every reported element is an element of the tree at that depth, in document order, no element twice *)
ReportedAreElements ==
    \A md \in MDs :
          LET e == Expected(Tree, prog, md, FALSE)
              ns == NodesOf(e.obs)
              po == Preorder(Tree, 1)
          IN \E f \in [1..Len(ns) -> 1..Len(po)] :
                /\ \A i \in 1..Len(ns) : po[f[i]] = [d |-> ns[i].d, n |-> ns[i].n, at |-> ns[i].at]
                /\ \A i \in 1..(Len(ns) - 1) : f[i] < f[i + 1]

Emit == (GenMode /\ Len(flat) >= 2) =>
           PrintT(<<"SCRIPT", ToJson([tree |-> Tree, prog |-> prog])>>)
=============================================================================
