SPECIFICATION Spec
CONSTANTS DefaultMaxDepth = 20
  MaxNameLen = 256
  MaxAttrs = 10
  FixF6 = TRUE
  FixEq = TRUE
  FixF5 = TRUE
  MaxNodes = 3
  MaxHeight = 3
  Decos = {0, 2}
  MDs = {0, 2}
  Pres <- PresTwo
  GenMode = FALSE
INVARIANTS ImplMeetsSpec SpecSane ReportedAreElements
CHECK_DEADLOCK FALSE
