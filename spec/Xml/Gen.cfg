SPECIFICATION Spec
CONSTANTS DefaultMaxDepth = 20
  MaxNameLen = 256
  MaxAttrs = 10
  FixF6 = TRUE
  FixEq = TRUE
  FixF5 = TRUE
  MaxNodes = 5
  MaxHeight = 3
  Decos = {0, 1, 2}
  MDs = {0}
  Pres <- PresNone
  GenMode = TRUE
INVARIANT Emit
CHECK_DEADLOCK FALSE
