SPECIFICATION TSpec
CONSTANTS DefaultMaxDepth = 20
  MaxNameLen = 256
  MaxAttrs = 10
POSTCONDITION TraceAccepted
CHECK_DEADLOCK FALSE
