--------------------------------- MODULE Xml ---------------------------------
(* C12 - XML traversal reports every element of a well-formed document exactly once.                 *)
(*                                                                                                  *)
(* Pure definitions (the property itself, nothing of the algorithm):                                *)
(*   element tree  node = [n |-> name, a |-> <<[n, v, q]...>>, c |-> <<item...>>]                     *)
(*                 item = [t |-> text bytes]  or  node                                               *)
(*   RenderDoc(tree, pre)          the document text (explicit start and end tags, optional preamble) *)
(*   Expected(tree, prog, md, s)   what a pull traversal driven by the callback program `prog` must   *)
(*                                 observe: the sequence of callback invocations (depth, name,        *)
(*                                 attributes, body text when requested), the result of every         *)
(*                                 traverse call, and the final verdict.                              *)
(* prog[i] is the action taken in the i-th callback invocation (Descend / Body / Skip / Abort); a     *)
(* per-node assignment of actions induces such a sequence (the actions of the nodes that are reached) *)
(* and every sequence is induced by some assignment, so quantifying over sequences is quantifying     *)
(* over per-node programs.                                                                           *)
(*                                                                                                  *)
(* Limits (values of the pinned implementation, constants here): nesting depth (user max_depth,      *)
(* default DefaultMaxDepth), name length MaxNameLen, MaxAttrs attributes.  A document beyond a limit  *)
(* must be refused where the limit bites, never mis-reported:                                        *)
(*   - an element with more than MaxAttrs attributes is refused before it is reported;                *)
(*   - descending into an element at depth >= max depth is refused (if that element has no child      *)
(*     elements the statement does not say whether the document is "within" the limit: `s`, the       *)
(*     strict flag, covers both readings and a trace is accepted if it matches either);               *)
(*   - skipping or reading the body of an element whose name is longer than MaxNameLen is refused     *)
(*     (descending into it needs no name comparison and is reported normally).                        *)
EXTENDS Naturals, Sequences, FiniteSets

CONSTANTS DefaultMaxDepth, MaxNameLen, MaxAttrs

LT == 60
GT == 62
SLASH == 47
SP == 32
EQ == 61
QUOTE == 34
QMARK == 63
BANG == 33

DESCEND == 68     \* "D"
BODY == 66        \* "B"
SKIP == 83        \* "S"
ABORT == 65       \* "A"
SWALLOW == 100    \* "d": descends like "D" but the callback reports success whatever the nested traversal returned.
                  \* A failure is remembered by the parser itself, so what must be observed is exactly what "D" gives
                  \* (Visit treats every action that is not Body / Skip / Abort as Descend).
Actions == {DESCEND, BODY, SKIP, ABORT}
ProgLetters == Actions \cup {SWALLOW}          \* what a recorded program may contain

IsText(it) == "t" \in DOMAIN it
Children(nd) == SelectSeq(nd.c, LAMBDA it : ~IsText(it))

-----------------------------------------------------------------------------
(* Rendering *)
RECURSIVE CatFrom(_, _)
CatFrom(ss, i) == IF i > Len(ss) THEN <<>> ELSE ss[i] \o CatFrom(ss, i + 1)
Cat(ss) == CatFrom(ss, 1)

RenderAttr(at) == <<SP>> \o at.n \o <<EQ>> \o (IF at.q = 1 THEN <<QUOTE>> \o at.v \o <<QUOTE>> ELSE at.v)
RenderAttrs(as) == Cat([i \in 1..Len(as) |-> RenderAttr(as[i])])

RECURSIVE RenderNode(_), RenderItems(_, _)
RenderNode(nd) == <<LT>> \o nd.n \o RenderAttrs(nd.a) \o <<GT>> \o RenderItems(nd.c, 1) \o <<LT, SLASH>> \o nd.n \o <<GT>>
RenderItems(c, i) == IF i > Len(c) THEN <<>>
                     ELSE (IF IsText(c[i]) THEN c[i].t ELSE RenderNode(c[i])) \o RenderItems(c, i + 1)

(* preamble: pre = [lead |-> white space, items |-> <<[k |-> QMARK or BANG, c |-> content, ws |-> white space]>>, *)
(* tail |-> white space after the root element]; an item is  '<' k content '>' ws                               *)
RenderPreItems(pre) == Cat([i \in 1..Len(pre.items) |-> <<LT, pre.items[i].k>> \o pre.items[i].c \o <<GT>> \o pre.items[i].ws])
RenderHead(pre) == pre.lead \o RenderPreItems(pre)
RenderDoc(tree, pre) == RenderHead(pre) \o RenderNode(tree) \o pre.tail

-----------------------------------------------------------------------------
(* The dialect of the property statement *)
NoneOf(s, bad) == \A i \in 1..Len(s) : s[i] \notin bad
White == {32, 9, 10, 13}
NameOk(nm) == Len(nm) >= 1 /\ NoneOf(nm, {LT, GT, SP, SLASH, EQ, QUOTE, QMARK, BANG, 9, 10, 13})
AttrOk(at) == /\ NameOk(at.n)
              /\ NoneOf(at.v, {LT, GT, SP, QUOTE, 9, 10, 13})                   \* '=' is allowed in a value
              /\ at.q \in {0, 1}
              /\ (at.q = 0 /\ Len(at.v) > 0) => at.v[Len(at.v)] # SLASH     \* '<a k=x/>' would be a self-closing tag
TextOk(t) == NoneOf(t, {LT, GT})
RECURSIVE InDialect(_)
InDialect(nd) == /\ NameOk(nd.n)
                 /\ \A i \in 1..Len(nd.a) : AttrOk(nd.a[i])
                 /\ \A i \in 1..Len(nd.c) : IF IsText(nd.c[i]) THEN TextOk(nd.c[i].t) ELSE InDialect(nd.c[i])
PreOk(pre) == /\ \A i \in 1..Len(pre.lead) : pre.lead[i] \in White
              /\ \A i \in 1..Len(pre.tail) : pre.tail[i] \in White
              /\ \A i \in 1..Len(pre.items) : /\ pre.items[i].k \in {QMARK, BANG}
                                              /\ NoneOf(pre.items[i].c, {LT, GT})
                                              /\ \A j \in 1..Len(pre.items[i].ws) : pre.items[i].ws[j] \in White

RECURSIVE Height(_), Size(_)
MaxOf(S) == IF S = {} THEN 0 ELSE CHOOSE m \in S : \A x \in S : x <= m
Height(nd) == 1 + MaxOf({Height(k) : k \in {Children(nd)[i] : i \in 1..Len(Children(nd))}})
RECURSIVE SumSizes(_, _)
SumSizes(ks, i) == IF i > Len(ks) THEN 0 ELSE Size(ks[i]) + SumSizes(ks, i + 1)
Size(nd) == 1 + SumSizes(Children(nd), 1)

-----------------------------------------------------------------------------
(* Expected observations.  Two kinds of entries, same fields:                                          *)
(*   k = "N": a callback invocation for an element at depth d with name n, attributes at (name, value  *)
(*            with the quotes removed), the action act taken; ok = what the callback returned (Skip:    *)
(*            success, Abort: failure, Body: result of reading the body, Descend: TRUE, the result      *)
(*            of the traversal follows in the "R" entry); body = the text between the start and the     *)
(*            end tag when act = BODY succeeded                                                        *)
(*   k = "R": the traverse call made for the element at depth d returned; ok = it succeeded             *)
AttrObs(as) == [i \in 1..Len(as) |-> [n |-> as[i].n, v |-> as[i].v]]
NodeE(d, nd, act) == [k |-> "N", d |-> d, n |-> nd.n, at |-> AttrObs(nd.a), act |-> act, ok |-> TRUE, body |-> <<>>]
RetE(d, ok) == [k |-> "R", d |-> d, n |-> <<>>, at |-> <<>>, act |-> 0, ok |-> ok, body |-> <<>>]

ActOf(cx, i) == IF i <= Len(cx.prog) THEN cx.prog[i] ELSE SKIP

(* st = [i |-> index of the next callback invocation, obs |-> entries so far, stop |-> the parse has failed] *)
RECURSIVE Visit(_, _, _, _), VisitKids(_, _, _, _, _)
Visit(cx, nd, d, st) ==
    IF st.stop THEN st
    ELSE IF Len(nd.a) > MaxAttrs THEN [st EXCEPT !.stop = TRUE]             \* refused before being reported
    ELSE LET act == ActOf(cx, st.i)
             e == NodeE(d, nd, act)
             long == Len(nd.n) > MaxNameLen
             Push(x, halt) == [i |-> st.i + 1, obs |-> Append(st.obs, x), stop |-> halt]
         IN CASE act = ABORT -> Push([e EXCEPT !.ok = FALSE], TRUE)
              [] act = SKIP -> Push(e, long)
              [] act = BODY -> IF long THEN Push([e EXCEPT !.ok = FALSE], TRUE)
                               ELSE Push([e EXCEPT !.body = RenderItems(nd.c, 1)], FALSE)
              [] OTHER ->                                                       \* DESCEND
                   LET kids == Children(nd)
                       s1 == Push(e, FALSE)
                   IN IF d >= cx.md /\ (Len(kids) > 0 \/ cx.strict)
                      THEN [s1 EXCEPT !.obs = Append(@, RetE(d, FALSE)), !.stop = TRUE]
                      ELSE LET s2 == VisitKids(cx, kids, 1, d + 1, s1)
                           IN [s2 EXCEPT !.obs = Append(@, RetE(d, ~s2.stop))]
VisitKids(cx, kids, j, d, st) ==
    IF j > Len(kids) \/ st.stop THEN st
    ELSE VisitKids(cx, kids, j + 1, d, Visit(cx, kids[j], d, st))

EffDepth(md) == IF md = 0 THEN DefaultMaxDepth ELSE md

Expected(tree, prog, md, strict) ==
    LET cx == [prog |-> prog, md |-> EffDepth(md), strict |-> strict]
        st == Visit(cx, tree, 1, [i |-> 1, obs |-> <<>>, stop |-> FALSE])
    IN [obs |-> st.obs, ok |-> ~st.stop]

NodesOf(obs) == SelectSeq(obs, LAMBDA e : e.k = "N")

-----------------------------------------------------------------------------
(* What the definitions must satisfy by themselves (checked by TLC in XmlMC):                           *)
(* document order / exactly once / right depth: with the all-Descend program and no limit in the way,   *)
(* the reported elements are the pre-order listing of the tree                                          *)
RECURSIVE Preorder(_, _), PreorderKids(_, _, _)
Preorder(nd, d) == <<[d |-> d, n |-> nd.n, at |-> AttrObs(nd.a)]>> \o PreorderKids(Children(nd), 1, d + 1)
PreorderKids(ks, j, d) == IF j > Len(ks) THEN <<>> ELSE Preorder(ks[j], d) \o PreorderKids(ks, j + 1, d)

WithinLimits(tree, md) ==
    LET RECURSIVE W(_, _)
        W(nd, d) == /\ Len(nd.n) <= MaxNameLen /\ Len(nd.a) <= MaxAttrs
                    /\ d <= EffDepth(md)
                    /\ \A i \in 1..Len(Children(nd)) : W(Children(nd)[i], d + 1)
    IN W(tree, 1)
=============================================================================
