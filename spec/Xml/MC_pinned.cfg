SPECIFICATION Spec
CONSTANTS DefaultMaxDepth = 20
  MaxNameLen = 256
  MaxAttrs = 10
  FixF6 = FALSE
  FixEq = FALSE
  FixF5 = FALSE
  MaxNodes = 3
  MaxHeight = 3
  Decos = {0}
  MDs = {0}
  Pres <- PresNone
  GenMode = FALSE
INVARIANTS ImplMeetsSpec
CHECK_DEADLOCK FALSE
