------------------------------- MODULE XmlImpl -------------------------------
(* Implementation-shaped layer for C12: source/xml_parser.c transcribed onto character sequences.     *)
(*   aws_xml_parse            -> Parse          (preamble loop, s_node_next_sibling)                     *)
(*   aws_xml_node_traverse    -> Traverse / ChildLoop  (search '<' and '>', parent closed on "</")       *)
(*   s_advance_to_closing_tag -> AdvanceClose   (closing-tag search by substring, counting nested        *)
(*                                               openings of the same name)                             *)
(*   s_load_node_decl         -> LoadDecl       (split on ' ', then on '=', quotes trimmed)             *)
(* The user callback is the scripted program of Xml.tla; its observations are recorded in the same      *)
(* form as Xml!Expected so that TLC can compare the two for every small tree and program (XmlMC).       *)
(* FixF6 = FALSE is the closing-tag search of the pinned tree ("<ab" counted as a nested opening of     *)
(* "a", finding F6); TRUE requires the name to end ('>' or ' ') where the opening tag was found.        *)
(* FixF5 = FALSE searches '>' from the start of the remaining document as the pinned tree does (F5);    *)
(* the two coincide on documents of the dialect (text holds no '>').                                   *)
(* A counter-example of this module is a statement about this transcription, not a verdict              *)
(* (DESIGN 3.2); verdicts come from traces of the real code judged by Xml.tla.                          *)
EXTENDS Xml

CONSTANTS FixF6, FixF5, FixEq

RECURSIVE FindCh(_, _, _)
FindCh(T, c, from) == IF from > Len(T) THEN 0 ELSE IF T[from] = c THEN from ELSE FindCh(T, c, from + 1)
MatchAt(T, pat, i) == IF i + Len(pat) - 1 > Len(T) THEN FALSE ELSE \A j \in 1..Len(pat) : T[i + j - 1] = pat[j]
RECURSIVE FindSub(_, _, _)
FindSub(T, pat, from) == IF from + Len(pat) - 1 > Len(T) THEN 0
                         ELSE IF MatchAt(T, pat, from) THEN from ELSE FindSub(T, pat, from + 1)

(* aws_byte_cursor_split_on_char: parts between separators (empty parts kept) *)
RECURSIVE SplitFrom(_, _, _, _)
SplitFrom(s, ch, i, cur) == IF i > Len(s) THEN <<cur>>
                            ELSE IF s[i] = ch THEN <<cur>> \o SplitFrom(s, ch, i + 1, <<>>)
                            ELSE SplitFrom(s, ch, i + 1, Append(cur, s[i]))
Split(s, ch) == SplitFrom(s, ch, 1, <<>>)
RECURSIVE TrimL(_), TrimR(_)
TrimL(s) == IF Len(s) > 0 /\ s[1] = QUOTE THEN TrimL(Tail(s)) ELSE s
TrimR(s) == IF Len(s) > 0 /\ s[Len(s)] = QUOTE THEN TrimR(SubSeq(s, 1, Len(s) - 1)) ELSE s
TrimQuotes(s) == TrimR(TrimL(s))

(* s_load_node_decl: at most MaxAttrs + 1 space-separated parts; each further part is split at its first '=' *)
(* (FixEq = FALSE: the pinned tree split at every '=' and silently dropped a pair whose value held one)         *)
SplitFirst(s, ch) == LET i == FindCh(s, ch, 1)
                     IN IF i = 0 THEN <<s>> ELSE <<SubSeq(s, 1, i - 1), SubSeq(s, i + 1, Len(s))>>
LoadDecl(decl) ==
    LET parts == Split(decl, SP)
        pairs == [i \in 1..(Len(parts) - 1) |-> IF FixEq THEN SplitFirst(parts[i + 1], EQ) ELSE Split(parts[i + 1], EQ)]
        kept == SelectSeq(pairs, LAMBDA p : Len(p) <= 2)
    IN IF Len(parts) > MaxAttrs + 1 THEN [ok |-> FALSE, n |-> <<>>, at |-> <<>>]
       ELSE [ok |-> TRUE, n |-> parts[1],
             at |-> [i \in 1..Len(kept) |-> [n |-> kept[i][1], v |-> IF Len(kept[i]) = 2 THEN TrimQuotes(kept[i][2]) ELSE <<>>]]]

-----------------------------------------------------------------------------
(* parser state: p = first position of the remaining document (parser->doc), perr = parser->error,     *)
(* i = number of the next callback invocation, obs = observations, crash = a wrapped length was used  *)
Fail(st) == [st EXCEPT !.perr = TRUE]

(* inner while of s_advance_to_closing_tag: consume openings in front of the closing tag found at c *)
RECURSIVE InnerOpens(_, _, _, _, _, _)
InnerOpens(T, p, c, depth, open, closeLen) ==
    IF p > Len(T) THEN [p |-> p, depth |-> depth]
    ELSE LET o == FindSub(T, open, p)
         IN IF o # 0 /\ o < c
            THEN LET after == T[o + Len(open)]
                     real == IF FixF6 THEN after \in {GT, SP} ELSE TRUE
                 IN InnerOpens(T, o + 1, c, IF real THEN depth + 1 ELSE depth, open, closeLen)
            ELSE [p |-> c + closeLen, depth |-> depth - 1]
RECURSIVE OuterClose(_, _, _, _, _)
OuterClose(T, p, depth, open, close) ==
    LET c == FindSub(T, close, p)
    IN IF c = 0 THEN [ok |-> FALSE, p |-> p, c |-> 0]
       ELSE LET r == InnerOpens(T, p, c, depth, open, Len(close))
            IN IF r.depth > 0 THEN OuterClose(T, r.p, r.depth, open, close) ELSE [ok |-> TRUE, p |-> r.p, c |-> c]

(* s_advance_to_closing_tag(parser, node, out_body): -> [st, ok, body] *)
AdvanceClose(T, st, name, bodyStart) ==
    IF Len(name) + 3 > Len(T) - bodyStart + 1 THEN [st |-> Fail(st), ok |-> FALSE, body |-> <<>>]
    ELSE IF Len(name) > MaxNameLen THEN [st |-> Fail(st), ok |-> FALSE, body |-> <<>>]
    ELSE LET r == OuterClose(T, st.p, 1, <<LT>> \o name, <<LT, SLASH>> \o name \o <<GT>>)
         IN IF ~r.ok THEN [st |-> st, ok |-> FALSE, body |-> <<>>]
            ELSE [st |-> [st EXCEPT !.p = r.p], ok |-> ~st.perr, body |-> SubSeq(T, bodyStart, r.c - 1)]

RECURSIVE Traverse(_, _, _), ChildLoop(_, _, _), Callback(_, _, _, _, _)
(* the scripted user callback for node nd (depth d, body starting at bodyStart): -> [st, rc0, processed] *)
Callback(cx, st, nd, d, bodyStart) ==
    LET act == ActOf(cx, st.i)
        e == [k |-> "N", d |-> d, n |-> nd.n, at |-> nd.at, act |-> act, ok |-> TRUE, body |-> <<>>]
        Log(s, x) == [s EXCEPT !.i = @ + 1, !.obs = Append(@, x)]
    IN CASE act = ABORT -> [st |-> Log(st, [e EXCEPT !.ok = FALSE]), rc0 |-> FALSE, processed |-> FALSE]
         [] act = SKIP -> [st |-> Log(st, e), rc0 |-> TRUE, processed |-> FALSE]
         [] act = BODY -> LET a == AdvanceClose(cx.T, st, nd.n, bodyStart)
                          IN [st |-> Log(a.st, [e EXCEPT !.ok = a.ok, !.body = a.body]), rc0 |-> a.ok, processed |-> TRUE]
         [] OTHER -> LET t == Traverse(cx, Log(st, e), d)
                     IN [st |-> [t.st EXCEPT !.obs = Append(@, RetE(d, t.ok))], rc0 |-> t.ok, processed |-> TRUE]

(* aws_xml_node_traverse on a node at depth d (= length of the callback stack) *)
Traverse(cx, st, d) == IF d >= cx.md THEN [st |-> Fail(st), ok |-> FALSE] ELSE ChildLoop(cx, st, d)
ChildLoop(cx, st, d) ==
    IF st.perr THEN [st |-> st, ok |-> FALSE]
    ELSE LET T == cx.T
             lt == FindCh(T, LT, st.p)
             gt == IF lt = 0 THEN 0 ELSE FindCh(T, GT, IF FixF5 THEN lt ELSE st.p)
         IN IF lt = 0 \/ gt = 0 THEN [st |-> Fail(st), ok |-> FALSE]
            ELSE IF gt < lt \/ lt = Len(T) THEN [st |-> [Fail(st) EXCEPT !.crash = TRUE], ok |-> FALSE]
            ELSE IF T[lt + 1] = SLASH THEN [st |-> [st EXCEPT !.p = gt + 1], ok |-> TRUE]      \* parent closed
            ELSE LET nd == LoadDecl(SubSeq(T, lt + 1, gt - 1))
                     s1 == [st EXCEPT !.p = gt + 1]
                 IN IF ~nd.ok THEN [st |-> s1, ok |-> FALSE]
                    ELSE LET r == Callback(cx, s1, nd, d + 1, gt + 1)
                         IN IF ~r.rc0 THEN [st |-> Fail(r.st), ok |-> FALSE]
                            ELSE IF r.processed THEN ChildLoop(cx, r.st, d)
                            ELSE LET a == AdvanceClose(T, r.st, nd.n, gt + 1)
                                 IN IF ~a.ok THEN [st |-> Fail(a.st), ok |-> FALSE] ELSE ChildLoop(cx, a.st, d)

(* preamble loop of aws_xml_parse: -> [ok, p] *)
RECURSIVE Preamble(_, _)
Preamble(T, p) ==
    IF p > Len(T) THEN [ok |-> TRUE, p |-> p]
    ELSE LET start == FindCh(T, LT, p)
             loc == FindCh(T, GT, p)
         IN IF start = 0 \/ loc = 0 THEN [ok |-> FALSE, p |-> p]
            ELSE IF start < Len(T) /\ T[start + 1] \in {QMARK, BANG} /\ loc > start THEN Preamble(T, loc + 1)
            ELSE [ok |-> TRUE, p |-> start]

(* aws_xml_parse + s_node_next_sibling: -> [obs, ok, crash] *)
Parse(T, prog, md) ==
    LET cx == [T |-> T, prog |-> prog, md |-> EffDepth(md)]
        st0 == [p |-> 1, perr |-> FALSE, i |-> 1, obs |-> <<>>, crash |-> FALSE]
        pr == Preamble(T, 1)
        Res(st, ok) == [obs |-> st.obs, ok |-> ok, crash |-> st.crash]
    IN IF ~pr.ok THEN Res(st0, FALSE)
       ELSE LET lt == FindCh(T, LT, pr.p)
                gt == IF lt = 0 THEN 0 ELSE FindCh(T, GT, lt)
            IN IF lt = 0 THEN Res(st0, TRUE)                        \* nothing but preamble: success, no callback
               ELSE IF gt = 0 THEN Res(st0, FALSE)
               ELSE LET nd == LoadDecl(SubSeq(T, lt + 1, gt - 1))
                        s1 == [st0 EXCEPT !.p = gt + 1]
                    IN IF ~nd.ok THEN Res(s1, FALSE)
                       ELSE LET r == Callback(cx, s1, nd, 1, gt + 1)
                            IN IF ~r.rc0 THEN Res(r.st, FALSE)
                               ELSE IF r.processed THEN Res(r.st, ~r.st.perr)
                               ELSE LET a == AdvanceClose(T, r.st, nd.n, gt + 1)
                                    IN Res(a.st, a.ok /\ ~a.st.perr)
=============================================================================
