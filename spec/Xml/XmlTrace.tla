------------------------------- MODULE XmlTrace -------------------------------
(* Trace validation for C12.  One execution = a few documents; for each document the adapter logs         *)
(*   Doc  (the element tree and preamble the document was rendered from, the callback program, max_depth,  *)
(*         how many bytes were cut off the end, the document bytes handed to aws_xml_parse)                *)
(*   Node (one per callback invocation: depth, name, attributes, action, what the callback returned, body) *)
(*   Ret  (aws_xml_node_traverse for the element at depth d returned rc)                                   *)
(*   Done (aws_xml_parse returned rc)                                                                      *)
(* The specification re-renders the tree (Xml!RenderDoc must equal the logged bytes: the generator is not  *)
(* trusted), computes Xml!Expected and demands that the logged sequence is exactly that.                   *)
(* A document whose end was cut off (cut > 0: at least the root's end tag is damaged) must be refused;     *)
(* what was reported before the refusal must be a prefix of what the whole document reports.               *)
EXTENDS Xml, TraceCommon

VARIABLES l, cur, cands, k
Ev == TraceLog[l]
Chk(b) == b = TRUE      \* evaluate as a plain expression

Idle == [on |-> FALSE, cut |-> 0]

TDoc ==
    /\ Ev.e = "Doc" /\ ~cur.on
    /\ Chk(InDialect(Ev.tree) /\ PreOk(Ev.pre))                                     \* generator obligations
    /\ Chk(\A i \in 1..Len(Ev.prog) : Ev.prog[i] \in ProgLetters)
    /\ LET full == RenderDoc(Ev.tree, Ev.pre)
       IN /\ Chk(Ev.doc = SubSeq(full, 1, Len(full) - Ev.cut))
          /\ Chk(Ev.cut = 0 \/ (Ev.cut > Len(Ev.pre.tail) /\ Len(full) - Ev.cut > Len(RenderHead(Ev.pre))))
    /\ cands' = {Expected(Ev.tree, Ev.prog, Ev.md, s) : s \in BOOLEAN}
    /\ cur' = [on |-> TRUE, cut |-> Ev.cut]
    /\ k' = 0

NodeSame(ev, x) == /\ x.k = "N" /\ ev.d = x.d /\ ev.n = x.n /\ ev.act = x.act
                   /\ Len(ev.at) = Len(x.at)
                   /\ \A i \in 1..Len(x.at) : ev.at[i].n = x.at[i].n /\ ev.at[i].v = x.at[i].v
TNode ==
    /\ Ev.e = "Node" /\ cur.on
    /\ Chk(Ev.bad = 0)                                                              \* every view lies inside the document
    /\ IF cur.cut = 0
       THEN cands' = {c \in cands : IF k < Len(c.obs)
                                    THEN /\ NodeSame(Ev, c.obs[k + 1])
                                         /\ (Ev.rc = 0) = c.obs[k + 1].ok
                                         /\ Ev.body = c.obs[k + 1].body
                                    ELSE FALSE}
       ELSE cands' = {c \in cands : LET ns == NodesOf(c.obs)
                                    IN IF k < Len(ns)
                                       THEN /\ NodeSame(Ev, ns[k + 1])
                                            /\ (Ev.act = SKIP => Ev.rc = 0) /\ (Ev.act = ABORT => Ev.rc # 0)
                                            /\ (Ev.act = BODY /\ Ev.rc = 0) => Ev.body = ns[k + 1].body
                                            /\ (Ev.act # BODY \/ Ev.rc # 0) => Ev.body = <<>>
                                       ELSE FALSE}
    /\ cands' # {}
    /\ k' = k + 1 /\ UNCHANGED cur
TRet ==
    /\ Ev.e = "Ret" /\ cur.on
    /\ IF cur.cut = 0
       THEN /\ cands' = {c \in cands : IF k < Len(c.obs)
                                       THEN c.obs[k + 1].k = "R" /\ c.obs[k + 1].d = Ev.d /\ c.obs[k + 1].ok = (Ev.rc = 0)
                                       ELSE FALSE}
            /\ cands' # {}
            /\ k' = k + 1
       ELSE UNCHANGED <<cands, k>>                        \* a cut document: only the final refusal is demanded
    /\ UNCHANGED cur
TDone ==
    /\ Ev.e = "Done" /\ cur.on
    /\ IF cur.cut = 0
       THEN \E c \in cands : Len(c.obs) = k /\ c.ok = (Ev.rc = 0)
       ELSE Ev.rc # 0
    /\ cur' = Idle /\ cands' = {} /\ k' = 0

TReset == Ev.e = "Reset" /\ cur' = Idle /\ cands' = {} /\ k' = 0
TEnd == Ev.e = "End" /\ ~cur.on /\ Ev.live = 0 /\ UNCHANGED <<cur, cands, k>>

TNext == /\ l <= TraceLen /\ l' = l + 1
         /\ \/ TReset \/ TDoc \/ TNode \/ TRet \/ TDone \/ TEnd
TInit == l = 1 /\ cur = Idle /\ cands = {} /\ k = 0
TSpec == TInit /\ [][TNext]_<<l, cur, cands, k>>
=============================================================================
