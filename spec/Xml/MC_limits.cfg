SPECIFICATION Spec
CONSTANTS DefaultMaxDepth = 2
  MaxNameLen = 1
  MaxAttrs = 1
  FixF6 = TRUE
  FixEq = TRUE
  FixF5 = FALSE
  MaxNodes = 3
  MaxHeight = 3
  Decos = {0, 2}
  MDs = {1, 2}
  Pres <- PresNone
  GenMode = FALSE
INVARIANTS ImplMeetsSpec SpecSane
CHECK_DEADLOCK FALSE
