SPECIFICATION Spec
CONSTANTS DefaultMaxDepth = 20
  MaxNameLen = 256
  MaxAttrs = 10
  FixF6 = TRUE
  FixEq = TRUE
  FixF5 = TRUE
  MaxNodes = 5
  MaxHeight = 4
  Decos = {0}
  MDs = {0, 2, 3}
  Pres <- PresNone
  GenMode = FALSE
INVARIANTS ImplMeetsSpec SpecSane
CHECK_DEADLOCK FALSE
