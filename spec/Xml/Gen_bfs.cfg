SPECIFICATION Spec
CONSTANTS DefaultMaxDepth = 20
  MaxNameLen = 256
  MaxAttrs = 10
  FixF6 = TRUE
  FixEq = TRUE
  FixF5 = TRUE
  MaxNodes = 4
  MaxHeight = 3
  Decos = {0}
  MDs = {0}
  Pres <- PresNone
  GenMode = TRUE
INVARIANT Emit
CHECK_DEADLOCK FALSE
