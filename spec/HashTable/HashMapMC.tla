------------------------------ MODULE HashMapMC ------------------------------
(* Bounded exploration of the abstract map with two tables (swap / move), all operation          *)
(* sequences up to MaxSteps, an environment that owns key and value objects linearly (an object  *)
(* is handed to a table only while no table holds it and no destructor has seen it): under that  *)
(* environment the per-call destructor rules must add up to "exactly once, never while stored".  *)
EXTENDS HashMap, TLC

CONSTANTS Ptrs, Vals, MaxSteps, FlagWords

mcvars == <<live, cfg, m, it, kd, vd>>
Step == TRUE
(* exploration depth is bounded by a state constraint on the BFS level, so equal states reached at different depths coincide *)
Bound == TLCGet("level") <= MaxSteps + 1

KeyFree(t, c, p) == LET k == KObj(c, p) IN
    \/ k = 0
    \/ /\ k \notin DOMAIN kd
       /\ \A u \in Tabs : \A d \in Present(u) : KeyOf(u, d) = k => (u = t /\ d = c)
ValFree(v) == v \notin DOMAIN vd /\ v \notin StoredVals
PtrsOf(c) == IF c = 0 THEN {0} ELSE Ptrs
Bools == BOOLEAN

(* table 1 starts initialised (with or without destructors), table 2 does not *)
MCInit == /\ \E d \in Bools : /\ live = [t \in Tabs |-> t = 1]
                            /\ cfg = [t \in Tabs |-> IF t = 1 THEN [dk |-> d, dv |-> d] ELSE NoCfg]
          /\ m = [t \in Tabs |-> EmptyMap] /\ it = NoIter /\ kd = EmptyBag /\ vd = EmptyBag
MCInitT == Step /\ \E t \in Tabs, k \in Bools, v \in Bools : Init(t, k, v)
MCPut == Step /\ \E t \in Tabs, c \in Classes : \E p \in PtrsOf(c), v \in Vals :
            /\ KeyFree(t, c, p) /\ ValFree(v)
            /\ LET cr == m[t][c] = Nil IN
               Put(t, c, p, v, cr,
                   IF ~cr /\ cfg[t].dk /\ m[t][c].p # p THEN SetBag({KeyOf(t, c)}) ELSE EmptyBag,
                   IF ~cr /\ cfg[t].dv THEN SetBag({m[t][c].v}) ELSE EmptyBag)
MCCreate == Step /\ \E t \in Tabs, c \in Classes : \E p \in PtrsOf(c), sv \in Vals \cup {-1} :
            /\ KeyFree(t, c, p) /\ (sv >= 0 => ValFree(sv))
            /\ live[t] /\ m[t][c] = Nil     \* an existing element keeps its objects; setting a value would leak the old one
            /\ Create(t, c, p, TRUE, KObj(c, p), 0, sv)
MCCreateFound == Step /\ \E t \in Tabs, c \in Classes : \E p \in PtrsOf(c) :
            /\ live[t] /\ m[t][c] # Nil
            /\ Create(t, c, p, FALSE, KeyOf(t, c), m[t][c].v, -1)
MCFind == Step /\ \E t \in Tabs, c \in Classes : live[t] /\
            IF m[t][c] = Nil THEN Find(t, c, -1, -1) ELSE Find(t, c, KeyOf(t, c), m[t][c].v)
MCRemove == Step /\ \E t \in Tabs, c \in Classes, w \in Bools :
            /\ live[t]
            /\ LET pr == m[t][c] # Nil IN
               Remove(t, c, w, pr, IF pr /\ w THEN KeyOf(t, c) ELSE -1, IF pr /\ w THEN m[t][c].v ELSE -1,
                      IF pr /\ ~w /\ cfg[t].dk THEN SetBag({KeyOf(t, c)}) ELSE EmptyBag,
                      IF pr /\ ~w /\ cfg[t].dv THEN SetBag({m[t][c].v}) ELSE EmptyBag)
MCRemoveElement == Step /\ \E t \in Tabs, c \in Classes : RemoveElement(t, c)
AllK(t) == IF cfg[t].dk THEN KeysBag(t, Present(t)) ELSE EmptyBag
AllV(t) == IF cfg[t].dv THEN ValsBag(t, Present(t)) ELSE EmptyBag
MCClear == Step /\ \E t \in Tabs : Clear(t, AllK(t), AllV(t))
MCCleanUp == Step /\ \E t \in Tabs : CleanUp(t, AllK(t), AllV(t))
MCSwap == Step /\ Swap(1, 2)
MCMove == Step /\ \E a, b \in Tabs : Move(a, b)
MCEq == Step /\ \E a, b \in Tabs, kind \in {"id", "m3", "all"} : live[a] /\ live[b] /\
            /\ Assert(EqLaws(a, b, kind), "aws_hash_table_eq as specified is not an equivalence on tables")
            /\ Eq(a, b, kind, MapsEqual(a, b, kind), <<>>)
MCIterBegin == Step /\ \E t \in Tabs : live[t] /\
                 IF Present(t) = {} THEN IterBegin(t, TRUE, -1, -1)
                 ELSE \E c \in Present(t) : IterBegin(t, FALSE, KeyOf(t, c), m[t][c].v)
MCIterNext == Step /\ it.on /\
                 IF it.todo = {} THEN IterNext(TRUE, -1, -1)
                 ELSE \E c \in it.todo : IterNext(FALSE, KeyOf(it.t, c), m[it.t][c].v)
MCIterDelete == Step /\ it.on /\ it.st = "ready" /\ \E d \in Bools :
                 IterDelete(d, IF d /\ cfg[it.t].dk THEN SetBag({KeyOf(it.t, it.cur)}) ELSE EmptyBag,
                               IF d /\ cfg[it.t].dv THEN SetBag({m[it.t][it.cur].v}) ELSE EmptyBag)
RECURSIVE VisFrom(_, _)
VisFrom(t, C) == {<<>>} \cup UNION {{<<[k |-> KeyOf(t, c), v |-> m[t][c].v, f |-> f]>> \o s : s \in VisFrom(t, C \ {c})} :
                                    c \in C, f \in FlagWords}
MCForEach == Step /\ \E t \in Tabs : live[t] /\ \E vis \in VisFrom(t, Present(t)) :
                 ForEach(t, vis, ~(Len(vis) > 0 /\ FErr(vis[Len(vis)].f)), EmptyBag, EmptyBag)

MCNext == MCInitT \/ MCPut \/ MCCreate \/ MCCreateFound \/ MCFind \/ MCRemove \/ MCRemoveElement \/ MCClear
          \/ MCCleanUp \/ MCSwap \/ MCMove \/ MCEq \/ MCIterBegin \/ MCIterNext \/ MCIterDelete \/ MCForEach
MCSpec == MCInit /\ [][MCNext]_mcvars

=============================================================================
