SPECIFICATION TSpec
CONSTANTS Tabs = {1, 2}
  Classes = {0, 1, 2, 3, 4, 5, 6, 7, 8}
  InitSizePromise = TRUE
INVARIANTS DeadIsEmpty IterInv
POSTCONDITION TraceAccepted
CHECK_DEADLOCK FALSE
