----------------------------- MODULE HashMapTrace -----------------------------
(* Trace validation for C02: every event recorded from the real aws_hash_table must be explained  *)
(* by the HashMap action of the same name with exactly the logged arguments and results           *)
(* (was_created / was_present, returned elements, the destructor invocations made during the      *)
(* call), and what the public API shows afterwards -- liveness of both structs, entry count, a    *)
(* read-only find of every key class -- must equal the specification's map.  Slots, hash codes,   *)
(* sizes never appear here: the verdict is about the map the user sees.                           *)
(* Extension: Eq (aws_hash_table_eq with its comparator), aws_hash_table_is_valid of every live   *)
(* table and aws_hash_iter_is_valid of the user iterator after every call, allocator traffic of  *)
(* put / create against the storage the table is known to have (`room`), aws_hash_combine and    *)
(* the agreement of the three string hashes (Combine, XHash).  In mode string_own the dk / dv     *)
(* lists are the adapter's aws_string objects released at the allocator during the call: the     *)
(* table's destructor there is aws_hash_callback_string_destroy itself.                          *)
EXTENDS HashMap, TraceCommon

CONSTANT InitSizePromise   \* TRUE: also hold aws_hash_table_init to "initial capacity for 'size' elements without resizing"

VARIABLES l,
          room     \* [Tabs -> [held, asked]]: the most entries the table has held since init / the size init was given
Ev == TraceLog[l]

D == SeqBag(Ev.dk)        \* destructor invocations during this call (keys, values), as bags
V == SeqBag(Ev.dv)
Quiet == Ev.dk = <<>> /\ Ev.dv = <<>>

Observed(s) ==
    \A t \in Tabs :
        /\ (s.live[t] = 1) <=> live'[t]
        /\ IF live'[t]
           THEN /\ s.ok[t] = 1                                   \* aws_hash_table_is_valid
                /\ s.n[t] = Cardinality({c \in Classes : m'[t][c] # Nil})
                /\ \A c \in Classes :
                      IF m'[t][c] = Nil THEN s.fk[t][c + 1] = -1 /\ s.fv[t][c + 1] = -1
                      ELSE s.fk[t][c + 1] = KObj(c, m'[t][c].p) /\ s.fv[t][c + 1] = m'[t][c].v
           ELSE s.n[t] = -1

Flag(reported, b) == reported = -1 \/ ((reported = 1) <=> b)     \* -1: the optional out-parameter was not passed

TReset == /\ Ev.e = "Reset"
          /\ live' = [t \in Tabs |-> FALSE] /\ cfg' = [t \in Tabs |-> NoCfg]
          /\ m' = [t \in Tabs |-> EmptyMap] /\ it' = NoIter /\ kd' = EmptyBag /\ vd' = EmptyBag

TInit == /\ Ev.e = "Init" /\ Ev.rc = 0 /\ Quiet
         /\ Init(Ev.t, Ev.kfn = 1, Ev.vfn = 1)
         /\ Observed(Ev.s)

(* acq = allocator acquisitions during the call: none when the table had no reason to grow *)
Grew(t, created) ==
    /\ NoGrowthNeeded(t, created, room[t].held) => Ev.acq = 0
    /\ (InitSizePromise /\ NoGrowthNeeded(t, created, room[t].asked)) => Ev.acq = 0

TPut == /\ Ev.e = "Put" /\ Ev.rc = 0
        /\ \E created \in BOOLEAN : /\ Flag(Ev.wc, created) /\ Put(Ev.t, Ev.c, Ev.p, Ev.v, created, D, V)
                                    /\ Grew(Ev.t, created)
        /\ Observed(Ev.s)

TCreate == /\ Ev.e = "Create" /\ Ev.rc = 0 /\ Quiet
           /\ \E created \in BOOLEAN : /\ Flag(Ev.wc, created) /\ Create(Ev.t, Ev.c, Ev.p, created, Ev.ek, Ev.ev, Ev.setv)
                                       /\ Grew(Ev.t, created)
           /\ Observed(Ev.s)

TFind == /\ Ev.e = "Find" /\ Ev.rc = 0 /\ Quiet
         /\ Find(Ev.t, Ev.c, Ev.ek, Ev.ev)
         /\ Observed(Ev.s)

TRemove == /\ Ev.e = "Remove" /\ Ev.rc = 0
           /\ \E present \in BOOLEAN :
                 /\ Flag(Ev.wp, present)
                 /\ LET moved == Ev.out = 1 /\ present IN    \* an untouched out-parameter is not constrained
                    Remove(Ev.t, Ev.c, Ev.out = 1, present, IF moved THEN Ev.ok ELSE -1, IF moved THEN Ev.ov ELSE -1, D, V)
           /\ Observed(Ev.s)

TRemoveElement == /\ Ev.e = "RemoveElement" /\ Ev.rc = 0 /\ Quiet
                  /\ IF Ev.found = 1 THEN RemoveElement(Ev.t, Ev.c)
                     ELSE /\ live[Ev.t] /\ m[Ev.t][Ev.c] = Nil         \* find said absent; nothing was called
                          /\ it' = NoIter /\ UNCHANGED <<live, cfg, m, kd, vd>>
                  /\ Observed(Ev.s)

TClear == Ev.e = "Clear" /\ Clear(Ev.t, D, V) /\ Observed(Ev.s)
TCleanUp == Ev.e = "CleanUp" /\ CleanUp(Ev.t, D, V) /\ Observed(Ev.s)
TSwap == Ev.e = "Swap" /\ Quiet /\ Swap(Ev.a, Ev.b) /\ Observed(Ev.s)
TMove == Ev.e = "Move" /\ Quiet /\ Move(Ev.to, Ev.from) /\ Observed(Ev.s)

TEq == Ev.e = "Eq" /\ Quiet /\ Eq(Ev.a, Ev.b, Ev.kind, Ev.r = 1, Ev.cmp) /\ Observed(Ev.s)

(* iv = aws_hash_iter_is_valid on the user's iterator after the call *)
TIterBegin == Ev.e = "IterBegin" /\ Quiet /\ Ev.iv = 1 /\ IterBegin(Ev.t, Ev.done = 1, Ev.ek, Ev.ev) /\ Observed(Ev.s)
TIterNext == Ev.e = "IterNext" /\ Quiet /\ Ev.iv = 1 /\ IterNext(Ev.done = 1, Ev.ek, Ev.ev) /\ Observed(Ev.s)
TIterDelete == Ev.e = "IterDelete" /\ Ev.iv = 1 /\ IterDelete(Ev.destroy = 1, D, V) /\ Observed(Ev.s)

TForEach == /\ Ev.e = "ForEach" /\ Ev.ncb = Len(Ev.vis)
            /\ LET vis == [i \in 1..Len(Ev.vis) |-> [k |-> Ev.vis[i][1], v |-> Ev.vis[i][2], f |-> Ev.vis[i][3]]] IN
               ForEach(Ev.t, vis, Ev.rc = 0, D, V)
            /\ Observed(Ev.s)

(* the adapter did not make a call because its API precondition did not hold; the reason must be true *)
TSkip == /\ Ev.e = "Skip" /\ Quiet
         /\ CASE Ev.why = "dead" -> ~live[Ev.t]
              [] Ev.why = "live" -> live[Ev.t]
              [] Ev.why = "noiter" -> ~it.on
              [] Ev.why = "notready" -> it.on /\ it.st # "ready"
              [] OTHER -> FALSE
         /\ UNCHANGED hmvars
         /\ Observed(Ev.s)

(* the library's own hash / equality pairs: equality is reflexive and symmetric, agrees with how  *)
(* the two keys were built (copy / letter-case variant / different), hashing is a function of the *)
(* key, and equal keys hash equally                                                               *)
THashEq == /\ Ev.e = "HashEq"
           /\ Ev.refl = 1 /\ Ev.stable = 1 /\ Ev.eq = Ev.qe
           /\ Ev.rel = "copy" => Ev.eq = 1
           /\ Ev.rel = "case" => (Ev.eq = 1 <=> Ev.fam = "cursor_ic")
           /\ Ev.rel = "diff" => Ev.eq = 0
           /\ Ev.eq = 1 => Ev.same = 1
           /\ UNCHANGED hmvars

(* aws_hash_combine is a function of its two arguments (nothing else is documented) *)
TCombine == /\ Ev.e = "Combine"
            /\ Ev.stable = 1
            /\ Ev.rel = "copy" => Ev.same = 1
            /\ UNCHANGED hmvars

(* "Hash is same as used on the string bytes by aws_hash_c_string": the same bytes as C string,   *)
(* aws_string and byte cursor hash equally                                                       *)
TXHash == Ev.e = "XHash" /\ Ev.cs = 1 /\ Ev.cc = 1 /\ UNCHANGED hmvars

TEnd == Ev.e = "End" /\ Ev.live = 0 /\ Ev.unk = 0 /\ UNCHANGED hmvars

(* the storage a table has travels with it (swap, move), starts afresh at init and ends at clean_up *)
NoRoom == [held |-> 0, asked |-> 0]
Carried(t) ==
    CASE Ev.e = "Swap" -> IF t = Ev.a THEN room[Ev.b] ELSE IF t = Ev.b THEN room[Ev.a] ELSE room[t]
      [] Ev.e = "Move" -> IF t = Ev.to THEN room[Ev.from] ELSE IF t = Ev.from THEN NoRoom ELSE room[t]
      [] Ev.e = "Init" -> IF t = Ev.t THEN [held |-> 0, asked |-> Ev.isz] ELSE room[t]
      [] Ev.e = "Reset" -> NoRoom
      [] OTHER -> room[t]
RoomStep == room' = [t \in Tabs |->
                IF ~live'[t] THEN NoRoom
                ELSE LET n == Cardinality({c \in Classes : m'[t][c] # Nil}) IN
                     [Carried(t) EXCEPT !.held = IF n > @ THEN n ELSE @]]

TNext == /\ l <= TraceLen /\ l' = l + 1
         /\ (TReset \/ TInit \/ TPut \/ TCreate \/ TFind \/ TRemove \/ TRemoveElement \/ TClear \/ TCleanUp \/ TSwap
             \/ TMove \/ TEq \/ TIterBegin \/ TIterNext \/ TIterDelete \/ TForEach \/ TSkip \/ THashEq \/ TCombine
             \/ TXHash \/ TEnd)
         /\ RoomStep
TInitial == l = 1 /\ HMInit /\ room = [t \in Tabs |-> NoRoom]
TSpec == TInitial /\ [][TNext]_<<hmvars, l, room>>
=============================================================================
