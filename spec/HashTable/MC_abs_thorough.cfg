SPECIFICATION MCSpec
CONSTANTS Tabs = {1, 2}
  Classes = {0, 1, 2}
  Ptrs = {1, 2}
  Vals = {1, 2, 3}
  MaxSteps = 4
  FlagWords = {0, 1, 2, 3, 4, 7}
INVARIANTS DeadIsEmpty IterInv WellFormed AtMostOnce NoDangling
CONSTRAINT Bound
CHECK_DEADLOCK FALSE
