SPECIFICATION MCSpec
CONSTANTS Classes = {1, 2, 3, 4}
  Codes = {0, 2, 3, 7}
  InitSizes = {4}
  Ptrs = {1, 2}
  Vals = {1}
  MaxSteps = 3
  GenDepth = 0
  FlagScripts <- FSSmall
  DestructorModes <- OnlyDestructors
VIEW RealState
CONSTRAINT Bound
INVARIANTS CountInv HashInv NoDupClass Reachable AbsentNotFound DispOrder SizeInv IterElemInv IterWindowInv IterNoRepeat IterComplete
PROPERTY Refines
CHECK_DEADLOCK FALSE
