SPECIFICATION MCSpec
CONSTANTS Classes = {0, 1, 2, 3, 4, 5}
  Codes = {0, 1, 3, 7, 8, 15, 16}
  SortedHash = FALSE
  Full = TRUE
  InitSizes = {2, 4, 8}
  Ptrs = {1, 2}
  Vals = {1, 2, 3}
  SetVals <- SetSome
  OutModes <- OutBoth
  MaxSteps = 0
  GenDepth = 32
  FlagScripts <- FSGen
  DestructorModes <- BothModes
INVARIANT Emit
CHECK_DEADLOCK FALSE
