SPECIFICATION MCSpec
CONSTANTS Classes = {0, 1, 2}
  Codes = {3}
  SortedHash = TRUE
  Full = TRUE
  InitSizes = {2}
  Ptrs = {1, 2}
  Vals = {1, 2}
  SetVals <- SetSome
  OutModes <- OutBoth
  MaxSteps = 0
  GenDepth = 0
  FlagScripts <- FSSmall
  DestructorModes <- BothModes
VIEW RealState
CONSTRAINT Bound
INVARIANTS CountInv HashInv NoDupClass Reachable AbsentNotFound DispOrder SizeInv IterElemInv IterWindowInv IterNoRepeat IterComplete
PROPERTY Refines
CHECK_DEADLOCK FALSE
