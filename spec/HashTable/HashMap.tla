------------------------------- MODULE HashMap -------------------------------
(* aws_hash_table as property C02 states it: a plain map.  Nothing here knows about slots, hash  *)
(* codes, probing or resizing -- a key class is either absent or bound to exactly one            *)
(* (key object, value) pair, whatever the hash function does.                                    *)
(*                                                                                               *)
(* Keys are *objects* (c, p): class c and pointer p.  Two objects of one class are equal under   *)
(* the table's equality but are distinct pointers; that is what the overwrite rule needs         *)
(* (aws_hash_table_put destroys the old key object iff it is a different pointer than the new    *)
(* one, and always destroys the old value).  Class 0 is the NULL key (one object, id 0).         *)
(* Key object id = 4*c + p.  Values are small ids, 0 = NULL.                                     *)
(*                                                                                               *)
(* Every action is a relation between pre-state, arguments, *reported results* (was_created,     *)
(* was_present, returned element, bag of destructor invocations made during the call) and        *)
(* post-state: the same definition serves bounded model checking (HashMapMC), the refinement     *)
(* check of the implementation-shaped model (RobinHoodMC) and validation of traces recorded      *)
(* from the real library (HashMapTrace).  <Name>C is the action without the cumulative           *)
(* destructor counters, <Name> adds the accounting.                                              *)
EXTENDS HTCommon

CONSTANTS Tabs,      \* table identities, {1, 2}: two aws_hash_table structs (needed by swap / move)
          Classes    \* key classes (a finite set of naturals; 0, if present, is the NULL key)

VARIABLES live,      \* [Tabs -> BOOLEAN]   initialised and not cleaned up (p_impl # NULL)
          cfg,       \* [Tabs -> [dk, dv : BOOLEAN]]  key / value destructor installed; travels with swap/move
          m,         \* [Tabs -> [Classes -> Entry \cup {Nil}]]
          it,        \* the (single) user iterator
          kd, vd     \* bags: how often each key object / value was handed to a destructor so far

corevars == <<live, cfg, m, it>>
hmvars == <<live, cfg, m, it, kd, vd>>

-----------------------------------------------------------------------------
EmptyMap == [c \in Classes |-> Nil]
Present(t) == {c \in Classes : m[t][c] # Nil}
Count(t) == Cardinality(Present(t))
KeyOf(t, c) == KObj(c, m[t][c].p)
NoIter == [on |-> FALSE, t |-> 0, todo |-> {}, cur |-> -1, st |-> "none"]
NoCfg == [dk |-> FALSE, dv |-> FALSE]

(* the destructor invocations a call makes when it drops the entries of the classes in C *)
KeysBag(t, C) == SetBag({KeyOf(t, c) : c \in C})
ValsBag(t, C) == [x \in {m[t][c].v : c \in C} |-> Cardinality({c \in C : m[t][c].v = x})]
Destroys(t, C, dks, dvs) ==
    /\ dks = IF cfg[t].dk THEN KeysBag(t, C) ELSE EmptyBag
    /\ dvs = IF cfg[t].dv THEN ValsBag(t, C) ELSE EmptyBag
NoDestroy(dks, dvs) == dks = EmptyBag /\ dvs = EmptyBag
Account(dks, dvs) == kd' = BagAdd(kd, dks) /\ vd' = BagAdd(vd, dvs)

Drop(t, C) == [m EXCEPT ![t] = [c \in Classes |-> IF c \in C THEN Nil ELSE m[t][c]]]

HMInit ==
    /\ live = [t \in Tabs |-> FALSE] /\ cfg = [t \in Tabs |-> NoCfg]
    /\ m = [t \in Tabs |-> EmptyMap] /\ it = NoIter
    /\ kd = EmptyBag /\ vd = EmptyBag

-----------------------------------------------------------------------------
(* aws_hash_table_init on a table that is not live; hasK / hasV: destructor callbacks given *)
InitC(t, hasK, hasV) ==
    /\ ~live[t]
    /\ live' = [live EXCEPT ![t] = TRUE]
    /\ cfg' = [cfg EXCEPT ![t] = [dk |-> hasK, dv |-> hasV]]
    /\ m' = [m EXCEPT ![t] = EmptyMap]
    /\ it' = NoIter

(* put: "If another element exists at that key, the old element will be overwritten; both old    *)
(* key and value objects will be destroyed" -- the old key object only when it is not the very   *)
(* object being put (else the table would hold a destroyed key).                                 *)
PutC(t, c, p, v, created, dks, dvs) ==
    /\ live[t] /\ c \in Classes /\ ValidPtr(c, p)
    /\ created <=> m[t][c] = Nil
    /\ IF created THEN NoDestroy(dks, dvs)
       ELSE /\ dks = IF cfg[t].dk /\ m[t][c].p # p THEN SetBag({KeyOf(t, c)}) ELSE EmptyBag
            /\ dvs = IF cfg[t].dv THEN SetBag({m[t][c].v}) ELSE EmptyBag
    /\ m' = [m EXCEPT ![t][c] = [p |-> p, v |-> v]]
    /\ it' = NoIter /\ UNCHANGED <<live, cfg>>

(* create: finds, or creates with value NULL; an existing element keeps its key object and its   *)
(* value; the element handed back is (ek, ev).  setv >= 0: the caller then stores setv through   *)
(* the returned element ("calling code may alter value"), no destructor involved.                *)
CreateC(t, c, p, created, ek, ev, setv) ==
    /\ live[t] /\ c \in Classes /\ ValidPtr(c, p)
    /\ created <=> m[t][c] = Nil
    /\ LET e == IF created THEN [p |-> p, v |-> 0] ELSE m[t][c] IN
       /\ ek = KObj(c, e.p) /\ ev = e.v
       /\ m' = [m EXCEPT ![t][c] = [p |-> e.p, v |-> IF setv >= 0 THEN setv ELSE e.v]]
    /\ it' = NoIter /\ UNCHANGED <<live, cfg>>

(* find: the stored element of the class or none (ek = ev = -1); never changes anything *)
FindC(t, c, ek, ev) ==
    /\ live[t] /\ c \in Classes
    /\ IF m[t][c] = Nil THEN ek = -1 /\ ev = -1 ELSE ek = KeyOf(t, c) /\ ev = m[t][c].v
    /\ UNCHANGED corevars

(* remove by key.  withOut: an out-parameter was given -> the element is moved out (ok, ov) and   *)
(* no destructor runs; otherwise both destructors run on the removed entry.                      *)
RemoveC(t, c, withOut, present, ok, ov, dks, dvs) ==
    /\ live[t] /\ c \in Classes
    /\ present <=> m[t][c] # Nil
    /\ IF ~present THEN NoDestroy(dks, dvs) /\ ok = -1 /\ ov = -1
       ELSE IF withOut THEN NoDestroy(dks, dvs) /\ ok = KeyOf(t, c) /\ ov = m[t][c].v
       ELSE Destroys(t, {c}, dks, dvs) /\ ok = -1 /\ ov = -1
    /\ m' = Drop(t, {c})
    /\ it' = NoIter /\ UNCHANGED <<live, cfg>>

(* remove_element on an element obtained from find: gone, no destructor *)
RemoveElementC(t, c) ==
    /\ live[t] /\ c \in Present(t)
    /\ m' = Drop(t, {c})
    /\ it' = NoIter /\ UNCHANGED <<live, cfg>>

ClearC(t, dks, dvs) ==
    /\ live[t]
    /\ Destroys(t, Present(t), dks, dvs)
    /\ m' = [m EXCEPT ![t] = EmptyMap]
    /\ it' = NoIter /\ UNCHANGED <<live, cfg>>

(* clean_up: clear + release; idempotent on a table that is not live *)
CleanUpC(t, dks, dvs) ==
    /\ IF live[t] THEN Destroys(t, Present(t), dks, dvs) ELSE NoDestroy(dks, dvs)
    /\ live' = [live EXCEPT ![t] = FALSE]
    /\ cfg' = [cfg EXCEPT ![t] = NoCfg]
    /\ m' = [m EXCEPT ![t] = EmptyMap]
    /\ it' = NoIter

(* swap: everything, including "uninitialised", changes places *)
SwapC(a, b) ==
    /\ a # b
    /\ live' = [live EXCEPT ![a] = live[b], ![b] = live[a]]
    /\ cfg' = [cfg EXCEPT ![a] = cfg[b], ![b] = cfg[a]]
    /\ m' = [m EXCEPT ![a] = m[b], ![b] = m[a]]
    /\ it' = NoIter

(* move: `to` (not live: the caller's obligation) takes over the table; `from` is as after clean_up *)
MoveC(to, from) ==
    /\ to # from /\ live[from] /\ ~live[to]
    /\ live' = [live EXCEPT ![to] = TRUE, ![from] = FALSE]
    /\ cfg' = [cfg EXCEPT ![to] = cfg[from], ![from] = NoCfg]
    /\ m' = [m EXCEPT ![to] = m[from], ![from] = EmptyMap]
    /\ it' = NoIter

(* aws_hash_table_eq(a, b, value_eq): "Compares two hash tables for equality ... values will be   *)
(* compared using the comparator passed into this function.  The key hash function does not need *)
(* to be equivalent between the two hash tables."  Equal = the same key classes, and under every *)
(* one of them two values the comparator calls equal.  The comparator is an equivalence on       *)
(* values, given here by the class it puts a value in (kind "id": every value its own class,     *)
(* "m3": value id modulo 3, "all": one class); NULL (0) is a class of its own under every kind,  *)
(* so whether the library consults the comparator for NULL or for identical pointers is open.    *)
(* cmp = the pairs the comparator was shown: only ever the two values stored under one key.      *)
(* Non-mutating: nothing changes, a user iterator stays usable.  a = b is allowed.               *)
VCls(kind, v) == IF v = 0 THEN 0 ELSE IF kind = "id" THEN v ELSE IF kind = "m3" THEN 1 + (v % 3) ELSE 1
MapsEqual(a, b, kind) == /\ Present(a) = Present(b)
                         /\ \A c \in Present(a) : VCls(kind, m[a][c].v) = VCls(kind, m[b][c].v)
EqC(a, b, kind, res, cmp) ==
    /\ live[a] /\ live[b] /\ kind \in {"id", "m3", "all"}
    /\ res <=> MapsEqual(a, b, kind)
    /\ \A i \in DOMAIN cmp : \E c \in Present(a) \cap Present(b) :
           \/ cmp[i][1] = m[a][c].v /\ cmp[i][2] = m[b][c].v
           \/ cmp[i][1] = m[b][c].v /\ cmp[i][2] = m[a][c].v
    /\ UNCHANGED corevars

(* Storage growth as a caller can observe it (allocator traffic during put / create).  `room` is  *)
(* a number of entries the table certainly has room for.  A call that adds no entry, or adds one *)
(* while the table holds fewer than `room`, has no reason to grow the table ("Raises             *)
(* AWS_ERROR_OOM if hash table expansion was required").  HeldBefore: the most entries the table *)
(* has held since aws_hash_table_init -- storage is only given back by clean_up, in particular   *)
(* clear keeps it.  AskedFor: the `size` given to aws_hash_table_init ("initial capacity for     *)
(* 'size' elements without resizing").  Which of the two a check relies on is the caller's       *)
(* choice (HashMapTrace).                                                                        *)
NoGrowthNeeded(t, created, room) == ~created \/ Count(t) < room

-----------------------------------------------------------------------------
(* Iteration.  Order is free; `todo` is what a complete iteration still has to show.  A full     *)
(* iteration therefore shows every entry that was present at begin exactly once, and "done" is   *)
(* reported exactly when nothing is left -- also when entries are deleted through the iterator.  *)
IterBeginC(t, done, ek, ev) ==
    /\ live[t]
    /\ done <=> Present(t) = {}
    /\ IF done THEN it' = [on |-> TRUE, t |-> t, todo |-> {}, cur |-> -1, st |-> "done"]
       ELSE \E c \in Present(t) :
              /\ ek = KeyOf(t, c) /\ ev = m[t][c].v
              /\ it' = [on |-> TRUE, t |-> t, todo |-> Present(t) \ {c}, cur |-> c, st |-> "ready"]
    /\ UNCHANGED <<live, cfg, m>>

IterNextC(done, ek, ev) ==
    /\ it.on
    /\ done <=> it.todo = {}
    /\ IF done THEN it' = [it EXCEPT !.cur = -1, !.st = "done"]
       ELSE \E c \in it.todo :
              /\ ek = KeyOf(it.t, c) /\ ev = m[it.t][c].v
              /\ it' = [it EXCEPT !.todo = it.todo \ {c}, !.cur = c, !.st = "ready"]
    /\ UNCHANGED <<live, cfg, m>>

(* delete through the iterator; destructors iff destroy_contents *)
IterDeleteC(destroy, dks, dvs) ==
    /\ it.on /\ it.st = "ready"
    /\ IF destroy THEN Destroys(it.t, {it.cur}, dks, dvs) ELSE NoDestroy(dks, dvs)
    /\ m' = Drop(it.t, {it.cur})
    /\ it' = [it EXCEPT !.cur = -1, !.st = "deleted"]
    /\ UNCHANGED <<live, cfg>>

(* foreach.  vis = the callback invocations in order, each [k, v, f]: element shown and the flag  *)
(* word the callback returned.  CONTINUE = 1, DELETE = 2, ERROR = 4.  ERROR: stop, nothing done   *)
(* for this element, AWS_OP_ERR.  DELETE: the element is removed, destructors do NOT run.         *)
(* No CONTINUE: iteration stops -- except that for DELETE without CONTINUE the header is         *)
(* ambiguous ("deletes the current value and continues iteration"), so both are accepted.        *)
MustGoOn(f) == ~FErr(f) /\ FCont(f)
MayGoOn(f) == ~FErr(f) /\ (FCont(f) \/ FDel(f))
ForEachC(t, vis, ok, dks, dvs) ==
    /\ live[t]
    /\ LET n == Len(vis)
           cl(i) == ClassOf(vis[i].k)
           seen == {cl(i) : i \in 1..n} IN
       /\ \A i \in 1..n : /\ cl(i) \in Present(t)
                          /\ vis[i].k = KeyOf(t, cl(i)) /\ vis[i].v = m[t][cl(i)].v
       /\ \A i, j \in 1..n : i # j => cl(i) # cl(j)                     \* nothing shown twice
       /\ \A i \in 1..(n - 1) : MayGoOn(vis[i].f)
       /\ (n = 0 \/ MustGoOn(vis[n].f)) => seen = Present(t)            \* not stopped => complete
       /\ ok <=> ~(n > 0 /\ FErr(vis[n].f))
       /\ m' = Drop(t, {cl(i) : i \in {j \in 1..n : FDel(vis[j].f) /\ ~FErr(vis[j].f)}})
    /\ NoDestroy(dks, dvs)
    /\ it' = NoIter /\ UNCHANGED <<live, cfg>>

-----------------------------------------------------------------------------
(* the same with destructor accounting *)
Init(t, hasK, hasV) == InitC(t, hasK, hasV) /\ UNCHANGED <<kd, vd>>
Put(t, c, p, v, created, dks, dvs) == PutC(t, c, p, v, created, dks, dvs) /\ Account(dks, dvs)
Create(t, c, p, created, ek, ev, setv) == CreateC(t, c, p, created, ek, ev, setv) /\ UNCHANGED <<kd, vd>>
Find(t, c, ek, ev) == FindC(t, c, ek, ev) /\ UNCHANGED <<kd, vd>>
Remove(t, c, withOut, present, ok, ov, dks, dvs) ==
    RemoveC(t, c, withOut, present, ok, ov, dks, dvs) /\ Account(dks, dvs)
RemoveElement(t, c) == RemoveElementC(t, c) /\ UNCHANGED <<kd, vd>>
Clear(t, dks, dvs) == ClearC(t, dks, dvs) /\ Account(dks, dvs)
CleanUp(t, dks, dvs) == CleanUpC(t, dks, dvs) /\ Account(dks, dvs)
Swap(a, b) == SwapC(a, b) /\ UNCHANGED <<kd, vd>>
Move(to, from) == MoveC(to, from) /\ UNCHANGED <<kd, vd>>
Eq(a, b, kind, res, cmp) == EqC(a, b, kind, res, cmp) /\ UNCHANGED <<kd, vd>>
IterBegin(t, done, ek, ev) == IterBeginC(t, done, ek, ev) /\ UNCHANGED <<kd, vd>>
IterNext(done, ek, ev) == IterNextC(done, ek, ev) /\ UNCHANGED <<kd, vd>>
IterDelete(destroy, dks, dvs) == IterDeleteC(destroy, dks, dvs) /\ Account(dks, dvs)
ForEach(t, vis, ok, dks, dvs) == ForEachC(t, vis, ok, dks, dvs) /\ Account(dks, dvs)

-----------------------------------------------------------------------------
(* internal consistency of the specification (checked by TLC in HashMapMC) *)
DeadIsEmpty == \A t \in Tabs : ~live[t] => (Present(t) = {} /\ cfg[t] = NoCfg)
IterInv == it.on => /\ live[it.t]
                    /\ it.todo \subseteq Present(it.t)
                    /\ it.st = "ready" => (it.cur \in Present(it.t) /\ it.cur \notin it.todo)
                    /\ it.st = "done" => it.todo = {}
WellFormed == \A t \in Tabs : \A c \in Present(t) : ValidPtr(c, m[t][c].p)

(* With an environment that owns objects linearly (HashMapMC: an object is put only while no     *)
(* table holds it and it has not been destroyed) the per-call rules add up to the property's     *)
(* last sentence: no object is destroyed twice, and nothing a table still holds was destroyed.   *)
StoredKeyObjs == UNION {{KeyOf(t, c) : c \in Present(t)} : t \in Tabs}
StoredVals == UNION {{m[t][c].v : c \in Present(t)} : t \in Tabs}
(* 0 is NULL (the NULL key / the NULL value a created element starts with), not an object *)
(* aws_hash_table_eq is an equivalence on tables whatever the comparator (reflexive, symmetric),  *)
(* and a coarser comparator equates more; HashMapMC asserts this wherever it compares            *)
EqLaws(a, b, kind) ==
    /\ MapsEqual(a, a, kind)
    /\ MapsEqual(a, b, kind) <=> MapsEqual(b, a, kind)
    /\ (kind = "id" /\ MapsEqual(a, b, "id")) => MapsEqual(a, b, "m3")
    /\ (kind = "m3" /\ MapsEqual(a, b, "m3")) => MapsEqual(a, b, "all")
AtMostOnce == (\A k \in DOMAIN kd \ {0} : kd[k] = 1) /\ (\A v \in DOMAIN vd \ {0} : vd[v] = 1)
NoDangling == (StoredKeyObjs \cap (DOMAIN kd \ {0}) = {}) /\ (StoredVals \cap (DOMAIN vd \ {0}) = {})
=============================================================================
