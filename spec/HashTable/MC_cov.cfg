SPECIFICATION MCSpec
CONSTANTS Classes = {1, 2, 3}
  Codes = {1, 3}
  SortedHash = TRUE
  Full = TRUE
  InitSizes = {2}
  Ptrs = {1}
  Vals = {1}
  SetVals <- NoSet
  OutModes <- NoOutParam
  MaxSteps = 0
  GenDepth = 0
  FlagScripts <- FSLayout
  DestructorModes <- OnlyDestructors
VIEW RealState
CONSTRAINT Bound
INVARIANTS CountInv HashInv NoDupClass Reachable AbsentNotFound DispOrder SizeInv IterElemInv IterWindowInv IterNoRepeat IterComplete
PROPERTY Refines
CHECK_DEADLOCK FALSE
