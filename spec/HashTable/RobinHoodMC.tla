----------------------------- MODULE RobinHoodMC -----------------------------
(* (1) Exhaustive check that RobinHood refines HashMap for every hash function Classes -> Codes,  *)
(*     every initial size in InitSizes and every operation sequence (the complete reachable      *)
(*     state space when MaxSteps = 0, else sequences of up to MaxSteps calls).  Ghost variables  *)
(*     are hidden by VIEW; the refinement is an action property, so TLC evaluates it on every    *)
(*     transition.  Full = FALSE restricts the calls to those with their own slot-array logic    *)
(*     (put, remove, iterator, foreach); create / find / remove_element / clear / clean_up reuse *)
(*     the same functions and are explored in the configurations with Full = TRUE.               *)
(* (2) Behaviour generation: simulation with a history; each behaviour is printed as a script    *)
(*     (hash assignment + initial size + calls) that is replayed on the real aws_hash_table.     *)
EXTENDS RobinHood, Json

CONSTANTS Codes, SortedHash, Full, InitSizes, Ptrs, Vals, SetVals, OutModes, MaxSteps, GenDepth, FlagScripts, DestructorModes
VARIABLES hist

mcvars == <<hash, alive, hasK, hasV, size, slots, count, iter, op, vis, start, dup, hist>>
Rec == hist' = IF GenDepth > 0 THEN Append(hist, op') ELSE hist
G == GenDepth > 0 => Len(hist) < GenDepth
PtrsOf(c) == IF c = 0 THEN {0} ELSE Ptrs
(* generation only: a uniformly random walk empties the table too often to build clusters, so the wholesale *)
(* operations are offered only now and then                                                               *)
Rare == GenDepth > 0 => (count >= 4 \/ Len(hist) % 7 = 0)
(* ... and an iteration in progress is mostly continued (next / delete) rather than abandoned *)
Free == GenDepth > 0 => (~iter.on \/ iter.st = "done" \/ Len(hist) % 6 = 0)

MCInit ==
    /\ hash \in [Classes \ {0} -> Codes]
    \* classes are interchangeable (every call is offered for every class), so for the exhaustive check it is
    \* enough to take one hash function per multiset of codes: the non-decreasing ones
    /\ SortedHash => \A c, d \in Classes \ {0} : c < d => hash[c] <= hash[d]
    /\ \E sz \in InitSizes, d \in DestructorModes :
          /\ alive = TRUE /\ hasK = d /\ hasV = d
          /\ size = sz /\ slots = EmptySlots(sz) /\ count = 0
          /\ op = [name |-> "Init", isz |-> sz, k |-> d, v |-> d]
    /\ iter = NoIt /\ vis = {} /\ start = {} /\ dup = FALSE /\ hist = IF GenDepth > 0 THEN <<op>> ELSE <<>>

MCReInit == G /\ Full /\ (\E sz \in InitSizes, d \in DestructorModes : RInit(sz, d, d)) /\ Rec
MCPut == G /\ Free /\ (\E c \in Classes : \E p \in PtrsOf(c), v \in Vals : RPut(c, p, v)) /\ ~op'.grew /\ Rec
MCPutGrow == G /\ Free /\ (\E c \in Classes : \E p \in PtrsOf(c), v \in Vals : RPut(c, p, v)) /\ op'.grew /\ Rec
MCCreate == G /\ Full /\ Free /\ (\E c \in Classes : \E p \in PtrsOf(c), sv \in SetVals : RCreate(c, p, sv)) /\ Rec
MCFind == G /\ Full /\ Free /\ (\E c \in Classes : RFind(c)) /\ Rec
MCRemove == G /\ Free /\ (\E c \in Classes, w \in OutModes : RRemove(c, w)) /\ ~op'.wrapped /\ Rec
MCRemoveWrap == G /\ Free /\ (\E c \in Classes, w \in OutModes : RRemove(c, w)) /\ op'.wrapped /\ Rec
MCRemoveElement == G /\ Full /\ Free /\ (\E c \in Classes : RRemoveElement(c)) /\ Rec
MCClear == G /\ Full /\ Rare /\ RClear /\ Rec
MCCleanUp == G /\ Full /\ Rare /\ alive /\ RCleanUp /\ Rec
MCIterBegin == G /\ Free /\ RIterBegin /\ Rec
MCIterNext == G /\ RIterNext /\ Rec
MCIterDelete == G /\ (\E d \in OutModes : RIterDelete(~d)) /\ ~op'.shrunk /\ ~op'.stepback /\ Rec
MCIterDeleteShrink == G /\ (\E d \in OutModes : RIterDelete(~d)) /\ op'.shrunk /\ Rec           \* limit-- (wrap case)
MCIterDeleteSlot0 == G /\ (\E d \in OutModes : RIterDelete(~d)) /\ ~op'.shrunk /\ op'.stepback /\ Rec  \* slot 0 -> SIZE_MAX
MCForEach == G /\ Rare /\ (\E fl \in FlagScripts : RForEach(fl)) /\ Rec

MCNext == MCReInit \/ MCPut \/ MCPutGrow \/ MCCreate \/ MCFind \/ MCRemove \/ MCRemoveWrap \/ MCRemoveElement \/ MCClear
          \/ MCCleanUp \/ MCIterBegin \/ MCIterNext \/ MCIterDelete \/ MCIterDeleteShrink \/ MCIterDeleteSlot0 \/ MCForEach
MCSpec == MCInit /\ [][MCNext]_mcvars

(* everything but the ghosts *)
RealState == <<hash, alive, hasK, hasV, size, slots, count, iter, vis, start, dup>>
Bound == MaxSteps = 0 \/ TLCGet("level") <= MaxSteps + 1

(* RobinHood => HashMap: every step is a step of the abstract map with the same reported results *)
Refines == [][HMStep(op')]_mcvars

FSLayout == {<<>>, <<3, 3, 3, 3, 3>>, <<1, 3>>, <<3, 0>>}
FSSmall == {<<>>, <<3>>, <<1, 3>>, <<3, 3, 3, 3, 3>>, <<3, 0>>, <<1, 4>>}
FSGen == {<<>>, <<3>>, <<1, 3>>, <<3, 3>>, <<3, 1, 3>>, <<1, 1, 3>>, <<3, 3, 3, 3>>, <<1, 3, 1, 3>>, <<3, 3, 0>>, <<3, 7>>,
          <<1, 1, 4>>, <<2>>, <<3, 2>>, <<1, 3, 3, 3, 3, 3>>, <<3, 3, 3, 3, 3, 3, 3, 3>>, <<0>>}
BothModes == {TRUE, FALSE}
OnlyDestructors == {TRUE}
(* OutModes: is remove given an out-parameter (no destructors) / is iterator delete told NOT to destroy *)
NoOutParam == {FALSE}
OutBoth == {TRUE, FALSE}
NoSet == {-1}
SetSome == {-1, 2}

Emit == (GenDepth > 0 /\ Len(hist) = GenDepth) =>
            PrintT(<<"SCRIPT", ToJson([hash |-> hash, ops |-> hist])>>)
=============================================================================
