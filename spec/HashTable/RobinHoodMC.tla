----------------------------- MODULE RobinHoodMC -----------------------------
(* (1) Bounded exhaustive check that RobinHood refines HashMap for every hash function           *)
(*     Classes -> Codes, every initial size in InitSizes and every operation sequence of up to   *)
(*     MaxSteps calls (ghost variables hidden by VIEW; the refinement is an action property, so  *)
(*     TLC evaluates it on every transition).                                                    *)
(* (2) Behaviour generation: simulation with a history; each behaviour is printed as a script    *)
(*     (hash assignment + initial size + calls) that is replayed on the real aws_hash_table.     *)
EXTENDS RobinHood, Json

CONSTANTS Codes, InitSizes, Ptrs, Vals, MaxSteps, GenDepth, FlagScripts, DestructorModes
VARIABLES hist

mcvars == <<hash, alive, hasK, hasV, size, slots, count, iter, op, vis, start, hist>>
Rec == hist' = IF GenDepth > 0 THEN Append(hist, op') ELSE hist
G == GenDepth > 0 => Len(hist) < GenDepth
PtrsOf(c) == IF c = 0 THEN {0} ELSE Ptrs

MCInit ==
    /\ hash \in [Classes \ {0} -> Codes]
    /\ \E sz \in InitSizes, d \in DestructorModes :
          /\ alive = TRUE /\ hasK = d /\ hasV = d
          /\ size = sz /\ slots = EmptySlots(sz) /\ count = 0
          /\ op = [name |-> "Init", isz |-> sz, k |-> d, v |-> d]
    /\ iter = NoIt /\ vis = <<>> /\ start = {} /\ hist = <<>>

MCReInit == G /\ (\E sz \in InitSizes, d \in DestructorModes : RInit(sz, d, d)) /\ Rec
MCPut == G /\ (\E c \in Classes : \E p \in PtrsOf(c), v \in Vals : RPut(c, p, v)) /\ Rec
MCCreate == G /\ (\E c \in Classes : \E p \in PtrsOf(c), sv \in {-1} \cup Vals : RCreate(c, p, sv)) /\ Rec
MCFind == G /\ (\E c \in Classes : RFind(c)) /\ Rec
MCRemove == G /\ (\E c \in Classes, w \in BOOLEAN : RRemove(c, w)) /\ Rec
MCRemoveElement == G /\ (\E c \in Classes : RRemoveElement(c)) /\ Rec
MCClear == G /\ RClear /\ Rec
MCCleanUp == G /\ alive /\ RCleanUp /\ Rec
MCIterBegin == G /\ RIterBegin /\ Rec
MCIterNext == G /\ RIterNext /\ Rec
MCIterDelete == G /\ (\E d \in BOOLEAN : RIterDelete(d)) /\ Rec
MCForEach == G /\ (\E fl \in FlagScripts : RForEach(fl)) /\ Rec

MCNext == MCReInit \/ MCPut \/ MCCreate \/ MCFind \/ MCRemove \/ MCRemoveElement \/ MCClear \/ MCCleanUp
          \/ MCIterBegin \/ MCIterNext \/ MCIterDelete \/ MCForEach
MCSpec == MCInit /\ [][MCNext]_mcvars

(* everything but the ghosts *)
RealState == <<hash, alive, hasK, hasV, size, slots, count, iter, vis, start>>
Bound == TLCGet("level") <= MaxSteps + 1

(* RobinHood => HashMap: every step is a step of the abstract map with the same reported results *)
Refines == [][HMStep(op')]_mcvars

FS0 == {<<>>}
FSSmall == {<<>>, <<3>>, <<1, 3>>, <<3, 3>>, <<3, 0>>, <<1, 4>>, <<3, 3, 3>>, <<1, 3, 1, 3>>, <<2>>}
FSGen == {<<>>, <<3>>, <<1, 3>>, <<3, 3>>, <<3, 1, 3>>, <<1, 1, 3>>, <<3, 3, 3, 3>>, <<1, 3, 1, 3>>, <<3, 3, 0>>, <<3, 7>>,
          <<1, 1, 4>>, <<2>>, <<3, 2>>, <<1, 3, 3, 3, 3, 3>>, <<3, 3, 3, 3, 3, 3, 3, 3>>, <<0>>}
BothModes == {TRUE, FALSE}
OnlyDestructors == {TRUE}

Emit == (GenDepth > 0 /\ Len(hist) = GenDepth) =>
            PrintT(<<"SCRIPT", ToJson([hash |-> hash, ops |-> hist])>>)
=============================================================================
