------------------------------ MODULE HTCommon ------------------------------
(* Vocabulary shared by the abstract map (HashMap) and the implementation-shaped model           *)
(* (RobinHood): bags, key-object ids, foreach flag words.                                        *)
EXTENDS Naturals, Integers, FiniteSets, Sequences

(* bags as functions element -> positive count, domain = elements present *)
EmptyBag == [x \in {} |-> 0]
SetBag(S) == [x \in S |-> 1]
SeqBag(s) == [x \in {s[i] : i \in DOMAIN s} |-> Cardinality({i \in DOMAIN s : s[i] = x})]
BagAdd(a, b) == [x \in DOMAIN a \cup DOMAIN b |->
                    (IF x \in DOMAIN a THEN a[x] ELSE 0) + (IF x \in DOMAIN b THEN b[x] ELSE 0)]
Copies(b, x) == IF x \in DOMAIN b THEN b[x] ELSE 0

(* key object id = 4 * class + pointer; class 0 = the NULL key (only object 0); classes >= 1 have *)
(* the storable objects 1..3 (pointer 0 of a class is the adapter's look-up-only probe object)   *)
KObj(c, p) == 4 * c + p
ClassOf(k) == k \div 4
PtrOf(k) == k % 4
ValidPtr(c, p) == IF c = 0 THEN p = 0 ELSE p \in 1..3

Nil == [p |-> -1, v |-> -1]

(* foreach callback flag word: CONTINUE = 1, DELETE = 2, ERROR = 4 *)
FCont(f) == f % 2 = 1
FDel(f) == (f \div 2) % 2 = 1
FErr(f) == (f \div 4) % 2 = 1
=============================================================================
