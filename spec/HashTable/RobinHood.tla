------------------------------ MODULE RobinHood ------------------------------
(* Implementation-shaped model of source/hash_table.c, transcribed function by function:         *)
(* a slot array of power-of-two size (hash_code 0 = empty), probing with early exit on a         *)
(* shorter displacement (s_find_entry / s_find_entry1), Robin Hood emplacement with victim       *)
(* swapping (s_emplace_item), doubling rehash at max load (s_expand_table), backward-shift       *)
(* deletion (s_remove_entry) and the iterator's slot / limit arithmetic (aws_hash_iter_xxx).     *)
(* The hash function is a parameter: `hash` maps every key class to a code, chosen freely in     *)
(* the initial state, so TLC quantifies over hash functions (collisions, clustering at the end   *)
(* of the array, codes beyond the mask, 0).                                                      *)
(*                                                                                               *)
(* This model is not a verdict about the code (DESIGN 3.2); TLC checks that it refines the       *)
(* abstract HashMap (property Refines in RobinHoodMC) and the slot invariants below, and its      *)
(* behaviours (with their hash assignments) are replayed on the real table.                      *)
EXTENDS HTCommon, TLC

CONSTANTS Classes

VARIABLES hash,     \* [Classes \ {0} -> Nat]: what the user's hash_fn returns for a key of the class
          alive, hasK, hasV,
          size, slots, count,
          iter,     \* [on, slot, limit, st, elem]; slot = -1 models the step back from slot 0 to SIZE_MAX
          op,       \* ghost: the last call with its arguments and reported results
          vis, start, dup \* ghost: classes shown by the user iterator since begin / present at begin / one shown twice

rhvars == <<hash, alive, hasK, hasV, size, slots, count, iter, op, vis, start, dup>>

Empty == [h |-> 0, c |-> -1, p |-> -1, v |-> -1]           \* AWS_ZERO_STRUCT / calloc
EmptySlots(sz) == [i \in 0..(sz - 1) |-> Empty]
NoIt == [on |-> FALSE, slot |-> 0, limit |-> 0, st |-> "none", elem |-> Empty]

(* s_update_template_size: max_load = (size_t)(0.95 * size), but always one slot left empty *)
MaxLoad(sz) == IF (95 * sz) \div 100 >= sz THEN sz - 1 ELSE (95 * sz) \div 100

(* s_hash_for: NULL key -> 42, a zero hash is remapped to 1 *)
HashFor(c) == IF c = 0 THEN 42 ELSE IF hash[c] = 0 THEN 1 ELSE hash[c]

Disp(sz, idx, h) == (idx - (h % sz) + sz) % sz                \* (index - hash_code) & mask

(* s_find_entry + s_find_entry1 *)
RECURSIVE Probe(_, _, _)
Probe(h, c, pi) ==
    LET idx == (h + pi) % size
        e == slots[idx] IN
    IF e.h = 0 THEN [found |-> FALSE, idx |-> idx, pi |-> pi]
    ELSE IF e.h = h /\ e.c = c THEN [found |-> TRUE, idx |-> idx, pi |-> pi]
    ELSE IF pi > 0 /\ Disp(size, idx, e.h) < pi THEN [found |-> FALSE, idx |-> idx, pi |-> pi]
    ELSE Probe(h, c, pi + 1)
FindEntry(c) == Probe(HashFor(c), c, 0)

(* s_emplace_item: returns the new slots and the index where the entry itself landed *)
RECURSIVE Emplace(_, _, _, _, _)
Emplace(sl, sz, e, pi, rv) ==
    IF e.h = 0 THEN [slots |-> sl, rv |-> rv]
    ELSE LET idx == (e.h + pi) % sz
             vic == sl[idx]
             vpi == Disp(sz, idx, vic.h) IN
         IF vic.h = 0 \/ vpi < pi
         THEN Emplace([sl EXCEPT ![idx] = e], sz, vic, vpi + 1, IF rv = -1 THEN idx ELSE rv)
         ELSE Emplace(sl, sz, e, pi + 1, rv)

(* s_expand_table: every entry of the old array, in slot order, emplaced into the doubled array *)
RECURSIVE Rehash(_, _, _)
Rehash(i, nsl, nsz) ==
    IF i = size THEN nsl
    ELSE Rehash(i + 1, IF slots[i].h # 0 THEN Emplace(nsl, nsz, slots[i], 0, -1).slots ELSE nsl, nsz)

(* the tail of aws_hash_table_create when the key was not found with probe index pi *)
CreateNew(c, p, pi) ==
    LET grow == count + 1 > MaxLoad(size)
        sz == IF grow THEN 2 * size ELSE size
        base == IF grow THEN Rehash(0, EmptySlots(sz), sz) ELSE slots
        em == Emplace(base, sz, [h |-> HashFor(c), c |-> c, p |-> p, v |-> 0], IF grow THEN 0 ELSE pi, -1) IN
    [size |-> sz, slots |-> em.slots, idx |-> em.rv]

(* s_remove_entry: backward shift; returns the new slots and the last index touched *)
RECURSIVE Shift(_, _, _)
Shift(sl, sz, idx) ==
    LET nx == (idx + 1) % sz IN
    IF sl[nx].h = 0 \/ (sl[nx].h % sz) = nx THEN [slots |-> [sl EXCEPT ![idx] = Empty], last |-> idx]
    ELSE Shift([sl EXCEPT ![idx] = sl[nx]], sz, nx)

(* s_get_next_element: first occupied slot in [from, limit), else limit (= done) *)
NextSlot(sl, from, limit) ==
    LET occ == {i \in from..(limit - 1) : sl[i].h # 0} IN
    IF occ = {} THEN limit ELSE CHOOSE i \in occ : \A j \in occ : i <= j

Occupied == {i \in 0..(size - 1) : slots[i].h # 0}
KeysIn(S) == SetBag({KObj(slots[i].c, slots[i].p) : i \in S})
ValsIn(S) == [x \in {slots[i].v : i \in S} |-> Cardinality({i \in S : slots[i].v = x})]
DK(b) == IF hasK THEN b ELSE EmptyBag
DV(b) == IF hasV THEN b ELSE EmptyBag
Dead == /\ alive' = FALSE /\ hasK' = FALSE /\ hasV' = FALSE
        /\ size' = 2 /\ slots' = EmptySlots(2) /\ count' = 0
EndIter == iter' = NoIt /\ vis' = {} /\ start' = {} /\ dup' = FALSE

-----------------------------------------------------------------------------
RInit(sz, k, v) ==
    /\ ~alive /\ alive' = TRUE /\ hasK' = k /\ hasV' = v
    /\ size' = sz /\ slots' = EmptySlots(sz) /\ count' = 0
    /\ op' = [name |-> "Init", isz |-> sz, k |-> k, v |-> v]
    /\ EndIter /\ UNCHANGED hash

RPut(c, p, v) ==
    /\ alive
    /\ LET f == FindEntry(c) IN
       IF f.found
       THEN LET old == slots[f.idx] IN
            /\ slots' = [slots EXCEPT ![f.idx] = [h |-> old.h, c |-> c, p |-> p, v |-> v]]
            /\ UNCHANGED <<size, count>>
            /\ op' = [name |-> "Put", c |-> c, p |-> p, v |-> v, created |-> FALSE,
                      dks |-> DK(IF old.p # p THEN SetBag({KObj(c, old.p)}) ELSE EmptyBag),
                      dvs |-> DV(SetBag({old.v})), grew |-> FALSE]
       ELSE LET cr == CreateNew(c, p, f.pi) IN
            /\ slots' = [cr.slots EXCEPT ![cr.idx] = [h |-> @.h, c |-> c, p |-> p, v |-> v]]
            /\ size' = cr.size /\ count' = count + 1
            /\ op' = [name |-> "Put", c |-> c, p |-> p, v |-> v, created |-> TRUE, dks |-> EmptyBag, dvs |-> EmptyBag,
                      grew |-> cr.size > size]
    /\ EndIter /\ UNCHANGED <<hash, alive, hasK, hasV>>

RCreate(c, p, setv) ==
    /\ alive
    /\ LET f == FindEntry(c)
           cr == CreateNew(c, p, f.pi)
           sz == IF f.found THEN size ELSE cr.size
           sl == IF f.found THEN slots ELSE cr.slots
           idx == IF f.found THEN f.idx ELSE cr.idx IN
       /\ size' = sz /\ count' = IF f.found THEN count ELSE count + 1
       /\ slots' = IF setv >= 0 THEN [sl EXCEPT ![idx].v = setv] ELSE sl
       /\ op' = [name |-> "Create", c |-> c, p |-> p, created |-> ~f.found,
                 ek |-> KObj(sl[idx].c, sl[idx].p), ev |-> sl[idx].v, setv |-> setv]
    /\ EndIter /\ UNCHANGED <<hash, alive, hasK, hasV>>

RFind(c) ==
    /\ alive
    /\ LET f == FindEntry(c) IN
       op' = [name |-> "Find", c |-> c, ek |-> IF f.found THEN KObj(slots[f.idx].c, slots[f.idx].p) ELSE -1,
              ev |-> IF f.found THEN slots[f.idx].v ELSE -1]
    /\ UNCHANGED <<hash, alive, hasK, hasV, size, slots, count, iter, vis, start, dup>>

RRemove(c, withOut) ==
    /\ alive
    /\ LET f == FindEntry(c)
           e == slots[f.idx] IN
       IF ~f.found
       THEN /\ UNCHANGED <<slots, count>>
            /\ op' = [name |-> "Remove", c |-> c, out |-> withOut, present |-> FALSE, ok |-> -1, ov |-> -1,
                      dks |-> EmptyBag, dvs |-> EmptyBag, wrapped |-> FALSE]
       ELSE /\ slots' = Shift(slots, size, f.idx).slots /\ count' = count - 1
            /\ op' = [name |-> "Remove", c |-> c, out |-> withOut, present |-> TRUE,
                      ok |-> IF withOut THEN KObj(e.c, e.p) ELSE -1, ov |-> IF withOut THEN e.v ELSE -1,
                      dks |-> IF withOut THEN EmptyBag ELSE DK(SetBag({KObj(e.c, e.p)})),
                      dvs |-> IF withOut THEN EmptyBag ELSE DV(SetBag({e.v})),
                      wrapped |-> Shift(slots, size, f.idx).last < f.idx]
    /\ EndIter /\ UNCHANGED <<hash, alive, hasK, hasV, size>>

(* find followed, if something was found, by remove_element on the element *)
RRemoveElement(c) ==
    /\ alive
    /\ LET f == FindEntry(c) IN
       /\ IF f.found THEN slots' = Shift(slots, size, f.idx).slots /\ count' = count - 1
          ELSE UNCHANGED <<slots, count>>
       /\ op' = [name |-> "RemoveElement", c |-> c, found |-> f.found]
    /\ EndIter /\ UNCHANGED <<hash, alive, hasK, hasV, size>>

RClear ==
    /\ alive
    /\ slots' = EmptySlots(size) /\ count' = 0
    /\ op' = [name |-> "Clear", dks |-> DK(KeysIn(Occupied)), dvs |-> DV(ValsIn(Occupied))]
    /\ EndIter /\ UNCHANGED <<hash, alive, hasK, hasV, size>>

RCleanUp ==
    /\ op' = [name |-> "CleanUp", dks |-> IF alive THEN DK(KeysIn(Occupied)) ELSE EmptyBag,
              dvs |-> IF alive THEN DV(ValsIn(Occupied)) ELSE EmptyBag]
    /\ Dead /\ EndIter /\ UNCHANGED hash

IterAt(sl, s, limit) ==
    [on |-> TRUE, slot |-> s, limit |-> limit, st |-> IF s = limit THEN "done" ELSE "ready",
     elem |-> IF s = limit THEN Empty ELSE sl[s]]
Shown(i) == IF i.st = "ready" THEN [done |-> FALSE, ek |-> KObj(i.elem.c, i.elem.p), ev |-> i.elem.v]
            ELSE [done |-> TRUE, ek |-> -1, ev |-> -1]

RIterBegin ==
    /\ alive
    /\ LET i == IterAt(slots, NextSlot(slots, 0, size), size) IN
       /\ iter' = i
       /\ op' = [name |-> "IterBegin"] @@ Shown(i)
       /\ vis' = IF i.st = "ready" THEN {i.elem.c} ELSE {}
       /\ start' = {slots[j].c : j \in Occupied} /\ dup' = FALSE
    /\ UNCHANGED <<hash, alive, hasK, hasV, size, slots, count>>

RIterNext ==
    /\ iter.on
    /\ LET i == IterAt(slots, NextSlot(slots, iter.slot + 1, iter.limit), iter.limit) IN
       /\ iter' = i
       /\ op' = [name |-> "IterNext"] @@ Shown(i)
       /\ vis' = IF i.st = "ready" THEN vis \cup {i.elem.c} ELSE vis
       /\ dup' = (dup \/ (i.st = "ready" /\ i.elem.c \in vis))
    /\ UNCHANGED <<hash, alive, hasK, hasV, size, slots, count, start>>

RIterDelete(destroy) ==
    /\ iter.on /\ iter.st = "ready"
    /\ LET sh == Shift(slots, size, iter.slot) IN
       /\ slots' = sh.slots /\ count' = count - 1
       /\ iter' = [iter EXCEPT !.limit = IF sh.last < iter.slot \/ sh.last >= iter.limit THEN @ - 1 ELSE @,
                               !.slot = @ - 1, !.st = "deleted"]
       /\ op' = [name |-> "IterDelete", destroy |-> destroy,
                 dks |-> IF destroy THEN DK(SetBag({KObj(iter.elem.c, iter.elem.p)})) ELSE EmptyBag,
                 dvs |-> IF destroy THEN DV(SetBag({iter.elem.v})) ELSE EmptyBag,
                 shrunk |-> sh.last < iter.slot \/ sh.last >= iter.limit, stepback |-> iter.slot = 0]
    /\ UNCHANGED <<hash, alive, hasK, hasV, size, vis, start, dup>>

(* aws_hash_table_foreach with a callback that answers flags[i] at its i-th invocation (CONTINUE *)
(* when the script is exhausted)                                                                 *)
RECURSIVE FELoop(_, _, _, _, _)
FELoop(sl, slot, limit, seen, flags) ==
    IF slot = limit THEN [slots |-> sl, vis |-> seen, ok |-> TRUE]
    ELSE LET e == sl[slot]
             n == Len(seen) + 1
             f == IF n <= Len(flags) THEN flags[n] ELSE 1
             seen2 == Append(seen, [k |-> KObj(e.c, e.p), v |-> e.v, f |-> f]) IN
         IF FErr(f) THEN [slots |-> sl, vis |-> seen2, ok |-> FALSE]
         ELSE LET sh == Shift(sl, size, slot)
                  sl2 == IF FDel(f) THEN sh.slots ELSE sl
                  lim2 == IF FDel(f) /\ (sh.last < slot \/ sh.last >= limit) THEN limit - 1 ELSE limit
                  slot2 == IF FDel(f) THEN slot - 1 ELSE slot IN
              IF ~FCont(f) THEN [slots |-> sl2, vis |-> seen2, ok |-> TRUE]
              ELSE FELoop(sl2, NextSlot(sl2, slot2 + 1, lim2), lim2, seen2, flags)

RForEach(flags) ==
    /\ alive
    /\ LET r == FELoop(slots, NextSlot(slots, 0, size), size, <<>>, flags) IN
       /\ slots' = r.slots
       /\ count' = count - Cardinality({i \in DOMAIN r.vis : FDel(r.vis[i].f) /\ ~FErr(r.vis[i].f)})
       /\ op' = [name |-> "ForEach", flags |-> flags, vis |-> r.vis, ok |-> r.ok]
    /\ EndIter /\ UNCHANGED <<hash, alive, hasK, hasV, size>>

-----------------------------------------------------------------------------
(* slot-level invariants *)
CountInv == alive => (count = Cardinality(Occupied) /\ count <= MaxLoad(size) /\ MaxLoad(size) < size)
HashInv == alive => \A i \in Occupied : slots[i].h = HashFor(slots[i].c) /\ slots[i].h # 0
NoDupClass == alive => \A i, j \in Occupied : slots[i].c = slots[j].c => i = j
(* every stored key is found, at its own slot, by the probe sequence of its hash code *)
Reachable == alive => \A i \in Occupied : LET f == FindEntry(slots[i].c) IN f.found /\ f.idx = i
(* and a class that is not stored is reported absent (the probe terminates and finds nothing) *)
AbsentNotFound == alive => \A c \in Classes : (\A i \in Occupied : slots[i].c # c) => ~FindEntry(c).found
(* Robin Hood ordering: along a run of occupied slots the displacement grows by at most one per step *)
DispOrder == alive => \A i \in Occupied : LET nx == (i + 1) % size IN
                 nx \in Occupied => Disp(size, nx, slots[nx].h) <= Disp(size, i, slots[i].h) + 1
SizeInv == size \in {2, 4, 8, 16, 32, 64} /\ DOMAIN slots = 0..(size - 1)

(* iterator: what the user holds is what the slot holds; a finished iteration has shown every    *)
(* entry that was present at begin exactly once, deletions through the iterator included         *)
IterElemInv == (iter.on /\ iter.st = "ready") => (iter.slot >= 0 /\ iter.slot < iter.limit /\ slots[iter.slot] = iter.elem)
IterWindowInv == iter.on => (iter.limit <= size /\ iter.slot >= -1 /\ iter.slot <= iter.limit)
IterNoRepeat == ~dup
IterComplete == (iter.on /\ iter.st = "done") => vis = start

-----------------------------------------------------------------------------
(* Refinement mapping onto HashMap (this table is table 1; table 2 never exists).  The part of   *)
(* the iteration still to come is exactly the occupied slots strictly between slot and limit.    *)
AbsEntry(c) == IF \E i \in Occupied : slots[i].c = c
               THEN LET i == CHOOSE j \in Occupied : slots[j].c = c IN [p |-> slots[i].p, v |-> slots[i].v]
               ELSE Nil
AbsM == [t \in {1, 2} |-> [c \in Classes |-> IF t = 1 /\ alive THEN AbsEntry(c) ELSE Nil]]
AbsLive == [t \in {1, 2} |-> t = 1 /\ alive]
AbsCfg == [t \in {1, 2} |-> IF t = 1 /\ alive THEN [dk |-> hasK, dv |-> hasV] ELSE [dk |-> FALSE, dv |-> FALSE]]
AbsIt == IF ~iter.on THEN [on |-> FALSE, t |-> 0, todo |-> {}, cur |-> -1, st |-> "none"]
         ELSE [on |-> TRUE, t |-> 1,
               todo |-> {slots[i].c : i \in {j \in (iter.slot + 1)..(iter.limit - 1) : slots[j].h # 0}},
               cur |-> IF iter.st = "ready" THEN iter.elem.c ELSE -1,
               st |-> iter.st]

HM == INSTANCE HashMap WITH Tabs <- {1, 2}, live <- AbsLive, cfg <- AbsCfg, m <- AbsM, it <- AbsIt,
                            kd <- EmptyBag, vd <- EmptyBag

(* the abstract action that must explain a step which reported o *)
HMStep(o) ==
    CASE o.name = "Init" -> HM!InitC(1, o.k, o.v)
      [] o.name = "Put" -> HM!PutC(1, o.c, o.p, o.v, o.created, o.dks, o.dvs)
      [] o.name = "Create" -> HM!CreateC(1, o.c, o.p, o.created, o.ek, o.ev, o.setv)
      [] o.name = "Find" -> HM!FindC(1, o.c, o.ek, o.ev)
      [] o.name = "Remove" -> HM!RemoveC(1, o.c, o.out, o.present, o.ok, o.ov, o.dks, o.dvs)
      [] o.name = "RemoveElement" -> IF o.found THEN HM!RemoveElementC(1, o.c)
                                     ELSE AbsM[1][o.c] = Nil /\ AbsM' = AbsM /\ AbsLive' = AbsLive /\ AbsCfg' = AbsCfg
      [] o.name = "Clear" -> HM!ClearC(1, o.dks, o.dvs)
      [] o.name = "CleanUp" -> HM!CleanUpC(1, o.dks, o.dvs)
      [] o.name = "IterBegin" -> HM!IterBeginC(1, o.done, o.ek, o.ev)
      [] o.name = "IterNext" -> HM!IterNextC(o.done, o.ek, o.ev)
      [] o.name = "IterDelete" -> HM!IterDeleteC(o.destroy, o.dks, o.dvs)
      [] o.name = "ForEach" -> HM!ForEachC(1, o.vis, o.ok, EmptyBag, EmptyBag)
=============================================================================
