------------------------------- MODULE CacheMC -------------------------------
(* Bounded exploration of Cache (three policies, capacities 1..MaxMax, with and without           *)
(* destructors, all operation sequences) with the property's clauses as checks, and behaviour     *)
(* generation for replay.                                                                         *)
EXTENDS Cache, TLC, Json

CONSTANTS MaxVal, MaxMax, GenDepth
VARIABLES nextVal, hist,
          used                   \* ghost: classes in the order they were last used (inserted, and for lru looked up)
mcvars == <<policy, max, order, kd, nvd, vdead, dk, dv, nextVal, hist, used>>

Op(name, c, p, v) == [op |-> name, c |-> c, p |-> p, v |-> v]
Rec(o) == hist' = IF GenDepth > 0 THEN Append(hist, o) ELSE hist
G == GenDepth > 0 => Len(hist) < GenDepth
B(x) == IF x THEN 1 ELSE 0
PolNo(pol) == IF pol = "fifo" THEN 1 ELSE IF pol = "lifo" THEN 2 ELSE 3

\* first history entry = configuration: c = policy number, p = max, v = 2*dk + dv
MCInit == /\ \E pol \in {"fifo", "lifo", "lru"}, m \in 1..MaxMax, k \in BOOLEAN, v \in BOOLEAN :
                /\ CInit(pol, m, k, v)
                /\ hist = IF GenDepth > 0 THEN <<Op("RESET", PolNo(pol), m, 2 * B(k) + B(v))>> ELSE <<>>
          /\ nextVal = 1 /\ used = <<>>

SeqOf(S) == CHOOSE s \in [1..Cardinality(S) -> S] : Range(s) = S
DK(K) == SeqOf(IF dk THEN K ELSE {})
DV(V) == SeqOf(IF dv THEN V ELSE {})
All == Range(order)
Touch(u, c) == Append(SelectSeq(u, LAMBDA x : x # c), c)
Drop(u, C) == SelectSeq(u, LAMBDA x : x \notin C)
ClassesOf(s) == {s[i].c : i \in 1..Len(s)}

MCPut == /\ G /\ nextVal <= MaxVal
         /\ \E c \in Classes, p \in Ptrs :
               LET i == IdxOf(c)
                   K1 == IF i # 0 /\ order[i].p # p THEN {KeyOf(order[i])} ELSE {}
                   V1 == IF i # 0 THEN {order[i].v} ELSE {}
                   mid == Append(IF i # 0 THEN WithoutIdx(order, i) ELSE order, [c |-> c, p |-> p, v |-> nextVal])
                   over == Len(mid) > max
                   vic == mid[VictimIdx(mid)]
               IN /\ Put(c, p, nextVal, TRUE, DK(IF over THEN K1 \cup {KeyOf(vic)} ELSE K1),
                         DV(IF over THEN V1 \cup {vic.v} ELSE V1))
                  /\ Rec(Op("PUT", c, p, nextVal))
                  /\ used' = Drop(Touch(used, c), (ClassesOf(order) \ ClassesOf(order')) \ {c})
         /\ nextVal' = nextVal + 1
\* no value destructor: the same value object again (also under the key object already stored), or NULL
MCPutAgain == /\ G /\ ~dv /\ nextVal <= MaxVal /\ nextVal' = nextVal + 1     \* (counts against the same budget of puts)
              /\ \E c \in Classes, p \in Ptrs, v \in {0} \cup {e.v : e \in All} :
                    LET i == IdxOf(c)
                        K1 == IF i # 0 /\ order[i].p # p THEN {KeyOf(order[i])} ELSE {}
                        mid == Append(IF i # 0 THEN WithoutIdx(order, i) ELSE order, [c |-> c, p |-> p, v |-> v])
                        over == Len(mid) > max
                        vic == mid[VictimIdx(mid)]
                    IN /\ Put(c, p, v, TRUE, DK(IF over THEN K1 \cup {KeyOf(vic)} ELSE K1), <<>>)
                       /\ Rec(Op("PUT", c, p, v))
                       /\ used' = Drop(Touch(used, c), (ClassesOf(order) \ ClassesOf(order')) \ {c})
MCFind == G /\ UNCHANGED nextVal /\ \E c \in Classes, p \in Ptrs, v \in 0..MaxVal :
              /\ Find(c, TRUE, v, <<>>, <<>>) /\ Rec(Op("FIND", c, p, 0))
              /\ used' = IF policy = "lru" /\ Has(c) THEN Touch(used, c) ELSE used
MCRemove == G /\ UNCHANGED nextVal /\ \E c \in Classes, p \in Ptrs :
              LET i == IdxOf(c) IN
              /\ Remove(c, TRUE, DK(IF i # 0 THEN {KeyOf(order[i])} ELSE {}), DV(IF i # 0 THEN {order[i].v} ELSE {}))
              /\ Rec(Op("REMOVE", c, p, 0)) /\ used' = Drop(used, {c})
MCClear == G /\ UNCHANGED nextVal /\ Clear(DK({KeyOf(e) : e \in All}), DV({e.v : e \in All}))
             /\ Rec(Op("CLEAR", 0, 0, 0)) /\ used' = <<>>
MCUseLru == G /\ UNCHANGED nextVal /\ \E v \in 0..MaxVal : UseLru(v, <<>>, <<>>) /\ Rec(Op("USELRU", 0, 0, 0))
              /\ used' = IF order = <<>> THEN used ELSE Touch(used, order[1].c)
MCGetMru == G /\ UNCHANGED <<nextVal, used>> /\ \E v \in 0..MaxVal : GetMru(v, <<>>, <<>>) /\ Rec(Op("GETMRU", 0, 0, 0))

MCNext == MCPut \/ MCPutAgain \/ MCFind \/ MCRemove \/ MCClear \/ MCUseLru \/ MCGetMru
MCSpec == MCInit /\ [][MCNext]_mcvars

-----------------------------------------------------------------------------
(* The property's clauses, stated independently of the order-based definition of the actions.     *)
(* used = the classes present, ordered by last use as the *policy* counts use: every put; for lru *)
(* also every successful lookup and use_lru_element.                                              *)
RetainsInserted == [][MCPut => (\E i \in 1..Len(order') : order'[i].v = nextVal)]_mcvars
EvictsOnlyOnOverflow ==                       \* a put drops a class other than its own only if the cache was full
    [][(MCPut \/ MCPutAgain) => (ClassesOf(order) \ ClassesOf(order') # {} => Len(order) = max)]_mcvars
EvictsAtMostOne == [][(MCPut \/ MCPutAgain) => Cardinality(ClassesOf(order) \ ClassesOf(order')) <= 1]_mcvars
(* the victim named by the policy, in terms of the use history before the put:                    *)
(* fifo: first inserted; lru: least recently used; lifo: the latest inserted before the new one   *)
PolicyVictim ==
    [][(MCPut \/ MCPutAgain) => \A x \in ClassesOf(order) \ ClassesOf(order') :
            x = IF policy = "lifo" THEN used[Len(used)] ELSE used[1]]_mcvars
UsedMatches == ClassesOf(order) = Range(used) /\ Len(used) = Len(order)
UsedIsOrder == \A i \in 1..Len(order) : order[i].c = used[i]
DisplacedDestroyed == dv => vdead = (1..(nextVal - 1)) \ {e.v : e \in All}

Emit == (GenDepth > 0 /\ Len(hist) = GenDepth) => PrintT(<<"SCRIPT", ToJson([ops |-> hist])>>)
=============================================================================
