-------------------------------- MODULE Cache --------------------------------
(* The FIFO, LIFO and LRU caches of aws-c-common as property C18 states them: an ordered map with *)
(* a maximum number of entries.  A cache never holds more than max entries, always retains the    *)
(* entry just inserted, and on overflow evicts exactly the entry its policy names:                *)
(*   fifo: the oldest inserted            (front of the order; re-putting a key counts as insertion) *)
(*   lifo: the most recently inserted before the new one (second from the back)                   *)
(*   lru : the least recently used        (front; lookups and inserts both move an entry to the back) *)
(* Keys are objects <<class, ptr>> (equal by class), values fresh objects; key and value          *)
(* destructors run exactly once per displaced entry (replaced, removed, evicted, cleared).        *)
(* order: front = next FIFO/LRU victim, back = newest / most recently used.                       *)
EXTENDS Naturals, Sequences, FiniteSets

CONSTANTS NC, NP

VARIABLES policy,                \* "fifo" | "lifo" | "lru"
          max,                   \* >= 1
          order, kd, nvd, vdead, dk, dv      \* as in LinkedHash
cvars == <<policy, max, order, kd, nvd, vdead, dk, dv>>

Classes == 1..NC
Ptrs == 1..NP
KIdx(c, p) == (c - 1) * NP + p
Range(s) == {s[i] : i \in 1..Len(s)}
IdxIn(s, c) == IF \E i \in 1..Len(s) : s[i].c = c THEN CHOOSE i \in 1..Len(s) : s[i].c = c ELSE 0
IdxOf(c) == IdxIn(order, c)
Has(c) == IdxOf(c) # 0
WithoutIdx(s, i) == SubSeq(s, 1, i - 1) \o SubSeq(s, i + 1, Len(s))
KeyOf(e) == <<e.c, e.p>>
ExactlyOnce(seq, S) == Len(seq) = Cardinality(S) /\ Range(seq) = S

(* NULL (0) is a value like any other for the container: an entry whose value is NULL is displaced like the rest, and the  *)
(* value destructor is called for it too, with NULL.  V = the displaced non-NULL value objects (each destroyed exactly     *)
(* once, ever); the number of displaced NULL values follows from the entries before and after (az = 1 when the step itself   *)
(* stores a NULL value).                                                                                                  *)
ZeroCount(s) == Cardinality({i \in 1..Len(s) : s[i].v = 0})
Destroys5(dks, dvs, K, V0, az) ==
    LET V == V0 \ {0}
        zc == ZeroCount(order) + az - ZeroCount(order')
    IN
    /\ ExactlyOnce(dks, IF dk THEN K ELSE {})
    /\ IF dv THEN ExactlyOnce(SelectSeq(dvs, LAMBDA x : x # 0), V) /\ Len(dvs) = Cardinality(V) + zc ELSE dvs = <<>>
    /\ (dv => V \cap vdead = {})
    /\ kd' = [i \in DOMAIN kd |-> kd[i] + (IF dk /\ \E k \in K : KIdx(k[1], k[2]) = i THEN 1 ELSE 0)]
    /\ nvd' = nvd + (IF dv THEN Cardinality(V) + zc ELSE 0)
    /\ vdead' = IF dv THEN vdead \cup V ELSE vdead
Destroys(dks, dvs, K, V0) == Destroys5(dks, dvs, K, V0, 0)

CInit(pol, m, k, v) == /\ policy = pol /\ max = m /\ order = <<>> /\ kd = [i \in 1..(NC * NP) |-> 0]
                       /\ nvd = 0 /\ vdead = {} /\ dk = k /\ dv = v

(* index of the entry the policy evicts from a sequence that has just overflowed (new entry at the back) *)
VictimIdx(s) == IF policy = "lifo" THEN Len(s) - 1 ELSE 1

Put(c, p, v, ok, dks, dvs) ==
    /\ ok
    /\ dv => (v = 0 \/ (v \notin vdead /\ \A i \in 1..Len(order) : order[i].v # v))   \* as in LinkedHash!Put
    /\ LET i == IdxOf(c)
           new == [c |-> c, p |-> p, v |-> v]
           K1 == IF i # 0 /\ order[i].p # p THEN {KeyOf(order[i])} ELSE {}       \* replaced entry
           V1 == IF i # 0 THEN {order[i].v} ELSE {}
           mid == Append(IF i # 0 THEN WithoutIdx(order, i) ELSE order, new)
       IN IF Len(mid) > max
          THEN LET vi == VictimIdx(mid) IN
               /\ order' = WithoutIdx(mid, vi)
               /\ Destroys5(dks, dvs, K1 \cup {KeyOf(mid[vi])}, V1 \cup {mid[vi].v}, IF v = 0 THEN 1 ELSE 0)
          ELSE /\ order' = mid
               /\ Destroys5(dks, dvs, K1, V1, IF v = 0 THEN 1 ELSE 0)
    /\ UNCHANGED <<policy, max, dk, dv>>

(* find: a lookup counts as use for lru only; v = 0 stands for "not found" *)
Find(c, ok, v, dks, dvs) ==
    /\ ok
    /\ v = IF Has(c) THEN order[IdxOf(c)].v ELSE 0
    /\ order' = IF Has(c) /\ policy = "lru" THEN Append(WithoutIdx(order, IdxOf(c)), order[IdxOf(c)]) ELSE order
    /\ Destroys(dks, dvs, {}, {})
    /\ UNCHANGED <<policy, max, dk, dv>>

Remove(c, ok, dks, dvs) ==
    /\ Has(c) => ok
    /\ IF Has(c)
       THEN /\ order' = WithoutIdx(order, IdxOf(c))
            /\ Destroys(dks, dvs, {KeyOf(order[IdxOf(c)])}, {order[IdxOf(c)].v})
       ELSE /\ order' = order /\ Destroys(dks, dvs, {}, {})
    /\ UNCHANGED <<policy, max, dk, dv>>

Clear(dks, dvs) ==
    /\ order' = <<>>
    /\ Destroys(dks, dvs, {KeyOf(e) : e \in Range(order)}, {e.v : e \in Range(order)})
    /\ UNCHANGED <<policy, max, dk, dv>>

(* lru only: "accesses the least-recently-used element, sets it to most-recently-used, returns the value" *)
UseLru(v, dks, dvs) ==
    /\ policy = "lru"
    /\ v = IF order = <<>> THEN 0 ELSE order[1].v
    /\ order' = IF order = <<>> THEN order ELSE Append(Tail(order), order[1])
    /\ Destroys(dks, dvs, {}, {})
    /\ UNCHANGED <<policy, max, dk, dv>>

(* lru only: "accesses the most-recently-used element and returns its value" (no reordering needed) *)
GetMru(v, dks, dvs) ==
    /\ policy = "lru"
    /\ v = IF order = <<>> THEN 0 ELSE order[Len(order)].v
    /\ order' = order
    /\ Destroys(dks, dvs, {}, {})
    /\ UNCHANGED <<policy, max, dk, dv>>

-----------------------------------------------------------------------------
NeverOverfull == Len(order) <= max
OneEntryPerClass == \A i, j \in 1..Len(order) : order[i].c = order[j].c => i = j
LiveNotDead == \A i \in 1..Len(order) : dv => order[i].v \notin vdead
Counted == nvd = Cardinality(vdead)
=============================================================================
