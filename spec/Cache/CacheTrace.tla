------------------------------ MODULE CacheTrace ------------------------------
(* Trace validation for the cache half of C18: every recorded aws_cache_* / aws_lru_cache_* call    *)
(* must be the Cache action of the same name with the logged arguments, result and destructor     *)
(* calls; after every call the cache's iteration list (keys and values in order, read through the *)
(* public struct, never through extra lookups), aws_cache_get_element_count and the cumulative    *)
(* destructor counters must equal the specification's.                                            *)
EXTENDS Cache, TraceCommon

VARIABLES l
Ev == TraceLog[l]
Ok == Ev.rc = 0

Observed(s) ==
    /\ Len(s.keys) = Len(order') /\ Len(s.vals) = Len(order')
    /\ \A i \in 1..Len(order') : s.keys[i] = <<order'[i].c, order'[i].p>> /\ s.vals[i] = order'[i].v
    /\ s.fok = 1
    /\ s.n = Len(order')
    /\ s.n <= max'                                        \* never more than the configured maximum
    /\ \A i \in DOMAIN kd' : s.kd[i] = kd'[i]
    /\ s.nvd = nvd'

TReset == /\ Ev.e = "Reset" /\ Ev.kind \in {"fifo", "lifo", "lru"} /\ Ev.max >= 1
          /\ policy' = Ev.kind /\ max' = Ev.max
          /\ order' = <<>> /\ kd' = [i \in 1..(NC * NP) |-> 0] /\ nvd' = 0 /\ vdead' = {}
          /\ dk' = (Ev.dk = 1) /\ dv' = (Ev.dv = 1)
          /\ Observed(Ev.s)
TPut == Ev.e = "Put" /\ Put(Ev.c, Ev.p, Ev.v, Ok, Ev.dks, Ev.dvs) /\ Observed(Ev.s)
TFind == Ev.e = "Find" /\ Find(Ev.c, Ok, Ev.v, Ev.dks, Ev.dvs) /\ Observed(Ev.s)
TRemove == Ev.e = "Remove" /\ Remove(Ev.c, Ok, Ev.dks, Ev.dvs) /\ Observed(Ev.s)
TClear == Ev.e = "Clear" /\ Clear(Ev.dks, Ev.dvs) /\ Observed(Ev.s)
TUseLru == Ev.e = "UseLru" /\ UseLru(Ev.v, Ev.dks, Ev.dvs) /\ Observed(Ev.s)
TGetMru == Ev.e = "GetMru" /\ GetMru(Ev.v, Ev.dks, Ev.dvs) /\ Observed(Ev.s)
(* aws_cache_destroy at the end of an execution displaces everything that is left *)
TFin == /\ Ev.e = "Fin" /\ Clear(Ev.dks, Ev.dvs)
        /\ \A i \in DOMAIN kd' : Ev.kd[i] = kd'[i]
        /\ Ev.nvd = nvd'
TEnd == Ev.e = "End" /\ UNCHANGED cvars

TNext == /\ l <= TraceLen /\ l' = l + 1
         /\ (TReset \/ TPut \/ TFind \/ TRemove \/ TClear \/ TUseLru \/ TGetMru \/ TFin \/ TEnd)
TInit == l = 1 /\ CInit("fifo", 1, FALSE, FALSE)
TSpec == TInit /\ [][TNext]_<<cvars, l>>
=============================================================================
