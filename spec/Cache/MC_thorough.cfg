SPECIFICATION MCSpec
CONSTANTS NC = 3
  NP = 2
  MaxVal = 5
  MaxMax = 3
  GenDepth = 0
INVARIANTS NeverOverfull OneEntryPerClass LiveNotDead Counted UsedMatches UsedIsOrder DisplacedDestroyed
PROPERTIES RetainsInserted EvictsOnlyOnOverflow EvictsAtMostOne PolicyVictim
