SPECIFICATION MCSpec
CONSTANTS NC = 3
  NP = 2
  MaxVal = 4
  MaxMax = 2
  GenDepth = 0
INVARIANTS NeverOverfull OneEntryPerClass LiveNotDead Counted UsedMatches UsedIsOrder DisplacedDestroyed
PROPERTIES RetainsInserted EvictsOnlyOnOverflow EvictsAtMostOne PolicyVictim
