SPECIFICATION MCSpec
CONSTANTS NC = 5
  NP = 2
  MaxVal = 60
  MaxMax = 4
  GenDepth = 40
INVARIANT Emit
