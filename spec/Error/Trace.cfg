SPECIFICATION TSpec
CONSTANTS
  Threads = {1, 2, 3}
  TestSlots = {1, 20, 21, 22, 31}
  Stride = 1024
  Slots = 32
  SysCallFailure = 46
  UnknownStr = "Unknown Error Code"
  CommonLib = "aws-c-common"
POSTCONDITION TraceAccepted
CHECK_DEADLOCK FALSE
