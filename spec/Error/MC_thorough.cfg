SPECIFICATION MCSpec
CONSTANTS
  Threads = {1, 2, 3}
  TestSlots = {20, 21}
  Stride = 1024
  Slots = 32
  SysCallFailure = 46
  UnknownStr = "Unknown Error Code"
  CommonLib = "aws-c-common"
  MCodes = {0, 5}
  MErrnos = {0, 13}
  MXCodes = {34, 46}
  MHandlers <- HandlersSmall
  MVariants = {1}
  MCounts = {1, 2}
  LookCodes = {0, 1, 61, 62, 1023, 20480, 20481, 20482, 21503, 21504, 32767, 32768}
  GenDepth = 0
VIEW View
INVARIANTS TypeOK XlConsistent RegInv
PROPERTIES RaiseProp NoForeignHandler SilentProp ThreadIsolation SlotIndependence
