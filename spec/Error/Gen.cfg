SPECIFICATION MCSpec
CONSTANTS
  Threads = {1, 2, 3}
  TestSlots = {1, 20, 21, 22, 31}
  Stride = 1024
  Slots = 32
  SysCallFailure = 46
  UnknownStr = "Unknown Error Code"
  CommonLib = "aws-c-common"
  MCodes = {0, 1, 5, 46, 1024, 20481, 31744}
  MErrnos = {0, 2, 13, 22, 28, 4096}
  MXCodes = {34, 43, 44, 46}
  MHandlers <- HandlersFull
  MVariants = {1, 2}
  MCounts = {1, 2, 3, 1024}
  LookCodes = {0, 1, 34, 61, 62, 1023, 1024, 1025, 2047, 2048, 20480, 20481, 20482, 20483, 21503, 21504, 22528, 22530, 23551, 23552, 31743, 31744, 31746, 32767, 32768}
  GenDepth = 30
INVARIANT Emit
