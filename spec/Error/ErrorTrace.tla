------------------------------ MODULE ErrorTrace ------------------------------
(* Trace validation for X02: every event recorded from the real library (one call on one of the helper        *)
(* threads) must be explained by the Error action of the same name with exactly the logged arguments and      *)
(* results - including the list of handler invocations that happened during the call - and aws_last_error()   *)
(* as every thread sees it afterwards must equal the specification's per-thread last error.                   *)
EXTENDS Error, TraceCommon

VARIABLES l
Ev == TraceLog[l]

Observed(s) == \A t \in Threads : s.le[t] = le'[t]
(* calls = the invocations logged (at most 16 are kept, ncalls counts all of them) *)
Calls == Ev.calls
AllLogged == Ev.ncalls = Len(Ev.calls)

TReset == /\ Ev.e = "Reset"
          /\ Ev.operr = OpErr /\ Ev.sysfail = SysCallFailure /\ Ev.stride = Stride /\ Ev.slots = Slots
          /\ le' = [t \in Threads |-> 0]
          /\ th' = [t \in Threads |-> NoH]
          /\ gh' = NoH
          /\ reg' = [s \in TestSlots |-> NoReg]
          /\ xl' = [e \in {} |-> 0]
          /\ Calls = <<>> /\ AllLogged
          /\ Observed(Ev.s)

TRaise == Ev.e = "Raise" /\ Raise(Ev.t, Ev.err, Ev.rc, Calls) /\ AllLogged /\ Observed(Ev.s)
TRestore == Ev.e = "Restore" /\ Restore(Ev.t, Ev.err, Calls) /\ AllLogged /\ Observed(Ev.s)
TResetErr == Ev.e = "ResetErr" /\ ResetErr(Ev.t, Calls) /\ AllLogged /\ Observed(Ev.s)
TLast == Ev.e = "Last" /\ Last(Ev.t, Ev.res) /\ Calls = <<>> /\ AllLogged /\ Observed(Ev.s)
TSetGlobal == Ev.e = "SetGlobal" /\ SetGlobal(Ev.t, Ev.h, Ev.c, Ev.prev, Calls) /\ AllLogged /\ Observed(Ev.s)
TSetLocal == Ev.e = "SetLocal" /\ SetLocal(Ev.t, Ev.h, Ev.c, Ev.prev, Calls) /\ AllLogged /\ Observed(Ev.s)
TSpawn == Ev.e = "Spawn" /\ Spawn(Ev.t) /\ Calls = <<>> /\ AllLogged /\ Observed(Ev.s)
TTranslate == Ev.e = "Xlat" /\ Translate(Ev.t, Ev.eno, Ev.res, Ev.rc, Calls) /\ AllLogged /\ Observed(Ev.s)
TTranslateOr == Ev.e = "XlatOr" /\ TranslateOr(Ev.t, Ev.eno, Ev.fb, Ev.res, Ev.rc, Calls) /\ AllLogged /\ Observed(Ev.s)
TRegister == Ev.e = "Reg" /\ Register(Ev.t, Ev.slot, Ev.v, Ev.n, Calls) /\ AllLogged /\ Observed(Ev.s)
TUnregister == Ev.e = "Unreg" /\ Unregister(Ev.t, Ev.slot, Ev.v, Ev.n, Calls) /\ AllLogged /\ Observed(Ev.s)
TLookup == /\ Ev.e = "Lookup"
           /\ Lookup(Ev.t, Ev.codes, Ev.names, Ev.strs, Ev.libs, Ev.dbgs, Calls)
           /\ AllLogged /\ Observed(Ev.s)

TEnd == Ev.e = "End" /\ Ev.live = 0 /\ UNCHANGED evars

TNext == /\ l <= TraceLen /\ l' = l + 1
         /\ \/ TReset \/ TRaise \/ TRestore \/ TResetErr \/ TLast \/ TSetGlobal \/ TSetLocal \/ TSpawn
            \/ TTranslate \/ TTranslateOr \/ TRegister \/ TUnregister \/ TLookup \/ TEnd
TInit == l = 1 /\ EInit
TSpec == TInit /\ [][TNext]_<<evars, l>>
=============================================================================
