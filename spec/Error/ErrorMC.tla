------------------------------- MODULE ErrorMC -------------------------------
(* Bounded exploration of Error (every interleaving of calls from the threads, small argument sets) with the  *)
(* documented properties checked on every transition, and behaviour generation (simulation with a history     *)
(* variable printed as a JSON script).                                                                        *)
EXTENDS Error, Json

CONSTANTS MCodes,       \* codes passed to raise / restore / used as fall-back
          MErrnos,      \* numbers passed to the translation functions
          MXCodes,      \* codes a translation may yield in the model
          MHandlers,    \* [h, c] pairs a setter may install (NoH = turn it off)
          MVariants, MCounts,   \* lists that get registered: variant x number of entries
          LookCodes,    \* codes that are looked up
          GenDepth
VARIABLES hist,
          last          \* ghost: what the last call was and what it invoked (not part of the VIEW)

mcvars == <<le, th, gh, reg, xl, hist, last>>
View == evars

HandlersSmall == {NoH, [h |-> 1, c |-> 1], [h |-> 1, c |-> 2]}
HandlersFull == {NoH, [h |-> 1, c |-> 1], [h |-> 1, c |-> 2], [h |-> 2, c |-> 0], [h |-> 3, c |-> 3]}

Op(name, t, a, b, c) == [op |-> name, t |-> t, a |-> a, b |-> b, c |-> c]
Rec(o) == hist' = IF GenDepth > 0 THEN Append(hist, o) ELSE hist
G == GenDepth > 0 => Len(hist) < GenDepth
Did(t, raised, err, calls, slot) == last' = [t |-> t, raised |-> raised, err |-> err, calls |-> calls, slot |-> slot]

(* what a (possibly wrong) implementation could have invoked: nothing, or any installed handler with any of   *)
(* the plausible arguments, on any thread. The specification's actions select exactly one of these.           *)
Installed == {th[u] : u \in Threads} \cup {gh}
CallCands(t, err) ==
    {<<>>} \cup { << [h |-> H.h, c |-> H.c, err |-> e, le |-> l, t |-> u] >> :
                    H \in {X \in Installed : X.h # 0}, e \in {err}, l \in {err, le[t]}, u \in Threads }

MCInit == EInit /\ hist = <<>> /\ last = [t |-> 0, raised |-> FALSE, err |-> 0, calls |-> <<>>, slot |-> 0]

MCRaise == /\ G
           /\ \E t \in Threads, err \in MCodes : \E calls \in CallCands(t, err) :
                 Raise(t, err, OpErr, calls) /\ Did(t, TRUE, err, calls, 0) /\ Rec(Op("RAISE", t, err, 0, 0))
MCRestore == /\ G
             /\ \E t \in Threads, err \in MCodes : \E calls \in CallCands(t, err) :
                   Restore(t, err, calls) /\ Did(t, FALSE, err, calls, 0) /\ Rec(Op("RESTORE", t, err, 0, 0))
MCResetErr == /\ G
              /\ \E t \in Threads : \E calls \in CallCands(t, 0) :
                    ResetErr(t, calls) /\ Did(t, FALSE, 0, calls, 0) /\ Rec(Op("CLEAR", t, 0, 0, 0))
MCLast == /\ G
          /\ \E t \in Threads, r \in MCodes \cup MXCodes :
                Last(t, r) /\ Did(t, FALSE, 0, <<>>, 0) /\ Rec(Op("LAST", t, 0, 0, 0))
MCSetGlobal == /\ G
               /\ \E t \in Threads, H \in MHandlers, p \in {X.h : X \in MHandlers} :
                     SetGlobal(t, H.h, H.c, p, <<>>) /\ Did(t, FALSE, 0, <<>>, 0) /\ Rec(Op("SETG", t, H.h, H.c, 0))
MCSetLocal == /\ G
              /\ \E t \in Threads, H \in MHandlers, p \in {X.h : X \in MHandlers} :
                    SetLocal(t, H.h, H.c, p, <<>>) /\ Did(t, FALSE, 0, <<>>, 0) /\ Rec(Op("SETL", t, H.h, H.c, 0))
MCSpawn == /\ G
           /\ \E t \in Threads : Spawn(t) /\ Did(t, FALSE, 0, <<>>, 0) /\ Rec(Op("SPAWN", t, 0, 0, 0))
MCTranslate == /\ G
               /\ \E t \in Threads, e \in MErrnos, res \in MXCodes : \E calls \in CallCands(t, res) :
                     Translate(t, e, res, OpErr, calls) /\ Did(t, TRUE, res, calls, 0) /\ Rec(Op("XLAT", t, e, 0, 0))
MCTranslateOr == /\ G
                 /\ \E t \in Threads, e \in MErrnos, fb \in MCodes \ {0}, res \in MXCodes \cup MCodes :
                       \E calls \in CallCands(t, res) :
                          TranslateOr(t, e, fb, res, OpErr, calls) /\ Did(t, TRUE, res, calls, 0)
                          /\ Rec(Op("XLATOR", t, e, fb, 0))
MCRegister == /\ G
              /\ \E t \in Threads, s \in TestSlots, v \in MVariants, n \in MCounts :
                    Register(t, s, v, n, <<>>) /\ Did(t, FALSE, 0, <<>>, s) /\ Rec(Op("REG", t, s, v, n))
MCUnregister == /\ G
                /\ \E t \in Threads, s \in TestSlots, v \in MVariants, n \in MCounts :
                      Unregister(t, s, v, n, <<>>) /\ Did(t, FALSE, 0, <<>>, s) /\ Rec(Op("UNREG", t, s, v, n))

(* the strings a correct implementation reports for one code (the common error string is the library's choice) *)
Exp(code) ==
    IF ~Resolves(code) THEN <<UnknownStr, UnknownStr, UnknownStr, UnknownStr>>
    ELSE LET s == SlotOf(code)  i == IndexOf(code) IN
         IF s = 0 THEN <<CommonEnum[i + 1], "some text", CommonLib, Fmt(CommonLib, CommonEnum[i + 1], "some text")>>
         ELSE LET v == reg[s].v IN
              <<Tag("E", s, v, i), Tag("S", s, v, i), TLib(s, v), Fmt(TLib(s, v), Tag("E", s, v, i), Tag("S", s, v, i))>>
MCLookup == /\ G
            /\ \E t \in Threads, code \in LookCodes :
                  LET x == Exp(code) IN
                  /\ Lookup(t, <<code>>, <<x[1]>>, <<x[2]>>, <<x[3]>>, <<x[4]>>, <<>>)
                  /\ Did(t, FALSE, 0, <<>>, 0) /\ Rec(Op("LOOKUP", t, code, 0, 0))

MCNext == \/ MCRaise \/ MCRestore \/ MCResetErr \/ MCLast \/ MCSetGlobal \/ MCSetLocal \/ MCSpawn
          \/ MCTranslate \/ MCTranslateOr \/ MCRegister \/ MCUnregister \/ MCLookup
MCSpec == MCInit /\ [][MCNext]_mcvars

-----------------------------------------------------------------------------
(* the documented properties, on every transition *)
RaiseProp == [][ last'.raised =>
                    /\ AtMostOneCall(last'.calls)
                    /\ LocalInsteadOfGlobal(last'.t, last'.calls)
                    /\ HandlerSeesRaisedError(last'.t, le'[last'.t], last'.calls)
                    /\ le'[last'.t] = last'.err ]_mcvars
(* a handler that only another thread installed locally is never the one that runs *)
NoForeignHandler == [][ (last'.raised /\ last'.calls # <<>>) =>
                          LET c == last'.calls[1] IN [h |-> c.h, c |-> c.c] \in {th[last'.t], gh} ]_mcvars
SilentProp == [][ ~last'.raised => last'.calls = <<>> ]_mcvars
ThreadIsolation == [][ \A u \in Threads : u # last'.t => (le'[u] = le[u] /\ th'[u] = th[u]) ]_mcvars
SlotIndependence == [][ \A s \in TestSlots : reg'[s] # reg[s] => last'.slot = s ]_mcvars

RegInv == /\ ~Resolves(-1) /\ ~Resolves(Slots * Stride) /\ Resolves(0) /\ Resolves(NCommon - 1) /\ ~Resolves(NCommon)
          /\ \A s \in TestSlots :
                IF reg[s].n = 0 THEN ~Resolves(s * Stride) /\ ~Resolves(s * Stride + Stride - 1)
                ELSE /\ Resolves(s * Stride) /\ Resolves(s * Stride + reg[s].n - 1)
                     /\ reg[s].n < Stride => ~Resolves(s * Stride + reg[s].n)

Emit == (GenDepth > 0 /\ Len(hist) = GenDepth) => PrintT(<<"SCRIPT", ToJson([ops |-> hist])>>)
=============================================================================
