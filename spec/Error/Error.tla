-------------------------------- MODULE Error --------------------------------
(* Error handling of aws-c-common (include/aws/common/error.h) as its header documents it:           *)
(*  - a last error per thread (0 in a new thread; raise sets it, reset clears it, restore sets it     *)
(*    without calling anybody);                                                                      *)
(*  - one global and one thread-local error handler (+ user data); the setters return the previous   *)
(*    handler; a raise calls the raising thread's own handler if it has one, else the global one,     *)
(*    exactly once, with the raised code and the registered user data, after the last error was set;  *)
(*  - the table of error-info lists, one per package slot of Stride codes: name / str / lib name /    *)
(*    debug string of a code inside a registered list are that list's strings; every other code has   *)
(*    no info (all four report UnknownStr);                                                           *)
(*  - translation of C library error numbers: always raises (rc = OpErr), the raised code is the      *)
(*    fall-back or an error code of this library, and the conversion is a function of the number.     *)
(* Each action is a relation between pre-state, arguments, reported results and post-state, so the   *)
(* same definitions serve model checking, behaviour generation and validation of recorded traces.    *)
(* The thread that performs a call is an explicit parameter t of every action.                       *)
EXTENDS Integers, Sequences, FiniteSets, TLC

CONSTANTS Threads,         \* ids of the threads that exist (the harness keeps 3 real threads)
          TestSlots,       \* package slots the driver registers lists for (aws-c-common itself uses slot 0 only)
          Stride,          \* AWS_ERROR_ENUM_STRIDE  (1024)
          Slots,           \* AWS_PACKAGE_SLOTS      (32)
          SysCallFailure,  \* AWS_ERROR_SYS_CALL_FAILURE
          UnknownStr,      \* what the four lookup functions say about a code without info
          CommonLib        \* library name of the common error list

VARIABLES le,      \* [Threads -> Int]            last error of each thread
          th,      \* [Threads -> [h, c]]         thread-local handler (h = 0: none) and its user data
          gh,      \* [h, c]                      global handler and its user data
          reg,     \* [TestSlots -> [v, n]]       registered list of a slot: variant v, n entries (n = 0: none)
          xl       \* [SUBSET Int -> Int]         conversions of C error numbers seen so far (the table itself is
                   \*                             not documented, only that it is a conversion)
evars == <<le, th, gh, reg, xl>>

OpErr == -1        \* AWS_OP_ERR
NoH == [h |-> 0, c |-> 0]
NoReg == [v |-> 0, n |-> 0]

(* enum aws_common_error of the public header, in order, first value = begin of slot 0 *)
CommonEnum == <<
  "AWS_ERROR_SUCCESS", "AWS_ERROR_OOM", "AWS_ERROR_NO_SPACE", "AWS_ERROR_UNKNOWN", "AWS_ERROR_SHORT_BUFFER",
  "AWS_ERROR_OVERFLOW_DETECTED", "AWS_ERROR_UNSUPPORTED_OPERATION", "AWS_ERROR_INVALID_BUFFER_SIZE",
  "AWS_ERROR_INVALID_HEX_STR", "AWS_ERROR_INVALID_BASE64_STR", "AWS_ERROR_INVALID_INDEX",
  "AWS_ERROR_THREAD_INVALID_SETTINGS", "AWS_ERROR_THREAD_INSUFFICIENT_RESOURCE", "AWS_ERROR_THREAD_NO_PERMISSIONS",
  "AWS_ERROR_THREAD_NOT_JOINABLE", "AWS_ERROR_THREAD_NO_SUCH_THREAD_ID", "AWS_ERROR_THREAD_DEADLOCK_DETECTED",
  "AWS_ERROR_MUTEX_NOT_INIT", "AWS_ERROR_MUTEX_TIMEOUT", "AWS_ERROR_MUTEX_CALLER_NOT_OWNER", "AWS_ERROR_MUTEX_FAILED",
  "AWS_ERROR_COND_VARIABLE_INIT_FAILED", "AWS_ERROR_COND_VARIABLE_TIMED_OUT", "AWS_ERROR_COND_VARIABLE_ERROR_UNKNOWN",
  "AWS_ERROR_CLOCK_FAILURE", "AWS_ERROR_LIST_EMPTY", "AWS_ERROR_DEST_COPY_TOO_SMALL", "AWS_ERROR_LIST_EXCEEDS_MAX_SIZE",
  "AWS_ERROR_LIST_STATIC_MODE_CANT_SHRINK", "AWS_ERROR_PRIORITY_QUEUE_FULL", "AWS_ERROR_PRIORITY_QUEUE_EMPTY",
  "AWS_ERROR_PRIORITY_QUEUE_BAD_NODE", "AWS_ERROR_HASHTBL_ITEM_NOT_FOUND", "AWS_ERROR_INVALID_DATE_STR",
  "AWS_ERROR_INVALID_ARGUMENT", "AWS_ERROR_RANDOM_GEN_FAILED", "AWS_ERROR_MALFORMED_INPUT_STRING",
  "AWS_ERROR_UNIMPLEMENTED", "AWS_ERROR_INVALID_STATE", "AWS_ERROR_ENVIRONMENT_GET", "AWS_ERROR_ENVIRONMENT_SET",
  "AWS_ERROR_ENVIRONMENT_UNSET", "AWS_ERROR_STREAM_UNSEEKABLE", "AWS_ERROR_NO_PERMISSION", "AWS_ERROR_FILE_INVALID_PATH",
  "AWS_ERROR_MAX_FDS_EXCEEDED", "AWS_ERROR_SYS_CALL_FAILURE", "AWS_ERROR_C_STRING_BUFFER_NOT_NULL_TERMINATED",
  "AWS_ERROR_STRING_MATCH_NOT_FOUND", "AWS_ERROR_DIVIDE_BY_ZERO", "AWS_ERROR_INVALID_FILE_HANDLE",
  "AWS_ERROR_OPERATION_INTERUPTED", "AWS_ERROR_DIRECTORY_NOT_EMPTY", "AWS_ERROR_PLATFORM_NOT_SUPPORTED",
  "AWS_ERROR_INVALID_UTF8", "AWS_ERROR_GET_HOME_DIRECTORY_FAILED", "AWS_ERROR_INVALID_XML", "AWS_ERROR_FILE_OPEN_FAILURE",
  "AWS_ERROR_FILE_READ_FAILURE", "AWS_ERROR_FILE_WRITE_FAILURE", "AWS_ERROR_INVALID_CBOR",
  "AWS_ERROR_CBOR_UNEXPECTED_TYPE" >>
NCommon == Len(CommonEnum)
CommonErr == 1 .. (NCommon - 1)          \* the library's error codes that denote an error

EInit ==
    /\ le = [t \in Threads |-> 0]
    /\ th = [t \in Threads |-> NoH]
    /\ gh = NoH
    /\ reg = [s \in TestSlots |-> NoReg]
    /\ xl = [e \in {} |-> 0]

-----------------------------------------------------------------------------
(* Handler invocation. A call is reported as [h, c, err, le, t]: which handler function, the user data it     *)
(* received, the code it received, what aws_last_error() said inside the handler, the thread it ran on.      *)
Invoked(t, err) ==
    LET H == IF th[t].h # 0 THEN th[t] ELSE gh IN
    IF H.h = 0 THEN <<>>
    ELSE << [h |-> H.h, c |-> H.c, err |-> err, le |-> err, t |-> t] >>

RaiseCore(t, err, calls) ==
    /\ le' = [le EXCEPT ![t] = err]
    /\ calls = Invoked(t, err)

(* aws_raise_error *)
Raise(t, err, rc, calls) ==
    /\ t \in Threads
    /\ rc = OpErr
    /\ RaiseCore(t, err, calls)
    /\ UNCHANGED <<th, gh, reg, xl>>

(* aws_reset_error *)
ResetErr(t, calls) ==
    /\ t \in Threads
    /\ le' = [le EXCEPT ![t] = 0]
    /\ calls = <<>>
    /\ UNCHANGED <<th, gh, reg, xl>>

(* aws_restore_error: "Does not invoke callbacks" *)
Restore(t, err, calls) ==
    /\ t \in Threads
    /\ le' = [le EXCEPT ![t] = err]
    /\ calls = <<>>
    /\ UNCHANGED <<th, gh, reg, xl>>

(* aws_last_error *)
Last(t, res) ==
    /\ t \in Threads
    /\ res = le[t]
    /\ UNCHANGED evars

(* aws_set_global_error_handler_fn: "The previous handler is returned" *)
SetGlobal(t, h, c, prev, calls) ==
    /\ t \in Threads
    /\ prev = gh.h
    /\ gh' = [h |-> h, c |-> c]
    /\ calls = <<>>
    /\ UNCHANGED <<le, th, reg, xl>>

(* aws_set_thread_local_error_handler_fn *)
SetLocal(t, h, c, prev, calls) ==
    /\ t \in Threads
    /\ prev = th[t].h
    /\ th' = [th EXCEPT ![t] = [h |-> h, c |-> c]]
    /\ calls = <<>>
    /\ UNCHANGED <<le, gh, reg, xl>>

(* a thread ends and a new one takes its place: nothing thread-local survives *)
Spawn(t) ==
    /\ t \in Threads
    /\ le' = [le EXCEPT ![t] = 0]
    /\ th' = [th EXCEPT ![t] = NoH]
    /\ UNCHANGED <<gh, reg, xl>>

-----------------------------------------------------------------------------
(* Translation of C library error numbers. Documented: the result is raised, the call returns AWS_OP_ERR, and *)
(* "if no conversion is found" the fall-back (AWS_ERROR_SYS_CALL_FAILURE for the plain variant) is raised.    *)
(* The table is not documented, so the specification only requires: the raised code is the fall-back or an    *)
(* error code of this library; numbers that are no C library error number at all (outside 1..4095) have no   *)
(* conversion; and the conversion is a function of the number (xl remembers what the plain variant yields).   *)
IsErrno(e) == e >= 1 /\ e <= 4095
Learn(e, res) == [x \in DOMAIN xl \cup {e} |-> IF x = e THEN res ELSE xl[x]]

Translate(t, e, res, rc, calls) ==
    /\ t \in Threads
    /\ rc = OpErr
    /\ res \in CommonErr
    /\ ~IsErrno(e) => res = SysCallFailure
    /\ e \in DOMAIN xl => res = xl[e]
    /\ RaiseCore(t, res, calls)
    /\ xl' = Learn(e, res)
    /\ UNCHANGED <<th, gh, reg>>

TranslateOr(t, e, fb, res, rc, calls) ==
    /\ t \in Threads
    /\ rc = OpErr
    /\ \/ res = fb
       \/ /\ IsErrno(e)
          /\ res \in CommonErr
          /\ e \in DOMAIN xl => res = xl[e]
    /\ RaiseCore(t, res, calls)
    /\ xl' = IF res # fb THEN Learn(e, res) ELSE xl
    /\ UNCHANGED <<th, gh, reg>>

-----------------------------------------------------------------------------
(* Error-info lists. The driver's lists are recognisable: entry i of variant v for slot s is                  *)
(*   name E<s>v<v>_<i>, str S<s>v<v>_<i>, lib L<s>v<v>, formatted "<lib>: <name>, <str>" (AWS_DEFINE_ERROR_INFO) *)
Tag(p, s, v, i) == p \o ToString(s) \o "v" \o ToString(v) \o "_" \o ToString(i)
TLib(s, v) == "L" \o ToString(s) \o "v" \o ToString(v)
Fmt(lib, name, str) == lib \o ": " \o name \o ", " \o str

SlotOf(code) == code \div Stride
IndexOf(code) == code % Stride
InRange(code) == code >= 0 /\ code < Slots * Stride
Resolves(code) ==
    /\ InRange(code)
    /\ \/ SlotOf(code) = 0 /\ IndexOf(code) < NCommon
       \/ SlotOf(code) \in TestSlots /\ IndexOf(code) < reg[SlotOf(code)].n

LookupOne(code, name, str, lib, dbg) ==
    IF ~Resolves(code)
    THEN name = UnknownStr /\ str = UnknownStr /\ lib = UnknownStr /\ dbg = UnknownStr
    ELSE LET s == SlotOf(code)  i == IndexOf(code) IN
         IF s = 0
         THEN /\ name = CommonEnum[i + 1]              \* "Returns the enum name corresponding to err"
              /\ lib = CommonLib
              /\ dbg = Fmt(lib, name, str)             \* the error string itself is the library's free choice
         ELSE LET v == reg[s].v IN
              /\ name = Tag("E", s, v, i)
              /\ str = Tag("S", s, v, i)
              /\ lib = TLib(s, v)
              /\ dbg = Fmt(lib, name, str)

(* aws_error_name / aws_error_str / aws_error_lib_name / aws_error_debug_str for each of the codes *)
Lookup(t, codes, names, strs, libs, dbgs, calls) ==
    /\ t \in Threads
    /\ Len(names) = Len(codes) /\ Len(strs) = Len(codes) /\ Len(libs) = Len(codes) /\ Len(dbgs) = Len(codes)
    /\ \A k \in 1..Len(codes) : LookupOne(codes[k], names[k], strs[k], libs[k], dbgs[k])
    /\ calls = <<>>
    /\ UNCHANGED evars

(* aws_register_error_info: the list's first code selects the slot; the list registered last is the slot's list *)
Register(t, s, v, n, calls) ==
    /\ t \in Threads
    /\ s \in TestSlots /\ n >= 1 /\ n <= Stride
    /\ reg' = [reg EXCEPT ![s] = [v |-> v, n |-> n]]
    /\ calls = <<>>
    /\ UNCHANGED <<le, th, gh, xl>>

(* aws_unregister_error_info. Environment obligation (scripts respect it): the list handed in is the one that *)
(* is registered for its slot, or the slot has none (the header does not say what a different list does).     *)
Unregister(t, s, v, n, calls) ==
    /\ t \in Threads
    /\ s \in TestSlots
    /\ reg[s].n = 0 \/ reg[s] = [v |-> v, n |-> n]
    /\ reg' = [reg EXCEPT ![s] = NoReg]
    /\ calls = <<>>
    /\ UNCHANGED <<le, th, gh, xl>>

-----------------------------------------------------------------------------
(* Properties of the specification itself (checked by TLC in ErrorMC over all bounded behaviours).             *)
TypeOK ==
    /\ le \in [Threads -> Int]
    /\ \A t \in Threads : th[t].h >= 0
    /\ gh.h >= 0
    /\ \A s \in TestSlots : reg[s].n >= 0 /\ reg[s].n <= Stride
    /\ \A e \in DOMAIN xl : xl[e] \in CommonErr

(* what a raise on thread t with code err may have invoked, judged on the state in which it happened *)
AtMostOneCall(calls) == Len(calls) <= 1
LocalInsteadOfGlobal(t, calls) ==
    /\ th[t].h # 0 => calls = <<>> \/ (calls[1].h = th[t].h /\ calls[1].c = th[t].c)
    /\ (th[t].h = 0 /\ gh.h # 0) => calls = <<>> \/ (calls[1].h = gh.h /\ calls[1].c = gh.c)
    /\ (th[t].h = 0 /\ gh.h = 0) => calls = <<>>
    /\ (th[t].h # 0 \/ gh.h # 0) => calls # <<>>
HandlerSeesRaisedError(t, err, calls) ==
    \A k \in 1..Len(calls) : calls[k].err = err /\ calls[k].le = err /\ calls[k].t = t
(* the translation learnt so far never contradicts "no conversion for non-errno numbers" *)
XlConsistent == \A e \in DOMAIN xl : ~IsErrno(e) => xl[e] = SysCallFailure
=============================================================================
