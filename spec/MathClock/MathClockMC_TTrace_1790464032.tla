---- MODULE MathClockMC_TTrace_1790464032 ----
EXTENDS Sequences, TLCExt, Toolbox, Naturals, TLC, MathClockMC

_expression ==
    LET MathClockMC_TEExpression == INSTANCE MathClockMC_TEExpression
    IN MathClockMC_TEExpression!expression
----

_trace ==
    LET MathClockMC_TETrace == INSTANCE MathClockMC_TETrace
    IN MathClockMC_TETrace!trace
----

_inv ==
    ~(
        TLCGet("level") = Len(_TETrace)
        /\
        x = (7)
        /\
        y = (7)
    )
----

_init ==
    /\ x = _TETrace[1].x
    /\ y = _TETrace[1].y
----

_next ==
    /\ \E i,j \in DOMAIN _TETrace:
        /\ \/ /\ j = i + 1
              /\ i = TLCGet("level")
        /\ x  = _TETrace[i].x
        /\ x' = _TETrace[j].x
        /\ y  = _TETrace[i].y
        /\ y' = _TETrace[j].y

\* Uncomment the ASSUME below to write the states of the error trace
\* to the given file in Json format. Note that you can pass any tuple
\* to `JsonSerialize`. For example, a sub-sequence of _TETrace.
    \* ASSUME
    \*     LET J == INSTANCE Json
    \*         IN J!JsonSerialize("MathClockMC_TTrace_1790464032.json", _TETrace)

=============================================================================

 Note that you can extract this module `MathClockMC_TEExpression`
  to a dedicated file to reuse `expression` (the module in the 
  dedicated `MathClockMC_TEExpression.tla` file takes precedence 
  over the module `MathClockMC_TEExpression` below).

---- MODULE MathClockMC_TEExpression ----
EXTENDS Sequences, TLCExt, Toolbox, Naturals, TLC, MathClockMC

expression == 
    [
        \* To hide variables of the `MathClockMC` spec from the error trace,
        \* remove the variables below.  The trace will be written in the order
        \* of the fields of this record.
        x |-> x
        ,y |-> y
        
        \* Put additional constant-, state-, and action-level expressions here:
        \* ,_stateNumber |-> _TEPosition
        \* ,_xUnchanged |-> x = x'
        
        \* Format the `x` variable as Json value.
        \* ,_xJson |->
        \*     LET J == INSTANCE Json
        \*     IN J!ToJson(x)
        
        \* Lastly, you may build expressions over arbitrary sets of states by
        \* leveraging the _TETrace operator.  For example, this is how to
        \* count the number of times a spec variable changed up to the current
        \* state in the trace.
        \* ,_xModCount |->
        \*     LET F[s \in DOMAIN _TETrace] ==
        \*         IF s = 1 THEN 0
        \*         ELSE IF _TETrace[s].x # _TETrace[s-1].x
        \*             THEN 1 + F[s-1] ELSE F[s-1]
        \*     IN F[_TEPosition - 1]
    ]

=============================================================================



Parsing and semantic processing can take forever if the trace below is long.
 In this case, it is advised to uncomment the module below to deserialize the
 trace from a generated binary file.

\*
\*---- MODULE MathClockMC_TETrace ----
\*EXTENDS IOUtils, TLC, MathClockMC
\*
\*trace == IODeserialize("MathClockMC_TTrace_1790464032.bin", TRUE)
\*
\*=============================================================================
\*

---- MODULE MathClockMC_TETrace ----
EXTENDS TLC, MathClockMC

trace == 
    <<
    ([x |-> 7,y |-> 0]),
    ([x |-> 7,y |-> 7])
    >>
----


=============================================================================

---- CONFIG MathClockMC_TTrace_1790464032 ----
CONSTANTS
    WBase = 4
    W = 6

INVARIANT
    _inv

CHECK_DEADLOCK
    \* CHECK_DEADLOCK off because of PROPERTY or INVARIANT above.
    FALSE

INIT
    _init

NEXT
    _next

CONSTANT
    _TETrace <- _trace

ALIAS
    _expression
=============================================================================
\* Generated on Sat Sep 26 23:07:16 UTC 2026