----------------------------- MODULE MathClockMC -----------------------------
(* Reduced-width model check (DESIGN C16): words of W = 6 bits, limbs in base 4.  Every state is a *)
(* pair (x, y) of words; the invariants state, exhaustively over all pairs, that                    *)
(*   (1) the Wide-based definitions of MathClock.tla (the oracle of trace validation) equal plain   *)
(*       integer mathematics, and                                                                  *)
(*   (2) the portable algorithms of math.fallback.inl / math.inl / clock.inl, transcribed below at  *)
(*       W bits (division-based overflow predicates, shift loops, bit smearing, split conversion),  *)
(*       compute exactly those definitions.                                                         *)
(* A mis-stated definition or a mis-read algorithm shows up here, before any trace is judged.      *)
EXTENDS MathClock, TLC

CONSTANTS W
VARIABLES x, y

MAXW == 2 ^ W - 1
Word == 0..MAXW
F(n) == WFromNat(n)

(* 64 initial states (x, 0); Fan produces every (x, y): the invariants are then evaluated by all workers *)
Init == x \in Word /\ y = 0
Fan == y = 0 /\ y' \in Word /\ x' = x
Next == Fan
Spec == Init /\ [][Next]_<<x, y>>

-----------------------------------------------------------------------------
(* (1) definitions vs integer mathematics *)
DefArith ==
    /\ ArithDef("add", F(x), F(y), W) = [ok |-> x + y <= MAXW, r |-> F(x + y)]
    /\ ArithDef("mul", F(x), F(y), W) = [ok |-> x * y <= MAXW, r |-> F(x * y)]
    /\ ArithDef("sub", F(x), F(y), W) = [ok |-> y <= x, r |-> IF y <= x THEN F(x - y) ELSE <<>>]
DefPow2 ==
    /\ IsPow2(F(x), W) <=> (\E k \in 0..(W - 1) : x = 2 ^ k)
    /\ LET d == RoundUpPow2(F(x), W)
           k == CHOOSE j \in 0..W : 2 ^ j >= x /\ \A i \in 0..W : 2 ^ i >= x => j <= i
       IN d.r = F(2 ^ k) /\ (d.ok <=> 2 ^ k <= MAXW)
BitN(v, p) == (v \div 2 ^ p) % 2
DefBits ==
    /\ Clz(F(x), W) = (IF x = 0 THEN W ELSE CHOOSE c \in 0..(W - 1) : BitN(x, W - 1 - c) = 1 /\ \A i \in (W - c)..(W - 1) : BitN(x, i) = 0)
    /\ Ctz(F(x), W) = (IF x = 0 THEN W ELSE CHOOSE c \in 0..(W - 1) : BitN(x, c) = 1 /\ \A i \in 0..(c - 1) : BitN(x, i) = 0)
DefMinMax ==
    /\ MinDef(F(x), F(y)) = F(IF x <= y THEN x ELSE y)
    /\ MaxDef(F(x), F(y)) = F(IF x <= y THEN y ELSE x)
(* conversion: y encodes the two frequencies (1..8 each) *)
FOld == (y \div 8) + 1
FNew == (y % 8) + 1
Floor == (x * FNew) \div FOld
Sat == IF Floor > MAXW THEN MAXW ELSE Floor
NearQ == {q \in Word : q \in {0, MAXW} \/ (q + 2 >= Sat /\ q <= Sat + 2)}     \* the candidates that matter
DefConvert ==
    \A q \in NearQ : ConvertOk(F(x), F(FOld), F(FNew), W, F(q)) <=> (q = IF Floor > MAXW THEN MAXW ELSE Floor)
DefRemainder ==
    \A rem \in 0..8 : RemainderOk(F(x), F(FOld), F(FNew), F(IF Floor > MAXW THEN MAXW ELSE Floor), F(rem), F(5))
                        <=> IF FNew < FOld /\ FOld % FNew = 0 THEN rem = x % (FOld \div FNew) ELSE rem \in {0, 5}

-----------------------------------------------------------------------------
(* (2) the portable algorithms, transcribed at W bits *)
Wrap(n) == n % (MAXW + 1)
FbMulOvf(a, b) == a > 0 /\ b > 0 /\ a > (MAXW \div b)                 \* math.fallback.inl
FbAddOvf(a, b) == (b > 0) /\ (a > (MAXW - b))
FbMulChecked(a, b) == [ok |-> ~FbMulOvf(a, b), r |-> Wrap(a * b)]
FbMulSat(a, b) == IF FbMulOvf(a, b) THEN MAXW ELSE Wrap(a * b)
FbAddChecked(a, b) == [ok |-> ~FbAddOvf(a, b), r |-> Wrap(a + b)]
FbAddSat(a, b) == IF FbAddOvf(a, b) THEN MAXW ELSE Wrap(a + b)
SubChecked(a, b) == [ok |-> ~(a < b), r |-> IF a < b THEN 0 ELSE a - b]   \* math.inl
SubSat(a, b) == IF a <= b THEN 0 ELSE a - b
AlgArith ==
    /\ LET c == FbMulChecked(x, y) IN CheckedOk("mul", F(x), F(y), W, c.ok, F(c.r))
    /\ SaturatingOk("mul", F(x), F(y), W, F(FbMulSat(x, y)))
    /\ LET c == FbAddChecked(x, y) IN CheckedOk("add", F(x), F(y), W, c.ok, F(c.r))
    /\ SaturatingOk("add", F(x), F(y), W, F(FbAddSat(x, y)))
    /\ LET c == SubChecked(x, y) IN CheckedOk("sub", F(x), F(y), W, c.ok, F(c.r))
    /\ SaturatingOk("sub", F(x), F(y), W, F(SubSat(x, y)))

Neg(n) == n >= 2 ^ (W - 1)                                            \* sign bit of the W-bit signed view
RECURSIVE ClzLoop(_, _)
ClzLoop(n, idx) == IF Neg(n) THEN idx ELSE ClzLoop(Wrap(n * 2), idx + 1)     \* while (n >= 0) { ++idx; n <<= 1; }
FbClz(n) == IF n = 0 THEN W ELSE IF Neg(n) THEN 0 ELSE ClzLoop(n, 0)
RECURSIVE CtzLoop(_, _)
CtzLoop(n, idx) == IF idx >= W \/ BitN(n, idx) = 1 THEN idx ELSE CtzLoop(n, idx + 1)
FbCtz(n) == IF n = 0 THEN W ELSE CtzLoop(n, 0)
AndN(a, b) == LET s[i \in 0..W] == IF i = 0 THEN 0 ELSE s[i - 1] + 2 ^ (i - 1) * (BitN(a, i - 1) * BitN(b, i - 1)) IN s[W]
OrN(a, b) == a + b - AndN(a, b)
Shr(n, k) == n \div 2 ^ k
AlgIsPow2(n) == n # 0 /\ AndN(n, Wrap(n + MAXW)) = 0                   \* x && !(x & (x - 1))
Smear(n) == LET a == OrN(n, Shr(n, 1)) b == OrN(a, Shr(a, 2)) c == OrN(b, Shr(b, 4)) IN c
AlgRoundUp(n) == IF n = 0 THEN [ok |-> TRUE, r |-> 1]
                 ELSE IF n > 2 ^ (W - 1) THEN [ok |-> FALSE, r |-> 0]
                 ELSE [ok |-> TRUE, r |-> Wrap(Smear(n - 1) + 1)]
AlgBits ==
    /\ FbClz(x) = Clz(F(x), W) /\ FbCtz(x) = Ctz(F(x), W)
    /\ AlgIsPow2(x) <=> IsPow2(F(x), W)
    /\ LET c == AlgRoundUp(x) IN RoundUpOk(F(x), W, c.ok, F(c.r))

(* clock.inl: whole seconds and the sub-second part converted separately with saturating helpers.   *)
(* The sub-second product (t mod fOld) * fNew must not saturate for the result to be exact: that is *)
(* the "frequencies up to 10^9" clause of the property ((10^9-1)*10^9 < 2^64), here FreqOk.         *)
AlgConvert(t, fo, fn) ==
    LET secs == t \div fo
        orem == t - secs * fo
        whole == FbMulSat(secs, fn)
        part == FbMulSat(orem, fn) \div fo
    IN FbAddSat(whole, part)
AlgRemainder(t, fo, fn, preset) == IF fn < fo /\ fo % fn = 0 THEN t % (fo \div fn) ELSE 0
FreqOk == (FOld - 1) * FNew <= MAXW
AlgConv ==
    FreqOk => /\ ConvertOk(F(x), F(FOld), F(FNew), W, F(AlgConvert(x, FOld, FNew)))
              /\ RemainderOk(F(x), F(FOld), F(FNew), F(AlgConvert(x, FOld, FNew)), F(AlgRemainder(x, FOld, FNew, 5)), F(5))
=============================================================================
