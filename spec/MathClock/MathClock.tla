------------------------------ MODULE MathClock ------------------------------
(* C16: what the checked / saturating arithmetic helpers, the power-of-two and bit-count helpers, *)
(* min/max and the time-unit conversion of aws-c-common must return, stated on mathematical       *)
(* naturals (Wide.tla: numbers of any size as limb sequences).  `bits` is the width of the C type  *)
(* (32, 64; 6 in the reduced-width model check).  Every definition is a relation between the       *)
(* arguments and the *reported* result, so the same text is the oracle of trace validation.        *)
(* Quotients are never computed: a reported quotient q is checked by q*d <= n < (q+1)*d.            *)
EXTENDS Wide

W_U32MAX == WMaxBits(32)
W_U64MAX == WMaxBits(64)
MaxOf(bits) == IF bits = 64 THEN W_U64MAX ELSE IF bits = 32 THEN W_U32MAX ELSE WMaxBits(bits)
Fits(v, bits) == WLe(v, MaxOf(bits))

(* exact mathematical result and whether it is representable *)
ArithDef(op, a, b, bits) ==
    CASE op = "add" -> LET s == WAdd(a, b) IN [ok |-> Fits(s, bits), r |-> s]
      [] op = "mul" -> LET p == WMul(a, b) IN [ok |-> Fits(p, bits), r |-> p]
      [] op = "sub" -> [ok |-> WLe(b, a), r |-> IF WLe(b, a) THEN WSub(a, b) ELSE WZero]

(* checked form: reports overflow exactly when the exact result does not fit; *r is exact when it does
   (and unspecified otherwise) *)
CheckedAgainst(d, ok, r) == (ok <=> d.ok) /\ (ok => WEq(r, d.r))
CheckedOk(op, a, b, bits, ok, r) == CheckedAgainst(ArithDef(op, a, b, bits), ok, r)

(* saturating form: exact result, or the type's maximum (zero for subtraction) *)
SaturatingAgainst(d, op, bits, r) == WEq(r, IF d.ok THEN d.r ELSE IF op = "sub" THEN WZero ELSE MaxOf(bits))
SaturatingOk(op, a, b, bits, r) == SaturatingAgainst(ArithDef(op, a, b, bits), op, bits, r)

IsPow2(x, bits) == \E k \in 0..(bits - 1) : WEq(x, WPow2(k))

(* smallest power of two >= n; ok iff it is representable in `bits` bits *)
RoundUpPow2(n, bits) ==
    LET k == CHOOSE j \in 0..bits : WLe(n, WPow2(j)) /\ (j = 0 \/ WLt(WPow2(j - 1), n))
    IN [ok |-> k <= bits - 1, r |-> WPow2(k)]
RoundUpOk(n, bits, ok, r) == LET d == RoundUpPow2(n, bits) IN (ok <=> d.ok) /\ (ok => WEq(r, d.r))

(* leading / trailing zero counts by bit position; the headers document: 0 -> width of the type *)
SetBits(n, bits) == {i \in 0..(bits - 1) : WBit(n, i) = 1}
Clz(n, bits) == IF SetBits(n, bits) = {} THEN bits ELSE bits - 1 - WMaxOf(SetBits(n, bits))
Ctz(n, bits) == IF SetBits(n, bits) = {} THEN bits
                ELSE CHOOSE i \in SetBits(n, bits) : \A j \in SetBits(n, bits) : i <= j

MinDef(a, b) == IF WLe(a, b) THEN a ELSE b
MaxDef(a, b) == IF WLe(a, b) THEN b ELSE a

(* conversion: q = floor(t * fNew / fOld), or the maximum when that does not fit *)
ConvertOk(t, fOld, fNew, bits, q) ==
    LET num == WMul(t, fNew)
    IN IF WLe(WMul(WPow2(bits), fOld), num)                      \* floor(num / fOld) >= 2^bits
       THEN WEq(q, MaxOf(bits))
       ELSE WLe(WMul(q, fOld), num) /\ WLt(num, WMul(WAdd(q, WOne), fOld))

(* documented remainder (clock.inl): set when going to a coarser unit and the old frequency is a   *)
(* multiple k of the new one: ticks mod k.  Otherwise the two headers disagree (clock.h: left      *)
(* untouched, clock.inl: zero) - both are accepted.  Frequencies are small (<= 10^9) by the         *)
(* property's quantifier, so k is computed natively.                                               *)
RemainderOk(t, fOld, fNew, q, rem, preset) ==
    LET o == WToNat(WNorm(fOld))
        n == WToNat(WNorm(fNew))
    IN IF n < o /\ o % n = 0
       THEN LET k == WFromNat(o \div n) IN WLt(rem, k) /\ WEq(t, WAdd(WMul(q, k), rem))
       ELSE WIsZero(rem) \/ WEq(rem, preset)
=============================================================================
