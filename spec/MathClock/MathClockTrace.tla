--------------------------- MODULE MathClockTrace ---------------------------
(* Trace validation for C16.  One event = one operand tuple evaluated by the real helpers, with the *)
(* raw results of every implementation variant compiled into the adapter (lib = the build's own      *)
(* dispatch, fb = math.fallback.inl, ov = math.gcc_overflow.inl, asm = math.gcc_x64_asm.inl,         *)
(* bi = math.gcc_builtin.inl).  Every variant's result must satisfy the definition of MathClock.tla; *)
(* "all variants give identical answers" follows (the checked forms' *r is only compared when the    *)
(* call reported success - it is unspecified otherwise).                                            *)
EXTENDS MathClock, TraceCommon

VARIABLES l, sizebits
Ev == TraceLog[l]
Chk(b) == b = TRUE        \* evaluate b as a plain expression (TLC splits action-level disjunctions into branches)

Bits(ty) == CASE ty \in {"u8", "i8"} -> 8
              [] ty \in {"u16", "i16"} -> 16
              [] ty \in {"u32", "i32", "int"} -> 32
              [] ty \in {"u64", "i64"} -> 64
              [] ty = "size" -> sizebits

TReset == Ev.e = "Reset" /\ Ev.sizebits \in {32, 64} /\ sizebits' = Ev.sizebits

TArith == /\ Ev.e = "Arith"
          /\ LET bits == Bits(Ev.ty)
                 d == ArithDef(Ev.op, Ev.a, Ev.b, bits)
             IN /\ Chk(Fits(Ev.a, bits) /\ Fits(Ev.b, bits))         \* driver obligation
                /\ Len(Ev.res) >= 1
                /\ Chk(\A i \in 1..Len(Ev.res) :
                          /\ CheckedAgainst(d, Ev.res[i].ok = 1, Ev.res[i].r)
                          /\ SaturatingAgainst(d, Ev.op, bits, Ev.res[i].s)
                          \* the same call expanded in other usage contexts, and with the operands swapped
                          /\ SaturatingAgainst(d, Ev.op, bits, Ev.res[i].s2)
                          /\ SaturatingAgainst(d, Ev.op, bits, Ev.res[i].s3)
                          /\ SaturatingAgainst(ArithDef(Ev.op, Ev.b, Ev.a, bits), Ev.op, bits, Ev.res[i].sc))
          /\ UNCHANGED sizebits

(* the checked forms expanded inside a loop over several operand pairs: every pair by itself *)
TArithLoop == /\ Ev.e = "ArithLoop"
              /\ LET bits == Bits(Ev.ty) IN
                 Chk(\A i \in 1..Len(Ev.pairs) :
                        /\ Fits(Ev.pairs[i].a, bits) /\ Fits(Ev.pairs[i].b, bits)
                        /\ LET d == ArithDef(Ev.op, Ev.pairs[i].a, Ev.pairs[i].b, bits)
                           IN (Ev.ok[i] = 1) <=> d.ok /\ (d.ok => WEq(Ev.pairs[i].r, d.r)))
              /\ UNCHANGED sizebits

TBits == /\ Ev.e = "Bits"
         /\ LET bits == Bits(Ev.ty) IN
            /\ Chk(Fits(Ev.a, bits)) /\ Len(Ev.res) >= 1
            /\ Chk(\A i \in 1..Len(Ev.res) : Ev.res[i].clz = Clz(Ev.a, bits) /\ Ev.res[i].ctz = Ctz(Ev.a, bits))
         /\ UNCHANGED sizebits

TPow2 == /\ Ev.e = "Pow2"
         /\ Chk(Fits(Ev.a, sizebits))
         /\ Chk((Ev.is = 1) <=> IsPow2(Ev.a, sizebits))
         /\ Chk(RoundUpOk(Ev.a, sizebits, Ev.ok = 1, Ev.r))
         /\ UNCHANGED sizebits

(* signed operands arrive biased by 2^63 (order preserving), so one definition serves all types *)
TMinMax == /\ Ev.e = "MinMax"
           /\ Chk(WEq(Ev.min, MinDef(Ev.a, Ev.b)) /\ WEq(Ev.max, MaxDef(Ev.a, Ev.b)))
           /\ UNCHANGED sizebits

(* property quantifier: frequencies 1 .. 10^9 *)
FreqInRange(f) == WFitsNat(f) /\ WToNat(WNorm(f)) >= 1 /\ WToNat(WNorm(f)) <= 1000000000
TConv == /\ Ev.e = "Conv"
         /\ Chk(FreqInRange(Ev.fo) /\ FreqInRange(Ev.fnew))             \* driver obligation
         /\ Chk(ConvertOk(Ev.t, Ev.fo, Ev.fnew, 64, Ev.q))
         /\ Chk(WEq(Ev.q0, Ev.q))                                       \* same value without a remainder pointer
         /\ Chk(RemainderOk(Ev.t, Ev.fo, Ev.fnew, Ev.q, Ev.rem, Ev.pre))
         /\ UNCHANGED sizebits

TEnd == Ev.e = "End" /\ Ev.live = 0 /\ UNCHANGED sizebits

TNext == l <= TraceLen /\ l' = l + 1 /\ (TReset \/ TArith \/ TArithLoop \/ TBits \/ TPow2 \/ TMinMax \/ TConv \/ TEnd)
TInit == l = 1 /\ sizebits = 64
TSpec == TInit /\ [][TNext]_<<l, sizebits>>
=============================================================================
