SPECIFICATION Spec
CONSTANTS WBase = 4
  W = 7
INVARIANTS DefArith DefPow2 DefBits DefMinMax DefConvert DefRemainder AlgArith AlgBits AlgConv
CHECK_DEADLOCK FALSE
