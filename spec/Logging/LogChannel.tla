----------------------------- MODULE LogChannel -----------------------------
(* Implementation-shaped model of the background log channel (source/log_channel.c):               *)
(*   send      : lock; push line; notify; unlock                       (one critical section)      *)
(*   background: loop { lock; wait until finished or pending non-empty;                            *)
(*                      n := #pending; f := finished;                                               *)
(*                      if n = 0 { unlock; if f break else continue }                               *)
(*                      swap pending into the private list; unlock; write each line; clear }        *)
(*   clean_up  : lock; finished := TRUE; notify; unlock; join the background thread                 *)
(* Environment assumption (as in the property): clean_up is called after every send has returned.  *)
(* Checked in every interleaving: each line is written exactly once, per-producer order is kept,   *)
(* nothing is written after clean_up returns and everything accepted has been written by then;     *)
(* no deadlock; (FairSpec) clean_up returns.                                                        *)
EXTENDS Naturals, Sequences, FiniteSets

CONSTANTS Prod,      \* producers
          NLines     \* lines per producer

VARIABLES ppc,       \* [Prod -> "send" | "done"],
          sent,      \* [Prod -> 0..NLines] lines already pushed
          pending,   \* Seq(<<producer, n>>)
          mtx, waiting, finished,
          bpc, batch, bi,
          written,   \* Seq(<<producer, n>>)  what the writer received, in order
          cpc, closed

vars == <<ppc, sent, pending, mtx, waiting, finished, bpc, batch, bi, written, cpc, closed>>

Init == /\ ppc = [p \in Prod |-> "send"] /\ sent = [p \in Prod |-> 0] /\ pending = <<>>
        /\ mtx = "free" /\ waiting = FALSE /\ finished = FALSE
        /\ bpc = "lock" /\ batch = <<>> /\ bi = 1 /\ written = <<>> /\ cpc = "idle" /\ closed = FALSE

Notify == IF waiting THEN waiting' = FALSE /\ bpc' = "relock" ELSE UNCHANGED <<waiting, bpc>>

(* producer: the whole send is one critical section (lock; push; notify; unlock) *)
P_Send(p) ==
    /\ ppc[p] = "send" /\ mtx = "free"
    /\ pending' = Append(pending, <<p, sent[p] + 1>>) /\ sent' = [sent EXCEPT ![p] = @ + 1]
    /\ ppc' = [ppc EXCEPT ![p] = IF sent[p] + 1 = NLines THEN "done" ELSE "send"]
    /\ Notify
    /\ UNCHANGED <<mtx, finished, batch, bi, written, cpc, closed>>

(* background thread *)
B_Lock == /\ bpc \in {"lock", "relock"} /\ mtx = "free" /\ mtx' = "bg" /\ bpc' = "pred"
          /\ UNCHANGED <<ppc, sent, pending, waiting, finished, batch, bi, written, cpc, closed>>
B_Pred == /\ bpc = "pred"
          /\ IF finished \/ pending # <<>>
             THEN IF pending = <<>>
                  THEN mtx' = "free" /\ bpc' = (IF finished THEN "exit" ELSE "lock") /\ UNCHANGED <<waiting, batch, pending, bi>>
                  ELSE batch' = pending /\ pending' = <<>> /\ bi' = 1 /\ mtx' = "free" /\ bpc' = "write" /\ UNCHANGED waiting
             ELSE mtx' = "free" /\ waiting' = TRUE /\ bpc' = "wait" /\ UNCHANGED <<batch, pending, bi>>
          /\ UNCHANGED <<ppc, sent, finished, written, cpc, closed>>
B_Write == /\ bpc = "write"
           /\ IF bi <= Len(batch)
              THEN written' = Append(written, batch[bi]) /\ bi' = bi + 1 /\ UNCHANGED <<bpc, batch>>
              ELSE batch' = <<>> /\ bpc' = "lock" /\ UNCHANGED <<written, bi>>
           /\ UNCHANGED <<ppc, sent, pending, mtx, waiting, finished, cpc, closed>>
B_Exit == /\ bpc = "exit" /\ bpc' = "gone"
          /\ UNCHANGED <<ppc, sent, pending, mtx, waiting, finished, batch, bi, written, cpc, closed>>

(* clean up: only after every producer is done *)
C_Finish == /\ cpc = "idle" /\ (\A p \in Prod : ppc[p] = "done") /\ mtx = "free"
            /\ finished' = TRUE /\ Notify /\ cpc' = "join"
            /\ UNCHANGED <<ppc, sent, pending, mtx, batch, bi, written, closed>>
C_Join == /\ cpc = "join" /\ bpc = "gone" /\ cpc' = "done" /\ closed' = TRUE
          /\ UNCHANGED <<ppc, sent, pending, mtx, waiting, finished, bpc, batch, bi, written>>
Done == closed /\ UNCHANGED vars

BNext == B_Lock \/ B_Pred \/ B_Write \/ B_Exit
CNext == C_Finish \/ C_Join
Next == (\E p \in Prod : P_Send(p)) \/ BNext \/ CNext \/ Done
Spec == Init /\ [][Next]_vars
FairSpec == Spec /\ SF_vars(BNext) /\ SF_vars(CNext) /\ \A p \in Prod : SF_vars(P_Send(p))

-----------------------------------------------------------------------------
Range(s) == {s[i] : i \in 1 .. Len(s)}
NoDuplicates == \A i, j \in 1 .. Len(written) : i # j => written[i] # written[j]
OnlySent == \A i \in 1 .. Len(written) : written[i][2] <= sent[written[i][1]]
PerProducerOrder == \A i, j \in 1 .. Len(written) :
                        (i < j /\ written[i][1] = written[j][1]) => written[i][2] < written[j][2]
FlushedAtClose == closed => (Len(written) = Cardinality(Prod) * NLines /\ pending = <<>> /\ batch = <<>>)
NothingAfterClose == [][closed => written' = written]_vars
CleanUpReturns == <>closed
=============================================================================
