SPECIFICATION Spec
CONSTANTS Prod = {"p1", "p2"}
  NLines = 2
INVARIANTS NoDuplicates OnlySent PerProducerOrder FlushedAtClose
PROPERTY NothingAfterClose
