------------------------------ MODULE LogTrace ------------------------------
EXTENDS LogAbs, TraceCommon
VARIABLES l
Ev == TraceLog[l]

TReset == Ev.e = "Reset" /\ Setup("bg", 0)
TSetup == Ev.e = "Setup" /\ Ev.rc = 0 /\ Setup(Ev.mode, Ev.filter)
TLogBegin == Ev.e = "LogBegin" /\ LogBegin(Ev.k, Ev.seq, Ev.level, Ev.plen, Ev.sl, Ev.on)
TLogEnd == Ev.e = "LogEnd" /\ LogEnd(Ev.k, Ev.seq)
TWrite == Ev.e = "Write" /\ Write(Ev)
TSetLevel == Ev.e = "SetLevel" /\ SetLevel(Ev.level, Ev.rc)
TCleanUpBegin == Ev.e = "CleanUpBegin" /\ UNCHANGED lvars
TCleanUpRet == Ev.e = "CleanUpRet" /\ CleanUpRet
(* direct formatter call: an error return is only acceptable for buffers too small to hold the prefix *)
TFmt == /\ Ev.e = "Fmt"
        /\ IF Ev.rc # 0 THEN Ev.total < 120 + Ev.sl
           ELSE Ev.written = Ev.len /\ FixedBufferLine(Ev, Ev.total, Ev.level, Ev.plen, Ev.sl)
        /\ UNCHANGED lvars
(* the no-alloc logger formats into a fixed 8192-byte buffer *)
TNoAlloc == /\ Ev.e = "NoAlloc"
            /\ IF Ev.level > Ev.filter THEN Ev.len = 0
               ELSE FixedBufferLine(Ev, 8192, Ev.level, Ev.plen, Ev.sl)
            /\ UNCHANGED lvars
(* two no-alloc loggers in a row on the default destination (the process's stderr): one line from each when the level is  *)
(* let through, none otherwise - and the destination is the process's own: still open for everybody else afterwards      *)
TNoAllocDefault == /\ Ev.e = "NoAllocDefault"
                   /\ Ev.lines = (IF Ev.level > Ev.filter THEN 0 ELSE 2) /\ Ev.alive = 1
                   /\ UNCHANGED lvars
(* level names: case-insensitive, the six levels and NONE; the name read back is the canonical upper-case one *)
LevelNames == <<"NONE", "FATAL", "ERROR", "WARN", "INFO", "DEBUG", "TRACE">>
TLevelStr == /\ Ev.e = "LevelStr"
             /\ IF Ev.upper \in {LevelNames[i] : i \in 1..7}
                THEN Ev.rc = 0 /\ Ev.rc2 = 0 /\ LevelNames[Ev.level + 1] = Ev.upper /\ Ev.back = Ev.upper
                ELSE Ev.rc # 0
             /\ UNCHANGED lvars
(* no logger installed: a log call is a no-op and the conditional getter finds nothing *)
TNoLogger == Ev.e = "NoLogger" /\ Ev.cond = 0 /\ Ev.leak = 0 /\ UNCHANGED lvars
TEnd == Ev.e = "End" /\ Ev.live = 0 /\ Ev.unjoined = 0 /\ (\A k \in Producers : pend[k] = <<>>) /\ UNCHANGED lvars

TNext == l <= TraceLen /\ l' = l + 1 /\
         (TReset \/ TSetup \/ TLogBegin \/ TLogEnd \/ TWrite \/ TSetLevel \/ TCleanUpBegin \/ TCleanUpRet \/ TFmt
            \/ TNoAlloc \/ TNoAllocDefault \/ TLevelStr \/ TNoLogger \/ TEnd)
TSpec == (l = 1 /\ LInit) /\ [][TNext]_<<lvars, l>>
=============================================================================
