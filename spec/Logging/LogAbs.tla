------------------------------- MODULE LogAbs -------------------------------
(* Property C14 over what a user of the logging pipeline can observe: log calls (begin / end),   *)
(* level changes, lines arriving at the writer, clean-up begin / end; plus the fixed-buffer       *)
(* formatter and the no-alloc logger (one event per call, describing the line produced).          *)
EXTENDS Naturals, Integers, Sequences, FiniteSets

CONSTANTS Producers        \* 0 = the main thread, 1.. = producer threads

VARIABLES mode,            \* "fg" | "bg"
          filter,          \* active level 0..6
          pend,            \* [Producers -> Seq([seq, level, plen])]  accepted, not yet at the writer
          inflight,        \* [Producers -> Nat]  seq of the call in progress (0 = none)
          thr,             \* [Producers -> Int]  the thread the producer logs from
          closed           \* clean-up has returned

lvars == <<mode, filter, pend, inflight, thr, closed>>

LInit == /\ mode = "bg" /\ filter = 0 /\ pend = [k \in Producers |-> <<>>] /\ inflight = [k \in Producers |-> 0]
         /\ thr = [k \in Producers |-> 0 - 1] /\ closed = FALSE

Setup(m, f) == /\ mode' = m /\ filter' = f /\ pend' = [k \in Producers |-> <<>>]
               /\ inflight' = [k \in Producers |-> 0] /\ thr' = [k \in Producers |-> 0 - 1] /\ closed' = FALSE

(* a call at or below the active level is accepted: exactly one line will reach the writer *)
LogBegin(k, seq, level, plen, sl, on) ==
    /\ ~closed /\ inflight[k] = 0 /\ level >= 1
    /\ inflight' = [inflight EXCEPT ![k] = seq] /\ thr' = [thr EXCEPT ![k] = on]
    /\ pend' = IF level <= filter THEN [pend EXCEPT ![k] = Append(@, [seq |-> seq, level |-> level, plen |-> plen, sl |-> sl])]
               ELSE pend
    /\ UNCHANGED <<mode, filter, closed>>

(* a well-formed line: prefix with the whole subject name, complete message, one trailing newline, no NUL *)
(* the timestamp of the prefix, as text, has the shape of the date format the logger (or the direct formatter call) was  *)
(* configured with: ISO 8601 "2026-09-27T14:18:33Z" or RFC 822 "Sun, 27 Sep 2026 14:18:33 GMT" (which instant it shows *)
(* is the business of C19; that it is the right format for THIS logger is part of a well-formed line)               *)
Dig(c) == c >= 48 /\ c <= 57
Let(c) == (c >= 65 /\ c <= 90) \/ (c >= 97 /\ c <= 122)
TsShape(ts, f) ==
    IF f = "rfc"
    THEN /\ Len(ts) = 29
         /\ \A i \in {1, 2, 3, 9, 10, 11} : Let(ts[i])
         /\ \A i \in {6, 7, 13, 14, 15, 16, 18, 19, 21, 22, 24, 25} : Dig(ts[i])
         /\ ts[4] = 44 /\ \A i \in {5, 8, 12, 17, 26} : ts[i] = 32
         /\ ts[20] = 58 /\ ts[23] = 58 /\ ts[27] = 71 /\ ts[28] = 77 /\ ts[29] = 84
    ELSE /\ Len(ts) = 20
         /\ \A i \in {1, 2, 3, 4, 6, 7, 9, 10, 12, 13, 15, 16, 18, 19} : Dig(ts[i])
         /\ ts[5] = 45 /\ ts[8] = 45 /\ ts[11] = 84 /\ ts[14] = 58 /\ ts[17] = 58 /\ ts[20] = 90

WellFormed(ev, level, plen, sl) ==
    /\ ev.prefix = 1 /\ ev.lvl = level /\ ev.complete = 1 /\ ev.paylen = plen /\ ev.slen = sl
    /\ ev.nl = 1 /\ ev.endsnl = 1 /\ ev.nul = 0
    /\ TsShape(ev.ts, ev.dfmt)

(* the writer receives a line: it is the oldest undelivered accepted line of its producer *)
Write(ev) ==
    /\ ~closed /\ ev.afterclose = 0
    /\ ev.k \in Producers /\ pend[ev.k] # <<>>
    /\ LET h == Head(pend[ev.k]) IN h.seq = ev.seq /\ WellFormed(ev, h.level, h.plen, h.sl)
    /\ mode = "fg" => (inflight[ev.k] = ev.seq /\ ev.on = thr[ev.k])    \* synchronous, on the caller's thread
    /\ pend' = [pend EXCEPT ![ev.k] = Tail(@)]
    /\ UNCHANGED <<mode, filter, inflight, thr, closed>>

LogEnd(k, seq) ==
    /\ inflight[k] = seq /\ inflight' = [inflight EXCEPT ![k] = 0]
    /\ mode = "fg" => pend[k] = <<>>                                       \* foreground: written before the call returns
    /\ UNCHANGED <<mode, filter, pend, thr, closed>>

(* a level change applies to all later calls (scenarios change the level only while no call is in progress) *)
SetLevel(level, rc) ==
    /\ rc = 0 /\ \A k \in Producers : inflight[k] = 0
    /\ filter' = level /\ UNCHANGED <<mode, pend, inflight, thr, closed>>

(* clean-up flushes everything already accepted; nothing is written afterwards *)
CleanUpRet ==
    /\ \A k \in Producers : pend[k] = <<>> /\ inflight[k] = 0
    /\ closed' = TRUE /\ UNCHANGED <<mode, filter, pend, inflight, thr>>

(* fixed-size line buffer: the line may be cut but stays inside the buffer and is newline-terminated *)
FixedBufferLine(ev, total, level, plen, sl) ==
    /\ ev.len <= total
    /\ ev.endsnl = 1 /\ ev.nl = 1 /\ ev.nul = 0
    /\ (ev.lvl = level \/ (ev.complete = 0 /\ ev.len < 12))     \* a line cut inside the level tag shows no level
    /\ IF ev.complete = 1 THEN ev.paylen = plen /\ ev.prefix = 1 /\ ev.slen = sl /\ TsShape(ev.ts, ev.dfmt)
       ELSE ev.len >= total - 1                                             \* cut only because the buffer is full
=============================================================================
