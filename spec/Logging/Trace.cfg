SPECIFICATION TSpec
CONSTANTS Producers = {0, 1, 2, 3, 9}
POSTCONDITION TraceAccepted
CHECK_DEADLOCK FALSE
