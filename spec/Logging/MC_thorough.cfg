SPECIFICATION Spec
CONSTANTS Prod = {"p1", "p2", "p3"}
  NLines = 3
INVARIANTS NoDuplicates OnlySent PerProducerOrder FlushedAtClose
PROPERTY NothingAfterClose
