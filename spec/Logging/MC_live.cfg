SPECIFICATION FairSpec
CONSTANTS Prod = {"p1", "p2"}
  NLines = 2
PROPERTY CleanUpReturns
