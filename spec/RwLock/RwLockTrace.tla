---------------------------- MODULE RwLockTrace ----------------------------
(* Trace validation for X10: one recorded event of harness/rwlock_scenario.c per step, checked against RwLock.tla. *)
EXTENDS RwLock, TraceCommon
VARIABLES l
Ev == TraceLog[l]

TReset == /\ Ev.e = "Reset"
          /\ wr' = Free /\ rd' = {} /\ wwait' = {} /\ val' = 0
          /\ wv' = [k \in Thr |-> Free] /\ rv' = [k \in Thr |-> Free] /\ met' = [k \in Thr |-> 0] /\ arr' = {}
          /\ live' = FALSE /\ ended' = {}
TSetup == Ev.e = "Setup" /\ Setup(Ev.rc)
TLaunch == Ev.e = "Launch" /\ Ev.rc = 0 /\ UNCHANGED rvars
TThreadEnd == Ev.e = "ThreadEnd" /\ ThreadEnd(Ev.k)
TJoinRet == Ev.e = "JoinRet" /\ JoinRet(Ev.k, Ev.thr, Ev.rc)
TWLockBegin == Ev.e = "WLockBegin" /\ WLockBegin(Ev.k)
TWLockRet == Ev.e = "WLockRet" /\ WLockRet(Ev.k, Ev.rc)
TRLockRet == Ev.e = "RLockRet" /\ RLockRet(Ev.k, Ev.rc)
TTryR == Ev.e = "TryR" /\ TryR(Ev.k, Ev.rc, Ev.err)
TTryW == Ev.e = "TryW" /\ TryW(Ev.k, Ev.rc, Ev.err)
TRUnlock == Ev.e = "RUnlock" /\ RUnlock(Ev.k, Ev.rc)
TWUnlock == Ev.e = "WUnlock" /\ WUnlock(Ev.k, Ev.rc)
TWriteEnter == Ev.e = "WriteEnter" /\ WriteEnter(Ev.k, Ev.v)
TWriteLeave == Ev.e = "WriteLeave" /\ WriteLeave(Ev.k, Ev.v)
TReadFirst == Ev.e = "ReadFirst" /\ ReadFirst(Ev.k, Ev.v)
TReadSecond == Ev.e = "ReadSecond" /\ ReadSecond(Ev.k, Ev.v)
TArrive == Ev.e = "Arrive" /\ Arrive(Ev.k, Ev.b)
TDepart == Ev.e = "Depart" /\ Depart(Ev.k, Ev.b)
TCleanUp == Ev.e = "CleanUp" /\ CleanUp
TEnd == Ev.e = "End" /\ EndOk(Ev.live, Ev.unjoined, Ev.anomalies)

TNext == l <= TraceLen /\ l' = l + 1 /\
         (TReset \/ TSetup \/ TLaunch \/ TThreadEnd \/ TJoinRet \/ TWLockBegin \/ TWLockRet \/ TRLockRet \/ TTryR \/ TTryW
            \/ TRUnlock \/ TWUnlock \/ TWriteEnter \/ TWriteLeave \/ TReadFirst \/ TReadSecond \/ TArrive \/ TDepart
            \/ TCleanUp \/ TEnd)
TSpec == (l = 1 /\ RInit) /\ [][TNext]_<<rvars, l>>
=============================================================================
