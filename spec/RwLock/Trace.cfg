SPECIFICATION TSpec
CONSTANTS
  Thr = {0, 1, 2, 3, 4, 5, 6}
  StrictErr = TRUE
INVARIANTS Exclusion NoTornRead
POSTCONDITION TraceAccepted
CHECK_DEADLOCK FALSE
