SPECIFICATION Spec
CONSTANTS
  Thr = {1, 2, 3}
  StrictErr = TRUE
  Bug = "none"
  ProgSet <- ProgsQuick
INVARIANTS NotBad AbsInv HolderAgrees NoLostUpdate
