SPECIFICATION Spec
CONSTANTS
  Thr = {1, 2, 3}
  StrictErr = TRUE
  Bug = "tryr_is_tryw"
  ProgSet <- ProgsTry
INVARIANTS NotBad
