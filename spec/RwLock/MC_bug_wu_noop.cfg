SPECIFICATION Spec
CONSTANTS
  Thr = {1, 2, 3}
  StrictErr = TRUE
  Bug = "wu_noop"
  ProgSet <- ProgsMix
INVARIANTS NotBad
