SPECIFICATION FairSpec
CONSTANTS
  Thr = {1, 2, 3}
  StrictErr = TRUE
  Bug = "none"
  ProgSet <- ProgsQuick
PROPERTY Termination
