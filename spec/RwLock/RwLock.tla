------------------------------- MODULE RwLock -------------------------------
(* Extra X10: what users of aws_rw_lock (include/aws/common/rw_lock.h) can observe.                    *)
(* One readers-writer lock, a protected value that writers change in two steps inside their critical  *)
(* section and readers read twice inside theirs, and meeting points ("rendezvous") that two threads    *)
(* can only pass together - used to show that read locks are really shared.                            *)
(* Every action is one observed event of one thread: a relation between the state before, the logged   *)
(* arguments / results and the state after.                                                           *)
(* The contract: wlock returns only while no other thread holds the lock in either mode; rlock returns *)
(* only while no writer holds it; any number of readers may hold it together (a scenario in which two  *)
(* readers meet inside their critical sections must complete); try_rlock / try_wlock never block: they *)
(* succeed under exactly those conditions and otherwise fail; the unlock functions release what the    *)
(* caller holds.  Left open: the order in which blocked threads get the lock, writer or reader         *)
(* preference (a try_rlock may therefore also fail while a writer is blocked waiting), the error code  *)
(* of a failed try beyond "the call reports failure" - rw_lock.h names none; ErrBusy is what the POSIX *)
(* implementation raises for EBUSY and is only demanded when StrictErr is set (the check does set it:  *)
(* callers in the wild compare against it; a change there is a behaviour change worth a report in the  *)
(* evidence, see checks/x10.py).                                                                       *)
EXTENDS Naturals, FiniteSets

CONSTANTS Thr,        \* thread ids (0 = the scenario's main thread)
          StrictErr   \* BOOLEAN: demand AWS_ERROR_MUTEX_TIMEOUT from a failed try

Free == 0 - 1
ErrBusy == "AWS_ERROR_MUTEX_TIMEOUT"

VARIABLES wr,       \* thread holding the lock for writing, or Free
          rd,       \* set of threads holding it for reading
          wwait,    \* threads that have called wlock and not returned yet
          val,      \* the protected value
          wv,       \* [Thr -> value a writer read at WriteEnter | Free]
          rv,       \* [Thr -> value a reader saw at its first read | Free]
          met,      \* [Thr -> rendezvous id the thread has arrived at and not left | 0]
          arr,      \* set of <<thread, rendezvous id>>: arrivals so far
          live,     \* lock initialised and not cleaned up
          ended     \* threads whose function has returned
rvars == <<wr, rd, wwait, val, wv, rv, met, arr, live, ended>>

RInit == /\ wr = Free /\ rd = {} /\ wwait = {} /\ val = 0
         /\ wv = [k \in Thr |-> Free] /\ rv = [k \in Thr |-> Free] /\ met = [k \in Thr |-> 0] /\ arr = {} /\ live = FALSE /\ ended = {}

Holds(k) == wr = k \/ k \in rd

Setup(rc) == ~live /\ rc = 0 /\ live' = TRUE /\ UNCHANGED <<wr, rd, wwait, val, wv, rv, met, arr, ended>>

(* ---- blocking forms *)
WLockBegin(k) == live /\ k \in Thr /\ ~Holds(k) /\ k \notin wwait
                 /\ wwait' = wwait \cup {k} /\ UNCHANGED <<wr, rd, val, wv, rv, met, arr, live, ended>>
(* "Blocks until it acquires the lock": success, and only with nobody else inside *)
WLockRet(k, rc) == /\ live /\ k \in wwait /\ rc = 0 /\ wr = Free /\ rd = {}
                   /\ wr' = k /\ wwait' = wwait \ {k} /\ UNCHANGED <<rd, val, wv, rv, met, arr, live, ended>>
RLockRet(k, rc) == /\ live /\ k \in Thr /\ ~Holds(k) /\ rc = 0 /\ wr = Free
                   /\ rd' = rd \cup {k} /\ UNCHANGED <<wr, wwait, val, wv, rv, met, arr, live, ended>>

(* ---- "Attempts to acquire the lock but returns immediately if it can not" *)
TryW(k, rc, err) ==
    /\ live /\ k \in Thr /\ ~Holds(k)
    /\ IF rc = 0 THEN wr = Free /\ rd = {} /\ wr' = k
                 ELSE (wr # Free \/ rd # {}) /\ (StrictErr => err = ErrBusy) /\ wr' = wr
    /\ UNCHANGED <<rd, wwait, val, wv, rv, met, arr, live, ended>>
TryR(k, rc, err) ==
    /\ live /\ k \in Thr /\ ~Holds(k)
    /\ IF rc = 0 THEN wr = Free /\ rd' = rd \cup {k}
                 ELSE (wr # Free \/ wwait # {}) /\ (StrictErr => err = ErrBusy) /\ rd' = rd
    /\ UNCHANGED <<wr, wwait, val, wv, rv, met, arr, live, ended>>

(* ---- "Releases the lock" *)
WUnlock(k, rc) == /\ live /\ wr = k /\ rc = 0 /\ wv[k] = Free
                  /\ wr' = Free /\ UNCHANGED <<rd, wwait, val, wv, rv, met, arr, live, ended>>
RUnlock(k, rc) == /\ live /\ k \in rd /\ rc = 0 /\ rv[k] = Free
                  /\ rd' = rd \ {k} /\ UNCHANGED <<wr, wwait, val, wv, rv, met, arr, live, ended>>

(* ---- what the lock is for.  A writer reads the value, lets anybody run, writes value + 1: nobody else may have   *)
(* changed or seen the half-done update.  A reader reads twice with anybody running in between: same value.        *)
WriteEnter(k, v) == /\ wr = k /\ wv[k] = Free /\ v = val
                    /\ wv' = [wv EXCEPT ![k] = v] /\ UNCHANGED <<wr, rd, wwait, val, rv, met, arr, live, ended>>
WriteLeave(k, v) == /\ wr = k /\ wv[k] # Free /\ v = wv[k] + 1 /\ val = wv[k]
                    /\ val' = v /\ wv' = [wv EXCEPT ![k] = Free] /\ UNCHANGED <<wr, rd, wwait, rv, met, arr, live, ended>>
ReadFirst(k, v) == /\ k \in rd /\ rv[k] = Free /\ v = val /\ \A j \in Thr : wv[j] = Free
                   /\ rv' = [rv EXCEPT ![k] = v] /\ UNCHANGED <<wr, rd, wwait, val, wv, met, arr, live, ended>>
ReadSecond(k, v) == /\ k \in rd /\ rv[k] # Free /\ v = rv[k] /\ v = val
                    /\ rv' = [rv EXCEPT ![k] = Free] /\ UNCHANGED <<wr, rd, wwait, val, wv, met, arr, live, ended>>

(* ---- rendezvous b: a thread arrives, and leaves only when its partner has arrived too (the harness implements it  *)
(* with a mutex and a condition variable; the events are logged under that mutex).  Nothing to demand of the lock    *)
(* here - if read locks were exclusive the second reader could never arrive and the run would end in a deadlock.     *)
Arrive(k, b) == /\ k \in Thr /\ met[k] = 0 /\ b > 0
                /\ met' = [met EXCEPT ![k] = b] /\ arr' = arr \cup {<<k, b>>}
                /\ UNCHANGED <<wr, rd, wwait, val, wv, rv, live, ended>>
Depart(k, b) == /\ met[k] = b /\ \E j \in Thr \ {k} : <<j, b>> \in arr
                /\ met' = [met EXCEPT ![k] = 0] /\ UNCHANGED <<wr, rd, wwait, val, wv, rv, arr, live, ended>>

CleanUp == /\ live /\ wr = Free /\ rd = {} /\ wwait = {}
           /\ live' = FALSE /\ UNCHANGED <<wr, rd, wwait, val, wv, rv, met, arr, ended>>

(* ---- threads of the scenario *)
Quiet(k) == ~Holds(k) /\ k \notin wwait /\ met[k] = 0 /\ wv[k] = Free /\ rv[k] = Free
ThreadEnd(k) == k \in Thr /\ k \notin ended /\ Quiet(k) /\ ended' = ended \cup {k}
                /\ UNCHANGED <<wr, rd, wwait, val, wv, rv, met, arr, live>>
JoinRet(k, thr, rc) == rc = 0 /\ thr \in ended /\ UNCHANGED rvars
EndOk(lv, unjoined, anomalies) == ~live /\ lv = 0 /\ unjoined = 0 /\ anomalies = 0 /\ UNCHANGED rvars

(* ---- the property, as state invariants of every behaviour of these actions *)
Exclusion == (wr # Free => rd = {}) /\ (\A k \in Thr : wv[k] # Free => wr = k) /\ (\A k \in Thr : rv[k] # Free => k \in rd)
NoTornRead == \A k \in Thr : rv[k] # Free => rv[k] = val
=============================================================================
