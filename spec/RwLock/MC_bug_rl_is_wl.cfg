SPECIFICATION Spec
CONSTANTS
  Thr = {1, 2, 3}
  StrictErr = TRUE
  Bug = "rl_is_wl"
  ProgSet <- ProgsShared
INVARIANTS NotBad
