------------------------------ MODULE RwLockMC ------------------------------
(* Implementation-shaped model for X10: threads run small programs of aws_rw_lock calls; the library's wrappers  *)
(* (source/posix/rw_lock.c: each function is one pthread_rwlock_* call + errno translation) are transcribed over *)
(* a POSIX-level readers-writer lock: one writer or any number of readers; rdlock blocks while a writer holds it *)
(* (whether it also yields to blocked writers is left open: both are explored); wrlock blocks while anybody      *)
(* holds it; the try forms return EBUSY instead of blocking; unlock releases whatever the caller holds.          *)
(* Every observable step is handed to the contract RwLock.tla through Obs; `bad` is raised when the contract     *)
(* refuses it, so NotBad = "the transcribed wrappers refine the contract in every interleaving".  Deadlock        *)
(* freedom of the rendezvous programs is the "read locks are shared" clause.  Bug # "none" maps one wrapper to    *)
(* a plausible wrong pthread call; those configurations must be refuted (NotBad violated or deadlock).            *)
EXTENDS RwLock, Sequences, TLC

CONSTANTS ProgSet,   \* set of program assignments [Thr -> Seq(op)]
          Bug        \* "none" | "rl_is_wl" | "wl_is_rl" | "tryw_is_tryr" | "tryr_is_tryw" | "wu_noop"

VARIABLES prog, pc, ip, pw, pr, mem, tmp, gate, bad
ivars == <<prog, pc, ip, pw, pr, mem, tmp, gate, bad>>
vars == <<wr, rd, wwait, val, wv, rv, met, arr, live, ended, prog, pc, ip, pw, pr, mem, tmp, gate, bad>>

EBUSY == 16
MutexErr(e) == IF e = EBUSY THEN "AWS_ERROR_MUTEX_TIMEOUT" ELSE "AWS_ERROR_MUTEX_FAILED"
Obs(A) == IF ENABLED A THEN A /\ bad' = bad ELSE bad' = TRUE /\ UNCHANGED rvars

Running(t) == ip[t] <= Len(prog[t])
Op(t) == prog[t][ip[t]]
At(t, name, p) == Running(t) /\ Op(t)[1] = name /\ pc[t] = p
Adv(t) == ip' = [ip EXCEPT ![t] = @ + 1]
Goto(t, s) == pc' = [pc EXCEPT ![t] = s]

Init == /\ RInit /\ prog \in ProgSet
        /\ pc = [t \in Thr |-> "run"] /\ ip = [t \in Thr |-> 1]
        /\ pw = Free /\ pr = {} /\ mem = 0 /\ tmp = [t \in Thr |-> 0] /\ gate = {} /\ bad = FALSE

ISetup == /\ ~live /\ ~bad /\ Obs(Setup(0)) /\ UNCHANGED <<prog, pc, ip, pw, pr, mem, tmp, gate>>

(* POSIX level *)
CanRead == pw = Free
CanWrite == pw = Free /\ pr = {}
TakeRead(t) == pr' = pr \cup {t} /\ pw' = pw
TakeWrite(t) == pw' = t /\ pr' = pr
PosixUnlock(t) == IF pw = t THEN pw' = Free /\ pr' = pr ELSE pw' = pw /\ pr' = pr \ {t}

IWLockBegin(t) == /\ live /\ At(t, "wl", "run") /\ Goto(t, "wlw") /\ Obs(WLockBegin(t))
                  /\ UNCHANGED <<prog, ip, pw, pr, mem, tmp, gate>>
IWLockRet(t) == /\ At(t, "wl", "wlw")
                /\ IF Bug = "wl_is_rl" THEN CanRead /\ TakeRead(t) ELSE CanWrite /\ TakeWrite(t)
                /\ Goto(t, "run") /\ Adv(t) /\ Obs(WLockRet(t, 0))
                /\ UNCHANGED <<prog, mem, tmp, gate>>
IRLock(t) == /\ live /\ At(t, "rl", "run")
             /\ IF Bug = "rl_is_wl" THEN CanWrite /\ TakeWrite(t) ELSE CanRead /\ TakeRead(t)
             /\ Adv(t) /\ Obs(RLockRet(t, 0))
             /\ UNCHANGED <<prog, pc, mem, tmp, gate>>
(* glibc may refuse a try-read while writers are queued: explored as a second outcome *)
ITryR(t) == /\ live /\ At(t, "tr", "run") /\ Adv(t)
            /\ LET ok == IF Bug = "tryr_is_tryw" THEN CanWrite ELSE CanRead IN
               \/ ok /\ (IF Bug = "tryr_is_tryw" THEN TakeWrite(t) ELSE TakeRead(t)) /\ Obs(TryR(t, 0, ""))
               \/ (~ok \/ \E w \in Thr : pc[w] = "wlw") /\ UNCHANGED <<pw, pr>> /\ Obs(TryR(t, 1, MutexErr(EBUSY)))
            /\ UNCHANGED <<prog, pc, mem, tmp, gate>>
ITryW(t) == /\ live /\ At(t, "tw", "run") /\ Adv(t)
            /\ LET ok == IF Bug = "tryw_is_tryr" THEN CanRead ELSE CanWrite IN
               IF ok THEN (IF Bug = "tryw_is_tryr" THEN TakeRead(t) ELSE TakeWrite(t)) /\ Obs(TryW(t, 0, ""))
                     ELSE UNCHANGED <<pw, pr>> /\ Obs(TryW(t, 1, MutexErr(EBUSY)))
            /\ UNCHANGED <<prog, pc, mem, tmp, gate>>
IRUnlock(t) == /\ At(t, "ru", "run") /\ Adv(t) /\ PosixUnlock(t) /\ Obs(RUnlock(t, 0))
               /\ UNCHANGED <<prog, pc, mem, tmp, gate>>
IWUnlock(t) == /\ At(t, "wu", "run") /\ Adv(t)
               /\ (IF Bug = "wu_noop" THEN UNCHANGED <<pw, pr>> ELSE PosixUnlock(t)) /\ Obs(WUnlock(t, 0))
               /\ UNCHANGED <<prog, pc, mem, tmp, gate>>
(* critical sections on plain memory *)
IWriteEnter(t) == /\ At(t, "w", "run") /\ tmp' = [tmp EXCEPT ![t] = mem] /\ Goto(t, "w2") /\ Obs(WriteEnter(t, mem))
                  /\ UNCHANGED <<prog, ip, pw, pr, mem, gate>>
IWriteLeave(t) == /\ At(t, "w", "w2") /\ mem' = tmp[t] + 1 /\ Goto(t, "run") /\ Adv(t) /\ Obs(WriteLeave(t, tmp[t] + 1))
                  /\ UNCHANGED <<prog, pw, pr, tmp, gate>>
IReadFirst(t) == /\ At(t, "r", "run") /\ Goto(t, "r2") /\ Obs(ReadFirst(t, mem))
                 /\ UNCHANGED <<prog, ip, pw, pr, mem, tmp, gate>>
IReadSecond(t) == /\ At(t, "r", "r2") /\ Goto(t, "run") /\ Adv(t) /\ Obs(ReadSecond(t, mem))
                  /\ UNCHANGED <<prog, pw, pr, mem, tmp, gate>>
(* rendezvous *)
IArrive(t) == /\ At(t, "m", "run") /\ gate' = gate \cup {<<t, Op(t)[2]>>} /\ Goto(t, "m2") /\ Obs(Arrive(t, Op(t)[2]))
              /\ UNCHANGED <<prog, ip, pw, pr, mem, tmp>>
IDepart(t) == /\ At(t, "m", "m2") /\ \E j \in Thr \ {t} : <<j, Op(t)[2]>> \in gate
              /\ Goto(t, "run") /\ Adv(t) /\ Obs(Depart(t, Op(t)[2]))
              /\ UNCHANGED <<prog, pw, pr, mem, tmp, gate>>

AllDone == \A t \in Thr : ~Running(t)
IDone == AllDone /\ UNCHANGED vars

WLockBeginStep == \E t \in Thr : IWLockBegin(t)
WLockRetStep == \E t \in Thr : IWLockRet(t)
RLockStep == \E t \in Thr : IRLock(t)
TryRStep == \E t \in Thr : ITryR(t)
TryWStep == \E t \in Thr : ITryW(t)
RUnlockStep == \E t \in Thr : IRUnlock(t)
WUnlockStep == \E t \in Thr : IWUnlock(t)
WriteEnterStep == \E t \in Thr : IWriteEnter(t)
WriteLeaveStep == \E t \in Thr : IWriteLeave(t)
ReadFirstStep == \E t \in Thr : IReadFirst(t)
ReadSecondStep == \E t \in Thr : IReadSecond(t)
ArriveStep == \E t \in Thr : IArrive(t)
DepartStep == \E t \in Thr : IDepart(t)

Next == ISetup \/ WLockBeginStep \/ WLockRetStep \/ RLockStep \/ TryRStep \/ TryWStep \/ RUnlockStep \/ WUnlockStep
        \/ WriteEnterStep \/ WriteLeaveStep \/ ReadFirstStep \/ ReadSecondStep \/ ArriveStep \/ DepartStep \/ IDone
Spec == Init /\ [][Next]_vars
ThreadStep(t) == IWLockBegin(t) \/ IWLockRet(t) \/ IRLock(t) \/ ITryR(t) \/ ITryW(t) \/ IRUnlock(t) \/ IWUnlock(t)
                 \/ IWriteEnter(t) \/ IWriteLeave(t) \/ IReadFirst(t) \/ IReadSecond(t) \/ IArrive(t) \/ IDepart(t)
FairSpec == Spec /\ WF_vars(ISetup) /\ \A t \in Thr : SF_vars(ThreadStep(t))

(* ---- what is checked *)
NotBad == ~bad
AbsInv == ~bad => (Exclusion /\ NoTornRead)
HolderAgrees == ~bad => (wr = pw /\ rd = pr)                  \* what the contract believes is what POSIX holds
NoLostUpdate == (~bad /\ \A t \in Thr : wv[t] = Free) => val = mem
Termination == <>[]AllDone

(* ---- programs *)
Rd == <<<<"rl">>, <<"r">>, <<"ru">>>>
Wrt == <<<<"wl">>, <<"w">>, <<"wu">>>>
TryRd == <<<<"tr">>>>            \* the harness unlocks after a successful try: modelled as separate programs below
RdMeet(b) == <<<<"rl">>, <<"m", b>>, <<"r">>, <<"ru">>>>
P(a, b, c) == [t \in Thr |-> IF t = 1 THEN a ELSE IF t = 2 THEN b ELSE c]
ProgMix == P(Rd \o Wrt, Wrt \o Rd, Rd)
ProgWriters == P(Wrt, Wrt, Rd \o Rd)
ProgShared == P(RdMeet(1), RdMeet(1), Wrt)                    \* two readers meet inside; needs shared read locks
ProgTryHeldR == P(<<<<"rl">>, <<"m", 1>>, <<"m", 2>>, <<"ru">>>>, <<<<"m", 1>>, <<"tw">>, <<"tr">>, <<"ru">>, <<"m", 2>>>>, <<>>)
ProgTryHeldW == P(<<<<"wl">>, <<"m", 1>>, <<"m", 2>>, <<"wu">>>>, <<<<"m", 1>>, <<"tw">>, <<"tr">>, <<"m", 2>>>>, <<>>)
ProgTryFree == P(<<<<"tw">>, <<"w">>, <<"wu">>>>, <<<<"tr">>, <<"r">>, <<"ru">>>>, <<>>)
ProgsQuick == {ProgMix, ProgWriters, ProgShared, ProgTryHeldR, ProgTryHeldW}
ProgsShared == {ProgShared}
ProgsTry == {ProgTryHeldR, ProgTryHeldW}
ProgsMix == {ProgMix, ProgWriters}
=============================================================================
