SPECIFICATION Spec
CONSTANTS
  Thr = {1, 2, 3}
  StrictErr = TRUE
  Bug = "wl_is_rl"
  ProgSet <- ProgsMix
INVARIANTS NotBad
