SPECIFICATION Spec
CONSTANTS
  Thr = {1, 2, 3}
  StrictErr = TRUE
  Bug = "tryw_is_tryr"
  ProgSet <- ProgsTry
INVARIANTS NotBad
