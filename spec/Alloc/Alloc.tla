-------------------------------- MODULE Alloc --------------------------------
(* The allocator front-end of aws-c-common (include/aws/common/allocator.h, source/allocator.c) as  *)
(* its header documents it: aws_mem_acquire / aws_mem_calloc / aws_mem_acquire_many /               *)
(* aws_mem_release / aws_mem_realloc over ANY struct aws_allocator (mem_realloc and mem_calloc are  *)
(* optional callbacks: the front-end must emulate them), plus aws_allocator_is_valid and the        *)
(* documented alignment of aws_aligned_allocator.                                                   *)
(*                                                                                                  *)
(* Abstract state: a set of live blocks held in numbered slots (never addresses). A block knows     *)
(* the allocator flavour it came from, the size(s) the caller asked for (one size, or the list of   *)
(* region sizes of an acquire_many block), and what the caller wrote into it: a content pattern     *)
(* `tag` (tag 0 = all bytes zero) of which the first `good` bytes are known to be in place.         *)
(* Each action is a relation between pre-state, arguments, the results the call reported (record    *)
(* r: only facts the adapter measured - NULL-ness, address residues, offsets between returned       *)
(* pointers, how many leading bytes still carry the pattern, what the allocator callbacks were      *)
(* handed) and the post-state. Whatever the header leaves open stays open: growth, exact            *)
(* underlying size beyond ">= size", whether mem_realloc is used when present, contents of bytes    *)
(* beyond min(old,new), alignment of the default allocator.                                         *)
EXTENDS Naturals, Integers, FiniteSets, Sequences

CONSTANTS Slots,        \* slot numbers the scripts use
          PtrSize,      \* size of a pointer on the platform the trace was recorded on
          PageSize,     \* boundary between "small" and "big" for the aligned allocator (allocator.c: 4 KiB)
          ManyAlign     \* sizeof(intmax_t): documented alignment of acquire_many regions

Owned == {"rc", "r", "c", "n"}     \* adapter-owned allocators: with mem_realloc+mem_calloc, only realloc, only calloc, neither
OwnedSeq == <<"rc", "r", "c", "n">>
Lib == {"def", "aln"}              \* aws_default_allocator, aws_aligned_allocator
Flavours == Owned \cup Lib
Broken == {"null", "noacq", "norel"}   \* NULL, no mem_acquire, no mem_release: what aws_allocator_is_valid must refuse

VARIABLES live,         \* set of slots that hold a block
          blk           \* [Slots -> block record]
avars == <<live, blk>>

NoBlk == [fl |-> "", many |-> FALSE, sizes |-> <<>>, tag |-> 0, good |-> 0]
Min(a, b) == IF a < b THEN a ELSE b
RECURSIVE SeqSum(_)
SeqSum(q) == IF q = <<>> THEN 0 ELSE Head(q) + SeqSum(Tail(q))
Total(b) == SeqSum(b.sizes)
Plain(b) == ~b.many                \* a one-region acquire_many block is still an acquire_many block

AInit == live = {} /\ blk = [s \in Slots |-> NoBlk]

(* allocator.h: "aligned: ... aligns small allocations on 8 byte boundary and big buffers on 32/64   *)
(* byte (system dependent) boundary"; allocator.c resolves the dependency: 8 * sizeof(void * ) for    *)
(* allocations larger than a page. Nothing is documented for the other allocators.                  *)
BigResidue(r) == IF PtrSize = 8 THEN r.m64 ELSE r.m32
AlignOK(f, total, r) == f = "aln" => /\ r.m16 % 8 = 0
                                     /\ total > PageSize => BigResidue(r) = 0

(* "Returns at least `size` of memory ready for usage" and never NULL (OOM is fatal). The adapter    *)
(* writes all `size` bytes afterwards (an exact-size underlying block makes ASan see any shortfall); *)
(* for the adapter-owned allocators the underlying block size is reported too.                      *)
Usable(f, n, r) == /\ r.nonnull = 1
                   /\ f \in Owned => r.usz >= n

Acquire(s, f, n, tag, r) ==
    /\ s \in Slots \ live /\ f \in Flavours /\ n > 0 /\ tag > 0
    /\ Usable(f, n, r)
    /\ AlignOK(f, n, r)
    /\ live' = live \cup {s}
    /\ blk' = [blk EXCEPT ![s] = [fl |-> f, many |-> FALSE, sizes |-> <<n>>, tag |-> tag, good |-> n]]

(* calloc: num*size bytes, all zero - also when the allocator has no mem_calloc (the front-end must  *)
(* zero what mem_acquire returned). When the callback is used it must be asked for the same amount.  *)
(* fill = 1: the adapter then overwrote the block with pattern `tag`; fill = 0: it stays zero.       *)
Calloc(s, f, num, size, fill, tag, r) ==
    /\ s \in Slots \ live /\ f \in Flavours /\ num > 0 /\ size > 0
    /\ Usable(f, num * size, r)
    /\ r.nz = 0                                         \* number of non-zero bytes found
    /\ r.ncal > 0 => r.cbn * r.cbs = num * size
    /\ AlignOK(f, num * size, r)
    /\ IF fill = 1 THEN tag > 0 ELSE tag = 0
    /\ live' = live \cup {s}
    /\ blk' = [blk EXCEPT ![s] = [fl |-> f, many |-> FALSE, sizes |-> <<num * size>>, tag |-> tag, good |-> num * size]]

(* num*size does not fit size_t (num = 2^a + c, size = 2^b + d, a + b >= bits of size_t): the call   *)
(* must not hand out a block; the documented way to fail is "assert and exit".                      *)
CallocOverflow(f, a, b, outcome) ==
    /\ f \in Flavours /\ a + b >= 8 * PtrSize
    /\ outcome \in {"abort", "exit"}
    /\ UNCHANGED avars

(* acquire_many: "Allocates many chunks of bytes into a single block ... The first void ** will be   *)
(* set to the root of the allocation. Alignment is assumed to be sizeof(intmax_t) ... Returns a      *)
(* pointer to the allocation."  offs[i] = i-th returned pointer minus the first one; m16 = address   *)
(* of the first one mod 16; retoff = returned pointer minus the first one.                           *)
NoOverlap(sizes, offs) == \A i \in 1..Len(sizes) : \A j \in 1..Len(sizes) :
                              i < j => (offs[i] + sizes[i] <= offs[j] \/ offs[j] + sizes[j] <= offs[i])
LayoutOK(f, sizes, offs, r) ==
    /\ Len(offs) = Len(sizes)
    /\ offs[1] = 0 /\ r.retoff = 0
    /\ \A i \in 1..Len(sizes) : /\ offs[i] >= 0
                                /\ (r.m16 + offs[i]) % ManyAlign = 0
                                /\ f \in Owned => offs[i] + sizes[i] <= r.usz
    /\ NoOverlap(sizes, offs)

Many(s, f, sizes, tag, offs, r) ==
    /\ s \in Slots \ live /\ f \in Flavours /\ tag > 0
    /\ Len(sizes) >= 1 /\ \A i \in 1..Len(sizes) : sizes[i] > 0
    /\ r.nonnull = 1
    /\ LayoutOK(f, sizes, offs, r)
    /\ r.pat = 1                                        \* every region still holds what was written into it
    /\ AlignOK(f, SeqSum(sizes), r)
    /\ live' = live \cup {s}
    /\ blk' = [blk EXCEPT ![s] = [fl |-> f, many |-> TRUE, sizes |-> sizes, tag |-> tag, good |-> 0]]

(* release of a live block (an acquire_many block through its root pointer); before the call the    *)
(* adapter re-reads the block: kept = leading bytes that carry the pattern, pat = all regions intact *)
Release(s, r) ==
    /\ s \in live
    /\ IF Plain(blk[s]) THEN r.kept >= blk[s].good ELSE r.pat = 1
    /\ live' = live \ {s}
    /\ blk' = [blk EXCEPT ![s] = NoBlk]

(* "Nothing happens if ptr is NULL": in particular the allocator's mem_release is not bothered.      *)
ReleaseNull(f, r) ==
    /\ f \in Flavours
    /\ f \in Owned => r.nrel = 0
    /\ UNCHANGED avars

(* realloc: "Attempts to adjust the size of the pointed-to memory buffer from oldsize to newsize.    *)
(* The pointer may be changed". Never fails (OOM is fatal). The first min(old,new) bytes survive,    *)
(* whether the allocator has a mem_realloc (which must then be told oldsize and newsize as given) or *)
(* the front-end emulates it with acquire + copy + release. newsize = 0 releases the block and       *)
(* clears the pointer (allocator.c: protection against zero-length allocations).                    *)
Realloc(s, newsize, fill, tag, r) ==
    /\ s \in live /\ Plain(blk[s]) /\ newsize >= 0
    /\ LET b == blk[s]
           old == b.sizes[1]
       IN /\ r.oldsize = old                            \* environment obligation: the caller passes the true old size
          /\ r.rc = 0
          /\ IF newsize = 0
             THEN /\ r.null = 1
                  /\ live' = live \ {s}
                  /\ blk' = [blk EXCEPT ![s] = NoBlk]
             ELSE /\ r.null = 0
                  /\ r.kept >= Min(b.good, newsize)
                  /\ b.fl \in Owned => r.usz >= newsize
                  /\ r.nre > 0 => (r.cbold = old /\ r.cbnew = newsize)
                  /\ AlignOK(b.fl, newsize, r)
                  /\ IF fill = 1 THEN tag > 0 ELSE tag = b.tag
                  /\ live' = live
                  /\ blk' = [blk EXCEPT ![s] = [fl |-> b.fl, many |-> FALSE, sizes |-> <<newsize>>, tag |-> tag,
                                                good |-> IF fill = 1 THEN newsize ELSE Min(b.good, newsize)]]

(* realloc of a NULL pointer with oldsize 0 (what aws_byte_buf_reserve does on an empty buffer):     *)
(* behaves as an acquisition; with newsize 0 the pointer stays NULL.                                 *)
ReallocNull(s, f, newsize, tag, r) ==
    /\ s \in Slots \ live /\ f \in Flavours /\ newsize >= 0
    /\ r.oldsize = 0
    /\ r.rc = 0
    /\ IF newsize = 0
       THEN r.null = 1 /\ UNCHANGED avars
       ELSE /\ r.null = 0 /\ tag > 0
            /\ f \in Owned => r.usz >= newsize
            /\ r.nre > 0 => (r.cbold = 0 /\ r.cbnew = newsize)
            /\ AlignOK(f, newsize, r)
            /\ live' = live \cup {s}
            /\ blk' = [blk EXCEPT ![s] = [fl |-> f, many |-> FALSE, sizes |-> <<newsize>>, tag |-> tag, good |-> newsize]]

(* aws_allocator_is_valid: mem_acquire and mem_release are mandatory, the other two optional *)
Valid(which, res) ==
    /\ which \in Flavours \cup Broken
    /\ res = IF which \in Broken THEN 0 ELSE 1
    /\ UNCHANGED avars

-----------------------------------------------------------------------------
(* bookkeeping of the adapter-owned allocators after a call: one underlying block per live abstract  *)
(* block (acquire_many: "a single block"; realloc and release give back what they replace), at least *)
(* the requested bytes, and never a release / realloc of a pointer the allocator did not hand out.   *)
LiveOf(f) == {x \in live' : blk'[x].fl = f}
RECURSIVE BytesOf(_)
BytesOf(S) == IF S = {} THEN 0 ELSE LET x == CHOOSE y \in S : TRUE IN Total(blk'[x]) + BytesOf(S \ {x})
Balanced(o) ==
    /\ \A i \in 1..4 : /\ o.nb[i] = Cardinality(LiveOf(OwnedSeq[i]))
                       /\ o.by[i] >= BytesOf(LiveOf(OwnedSeq[i]))
    /\ o.unk = 0

-----------------------------------------------------------------------------
(* internal consistency of the specification itself (checked by TLC in MC.cfg) *)
TypeOK == /\ live \subseteq Slots
          /\ \A s \in Slots : s \notin live => blk[s] = NoBlk
          /\ \A s \in live : /\ blk[s].fl \in Flavours
                             /\ Len(blk[s].sizes) >= 1
                             /\ \A i \in 1..Len(blk[s].sizes) : blk[s].sizes[i] > 0
GoodInv == \A s \in live : /\ blk[s].good >= 0
                           /\ Plain(blk[s]) => (Len(blk[s].sizes) = 1 /\ blk[s].good <= blk[s].sizes[1])
ZeroTagInv == \A s \in live : blk[s].tag >= 0       \* tag 0 = the all-zero content calloc promises

(* the two ways of saying "regions do not overlap" agree: interval arithmetic (LayoutOK) vs. sets of byte indices *)
BytesOfRegion(off, n) == {off + k : k \in 0..(n - 1)}
DisjointBytes(sizes, offs) == \A i \in 1..Len(sizes) : \A j \in 1..Len(sizes) :
                                  i # j => BytesOfRegion(offs[i], sizes[i]) \cap BytesOfRegion(offs[j], sizes[j]) = {}
=============================================================================
