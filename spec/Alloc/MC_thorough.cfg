SPECIFICATION MCSpec
CONSTANTS Slots = {1, 2}
  PtrSize = 8
  PageSize = 4096
  ManyAlign = 8
  FlSet = {"rc", "r", "c", "n", "def", "aln"}
  Sizes = {1, 8, 9, 4096, 4097}
  Tags = {1, 2}
  GenDepth = 0
INVARIANTS TypeOK GoodInv ZeroTagInv SizesFromArgs NoFaultAccepted
