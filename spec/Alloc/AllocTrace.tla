------------------------------ MODULE AllocTrace ------------------------------
(* Trace validation for X03: every event recorded from the real allocator front-end must be          *)
(* explained by the Alloc action of the same name with exactly the logged arguments and measured     *)
(* results, and the bookkeeping of the adapter-owned allocators after the call (live blocks and      *)
(* bytes per flavour, releases of unknown pointers) must agree with the specification's live set.    *)
EXTENDS Alloc, TraceCommon

VARIABLES l
Ev == TraceLog[l]

TReset == /\ Ev.e = "Reset"
          /\ Ev.ptrsz = PtrSize /\ Ev.imax = ManyAlign       \* the platform facts the constants stand for
          /\ live' = {} /\ blk' = [s \in Slots |-> NoBlk]

TAcquire == Ev.e = "Acquire" /\ Acquire(Ev.slot, Ev.fl, Ev.size, Ev.tag, Ev) /\ Balanced(Ev.s)

TCalloc == Ev.e = "Calloc" /\ Calloc(Ev.slot, Ev.fl, Ev.num, Ev.size, Ev.fill, Ev.tag, Ev) /\ Balanced(Ev.s)

TOverflow == Ev.e = "CallocOvf" /\ CallocOverflow(Ev.fl, Ev.a, Ev.b, Ev.outcome) /\ Balanced(Ev.s)

TMany == Ev.e = "Many" /\ Many(Ev.slot, Ev.fl, Ev.sizes, Ev.tag, Ev.offs, Ev) /\ Balanced(Ev.s)

TRelease == Ev.e = "Release" /\ Release(Ev.slot, Ev) /\ Balanced(Ev.s)

TReleaseNull == Ev.e = "ReleaseNull" /\ ReleaseNull(Ev.fl, Ev) /\ Balanced(Ev.s)

TRealloc == Ev.e = "Realloc" /\ Realloc(Ev.slot, Ev.newsize, Ev.fill, Ev.tag, Ev) /\ Balanced(Ev.s)

TReallocNull == Ev.e = "ReallocNull" /\ ReallocNull(Ev.slot, Ev.fl, Ev.newsize, Ev.tag, Ev) /\ Balanced(Ev.s)

TValid == Ev.e = "Valid" /\ Valid(Ev.which, Ev.res)

(* end of one execution: the adapter has released what the script left in its slots; nothing may     *)
(* remain in any adapter-owned allocator, and the process heap (bytes allocated as the sanitizer's   *)
(* allocator counts them, summed over the front-end calls of the execution) is back where it was -   *)
(* which covers the library's own default and aligned allocators                                     *)
TTeardown == /\ Ev.e = "Teardown" /\ Ev.leak = 0 /\ Ev.bytes = 0 /\ Ev.unk = 0 /\ Ev.heap = 0
             /\ live' = {} /\ blk' = [s \in Slots |-> NoBlk]

TEnd == Ev.e = "End" /\ Ev.live = 0 /\ UNCHANGED avars

TNext == /\ l <= TraceLen /\ l' = l + 1
         /\ (TReset \/ TAcquire \/ TCalloc \/ TOverflow \/ TMany \/ TRelease \/ TReleaseNull \/ TRealloc
             \/ TReallocNull \/ TValid \/ TTeardown \/ TEnd)
TInit == l = 1 /\ AInit
TSpec == TInit /\ [][TNext]_<<avars, l>>
=============================================================================
