------------------------------- MODULE AllocMC -------------------------------
(* Bounded exploration of Alloc (every sequence of front-end calls over a few slots, flavours and   *)
(* sizes; for every call the good outcome and a family of single-fault outcomes, which the actions  *)
(* must refuse) and behaviour generation (simulation with a history variable printed as a script).  *)
EXTENDS Alloc, TLC, Json

CONSTANTS FlSet, Sizes, Tags, GenDepth
VARIABLES hist,
          bad     \* ghost: some call was accepted although its reported outcome carried a fault the property forbids

Gen == GenDepth > 0
mcvars == <<live, blk, hist, bad>>
Op(name, s, f, a, b, t, fill, sizes) ==
    [op |-> name, slot |-> s, fl |-> f, a |-> a, b |-> b, tag |-> t, fill |-> fill, sizes |-> sizes]
Rec(o) == hist' = IF Gen THEN Append(hist, o) ELSE hist
G == Gen => Len(hist) < GenDepth

(* outcome families: the good record, plus (when exploring) variants with exactly one field changed: `faults` are  *)
(* changes the property forbids (field flt = 1: accepting one trips the invariant NoFaultAccepted), `alts` are    *)
(* changes it leaves open (a bigger underlying block, callback not used, more bytes intact than promised ...).   *)
Variants(g, faults, alts) == IF Gen THEN {g @@ [flt |-> 0]}
                             ELSE {g @@ [flt |-> 0]} \cup {x @@ g @@ [flt |-> 1] : x \in faults} \cup {x @@ g @@ [flt |-> 0] : x \in alts}
Note(r) == bad' = (bad \/ r.flt = 1)
Al0 == [m16 |-> 0, m32 |-> 0, m64 |-> 0]
AlFaults == {[m16 |-> 8, m32 |-> 8, m64 |-> 8], [m16 |-> 4, m32 |-> 4, m64 |-> 4], [m16 |-> 0, m32 |-> 0, m64 |-> 32]}

UszFault(f, u) == IF f \in Owned THEN {[usz |-> u]} ELSE {}      \* only the adapter-owned allocators report block sizes
AcqRes(n, f) == Variants(Al0 @@ [nonnull |-> 1, usz |-> n],
                         {[nonnull |-> 0]} \cup UszFault(f, n - 1), AlFaults \cup {[usz |-> n + 8]})
CalRes(num, size, f) == Variants(Al0 @@ [nonnull |-> 1, usz |-> num * size, nz |-> 0, ncal |-> 1, cbn |-> num, cbs |-> size],
                              {[nz |-> 1], [cbs |-> size + 1]} \cup UszFault(f, num * size - 1),
                              AlFaults \cup {[ncal |-> 0, cbn |-> 0, cbs |-> 0], [cbn |-> size, cbs |-> num]})

RoundUp(n) == ((n + ManyAlign - 1) \div ManyAlign) * ManyAlign
Rounded(sizes) == [k \in 1..Len(sizes) |-> RoundUp(sizes[k])]
GoodOffs(sizes) == [i \in 1..Len(sizes) |-> SeqSum(SubSeq(Rounded(sizes), 1, i - 1))]
PackedOffs(sizes) == [i \in 1..Len(sizes) |-> SeqSum(SubSeq(sizes, 1, i - 1))]
ZeroOffs(sizes) == [i \in 1..Len(sizes) |-> 0]
SpreadOffs(sizes) == [i \in 1..Len(sizes) |-> 2 * GoodOffs(sizes)[i]]
ShiftOffs(sizes) == [i \in 1..Len(sizes) |-> GoodOffs(sizes)[i] + ManyAlign]
ManySeqs == {<<1>>, <<9, 1>>, <<8, 8>>, <<3, 5000, 7>>}
OffsSet(sizes) == IF Gen THEN {GoodOffs(sizes)}
                  ELSE {GoodOffs(sizes), PackedOffs(sizes), ZeroOffs(sizes), SpreadOffs(sizes), ShiftOffs(sizes)}
ManyRes(sizes, f) == LET t == SeqSum(Rounded(sizes)) IN
                  Variants(Al0 @@ [nonnull |-> 1, usz |-> 2 * t, retoff |-> 0, pat |-> 1],
                           {[nonnull |-> 0], [retoff |-> 8], [pat |-> 0]} \cup UszFault(f, t - 8), AlFaults)

RelRes(b) == Variants([kept |-> b.good, pat |-> 1],
                      IF Plain(b) THEN (IF b.good > 0 THEN {[kept |-> b.good - 1]} ELSE {}) ELSE {[pat |-> 0]},
                      {[kept |-> b.good + 1]})

ReRes(old, good, n, f) ==
    IF n = 0
    THEN Variants(Al0 @@ [oldsize |-> old, rc |-> 0, null |-> 1, kept |-> 0, usz |-> 0, nre |-> 0, cbold |-> 0, cbnew |-> 0],
                  {[null |-> 0], [rc |-> -1], [oldsize |-> old + 1]}, {})
    ELSE Variants(Al0 @@ [oldsize |-> old, rc |-> 0, null |-> 0, kept |-> Min(good, n), usz |-> n,
                          nre |-> IF f \in {"rc", "r"} THEN 1 ELSE 0, cbold |-> old, cbnew |-> n],
                  {[null |-> 1], [rc |-> -1], [oldsize |-> old + 1], [nre |-> 1, cbold |-> old + 1], [nre |-> 1, cbnew |-> n + 1]}
                     \cup (IF f \in Owned THEN {[usz |-> n - 1]} ELSE {})
                     \cup (IF Min(good, n) > 0 THEN {[kept |-> Min(good, n) - 1]} ELSE {}),
                  AlFaults \cup {[kept |-> Min(good, n) + 1], [nre |-> 0]})

MCInit == AInit /\ hist = <<>> /\ bad = FALSE

MCAcquire == /\ G
             /\ \E s \in Slots \ live, f \in FlSet, n \in Sizes, t \in Tags : \E r \in AcqRes(n, f) :
                   Acquire(s, f, n, t, r) /\ Note(r) /\ Rec(Op("ACQ", s, f, n, 0, t, 1, <<>>))
MCCalloc == /\ G
            /\ \E s \in Slots \ live, f \in FlSet, n \in Sizes, t \in Tags, fill \in {0, 1} :
                 \E p \in {<<1, n>>, <<n, 1>>, <<3, 3>>} : \E r \in CalRes(p[1], p[2], f) :
                   LET tt == IF fill = 1 THEN t ELSE 0 IN
                   Calloc(s, f, p[1], p[2], fill, tt, r) /\ Note(r) /\ Rec(Op("CAL", s, f, p[1], p[2], tt, fill, <<>>))
MCOverflow == /\ G
              /\ \E f \in FlSet, ab \in {<<8 * PtrSize - 1, 1>>, <<4 * PtrSize, 4 * PtrSize>>} :
                   \E o \in (IF Gen THEN {"abort"} ELSE {"abort", "exit", "returned", "signal"}) :
                     CallocOverflow(f, ab[1], ab[2], o) /\ bad' = (bad \/ o \in {"returned", "signal"}) /\ Rec(Op("OVF", 0, f, ab[1], ab[2], 0, 0, <<>>))
MCMany == /\ G
          /\ \E s \in Slots \ live, f \in FlSet, sizes \in ManySeqs, t \in Tags :
               \E offs \in OffsSet(sizes) : \E r \in ManyRes(sizes, f) :
                   Many(s, f, sizes, t, offs, r) /\ bad' = (bad \/ r.flt = 1 \/ offs \notin {GoodOffs(sizes), SpreadOffs(sizes)}) /\ Rec(Op("MANY", s, f, 0, 0, t, 1, sizes))
MCRelease == /\ G
             /\ \E s \in live : \E r \in RelRes(blk[s]) : Release(s, r) /\ Note(r) /\ Rec(Op("REL", s, "", 0, 0, 0, 0, <<>>))
MCReleaseNull == /\ G
                 /\ \E f \in FlSet, k \in (IF Gen THEN {0} ELSE {0, 1}) :
                      ReleaseNull(f, [nrel |-> k]) /\ bad' = (bad \/ (f \in Owned /\ k = 1)) /\ Rec(Op("RELNULL", 0, f, 0, 0, 0, 0, <<>>))
MCRealloc == /\ G
             /\ \E s \in {x \in live : Plain(blk[x])}, n \in Sizes \cup {0}, t \in Tags, fill \in {0, 1} :
                  LET b == blk[s]
                      tt == IF fill = 1 THEN t ELSE b.tag IN
                  \E r \in ReRes(b.sizes[1], b.good, n, b.fl) :
                     Realloc(s, n, fill, tt, r) /\ Note(r) /\ Rec(Op("REALLOC", s, b.fl, n, 0, IF fill = 1 THEN t ELSE 0, fill, <<>>))
MCReallocNull == /\ G
                 /\ \E s \in Slots \ live, f \in FlSet, n \in Sizes \cup {0}, t \in Tags :
                      \E r \in ReRes(0, 0, n, f) :
                         ReallocNull(s, f, n, t, r) /\ Note(r) /\ Rec(Op("REALLOCNULL", s, f, n, 0, t, 1, <<>>))
MCValid == /\ G
           /\ \E w \in FlSet \cup Broken, res \in {0, 1} :
                Valid(w, res) /\ bad' = (bad \/ (res = 1 <=> w \in Broken)) /\ Rec(Op("VALID", 0, w, 0, 0, 0, 0, <<>>))

MCNext == MCAcquire \/ MCCalloc \/ MCOverflow \/ MCMany \/ MCRelease \/ MCReleaseNull \/ MCRealloc
          \/ MCReallocNull \/ MCValid
MCSpec == MCInit /\ [][MCNext]_mcvars

(* every forbidden outcome is refused by the action it is offered to *)
NoFaultAccepted == ~bad
SizesFromArgs == \A s \in live : \A i \in 1..Len(blk[s].sizes) :
                    blk[s].sizes[i] \in Sizes \cup {9} \cup UNION {{x[k] : k \in 1..Len(x)} : x \in ManySeqs}

(* "regions do not overlap", said with interval arithmetic (what LayoutOK uses on logged offsets),  *)
(* is the same as saying that no byte index belongs to two regions - on every small layout          *)
SmallSeqs == UNION {[1..n -> 1..3] : n \in 1..3}
ASSUME \A sizes \in SmallSeqs : \A offs \in [1..Len(sizes) -> 0..5] :
          NoOverlap(sizes, offs) <=> DisjointBytes(sizes, offs)
(* the layout the round-up rule produces is accepted, the packed one is refused whenever a size is  *)
(* not a multiple of the alignment, overlapping ones are refused                                    *)
ASSUME \A sizes \in ManySeqs :
          LET t == SeqSum(Rounded(sizes))
              r == Al0 @@ [nonnull |-> 1, usz |-> t, retoff |-> 0, pat |-> 1] IN
          /\ LayoutOK("n", sizes, GoodOffs(sizes), r)
          /\ (Len(sizes) > 1 => ~LayoutOK("n", sizes, ZeroOffs(sizes), r))
          /\ ((Len(sizes) > 1 /\ sizes[1] % ManyAlign # 0) => ~LayoutOK("n", sizes, PackedOffs(sizes), r))
          /\ ~LayoutOK("n", sizes, ShiftOffs(sizes), r)

(* alignment rule: only the aligned allocator promises anything; 8 for small, 8 * pointer size beyond a page *)
ASSUME /\ AlignOK("aln", 100, [m16 |-> 8, m32 |-> 8, m64 |-> 8])
       /\ ~AlignOK("aln", 100, [m16 |-> 4, m32 |-> 4, m64 |-> 4])
       /\ AlignOK("aln", PageSize, [m16 |-> 0, m32 |-> 16, m64 |-> 48])
       /\ ~AlignOK("aln", PageSize + 1, [m16 |-> 0, m32 |-> 0, m64 |-> 32]) \/ PtrSize # 8
       /\ AlignOK("aln", PageSize + 1, Al0)
       /\ AlignOK("def", PageSize + 1, [m16 |-> 4, m32 |-> 4, m64 |-> 4])
       /\ AlignOK("n", 1, [m16 |-> 1, m32 |-> 1, m64 |-> 1])

Emit == (Gen /\ Len(hist) = GenDepth) => PrintT(<<"SCRIPT", ToJson([ops |-> hist])>>)
=============================================================================
