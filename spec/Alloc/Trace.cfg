SPECIFICATION TSpec
CONSTANTS Slots = {1, 2, 3, 4, 5, 6, 7, 8}
  PtrSize = 8
  PageSize = 4096
  ManyAlign = 8
POSTCONDITION TraceAccepted
CHECK_DEADLOCK FALSE
