SPECIFICATION MCSpec
CONSTANTS Slots = {1, 2}
  PtrSize = 8
  PageSize = 4096
  ManyAlign = 8
  FlSet = {"rc", "n", "aln"}
  Sizes = {1, 9, 5000}
  Tags = {1, 2}
  GenDepth = 0
INVARIANTS TypeOK GoodInv ZeroTagInv SizesFromArgs NoFaultAccepted
