SPECIFICATION MCSpec
CONSTANTS Slots = {1, 2, 3, 4}
  PtrSize = 8
  PageSize = 4096
  ManyAlign = 8
  FlSet = {"rc", "r", "c", "n", "def", "aln"}
  Sizes = {1, 7, 8, 9, 64, 100, 4096, 4097, 6000}
  Tags = {1, 2, 3}
  GenDepth = 24
INVARIANT Emit
