-------------------------------- MODULE PQMC --------------------------------
(* Bounded exploration of PQ (all operation sequences, many duplicate values) and behaviour      *)
(* generation (simulation with a history variable printed as a JSON script).                     *)
EXTENDS PQ, TLC, Json

CONSTANTS Vals, MaxId, Modes, GenDepth
VARIABLES nextId, hist,
          busy   \* handles the script may not reuse yet: a pop among equal values may or may not have freed them

ModesSmall == {<<"dyn", 0>>, <<"static", 3>>}
ModesGen == {<<"dyn", 0>>, <<"static", 3>>, <<"static", 6>>}
mcvars == <<mode, cap, q, inq, nextId, hist, busy>>
NoE == [v |-> 0, id |-> 0, h |-> 0]
Op(name, v, id, h) == [op |-> name, v |-> v, id |-> id, h |-> h]
Rec(o) == hist' = IF GenDepth > 0 THEN Append(hist, o) ELSE hist

MCInit == /\ \E m \in Modes : PQInit(m[1], m[2])
          /\ nextId = 1 /\ hist = <<>> /\ busy = {}

G == GenDepth > 0 => Len(hist) < GenDepth
MCPush == /\ G /\ nextId <= MaxId
          /\ \E v \in Vals, h \in {0} \cup (Handles \ busy), ok \in BOOLEAN :
                /\ Push(v, nextId, h, IF mode = "static" /\ h # 0 THEN FALSE ELSE ok)
                /\ Rec(Op("PUSH", v, nextId, h))
                /\ busy' = IF h # 0 THEN busy \cup {h} ELSE busy
          /\ nextId' = nextId + 1
MCPop == /\ G /\ \E ok \in BOOLEAN, e \in q \cup {NoE} : Pop(ok, e)
         /\ Rec(Op("POP", 0, 0, 0)) /\ UNCHANGED <<nextId, busy>>
MCTop == /\ G /\ \E ok \in BOOLEAN, e \in q \cup {NoE} : Top(ok, e)
         /\ Rec(Op("TOP", 0, 0, 0)) /\ UNCHANGED <<nextId, busy>>
MCRemove == /\ G /\ \E h \in Handles, ok \in BOOLEAN, e \in q \cup {NoE} : Remove(h, ok, e) /\ Rec(Op("REMOVE", 0, 0, h)) /\ busy' = busy \ {h}
            /\ UNCHANGED nextId
MCClear == G /\ Clear /\ Rec(Op("CLEAR", 0, 0, 0)) /\ busy' = {} /\ UNCHANGED nextId

MCNext == MCPush \/ MCPop \/ MCTop \/ MCRemove \/ MCClear
MCSpec == MCInit /\ [][MCNext]_mcvars

Emit == (GenDepth > 0 /\ Len(hist) = GenDepth) =>
            PrintT(<<"SCRIPT", ToJson([mode |-> mode, cap |-> cap, ops |-> hist])>>)
=============================================================================
