--------------------------------- MODULE PQ ---------------------------------
(* aws_priority_queue as the property C06 states it: a multiset of elements (value, identity,   *)
(* optional handle); pop/top return *a* minimum under the comparator (ties are free); a handle    *)
(* identifies its own element for as long as that element is in the queue, and is refused after. *)
(* Each action is a relation between pre-state, arguments, the reported result and post-state,   *)
(* so the same definitions serve model checking (results quantified), behaviour generation and   *)
(* validation of traces recorded from the real library (results bound to what the code did).     *)
EXTENDS Naturals, Integers, FiniteSets, Sequences

CONSTANTS Handles          \* e.g. 1..3 ; handle 0 means "pushed without a handle"

VARIABLES mode,            \* "dyn" | "static"
          cap,             \* capacity of a static queue
          q,               \* set of [v, id, h]
          inq              \* [Handles -> BOOLEAN]  what aws_priority_queue_node_is_in_queue must say

pqvars == <<mode, cap, q, inq>>

Ids(S) == {e.id : e \in S}
IsMin(e) == e \in q /\ \A f \in q : e.v <= f.v
Size == Cardinality(q)

PQInit(m, c) == mode = m /\ cap = c /\ q = {} /\ inq = [h \in Handles |-> FALSE]

(* push / push_ref.  Environment obligations (scripts respect them): a fresh identity, and a     *)
(* handle that is not currently in the queue.                                                    *)
Push(v, id, h, ok) ==
    /\ id \notin Ids(q)
    /\ h # 0 => (h \in Handles /\ ~inq[h])
    /\ IF mode = "static" /\ Size >= cap THEN ~ok          \* refuses pushes beyond its capacity
       ELSE IF mode = "static" /\ h # 0 THEN TRUE          \* documented: static storage may refuse handles
       ELSE ok                                             \* otherwise a push cannot fail
    /\ IF ok
       THEN /\ q' = q \cup {[v |-> v, id |-> id, h |-> h]}
            /\ inq' = IF h # 0 THEN [inq EXCEPT ![h] = TRUE] ELSE inq
       ELSE UNCHANGED <<q, inq>>
    /\ UNCHANGED <<mode, cap>>

(* pop: empty => refused; else the returned element e is a minimum and leaves the queue          *)
Pop(ok, e) ==
    /\ ok <=> q # {}
    /\ IF ok
       THEN /\ IsMin(e)
            /\ q' = q \ {e}
            /\ inq' = IF e.h # 0 THEN [inq EXCEPT ![e.h] = FALSE] ELSE inq
       ELSE UNCHANGED <<q, inq>>
    /\ UNCHANGED <<mode, cap>>

Top(ok, e) ==
    /\ ok <=> q # {}
    /\ ok => IsMin(e)
    /\ UNCHANGED pqvars

(* remove by handle: exactly that handle's element, or refused when the element already left     *)
Remove(h, ok, e) ==
    /\ h \in Handles
    /\ ok <=> inq[h]
    /\ IF ok
       THEN /\ e \in q /\ e.h = h
            /\ q' = q \ {e}
            /\ inq' = [inq EXCEPT ![h] = FALSE]
       ELSE UNCHANGED <<q, inq>>
    /\ UNCHANGED <<mode, cap>>

Clear ==
    /\ q' = {} /\ inq' = [h \in Handles |-> FALSE]
    /\ UNCHANGED <<mode, cap>>

-----------------------------------------------------------------------------
(* internal consistency of the specification itself (checked by TLC in MC.cfg) *)
HandleInv == \A h \in Handles : inq[h] <=> (\E e \in q : e.h = h)
UniqueHandle == \A e, f \in q : (e.h # 0 /\ e.h = f.h) => e = f
UniqueId == \A e, f \in q : e.id = f.id => e = f
CapInv == mode = "static" => Size <= cap
=============================================================================
