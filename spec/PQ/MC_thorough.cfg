SPECIFICATION MCSpec
CONSTANTS Handles = {1, 2, 3, 4}
  Vals = {0, 1, 2}
  MaxId = 6
  Modes <- ModesSmall
  GenDepth = 0
INVARIANTS HandleInv UniqueHandle UniqueId CapInv
