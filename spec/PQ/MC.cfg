SPECIFICATION MCSpec
CONSTANTS Handles = {1, 2, 3}
  Vals = {0, 1, 2}
  MaxId = 5
  Modes <- ModesSmall
  GenDepth = 0
INVARIANTS HandleInv UniqueHandle UniqueId CapInv
