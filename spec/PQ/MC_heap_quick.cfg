SPECIFICATION Spec
CONSTANTS Handles = {1, 2, 3}
  Vals = {0, 1, 2}
  MaxId = 4
INVARIANTS HeapOrder BpShape HandleConsistent PopReturnsMin RemoveExactlyThat StaleRefusedOnly
CHECK_DEADLOCK FALSE
