------------------------------- MODULE PQTrace -------------------------------
(* Trace validation for C06: every event recorded from the real aws_priority_queue must be       *)
(* explained by the PQ action of the same name with exactly the logged arguments and results,    *)
(* and the observable state after the call (size, in-queue flag and current_index of every       *)
(* handle) must equal the specification's.                                                       *)
EXTENDS PQ, TraceCommon

VARIABLES l
Ev == TraceLog[l]

(* id = -1: the element is too small to carry an identity (1-byte elements) -> any match *)
Match(e, v, id) == e.v = v /\ (id = -1 \/ e.id = id)
Cand(v, id) == {e \in q : Match(e, v, id)}
None == [v |-> 0, id |-> 0, h |-> 0]

Observed(s) ==
    /\ s.size = Cardinality(q')
    /\ \A h \in Handles : (s.inq[h] = 1) <=> inq'[h]
    \* public field current_index: in-queue handles point at distinct slots inside the queue
    /\ \A h \in Handles : inq'[h] => (s.idx[h] >= 0 /\ s.idx[h] < s.size)
    /\ \A g, h \in Handles : (g # h /\ inq'[g] /\ inq'[h]) => s.idx[g] # s.idx[h]
    /\ s.pat = 1                                    \* element payloads intact (sliced swap)

TReset == /\ Ev.e = "Reset"
          /\ mode' = Ev.mode /\ cap' = Ev.cap /\ q' = {} /\ inq' = [h \in Handles |-> FALSE]

TPush == /\ Ev.e = "Push"
         /\ LET id == IF Ev.id = -1 THEN 1000 + l ELSE Ev.id IN Push(Ev.v, id, Ev.h, Ev.rc = 0)
         /\ Observed(Ev.s)

TPop == /\ Ev.e = "Pop"
        /\ IF Ev.rc = 0 THEN \E e \in Cand(Ev.v, Ev.id) : Pop(TRUE, e)
           ELSE Pop(FALSE, None) /\ Ev.err = "AWS_ERROR_PRIORITY_QUEUE_EMPTY"
        /\ Observed(Ev.s)

TTop == /\ Ev.e = "Top"
        /\ IF Ev.rc = 0 THEN \E e \in Cand(Ev.v, Ev.id) : Top(TRUE, e)
           ELSE Top(FALSE, None) /\ Ev.err = "AWS_ERROR_PRIORITY_QUEUE_EMPTY"
        /\ Observed(Ev.s)

TRemove == /\ Ev.e = "Remove"
           /\ IF Ev.rc = 0 THEN \E e \in Cand(Ev.v, Ev.id) : Remove(Ev.h, TRUE, e)
              ELSE Remove(Ev.h, FALSE, None)
           /\ Observed(Ev.s)

TClear == Ev.e = "Clear" /\ Clear /\ Observed(Ev.s)

TEnd == Ev.e = "End" /\ Ev.live = 0 /\ UNCHANGED pqvars

TNext == l <= TraceLen /\ l' = l + 1 /\ (TReset \/ TPush \/ TPop \/ TTop \/ TRemove \/ TClear \/ TEnd)
TInit == l = 1 /\ mode = "dyn" /\ cap = 0 /\ q = {} /\ inq = [h \in Handles |-> FALSE]
TSpec == TInit /\ [][TNext]_<<pqvars, l>>
=============================================================================
