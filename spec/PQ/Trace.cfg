SPECIFICATION TSpec
CONSTANTS Handles = {1, 2, 3, 4}
POSTCONDITION TraceAccepted
CHECK_DEADLOCK FALSE
