SPECIFICATION TSpec
CONSTANTS Handles = {1, 2, 3, 4, 5, 6, 7, 8, 9, 10, 11, 12}
POSTCONDITION TraceAccepted
CHECK_DEADLOCK FALSE
