SPECIFICATION MCSpec
CONSTANTS Handles = {1, 2, 3, 4}
  Vals = {0, 1, 2, 3}
  MaxId = 40
  Modes <- ModesGen
  GenDepth = 30
INVARIANT Emit
