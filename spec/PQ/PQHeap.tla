------------------------------- MODULE PQHeap -------------------------------
(* Implementation-shaped model of source/priority_queue.c: a binary min-heap in an array with a  *)
(* parallel array of back-pointers (handles). Every handle stores the current index of its        *)
(* element (or NOTIN); every swap rewrites the index of both handles involved.                    *)
(*   push      : append, record handle, sift up                                                   *)
(*   pop       : remove index 1 (= C index 0)                                                      *)
(*   remove(h) : refused unless idx[h] is a valid position; remove that index                     *)
(*   remove at i : swap with last, drop last (its handle -> NOTIN), sift the moved element up or  *)
(*                 down                                                                            *)
(*   clear     : every handle -> NOTIN                                                             *)
(* The handle array is created lazily by the first push that carries a handle (when the queue    *)
(* may already hold elements) and is then kept as long as the element array.                      *)
(* TLC checks for all operation sequences (values with many duplicates): heap order, handle and  *)
(* index arrays mutually consistent, and refinement of the abstract multiset PQ (PQ.tla):         *)
(* pop returns a minimum, remove(h) removes exactly h's element, stale handles are refused.       *)
EXTENDS Naturals, Integers, Sequences, FiniteSets

CONSTANTS Handles, Vals, MaxId
NOTIN == 0 - 1

VARIABLES heap,      \* Seq([v, id])
          bp,        \* Seq(handle or 0); <<>> while not allocated
          bpAlloc,   \* BOOLEAN
          idx,       \* [Handles -> position in 1..Len(heap) or NOTIN]
          nextId,
          lastOut    \* ghost: element returned by the last pop / remove ([v,id,h]) or a marker

vars == <<heap, bp, bpAlloc, idx, nextId, lastOut>>

Init == heap = <<>> /\ bp = <<>> /\ bpAlloc = FALSE /\ idx = [h \in Handles |-> NOTIN] /\ nextId = 1
        /\ lastOut = [kind |-> "none", v |-> 0, id |-> 0, min |-> TRUE, stale |-> FALSE]

Parent(i) == i \div 2
Swap(s, i, j) == [s EXCEPT ![i] = s[j], ![j] = s[i]]

(* state = <<heap, bp, idx>>; swapping positions i, j rewrites the index stored in both handles *)
SwapSt(st, i, j) ==
    LET h2 == Swap(st[1], i, j)
        b2 == IF st[2] = <<>> THEN <<>> ELSE Swap(st[2], i, j)
        x2 == IF b2 = <<>> THEN st[3]
              ELSE [h \in Handles |-> IF b2[i] = h THEN i ELSE IF b2[j] = h THEN j ELSE st[3][h]] IN
    <<h2, b2, x2>>

RECURSIVE SiftUp(_, _)
SiftUp(st, i) ==
    IF i > 1 /\ st[1][Parent(i)].v > st[1][i].v THEN SiftUp(SwapSt(st, i, Parent(i)), Parent(i)) ELSE st

RECURSIVE SiftDown(_, _)
SiftDown(st, i) ==
    LET n == Len(st[1])
        l == 2 * i
        r == 2 * i + 1
        f1 == IF l <= n /\ st[1][i].v > st[1][l].v THEN l ELSE i
        f2 == IF r <= n /\ st[1][f1].v > st[1][r].v THEN r ELSE f1 IN
    IF f2 # i THEN SiftDown(SwapSt(st, i, f2), f2) ELSE st

(* s_sift_either: up if smaller than the parent, otherwise down *)
SiftEither(st, i) ==
    IF i > 1 /\ st[1][Parent(i)].v > st[1][i].v THEN SiftUp(st, i) ELSE SiftDown(st, i)

Push(v, h) ==
    /\ nextId <= MaxId /\ (h # 0 => idx[h] = NOTIN)
    /\ LET n == Len(heap) + 1
           alloc == bpAlloc \/ h # 0
           b1 == IF ~alloc THEN <<>>
                 ELSE IF bpAlloc THEN Append(bp, h)
                 ELSE Append([k \in 1 .. Len(heap) |-> 0], h)        \* zero-filled on first use
           x1 == IF h # 0 THEN [idx EXCEPT ![h] = n] ELSE idx
           st == SiftUp(<<Append(heap, [v |-> v, id |-> nextId]), b1, x1>>, n) IN
       /\ heap' = st[1] /\ bp' = st[2] /\ idx' = st[3] /\ bpAlloc' = alloc
    /\ nextId' = nextId + 1 /\ lastOut' = [lastOut EXCEPT !.kind = "push"]

RemoveAt(i) ==
    LET n == Len(heap)
        st0 == IF i # n THEN SwapSt(<<heap, bp, idx>>, i, n) ELSE <<heap, bp, idx>>
        gone == st0[1][n]
        hl == IF st0[2] = <<>> THEN 0 ELSE st0[2][n]
        x1 == IF hl # 0 THEN [st0[3] EXCEPT ![hl] = NOTIN] ELSE st0[3]
        st1 == <<SubSeq(st0[1], 1, n - 1), IF st0[2] = <<>> THEN <<>> ELSE SubSeq(st0[2], 1, n - 1), x1>>
        st2 == IF i # n THEN SiftEither(st1, i) ELSE st1 IN
    <<st2, gone, hl>>

IsMinOf(e, s) == \A k \in 1 .. Len(s) : e.v <= s[k].v

Pop == /\ heap # <<>>
       /\ LET r == RemoveAt(1) IN
          /\ heap' = r[1][1] /\ bp' = r[1][2] /\ idx' = r[1][3]
          /\ lastOut' = [kind |-> "pop", v |-> r[2].v, id |-> r[2].id, min |-> IsMinOf(r[2], heap), stale |-> FALSE]
       /\ UNCHANGED <<bpAlloc, nextId>>

Remove(h) ==
    /\ IF idx[h] # NOTIN /\ idx[h] <= Len(heap) /\ bpAlloc
       THEN LET i == idx[h]
                r == RemoveAt(i) IN
            /\ heap' = r[1][1] /\ bp' = r[1][2] /\ idx' = r[1][3]
            /\ lastOut' = [kind |-> "remove", v |-> r[2].v, id |-> r[2].id, min |-> (r[3] = h), stale |-> FALSE]
       ELSE /\ UNCHANGED <<heap, bp, idx>>
            /\ lastOut' = [kind |-> "refused", v |-> 0, id |-> 0, min |-> TRUE, stale |-> (\E k \in 1 .. Len(bp) : bp[k] = h)]
    /\ UNCHANGED <<bpAlloc, nextId>>

Clear == /\ heap' = <<>> /\ bp' = <<>> /\ idx' = [h \in Handles |-> NOTIN]
         /\ lastOut' = [lastOut EXCEPT !.kind = "clear"] /\ UNCHANGED <<bpAlloc, nextId>>

Next == (\E v \in Vals, h \in {0} \cup Handles : Push(v, h)) \/ Pop \/ (\E h \in Handles : Remove(h)) \/ Clear
Spec == Init /\ [][Next]_vars

HeapOrder == \A i \in 2 .. Len(heap) : heap[Parent(i)].v <= heap[i].v
BpShape == bp = <<>> \/ Len(bp) = Len(heap)
HandleConsistent ==
    /\ \A h \in Handles : idx[h] # NOTIN => (idx[h] \in 1 .. Len(heap) /\ bp # <<>> /\ bp[idx[h]] = h)
    /\ bp # <<>> => \A k \in 1 .. Len(bp) : bp[k] # 0 => idx[bp[k]] = k
PopReturnsMin == lastOut.kind = "pop" => lastOut.min
RemoveExactlyThat == lastOut.kind = "remove" => lastOut.min     \* the removed slot carried the handle asked for
StaleRefusedOnly == lastOut.kind = "refused" => ~lastOut.stale   \* refusal only when the handle is really not in the queue
=============================================================================
