--------------------------- MODULE ArrayListTrace ---------------------------
(* Trace validation for the array-list half of C09: every event recorded from the real            *)
(* aws_array_list must be explained by the ArrayList action of the same name with exactly the      *)
(* logged arguments and results, and after every call the length, the capacity and *all* elements  *)
(* (read back with aws_array_list_get_at) of both lists must equal the specification's.            *)
(* Error names are checked only where the header documents them.                                   *)
EXTENDS ArrayList, TraceCommon

VARIABLES l
Ev == TraceLog[l]

Ok == Ev.rc = 0
ErrIs(name) == Ev.rc # 0 => Ev.err = name
C2 == Ev.s.cap[Ev.l]                      \* capacity the implementation reports after the call
Got == Ev.s.x[Ev.l]                       \* element sequence the implementation exposes after the call

(* elements created by the script carry an intact pattern; gap elements are whatever they are *)
Observed(s) ==
    /\ items' = <<s.x[1], s.x[2]>>
    /\ cap' = <<s.cap[1], s.cap[2]>>
    /\ s.len = <<Len(s.x[1]), Len(s.x[2])>>

TReset == /\ Ev.e = "Reset"
          /\ mode' = <<Ev.m[1], Ev.m[2]>> /\ cap' = <<Ev.c[1], Ev.c[2]>> /\ items' = << <<>>, <<>> >>
          /\ Observed(Ev.s)

TPushBack == Ev.e = "PushBack" /\ PushBack(Ev.l, <<Ev.v, Ev.id, 1>>, Ok, C2) /\ Observed(Ev.s)
TPushFront == Ev.e = "PushFront" /\ PushFront(Ev.l, <<Ev.v, Ev.id, 1>>, Ok, C2) /\ Observed(Ev.s)
TPopBack == Ev.e = "PopBack" /\ PopBack(Ev.l, Ok) /\ ErrIs("AWS_ERROR_LIST_EMPTY") /\ Observed(Ev.s)
TPopFront == Ev.e = "PopFront" /\ PopFront(Ev.l, Ok) /\ ErrIs("AWS_ERROR_LIST_EMPTY") /\ Observed(Ev.s)
TPopFrontN == Ev.e = "PopFrontN" /\ PopFrontN(Ev.l, Ev.i) /\ Observed(Ev.s)
TSetAt == /\ Ev.e = "SetAt"
          /\ LET n == LenOf(Ev.l)
                 fill == IF Ok /\ Ev.i > n /\ Len(Got) >= Ev.i THEN SubSeq(Got, n + 1, Ev.i) ELSE <<>>
             IN SetAt(Ev.l, Ev.i, <<Ev.v, Ev.id, 1>>, Ok, C2, fill)
          /\ (mode[Ev.l] = "static" /\ ~IsBig(Ev.i)) \/ Ev.i = BIGFIT => ErrIs("AWS_ERROR_INVALID_INDEX")
          /\ Observed(Ev.s)
TGetAt == /\ Ev.e = "GetAt" /\ GetAt(Ev.l, Ev.i, Ok, Ev.x) /\ ErrIs("AWS_ERROR_INVALID_INDEX")
          /\ Observed(Ev.s)
TFront == Ev.e = "Front" /\ Front(Ev.l, Ok, Ev.x) /\ ErrIs("AWS_ERROR_LIST_EMPTY") /\ Observed(Ev.s)
TBack == Ev.e = "Back" /\ Back(Ev.l, Ok, Ev.x) /\ ErrIs("AWS_ERROR_LIST_EMPTY") /\ Observed(Ev.s)
TErase == Ev.e = "Erase" /\ Erase(Ev.l, Ev.i, Ok) /\ ErrIs("AWS_ERROR_INVALID_INDEX") /\ Observed(Ev.s)
TSwap == Ev.e = "Swap" /\ Swap(Ev.l, Ev.a, Ev.b) /\ Observed(Ev.s)
TSort == Ev.e = "Sort" /\ Sort(Ev.l, Got) /\ Observed(Ev.s)
TCopy == Ev.e = "Copy" /\ Copy(Ev.l, Other(Ev.l), Ok, Ev.s.cap[Other(Ev.l)]) /\ Observed(Ev.s)
TShrink == Ev.e = "Shrink" /\ ShrinkToFit(Ev.l, Ok, C2) /\ Observed(Ev.s)
TClear == Ev.e = "Clear" /\ Clear(Ev.l) /\ Observed(Ev.s)
TSwapContents == Ev.e = "SwapContents" /\ SwapContents /\ Observed(Ev.s)
TEnsure == /\ Ev.e = "Ensure" /\ EnsureCapacity(Ev.l, Ev.i, Ok, C2)
           /\ (mode[Ev.l] = "static" /\ ~IsBig(Ev.i)) \/ Ev.i = BIGFIT => ErrIs("AWS_ERROR_INVALID_INDEX")
           /\ Observed(Ev.s)
(* end of one execution (both lists cleaned up). The number of blocks never released is logged for evidence; *)
(* the property statement says nothing about leaks, so it is not judged here.                               *)
TFin == Ev.e = "Fin" /\ UNCHANGED alvars
TEnd == Ev.e = "End" /\ UNCHANGED alvars

TNext == /\ l <= TraceLen /\ l' = l + 1
         /\ \/ TReset \/ TPushBack \/ TPushFront \/ TPopBack \/ TPopFront \/ TPopFrontN \/ TSetAt \/ TGetAt \/ TFront
            \/ TBack \/ TErase \/ TSwap \/ TSort \/ TCopy \/ TShrink \/ TClear \/ TSwapContents \/ TEnsure \/ TFin \/ TEnd
TInit == l = 1 /\ mode = <<"dyn", "dyn">> /\ cap = <<0, 0>> /\ items = << <<>>, <<>> >>
TSpec == TInit /\ [][TNext]_<<alvars, l>>
=============================================================================
