SPECIFICATION MCSpec
CONSTANTS Vals = {0, 1, 2, 3}
  MaxId = 60
  MaxLen = 8
  Configs <- ConfigsGen
  GenDepth = 40
INVARIANT Emit
