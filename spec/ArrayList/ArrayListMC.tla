---------------------------- MODULE ArrayListMC ----------------------------
(* Bounded exploration of ArrayList (every operation sequence over two small lists, every mode    *)
(* combination in Configs, growth by the exact amount or by doubling) and behaviour generation by  *)
(* simulation with a history variable printed as a JSON script.                                    *)
EXTENDS ArrayList, TLC, Json

CONSTANTS Vals, MaxId, MaxLen, Configs, GenDepth
VARIABLES nextId, hist

mcvars == <<mode, cap, items, nextId, hist>>

\* <<mode1, cap1, mode2, cap2>>
ConfigsSmall == {<<"dyn", 0, "dyn", 1>>, <<"dyn", 1, "static", 2>>, <<"static", 3, "dyn", 0>>}
ConfigsGen == {<<"dyn", 0, "dyn", 3>>, <<"dyn", 1, "dyn", 0>>, <<"dyn", 3, "static", 4>>, <<"static", 2, "dyn", 1>>,
               <<"static", 6, "static", 3>>, <<"dyn", 0, "static", 1>>}

GapE == <<7, 0, 0>>             \* stands for "whatever the storage held"
NoE == <<0, 0, 0>>
Op(name, l, a, b, v, id) == [op |-> name, l |-> l, a |-> a, b |-> b, v |-> v, id |-> id]
Rec(o) == hist' = IF GenDepth > 0 THEN Append(hist, o) ELSE hist
G == GenDepth > 0 => Len(hist) < GenDepth

\* the first history entry carries the configuration: a, b = capacities; v, id = 1 for a static list 1, 2
MCInit == /\ \E c \in Configs :
                /\ ALInit(<<c[1], c[3]>>, <<c[2], c[4]>>)
                /\ hist = IF GenDepth > 0
                          THEN <<Op("RESET", 0, c[2], c[4], IF c[1] = "static" THEN 1 ELSE 0, IF c[3] = "static" THEN 1 ELSE 0)>>
                          ELSE <<>>
          /\ nextId = 1

Caps(l, i) == IF IsBig(i) THEN {cap[l]} ELSE {cap[l], i + 1, 2 * cap[l]}
Idx(l) == (0..MaxLen) \cup {OVF} \cup (IF mode[l] = "static" THEN {BIGFIT} ELSE {})
Small(l) == 0..(LenOf(l) - 1)
Fill(n) == [k \in 1..n |-> GapE]

RECURSIVE StableSort(_)
InsertSorted(e, t) == LET n == Cardinality({k \in 1..Len(t) : t[k][1] <= e[1]})
                      IN SubSeq(t, 1, n) \o <<e>> \o SubSeq(t, n + 1, Len(t))
StableSort(s) == IF s = <<>> THEN <<>> ELSE InsertSorted(s[Len(s)], StableSort(SubSeq(s, 1, Len(s) - 1)))

MCPushBack == /\ G /\ nextId <= MaxId
              /\ \E l \in Lists, v \in Vals, ok \in BOOLEAN : \E c2 \in Caps(l, LenOf(l)) :
                    /\ LenOf(l) < MaxLen \/ mode[l] = "static"
                    /\ PushBack(l, <<v, nextId, 1>>, ok, c2) /\ Rec(Op("PUSHB", l, 0, 0, v, nextId))
              /\ nextId' = nextId + 1
MCPushFront == /\ G /\ nextId <= MaxId
               /\ \E l \in Lists, v \in Vals, ok \in BOOLEAN : \E c2 \in Caps(l, LenOf(l)) :
                    /\ LenOf(l) < MaxLen \/ mode[l] = "static"
                    /\ PushFront(l, <<v, nextId, 1>>, ok, c2) /\ Rec(Op("PUSHF", l, 0, 0, v, nextId))
               /\ nextId' = nextId + 1
MCPopBack == G /\ UNCHANGED nextId /\ \E l \in Lists, ok \in BOOLEAN : PopBack(l, ok) /\ Rec(Op("POPB", l, 0, 0, 0, 0))
MCPopFront == G /\ UNCHANGED nextId /\ \E l \in Lists, ok \in BOOLEAN : PopFront(l, ok) /\ Rec(Op("POPF", l, 0, 0, 0, 0))
MCPopFrontN == G /\ UNCHANGED nextId /\ \E l \in Lists, n \in (0..MaxLen) \cup {OVF} :
                    PopFrontN(l, n) /\ Rec(Op("POPN", l, n, 0, 0, 0))
MCSetAt == /\ G /\ nextId <= MaxId
           /\ \E l \in Lists, v \in Vals, ok \in BOOLEAN : \E i \in Idx(l) : \E c2 \in Caps(l, i) :
                 /\ IsBig(i) \/ i < MaxLen \/ mode[l] = "static"
                 /\ SetAt(l, i, <<v, nextId, 1>>, ok, c2, IF IsBig(i) \/ i < LenOf(l) THEN <<>> ELSE Fill(i - LenOf(l)))
                 /\ Rec(Op("SET", l, i, 0, v, nextId))
           /\ nextId' = nextId + 1
MCGetAt == G /\ UNCHANGED nextId /\ \E l \in Lists, ok \in BOOLEAN : \E i \in Idx(l) :
              \E e \in {items[l][k] : k \in 1..LenOf(l)} \cup {NoE} : GetAt(l, i, ok, e) /\ Rec(Op("GET", l, i, 0, 0, 0))
MCFront == G /\ UNCHANGED nextId /\ \E l \in Lists, ok \in BOOLEAN :
              \E e \in {items[l][k] : k \in 1..LenOf(l)} \cup {NoE} : Front(l, ok, e) /\ Rec(Op("FRONT", l, 0, 0, 0, 0))
MCBack == G /\ UNCHANGED nextId /\ \E l \in Lists, ok \in BOOLEAN :
              \E e \in {items[l][k] : k \in 1..LenOf(l)} \cup {NoE} : Back(l, ok, e) /\ Rec(Op("BACK", l, 0, 0, 0, 0))
MCErase == G /\ UNCHANGED nextId /\ \E l \in Lists, ok \in BOOLEAN : \E i \in Idx(l) :
              Erase(l, i, ok) /\ Rec(Op("ERASE", l, i, 0, 0, 0))
MCSwap == G /\ UNCHANGED nextId /\ \E l \in Lists : \E a \in Small(l), b \in Small(l) :
              Swap(l, a, b) /\ Rec(Op("SWAP", l, a, b, 0, 0))
MCSort == G /\ UNCHANGED nextId /\ \E l \in Lists : Sort(l, StableSort(items[l])) /\ Rec(Op("SORT", l, 0, 0, 0, 0))
MCCopy == G /\ UNCHANGED nextId /\ \E from \in Lists, ok \in BOOLEAN : \E c2 \in {cap[Other(from)], LenOf(from)} :
              Copy(from, Other(from), ok, c2) /\ Rec(Op("COPY", from, 0, 0, 0, 0))
MCShrink == G /\ UNCHANGED nextId /\ \E l \in Lists, ok \in BOOLEAN : \E c2 \in {cap[l], LenOf(l)} :
              /\ mode[l] = "static" => ~ok       \* one representative for the undocumented result code
              /\ ShrinkToFit(l, ok, c2) /\ Rec(Op("SHRINK", l, 0, 0, 0, 0))
MCClear == G /\ UNCHANGED nextId /\ \E l \in Lists : Clear(l) /\ Rec(Op("CLEAR", l, 0, 0, 0, 0))
MCSwapContents == G /\ UNCHANGED nextId /\ SwapContents /\ Rec(Op("SWAPC", 0, 0, 0, 0, 0))
MCEnsure == G /\ UNCHANGED nextId /\ \E l \in Lists, ok \in BOOLEAN : \E i \in Idx(l) : \E c2 \in Caps(l, i) :
              /\ IsBig(i) \/ i < MaxLen \/ mode[l] = "static"
              /\ EnsureCapacity(l, i, ok, c2) /\ Rec(Op("ENSURE", l, i, 0, 0, 0))

MCNext == \/ MCPushBack \/ MCPushFront \/ MCPopBack \/ MCPopFront \/ MCPopFrontN \/ MCSetAt \/ MCGetAt \/ MCFront
          \/ MCBack \/ MCErase \/ MCSwap \/ MCSort \/ MCCopy \/ MCShrink \/ MCClear \/ MCSwapContents \/ MCEnsure
MCSpec == MCInit /\ [][MCNext]_mcvars

(* a static list never changes capacity; a list never holds more than its capacity *)
StaticFixed == [][\A l \in Lists : mode[l] = "static" => cap'[l] = cap[l]]_mcvars
Bound == \A l \in Lists : LenOf(l) <= MaxLen /\ cap[l] <= 2 * MaxLen + 2

Emit == (GenDepth > 0 /\ Len(hist) = GenDepth) =>
            PrintT(<<"SCRIPT", ToJson([ops |-> hist])>>)
=============================================================================
