------------------------------ MODULE ArrayList ------------------------------
(* aws_array_list as property C09 states it: a list holds exactly the element sequence a          *)
(* reference sequence would hold, with length and capacity consistent; a list over caller storage  *)
(* ("static") refuses to grow.  Two lists of one element size (copy and swap_contents need two).   *)
(*                                                                                                 *)
(* An element is the triple <<value, identity, pattern-flag>> (what the adapter projects from the *)
(* element bytes).  Every action is a relation between pre-state, arguments, the reported result   *)
(* (ok = call returned AWS_OP_SUCCESS), the capacity reported afterwards (c2) and the post-state;  *)
(* the same definitions serve model checking, script generation and trace validation.              *)
(*                                                                                                 *)
(* Left open on purpose (the headers and the property leave it open): by how much a dynamic list   *)
(* grows (only c2 >= needed is demanded), the content of gap elements created by set_at beyond     *)
(* the length (they are bound to whatever the implementation exposes and must then behave like     *)
(* ordinary elements), which of several equal-valued elements sort puts first, error codes the     *)
(* header does not name.  Allocation cannot fail (aws_mem_acquire aborts), so growth of a dynamic  *)
(* list always succeeds unless the byte size overflows.                                            *)
EXTENDS Naturals, Integers, Sequences, FiniteSets

Lists == {1, 2}

VARIABLES mode,    \* <<m1, m2>>  each "dyn" | "static"
          cap,     \* <<c1, c2>>  capacity in elements
          items    \* <<s1, s2>>  each a sequence of <<v, id, p>>
alvars == <<mode, cap, items>>

(* Index arguments: a natural number, or a negative token for indices near SIZE_MAX:               *)
(*   OVF    (index+1)*item_size does not fit size_t: no memory may be touched, call must fail      *)
(*   BIGFIT (index+1)*item_size fits size_t but exceeds any storage that exists (static lists only)*)
OVF == -1
BIGFIT == -2
IsBig(i) == i < 0

Other(l) == 3 - l
LenOf(l) == Len(items[l])
Set2(f, l, x) == [f EXCEPT ![l] = x]

ALInit(m, c) == mode = m /\ cap = c /\ items = << <<>>, <<>> >>

(* capacity needed to store index i; result ok and capacity afterwards *)
EnsureRel(l, i, ok, c2) ==
    IF IsBig(i) THEN ~ok /\ c2 = cap[l]
    ELSE IF cap[l] >= i + 1 THEN ok /\ c2 = cap[l]              \* enough room: nothing happens
    ELSE IF mode[l] = "static" THEN ~ok /\ c2 = cap[l]          \* caller storage never grows
    ELSE ok /\ c2 >= i + 1                                      \* growth factor left open

PushBack(l, e, ok, c2) ==
    /\ EnsureRel(l, LenOf(l), ok, c2)
    /\ items' = IF ok THEN Set2(items, l, Append(items[l], e)) ELSE items
    /\ cap' = Set2(cap, l, c2) /\ UNCHANGED mode

PushFront(l, e, ok, c2) ==
    /\ EnsureRel(l, LenOf(l), ok, c2)
    /\ items' = IF ok THEN Set2(items, l, <<e>> \o items[l]) ELSE items
    /\ cap' = Set2(cap, l, c2) /\ UNCHANGED mode

PopBack(l, ok) ==
    /\ ok <=> LenOf(l) > 0
    /\ items' = IF ok THEN Set2(items, l, SubSeq(items[l], 1, LenOf(l) - 1)) ELSE items
    /\ UNCHANGED <<mode, cap>>

PopFront(l, ok) ==
    /\ ok <=> LenOf(l) > 0
    /\ items' = IF ok THEN Set2(items, l, Tail(items[l])) ELSE items
    /\ UNCHANGED <<mode, cap>>

(* documented: fewer than n elements => the list is cleared *)
PopFrontN(l, n) ==
    /\ items' = IF IsBig(n) \/ n >= LenOf(l) THEN Set2(items, l, <<>>)
                ELSE Set2(items, l, SubSeq(items[l], n + 1, LenOf(l)))
    /\ UNCHANGED <<mode, cap>>

(* set_at: inside the length replaces; at or beyond the length extends the list to i+1 elements,   *)
(* the elements in between (fill) having unspecified content                                        *)
SetAt(l, i, e, ok, c2, fill) ==
    /\ EnsureRel(l, i, ok, c2)
    /\ IF ~ok THEN items' = items
       ELSE IF i < LenOf(l) THEN items' = Set2(items, l, [items[l] EXCEPT ![i + 1] = e])
       ELSE /\ Len(fill) = i - LenOf(l)
            /\ items' = Set2(items, l, items[l] \o fill \o <<e>>)
    /\ cap' = Set2(cap, l, c2) /\ UNCHANGED mode

GetAt(l, i, ok, e) ==
    /\ ok <=> (~IsBig(i) /\ i < LenOf(l))
    /\ ok => e = items[l][i + 1]
    /\ UNCHANGED alvars

Front(l, ok, e) ==
    /\ ok <=> LenOf(l) > 0
    /\ ok => e = items[l][1]
    /\ UNCHANGED alvars

Back(l, ok, e) ==
    /\ ok <=> LenOf(l) > 0
    /\ ok => e = items[l][LenOf(l)]
    /\ UNCHANGED alvars

Erase(l, i, ok) ==
    /\ ok <=> (~IsBig(i) /\ i < LenOf(l))
    /\ items' = IF ok THEN Set2(items, l, SubSeq(items[l], 1, i) \o SubSeq(items[l], i + 2, LenOf(l))) ELSE items
    /\ UNCHANGED <<mode, cap>>

(* swap: both indices inside the list (API precondition, scripts respect it) *)
Swap(l, a, b) ==
    /\ a < LenOf(l) /\ b < LenOf(l)
    /\ items' = Set2(items, l, [items[l] EXCEPT ![a + 1] = items[l][b + 1], ![b + 1] = items[l][a + 1]])
    /\ UNCHANGED <<mode, cap>>

Count(s, x) == Cardinality({k \in 1..Len(s) : s[k] = x})
IsPerm(s, t) == Len(s) = Len(t) /\ \A k \in 1..Len(s) : Count(s, s[k]) = Count(t, s[k])
IsSorted(s) == \A k \in 1..(Len(s) - 1) : s[k][1] <= s[k + 1][1]

(* sort by the comparator (value only); res = what the list holds afterwards; ties free *)
Sort(l, res) ==
    /\ IsPerm(items[l], res) /\ IsSorted(res)
    /\ items' = Set2(items, l, res)
    /\ UNCHANGED <<mode, cap>>

(* copy: environment obligation from != to and "from" owns storage (cap > 0).  A static            *)
(* destination must be able to hold the source, otherwise the copy is refused and changes nothing. *)
Copy(from, to, ok, c2) ==
    /\ from # to /\ cap[from] > 0
    /\ IF cap[to] >= LenOf(from) THEN ok /\ c2 = cap[to]
       ELSE IF mode[to] = "static" THEN ~ok /\ c2 = cap[to]
       ELSE ok /\ c2 >= LenOf(from)
    /\ items' = IF ok THEN Set2(items, to, items[from]) ELSE items
    /\ cap' = Set2(cap, to, c2) /\ UNCHANGED mode

(* documented for dynamic lists only: capacity becomes exactly the length; on a static list the   *)
(* result code is not documented, nothing may change                                              *)
ShrinkToFit(l, ok, c2) ==
    /\ IF mode[l] = "dyn" THEN ok /\ c2 = LenOf(l) ELSE c2 = cap[l]
    /\ cap' = Set2(cap, l, c2) /\ UNCHANGED <<mode, items>>

(* "Size does not change in this operation" *)
Clear(l) ==
    /\ items' = Set2(items, l, <<>>)
    /\ UNCHANGED <<mode, cap>>

(* both dynamic (API precondition) *)
SwapContents ==
    /\ mode[1] = "dyn" /\ mode[2] = "dyn"
    /\ items' = <<items[2], items[1]>> /\ cap' = <<cap[2], cap[1]>>
    /\ UNCHANGED mode

EnsureCapacity(l, i, ok, c2) ==
    /\ EnsureRel(l, i, ok, c2)
    /\ cap' = Set2(cap, l, c2) /\ UNCHANGED <<mode, items>>

-----------------------------------------------------------------------------
(* the property's state part: length and capacity consistent, static capacity fixed *)
CapInv == \A l \in Lists : LenOf(l) <= cap[l]
=============================================================================
