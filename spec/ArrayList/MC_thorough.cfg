SPECIFICATION MCSpec
CONSTANTS Vals = {0, 1}
  MaxId = 4
  MaxLen = 3
  Configs <- ConfigsSmall
  GenDepth = 0
INVARIANTS CapInv Bound
PROPERTIES StaticFixed
