---------------------------- MODULE StringTrace ----------------------------
(* Trace validation for X01: every event recorded from the real aws_string functions must be     *)
(* explained by the String action of the same name with exactly the logged arguments and         *)
(* results, and after every call the public view of every slot (bytes, length, terminator,       *)
(* aws_string_is_valid, allocator present), the number of allocations the allocator has out and  *)
(* the destination buffer must equal the specification's state: in particular the bytes of every *)
(* live string are still what they were when it was created.                                     *)
EXTENDS String, TraceCommon

VARIABLES l
Ev == TraceLog[l]

B(x) == x = 1
OptOf(nul, x) == IF nul = 1 THEN None ELSE Some(x)

Observed(s) ==
    /\ \A i \in Slots :
          LET o == s.sl[i] IN
          /\ B(o.l) <=> str'[i].live
          /\ str'[i].live => /\ o.b = str'[i].b              \* immutability: same bytes, same length as at creation
                             /\ o.z = 1                      \* 0x00 right after the len bytes
                             /\ o.v = 1                      \* aws_string_is_valid
                             /\ B(o.o) <=> str'[i].own
    /\ s.alloc = OwnedCount'                                 \* one allocation per owned string, none leaked, none extra
    /\ s.unk = 0                                             \* nothing released that was never acquired
    /\ B(s.don) <=> dst'.on
    /\ dst'.on => /\ s.dcap = dst'.cap /\ s.ddata = dst'.data /\ s.dtail = dst'.tail
                  /\ s.dptr = 1                              \* still the caller's memory

TReset == Ev.e = "Reset" /\ str' = [s \in Slots |-> Free] /\ dst' = NoDst

TStatic == Ev.e = "Static" /\ Ev.k \in 1..Len(StaticTable) /\ Adopt(Ev.d, StaticTable[Ev.k]) /\ Observed(Ev.s)
TRaw == Ev.e = "Raw" /\ Adopt(Ev.d, Ev.b) /\ Observed(Ev.s)
TForget == Ev.e = "Forget" /\ Forget(Ev.d) /\ Observed(Ev.s)
TNewCStr == Ev.e = "NewCStr" /\ Ev.ok = 1 /\ NewFromCStr(Ev.d, Ev.b) /\ Observed(Ev.s)
TNewArray == Ev.e = "NewArray" /\ Ev.ok = 1 /\ NewFromArray(Ev.d, Ev.b) /\ Observed(Ev.s)
TNewString == Ev.e = "NewString" /\ Ev.ok = 1 /\ NewFromString(Ev.d, Ev.a) /\ Observed(Ev.s)
TNewCursor == Ev.e = "NewCursor" /\ Ev.ok = 1 /\ NewFromCursor(Ev.d, Ev.b) /\ Observed(Ev.s)
TNewBuf == Ev.e = "NewBuf" /\ Ev.ok = 1 /\ NewFromBuf(Ev.d, Ev.b, Ev.n) /\ Observed(Ev.s)
TNewDst == Ev.e = "NewDst" /\ Ev.ok = 1 /\ NewFromDst(Ev.d) /\ Observed(Ev.s)
TDestroy == Ev.e = "Destroy" /\ Destroy(Ev.a, Ev.rel) /\ Ev.nrel = (IF Ev.rel = 0 THEN 0 ELSE 1) /\ Observed(Ev.s)
TDestroySecure == /\ Ev.e = "DestroySecure" /\ DestroySecure(Ev.a, Ev.rel, Ev.z = 1)
                  /\ Ev.nrel = (IF Ev.rel = 0 THEN 0 ELSE 1) /\ Observed(Ev.s)
TClone == Ev.e = "Clone" /\ Ev.ok = 1 /\ CloneOrReuse(Ev.d, Ev.a, B(Ev.same)) /\ Observed(Ev.s)
TEq == Ev.e = "Eq" /\ Eq(Ev.a, Ev.c, B(Ev.r)) /\ Observed(Ev.s)
TEqI == Ev.e = "EqI" /\ EqIgnoreCase(Ev.a, Ev.c, B(Ev.r)) /\ Observed(Ev.s)
TEqCur == Ev.e = "EqCur" /\ EqCursor(Ev.a, OptOf(Ev.nul, Ev.b), B(Ev.r)) /\ Observed(Ev.s)
TEqCurI == Ev.e = "EqCurI" /\ EqCursorIgnoreCase(Ev.a, OptOf(Ev.nul, Ev.b), B(Ev.r)) /\ Observed(Ev.s)
TEqBuf == Ev.e = "EqBuf" /\ EqBuf(Ev.a, B(Ev.nul), Ev.b, Ev.n, B(Ev.r)) /\ Observed(Ev.s)
TEqBufI == Ev.e = "EqBufI" /\ EqBufIgnoreCase(Ev.a, B(Ev.nul), Ev.b, Ev.n, B(Ev.r)) /\ Observed(Ev.s)
TEqC == Ev.e = "EqC" /\ EqCStr(Ev.a, B(Ev.nul), Ev.b, B(Ev.r)) /\ Observed(Ev.s)
TEqCI == Ev.e = "EqCI" /\ EqCStrIgnoreCase(Ev.a, B(Ev.nul), Ev.b, B(Ev.r)) /\ Observed(Ev.s)
TCompare == Ev.e = "Compare" /\ Compare(Ev.a, Ev.c, Ev.sg) /\ Observed(Ev.s)
TComparator == Ev.e = "Comparator" /\ Comparator(Ev.a, Ev.c, Ev.sg) /\ Observed(Ev.s)
TSort == /\ Ev.e = "Sort" /\ Ev.rc = 0
         /\ Sort(Ev.in, [i \in 1..Len(Ev.out) |-> OptOf(Ev.out[i].nul, Ev.out[i].b)])
         /\ Observed(Ev.s)
TDstInit == Ev.e = "DstInit" /\ DstInit(Ev.cap, Ev.b, Ev.s.dtail) /\ Observed(Ev.s)
TWrite == Ev.e = "Write" /\ Write(Ev.a, B(Ev.r), Ev.s.dtail) /\ Observed(Ev.s)
TWriteNoBuf == Ev.e = "WriteNoBuf" /\ WriteNoBuf(Ev.a, B(Ev.r)) /\ Observed(Ev.s)
TCursor == Ev.e = "Cursor" /\ CursorFromString(Ev.a, Ev.n, Ev.b, B(Ev.ps)) /\ Observed(Ev.s)
TBytes == Ev.e = "Bytes" /\ Bytes(Ev.a, B(Ev.eb), B(Ev.ec), Ev.cl) /\ Observed(Ev.s)
TSecureStrlen == /\ Ev.e = "SecureStrlen" /\ SecureStrlen(Ev.b, Ev.max, Ev.rc = 0, Ev.n)
                 /\ Ev.rc # 0 => Ev.err = "AWS_ERROR_C_STRING_BUFFER_NOT_NULL_TERMINATED"
                 /\ Observed(Ev.s)
TIsValid == Ev.e = "IsValid" /\ IsValid(Ev.a, B(Ev.r)) /\ Observed(Ev.s)
TIsValidRaw == Ev.e = "IsValidRaw" /\ IsValidRaw(Ev.b, Ev.t, B(Ev.r)) /\ Observed(Ev.s)
TCStrIsValid == Ev.e = "CStrIsValid" /\ CStrIsValid(B(Ev.nul), B(Ev.r)) /\ Observed(Ev.s)
TCharIsSpace == Ev.e = "CharIsSpace" /\ CharIsSpace(Ev.c, B(Ev.r)) /\ Observed(Ev.s)

TEnd == Ev.e = "End" /\ Ev.live = 0 /\ UNCHANGED svars

TNext == /\ l <= TraceLen /\ l' = l + 1
         /\ \/ TReset \/ TStatic \/ TRaw \/ TForget \/ TNewCStr \/ TNewArray \/ TNewString \/ TNewCursor \/ TNewBuf \/ TNewDst
            \/ TDestroy \/ TDestroySecure \/ TClone \/ TEq \/ TEqI \/ TEqCur \/ TEqCurI \/ TEqBuf \/ TEqBufI \/ TEqC \/ TEqCI
            \/ TCompare \/ TComparator \/ TSort \/ TDstInit \/ TWrite \/ TWriteNoBuf \/ TCursor \/ TBytes \/ TSecureStrlen
            \/ TIsValid \/ TIsValidRaw \/ TCStrIsValid \/ TCharIsSpace \/ TEnd
TInit == l = 1 /\ str = [s \in Slots |-> Free] /\ dst = NoDst
TSpec == TInit /\ [][TNext]_<<svars, l>>
=============================================================================
