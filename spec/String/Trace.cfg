SPECIFICATION TSpec
CONSTANTS Slots = {1, 2, 3, 4, 5}
POSTCONDITION TraceAccepted
CHECK_DEADLOCK FALSE
