SPECIFICATION MCSpec
CONSTANTS Slots = {1, 2, 3}
  Pool <- PoolSmall
  StaticIdx = {2, 4}
  Caps = {0, 2}
  Chars <- CharsSmall
  MaxSort = 2
  GenDepth = 0
INVARIANTS TypeOK DstBound
PROPERTIES ImmutableP WriteP BalanceP
