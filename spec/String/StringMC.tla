------------------------------ MODULE StringMC ------------------------------
(* Bounded exploration of String (every call sequence over a small pool of byte sequences) and   *)
(* behaviour generation (simulation with a history variable printed as a JSON script).           *)
EXTENDS String, TLC, Json

CONSTANTS Pool,        \* byte sequences scripts may introduce
          StaticIdx,   \* which entries of StaticTable are used
          Caps,        \* destination buffer capacities
          Chars,       \* arguments of aws_char_is_space
          MaxSort,     \* longest list handed to aws_array_list_sort
          GenDepth
VARIABLES hist

mcvars == <<str, dst, hist>>

PoolSmall == { <<>>, <<97>>, <<65>>, <<97, 0>>, <<97, 98>> }
PoolMid == PoolSmall \cup { <<0>>, <<65, 98>>, <<97, 98, 99>>, <<128>> }
PoolGen == { <<>>, <<0>>, <<97>>, <<65>>, <<122>>, <<90>>, <<64>>, <<91>>, <<96>>, <<123>>, <<128>>, <<255>>,
             <<97, 0>>, <<0, 97>>, <<97, 0, 98>>, <<97, 98>>, <<65, 66>>, <<97, 66>>, <<97, 98, 99>>, <<97, 98, 100>>,
             <<192, 224>>, <<224, 192>>, <<64, 91, 96, 123>>, <<96, 123, 64, 91>>, <<65, 90, 97, 122>>,
             <<97, 122, 65, 90>>, <<104, 101, 108, 108, 111, 44, 32, 87, 111, 114, 108, 100>>,
             <<72, 69, 76, 76, 79, 44, 32, 119, 79, 82, 76, 68>>, <<97, 98, 99, 100, 101, 102, 103, 104>>,
             <<97, 98, 99, 100, 101, 102, 103, 104, 0>>, <<0, 0, 0>> }
CharsSmall == {0, 9, 32, 65}
CharsGen == {0, 8, 9, 10, 11, 12, 13, 14, 31, 32, 33, 65, 127, 128, 133, 160, 255}

ASSUME Laws(Pool)

A0 == Slots \cup {0}
LiveS == {s \in Slots : str[s].live}
ArgS == LiveS \cup {0}
FreeS == {s \in Slots : ~str[s].live}
FlipC(c) == IF c >= 65 /\ c <= 90 THEN c + 32 ELSE IF c >= 97 /\ c <= 122 THEN c - 32 ELSE c
Variants(x) == { x, [i \in 1..Len(x) |-> FlipC(x[i])], SubSeq(x, 1, Len(x) - 1), Append(x, 0), Append(x, 65),
                 [i \in 1..Len(x) |-> IF i = Len(x) THEN (x[i] + 32) % 256 ELSE x[i]] }
Operands(a) == IF GenDepth > 0 /\ a # 0 THEN Pool \cup Variants(str[a].b) ELSE Pool
Opts(a) == {None} \cup {Some(x) : x \in Operands(a)}
Nul(p) == IF p.nul THEN 1 ELSE 0
Lens(x) == {0, Len(x)} \cup (IF Len(x) > 0 THEN {Len(x) - 1} ELSE {})
SeqsUpTo(S, n) == UNION {[1..k -> S] : k \in 0..n}

G == GenDepth > 0 => Len(hist) < GenDepth
Op(name, d, a, c, x, n, l) == [op |-> name, d |-> d, a |-> a, c |-> c, x |-> x, n |-> n, l |-> l]
Rec(o) == hist' = IF GenDepth > 0 THEN Append(hist, o) ELSE hist

MCInit == SInit /\ hist = <<>>

MCStatic == G /\ \E d \in FreeS, k \in StaticIdx : Adopt(d, StaticTable[k]) /\ Rec(Op("STATIC", d, 0, 0, <<>>, k, <<>>))
MCRaw == G /\ \E d \in FreeS, x \in Pool : Adopt(d, x) /\ Rec(Op("RAW", d, 0, 0, x, 0, <<>>))
MCForget == G /\ \E d \in LiveS : Forget(d) /\ Rec(Op("FORGET", d, 0, 0, <<>>, 0, <<>>))
MCNewCStr == G /\ \E d \in FreeS, x \in Pool : NewFromCStr(d, x) /\ Rec(Op("NEWC", d, 0, 0, x, 0, <<>>))
MCNewArray == G /\ \E d \in FreeS, x \in Pool : NewFromArray(d, x) /\ Rec(Op("NEWA", d, 0, 0, x, 0, <<>>))
MCNewString == G /\ \E d \in FreeS, s \in LiveS : NewFromString(d, s) /\ Rec(Op("NEWS", d, s, 0, <<>>, 0, <<>>))
MCNewCursor == G /\ \E d \in FreeS, x \in Pool : NewFromCursor(d, x) /\ Rec(Op("NEWCUR", d, 0, 0, x, 0, <<>>))
MCNewBuf == G /\ \E d \in FreeS, x \in Pool : \E n \in Lens(x) : NewFromBuf(d, x, n) /\ Rec(Op("NEWBUF", d, 0, 0, x, n, <<>>))
MCNewDst == G /\ \E d \in FreeS : NewFromDst(d) /\ Rec(Op("NEWDST", d, 0, 0, <<>>, 0, <<>>))
MCDestroy == G /\ \E a \in ArgS, rel \in A0 : Destroy(a, rel) /\ Rec(Op("DESTROY", 0, a, 0, <<>>, 0, <<>>))
MCDestroySecure == G /\ \E a \in ArgS, rel \in A0 : DestroySecure(a, rel, TRUE) /\ Rec(Op("SECURE", 0, a, 0, <<>>, 0, <<>>))
MCClone == G /\ \E d \in FreeS, s \in LiveS, same \in BOOLEAN : CloneOrReuse(d, s, same) /\ Rec(Op("CLONE", d, s, 0, <<>>, 0, <<>>))
MCEq == G /\ \E a, b \in ArgS, r \in BOOLEAN : Eq(a, b, r) /\ Rec(Op("EQ", 0, a, b, <<>>, 0, <<>>))
MCEqI == G /\ \E a, b \in ArgS, r \in BOOLEAN : EqIgnoreCase(a, b, r) /\ Rec(Op("EQI", 0, a, b, <<>>, 0, <<>>))
MCEqCur == G /\ \E a \in ArgS : \E p \in Opts(a), r \in BOOLEAN : EqCursor(a, p, r) /\ Rec(Op("EQCUR", 0, a, Nul(p), p.b, 0, <<>>))
MCEqCurI == G /\ \E a \in ArgS : \E p \in Opts(a), r \in BOOLEAN :
                EqCursorIgnoreCase(a, p, r) /\ Rec(Op("EQCURI", 0, a, Nul(p), p.b, 0, <<>>))
MCEqBuf == G /\ \E a \in ArgS : \E p \in Opts(a), r \in BOOLEAN : \E n \in Lens(p.b) :
                EqBuf(a, p.nul, p.b, n, r) /\ Rec(Op("EQBUF", 0, a, Nul(p), p.b, n, <<>>))
MCEqBufI == G /\ \E a \in ArgS : \E p \in Opts(a), r \in BOOLEAN : \E n \in Lens(p.b) :
                EqBufIgnoreCase(a, p.nul, p.b, n, r) /\ Rec(Op("EQBUFI", 0, a, Nul(p), p.b, n, <<>>))
MCEqC == G /\ \E a \in ArgS : \E p \in Opts(a), r \in BOOLEAN : EqCStr(a, p.nul, p.b, r) /\ Rec(Op("EQC", 0, a, Nul(p), p.b, 0, <<>>))
MCEqCI == G /\ \E a \in ArgS : \E p \in Opts(a), r \in BOOLEAN :
                EqCStrIgnoreCase(a, p.nul, p.b, r) /\ Rec(Op("EQCI", 0, a, Nul(p), p.b, 0, <<>>))
MCCompare == G /\ \E a, b \in ArgS, sg \in {-1, 0, 1} : Compare(a, b, sg) /\ Rec(Op("CMP", 0, a, b, <<>>, 0, <<>>))
MCComparator == G /\ \E a, b \in ArgS, sg \in {-1, 0, 1} : Comparator(a, b, sg) /\ Rec(Op("CMPREF", 0, a, b, <<>>, 0, <<>>))
MCSort == G /\ \E l \in SeqsUpTo(ArgS, MaxSort) : \E p \in Permutations(1..Len(l)) :
                Sort(l, [i \in 1..Len(l) |-> Of(l[p[i]])]) /\ Rec(Op("SORT", 0, 0, 0, <<>>, 0, l))
MCDstInit == G /\ \E cap \in Caps, x \in Pool : Len(x) <= cap /\ DstInit(cap, x, [i \in 1..(cap - Len(x)) |-> 238])
                /\ Rec(Op("BUFINIT", 0, 0, 0, x, cap, <<>>))
MCWrite == G /\ dst.on /\ \E a \in ArgS, ok \in BOOLEAN, k \in 0..Len(dst.tail) :
                (ok \/ k = 0) /\ Write(a, ok, SubSeq(dst.tail, k + 1, Len(dst.tail))) /\ Rec(Op("WRITE", 0, a, 0, <<>>, 0, <<>>))
MCWriteNoBuf == G /\ \E a \in ArgS, ok \in BOOLEAN : WriteNoBuf(a, ok) /\ Rec(Op("WRITENB", 0, a, 0, <<>>, 0, <<>>))
MCCursor == G /\ \E a \in ArgS : CursorFromString(a, IF a = 0 THEN 0 ELSE Len(str[a].b), IF a = 0 THEN <<>> ELSE str[a].b, TRUE)
                /\ Rec(Op("CURSOR", 0, a, 0, <<>>, 0, <<>>))
MCBytes == G /\ \E a \in LiveS : \E n \in 0..Len(str[a].b) : Bytes(a, TRUE, TRUE, n) /\ Rec(Op("BYTES", 0, a, 0, <<>>, 0, <<>>))
MCSecureStrlen == G /\ \E x \in Pool, ok \in BOOLEAN : \E max \in {-1, 0, Len(x), Len(x) + 7} \cup Lens(x) :
                \E n \in (IF ok THEN 0..Len(x) ELSE {0}) : SecureStrlen(x, max, ok, n) /\ Rec(Op("STRLEN", 0, 0, 0, x, max, <<>>))
MCIsValid == G /\ \E a \in ArgS, r \in BOOLEAN : IsValid(a, r) /\ Rec(Op("VALID", 0, a, 0, <<>>, 0, <<>>))
MCIsValidRaw == G /\ \E x \in Pool, t \in {0, 1, 255}, r \in BOOLEAN : IsValidRaw(x, t, r) /\ Rec(Op("VALIDRAW", 0, 0, 0, x, t, <<>>))
MCCStrIsValid == G /\ \E nul \in BOOLEAN, r \in BOOLEAN : CStrIsValid(nul, r) /\ Rec(Op("CVALID", 0, 0, 0, <<>>, IF nul THEN 1 ELSE 0, <<>>))
MCCharIsSpace == G /\ \E c \in Chars, r \in BOOLEAN : CharIsSpace(c, r) /\ Rec(Op("SPACE", 0, 0, 0, <<>>, c, <<>>))

MCNext == \/ MCStatic \/ MCRaw \/ MCForget \/ MCNewCStr \/ MCNewArray \/ MCNewString \/ MCNewCursor \/ MCNewBuf \/ MCNewDst
          \/ MCDestroy \/ MCDestroySecure \/ MCClone \/ MCEq \/ MCEqI \/ MCEqCur \/ MCEqCurI \/ MCEqBuf \/ MCEqBufI
          \/ MCEqC \/ MCEqCI \/ MCCompare \/ MCComparator \/ MCSort \/ MCDstInit \/ MCWrite \/ MCWriteNoBuf \/ MCCursor
          \/ MCBytes \/ MCSecureStrlen \/ MCIsValid \/ MCIsValidRaw \/ MCCStrIsValid \/ MCCharIsSpace
MCSpec == MCInit /\ [][MCNext]_mcvars

ImmutableP == [][Immutable]_mcvars
WriteP == [][MCWrite => AllOrNothing]_mcvars
(* only constructors add an allocation, only the destroy functions give one back, one at a time *)
BalanceP == [][/\ OwnedCount' > OwnedCount => (OwnedCount' = OwnedCount + 1 /\ \E d \in Slots : ~str[d].live /\ str'[d].own)
               /\ OwnedCount' < OwnedCount => (OwnedCount' = OwnedCount - 1 /\ (MCDestroy \/ MCDestroySecure))]_mcvars

Emit == (GenDepth > 0 /\ Len(hist) = GenDepth) => PrintT(<<"SCRIPT", ToJson([ops |-> hist])>>)
=============================================================================
