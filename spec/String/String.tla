------------------------------- MODULE String -------------------------------
(* aws_string as include/aws/common/string.h documents it (extra X01).                            *)
(* Abstract state: a few slots, each free or holding one immutable byte sequence (bytes 0..255,   *)
(* 0x00 allowed inside) together with "does the string own an allocation" (strings made by the    *)
(* aws_string_new_* functions do; AWS_STATIC_STRING_FROM_LITERAL strings and strings the caller   *)
(* laid out itself with allocator = NULL do not), plus one destination byte buffer for            *)
(* aws_byte_buf_write_from_whole_string.  Argument 0 stands for a NULL pointer.                   *)
(* Each action is a relation between pre-state, arguments, the reported result and post-state, so *)
(* the same definitions serve model checking (results quantified), behaviour generation and       *)
(* validation of traces recorded from the real library (results bound to what the code did).      *)
(* No action ever changes the bytes of a string that stays live: that is the immutability         *)
(* contract, and trace validation compares the bytes of every live string after every call.       *)
EXTENDS Naturals, Integers, Sequences, FiniteSets

CONSTANTS Slots            \* e.g. 1..3

VARIABLES str,             \* [Slots -> [live, own, b]]
          dst              \* destination buffer [on, cap, data, tail]: data = the len valid bytes, tail = memory up to cap

svars == <<str, dst>>

Free == [live |-> FALSE, own |-> FALSE, b |-> <<>>]
Mk(x, owned) == [live |-> TRUE, own |-> owned, b |-> x]
NoDst == [on |-> FALSE, cap |-> 0, data |-> <<>>, tail |-> <<>>]

Live(a) == a \in Slots /\ str[a].live
IsFree(d) == d \in Slots /\ ~str[d].live
Arg(a) == a = 0 \/ Live(a)                 \* NULL or a live string

SInit == str = [s \in Slots |-> Free] /\ dst = NoDst

-----------------------------------------------------------------------------
(* values *)
MinOf(S) == CHOOSE i \in S : \A j \in S : i <= j
Lesser(m, n) == IF m < n THEN m ELSE n

(* "C" locale case folding: only 'A'..'Z' (65..90) have a lower-case partner; '@' (64), '[' (91), '`' (96),    *)
(* '{' (123) and every byte >= 0x80 are their own class                                                        *)
Fold(c) == IF c >= 65 /\ c <= 90 THEN c + 32 ELSE c
FoldSeq(x) == [i \in 1..Len(x) |-> Fold(x[i])]

(* lexicographic order on unsigned bytes; a proper prefix sorts first *)
Cmp(x, y) ==
    LET D == {i \in 1..Lesser(Len(x), Len(y)) : x[i] # y[i]} IN
    IF D # {} THEN (IF x[MinOf(D)] < y[MinOf(D)] THEN -1 ELSE 1)
    ELSE IF Len(x) < Len(y) THEN -1
    ELSE IF Len(x) > Len(y) THEN 1 ELSE 0

(* the C string stored in a memory region: everything before the first 0x00 (the region always ends in one) *)
CStrOf(x) ==
    LET Z == {i \in 1..Len(x) : x[i] = 0} IN
    IF Z = {} THEN x ELSE SubSeq(x, 1, MinOf(Z) - 1)

(* optional values: NULL pointer or a byte sequence *)
None == [nul |-> TRUE, b |-> <<>>]
Some(x) == [nul |-> FALSE, b |-> x]
Of(a) == IF a = 0 THEN None ELSE Some(str[a].b)

(* NULL policy (the functions' entry conditions admit NULL for every operand): two NULLs are equal, a NULL    *)
(* equals nothing else and sorts before every string                                                          *)
OptEq(p, q) == IF p.nul \/ q.nul THEN p.nul /\ q.nul ELSE p.b = q.b
OptEqIC(p, q) == IF p.nul \/ q.nul THEN p.nul /\ q.nul ELSE FoldSeq(p.b) = FoldSeq(q.b)
OptCmp(p, q) == IF p.nul /\ q.nul THEN 0 ELSE IF p.nul THEN -1 ELSE IF q.nul THEN 1 ELSE Cmp(p.b, q.b)

(* the literals the harness declares with AWS_STATIC_STRING_FROM_LITERAL (len = sizeof(literal) - 1):        *)
(* "", "a", "Az", "a\0b", "@[`{", "\x80\xff\xc1", "hello, World", "AZ"                                       *)
StaticTable == << <<>>, <<97>>, <<65, 122>>, <<97, 0, 98>>, <<64, 91, 96, 123>>, <<128, 255, 193>>,
                  <<104, 101, 108, 108, 111, 44, 32, 87, 111, 114, 108, 100>>, <<65, 90>> >>

-----------------------------------------------------------------------------
(* strings the library does not own: AWS_STATIC_STRING_FROM_LITERAL, or laid out by the caller (allocator NULL) *)
Adopt(d, x) == IsFree(d) /\ str' = [str EXCEPT ![d] = Mk(x, FALSE)] /\ UNCHANGED dst
Forget(d) == Live(d) /\ ~str[d].own /\ str' = [str EXCEPT ![d] = Free] /\ UNCHANGED dst

(* constructors: a fresh string that owns one allocation and holds a copy of the source bytes. Allocation   *)
(* cannot fail (aws_mem_acquire aborts on OOM), so the result is never NULL.                                  *)
Create(d, x) == IsFree(d) /\ str' = [str EXCEPT ![d] = Mk(x, TRUE)] /\ UNCHANGED dst
NewFromCStr(d, region) == Create(d, CStrOf(region))
NewFromArray(d, x) == Create(d, x)
NewFromString(d, s) == Live(s) /\ Create(d, str[s].b)
NewFromCursor(d, x) == Create(d, x)
NewFromBuf(d, region, n) == n <= Len(region) /\ Create(d, SubSeq(region, 1, n))   \* len bytes, not capacity
NewFromDst(d) == dst.on /\ Create(d, dst.data)                                    \* new_from_buf on the destination buffer

(* destroy: releases exactly the string's own allocation; no-op for NULL and for strings without allocator.  *)
(* rel = the slot whose memory the allocator saw released during the call (0: nothing released)              *)
Destroy(a, rel) ==
    /\ Arg(a)
    /\ IF a # 0 /\ str[a].own
       THEN rel = a /\ str' = [str EXCEPT ![a] = Free]
       ELSE rel = 0 /\ UNCHANGED str
    /\ UNCHANGED dst

(* destroy_secure: additionally every data byte was zero when the allocator got the memory back.             *)
(* "Not safe to run on a string created with AWS_STATIC_STRING_FROM_LITERAL": only NULL or owned strings.    *)
DestroySecure(a, rel, zeroed) ==
    /\ a = 0 \/ (Live(a) /\ str[a].own)
    /\ IF a # 0
       THEN rel = a /\ zeroed /\ str' = [str EXCEPT ![a] = Free]
       ELSE rel = 0 /\ UNCHANGED str
    /\ UNCHANGED dst

(* clone_or_reuse: no allocator -> the same pointer comes back; otherwise a fresh equal copy *)
CloneOrReuse(d, s, same) ==
    /\ Live(s) /\ IsFree(d)
    /\ same <=> ~str[s].own
    /\ str' = [str EXCEPT ![d] = str[s]]
    /\ UNCHANGED dst

(* equality family *)
Eq(a, b, r) == Arg(a) /\ Arg(b) /\ (r <=> OptEq(Of(a), Of(b))) /\ UNCHANGED svars
EqIgnoreCase(a, b, r) == Arg(a) /\ Arg(b) /\ (r <=> OptEqIC(Of(a), Of(b))) /\ UNCHANGED svars
EqCursor(a, cur, r) == Arg(a) /\ (r <=> OptEq(Of(a), cur)) /\ UNCHANGED svars
EqCursorIgnoreCase(a, cur, r) == Arg(a) /\ (r <=> OptEqIC(Of(a), cur)) /\ UNCHANGED svars
BufVal(nul, region, n) == IF nul THEN None ELSE Some(SubSeq(region, 1, n))
EqBuf(a, nul, region, n, r) == Arg(a) /\ n <= Len(region) /\ (r <=> OptEq(Of(a), BufVal(nul, region, n))) /\ UNCHANGED svars
EqBufIgnoreCase(a, nul, region, n, r) ==
    Arg(a) /\ n <= Len(region) /\ (r <=> OptEqIC(Of(a), BufVal(nul, region, n))) /\ UNCHANGED svars
CVal(nul, region) == IF nul THEN None ELSE Some(CStrOf(region))
EqCStr(a, nul, region, r) == Arg(a) /\ (r <=> OptEq(Of(a), CVal(nul, region))) /\ UNCHANGED svars
EqCStrIgnoreCase(a, nul, region, r) == Arg(a) /\ (r <=> OptEqIC(Of(a), CVal(nul, region))) /\ UNCHANGED svars

(* compare and the array-list comparator (which receives pointers to the list elements): only the sign matters *)
Compare(a, b, sign) == Arg(a) /\ Arg(b) /\ sign = OptCmp(Of(a), Of(b)) /\ UNCHANGED svars
Comparator(a, b, sign) == Compare(a, b, sign)

(* sorting an array list of string pointers with the comparator: the output is the input rearranged, in order. *)
(* Equal strings are indistinguishable here, so the sequence of contents is determined.                        *)
CountIn(q, v) == Cardinality({i \in 1..Len(q) : q[i] = v})
SameBag(p, q) == Len(p) = Len(q) /\ \A i \in 1..Len(p) : CountIn(p, p[i]) = CountIn(q, p[i])
Sorted(q) == \A i \in 1..(Len(q) - 1) : OptCmp(q[i], q[i + 1]) <= 0
Sort(in, out) ==
    /\ \A i \in 1..Len(in) : Arg(in[i])
    /\ SameBag([i \in 1..Len(in) |-> Of(in[i])], out)
    /\ Sorted(out)
    /\ UNCHANGED svars

(* the destination buffer (caller's memory) *)
DstInit(cap, data, tail) ==
    /\ Len(data) + Len(tail) = cap
    /\ dst' = [on |-> TRUE, cap |-> cap, data |-> data, tail |-> tail]
    /\ UNCHANGED str

(* write_from_whole_string: all or nothing. Fits -> appended, length grows by exactly the string's length   *)
(* (what the rest of the capacity holds afterwards is open: newtail); does not fit, or src NULL -> false     *)
(* and the buffer, memory included, is as before.                                                            *)
Write(a, ok, newtail) ==
    /\ dst.on /\ Arg(a)
    /\ IF a = 0 THEN ~ok /\ UNCHANGED dst
       ELSE LET x == str[a].b IN
            /\ ok <=> Len(dst.data) + Len(x) <= dst.cap
            /\ IF ok THEN /\ Len(newtail) = dst.cap - Len(dst.data) - Len(x)
                          /\ dst' = [dst EXCEPT !.data = dst.data \o x, !.tail = newtail]
               ELSE UNCHANGED dst
    /\ UNCHANGED str
WriteNoBuf(a, ok) == Arg(a) /\ ~ok /\ UNCHANGED svars        \* buf == NULL

(* byte_cursor_from_string: a view of the string's own bytes; NULL -> empty cursor *)
CursorFromString(a, n, x, sameptr) ==
    /\ Arg(a)
    /\ IF a = 0 THEN n = 0 ELSE n = Len(str[a].b) /\ x = str[a].b /\ sameptr
    /\ UNCHANGED svars

(* aws_string_bytes / aws_string_c_str: both are str->bytes; read as a C string it ends at the first 0x00,   *)
(* which is the terminator right after len bytes unless the content has an embedded one                      *)
Bytes(a, samebytes, samecstr, clen) ==
    /\ Live(a) /\ samebytes /\ samecstr
    /\ clen = Len(CStrOf(str[a].b))
    /\ UNCHANGED svars

(* aws_secure_strlen over a readable region mem; max < 0 stands for SIZE_MAX. Environment: the region either *)
(* has a terminator among its first max bytes or is at least max bytes long.                                 *)
SecureStrlen(mem, max, ok, n) ==
    LET lim == IF max < 0 \/ max > Len(mem) THEN Len(mem) ELSE max
        Z == {i \in 1..lim : mem[i] = 0} IN
    /\ Z = {} => (max >= 0 /\ max <= Len(mem))
    /\ ok <=> Z # {}
    /\ ok => n = MinOf(Z) - 1
    /\ UNCHANGED svars

(* aws_string_is_valid: NULL is not a valid string, every live one is; a struct whose byte after len is not  *)
(* 0x00 is not valid. aws_c_string_is_valid: non-NULL. aws_char_is_space: the six ASCII white characters.    *)
IsValid(a, r) == Arg(a) /\ (r <=> a # 0) /\ UNCHANGED svars
IsValidRaw(x, term, r) == (r <=> term = 0) /\ UNCHANGED svars
CStrIsValid(nul, r) == (r <=> ~nul) /\ UNCHANGED svars
CharIsSpace(c, r) == (r <=> c \in {9, 10, 11, 12, 13, 32}) /\ UNCHANGED svars

-----------------------------------------------------------------------------
(* consistency of the specification itself (checked by TLC in MC.cfg) *)
TypeOK ==
    /\ \A s \in Slots : str[s].live \in BOOLEAN /\ str[s].own \in BOOLEAN /\ (~str[s].live => str[s] = Free)
    /\ dst.on \in BOOLEAN
DstBound == Len(dst.data) + Len(dst.tail) = dst.cap
OwnedCount == Cardinality({s \in Slots : str[s].live /\ str[s].own})     \* = allocations the strings hold

(* step properties *)
Immutable == \A s \in Slots : (str[s].live /\ str'[s].live) => str'[s] = str[s]
AllOrNothing ==          \* of a write_from_whole_string step
    \/ dst' = dst
    \/ /\ dst'.cap = dst.cap /\ dst'.on
       /\ \E s \in Slots : Live(s) /\ dst'.data = dst.data \o str[s].b
       /\ Len(dst'.data) + Len(dst'.tail) = dst.cap

(* order/equivalence laws of the value-level definitions over a finite set of sequences *)
Laws(P) ==
    /\ \A x, y \in P : Cmp(x, y) = 0 <=> x = y
    /\ \A x, y \in P : Cmp(x, y) = 0 - Cmp(y, x)
    /\ \A x, y, z \in P : (Cmp(x, y) <= 0 /\ Cmp(y, z) <= 0) => Cmp(x, z) <= 0
    /\ \A x, y \in P : (x = y) => (FoldSeq(x) = FoldSeq(y))
    /\ \A x \in P : Cmp(SubSeq(x, 1, Len(x) - 1), x) = (IF Len(x) = 0 THEN 0 ELSE -1)
    /\ \A x \in P : Len(CStrOf(x)) <= Len(x) /\ (\A i \in 1..Len(CStrOf(x)) : CStrOf(x)[i] # 0)
=============================================================================
