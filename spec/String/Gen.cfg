SPECIFICATION MCSpec
CONSTANTS Slots = {1, 2, 3, 4}
  Pool <- PoolGen
  StaticIdx = {1, 2, 3, 4, 5, 6, 7, 8}
  Caps = {0, 1, 3, 8, 12, 13, 24}
  Chars <- CharsGen
  MaxSort = 3
  GenDepth = 45
INVARIANT Emit
