----------------------------- MODULE ThreadSched -----------------------------
(* Implementation-shaped model of source/thread_scheduler.c (after the two fix: commits), one    *)
(* step per critical section / condition-variable operation / atomic access, so that TLC visits  *)
(* every interleaving of the client threads with the scheduler thread and with the destroyer.    *)
(*                                                                                                *)
(*   scheduler thread:  chk (load exit flag) -> lk1 (lock + swap both hand-over queues) -> ul1   *)
(*        -> proc (feed tasks, apply cancels, read clock, run all due) -> calc (timeout)          *)
(*        -> lk2 -> pred -> [blk (atomically unlock + wait) -> rq (re-lock after wake)] -> ul2    *)
(*   client:            schedule = lock+push ; unlock ; notify                                    *)
(*                      cancel   = lock+search/remove+push cancel record ; unlock ; notify        *)
(*                      release  = (last reference) store exit ; notify all ; join ; drain ;     *)
(*                                 clean up (cancel everything pending)                           *)
(* Checked: every handed-over task is invoked exactly once, RUN only on the scheduler thread and *)
(* never early, everything invoked before the final release returns, no deadlock, cancellation   *)
(* records all freed; and (FairSpec) the final release eventually returns.                       *)
EXTENDS Naturals, Sequences, FiniteSets, TLC

CONSTANTS Clients,      \* set of client ids
          Tasks,
          Progs,        \* set of functions Clients -> Seq(op);  op = <<"N", t>> | <<"F", t, delay>> | <<"X", t>> | <<"R">>
          MaxTime,
          WithFix       \* TRUE: the repaired algorithm; FALSE: the pinned one (for demonstrating F2 / F3 in the model)

FAR == 99   \* "30 seconds from now": beyond every modelled time

VARIABLES prog, ip, cpc,        \* per client: program, instruction pointer, micro step
          mtx,                  \* "free" or the holder
          schedQ, cancelQ,      \* hand-over queues (under mtx): Seq(task), Seq([task, removed])
          exitFlag, refs,
          tpc, listCpy, cancelCpy, runTime, timeout, deadline, waiting, timedout, tDone,
          inner,                \* tasks held by the inner task scheduler
          due, now,
          inv,                  \* [Tasks -> Seq([status, thr, time])]   invocations (the observable)
          handed,               \* tasks whose schedule call has started
          nodes,                \* live cancellation records (allocation balance)
          closed

vars == <<prog, ip, cpc, mtx, schedQ, cancelQ, exitFlag, refs, tpc, listCpy, cancelCpy, runTime, timeout, deadline,
          waiting, timedout, tDone, inner, due, now, inv, handed, nodes, closed>>

Init ==
    /\ prog \in Progs /\ ip = [c \in Clients |-> 1] /\ cpc = [c \in Clients |-> "op"]
    /\ mtx = "free" /\ schedQ = <<>> /\ cancelQ = <<>> /\ exitFlag = FALSE /\ refs = Cardinality(Clients)
    /\ tpc = "chk" /\ listCpy = <<>> /\ cancelCpy = <<>> /\ runTime = 0 /\ timeout = 0 /\ deadline = 0
    /\ waiting = FALSE /\ timedout = FALSE /\ tDone = FALSE
    /\ inner = {} /\ due = [t \in Tasks |-> 0] /\ now = 0
    /\ inv = [t \in Tasks |-> <<>>] /\ handed = {} /\ nodes = 0 /\ closed = FALSE

Invoke(iv, t, status, thr) == [iv EXCEPT ![t] = Append(@, [status |-> status, thr |-> thr, time |-> now])]

(* s_process_queues: feed tasks then apply cancellations; returns <<inner', inv', freed>> *)
RECURSIVE ApplyCancels(_, _, _, _)
ApplyCancels(cs, inn, iv, thr) ==
    IF cs = <<>> THEN <<inn, iv>>
    ELSE LET n == Head(cs)
             hit == IF WithFix THEN (n.removed \/ n.task \in inn) ELSE TRUE IN
         IF hit THEN ApplyCancels(Tail(cs), inn \ {n.task}, Invoke(iv, n.task, "CANCELED", thr), thr)
         ELSE ApplyCancels(Tail(cs), inn, iv, thr)

Range(s) == {s[i] : i \in 1 .. Len(s)}

RECURSIVE RunDue(_, _, _)
RunDue(ts, inn, iv) ==
    IF ts = {} THEN <<inn, iv>>
    ELSE LET t == CHOOSE x \in ts : \A y \in ts : due[x] <= due[y] IN
         RunDue(ts \ {t}, inn \ {t}, Invoke(iv, t, "RUN", "T"))

MinDue(S) == IF S = {} THEN FAR ELSE CHOOSE d \in {due[t] : t \in S} : \A t \in S : d <= due[t]

-----------------------------------------------------------------------------
(* scheduler thread *)
T_Chk == /\ tpc = "chk" /\ tpc' = IF exitFlag THEN "exit" ELSE "lk1"
         /\ UNCHANGED <<prog, ip, cpc, mtx, schedQ, cancelQ, exitFlag, refs, listCpy, cancelCpy, runTime, timeout, deadline,
                        waiting, timedout, tDone, inner, due, now, inv, handed, nodes, closed>>
T_Exit == /\ tpc = "exit" /\ tpc' = "gone" /\ tDone' = TRUE
          /\ UNCHANGED <<prog, ip, cpc, mtx, schedQ, cancelQ, exitFlag, refs, listCpy, cancelCpy, runTime, timeout, deadline,
                         waiting, timedout, inner, due, now, inv, handed, nodes, closed>>
T_LockSwap == /\ tpc = "lk1" /\ mtx = "free" /\ mtx' = "T"
              /\ listCpy' = schedQ /\ cancelCpy' = cancelQ /\ schedQ' = <<>> /\ cancelQ' = <<>> /\ tpc' = "ul1"
              /\ UNCHANGED <<prog, ip, cpc, exitFlag, refs, runTime, timeout, deadline, waiting, timedout, tDone, inner,
                             due, now, inv, handed, nodes, closed>>
T_Unlock1 == /\ tpc = "ul1" /\ mtx' = "free" /\ tpc' = "proc"
             /\ UNCHANGED <<prog, ip, cpc, schedQ, cancelQ, exitFlag, refs, listCpy, cancelCpy, runTime, timeout, deadline,
                            waiting, timedout, tDone, inner, due, now, inv, handed, nodes, closed>>
(* feed, cancel, read the clock, run everything that is due *)
T_RunOne == /\ tpc = "proc"
            /\ LET fed == inner \cup Range(listCpy)
                   r1 == ApplyCancels(cancelCpy, fed, inv, "T")
                   dueNow == {t \in r1[1] : due[t] <= now}
                   r2 == RunDue(dueNow, r1[1], r1[2]) IN
               /\ inner' = r2[1] /\ inv' = r2[2]
               /\ nodes' = nodes - Len(cancelCpy)
            /\ listCpy' = <<>> /\ cancelCpy' = <<>> /\ runTime' = now /\ tpc' = "calc"
            /\ UNCHANGED <<prog, ip, cpc, mtx, schedQ, cancelQ, exitFlag, refs, timeout, deadline, waiting, timedout, tDone,
                           due, now, handed, closed>>
T_Calc == /\ tpc = "calc"
          /\ LET nx == MinDue(inner)
                 to == IF nx = FAR THEN FAR ELSE (IF nx > runTime THEN nx - runTime ELSE 0) IN
             /\ timeout' = to /\ tpc' = IF to > 0 THEN "lk2" ELSE "chk"
          /\ UNCHANGED <<prog, ip, cpc, mtx, schedQ, cancelQ, exitFlag, refs, listCpy, cancelCpy, runTime, deadline, waiting,
                         timedout, tDone, inner, due, now, inv, handed, nodes, closed>>
T_Lock2 == /\ tpc = "lk2" /\ mtx = "free" /\ mtx' = "T" /\ tpc' = "pred"
           /\ UNCHANGED <<prog, ip, cpc, schedQ, cancelQ, exitFlag, refs, listCpy, cancelCpy, runTime, timeout, deadline, waiting,
                          timedout, tDone, inner, due, now, inv, handed, nodes, closed>>
Pred == exitFlag \/ schedQ # <<>> \/ cancelQ # <<>> \/ MinDue(inner) <= now
T_Pred == /\ tpc = "pred" /\ tpc' = IF Pred THEN "ul2" ELSE "blk"
          /\ UNCHANGED <<prog, ip, cpc, mtx, schedQ, cancelQ, exitFlag, refs, listCpy, cancelCpy, runTime, timeout, deadline, waiting,
                         timedout, tDone, inner, due, now, inv, handed, nodes, closed>>
(* pthread_cond_timedwait: atomically release the mutex and start waiting *)
T_Wait == /\ tpc = "blk" /\ mtx' = "free" /\ waiting' = TRUE /\ timedout' = FALSE
          /\ deadline' = IF timeout = FAR THEN FAR ELSE now + timeout
          /\ tpc' = "wt"
          /\ UNCHANGED <<prog, ip, cpc, schedQ, cancelQ, exitFlag, refs, listCpy, cancelCpy, runTime, timeout, tDone, inner, due,
                         now, inv, handed, nodes, closed>>
T_Timeout == /\ tpc = "wt" /\ waiting /\ (deadline = FAR \/ deadline <= now \/ now = MaxTime)  \* time is unbounded; MaxTime only bounds the model
             /\ waiting' = FALSE /\ timedout' = TRUE /\ tpc' = "rq"
             /\ UNCHANGED <<prog, ip, cpc, mtx, schedQ, cancelQ, exitFlag, refs, listCpy, cancelCpy, runTime, timeout, deadline, tDone,
                            inner, due, now, inv, handed, nodes, closed>>
T_Reacquire == /\ tpc = "rq" /\ mtx = "free" /\ mtx' = "T"
               /\ tpc' = IF timedout THEN "ul2" ELSE "pred"
               /\ UNCHANGED <<prog, ip, cpc, schedQ, cancelQ, exitFlag, refs, listCpy, cancelCpy, runTime, timeout, deadline, waiting,
                              timedout, tDone, inner, due, now, inv, handed, nodes, closed>>
T_Unlock2 == /\ tpc = "ul2" /\ mtx' = "free" /\ tpc' = "chk"
             /\ UNCHANGED <<prog, ip, cpc, schedQ, cancelQ, exitFlag, refs, listCpy, cancelCpy, runTime, timeout, deadline, waiting,
                            timedout, tDone, inner, due, now, inv, handed, nodes, closed>>

(* notify: wakes the scheduler thread if (and only if) it is waiting *)
NotifyEffect == IF waiting THEN waiting' = FALSE /\ tpc' = "rq" /\ timedout' = FALSE
                ELSE UNCHANGED <<waiting, tpc, timedout>>

-----------------------------------------------------------------------------
(* clients *)
Cur(c) == prog[c][ip[c]]
HasOp(c) == ip[c] <= Len(prog[c])
Adv(c) == ip' = [ip EXCEPT ![c] = @ + 1] /\ cpc' = [cpc EXCEPT ![c] = "op"]

(* schedule_now / schedule_future: lock + push *)
C_SchedLock(c) ==
    /\ HasOp(c) /\ cpc[c] = "op" /\ Cur(c)[1] \in {"N", "F"} /\ mtx = "free"
    /\ LET t == Cur(c)[2] IN
       /\ mtx' = c /\ schedQ' = Append(schedQ, t) /\ handed' = handed \cup {t}
       /\ due' = [due EXCEPT ![t] = IF Cur(c)[1] = "N" THEN 0 ELSE now + Cur(c)[3]]
    /\ cpc' = [cpc EXCEPT ![c] = "ul"]
    /\ UNCHANGED <<prog, ip, cancelQ, exitFlag, refs, tpc, listCpy, cancelCpy, runTime, timeout, deadline, waiting, timedout,
                   tDone, inner, now, inv, nodes, closed>>
(* <<"Z", T>>: the client sleeps until the clock shows T (absolute) - a moment at which the client cannot do anything *)
C_Sleep(c) ==
    /\ HasOp(c) /\ cpc[c] = "op" /\ Cur(c)[1] = "Z"
    /\ cpc' = [cpc EXCEPT ![c] = "slp"]
    /\ UNCHANGED <<prog, ip, mtx, schedQ, cancelQ, exitFlag, refs, tpc, listCpy, cancelCpy, runTime, timeout, deadline, waiting,
                   timedout, tDone, inner, due, now, inv, handed, nodes, closed>>
C_Wake(c) ==
    /\ HasOp(c) /\ cpc[c] = "slp" /\ now >= Cur(c)[2]
    /\ Adv(c)
    /\ UNCHANGED <<prog, mtx, schedQ, cancelQ, exitFlag, refs, tpc, listCpy, cancelCpy, runTime, timeout, deadline, waiting,
                   timedout, tDone, inner, due, now, inv, handed, nodes, closed>>
(* cancel: only if the schedule call has started and the client has not seen the task run (racy by nature) *)
C_CancelSkip(c) ==
    /\ HasOp(c) /\ cpc[c] = "op" /\ Cur(c)[1] = "X"
    /\ (Cur(c)[2] \notin handed \/ inv[Cur(c)[2]] # <<>>)
    /\ Adv(c)
    /\ UNCHANGED <<prog, mtx, schedQ, cancelQ, exitFlag, refs, tpc, listCpy, cancelCpy, runTime, timeout, deadline, waiting, timedout,
                   tDone, inner, due, now, inv, handed, nodes, closed>>
C_CancelLock(c) ==
    /\ HasOp(c) /\ cpc[c] = "op" /\ Cur(c)[1] = "X" /\ mtx = "free"
    /\ Cur(c)[2] \in handed /\ inv[Cur(c)[2]] = <<>>
    /\ LET t == Cur(c)[2]
           found == t \in Range(schedQ) IN
       /\ mtx' = c
       /\ schedQ' = SelectSeq(schedQ, LAMBDA x : x # t)
       /\ cancelQ' = Append(cancelQ, [task |-> t, removed |-> found])
    /\ nodes' = nodes + 1
    /\ cpc' = [cpc EXCEPT ![c] = "ul"]
    /\ UNCHANGED <<prog, ip, exitFlag, refs, tpc, listCpy, cancelCpy, runTime, timeout, deadline, waiting, timedout, tDone, inner,
                   due, now, inv, handed, closed>>
C_Unlock(c) ==
    /\ cpc[c] = "ul" /\ mtx = c /\ mtx' = "free" /\ cpc' = [cpc EXCEPT ![c] = "nt"]
    /\ UNCHANGED <<prog, ip, schedQ, cancelQ, exitFlag, refs, tpc, listCpy, cancelCpy, runTime, timeout, deadline, waiting, timedout,
                   tDone, inner, due, now, inv, handed, nodes, closed>>
C_Notify(c) ==
    /\ cpc[c] = "nt" /\ NotifyEffect /\ Adv(c)
    /\ UNCHANGED <<prog, mtx, schedQ, cancelQ, exitFlag, refs, listCpy, cancelCpy, runTime, timeout, deadline, tDone, inner, due, now,
                   inv, handed, nodes, closed>>

(* release: not the last reference -> just drop it *)
C_ReleaseDrop(c) ==
    /\ HasOp(c) /\ cpc[c] = "op" /\ Cur(c)[1] = "R" /\ refs > 1
    /\ refs' = refs - 1 /\ Adv(c)
    /\ UNCHANGED <<prog, mtx, schedQ, cancelQ, exitFlag, tpc, listCpy, cancelCpy, runTime, timeout, deadline, waiting, timedout, tDone,
                   inner, due, now, inv, handed, nodes, closed>>
(* the last reference: s_destroy_callback *)
(* the flag is stored with the mutex held (repair F14): the store cannot fall between the thread's predicate *)
(* evaluation and its wait; the critical section contains nothing else, so it is one step                  *)
D_StoreExit(c) ==
    /\ HasOp(c) /\ cpc[c] = "op" /\ Cur(c)[1] = "R" /\ refs = 1
    /\ (WithFix => mtx = "free")
    /\ refs' = 0 /\ exitFlag' = TRUE /\ cpc' = [cpc EXCEPT ![c] = "d_nt"]
    /\ UNCHANGED <<prog, ip, mtx, schedQ, cancelQ, tpc, listCpy, cancelCpy, runTime, timeout, deadline, waiting, timedout, tDone, inner,
                   due, now, inv, handed, nodes, closed>>
D_NotifyAll(c) ==
    /\ cpc[c] = "d_nt" /\ NotifyEffect /\ cpc' = [cpc EXCEPT ![c] = "d_jn"]
    /\ UNCHANGED <<prog, ip, mtx, schedQ, cancelQ, exitFlag, refs, listCpy, cancelCpy, runTime, timeout, deadline, tDone, inner, due,
                   now, inv, handed, nodes, closed>>
D_Join(c) ==
    /\ cpc[c] = "d_jn" /\ tDone /\ cpc' = [cpc EXCEPT ![c] = "d_cl"]
    /\ UNCHANGED <<prog, ip, mtx, schedQ, cancelQ, exitFlag, refs, tpc, listCpy, cancelCpy, runTime, timeout, deadline, waiting, timedout,
                   tDone, inner, due, now, inv, handed, nodes, closed>>
(* drain what the thread never picked up (the F2 repair), then cancel everything still pending *)
RECURSIVE CancelAll(_, _, _)
CancelAll(ts, iv, thr) == IF ts = {} THEN iv ELSE LET t == CHOOSE x \in ts : TRUE IN CancelAll(ts \ {t}, Invoke(iv, t, "CANCELED", thr), thr)
D_CleanUp(c) ==
    /\ cpc[c] = "d_cl"
    /\ LET fed == IF WithFix THEN inner \cup Range(schedQ) ELSE inner
           r1 == IF WithFix THEN ApplyCancels(cancelQ, fed, inv, c) ELSE <<fed, inv>> IN
       /\ inv' = CancelAll(r1[1], r1[2], c)
       /\ inner' = {}
       /\ nodes' = IF WithFix THEN nodes - Len(cancelQ) ELSE nodes
       /\ schedQ' = IF WithFix THEN <<>> ELSE schedQ
       /\ cancelQ' = IF WithFix THEN <<>> ELSE cancelQ
    /\ closed' = TRUE /\ Adv(c)
    /\ UNCHANGED <<prog, mtx, exitFlag, refs, tpc, listCpy, cancelCpy, runTime, timeout, deadline, waiting, timedout, tDone, due, now,
                   handed>>

Tick == /\ now < MaxTime /\ now' = now + 1
        /\ UNCHANGED <<prog, ip, cpc, mtx, schedQ, cancelQ, exitFlag, refs, tpc, listCpy, cancelCpy, runTime, timeout, deadline, waiting,
                       timedout, tDone, inner, due, inv, handed, nodes, closed>>

AllDone == closed /\ \A c \in Clients : ~HasOp(c)
Done == AllDone /\ UNCHANGED vars

TNext == T_Chk \/ T_Exit \/ T_LockSwap \/ T_Unlock1 \/ T_RunOne \/ T_Calc \/ T_Lock2 \/ T_Pred \/ T_Wait \/ T_Timeout
            \/ T_Reacquire \/ T_Unlock2
CNext(c) == C_Sleep(c) \/ C_Wake(c) \/ C_SchedLock(c) \/ C_CancelSkip(c) \/ C_CancelLock(c) \/ C_Unlock(c) \/ C_Notify(c) \/ C_ReleaseDrop(c)
            \/ D_StoreExit(c) \/ D_NotifyAll(c) \/ D_Join(c) \/ D_CleanUp(c)
Next == TNext \/ (\E c \in Clients : CNext(c)) \/ Tick \/ Done

Spec == Init /\ [][Next]_vars
FairSpec == Spec /\ SF_vars(TNext) /\ WF_vars(Tick) /\ \A c \in Clients : SF_vars(CNext(c))   \* strong fairness: a thread that keeps finding the mutex free eventually gets it

-----------------------------------------------------------------------------
(* C08 on the model *)
AtMostOnce == \A t \in Tasks : Len(inv[t]) <= 1
ExactlyOnceAtClose == closed => \A t \in handed : Len(inv[t]) = 1
RunOnlyOnSchedThread == \A t \in Tasks : \A i \in 1 .. Len(inv[t]) : inv[t][i].status = "RUN" => inv[t][i].thr = "T"
NeverEarly == \A t \in Tasks : \A i \in 1 .. Len(inv[t]) : inv[t][i].status = "RUN" => inv[t][i].time >= due[t]
ThreadGoneAtClose == closed => tDone
NoLeak == closed => nodes = 0
(* the final release never has to sit out the thread's timed wait: once the destroyer has notified and is  *)
(* joining, the thread is not asleep on its condition variable                                              *)
NoSleepThroughExit == ~(exitFlag /\ tpc = "wt" /\ waiting /\ \E c \in Clients : cpc[c] = "d_jn")
MutexSane == mtx \in {"free", "T"} \cup Clients
(* Quiescence (what checks/c08.py observes as the event Idle): the scheduler thread is blocked in its timed wait with its  *)
(* deadline still ahead, and every client is asleep, finished or waiting for the thread to end.  QuietClock is the harness's  *)
(* virtual clock as an action constraint: time passes only at such moments.  Under it a handed-over task whose time has       *)
(* come has been invoked whenever the system is quiescent - for every interleaving of the hand-over with the thread's loop.  *)
ClientQuiet(c) == ~HasOp(c) \/ (cpc[c] = "slp" /\ now < Cur(c)[2]) \/ cpc[c] = "d_jn"
Quiescent == /\ tpc = "wt" /\ waiting /\ (deadline = FAR \/ deadline > now)
             /\ \A c \in Clients : ClientQuiet(c)
QuietClock == now' # now => Quiescent
NoDueTaskWhenQuiet == (Quiescent /\ ~exitFlag) => \A t \in handed : inv[t] = <<>> => due[t] > now
ReleaseReturns == <>AllDone
=============================================================================
