SPECIFICATION Spec
CONSTANTS Clients = {"c1"}
  Tasks = {1, 2}
  Progs <- Progs1
  MaxTime = 2
  WithFix = FALSE
INVARIANTS AtMostOnce ExactlyOnceAtClose NoLeak NoSleepThroughExit
