SPECIFICATION Spec
CONSTANTS Clients = {"c1", "c2"}
  Tasks = {1, 2}
  Progs <- Progs2
  MaxTime = 2
  WithFix = TRUE
INVARIANTS AtMostOnce ExactlyOnceAtClose RunOnlyOnSchedThread NeverEarly ThreadGoneAtClose NoLeak MutexSane NoSleepThroughExit
