SPECIFICATION Spec
CONSTANTS Clients = {"c1", "c2"}
  Tasks = {1, 2}
  Progs <- ProgsQuiet
  MaxTime = 4
  WithFix = TRUE
ACTION_CONSTRAINT QuietClock
INVARIANTS AtMostOnce NeverEarly MutexSane NoDueTaskWhenQuiet
