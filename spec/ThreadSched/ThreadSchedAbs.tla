--------------------------- MODULE ThreadSchedAbs ---------------------------
(* Property C08 as a state machine over what a user of aws_thread_scheduler can observe:         *)
(* schedule / cancel requests (at call start), task-function invocations, release begin / end.   *)
(* Nothing of the hand-over queues, the lock or the condition variable appears here.             *)
EXTENDS Naturals, Sequences, FiniteSets

CONSTANTS Tasks

VARIABLES st,        \* [Tasks -> {"idle", "pending", "done"}]
          due,       \* [Tasks -> <<seconds, nanoseconds>>]  a RUN invocation may not happen before
          creq,      \* [Tasks -> BOOLEAN]  a cancel was requested while the task was pending
          nclients,  \* number of references handed to clients
          relBegun, relEnded,
          closed     \* the final release has returned

absvars == <<st, due, creq, nclients, relBegun, relEnded, closed>>

TimeLE(a, b) == a[1] < b[1] \/ (a[1] = b[1] /\ a[2] <= b[2])
FinalBegun == relBegun = nclients

AbsInit(n) ==
    /\ st = [t \in Tasks |-> "idle"] /\ due = [t \in Tasks |-> <<0, 0>>] /\ creq = [t \in Tasks |-> FALSE]
    /\ nclients = n /\ relBegun = 0 /\ relEnded = 0 /\ closed = FALSE

(* a client hands a task over (logged when the call starts). Environment: only idle/completed tasks,  *)
(* and only by a client that still holds its reference.                                               *)
Sched(t, at) ==
    /\ ~FinalBegun /\ st[t] # "pending"
    /\ st' = [st EXCEPT ![t] = "pending"] /\ due' = [due EXCEPT ![t] = at] /\ creq' = [creq EXCEPT ![t] = FALSE]
    /\ UNCHANGED <<nclients, relBegun, relEnded, closed>>

(* a cancel request (logged when the call starts): it only matters if the task is still pending *)
Cancel(t) ==
    /\ ~FinalBegun
    /\ creq' = [creq EXCEPT ![t] = (st[t] = "pending")]
    /\ UNCHANGED <<st, due, nclients, relBegun, relEnded, closed>>

(* the task function is invoked: exactly once per hand-over, RUN only on the scheduler's thread and  *)
(* not before its time, CANCELED only after a cancel request or once the last reference is going away *)
Invoked(t, status, thr, vt) ==
    /\ st[t] = "pending" /\ ~closed
    /\ status \in {"RUN", "CANCELED"}
    /\ status = "RUN" => (thr = "sched" /\ TimeLE(due[t], vt))
    /\ status = "CANCELED" => (creq[t] \/ FinalBegun)
    /\ st' = [st EXCEPT ![t] = "done"]
    /\ UNCHANGED <<due, creq, nclients, relBegun, relEnded, closed>>

(* one more reference, taken (logged when the call starts) by a client that still holds one: there is one more release to *)
(* wait for before the scheduler may go away                                                                                *)
AcqRef ==
    /\ ~FinalBegun /\ nclients' = nclients + 1
    /\ UNCHANGED <<st, due, creq, relBegun, relEnded, closed>>

RelBegin ==
    /\ relBegun < nclients /\ relBegun' = relBegun + 1
    /\ UNCHANGED <<st, due, creq, nclients, relEnded, closed>>

(* a release returns; the final one only after every handed-over task has been invoked *)
RelEnd ==
    /\ relEnded < relBegun /\ relEnded' = relEnded + 1
    /\ IF relEnded' = nclients
       THEN closed' = TRUE /\ \A t \in Tasks : st[t] # "pending"
       ELSE closed' = closed
    /\ UNCHANGED <<st, due, creq, nclients, relBegun>>

(* Quiescence: every thread of the program is blocked and only the passing of time can wake one (the harness reports it  *)
(* together with the number of times its virtual clock has so far jumped while a thread could have run).  On a clock     *)
(* that only moves when nobody can run, a task whose time has come cannot still be waiting at such a moment: whoever      *)
(* handed it over has returned, the scheduler thread has seen it (or it has been lost), and nothing else will happen      *)
(* until time passes - "no interleaving loses a task", observed without waiting for the final release.  When the clock    *)
(* has jumped under a runnable thread the scheduler thread may legitimately be late, so nothing is demanded then.         *)
Idle(vt, unforced) ==
    /\ unforced = 0 => \A t \in Tasks : st[t] = "pending" => ~TimeLE(due[t], vt)
    /\ UNCHANGED absvars

(* end of the execution: scheduler thread exited and joined, nothing leaked *)
Finished(live, unjoined) == closed /\ live = 0 /\ unjoined = 0 /\ UNCHANGED absvars

ExactlyOnce == closed => \A t \in Tasks : st[t] # "pending"
=============================================================================
