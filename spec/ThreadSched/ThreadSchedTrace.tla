-------------------------- MODULE ThreadSchedTrace --------------------------
EXTENDS ThreadSchedAbs, TraceCommon
VARIABLES l
Ev == TraceLog[l]

TSetup == /\ Ev.e = "Setup" /\ nclients' = Ev.nclients
          /\ UNCHANGED <<st, due, creq, relBegun, relEnded, closed>>
TSched == Ev.e = "Sched" /\ Sched(Ev.task, <<Ev.at[1], Ev.at[2]>>)
TCancel == Ev.e = "Cancel" /\ Cancel(Ev.task)
TInvoked == Ev.e = "Invoked" /\ Invoked(Ev.task, Ev.status, Ev.thr, <<Ev.vt[1], Ev.vt[2]>>)
TIdle == Ev.e = "Idle" /\ Idle(<<Ev.vt[1], Ev.vt[2]>>, Ev.unforced)
TAcqRef == Ev.e = "AcqRef" /\ AcqRef
TRelBegin == Ev.e = "RelBegin" /\ RelBegin
TRelEnd == Ev.e = "RelEnd" /\ RelEnd
TEnd == Ev.e = "End" /\ Finished(Ev.live, Ev.unjoined)

ResetVars == /\ st' = [t \in Tasks |-> "idle"] /\ due' = [t \in Tasks |-> <<0, 0>>] /\ creq' = [t \in Tasks |-> FALSE]
             /\ nclients' = 0 /\ relBegun' = 0 /\ relEnded' = 0 /\ closed' = FALSE
TResetA == Ev.e = "Reset" /\ ResetVars

TNext == l <= TraceLen /\ l' = l + 1 /\
         (TResetA \/ TSetup \/ TSched \/ TCancel \/ TInvoked \/ TIdle \/ TAcqRef \/ TRelBegin \/ TRelEnd \/ TEnd)
TInit == l = 1 /\ AbsInit(0)
TSpec == TInit /\ [][TNext]_<<absvars, l>>
=============================================================================
