SPECIFICATION Spec
CONSTANTS Clients = {"c1", "c2"}
  Tasks = {1, 2}
  Progs <- ProgsQuiet
  MaxTime = 4
  WithFix = TRUE
INVARIANTS AtMostOnce NeverEarly MutexSane NoDueTaskWhenQuiet
