SPECIFICATION Spec
CONSTANTS Clients = {"c1"}
  Tasks = {1, 2}
  Progs <- Progs1
  MaxTime = 3
  WithFix = TRUE
INVARIANTS AtMostOnce ExactlyOnceAtClose RunOnlyOnSchedThread NeverEarly ThreadGoneAtClose NoLeak MutexSane NoSleepThroughExit
