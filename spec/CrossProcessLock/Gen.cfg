SPECIFICATION MCSpec
CONSTANTS
  Procs = {1, 2, 3}
  Nonces = {1, 2}
  Slots = {1, 2}
  WBase = 32768
  BaseFds = 5
  MemCosts = {1}
  Hard = 3
  GenDepth = 28
INVARIANT Emit
