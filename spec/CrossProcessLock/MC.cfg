SPECIFICATION MCSpec
CONSTANTS
  Procs = {1, 2, 3}
  Nonces = {1, 2}
  Slots = {1, 2}
  WBase = 32768
  BaseFds = 5
  MemCosts = {1, 2}
  Hard = 2
  GenDepth = 0
VIEW View
INVARIANTS TypeOK MutualExclusion HoldersAlive SlotUnique ResInv LimInv FreeIsGrantable
PROPERTIES GrantOnlyIfFree AtMostOneGrant
