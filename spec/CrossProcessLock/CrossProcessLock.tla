-------------------------- MODULE CrossProcessLock --------------------------
(* aws_cross_process_lock as cross_process_lock.h documents it: a system-wide try-lock per nonce.            *)
(*   "For any given unique nonce, a lock will be returned by the first caller. Subsequent calls will return  *)
(*    NULL and raise AWS_ERROR_MUTEX_CALLER_NOT_OWNER until either the process owning the lock exits or the  *)
(*    program owning the lock calls aws_cross_process_lock_release() explicitly. If the process exits before *)
(*    the lock is released, the kernel will unlock it for the next consumer."                                *)
(* State: which processes exist, and the set of lock instances that exist (process, handle slot of that      *)
(* process, nonce). "Subsequent calls" are calls from ANY process, the owner included. Besides the grant /    *)
(* refuse decision the actions state what a user can observe about resources: a refused or failed call keeps *)
(* neither a descriptor nor memory, a held lock keeps exactly one descriptor open and some memory, release   *)
(* gives both back. Each action is a relation between pre-state, arguments, reported results and post-state. *)
EXTENDS Naturals, FiniteSets

CONSTANTS Procs,     \* process slots, e.g. 1..3 (a slot is re-used by a fresh process after its process died)
          Nonces,    \* nonce ids
          Slots      \* handle slots per process (where the caller keeps the returned pointer)

VARIABLES alive,     \* [Procs -> BOOLEAN]
          locks,     \* set of [p, h, n, m]: lock instances that currently exist (m: allocator blocks the instance owns)
          res        \* [Procs -> [fds, live]] : open descriptors / live allocator blocks of the process

lvars == <<alive, locks, res>>

NotOwner == "AWS_ERROR_MUTEX_CALLER_NOT_OWNER"
InvalidArg == "AWS_ERROR_INVALID_ARGUMENT"
Gone == [fds |-> 0, live |-> 0]

Held(n) == {k \in locks : k.n = n}
Free(n) == Held(n) = {}
Of(p) == {k \in locks : k.p = p}
SlotBusy(p, h) == \E k \in locks : k.p = p /\ k.h = h

(* try_acquire(nonce n) in process p, result kept in the (empty) slot h.                                      *)
(* got: a lock was returned; err: the error name raised when none was; r: resources of p after the call.      *)
TryAcquire(p, n, h, got, err, r) ==
    /\ alive[p] /\ n \in Nonces /\ h \in Slots /\ ~SlotBusy(p, h)
    /\ got <=> Free(n)                                  \* granted iff nobody - in any process - holds the nonce
    /\ IF got
       THEN /\ r.fds = res[p].fds + 1                   \* the lock file stays open while the lock is held
            /\ r.live > res[p].live                    \* how much memory an instance owns is the library's business
            /\ locks' = locks \cup {[p |-> p, h |-> h, n |-> n, m |-> r.live - res[p].live]}
       ELSE /\ err = NotOwner
            /\ UNCHANGED locks
            /\ r = res[p]                               \* a refused call keeps nothing
    /\ res' = [res EXCEPT ![p] = r]
    /\ UNCHANGED alive

(* try_acquire with a nonce that contains '/': refused, nothing touched *)
BadNonce(p, got, err, r) ==
    /\ alive[p]
    /\ ~got /\ err = InvalidArg
    /\ r = res[p]
    /\ UNCHANGED lvars

(* release of the lock in slot h of process p (h = 0: release(NULL), a no-op) *)
Release(p, h, r) ==
    /\ alive[p]
    /\ IF h = 0
       THEN r = res[p] /\ UNCHANGED lvars
       ELSE /\ SlotBusy(p, h)
            /\ locks' = {k \in locks : ~(k.p = p /\ k.h = h)}
            /\ r.fds = res[p].fds - 1                   \* the descriptor is closed ...
            /\ \E k \in locks : k.p = p /\ k.h = h /\ r.live + k.m = res[p].live   \* ... and the instance's memory is freed
            /\ res' = [res EXCEPT ![p] = r]
            /\ UNCHANGED alive

(* the process ends (here: is killed) without releasing: every lock it holds becomes free *)
Exit(p) ==
    /\ alive[p]
    /\ alive' = [alive EXCEPT ![p] = FALSE]
    /\ locks' = locks \ Of(p)
    /\ res' = [res EXCEPT ![p] = Gone]

(* a fresh process takes the slot *)
Spawn(p, r) ==
    /\ ~alive[p]
    /\ r.live = 0
    /\ alive' = [alive EXCEPT ![p] = TRUE]
    /\ res' = [res EXCEPT ![p] = r]
    /\ UNCHANGED locks

-----------------------------------------------------------------------------
(* properties of the specification, checked by TLC on CrossProcessLockMC *)
MutualExclusion == \A a, b \in locks : a.n = b.n => a = b              \* at most one holder per nonce, system-wide
HoldersAlive == \A k \in locks : alive[k.p]                            \* a dead process holds nothing
SlotUnique == \A a, b \in locks : (a.p = b.p /\ a.h = b.h) => a = b
(* a lock is granted only for a free nonce, and a free nonce is never refused (action property) *)
Grants == {k \in locks' : k \notin locks}
GrantOnlyIfFree == [][\A k \in Grants : Free(k.n)]_lvars
AtMostOneGrant == [][Cardinality(Grants) <= 1]_lvars
=============================================================================
