------------------------- MODULE CrossProcessLockMC -------------------------
(* Bounded exploration of CrossProcessLock + Process: every interleaving of the calls of 2-3 processes on 2   *)
(* nonces (try_acquire into either handle slot, release, release(NULL), a nonce with '/', the process being   *)
(* killed while it holds locks, a fresh process taking its place), together with the process utilities. Every *)
(* result a (possibly wrong) implementation could report is offered to the relations of the specification,    *)
(* which pick the allowed ones; the documented properties are checked on every state / transition. With       *)
(* GenDepth > 0 the same module generates operation scripts by simulation (history variable).                 *)
EXTENDS CrossProcessLock, Process, TLC, Json

CONSTANTS BaseFds,      \* descriptors a fresh worker process has open
          MemCosts,     \* allocator blocks a lock instance may own in the model
          Hard,         \* the hard limit in the model (a small number); soft limits and set_soft arguments: 1..Hard+1
          GenDepth
VARIABLES hist

mcvars == <<alive, locks, res, lim, hist>>
View == <<alive, locks, res, lim>>

Op(name, p, a, b) == [op |-> name, p |-> p, a |-> a, b |-> b]
Rec(o) == hist' = IF GenDepth > 0 THEN Append(hist, o) ELSE hist
G == GenDepth > 0 => Len(hist) < GenDepth

Fresh == [fds |-> BaseFds, live |-> 0]
Lim0 == [soft |-> WFromNat(Hard), hard |-> WFromNat(Hard)]
Errs == {NotOwner, InvalidArg, "AWS_ERROR_FILE_INVALID_PATH"}
(* resources a call could leave behind: nothing changed, one descriptor / some blocks more or less *)
ResCands(p) == {[fds |-> f, live |-> v] : f \in {res[p].fds - 1, res[p].fds, res[p].fds + 1} \cap Nat,
                                          v \in {res[p].live + d : d \in MemCosts \cup {0}} \cup
                                                {res[p].live - d : d \in {e \in MemCosts : e <= res[p].live}}}

MCInit == /\ alive = [p \in Procs |-> TRUE] /\ locks = {} /\ res = [p \in Procs |-> Fresh]
          /\ lim = [p \in Procs |-> Lim0]
          /\ hist = <<>>

MCTryAcquire == /\ G
                /\ \E p \in Procs, n \in Nonces, h \in Slots, got \in BOOLEAN, err \in Errs : \E r \in ResCands(p) :
                      TryAcquire(p, n, h, got, err, r) /\ Rec(Op("ACQ", p, n, h))
                /\ UNCHANGED lim
MCBadNonce == /\ G
              /\ \E p \in Procs, k \in 1..3, got \in BOOLEAN, err \in Errs : \E r \in ResCands(p) :
                    BadNonce(p, got, err, r) /\ Rec(Op("BAD", p, k, 1))
              /\ UNCHANGED lim
MCRelease == /\ G
             /\ \E p \in Procs, h \in Slots \cup {0} : \E r \in ResCands(p) :
                   Release(p, h, r) /\ Rec(Op("REL", p, h, 0))
             /\ UNCHANGED lim
MCExit == /\ G
          /\ \E p \in Procs : Exit(p) /\ Rec(Op("KILL", p, 0, 0))
          /\ UNCHANGED lim
MCSpawn == /\ G
           /\ \E p \in Procs : Spawn(p, Fresh) /\ lim' = [lim EXCEPT ![p] = Lim0] /\ Rec(Op("SPAWN", p, 0, 0))

LimW == {WFromNat(v) : v \in 1..(Hard + 1)}
MCGetPid == /\ G
            /\ \E p \in Procs, pid \in {7, 8} : alive[p] /\ GetPid(pid, 7) /\ Rec(Op("PID", p, 0, 0))
            /\ UNCHANGED <<lvars, lim>>
MCGetLimits == /\ G
               /\ \E p \in Procs, s \in LimW, h \in LimW : alive[p] /\ GetLimits(p, s, h) /\ Rec(Op("LIM", p, 0, 0))
               /\ UNCHANGED lvars
MCSetSoft == /\ G
             /\ \E p \in Procs, v \in 1..(Hard + 1), rc \in {0, OpErr} :
                   alive[p] /\ SetSoft(p, WFromNat(v), rc) /\ Rec(Op("SETSOFT", p, v, 0))
             /\ UNCHANGED lvars

(* commands of the model: (lead, core length, trail, exit code); digests of a core = its length here *)
Args == {[lead |-> a, clen |-> c, d1 |-> c, d2 |-> c, trail |-> t, exit |-> x] :
            a \in {0, 1}, c \in {0, 1, 3}, t \in {0, 2}, x \in {0, 3}}
OutCands(arg) == {[has |-> hs, lead |-> a, clen |-> c, d1 |-> c, d2 |-> c, trail |-> t, term |-> tm] :
            hs \in {0, 1}, a \in {0, 1}, c \in {0, 1, 2, 3}, t \in {0, 1, 2}, tm \in {0, 1}}
(* the call is stateless: a few commands and faulty captures per state are enough here, the ASSUMEs below cover Args *)
RunArgs == {a \in Args : a.lead = 1 /\ a.trail = 2 /\ a.clen # 1}
RunOuts == {o \in OutCands([clen |-> 0]) : o.term = 1 /\ o.clen # 2 /\ o.trail # 1}
MCRun == /\ G
         /\ \E p \in Procs, arg \in RunArgs, rc \in {0, OpErr}, ret \in {0, 3, 768}, en \in {0, 1} : \E out \in RunOuts :
               alive[p] /\ RunCommand(arg, rc, ret, out, en, ExitCodeIs)
               /\ Rec(Op("RUN", p, arg.lead * 100 + arg.clen * 10 + arg.trail, arg.exit))
         /\ UNCHANGED <<lvars, lim>>

MCNext == \/ MCTryAcquire \/ MCBadNonce \/ MCRelease \/ MCExit \/ MCSpawn
          \/ MCGetPid \/ MCGetLimits \/ MCSetSoft \/ MCRun
MCSpec == MCInit /\ [][MCNext]_mcvars

-----------------------------------------------------------------------------
RECURSIVE SumM(_)
SumM(S) == IF S = {} THEN 0 ELSE LET k == CHOOSE x \in S : TRUE IN k.m + SumM(S \ {k})

TypeOK == /\ alive \in [Procs -> BOOLEAN]
          /\ \A k \in locks : k.p \in Procs /\ k.h \in Slots /\ k.n \in Nonces /\ k.m \in MemCosts
          /\ \A p \in Procs : res[p].fds \in Nat /\ res[p].live \in Nat
(* resources are a function of what the process holds: one descriptor per held lock, no memory without a lock *)
ResInv == \A p \in Procs : alive[p] => /\ res[p].fds = BaseFds + Cardinality(Of(p))
                                       /\ res[p].live = SumM(Of(p))
LimInv == \A p \in Procs : LimitsSane(lim[p]) /\ ~WIsZero(lim[p].soft) /\ WEq(lim[p].hard, WFromNat(Hard))
(* a nonce nobody holds can always be had by anybody alive; a held one by nobody (the try-lock never blocks:   *)
(* both outcomes are immediate results of the call)                                                           *)
FreeIsGrantable == \A n \in Nonces, p \in Procs, h \in Slots :
                      (alive[p] /\ ~SlotBusy(p, h)) =>
                          (Free(n) <=> ENABLED (\E r \in ResCands(p) : TryAcquire(p, n, h, TRUE, "", r)))

(* the capture relation has teeth: what single faults would report is refused *)
ASSUME \A arg \in Args : \A out \in OutCands(arg) :
          Captured(arg, out) => /\ out.clen = arg.clen                                 \* no truncation, nothing invented
                                /\ out.lead + out.clen + out.trail <= arg.lead + arg.clen + arg.trail
                                /\ (out.has = 0 => arg.clen = 0)
ASSUME \A arg \in Args : \E out \in OutCands(arg) : Captured(arg, out) /\ out.lead = arg.lead /\ out.trail = arg.trail
ASSUME \A arg \in Args : \E out \in OutCands(arg) : Captured(arg, out) /\ out.lead = 0 /\ out.trail = 0

Emit == (GenDepth > 0 /\ Len(hist) = GenDepth) => PrintT(<<"SCRIPT", ToJson([ops |-> hist])>>)
=============================================================================
