------------------------ MODULE CrossProcessLockTrace ------------------------
(* Trace validation for X09: every event recorded by the coordinator (one real call made by one real worker    *)
(* process, or a worker being killed / forked) must be explained by the action of the same name in            *)
(* CrossProcessLock.tla / Process.tla with exactly the logged arguments and results, and the state observed     *)
(* after the step - which slots hold a process, open descriptors and live allocator blocks of every process -  *)
(* must equal the specification's.                                                                             *)
EXTENDS CrossProcessLock, Process, TraceCommon

VARIABLES l
Ev == TraceLog[l]
tvars == <<alive, locks, res, lim, l>>

(* deviations of known findings (DESIGN 3.3) are enabled from the environment by checks/x09.py; with nothing    *)
(* enabled this is the strict specification                                                                    *)
DevOn(name) == ("VERIF_DEV_" \o name) \in DOMAIN IOEnv

R(p) == [fds |-> Ev.s.fds[p], live |-> Ev.s.live[p]]
Observed(s) == \A p \in Procs : /\ (s.alive[p] = 1) <=> alive'[p]
                                /\ alive'[p] => (s.fds[p] = res'[p].fds /\ s.live[p] = res'[p].live)
LimOf(x) == [soft |-> WNorm(x.soft), hard |-> WNorm(x.hard)]
Nobody == [soft |-> <<>>, hard |-> <<>>]

TReset == /\ Ev.e = "Reset"
          /\ alive' = [p \in Procs |-> Ev.s.alive[p] = 1]
          /\ \A p \in Procs : alive'[p] <=> p <= Ev.np
          /\ locks' = {}
          /\ res' = [p \in Procs |-> IF Ev.s.alive[p] = 1 THEN R(p) ELSE Gone]
          /\ \A p \in Procs : alive'[p] => Ev.s.live[p] = 0
          /\ lim' = [p \in Procs |-> IF Ev.s.alive[p] = 1 THEN LimOf(Ev.lim[p]) ELSE Nobody]

LockStep(A) == A /\ UNCHANGED lim /\ Observed(Ev.s)
ProcStep(A) == alive[Ev.p] /\ A /\ R(Ev.p) = res[Ev.p] /\ UNCHANGED lvars /\ Observed(Ev.s)

TTryAcquire == Ev.e = "TryAcquire" /\ LockStep(TryAcquire(Ev.p, Ev.n, Ev.h, Ev.got = 1, Ev.err, R(Ev.p)))
TBadNonce == Ev.e = "BadNonce" /\ LockStep(BadNonce(Ev.p, Ev.got = 1, Ev.err, R(Ev.p)))
TRelease == /\ Ev.e = "Release"
            /\ (Ev.had = 1) <=> (Ev.h # 0 /\ SlotBusy(Ev.p, Ev.h))     \* the adapter's slot table and the model agree
            /\ LockStep(Release(Ev.p, IF Ev.had = 1 THEN Ev.h ELSE 0, R(Ev.p)))
TKill == Ev.e = "Kill" /\ LockStep(Exit(Ev.p))
TSpawn == /\ Ev.e = "Spawn"
          /\ Spawn(Ev.p, R(Ev.p))
          /\ lim' = [lim EXCEPT ![Ev.p] = LimOf(Ev.lim[Ev.p])]
          /\ Observed(Ev.s)
(* a stale thread-local error code left behind in the worker: changes nothing, and nothing may depend on it *)
TStale == Ev.e = "Stale" /\ alive[Ev.p] /\ UNCHANGED <<lvars, lim>> /\ Observed(Ev.s)

TPid == Ev.e = "Pid" /\ ProcStep(GetPid(Ev.pid, Ev.os)) /\ UNCHANGED lim
TLimits == /\ Ev.e = "Limits"
           /\ ProcStep(GetLimits(Ev.p, Ev.soft, Ev.hard))
           /\ WEq(Ev.rsoft, Ev.soft) /\ WEq(Ev.rhard, Ev.hard)          \* plain getrlimit agrees
TSetSoft == /\ Ev.e = "SetSoft"
            /\ ProcStep(SetSoft(Ev.p, Ev.v, Ev.rc))
            /\ WEq(Ev.soft, lim'[Ev.p].soft) /\ WEq(Ev.hard, lim'[Ev.p].hard)     \* what the getters say afterwards
            /\ WEq(Ev.rsoft, Ev.soft) /\ WEq(Ev.rhard, Ev.hard)
TRun == /\ Ev.e = "Run" /\ Ev.irc = 0
        /\ ProcStep(RunCommand(Ev.arg, Ev.rc, Ev.ret, Ev.out, Ev.errnull, ExitCodeIs)) /\ UNCHANGED lim

TEnd == Ev.e = "End" /\ Ev.live = 0 /\ UNCHANGED <<lvars, lim>>

-----------------------------------------------------------------------------
(* Pending finding "SlashStaleError": the '/' test of aws_cross_process_lock_try_acquire reads aws_last_error()  *)
(* after a SUCCESSFUL search; when the thread's stale last error happens to be AWS_ERROR_STRING_MATCH_NOT_FOUND  *)
(* (which every successful acquire leaves behind) the nonce is not refused and the call goes on to open the      *)
(* path. The deviation explains only that: such a stale code before the call, no lock returned, the error of     *)
(* the failed open, nothing kept.                                                                              *)
Dev_SlashStaleError ==
    /\ DevOn("SlashStaleError")
    /\ Ev.e = "BadNonce" /\ alive[Ev.p]
    /\ Ev.pre = "AWS_ERROR_STRING_MATCH_NOT_FOUND"
    /\ Ev.got = 0 /\ Ev.err = "AWS_ERROR_FILE_INVALID_PATH"
    /\ R(Ev.p) = res[Ev.p]
    /\ PrintT(<<"FIRED", "SlashStaleError", "BadNonce">>)
    /\ UNCHANGED <<lvars, lim>> /\ Observed(Ev.s)

(* Pending finding "RawWaitStatus": ret_code is the wait status pclose() returns (exit code N reported as       *)
(* 256 * N), not the command's return code. The deviation explains only that number for a non-zero exit code.  *)
WaitStatusIs(arg, ret) == arg.exit # 0 /\ ret = 256 * arg.exit
Dev_RawWaitStatus ==
    /\ DevOn("RawWaitStatus")
    /\ Ev.e = "Run" /\ Ev.irc = 0
    /\ ProcStep(RunCommand(Ev.arg, Ev.rc, Ev.ret, Ev.out, Ev.errnull, WaitStatusIs)) /\ UNCHANGED lim
    /\ PrintT(<<"FIRED", "RawWaitStatus", "Run">>)

TNext == /\ l <= TraceLen /\ l' = l + 1
         /\ \/ TReset \/ TTryAcquire \/ TBadNonce \/ TRelease \/ TKill \/ TSpawn \/ TStale
            \/ TPid \/ TLimits \/ TSetSoft \/ TRun \/ TEnd
            \/ Dev_SlashStaleError \/ Dev_RawWaitStatus
TInit == /\ l = 1
         /\ alive = [p \in Procs |-> FALSE] /\ locks = {} /\ res = [p \in Procs |-> Gone]
         /\ lim = [p \in Procs |-> Nobody]
TSpec == TInit /\ [][TNext]_tvars
=============================================================================
