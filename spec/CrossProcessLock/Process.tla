------------------------------- MODULE Process -------------------------------
(* The process utilities of aws/common/process.h as the header documents them.                               *)
(*   aws_get_pid                   "Returns the current process's PID"                                       *)
(*   aws_get_soft/hard_limit_io_handles  the soft / hard limit for max io handles (RLIMIT_NOFILE); "the soft *)
(*                                 limit can be changed up to the hard limit by any process"                 *)
(*   aws_set_soft_limit_io_handles "This can be up to the hard limit but may not exceed it."                 *)
(*   aws_run_command               ret_code: "return code from running the command"; std_out: "captured      *)
(*                                 stdout message from running the command"; std_err: "currently not         *)
(*                                 implemented and the value will be set to NULL".                           *)
(* Limits are wide numbers (RLIM_INFINITY does not fit a TLC integer): little-endian base-2^15 limbs.        *)
(* Left open because the header is silent: the error code of a refused set_soft; whether white space at the  *)
(* two ends of the captured output is kept (the implementation trims it) and whether an empty capture is     *)
(* NULL or an empty string; there is no documented maximum size of the capture, so none is allowed.          *)
EXTENDS Integers, Sequences, Wide

VARIABLES lim        \* [process -> [soft, hard]] (wide numbers)

OpErr == 0 - 1

(* a fresh process starts with the limits it inherits (reported when the process is created) *)
LimitsSane(L) == WLe(L.soft, L.hard)

GetPid(pid, ospid) == pid = ospid                        \* ospid: what fork() told the parent

(* both getters report the limits of the calling process *)
GetLimits(p, soft, hard) ==
    /\ WEq(soft, lim[p].soft) /\ WEq(hard, lim[p].hard)
    /\ WLe(soft, hard)
    /\ UNCHANGED lim

(* set_soft(v), v >= 1: succeeds iff v <= hard and is then what get_soft reports; a refused call changes nothing *)
SetSoft(p, v, rc) ==
    /\ ~WIsZero(v)
    /\ IF WLe(v, lim[p].hard)
       THEN rc = 0 /\ lim' = [lim EXCEPT ![p].soft = WNorm(v)]
       ELSE rc = OpErr /\ UNCHANGED lim

-----------------------------------------------------------------------------
(* aws_run_command. The command is described by what it writes to its standard output - lead white-space     *)
(* characters, a core that neither starts nor ends with white space (length and two digests; clen = 0: no    *)
(* core), trail white-space characters - and by its exit code. The captured string is described the same way. *)
ExitCodeIs(arg, ret) == ret = arg.exit                   \* the return code of the command

Captured(arg, out) ==
    /\ IF arg.clen = 0
       THEN out.clen = 0 /\ out.lead + out.trail <= arg.lead + arg.trail
       ELSE /\ out.clen = arg.clen /\ out.d1 = arg.d1 /\ out.d2 = arg.d2      \* every byte of the output, however long
            /\ out.lead <= arg.lead /\ out.trail <= arg.trail                  \* white space at the ends may be dropped
    /\ out.has = 0 => out.lead + out.clen + out.trail = 0                      \* NULL only for an empty capture
    /\ out.has = 1 => out.term = 1                                             \* an aws_string is NUL-terminated

RunCommand(arg, rc, ret, out, errnull, RetRel(_, _)) ==
    /\ rc = 0
    /\ RetRel(arg, ret)
    /\ Captured(arg, out)
    /\ errnull = 1
=============================================================================
