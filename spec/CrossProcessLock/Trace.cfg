SPECIFICATION TSpec
CONSTANTS
  Procs = {1, 2, 3}
  Nonces = {1, 2, 3, 4, 5, 6, 7, 8}
  Slots = {1, 2, 3, 4}
  WBase = 32768
POSTCONDITION TraceAccepted
CHECK_DEADLOCK FALSE
