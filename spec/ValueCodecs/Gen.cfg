SPECIFICATION MCSpec
VIEW mcview
CONSTANTS USlots = {1, 2, 3}
  WBase = 32768
  Phases = {"all"}
  UPool <- UPoolGen
  RPool <- RPoolAll
  WPool <- WGen
  Caps = {0, 35, 36, 37, 38, 40, 73, 74, 75, 112}
  Pre <- PreSmall
  MemPool <- MemGen
  Toks <- TokAll
  MaxTok = 0
  MaxMut = 1000
  GenDepth = 40
INVARIANT Emit
