SPECIFICATION MCSpec
VIEW mcview
CONSTANTS USlots = {1, 2}
  WBase = 32768
  Phases = {"uuid", "mem", "host"}
  UPool <- UPoolSmall
  RPool <- RPoolAll
  WPool <- WGen
  Caps = {36, 37, 40, 75}
  Pre <- PreSmall
  MemPool <- MemSmall
  Toks <- TokAll
  MaxTok = 5
  MaxMut = 2
  GenDepth = 0
INVARIANTS TypeOK GrammarAgrees MemNumbers
PROPERTIES RoundTrip AppendOnly WriteThenRead ZeroThenZeroed Pure SameMachine
