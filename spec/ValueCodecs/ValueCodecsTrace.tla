-------------------------- MODULE ValueCodecsTrace --------------------------
(* Trace validation for X08: every event recorded from the real functions of uuid.h, host_utils.h, byte_order.h,  *)
(* encoding.h (read/write primitives) and zero.h must be explained by the ValueCodecs action of the same name     *)
(* with exactly the logged arguments and results, and after every call every byte the call could have touched     *)
(* (all uuid objects, the whole output buffer up to its capacity, the whole scratch block) must equal the         *)
(* specification's state: that is the "exact bytes touched" check.                                                *)
EXTENDS ValueCodecs, TraceCommon

VARIABLES l
Ev == TraceLog[l]

B(x) == x = 1

Observed(s) ==
    /\ \A i \in USlots : s.u[i] = uu'[i]
    /\ B(s.bon) <=> buf'.on
    /\ s.bcap = buf'.cap /\ s.blen = Len(buf'.data) /\ s.bdata = buf'.data /\ s.btail = buf'.tail
    /\ s.bptr = 1                                    \* still the caller's memory
    /\ s.mem = mem'

(* the machine: how 0x01020304 lies in memory *)
TReset == /\ Ev.e = "Reset"
          /\ Ev.probe \in {<<1, 2, 3, 4>>, <<4, 3, 2, 1>>}
          /\ big' = (Ev.probe = <<1, 2, 3, 4>>)
          /\ uu' = [s \in USlots |-> Zeros(16)] /\ seen' = {}
          /\ buf' = [on |-> FALSE, cap |-> 0, data |-> <<>>, tail |-> <<>>] /\ mem' = <<>>
          /\ Observed(Ev.s)

TUSet == Ev.e = "USet" /\ USet(Ev.d, Ev.b) /\ Observed(Ev.s)
(* the adapter fills the object with one byte value (pre) right before the call *)
TUInit == /\ Ev.e = "UInit" /\ Ev.d \in USlots
          /\ UuidInit(Ev.d, Ev.pre, Ev.rc, Ev.s.u[Ev.d])
          /\ Observed(Ev.s)
TUFromStr == /\ Ev.e = "UFromStr" /\ Ev.d \in USlots
             /\ UuidFromStr(Ev.d, Ev.t, Ev.rc, Ev.err, Ev.s.u[Ev.d])
             /\ Ev.clen = Len(Ev.t) /\ Ev.cptr = 1         \* the const cursor is untouched
             /\ Observed(Ev.s)
TUToStr == Ev.e = "UToStr" /\ UuidToStr(Ev.a, Ev.rc, Ev.err, Ev.s.btail) /\ Observed(Ev.s)
TUEquals == Ev.e = "UEquals" /\ UuidEquals(Ev.a, Ev.c, B(Ev.r)) /\ Observed(Ev.s)
TUZero == Ev.e = "UZero" /\ UuidZero(Ev.d) /\ Observed(Ev.s)
TUIsZeroed == Ev.e = "UIsZeroed" /\ UuidIsZeroed(Ev.a, B(Ev.r)) /\ Observed(Ev.s)
TBufInit == Ev.e = "BufInit" /\ BufInit(Ev.cap, Ev.b, Ev.s.btail) /\ Observed(Ev.s)
TMemInit == Ev.e = "MemInit" /\ MemInit(Ev.b) /\ Observed(Ev.s)
TWrite == Ev.e = "Write" /\ Write(Ev.n, Ev.off, Ev.w) /\ Observed(Ev.s)
TRead == Ev.e = "Read" /\ Read(Ev.n, Ev.off, Ev.w) /\ Observed(Ev.s)
TSecureZero == Ev.e = "SecureZero" /\ SecureZero(Ev.off, Ev.n) /\ Observed(Ev.s)
TIsZeroed == Ev.e = "IsZeroed" /\ IsZeroed(Ev.off, Ev.n, B(Ev.r)) /\ Observed(Ev.s)
THton == Ev.e = "Hton" /\ Hton(Ev.n, Ev.w, Ev.m) /\ Observed(Ev.s)
TNtoh == Ev.e = "Ntoh" /\ Ntoh(Ev.n, Ev.m, Ev.w) /\ Observed(Ev.s)
THtonF == Ev.e = "HtonF" /\ HtonF(Ev.n, Ev.m, Ev.r) /\ Observed(Ev.s)
TNtohF == Ev.e = "NtohF" /\ NtohF(Ev.n, Ev.m, Ev.r) /\ Observed(Ev.s)
TIsBigEndian == Ev.e = "IsBigEndian" /\ IsBigEndian(Ev.r) /\ Observed(Ev.s)
TIsIpv4 == Ev.e = "IsIpv4" /\ IsIpv4(Ev.t, B(Ev.r)) /\ Observed(Ev.s)
TIsIpv6 == Ev.e = "IsIpv6" /\ IsIpv6(Ev.t, B(Ev.enc), B(Ev.r)) /\ Observed(Ev.s)

TEnd == Ev.e = "End" /\ Ev.live = 0 /\ UNCHANGED svars

TNext == /\ l <= TraceLen /\ l' = l + 1
         /\ \/ TReset \/ TUSet \/ TUInit \/ TUFromStr \/ TUToStr \/ TUEquals \/ TUZero \/ TUIsZeroed \/ TBufInit \/ TMemInit
            \/ TWrite \/ TRead \/ TSecureZero \/ TIsZeroed \/ THton \/ TNtoh \/ THtonF \/ TNtohF \/ TIsBigEndian
            \/ TIsIpv4 \/ TIsIpv6 \/ TEnd
TInit == l = 1 /\ SInit /\ big = FALSE
TSpec == TInit /\ [][TNext]_<<svars, l>>
=============================================================================
