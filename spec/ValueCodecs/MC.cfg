SPECIFICATION MCSpec
VIEW mcview
CONSTANTS USlots = {1, 2}
  WBase = 32768
  Phases = {"uuid", "mem", "host"}
  UPool <- UPoolSmall
  RPool <- RPoolAll
  WPool <- WSmall
  Caps = {36, 37, 40}
  Pre <- PreSmall
  MemPool <- MemSmall
  Toks <- TokQuick
  MaxTok = 4
  MaxMut = 2
  GenDepth = 0
INVARIANTS TypeOK GrammarAgrees MemNumbers
PROPERTIES RoundTrip AppendOnly WriteThenRead ZeroThenZeroed Pure SameMachine
