---------------------------- MODULE ValueCodecs ----------------------------
(* Small value codecs of aws-c-common (extra X08): uuid.h, host_utils.h, byte_order.h, the big-endian read/write *)
(* primitives of encoding.h and zero.h.                                                                            *)
(* Abstract state: a few uuid objects (16 bytes each), one output byte buffer for aws_uuid_to_str (capacity,      *)
(* valid bytes, rest of the capacity), one scratch memory block for the read/write/zero primitives, and the       *)
(* platform fact "this machine is big endian".  Numbers are naturals (Wide.tla: limb sequences, so 64-bit values  *)
(* fit TLC's integers); texts and memory are sequences of bytes 0..255.                                           *)
(* Each action is a relation between pre-state, arguments, the reported result and post-state, so the same        *)
(* definitions serve model checking (results quantified), behaviour generation and validation of traces recorded  *)
(* from the real library (results bound to what the code did).                                                    *)
(* Where the headers are silent the relation is three-valued: a text MUST be accepted, MUST be refused, or the    *)
(* verdict is left open (..Must / ..May pairs below).                                                             *)
EXTENDS Integers, Sequences, FiniteSets, Wide

CONSTANTS USlots           \* e.g. 1..3

VARIABLES big,             \* the machine stores the most significant byte first (fixed per execution)
          uu,              \* [USlots -> 16 bytes]
          seen,            \* the uuids aws_uuid_init has handed out in this execution
          buf,             \* [on, cap, data, tail]: data = the len valid bytes, tail = memory up to cap
          mem              \* scratch memory block (<<>>: none)

svars == <<big, uu, seen, buf, mem>>

-----------------------------------------------------------------------------
(* sequences *)
MinOf(S) == CHOOSE i \in S : \A j \in S : i <= j
MaxOf(S) == CHOOSE i \in S : \A j \in S : j <= i
Rev(s) == [i \in 1..Len(s) |-> s[Len(s) + 1 - i]]
Zeros(n) == [i \in 1..n |-> 0]
Splice(m, off, x) == [i \in 1..Len(m) |-> IF i > off /\ i <= off + Len(x) THEN x[i - off] ELSE m[i]]
Slice(m, off, n) == SubSeq(m, off + 1, off + n)
IsBytes(x) == \A i \in 1..Len(x) : x[i] \in 0..255
CountOf(t, P(_)) == Cardinality({i \in 1..Len(t) : P(t[i])})

RECURSIVE Split(_, _)      \* fields between separators; k separators give k + 1 fields, empty ones included
Split(s, sep) ==
    LET P == {i \in 1..Len(s) : s[i] = sep} IN
    IF P = {} THEN <<s>>
    ELSE <<SubSeq(s, 1, MinOf(P) - 1)>> \o Split(SubSeq(s, MinOf(P) + 1, Len(s)), sep)

(* characters *)
IsDigit(c) == c >= 48 /\ c <= 57
HexVal(c) == IF c >= 48 /\ c <= 57 THEN c - 48
             ELSE IF c >= 97 /\ c <= 102 THEN c - 87
             ELSE IF c >= 65 /\ c <= 70 THEN c - 55 ELSE -1
IsHex(c) == HexVal(c) >= 0
IsLowerHex(c) == IsDigit(c) \/ (c >= 97 /\ c <= 102)
IsAlnum(c) == IsDigit(c) \/ (c >= 65 /\ c <= 90) \/ (c >= 97 /\ c <= 122)
IsBlank(c) == c \in {9, 10, 11, 12, 13, 32}
HexLo(n) == IF n < 10 THEN 48 + n ELSE 87 + n
Dash == 45
Colon == 58
Dot == 46
Percent == 37

-----------------------------------------------------------------------------
(* UUID: 16 bytes <-> 36 characters 8-4-4-4-12 *)
UuidTextLen == 36
UuidStrLen == 37            \* AWS_UUID_STR_LEN: "36 bytes for the UUID plus one more for the null terminator"
DashPos == {9, 14, 19, 24}
NibIdx(p) == p - Cardinality({d \in DashPos : d < p})          \* which of the 32 hex digits sits at text position p
TextPos(q) == q + (IF q > 20 THEN 4 ELSE IF q > 16 THEN 3 ELSE IF q > 12 THEN 2 ELSE IF q > 8 THEN 1 ELSE 0)

UuidText(b) ==
    [p \in 1..UuidTextLen |->
        IF p \in DashPos THEN Dash
        ELSE LET q == NibIdx(p)
                 by == b[(q + 1) \div 2]
             IN HexLo(IF q % 2 = 1 THEN by \div 16 ELSE by % 16)]

(* exactly the canonical shape, either letter case / lower case only *)
Strict(t) == Len(t) = UuidTextLen /\ \A p \in 1..UuidTextLen : IF p \in DashPos THEN t[p] = Dash ELSE IsHex(t[p])
StrictLower(t) == Len(t) = UuidTextLen /\ \A p \in 1..UuidTextLen : IF p \in DashPos THEN t[p] = Dash ELSE IsLowerHex(t[p])
Parse(t) == [k \in 1..16 |-> 16 * HexVal(t[TextPos(2 * k - 1)]) + HexVal(t[TextPos(2 * k)])]

(* uuid.h carries no prose. What a lenient reader (the code scans with scanf conversions) could still repair is left  *)
(* open: blanks, signs, "0x", short groups, anything after the 31st character. Beyond repair, hence MUST be refused:  *)
(* a character that is neither a hex digit, a dash, a sign, a blank nor 'x' among the first 31, fewer than four       *)
(* dashes, or fewer than sixteen hex digits in the 36 characters.                                                     *)
Repairable(c) == IsHex(c) \/ IsBlank(c) \/ c \in {Dash, 43, 120, 88}
Hopeless(t) ==
    \/ \E p \in 1..31 : ~Repairable(t[p])
    \/ CountOf(t, LAMBDA c : c = Dash) < 4
    \/ CountOf(t, IsHex) < 16

(* error codes: the header names none; these are the codes of the functions' declared entry conditions                *)
(* (AWS_ERROR_PRECONDITION) and of the one failure exit, kept in one place                                            *)
ErrShortText == "AWS_ERROR_INVALID_BUFFER_SIZE"
ErrMalformed == "AWS_ERROR_MALFORMED_INPUT_STRING"
ErrShortBuffer == "AWS_ERROR_SHORT_BUFFER"

-----------------------------------------------------------------------------
(* host_utils.h: "Determine whether host cursor is IPv4 string" / "... is IPv6 string. Supports checking for uri      *)
(* encoded strings and scoped literals", with the grammar written out in the comments of host_utils.c.                *)
DecVal(f) == LET v[i \in 0..Len(f)] == IF i = 0 THEN 0 ELSE 10 * v[i - 1] + (f[i] - 48) IN v[Len(f)]
OctetMay(f) == Len(f) \in 1..3 /\ (\A i \in 1..Len(f) : IsDigit(f[i])) /\ DecVal(f) <= 255     \* "octets of 3 chars max"
OctetMust(f) == OctetMay(f) /\ (Len(f) > 1 => f[1] # 48)       \* whether 010 is an octet is not said anywhere
V4Of(t, Octet(_)) == LET F == Split(t, Dot) IN Len(F) = 4 /\ \A k \in 1..4 : Octet(F[k])
V4Must(t) == V4Of(t, OctetMust)
V4May(t) == V4Of(t, OctetMay)

(* IPv6 address part. Groups are the maximal runs of hex digits.                                                      *)
(*   "8 groups of 4 hex chars separated by colons, leading 0s in each group can be skipped,                           *)
(*    2 or more consecutive zero groups can be replaced by double colon (::), but only once"                          *)
(* so: no "::" -> exactly 8 groups; one "::" -> at most 6 written groups MUST be accepted, 7 written groups (a "::"   *)
(* standing for a single group: RFC 4291 allows it, the comment does not) is open, 8 or more MUST be refused.         *)
DoubleColons(a) == {i \in 1..(Len(a) - 1) : a[i] = Colon /\ a[i + 1] = Colon}
GroupStarts(a) == {i \in 1..Len(a) : IsHex(a[i]) /\ (i = 1 \/ ~IsHex(a[i - 1]))}
RunLen(a, i) == LET E == {j \in i..Len(a) : ~IsHex(a[j])} IN IF E = {} THEN Len(a) - i + 1 ELSE MinOf(E) - i
WellShaped(a) ==
    /\ Len(a) >= 2
    /\ \A i \in 1..Len(a) : IsHex(a[i]) \/ a[i] = Colon
    /\ \A g \in GroupStarts(a) : RunLen(a, g) <= 4
    /\ Cardinality(DoubleColons(a)) <= 1                        \* ":::" counts twice
    /\ a[1] = Colon => a[2] = Colon                             \* "no single colon at start"
    /\ a[Len(a)] = Colon => a[Len(a) - 1] = Colon               \* "no single colon at end"
AddrWith(a, most) ==
    /\ WellShaped(a)
    /\ IF DoubleColons(a) = {} THEN Cardinality(GroupStarts(a)) = 8 ELSE Cardinality(GroupStarts(a)) <= most
AddrMust(a) == AddrWith(a, 6)
(* the dotted-quad tail of RFC 4291 2.2.3 ("::ffff:192.0.2.1") is an IPv6 text the comments do not mention: open *)
LastColon(a) == LET C == {i \in 1..Len(a) : a[i] = Colon} IN IF C = {} THEN 0 ELSE MaxOf(C)
DottedTail(a) ==
    LET k == LastColon(a) IN
    /\ k > 0
    /\ V4May(SubSeq(a, k + 1, Len(a)))
    /\ AddrWith(SubSeq(a, 1, k - 1) \o <<Colon, 48, Colon, 48>>, 7)
AddrMay(a) == AddrWith(a, 7) \/ DottedTail(a)

(* zone: "ipv6 literal can be scoped by to zone by appending % followed by zone name (... this implementation         *)
(* enforces that its > 1)"; "ipv6 can be embedded in url, in which case % must be uri encoded as %25".                *)
(* A zone of two or more letters/digits MUST be accepted; a single one is open (the comment says "> 1", the code       *)
(* takes 1); the punctuation RFC 6874 allows in a ZoneID (unreserved characters, further %-escapes) is open; an empty  *)
(* zone or any other character MUST be refused.                                                                        *)
IsZoneExtra(c) == c \in {45, 46, 95, 126, Percent}
ZoneMust(z) == Len(z) >= 2 /\ \A i \in 1..Len(z) : IsAlnum(z[i])
ZoneMay(z) == Len(z) >= 1 /\ \A i \in 1..Len(z) : IsAlnum(z[i]) \/ IsZoneExtra(z[i])
Enc25(z) == Len(z) >= 2 /\ z[1] = 50 /\ z[2] = 53
V6Of(t, enc, Addr(_), Zone(_)) ==
    LET P == {i \in 1..Len(t) : t[i] = Percent} IN
    IF P = {} THEN Addr(t)
    ELSE LET a == SubSeq(t, 1, MinOf(P) - 1)
             z == SubSeq(t, MinOf(P) + 1, Len(t))
         IN /\ Addr(a)
            /\ IF enc THEN Enc25(z) /\ Zone(SubSeq(z, 3, Len(z))) ELSE Zone(z)
V6Must(t, enc) == V6Of(t, enc, AddrMust, ZoneMust)
V6May(t, enc) == V6Of(t, enc, AddrMay, ZoneMay)

-----------------------------------------------------------------------------
(* numbers <-> big-endian ("network order") byte sequences *)
ByteAt(w, k) ==            \* byte k of the number w, k = 0 the least significant; a byte spans at most two limbs (WLB >= 8)
    LET i == (8 * k) \div WLB + 1
        r == (8 * k) % WLB
    IN ((WLimb(w, i) \div 2 ^ r) + WLimb(w, i + 1) * 2 ^ (WLB - r)) % 256
ByteAtBitwise(w, k) ==     \* the same, bit by bit (ValueCodecsMC checks that the two agree)
    LET s[j \in 0..8] == IF j = 0 THEN 0 ELSE s[j - 1] + WBit(w, 8 * k + j - 1) * 2 ^ (j - 1) IN s[8]
FitsBytes(w, n) == WLe(w, WMaxBits(8 * n))
BE(w, n) == [i \in 1..n |-> ByteAt(w, n - i)]
IsBE(w, n, x) == WIsWide(w) /\ FitsBytes(w, n) /\ x = BE(w, n)     \* x is the n-byte network-order image of w

-----------------------------------------------------------------------------
SInit == /\ big \in BOOLEAN
         /\ uu = [s \in USlots |-> Zeros(16)]
         /\ seen = {}
         /\ buf = [on |-> FALSE, cap |-> 0, data |-> <<>>, tail |-> <<>>]
         /\ mem = <<>>

(* ---- environment: the caller writes memory it owns *)
USet(d, b) == d \in USlots /\ Len(b) = 16 /\ IsBytes(b) /\ uu' = [uu EXCEPT ![d] = b] /\ UNCHANGED <<big, seen, buf, mem>>
BufInit(cap, data, tail) ==
    /\ Len(data) + Len(tail) = cap
    /\ buf' = [on |-> TRUE, cap |-> cap, data |-> data, tail |-> tail]
    /\ UNCHANGED <<big, uu, seen, mem>>
MemInit(b) == IsBytes(b) /\ mem' = b /\ UNCHANGED <<big, uu, seen, buf>>

(* ---- uuid.h *)
(* aws_uuid_init: succeeds and leaves a new value: not what the object held before (pre: the caller may have scribbled  *)
(* over the object right before the call), not one handed out earlier.                                                  *)
(* (The header promises no version/variant bits and the code sets none: 16 random bytes.)                              *)
UuidInit(d, pre, rc, v) ==
    /\ d \in USlots /\ Len(pre) = 16
    /\ rc = 0
    /\ Len(v) = 16 /\ v # pre /\ v \notin seen
    /\ uu' = [uu EXCEPT ![d] = v] /\ seen' = seen \cup {v}
    /\ UNCHANGED <<big, buf, mem>>

(* aws_uuid_init_from_str(text): which (return code, error, bytes of the object afterwards) a text admits *)
FromStrAdmits(t, rc, err, v) ==
    IF Len(t) < UuidTextLen THEN rc # 0 /\ err = ErrShortText
    ELSE LET h == SubSeq(t, 1, UuidTextLen) IN
         IF StrictLower(t) THEN rc = 0 /\ v = Parse(t)               \* what aws_uuid_to_str writes is read back
         ELSE IF Strict(h) THEN rc = 0 => v = Parse(h)               \* upper case, text longer than 36: open, but never a wrong value
         ELSE IF Hopeless(h) THEN rc # 0 /\ err = ErrMalformed
         ELSE TRUE
UuidFromStr(d, t, rc, err, v) ==                                     \* v unconstrained after a refusal
    /\ d \in USlots /\ Len(v) = 16
    /\ FromStrAdmits(t, rc, err, v)
    /\ uu' = [uu EXCEPT ![d] = v]
    /\ UNCHANGED <<big, seen, buf, mem>>

(* aws_uuid_to_str: 36 characters and a terminator appended at len, len grows by 36; needs 37 free bytes, otherwise    *)
(* refused and the buffer (length and memory) is as before. What the capacity beyond the terminator holds is open.     *)
UuidToStr(a, rc, err, newtail) ==
    /\ a \in USlots /\ buf.on
    /\ IF buf.cap - Len(buf.data) >= UuidStrLen
       THEN /\ rc = 0
            /\ Len(newtail) = buf.cap - Len(buf.data) - UuidTextLen
            /\ newtail[1] = 0
            /\ buf' = [buf EXCEPT !.data = buf.data \o UuidText(uu[a]), !.tail = newtail]
       ELSE rc # 0 /\ err = ErrShortBuffer /\ UNCHANGED buf
    /\ UNCHANGED <<big, uu, seen, mem>>

UuidEquals(a, c, r) == a \in USlots /\ c \in USlots /\ (r <=> uu[a] = uu[c]) /\ UNCHANGED svars

(* zero.h on a struct: AWS_ZERO_STRUCT / AWS_IS_ZEROED *)
UuidZero(d) == d \in USlots /\ uu' = [uu EXCEPT ![d] = Zeros(16)] /\ UNCHANGED <<big, seen, buf, mem>>
UuidIsZeroed(a, r) == a \in USlots /\ (r <=> uu[a] = Zeros(16)) /\ UNCHANGED svars

(* ---- encoding.h: aws_write_uN / aws_read_uN at mem + off. n = bytes touched; the 24-bit pair carries its value in   *)
(* a uint32_t: "the 3 least significant bytes will be used".                                                           *)
ArgBytes(n) == IF n = 3 THEN 4 ELSE n
InRange(off, n) == off >= 0 /\ off + n <= Len(mem)
Write(n, off, w) ==
    /\ n \in {2, 3, 4, 8} /\ InRange(off, n)
    /\ WIsWide(w) /\ FitsBytes(w, ArgBytes(n))
    /\ mem' = Splice(mem, off, SubSeq(BE(w, ArgBytes(n)), ArgBytes(n) - n + 1, ArgBytes(n)))     \* nothing else moves
    /\ UNCHANGED <<big, uu, seen, buf>>
Read(n, off, w) ==
    /\ n \in {2, 3, 4, 8} /\ InRange(off, n)
    /\ IsBE(w, n, Slice(mem, off, n))
    /\ UNCHANGED svars

(* ---- zero.h on raw memory *)
SecureZero(off, n) == InRange(off, n) /\ mem' = Splice(mem, off, Zeros(n)) /\ UNCHANGED <<big, uu, seen, buf>>
IsZeroed(off, n, r) == InRange(off, n) /\ (r <=> Slice(mem, off, n) = Zeros(n)) /\ UNCHANGED svars

(* ---- byte_order.h. m = the memory image of the integer on the network side of the call                            *)
(* hton: result's image is the big-endian image of the argument; ntoh: result is the number whose big-endian image   *)
(* the argument has. On a big-endian machine both are the identity, which is the same statement.                     *)
Hton(n, w, m) == n \in {2, 4, 8} /\ IsBE(w, n, m) /\ UNCHANGED svars
Ntoh(n, m, w) == n \in {2, 4, 8} /\ IsBE(w, n, m) /\ UNCHANGED svars
(* floats travel as memory images: network order is the reverse of a little-endian machine's image *)
Swapped(m) == IF big THEN m ELSE Rev(m)
HtonF(n, m, r) == n \in {4, 8} /\ Len(m) = n /\ r = Swapped(m) /\ UNCHANGED svars
NtohF(n, m, r) == HtonF(n, m, r)
(* "Returns 1 if machine is big endian, 0 if little endian." *)
IsBigEndian(r) == r = (IF big THEN 1 ELSE 0) /\ UNCHANGED svars

(* ---- host_utils.h *)
IsIpv4(t, r) == (V4Must(t) => r) /\ (r => V4May(t)) /\ UNCHANGED svars
IsIpv6(t, enc, r) == (V6Must(t, enc) => r) /\ (r => V6May(t, enc)) /\ UNCHANGED svars

-----------------------------------------------------------------------------
(* consistency of the specification itself (checked by TLC in MC.cfg) *)
TypeOK ==
    /\ big \in BOOLEAN
    /\ \A s \in USlots : Len(uu[s]) = 16 /\ IsBytes(uu[s])
    /\ buf.on \in BOOLEAN /\ Len(buf.data) + Len(buf.tail) = buf.cap
    /\ IsBytes(mem)

(* value-level laws over finite sets: uuids U, numbers W (wide), texts T *)
UuidLaws(U) ==
    /\ \A b \in U : StrictLower(UuidText(b)) /\ Parse(UuidText(b)) = b /\ ~Hopeless(UuidText(b))
    /\ \A b, c \in U : (UuidText(b) = UuidText(c)) => b = c
NumLaws(W) ==
    /\ \A w \in W : \A k \in 0..8 : ByteAt(w, k) = ByteAtBitwise(w, k)
    /\ \A w \in W : \A n \in {2, 4, 8} : FitsBytes(w, n) => (\A v \in W : (FitsBytes(v, n) /\ BE(v, n) = BE(w, n)) => WEq(v, w))
    /\ \A w \in W : FitsBytes(w, 4) => SubSeq(BE(w, 8), 5, 8) = BE(w, 4) /\ SubSeq(BE(w, 8), 1, 4) = Zeros(4)
    /\ \A w \in W : FitsBytes(w, 2) => SubSeq(BE(w, 4), 3, 4) = BE(w, 2)
TextLaws(T) ==
    /\ \A t \in T : V4Must(t) => V4May(t)
    /\ \A t \in T : \A e \in BOOLEAN : V6Must(t, e) => V6May(t, e)
    /\ \A t \in T : \A e \in BOOLEAN : ~(V4May(t) /\ V6May(t, e))
    /\ \A t \in T : V4May(t) => Len(t) <= 15
    /\ \A t \in T : AddrWith(t, 7) => Len(t) <= 39
    /\ \A t \in T : V6Must(t, TRUE) => (V6Must(t, FALSE) \/ Percent \in {t[i] : i \in 1..Len(t)})
=============================================================================
