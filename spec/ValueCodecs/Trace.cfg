SPECIFICATION TSpec
CONSTANTS USlots = {1, 2, 3}
  WBase = 32768
POSTCONDITION TraceAccepted
CHECK_DEADLOCK FALSE
