--------------------------- MODULE ValueCodecsMC ---------------------------
(* Bounded exploration of ValueCodecs and behaviour generation.                                                   *)
(* Independent phases (chosen in the initial state, so the state spaces add up instead of multiplying):          *)
(*   "uuid": every sequence of uuid.h calls over small pools of uuids, texts and buffer sizes;                    *)
(*   "mem":  every sequence of read/write/zero/byte-order calls over small pools of numbers and memory blocks     *)
(*           (a block sees at most MaxMut writes before it is replaced);                                          *)
(*   "host": every text made of at most MaxTok tokens (digits, chunks of groups, ':', '.', '%', "25", junk),      *)
(*           on each of which the IPv4/IPv6 predicates are cross-checked against a second, split-based            *)
(*           formulation of the grammar and against their own laws;                                               *)
(*   "all":  uuid and mem calls mixed - Gen.cfg: simulation with a history variable printed as a JSON script.     *)
EXTENDS ValueCodecs, TLC, Json

CONSTANTS Phases,      \* subset of {"uuid", "mem", "host", "all"}
          UPool,       \* uuids the caller may write
          RPool,       \* values aws_uuid_init may produce
          WPool,       \* numbers (wide)
          Caps,        \* output buffer capacities
          Pre,         \* what the output buffer may hold before a call
          MemPool,     \* initial contents of the scratch block
          Toks,        \* tokens of host texts
          MaxTok,
          MaxMut,      \* how many writes / zeroings a scratch block sees before it is replaced
          GenDepth
VARIABLES phase, txt, ntok, nmut, hist,
          last         \* the call that led here (excluded from the fingerprint: VIEW mcview)

mcvars == <<big, uu, seen, buf, mem, phase, txt, ntok, nmut, hist, last>>
mcview == <<big, uu, seen, buf, mem, phase, txt, ntok, nmut, hist>>

(* ---- pools *)
U1 == <<1, 2, 3, 4, 5, 6, 7, 8, 9, 10, 11, 12, 13, 14, 15, 16>>
U2 == <<222, 173, 190, 239, 0, 15, 240, 255, 154, 169, 16, 1, 127, 128, 195, 90>>
U3 == <<255, 255, 255, 255, 255, 255, 255, 255, 255, 255, 255, 255, 255, 255, 255, 255>>
R1 == <<17, 34, 51, 68, 85, 102, 119, 136, 153, 170, 187, 204, 221, 238, 255, 0>>
R2 == <<160, 11, 92, 3, 4, 5, 70, 7, 8, 9, 10, 11, 12, 13, 14, 15>>
UPoolSmall == {U1, U2}
UPoolGen == {U1, U2, U3, Zeros(16)}
RPoolAll == {R1, R2}

W64Max == <<32767, 32767, 32767, 32767, 15>>
WSmall == {<<>>, <<258>>, <<32767, 1>>, <<772, 516>>, <<32767, 511>>, <<1800, 2572, 3088, 2064>>, W64Max}
WGen == WSmall \cup {<<1>>, <<255>>, <<256>>, <<0, 1>>, <<515, 2>>, <<0, 0, 2>>, <<32767, 32767, 3>>, <<0, 0, 0, 0, 8>>,
                     <<1, 0, 0, 0, 4080>>, <<32767, 32767, 1>>, <<0, 0, 4>>, <<128, 0, 0, 0, 0>>}

MemSmall == {<<0, 0, 0, 0, 0, 0, 0, 0, 0>>, <<17, 34, 51, 68, 85, 102, 119, 136, 153>>, <<7>>}
MemGen == MemSmall \cup {<<>>, <<0, 0>>, <<255, 0, 255>>, <<0, 0, 0, 0, 0, 0, 0, 0, 0, 0, 0, 0, 0, 0, 0, 0, 1>>,
                         <<1, 2, 3, 4, 5, 6, 7, 8, 9, 10, 11, 12, 13, 14, 15, 16, 17, 18, 19, 20>>, <<0, 0, 0, 0, 0, 0, 0, 0>>}
PreSmall == {<<>>, <<65, 66>>}

TokAll == { <<49>>, <<48>>, <<54>>, <<50, 53>>, <<50, 51, 52, 53>>, <<58>>, <<46>>, <<49, 46>>, <<97, 58, 66, 58, 99, 58>>, <<100, 58, 69>>, <<37>>, <<103>> }
(*            "1"     "0"     "6"     "25"        "2345"            ":"     "."     "1."        "a:B:c:"                 "d:E"          "%"     "g"  *)
TokQuick == TokAll \ {<<48>>}

ASSUME UuidLaws(UPoolGen \cup RPoolAll)
ASSUME NumLaws(WGen)

(* known texts (the repository's own examples and the boundary cases the comments describe) *)
Ex4Yes == { <<48, 46, 48, 46, 48, 46, 48>>, <<50, 53, 53, 46, 50, 53, 53, 46, 50, 53, 53, 46, 50, 53, 53>>, <<49, 50, 55, 46, 48, 46, 48, 46, 49>> }
Ex4No == { <<>>, <<50, 53, 54, 46, 48, 46, 48, 46, 49>>, <<49, 50, 55, 46, 48, 46, 48>>, <<49, 50, 55, 46, 48, 46, 48, 46, 49, 97>>,
           <<32, 49, 46, 50, 46, 51, 46, 52>>, <<49, 46, 50, 46, 51, 46, 52, 32>>, <<43, 49, 46, 50, 46, 51, 46, 52>>,
           <<49, 46, 50, 46, 51, 46, 52, 0>>, <<49, 46, 50, 46, 51, 46, 52, 46>>, <<49, 46, 46, 51, 46, 52>>, <<49, 46, 50, 46, 51, 46, 48, 49, 50, 55>> }
ASSUME \A t \in Ex4Yes : V4Must(t)
ASSUME \A t \in Ex4No : ~V4May(t)
ASSUME V4May(<<48, 49, 46, 48, 46, 48, 46, 48>>) /\ ~V4Must(<<48, 49, 46, 48, 46, 48, 46, 48>>)          \* "01.0.0.0": open

C == Colon
Ex6Yes == { <<C, C, 49>>, <<C, C>>, <<102, 101, 56, 48, C, C, 49>>, <<49, C, 50, C, 51, C, 52, C, 53, C, 54, C, 55, C, 56>>,
            <<49, C, C>>, <<49, C, 50, C, 51, C, 52, C, 53, C, 54, C, C>>, <<C, C, 50, C, 51, C, 52, C, 53, C, 54, C, 55>>,
            <<49, C, 50, C, 51, C, C, 54, C, 55, C, 56>>, <<70, 70, 102, 102, C, C, 48, 48, 48, 48>> }
Ex6Open == { <<49, C, 50, C, 51, C, 52, C, 53, C, 54, C, 55, C, C>>, <<C, C, 50, C, 51, C, 52, C, 53, C, 54, C, 55, C, 56>>,
             <<49, C, C, 51, C, 52, C, 53, C, 54, C, 55, C, 56>>, <<C, C, 102, 102, 102, 102, C, 49, 46, 50, 46, 51, 46, 52>> }
Ex6No == { <<>>, <<C>>, <<C, C, C>>, <<49>>, <<49, C, 50, C, 51, C, 52, C, C, 53, C, 54, C, 55, C, 56>>,
           <<49, C, 50, C, 51, C, 52, C, 53, C, 54, C, 55, C, 56, C, C>>, <<C, C, 49, C, 50, C, 51, C, 52, C, 53, C, 54, C, 55, C, 56>>,
           <<49, C, 50, C, 51, C, 52, C, 53, C, 54, C, 55>>, <<49, C, 50, C, 51, C, 52, C, 53, C, 54, C, 55, C, 56, C, 57>>,
           <<C, 49, C, 50, C, 51, C, 52, C, 53, C, 54, C, 55, C, 56>>, <<49, C, 50, C, 51, C, 52, C, 53, C, 54, C, 55, C>>,
           <<49, C, C, 50, C, C, 51>>, <<49, 50, 51, 52, 53, C, C>>, <<103, C, C, 49>>, <<C, C, 49, 46, 50, 46, 51>> }
ASSUME \A t \in Ex6Yes : V6Must(t, FALSE) /\ V6Must(t, TRUE)
ASSUME \A t \in Ex6Open : V6May(t, FALSE) /\ ~V6Must(t, FALSE)
ASSUME \A t \in Ex6No : ~V6May(t, FALSE) /\ ~V6May(t, TRUE)
Z(a, z) == a \o <<Percent>> \o z
A1 == <<C, C, 49>>
ASSUME V6Must(Z(A1, <<101, 110, 48>>), FALSE) /\ ~V6May(Z(A1, <<101, 110, 48>>), TRUE)                   \* ::1%en0
ASSUME V6Must(Z(A1, <<50, 53, 101, 110, 48>>), TRUE) /\ V6Must(Z(A1, <<50, 53, 101, 110, 48>>), FALSE)   \* ::1%25en0
ASSUME ~V6May(Z(A1, <<>>), FALSE) /\ ~V6May(Z(A1, <<50, 53>>), TRUE) /\ ~V6May(Z(A1, <<50, 52, 101, 110>>), TRUE)
ASSUME V6May(Z(A1, <<101>>), FALSE) /\ ~V6Must(Z(A1, <<101>>), FALSE)                                     \* one-letter zone: open
ASSUME V6May(Z(A1, <<97, 45, 98>>), FALSE) /\ V6May(Z(A1, <<97, 37, 98>>), FALSE)                         \* a-b, a%b: open
ASSUME ~V6May(Z(A1, <<97, 36>>), FALSE) /\ ~V6May(Z(A1, <<97, 37, 36>>), FALSE) /\ ~V6May(Z(A1, <<97, 58>>), FALSE)  \* a$  a%$  a:
ASSUME ~V6May(Z(<<49>>, <<101, 110>>), FALSE) /\ ~V6May(<<Percent, 101, 110>>, FALSE)

(* ---- a second formulation of the IPv6 address grammar: split at "::", then at ':' *)
HexGroup(g) == Len(g) \in 1..4 /\ \A i \in 1..Len(g) : IsHex(g[i])
GroupsOf(s) == IF s = <<>> THEN <<>> ELSE Split(s, Colon)
AltAddr(a, most) ==
    LET D == DoubleColons(a) IN
    IF D = {} THEN LET G == Split(a, Colon) IN Len(G) = 8 /\ \A k \in 1..8 : HexGroup(G[k])
    ELSE \E i \in D :
            LET L == GroupsOf(SubSeq(a, 1, i - 1))
                R == GroupsOf(SubSeq(a, i + 2, Len(a)))
            IN /\ \A k \in 1..Len(L) : HexGroup(L[k])
               /\ \A k \in 1..Len(R) : HexGroup(R[k])
               /\ Len(L) + Len(R) <= most
(* and of the octet: a number 0..255 written with 1..3 digits *)
AltOctetMay(f) == \E v \in 0..255 : \E pad \in 0..2 :
                     f = Zeros(pad) \o (IF v >= 100 THEN <<v \div 100, (v \div 10) % 10, v % 10>>
                                        ELSE IF v >= 10 THEN <<v \div 10, v % 10>> ELSE <<v>>)
Digits(f) == [i \in 1..Len(f) |-> f[i] - 48]
GrammarAgrees ==
    phase = "host" =>
        /\ \A m \in {6, 7} : AltAddr(txt, m) <=> AddrWith(txt, m)
        /\ \A k \in 1..Len(Split(txt, Dot)) :
              LET f == Split(txt, Dot)[k] IN OctetMay(f) <=> (Len(f) <= 3 /\ (\A i \in 1..Len(f) : IsDigit(f[i])) /\ AltOctetMay(Digits(f)))
        /\ TextLaws({txt})

(* bytes -> number, the other way round from BE *)
NumOf(x) == LET acc[i \in 0..Len(x)] == IF i = 0 THEN <<>> ELSE WAdd(WMulLimb(acc[i - 1], 256), WFromNat(x[i])) IN acc[Len(x)]

-----------------------------------------------------------------------------
G == GenDepth > 0 => Len(hist) < GenDepth
Op(name, d, a, n, off, x, w) == [op |-> name, d |-> d, a |-> a, n |-> n, off |-> off, x |-> x, w |-> w]
Rec(o) == hist' = (IF GenDepth > 0 THEN Append(hist, o) ELSE hist) /\ last' = o
InU == phase \in {"uuid", "all"} /\ G /\ UNCHANGED <<phase, txt, ntok, nmut>>
InM == phase \in {"mem", "all"} /\ G /\ UNCHANGED <<phase, txt, ntok>>
Host == phase = "host" /\ UNCHANGED nmut
Once == GenDepth > 0 \/ mem = <<>>        \* calls that do not look at the state: explored from one state only

MCInit == SInit /\ phase \in Phases /\ (big => phase \in {"mem", "all"})     \* only the mem calls look at the machine
          /\ txt = <<>> /\ ntok = 0 /\ nmut = 0 /\ hist = <<>> /\ last = Op("", 0, 0, 0, 0, <<>>, <<>>)

Errs == {"", ErrShortText, ErrMalformed, ErrShortBuffer}
Upper(t) == [i \in 1..Len(t) |-> IF t[i] >= 97 /\ t[i] <= 102 THEN t[i] - 32 ELSE t[i]]
NoDash(t) == LET K == {i \in 1..Len(t) : t[i] # Dash} IN [k \in 1..Cardinality(K) |-> t[CHOOSE i \in K : Cardinality({j \in K : j <= i}) = k]]
Poke(t, p, c) == [t EXCEPT ![p] = c]
Texts(b) == LET t == UuidText(b) IN
    { t, Upper(t), SubSeq(t, 1, 35), Append(t, 0), t \o <<88, 89>>, Poke(t, 1, 103), Poke(t, 20, 103), Poke(t, 31, 0),
      Poke(t, 9, Colon), NoDash(t) \o <<48, 48, 48, 48>>, <<>>, Poke(t, 14, 49), <<32>> \o SubSeq(t, 1, 35), Poke(t, 36, 103) }
AllTexts == IF GenDepth > 0 THEN UNION {Texts(b) : b \in UPool} ELSE Texts(U1) \cup {UuidText(b) : b \in UPool}

MCUSet == InU /\ \E d \in USlots, b \in UPool : USet(d, b) /\ Rec(Op("USET", d, 0, 0, 0, b, <<>>))
MCUInit == InU /\ \E d \in USlots, v \in RPool : UuidInit(d, uu[d], 0, v) /\ Rec(Op("UINIT", d, 0, 0, 0, <<>>, <<>>))
(* exhaustive mode: every outcome the relation might admit; generation: one admissible outcome per text (only the arguments matter) *)
Outcomes(d, t) ==
    LET h == SubSeq(t, 1, 36)
        ok == Len(t) >= 36 /\ Strict(h)
    IN IF GenDepth > 0
       THEN {IF ok THEN [rc |-> 0, err |-> "", v |-> Parse(h)]
             ELSE [rc |-> -1, err |-> (IF Len(t) < 36 THEN ErrShortText ELSE ErrMalformed), v |-> Zeros(16)]}
       ELSE [rc : {0}, err : {""}, v : {uu[d], Zeros(16)} \cup (IF ok THEN {Parse(h)} ELSE {})]
            \cup [rc : {-1}, err : Errs \ {""}, v : {uu[d], Zeros(16)}]
MCUFromStr == InU /\ \E d \in USlots, t \in AllTexts : \E o \in Outcomes(d, t) :
                    UuidFromStr(d, t, o.rc, o.err, o.v) /\ Rec(Op("UFROM", d, 0, 0, 0, t, <<>>))
MCUToStr == InU /\ buf.on /\ \E a \in USlots, rc \in {0, -1}, err \in Errs :
                /\ (rc = 0 <=> err = "")
                /\ UuidToStr(a, rc, err, IF Len(buf.tail) >= 37 THEN <<0>> \o SubSeq(buf.tail, 38, Len(buf.tail)) ELSE <<>>)
                /\ Rec(Op("UTOSTR", 0, a, 0, 0, <<>>, <<>>))
MCUEquals == InU /\ \E a, c \in USlots, r \in BOOLEAN : UuidEquals(a, c, r) /\ Rec(Op("UEQ", c, a, 0, 0, <<>>, <<>>))
MCUZero == InU /\ \E d \in USlots : UuidZero(d) /\ Rec(Op("UZERO", d, 0, 0, 0, <<>>, <<>>))
MCUIsZeroed == InU /\ \E a \in USlots, r \in BOOLEAN : UuidIsZeroed(a, r) /\ Rec(Op("UISZ", 0, a, 0, 0, <<>>, <<>>))
MCBufInit == InU /\ \E cap \in Caps, x \in Pre : Len(x) <= cap /\ BufInit(cap, x, [i \in 1..(cap - Len(x)) |-> 238])
                /\ Rec(Op("BUFINIT", 0, 0, cap, 0, x, <<>>))
MCMemInit == InM /\ nmut' = 0 /\ \E b \in MemPool : MemInit(b) /\ Rec(Op("MEMINIT", 0, 0, 0, 0, b, <<>>))
Offs(n) == {o \in (IF GenDepth > 0 THEN {0, 1, 2, 5, Len(mem) - n - 1, Len(mem) - n} ELSE {0, 1, Len(mem) - n}) : o >= 0 /\ o + n <= Len(mem)}
MCWrite == InM /\ nmut < MaxMut /\ nmut' = nmut + 1 /\ \E n \in {2, 3, 4, 8} : \E off \in Offs(n), w \in WPool :
                Write(n, off, w) /\ Rec(Op("WRITE", 0, 0, n, off, <<>>, w))
MCRead == InM /\ UNCHANGED nmut /\ \E n \in {2, 3, 4, 8} : \E off \in Offs(n) :
                Read(n, off, NumOf(Slice(mem, off, n))) /\ Rec(Op("READ", 0, 0, n, off, <<>>, <<>>))
MCSecureZero == InM /\ nmut < MaxMut /\ nmut' = nmut + 1 /\ \E n \in (IF GenDepth > 0 THEN {0, 1, 3, 7, 8, 9, Len(mem)} ELSE {0, 3, 8, Len(mem)}) : \E off \in Offs(n) :
                SecureZero(off, n) /\ Rec(Op("SZERO", 0, 0, n, off, <<>>, <<>>))
MCIsZeroed == InM /\ UNCHANGED nmut /\ \E n \in (IF GenDepth > 0 THEN {0, 1, 3, 7, 8, 9, 16, 17, Len(mem)} ELSE {0, 3, 8, Len(mem)}) : \E off \in Offs(n), r \in BOOLEAN :
                IsZeroed(off, n, r) /\ Rec(Op("ISZ", 0, 0, n, off, <<>>, <<>>))
MCHton == InM /\ Once /\ UNCHANGED nmut /\ \E n \in {2, 4, 8}, w \in WPool : FitsBytes(w, n) /\ \E m \in {BE(w, n), Rev(BE(w, n))} :
                Hton(n, w, m) /\ Rec(Op("HTON", 0, 0, n, 0, <<>>, w))
MCNtoh == InM /\ Once /\ UNCHANGED nmut /\ \E n \in {2, 4, 8}, w \in WPool : FitsBytes(w, n) /\ \E v \in {NumOf(BE(w, n)), NumOf(Rev(BE(w, n)))} :
                Ntoh(n, BE(w, n), v) /\ Rec(Op("NTOH", 0, 0, n, 0, BE(w, n), <<>>))
MCHtonF == InM /\ Once /\ UNCHANGED nmut /\ \E n \in {4, 8}, w \in WPool : FitsBytes(w, n) /\ \E r \in {BE(w, n), Rev(BE(w, n))} :
                HtonF(n, BE(w, n), r) /\ Rec(Op("HTONF", 0, 0, n, 0, BE(w, n), <<>>))
MCNtohF == InM /\ Once /\ UNCHANGED nmut /\ \E n \in {4, 8}, w \in WPool : FitsBytes(w, n) /\ \E r \in {BE(w, n), Rev(BE(w, n))} :
                NtohF(n, BE(w, n), r) /\ Rec(Op("NTOHF", 0, 0, n, 0, BE(w, n), <<>>))
MCIsBigEndian == InM /\ UNCHANGED nmut /\ \E r \in {0, 1} : IsBigEndian(r) /\ Rec(Op("BIGEND", 0, 0, 0, 0, <<>>, <<>>))

MCTok == Host /\ ntok < MaxTok /\ \E t \in Toks : txt' = txt \o t /\ ntok' = ntok + 1 /\ UNCHANGED <<svars, phase, hist, last>>
MCIsIpv4 == Host /\ \E r \in BOOLEAN : IsIpv4(txt, r) /\ txt' = <<>> /\ ntok' = 0 /\ UNCHANGED <<phase, hist>> /\ last' = Op("IP4", 0, 0, 0, 0, <<>>, <<>>)
MCIsIpv6 == Host /\ \E r, e \in BOOLEAN : IsIpv6(txt, e, r) /\ txt' = <<>> /\ ntok' = 0 /\ UNCHANGED <<phase, hist>> /\ last' = Op("IP6", 0, 0, 0, 0, <<>>, <<>>)

MCNext == \/ MCUSet \/ MCUInit \/ MCUFromStr \/ MCUToStr \/ MCUEquals \/ MCUZero \/ MCUIsZeroed \/ MCBufInit \/ MCMemInit
          \/ MCWrite \/ MCRead \/ MCSecureZero \/ MCIsZeroed \/ MCHton \/ MCNtoh \/ MCHtonF \/ MCNtohF \/ MCIsBigEndian
          \/ MCTok \/ MCIsIpv4 \/ MCIsIpv6
MCSpec == MCInit /\ [][MCNext]_mcvars

(* ---- properties of steps (last' = the call just made) *)
Did(name) == last'.op = name
(* to_str then init_from_str of exactly what was appended gives an equal uuid: the only admissible outcome of         *)
(* UuidFromStr on that text is success with the same bytes                                                            *)
RoundTrip ==
    [][Did("UTOSTR") /\ Len(buf'.data) > Len(buf.data) =>
         LET t == SubSeq(buf'.data, Len(buf.data) + 1, Len(buf'.data))
             a == last'.a
         IN /\ t = UuidText(uu[a]) /\ buf'.tail[1] = 0
            /\ \A rc \in {0, -1}, err \in Errs, v \in {uu[a], Zeros(16), U1, U2} :
                  FromStrAdmits(t, rc, err, v) => (rc = 0 /\ v = uu[a])]_mcvars
(* a refused to_str changes nothing, an accepted one never touches the bytes already in the buffer *)
AppendOnly ==
    [][Did("UTOSTR") => /\ SubSeq(buf'.data, 1, Len(buf.data)) = buf.data
                        /\ buf'.cap = buf.cap
                        /\ (Len(buf'.data) = Len(buf.data) => buf' = buf)
                        /\ (Len(buf'.data) # Len(buf.data) => Len(buf'.data) = Len(buf.data) + 36 /\ Len(buf'.data) < buf.cap)]_mcvars
(* what was written is read back (only admissible result of Read); a write touches exactly n bytes *)
WriteThenRead ==
    [][Did("WRITE") =>
         LET n == last'.n  off == last'.off  w == last'.w IN
         /\ Len(mem') = Len(mem)
         /\ \A i \in 1..Len(mem) : (i <= off \/ i > off + n) => mem'[i] = mem[i]
         /\ IF n = 3 THEN BE(NumOf(Slice(mem', off, 3)), 4) = <<0>> \o SubSeq(BE(w, 4), 2, 4)
            ELSE WEq(NumOf(Slice(mem', off, n)), w)]_mcvars
ZeroThenZeroed ==
    [][Did("SZERO") =>
         LET n == last'.n  off == last'.off IN
         /\ Slice(mem', off, n) = Zeros(n)
         /\ \A i \in 1..Len(mem) : (i <= off \/ i > off + n) => mem'[i] = mem[i]]_mcvars
(* pure functions leave everything alone; nobody changes the machine *)
Pure == [][last'.op \in {"UEQ", "UISZ", "READ", "ISZ", "HTON", "NTOH", "HTONF", "NTOHF", "BIGEND", "IP4", "IP6"} => UNCHANGED svars]_mcvars
SameMachine == [][big' = big]_mcvars
(* BE and NumOf are inverse on everything that ever sits in memory *)
MemNumbers == \A n \in {2, 3, 4, 8} : \A off \in 0..(Len(mem) - n) :
                 LET x == Slice(mem, off, n) IN IsBE(NumOf(x), n, x)

Emit == (GenDepth > 0 /\ Len(hist) = GenDepth) => PrintT(<<"SCRIPT", ToJson([ops |-> hist])>>)
=============================================================================
