---- MODULE MCMemTrace ----
EXTENDS MemTrace
P2(a, b) == [t \in {"t1", "t2"} |-> IF t = "t1" THEN a ELSE b]
ProgsSmall == { P2(<< <<"A", 3>>, <<"R", 5>>, <<"F">> >>, << <<"A", 2>>, <<"F">>, <<"A", 4>> >>),
                P2(<< <<"A", 1>>, <<"F">>, <<"A", 2>>, <<"R", 1>> >>, << <<"A", 7>>, <<"R", 2>>, <<"R", 9>>, <<"F">> >>) }
====
