----------------------------- MODULE MemTraceAbs -----------------------------
(* Property C17 over what a user of a tracing allocator observes: blocks obtained (with content   *)
(* checks), released, reallocated; the tracer's byte total and allocation count; dumps.            *)
EXTENDS Naturals, Integers, Sequences, FiniteSets

VARIABLES live,      \* [id -> requested size]
          outside,   \* [id -> size]  blocks obtained from the wrapped allocator directly: the tracer was installed
                     \*               "midstream" (memtrace.c) and has never seen them; they count for nothing
          moving,    \* [id -> size]  blocks inside a realloc call (their accounting is in transit)
          level

mvars == <<live, outside, moving, level>>

RECURSIVE Sum(_, _)
Sum(f, S) == IF S = {} THEN 0 ELSE LET x == CHOOSE y \in S : TRUE IN f[x] + Sum(f, S \ {x})
Bytes == IF level = 0 THEN 0 ELSE Sum(live, DOMAIN live)
Count == IF level = 0 THEN 0 ELSE Cardinality(DOMAIN live)

Put(f, id, v) == [i \in DOMAIN f \cup {id} |-> IF i = id THEN v ELSE f[i]]
Drop(f, id) == [i \in DOMAIN f \ {id} |-> f[i]]

(* memory from the tracer behaves like memory from the wrapped allocator: writable, calloc zeroed, nobody's     *)
(* contents disturbed; the byte total is exact whenever no other call is in progress (active = -1: not sampled) *)
Acq(ev) ==
    /\ ev.id \notin DOMAIN live /\ ev.n >= 1 /\ ev.zero = 1 /\ ev.bad = 0 /\ ev.al16 = 1
    /\ live' = Put(live, ev.id, ev.n) /\ UNCHANGED <<outside, moving, level>>
    /\ (ev.active >= 0 /\ moving = << >>) => ev.active = Bytes'

(* a block from the wrapped allocator itself: nothing the tracer reports changes *)
AcqOutside(ev) ==
    /\ ev.id \notin DOMAIN live \cup DOMAIN outside /\ ev.n >= 1 /\ ev.bad = 0
    /\ outside' = Put(outside, ev.id, ev.n) /\ UNCHANGED <<live, moving, level>>
    /\ (ev.active >= 0 /\ moving = << >>) => ev.active = Bytes

(* releasing through the tracer: a tracked block leaves the totals, an outside block was never in them *)
RelBegin(id) ==
    /\ id \in DOMAIN live \cup DOMAIN outside
    /\ IF id \in DOMAIN live THEN live' = Drop(live, id) /\ UNCHANGED outside
                              ELSE outside' = Drop(outside, id) /\ UNCHANGED live
    /\ UNCHANGED <<moving, level>>
RelEnd(ev) == ev.bad = 0 /\ ((ev.active >= 0 /\ moving = << >>) => ev.active = Bytes) /\ UNCHANGED mvars

(* resizing through the tracer: whatever the block was, the result is a tracked block with the old contents *)
ReallocBegin(id, nold) ==
    /\ id \in DOMAIN live \cup DOMAIN outside
    /\ IF id \in DOMAIN live THEN live[id] = nold /\ live' = Drop(live, id) /\ UNCHANGED outside
                              ELSE outside[id] = nold /\ outside' = Drop(outside, id) /\ UNCHANGED live
    /\ moving' = Put(moving, id, nold) /\ UNCHANGED level

ReallocEnd(ev, nnew) ==
    /\ ev.id \in DOMAIN moving /\ ev.rc = 0 /\ ev.bad = 0
    /\ IF nnew = 0 THEN ev.null = 1 /\ live' = live
       ELSE ev.null = 0 /\ ev.prefix = 1 /\ live' = Put(live, ev.id, nnew)
    /\ moving' = Drop(moving, ev.id) /\ UNCHANGED <<level, outside>>
    /\ (ev.active >= 0 /\ moving' = << >>) => ev.active = Bytes'

(* quiescent: both numbers exact; at level 'off' both are zero *)
Query(ev) == moving = << >> /\ ev.bytes = Bytes /\ ev.count = Count /\ UNCHANGED mvars
(* producing a dump never changes the accounting nor anybody's memory *)
Dump(ev) == moving = << >> /\ ev.bytes = Bytes /\ ev.count = Count /\ ev.bad = 0 /\ UNCHANGED mvars
Destroyed(ev) == live = << >> /\ outside = << >> /\ moving = << >> /\ ev.parent_live = 0 /\ ev.leaks = 0 /\ UNCHANGED mvars
=============================================================================
