----------------------------- MODULE MemTraceAbs -----------------------------
(* Property C17 over what a user of a tracing allocator observes: blocks obtained (with content   *)
(* checks), released, reallocated; the tracer's byte total and allocation count; dumps.            *)
EXTENDS Naturals, Integers, Sequences, FiniteSets

VARIABLES live,      \* [id -> requested size]
          moving,    \* [id -> size]  blocks inside a realloc call (their accounting is in transit)
          level

mvars == <<live, moving, level>>

RECURSIVE Sum(_, _)
Sum(f, S) == IF S = {} THEN 0 ELSE LET x == CHOOSE y \in S : TRUE IN f[x] + Sum(f, S \ {x})
Bytes == IF level = 0 THEN 0 ELSE Sum(live, DOMAIN live)
Count == IF level = 0 THEN 0 ELSE Cardinality(DOMAIN live)

Put(f, id, v) == [i \in DOMAIN f \cup {id} |-> IF i = id THEN v ELSE f[i]]
Drop(f, id) == [i \in DOMAIN f \ {id} |-> f[i]]

(* memory from the tracer behaves like memory from the wrapped allocator: writable, calloc zeroed, nobody's     *)
(* contents disturbed; the byte total is exact whenever no other call is in progress (active = -1: not sampled) *)
Acq(ev) ==
    /\ ev.id \notin DOMAIN live /\ ev.n >= 1 /\ ev.zero = 1 /\ ev.bad = 0 /\ ev.al16 = 1
    /\ live' = Put(live, ev.id, ev.n) /\ UNCHANGED <<moving, level>>
    /\ (ev.active >= 0 /\ moving = << >>) => ev.active = Bytes'

RelBegin(id) == id \in DOMAIN live /\ live' = Drop(live, id) /\ UNCHANGED <<moving, level>>
RelEnd(ev) == ev.bad = 0 /\ ((ev.active >= 0 /\ moving = << >>) => ev.active = Bytes) /\ UNCHANGED mvars

ReallocBegin(id, nold) ==
    /\ id \in DOMAIN live /\ live[id] = nold
    /\ moving' = Put(moving, id, nold) /\ live' = Drop(live, id) /\ UNCHANGED level

ReallocEnd(ev, nnew) ==
    /\ ev.id \in DOMAIN moving /\ ev.rc = 0 /\ ev.bad = 0
    /\ IF nnew = 0 THEN ev.null = 1 /\ live' = live
       ELSE ev.null = 0 /\ ev.prefix = 1 /\ live' = Put(live, ev.id, nnew)
    /\ moving' = Drop(moving, ev.id) /\ UNCHANGED level
    /\ (ev.active >= 0 /\ moving' = << >>) => ev.active = Bytes'

(* quiescent: both numbers exact; at level 'off' both are zero *)
Query(ev) == moving = << >> /\ ev.bytes = Bytes /\ ev.count = Count /\ UNCHANGED mvars
(* producing a dump never changes the accounting nor anybody's memory *)
Dump(ev) == moving = << >> /\ ev.bytes = Bytes /\ ev.count = Count /\ ev.bad = 0 /\ UNCHANGED mvars
Destroyed(ev) == live = << >> /\ moving = << >> /\ ev.parent_live = 0 /\ ev.leaks = 0 /\ UNCHANGED mvars
=============================================================================
