---------------------------- MODULE MemTraceTrace ----------------------------
EXTENDS MemTraceAbs, TraceCommon
VARIABLES l, nnew
Ev == TraceLog[l]
TReset == Ev.e = "Reset" /\ live' = << >> /\ outside' = << >> /\ moving' = << >> /\ level' = 0 /\ nnew' = << >>
TSetup == Ev.e = "Setup" /\ level' = Ev.level /\ UNCHANGED <<live, outside, moving, nnew>>
TAcq == Ev.e = "Acq" /\ Acq(Ev) /\ UNCHANGED nnew
TAcqOutside == Ev.e = "AcqOutside" /\ AcqOutside(Ev) /\ UNCHANGED nnew
TRelBegin == Ev.e = "RelBegin" /\ RelBegin(Ev.id) /\ UNCHANGED nnew
TRelEnd == Ev.e = "RelEnd" /\ RelEnd(Ev) /\ UNCHANGED nnew
TReallocBegin == /\ Ev.e = "ReallocBegin" /\ ReallocBegin(Ev.id, Ev.nold)
                 /\ nnew' = [i \in DOMAIN nnew \cup {Ev.id} |-> IF i = Ev.id THEN Ev.nnew ELSE nnew[i]]
TReallocEnd == Ev.e = "ReallocEnd" /\ Ev.id \in DOMAIN nnew /\ ReallocEnd(Ev, nnew[Ev.id]) /\ UNCHANGED nnew
TQuery == Ev.e = "Query" /\ Query(Ev) /\ UNCHANGED nnew
TDump == Ev.e = "Dump" /\ Dump(Ev) /\ UNCHANGED nnew
TDumpConcurrent == Ev.e = "DumpConcurrent" /\ UNCHANGED <<mvars, nnew>>     \* judged by what happens to memory, not by numbers
TRenew == /\ Ev.e = "Renew" /\ live = << >> /\ outside = << >> /\ moving = << >>
          /\ Ev.same = 1 /\ Ev.bytes = 0 /\ Ev.count = 0 /\ UNCHANGED <<mvars, nnew>>
TUnwrapped == Ev.e = "Unwrapped" /\ Ev.same = 1 /\ UNCHANGED <<mvars, nnew>>
TDestroyed == Ev.e = "Destroyed" /\ Destroyed(Ev) /\ UNCHANGED nnew
TEnd == Ev.e = "End" /\ Ev.live = 0 /\ Ev.unjoined = 0 /\ UNCHANGED <<mvars, nnew>>
TNext == l <= TraceLen /\ l' = l + 1 /\
         (TReset \/ TSetup \/ TAcq \/ TAcqOutside \/ TRelBegin \/ TRelEnd \/ TReallocBegin \/ TReallocEnd \/ TQuery \/ TDump \/ TDumpConcurrent
            \/ TRenew \/ TUnwrapped \/ TDestroyed \/ TEnd)
TSpec == (l = 1 /\ live = << >> /\ outside = << >> /\ moving = << >> /\ level = 0 /\ nnew = << >>) /\ [][TNext]_<<mvars, nnew, l>>
=============================================================================
