SPECIFICATION Spec
CONSTANTS Threads = {"t1", "t2"}
  Addrs = {1, 2}
  Progs <- ProgsSmall
INVARIANTS TableOnlyLive ExactWhenQuiescent DistinctAddrs
