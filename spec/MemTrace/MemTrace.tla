------------------------------- MODULE MemTrace -------------------------------
(* Implementation-shaped model of the tracing allocator (source/memtrace.c) with several threads: *)
(*   acquire : p := inner acquire; track(p, n)   = atomic add n; lock; table[p] := n; unlock       *)
(*   release : untrack(p) = lock; if p in table { atomic sub table[p]; remove p }; unlock;          *)
(*             inner release(p)                                                                     *)
(*   realloc : untrack(old); p := inner realloc (may move); track(p, n')                            *)
(* The inner allocator recycles addresses, which is why the order "untrack before giving the       *)
(* address back, track after obtaining it" matters: the table is keyed by address.                  *)
(* Checked in every interleaving: the table never holds an address that is not live; an address    *)
(* is never tracked twice; at quiescence bytes = sum of live sizes and count = number of live      *)
(* blocks; the byte counter never goes below zero.                                                  *)
EXTENDS Naturals, Sequences, FiniteSets

CONSTANTS Threads, Addrs, Progs     \* Progs: set of [Threads -> Seq(op)], op = <<"A", n>> | <<"F">> | <<"R", n>>

VARIABLES prog, ip, pc,
          owned,      \* [Threads -> address held by the thread or 0]   (each thread works on one block)
          size,       \* [Threads -> requested size of that block]
          freeAddrs,  \* addresses the inner allocator may hand out
          table,      \* [address -> size]  the tracer's allocs table
          bytes,      \* the atomic counter
          mtx

vars == <<prog, ip, pc, owned, size, freeAddrs, table, bytes, mtx>>

Init == /\ prog \in Progs /\ ip = [t \in Threads |-> 1] /\ pc = [t \in Threads |-> "op"]
        /\ owned = [t \in Threads |-> 0] /\ size = [t \in Threads |-> 0] /\ freeAddrs = Addrs
        /\ table = << >> /\ bytes = 0 /\ mtx = "free"

Cur(t) == prog[t][ip[t]]
HasOp(t) == ip[t] <= Len(prog[t])
Adv(t) == ip' = [ip EXCEPT ![t] = @ + 1] /\ pc' = [pc EXCEPT ![t] = "op"]
Put(f, k, v) == [i \in DOMAIN f \cup {k} |-> IF i = k THEN v ELSE f[i]]
Drop(f, k) == [i \in DOMAIN f \ {k} |-> f[i]]

(* inner acquire *)
InnerAcquire(t) ==
    /\ HasOp(t) /\ pc[t] = "op" /\ Cur(t)[1] = "A" /\ owned[t] = 0
    /\ \E a \in freeAddrs : owned' = [owned EXCEPT ![t] = a] /\ freeAddrs' = freeAddrs \ {a}
    /\ size' = [size EXCEPT ![t] = Cur(t)[2]] /\ pc' = [pc EXCEPT ![t] = "t_add"]
    /\ UNCHANGED <<prog, ip, table, bytes, mtx>>
(* track: atomic add, then the table update under the lock *)
TrackAdd(t) ==
    /\ pc[t] = "t_add" /\ bytes' = bytes + size[t] /\ pc' = [pc EXCEPT ![t] = "t_put"]
    /\ UNCHANGED <<prog, ip, owned, size, freeAddrs, table, mtx>>
TrackPut(t) ==
    /\ pc[t] = "t_put" /\ mtx = "free"
    /\ table' = Put(table, owned[t], size[t]) /\ Adv(t)
    /\ UNCHANGED <<prog, owned, size, freeAddrs, bytes, mtx>>

(* release / first half of realloc: untrack under the lock (find, atomic sub, remove) *)
Untrack(t) ==
    /\ HasOp(t) /\ pc[t] = "op" /\ Cur(t)[1] \in {"F", "R"} /\ owned[t] # 0 /\ mtx = "free"
    /\ IF owned[t] \in DOMAIN table
       THEN bytes' = bytes - table[owned[t]] /\ table' = Drop(table, owned[t])
       ELSE UNCHANGED <<bytes, table>>
    /\ pc' = [pc EXCEPT ![t] = IF Cur(t)[1] = "F" THEN "i_rel" ELSE "i_realloc"]
    /\ UNCHANGED <<prog, ip, owned, size, freeAddrs, mtx>>
InnerRelease(t) ==
    /\ pc[t] = "i_rel" /\ freeAddrs' = freeAddrs \cup {owned[t]}
    /\ owned' = [owned EXCEPT ![t] = 0] /\ size' = [size EXCEPT ![t] = 0] /\ Adv(t)
    /\ UNCHANGED <<prog, table, bytes, mtx>>
(* inner realloc: stays or moves to a free address (the old one becomes reusable by anybody) *)
InnerRealloc(t) ==
    /\ pc[t] = "i_realloc"
    /\ \/ UNCHANGED <<owned, freeAddrs>>
       \/ \E a \in freeAddrs : owned' = [owned EXCEPT ![t] = a] /\ freeAddrs' = (freeAddrs \ {a}) \cup {owned[t]}
    /\ size' = [size EXCEPT ![t] = Cur(t)[2]] /\ pc' = [pc EXCEPT ![t] = "t_add"]
    /\ UNCHANGED <<prog, ip, table, bytes, mtx>>
Skip(t) ==   \* release / realloc with nothing held, acquire while holding: no-ops of the driver
    /\ HasOp(t) /\ pc[t] = "op"
    /\ (Cur(t)[1] \in {"F", "R"} /\ owned[t] = 0) \/ (Cur(t)[1] = "A" /\ owned[t] # 0)
    /\ Adv(t) /\ UNCHANGED <<prog, owned, size, freeAddrs, table, bytes, mtx>>

TNext(t) == InnerAcquire(t) \/ TrackAdd(t) \/ TrackPut(t) \/ Untrack(t) \/ InnerRelease(t) \/ InnerRealloc(t) \/ Skip(t)
Quiescent == \A t \in Threads : pc[t] = "op"
AllDone == \A t \in Threads : ~HasOp(t)
Next == (\E t \in Threads : TNext(t)) \/ (AllDone /\ UNCHANGED vars)
Spec == Init /\ [][Next]_vars

RECURSIVE Sum(_, _)
Sum(f, S) == IF S = {} THEN 0 ELSE LET x == CHOOSE y \in S : TRUE IN f[x] + Sum(f, S \ {x})
Held == {t \in Threads : owned[t] # 0}
TableOnlyLive == \A a \in DOMAIN table : \E t \in Threads : owned[t] = a
ExactWhenQuiescent == Quiescent => (/\ bytes = Sum(size, Held)
                                    /\ Cardinality(DOMAIN table) = Cardinality(Held)
                                    /\ \A t \in Held : owned[t] \in DOMAIN table /\ table[owned[t]] = size[t])
DistinctAddrs == \A s, t \in Threads : (s # t /\ owned[s] # 0) => owned[s] # owned[t]
=============================================================================
