SPECIFICATION Spec
CONSTANTS WBase = 32768
  Thr = {1, 2, 3}
  Flags = {1, 2}
  Spur = 1
  Bug = "noerr"
  ProgSet <- ProgsBugTime
INVARIANTS NotBad
