SPECIFICATION Spec
CONSTANTS WBase = 32768
  Thr = {1, 2, 3, 4}
  Flags = {1, 2}
  Spur = 2
  Bug = "none"
  ProgSet <- ProgsAll
INVARIANTS TypeOK NotBad MutualExclusion OwnerNotWaiting ImplExclusive CounterAgrees HolderAgrees
