------------------------------- MODULE SyncMC -------------------------------
(* Implementation-shaped model for X06: threads run small programs of library calls; the library's own logic is   *)
(* transcribed on top of a POSIX-level model of one mutex, one condition variable and a virtual clock:            *)
(*   aws_condition_variable_wait_pred     : while (!err_code && !pred(ctx)) err_code = wait(cv, mutex); return     *)
(*   aws_condition_variable_wait_for_pred : the same loop around wait_for (the time-out starts again every round)  *)
(*   aws_condition_variable_wait_for      : deadline = time_to_wait + aws_sys_clock_get_ticks(); timedwait;        *)
(*                                          ETIMEDOUT -> AWS_ERROR_COND_VARIABLE_TIMED_OUT                          *)
(*   aws_mutex_try_lock                   : EBUSY -> AWS_ERROR_MUTEX_TIMEOUT                                        *)
(* POSIX level: cond_wait releases the mutex and blocks atomically, a woken thread must re-acquire the mutex before *)
(* it returns, signal wakes any one waiter (or none), broadcast all, spurious wake-ups happen (budget Spur), a timed *)
(* wait reports ETIMEDOUT only once the clock has reached its deadline; time advances only to the next deadline.   *)
(* Every observable step is handed to the abstract contract (Sync.tla) through Obs: if the contract does not allow *)
(* the step, `bad` is raised - invariant NotBad is therefore "the transcribed logic refines the contract in every  *)
(* interleaving". Deadlock freedom (TLC) and Termination under fairness are the "no lost wake-up" clauses for the   *)
(* predicate-loop pattern (flag written under the mutex, then notify).                                              *)
(* Bug # "none" switches one transcribed line to a plausible wrong one; the check runs those configurations and     *)
(* requires TLC to find the violation (the model can tell the difference).                                          *)
EXTENDS Sync, TLC

CONSTANTS Spur,      \* budget of spurious wake-ups
          ProgSet,   \* set of program assignments [Thr -> Seq(op)]
          Bug        \* "none" | "if" (predicate checked once) | "noadd" (deadline = time_to_wait)

VARIABLES prog, pc, ip, mo, cw, res, dl, ec, fl, sh, lv, now, spur, bad
ivars == <<prog, pc, ip, mo, cw, res, dl, ec, fl, sh, lv, now, spur, bad>>
vars == <<own, call, flag, inside, cnt, hr, sys, ended, prog, pc, ip, mo, cw, res, dl, ec, fl, sh, lv, now, spur, bad>>

NoDl == 0 - 1
ETIMEDOUT == 110
EBUSY == 16
W(n) == WFromNat(n)
MinOf(S) == CHOOSE x \in S : \A y \in S : x <= y

(* error translation of the library *)
MutexErr(e) == IF e = EBUSY THEN "AWS_ERROR_MUTEX_TIMEOUT" ELSE "AWS_ERROR_MUTEX_FAILED"
CvErr(e) == IF e = ETIMEDOUT THEN "AWS_ERROR_COND_VARIABLE_TIMED_OUT" ELSE "AWS_ERROR_COND_VARIABLE_ERROR_UNKNOWN"

(* hand an observable step to the contract *)
Obs(A) == IF ENABLED A THEN A /\ bad' = bad ELSE bad' = TRUE /\ UNCHANGED avars

Cur(t) == prog[t][ip[t]]
Running(t) == pc[t] = "run" /\ ip[t] <= Len(prog[t])
Op(t) == Cur(t)[1]
AtOp(t, name) == Running(t) /\ Op(t) = name
Goto(t, s) == pc' = [pc EXCEPT ![t] = s]
Adv(t) == ip' = [ip EXCEPT ![t] = @ + 1]

KindOf(o) == IF o[1] = "waitp" THEN "wait_pred" ELSE IF o[1] = "waitfp" THEN "wait_for_pred" ELSE "wait_for"
PredOf(o) == IF o[1] \in {"waitp", "waitfp"} THEN o[2] ELSE 0
DurOf(o) == IF o[1] = "waitfp" THEN o[3] ELSE IF o[1] \in {"waitf", "sleep"} THEN o[2] ELSE 0

Init == /\ AInit
        /\ prog \in ProgSet
        /\ pc = [t \in Thr |-> "run"] /\ ip = [t \in Thr |-> 1]
        /\ mo = Free /\ cw = {} /\ res = [t \in Thr |-> 0] /\ dl = [t \in Thr |-> NoDl] /\ ec = [t \in Thr |-> 0]
        /\ fl = [p \in Flags |-> 0] /\ sh = 0 /\ lv = [t \in Thr |-> 0] /\ now = 0 /\ spur = Spur /\ bad = FALSE

(* ---- mutex *)
ILock(t) ==
    /\ AtOp(t, "lock") /\ mo = Free
    /\ mo' = t /\ Adv(t) /\ Obs(LockRet(t, 0))
    /\ UNCHANGED <<prog, pc, cw, res, dl, ec, fl, sh, lv, now, spur>>
IUnlock(t) ==
    /\ (AtOp(t, "unlock") \/ pc[t] = "t_un")
    /\ mo' = Free /\ Adv(t) /\ Goto(t, "run") /\ Obs(Unlock(t, 0))
    /\ UNCHANGED <<prog, cw, res, dl, ec, fl, sh, lv, now, spur>>
(* "try": try_lock; on success a critical section and unlock *)
ITry(t) ==
    /\ AtOp(t, "try")
    /\ IF mo = Free THEN mo' = t /\ Goto(t, "t_in") /\ UNCHANGED ip /\ Obs(TryRet(t, 0, ""))
                    ELSE UNCHANGED <<mo, pc>> /\ Adv(t) /\ Obs(TryRet(t, 1, MutexErr(EBUSY)))
    /\ UNCHANGED <<prog, cw, res, dl, ec, fl, sh, lv, now, spur>>
IEnter(t) ==
    /\ (AtOp(t, "in") \/ pc[t] = "t_in")
    /\ lv' = [lv EXCEPT ![t] = sh] /\ Goto(t, IF pc[t] = "t_in" THEN "t_in2" ELSE "in2") /\ Obs(Enter(t, sh))
    /\ UNCHANGED <<prog, ip, mo, cw, res, dl, ec, fl, sh, now, spur>>
ILeave(t) ==
    /\ pc[t] \in {"in2", "t_in2"}
    /\ sh' = lv[t] + 1 /\ Obs(Leave(t, lv[t] + 1))
    /\ IF pc[t] = "in2" THEN Goto(t, "run") /\ Adv(t) ELSE Goto(t, "t_un") /\ UNCHANGED ip
    /\ UNCHANGED <<prog, mo, cw, res, dl, ec, fl, lv, now, spur>>
ISet(t) ==
    /\ AtOp(t, "set")
    /\ fl' = [fl EXCEPT ![Cur(t)[2]] = 1] /\ Adv(t) /\ Obs(SetFlag(t, Cur(t)[2], 1))
    /\ UNCHANGED <<prog, pc, mo, cw, res, dl, ec, sh, lv, now, spur>>

(* ---- condition variable *)
IWaitBegin(t) ==
    /\ Running(t) /\ Op(t) \in {"waitp", "waitfp", "waitf"}
    /\ ec' = [ec EXCEPT ![t] = 0] /\ Goto(t, IF Op(t) = "waitf" THEN "once" ELSE "loop")
    /\ Obs(WaitBegin(t, KindOf(Cur(t)), PredOf(Cur(t)), W(DurOf(Cur(t))), W(now)))
    /\ UNCHANGED <<prog, ip, mo, cw, res, dl, fl, sh, lv, now, spur>>

(* while (!err_code && !pred(pred_ctx)) err_code = wait...(); return err_code; *)
CallsWait(t) == \/ pc[t] = "once"
                \/ pc[t] = "loop" /\ ec[t] = 0 /\ fl[PredOf(Cur(t))] = 0
DeadlineOf(t) == IF Bug = "noadd" THEN DurOf(Cur(t)) ELSE now + DurOf(Cur(t))
ILoop(t) ==
    /\ pc[t] \in {"loop", "once", "ret"}
    /\ IF CallsWait(t)
       THEN /\ mo' = Free                                     \* release and block, atomically
            /\ IF Op(t) = "waitp"
               THEN cw' = cw \cup {t} /\ Goto(t, "blocked") /\ UNCHANGED <<res, dl>>
               ELSE IF DeadlineOf(t) <= now
                    THEN res' = [res EXCEPT ![t] = ETIMEDOUT] /\ Goto(t, "reacq") /\ UNCHANGED <<cw, dl>>
                    ELSE cw' = cw \cup {t} /\ dl' = [dl EXCEPT ![t] = DeadlineOf(t)] /\ Goto(t, "blocked") /\ UNCHANGED res
            /\ UNCHANGED <<ip, own, call, flag, inside, cnt, hr, sys, ended, bad>>
       ELSE /\ Obs(WaitRet(t, IF ec[t] = 0 THEN 0 ELSE 1, CvErr(ec[t]),
                           IF PredOf(Cur(t)) = 0 THEN 0 ELSE fl[PredOf(Cur(t))], W(now)))
            /\ Goto(t, "run") /\ Adv(t) /\ UNCHANGED <<mo, cw, res, dl>>
    /\ UNCHANGED <<prog, ec, fl, sh, lv, now, spur>>
IReacq(t) ==
    /\ pc[t] = "reacq" /\ mo = Free
    /\ mo' = t /\ ec' = [ec EXCEPT ![t] = res[t]]
    /\ Goto(t, IF Op(t) = "waitf" \/ Bug = "if" THEN "ret" ELSE "loop")
    /\ UNCHANGED <<own, call, flag, inside, cnt, hr, sys, ended, prog, ip, cw, res, dl, fl, sh, lv, now, spur, bad>>

Wake(S, r) ==
    /\ cw' = cw \ S
    /\ res' = [t \in Thr |-> IF t \in S THEN r ELSE res[t]]
    /\ pc' = [t \in Thr |-> IF t \in S THEN "reacq" ELSE pc[t]]
    /\ dl' = [t \in Thr |-> IF t \in S THEN NoDl ELSE dl[t]]
INotify(t) ==
    /\ Running(t) /\ Op(t) \in {"nt1", "ntall"}
    /\ Adv(t) /\ Obs(Notify(t, 0))
    /\ IF Op(t) = "ntall" THEN Wake(cw, 0)
       ELSE IF cw = {} THEN UNCHANGED <<cw, res, pc, dl>> ELSE \E w \in cw : Wake({w}, 0)
    /\ UNCHANGED <<prog, mo, ec, fl, sh, lv, now, spur>>
ISpurious ==
    /\ spur > 0 /\ \E w \in cw : Wake({w}, 0)
    /\ spur' = spur - 1
    /\ UNCHANGED <<own, call, flag, inside, cnt, hr, sys, ended, prog, ip, mo, ec, fl, sh, lv, now, bad>>

(* ---- time *)
ISleepBegin(t) ==
    /\ AtOp(t, "sleep")
    /\ dl' = [dl EXCEPT ![t] = now + DurOf(Cur(t))] /\ Goto(t, "sleeping")
    /\ Obs(SleepBegin(t, W(DurOf(Cur(t))), W(now)))
    /\ UNCHANGED <<prog, ip, mo, cw, res, ec, fl, sh, lv, now, spur>>
ISleepRet(t) ==
    /\ pc[t] = "slept"
    /\ Goto(t, "run") /\ Adv(t) /\ Obs(SleepRet(t, W(now)))
    /\ UNCHANGED <<prog, mo, cw, res, dl, ec, fl, sh, lv, now, spur>>
ITick ==
    /\ \E t \in Thr : dl[t] # NoDl
    /\ LET T == {t \in Thr : dl[t] # NoDl}
           m == MinOf({dl[t] : t \in T})
           n2 == IF m > now THEN m ELSE now
           X == {t \in T : dl[t] <= n2}
       IN /\ now' = n2
          /\ cw' = cw \ X
          /\ res' = [t \in Thr |-> IF t \in X /\ t \in cw THEN ETIMEDOUT ELSE res[t]]
          /\ pc' = [t \in Thr |-> IF t \in X THEN (IF pc[t] = "sleeping" THEN "slept" ELSE "reacq") ELSE pc[t]]
          /\ dl' = [t \in Thr |-> IF t \in X THEN NoDl ELSE dl[t]]
    /\ UNCHANGED <<own, call, flag, inside, cnt, hr, sys, ended, prog, ip, mo, ec, fl, sh, lv, spur, bad>>

AllDone == \A t \in Thr : pc[t] = "run" /\ ip[t] > Len(prog[t])
IDone == AllDone /\ UNCHANGED vars

LockStep == \E t \in Thr : ILock(t)
UnlockStep == \E t \in Thr : IUnlock(t)
TryStep == \E t \in Thr : ITry(t)
EnterStep == \E t \in Thr : IEnter(t)
LeaveStep == \E t \in Thr : ILeave(t)
SetStep == \E t \in Thr : ISet(t)
WaitBeginStep == \E t \in Thr : IWaitBegin(t)
LoopStep == \E t \in Thr : ILoop(t)
ReacqStep == \E t \in Thr : IReacq(t)
NotifyStep == \E t \in Thr : INotify(t)
SleepBeginStep == \E t \in Thr : ISleepBegin(t)
SleepRetStep == \E t \in Thr : ISleepRet(t)

Next == LockStep \/ UnlockStep \/ TryStep \/ EnterStep \/ LeaveStep \/ SetStep \/ WaitBeginStep \/ LoopStep
        \/ ReacqStep \/ NotifyStep \/ ISpurious \/ SleepBeginStep \/ SleepRetStep \/ ITick \/ IDone
Spec == Init /\ [][Next]_vars

ThreadStep(t) == ILock(t) \/ IUnlock(t) \/ ITry(t) \/ IEnter(t) \/ ILeave(t) \/ ISet(t) \/ IWaitBegin(t) \/ ILoop(t)
                 \/ IReacq(t) \/ INotify(t) \/ ISleepBegin(t) \/ ISleepRet(t)
FairSpec == Spec /\ WF_vars(ITick) /\ \A t \in Thr : SF_vars(ThreadStep(t))

(* ---- what is checked *)
NotBad == ~bad                                                   \* every observable step is allowed by the contract
ImplExclusive == Cardinality({t \in Thr : pc[t] \in {"in2", "t_in2"}}) <= 1
CounterAgrees == (~bad /\ inside = Free) => cnt = sh           \* no lost update
HolderAgrees == (~bad /\ own # Free) => mo = own                \* a returned lock / wait really holds the mutex
(* a thread past a predicate wait saw the predicate true or was told about the time-out not before its deadline:    *)
(* both are part of WaitRet, i.e. of NotBad. Wake-ups are not lost: *)
Termination == <>[]AllDone

(* ---- programs: the core scenarios of checks/x06.py *)
Cs == <<<<"lock">>, <<"in">>, <<"unlock">>>>
WaitP(p) == <<<<"lock">>, <<"waitp", p>>, <<"in">>, <<"unlock">>>>
WaitFP(p, d) == <<<<"lock">>, <<"waitfp", p, d>>, <<"unlock">>>>
WaitF(d) == <<<<"lock">>, <<"waitf", d>>, <<"unlock">>>>
SetOut(p, n) == <<<<"lock">>, <<"set", p>>, <<"unlock">>, <<n>>>>       \* notify after unlock
SetIn(p, n) == <<<<"lock">>, <<"set", p>>, <<n>>, <<"unlock">>>>        \* notify under the lock

P(a, b, c) == [t \in Thr |-> IF t = 1 THEN a ELSE IF t = 2 THEN b ELSE c]
ProgWrongWake == P(WaitP(1), SetOut(1, "ntall"), <<<<"nt1">>>> \o Cs)                         \* a notify without the predicate
ProgTwoPreds == P(WaitP(1), WaitP(2), SetOut(1, "ntall") \o SetIn(2, "ntall"))               \* broadcast wakes the wrong one too
ProgOneEach == P(WaitP(1), SetIn(1, "nt1") \o <<<<"try">>>>, <<<<"try">>>> \o Cs)             \* notify_one, single waiter
ProgNeverSet == P(WaitFP(1, 2), <<<<"sleep", 1>>, <<"nt1">>>> \o Cs, <<<<"try">>>>)           \* time-out, restarted by a notify
ProgRace == P(WaitFP(1, 1), <<<<"sleep", 1>>>> \o SetOut(1, "nt1"), WaitF(1))                 \* setter races the deadline
ProgZero == P(WaitFP(1, 0), SetIn(1, "nt1"), <<<<"try">>>> \o WaitF(0))                       \* time_to_wait = 0
ProgMutex == P(Cs \o <<<<"try">>>>, <<<<"try">>>> \o Cs, Cs)
ProgChain == P(WaitP(1) \o SetOut(2, "ntall"), WaitFP(2, 3), <<<<"sleep", 2>>>> \o SetOut(1, "ntall"))   \* (nt1 here could wake thread 2 only: a lost wake-up of the program, TLC reports the deadlock)

ProgsQuick == {ProgWrongWake, ProgTwoPreds, ProgOneEach, ProgNeverSet, ProgRace, ProgZero, ProgMutex}
ProgsAll == ProgsQuick \cup {ProgChain}
ProgsLive == {ProgWrongWake, ProgTwoPreds, ProgNeverSet, ProgRace}
ProgsBugIf == {ProgWrongWake}
ProgsBugTime == {ProgNeverSet}
=============================================================================
