-------------------------------- MODULE Sync --------------------------------
(* Extra X06: what a user of aws_mutex, aws_condition_variable and the two clocks can observe         *)
(* (include/aws/common/mutex.h, condition_variable.h, clock.h). One mutex, any number of condition    *)
(* variables used with it, predicate flags that are only written under the mutex, a counter that is    *)
(* read and written inside critical sections. Every action is one observed event of one thread:       *)
(* a relation between the state before, the logged arguments / results and the state after.           *)
(*                                                                                                    *)
(* Left open on purpose (POSIX and the headers leave it open): which waiter a notify wakes, spurious  *)
(* wake-ups (a plain wait may return at any time), how often and when a predicate is evaluated,        *)
(* whether a timed predicate wait that times out sees a predicate that became true at the very last   *)
(* moment, any upper bound on how long a call takes. Not left open: lock / wait return only with the  *)
(* mutex free for the caller; a predicate wait returns success only with the predicate true; the      *)
(* time-out error is AWS_ERROR_COND_VARIABLE_TIMED_OUT and is never reported before time_to_wait has   *)
(* elapsed on the clock; try_lock fails exactly when the mutex cannot be had; clocks never go back.   *)
(* 64-bit tick values are Wide numbers (little-endian base-2^15 limbs, spec/common/Wide.tla).          *)
EXTENDS Naturals, Sequences, FiniteSets, Wide

CONSTANTS Thr,       \* thread ids (0 = the scenario's main thread)
          Flags      \* predicate flags

Free == 0 - 1
TimedOut == "AWS_ERROR_COND_VARIABLE_TIMED_OUT"
TryBusy == "AWS_ERROR_MUTEX_TIMEOUT"             \* what both platform implementations raise for "could not lock"
PredKinds == {"wait_pred", "wait_for_pred"}
TimedKinds == {"wait_for", "wait_for_pred"}
WaitKinds == {"wait", "wait_for", "wait_pred", "wait_for_pred"}

VARIABLES own,      \* thread that holds the mutex as far as returned calls tell (Free: nobody; a thread inside a
                    \* condition wait has lent it)
          call,     \* [Thr -> pending blocking call of that thread]
          flag,     \* [Flags -> 0..1]
          inside,   \* thread between Enter and Leave of a critical section, or Free
          cnt,      \* the protected counter
          hr, sys,  \* latest value read from the high resolution / system clock (Wide)
          ended     \* threads whose function has returned

avars == <<own, call, flag, inside, cnt, hr, sys, ended>>

Idle == [kind |-> "none", p |-> 0, d |-> WZero, t0 |-> WZero]

AInit == /\ own = Free /\ call = [k \in Thr |-> Idle] /\ flag = [p \in Flags |-> 0]
         /\ inside = Free /\ cnt = 0 /\ hr = WZero /\ sys = WZero /\ ended = {}

InCondWait == \E t \in Thr : call[t].kind \in WaitKinds
NoCall(k) == k \in Thr /\ call[k].kind = "none"

(* a tick value read from the high resolution clock: never earlier than any value read before, by any thread *)
Tm(t) == WLe(hr, t) /\ hr' = WNorm(t)

(* ---- mutex *)
(* "Blocks until it acquires the lock": returns success, and only while nobody else holds the mutex *)
LockRet(k, rc) ==
    /\ NoCall(k) /\ rc = 0 /\ own = Free
    /\ own' = k /\ UNCHANGED <<call, flag, inside, cnt, hr, sys, ended>>

(* "Attempts to acquire the lock but returns immediately if it can not": success only on a free mutex; failure only  *)
(* when the mutex is (or, for a thread inside a condition wait, may be) held                                         *)
TryRet(k, rc, err) ==
    /\ NoCall(k)
    /\ IF rc = 0 THEN own = Free /\ own' = k
                 ELSE err = TryBusy /\ (own # Free \/ InCondWait) /\ own' = own
    /\ UNCHANGED <<call, flag, inside, cnt, hr, sys, ended>>

Unlock(k, rc) ==
    /\ NoCall(k) /\ rc = 0 /\ own = k /\ inside # k
    /\ own' = Free /\ UNCHANGED <<call, flag, inside, cnt, hr, sys, ended>>

(* critical section of the scenarios: read the counter (Enter), let anybody run, write counter + 1 (Leave) *)
Enter(k, v) ==
    /\ NoCall(k) /\ own = k /\ inside = Free /\ v = cnt
    /\ inside' = k /\ UNCHANGED <<own, call, flag, cnt, hr, sys, ended>>
Leave(k, v) ==
    /\ inside = k /\ own = k /\ v = cnt + 1
    /\ inside' = Free /\ cnt' = v /\ UNCHANGED <<own, call, flag, hr, sys, ended>>

SetFlag(k, p, v) ==
    /\ NoCall(k) /\ own = k /\ p \in Flags /\ v \in {0, 1}
    /\ flag' = [flag EXCEPT ![p] = v] /\ UNCHANGED <<own, call, inside, cnt, hr, sys, ended>>

(* ---- condition variable *)
Notify(k, rc) == NoCall(k) /\ rc = 0 /\ UNCHANGED avars

(* the caller holds the mutex (documented precondition) and lends it for the duration of the call *)
WaitBegin(k, kind, p, d, t) ==
    /\ NoCall(k) /\ own = k /\ inside # k /\ kind \in WaitKinds
    /\ (kind \in PredKinds => p \in Flags)
    /\ Tm(t)
    /\ own' = Free /\ call' = [call EXCEPT ![k] = [kind |-> kind, p |-> p, d |-> d, t0 |-> t]]
    /\ UNCHANGED <<flag, inside, cnt, sys, ended>>

Elapsed(c, t) == WLe(WAdd(c.t0, c.d), t)          \* at least time_to_wait has passed since the call began
TimeoutOk(c, rc, err, t) == rc # 0 /\ err = TimedOut /\ Elapsed(c, t)

(* every wait returns with the mutex held again by the caller: nobody else holds it at that moment. fl is the value   *)
(* of the predicate flag the caller reads right after the return (a protected read)                                   *)
WaitRet(k, rc, err, fl, t) ==
    LET c == call[k] IN
    /\ k \in Thr /\ c.kind \in WaitKinds /\ own = Free
    /\ Tm(t)
    /\ (c.kind \in PredKinds => fl = flag[c.p])
    /\ IF c.kind = "wait_pred" THEN rc = 0 /\ fl = 1
       ELSE IF c.kind = "wait_for_pred" THEN (IF rc = 0 THEN fl = 1 ELSE TimeoutOk(c, rc, err, t))
       ELSE IF c.kind = "wait_for" THEN (IF rc = 0 THEN TRUE ELSE TimeoutOk(c, rc, err, t))
       ELSE rc = 0
    /\ own' = k /\ call' = [call EXCEPT ![k] = Idle]
    /\ UNCHANGED <<flag, inside, cnt, sys, ended>>

(* ---- clocks and sleeping *)
SleepBegin(k, d, t) ==
    /\ NoCall(k) /\ Tm(t)
    /\ call' = [call EXCEPT ![k] = [kind |-> "sleep", p |-> 0, d |-> d, t0 |-> t]]
    /\ UNCHANGED <<own, flag, inside, cnt, sys, ended>>
SleepRet(k, t) ==
    /\ k \in Thr /\ call[k].kind = "sleep" /\ Tm(t) /\ Elapsed(call[k], t)
    /\ call' = [call EXCEPT ![k] = Idle]
    /\ UNCHANGED <<own, flag, inside, cnt, sys, ended>>

Clock(k, rch, rcs, h, s) ==
    /\ NoCall(k) /\ rch = 0 /\ rcs = 0
    /\ Tm(h) /\ WLe(sys, s) /\ sys' = WNorm(s)
    /\ UNCHANGED <<own, call, flag, inside, cnt, ended>>

(* ---- bookkeeping of the scenario's threads (aws_thread itself is property C20) *)
ThreadBegin(k) == NoCall(k) /\ k \notin ended /\ UNCHANGED avars
ThreadEnd(k) ==
    /\ NoCall(k) /\ own # k /\ inside # k /\ k \notin ended
    /\ ended' = ended \cup {k} /\ UNCHANGED <<own, call, flag, inside, cnt, hr, sys>>
JoinRet(k, thr, rc) == NoCall(k) /\ rc = 0 /\ thr \in ended /\ UNCHANGED avars

Quiet == own = Free /\ inside = Free /\ \A k \in Thr : call[k].kind = "none"
SetupOk(rcm, rcc) == rcm = 0 /\ rcc = 0 /\ Quiet /\ UNCHANGED avars
CleanUp == Quiet /\ UNCHANGED avars
(* end of an execution: every blocking call has returned, the mutex is free, the scheduler saw no unlock by a       *)
(* non-owner / destroy of a held object, nothing leaked                                                            *)
EndOk(live, unjoined, anomalies) == Quiet /\ live = 0 /\ unjoined = 0 /\ anomalies = 0 /\ UNCHANGED avars

(* ---- state invariants of the contract (checked on the implementation-shaped model, SyncMC) *)
TypeOK == /\ own \in Thr \cup {Free} /\ inside \in Thr \cup {Free} /\ cnt \in Nat
          /\ \A p \in Flags : flag[p] \in {0, 1}
          /\ \A k \in Thr : call[k].kind \in WaitKinds \cup {"none", "sleep"}
MutualExclusion == inside # Free => (own = inside /\ call[inside].kind \notin WaitKinds)
OwnerNotWaiting == own # Free => call[own].kind \notin WaitKinds
=============================================================================
