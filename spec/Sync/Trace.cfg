SPECIFICATION TSpec
CONSTANTS WBase = 32768
  Thr = {0, 1, 2, 3, 4, 5, 6}
  Flags = {1, 2, 3}
POSTCONDITION TraceAccepted
CHECK_DEADLOCK FALSE
