---- MODULE SyncMC_TTrace_1790502436 ----
EXTENDS Sequences, TLCExt, Toolbox, Naturals, TLC, SyncMC

_expression ==
    LET SyncMC_TEExpression == INSTANCE SyncMC_TEExpression
    IN SyncMC_TEExpression!expression
----

_trace ==
    LET SyncMC_TETrace == INSTANCE SyncMC_TETrace
    IN SyncMC_TETrace!trace
----

_inv ==
    ~(
        TLCGet("level") = Len(_TETrace)
        /\
        res = (<<0, 110, 0>>)
        /\
        mo = (-1)
        /\
        flag = (<<1, 0>>)
        /\
        bad = (FALSE)
        /\
        fl = (<<1, 0>>)
        /\
        own = (-1)
        /\
        ip = (<<2, 4, 6>>)
        /\
        dl = (<<-1, -1, -1>>)
        /\
        cnt = (0)
        /\
        lv = (<<0, 0, 0>>)
        /\
        hr = (<<5>>)
        /\
        sys = (<<>>)
        /\
        inside = (-1)
        /\
        prog = (<<<<<<"lock">>, <<"waitp", 1>>, <<"in">>, <<"unlock">>, <<"lock">>, <<"set", 2>>, <<"unlock">>, <<"ntall">>>>, <<<<"lock">>, <<"waitfp", 2, 3>>, <<"unlock">>>>, <<<<"sleep", 2>>, <<"lock">>, <<"set", 1>>, <<"unlock">>, <<"nt1">>>>>>)
        /\
        spur = (0)
        /\
        call = (<<[p |-> 1, d |-> <<>>, kind |-> "wait_pred", t0 |-> <<>>], [p |-> 0, d |-> <<>>, kind |-> "none", t0 |-> <<>>], [p |-> 0, d |-> <<>>, kind |-> "none", t0 |-> <<>>]>>)
        /\
        pc = (<<"blocked", "run", "run">>)
        /\
        cw = ({1})
        /\
        sh = (0)
        /\
        now = (5)
        /\
        ended = ({})
        /\
        ec = (<<0, 110, 0>>)
    )
----

_init ==
    /\ flag = _TETrace[1].flag
    /\ bad = _TETrace[1].bad
    /\ prog = _TETrace[1].prog
    /\ lv = _TETrace[1].lv
    /\ mo = _TETrace[1].mo
    /\ now = _TETrace[1].now
    /\ pc = _TETrace[1].pc
    /\ cw = _TETrace[1].cw
    /\ dl = _TETrace[1].dl
    /\ own = _TETrace[1].own
    /\ ec = _TETrace[1].ec
    /\ res = _TETrace[1].res
    /\ fl = _TETrace[1].fl
    /\ sh = _TETrace[1].sh
    /\ cnt = _TETrace[1].cnt
    /\ sys = _TETrace[1].sys
    /\ hr = _TETrace[1].hr
    /\ ip = _TETrace[1].ip
    /\ inside = _TETrace[1].inside
    /\ spur = _TETrace[1].spur
    /\ call = _TETrace[1].call
    /\ ended = _TETrace[1].ended
----

_next ==
    /\ \E i,j \in DOMAIN _TETrace:
        /\ \/ /\ j = i + 1
              /\ i = TLCGet("level")
        /\ flag  = _TETrace[i].flag
        /\ flag' = _TETrace[j].flag
        /\ bad  = _TETrace[i].bad
        /\ bad' = _TETrace[j].bad
        /\ prog  = _TETrace[i].prog
        /\ prog' = _TETrace[j].prog
        /\ lv  = _TETrace[i].lv
        /\ lv' = _TETrace[j].lv
        /\ mo  = _TETrace[i].mo
        /\ mo' = _TETrace[j].mo
        /\ now  = _TETrace[i].now
        /\ now' = _TETrace[j].now
        /\ pc  = _TETrace[i].pc
        /\ pc' = _TETrace[j].pc
        /\ cw  = _TETrace[i].cw
        /\ cw' = _TETrace[j].cw
        /\ dl  = _TETrace[i].dl
        /\ dl' = _TETrace[j].dl
        /\ own  = _TETrace[i].own
        /\ own' = _TETrace[j].own
        /\ ec  = _TETrace[i].ec
        /\ ec' = _TETrace[j].ec
        /\ res  = _TETrace[i].res
        /\ res' = _TETrace[j].res
        /\ fl  = _TETrace[i].fl
        /\ fl' = _TETrace[j].fl
        /\ sh  = _TETrace[i].sh
        /\ sh' = _TETrace[j].sh
        /\ cnt  = _TETrace[i].cnt
        /\ cnt' = _TETrace[j].cnt
        /\ sys  = _TETrace[i].sys
        /\ sys' = _TETrace[j].sys
        /\ hr  = _TETrace[i].hr
        /\ hr' = _TETrace[j].hr
        /\ ip  = _TETrace[i].ip
        /\ ip' = _TETrace[j].ip
        /\ inside  = _TETrace[i].inside
        /\ inside' = _TETrace[j].inside
        /\ spur  = _TETrace[i].spur
        /\ spur' = _TETrace[j].spur
        /\ call  = _TETrace[i].call
        /\ call' = _TETrace[j].call
        /\ ended  = _TETrace[i].ended
        /\ ended' = _TETrace[j].ended

\* Uncomment the ASSUME below to write the states of the error trace
\* to the given file in Json format. Note that you can pass any tuple
\* to `JsonSerialize`. For example, a sub-sequence of _TETrace.
    \* ASSUME
    \*     LET J == INSTANCE Json
    \*         IN J!JsonSerialize("SyncMC_TTrace_1790502436.json", _TETrace)

=============================================================================

 Note that you can extract this module `SyncMC_TEExpression`
  to a dedicated file to reuse `expression` (the module in the 
  dedicated `SyncMC_TEExpression.tla` file takes precedence 
  over the module `SyncMC_TEExpression` below).

---- MODULE SyncMC_TEExpression ----
EXTENDS Sequences, TLCExt, Toolbox, Naturals, TLC, SyncMC

expression == 
    [
        \* To hide variables of the `SyncMC` spec from the error trace,
        \* remove the variables below.  The trace will be written in the order
        \* of the fields of this record.
        flag |-> flag
        ,bad |-> bad
        ,prog |-> prog
        ,lv |-> lv
        ,mo |-> mo
        ,now |-> now
        ,pc |-> pc
        ,cw |-> cw
        ,dl |-> dl
        ,own |-> own
        ,ec |-> ec
        ,res |-> res
        ,fl |-> fl
        ,sh |-> sh
        ,cnt |-> cnt
        ,sys |-> sys
        ,hr |-> hr
        ,ip |-> ip
        ,inside |-> inside
        ,spur |-> spur
        ,call |-> call
        ,ended |-> ended
        
        \* Put additional constant-, state-, and action-level expressions here:
        \* ,_stateNumber |-> _TEPosition
        \* ,_flagUnchanged |-> flag = flag'
        
        \* Format the `flag` variable as Json value.
        \* ,_flagJson |->
        \*     LET J == INSTANCE Json
        \*     IN J!ToJson(flag)
        
        \* Lastly, you may build expressions over arbitrary sets of states by
        \* leveraging the _TETrace operator.  For example, this is how to
        \* count the number of times a spec variable changed up to the current
        \* state in the trace.
        \* ,_flagModCount |->
        \*     LET F[s \in DOMAIN _TETrace] ==
        \*         IF s = 1 THEN 0
        \*         ELSE IF _TETrace[s].flag # _TETrace[s-1].flag
        \*             THEN 1 + F[s-1] ELSE F[s-1]
        \*     IN F[_TEPosition - 1]
    ]

=============================================================================



Parsing and semantic processing can take forever if the trace below is long.
 In this case, it is advised to uncomment the module below to deserialize the
 trace from a generated binary file.

\*
\*---- MODULE SyncMC_TETrace ----
\*EXTENDS IOUtils, TLC, SyncMC
\*
\*trace == IODeserialize("SyncMC_TTrace_1790502436.bin", TRUE)
\*
\*=============================================================================
\*

---- MODULE SyncMC_TETrace ----
EXTENDS TLC, SyncMC

trace == 
    <<
    ([res |-> <<0, 0, 0>>,mo |-> -1,flag |-> <<0, 0>>,bad |-> FALSE,fl |-> <<0, 0>>,own |-> -1,ip |-> <<1, 1, 1>>,dl |-> <<-1, -1, -1>>,cnt |-> 0,lv |-> <<0, 0, 0>>,hr |-> <<>>,sys |-> <<>>,inside |-> -1,prog |-> <<<<<<"lock">>, <<"waitp", 1>>, <<"in">>, <<"unlock">>, <<"lock">>, <<"set", 2>>, <<"unlock">>, <<"ntall">>>>, <<<<"lock">>, <<"waitfp", 2, 3>>, <<"unlock">>>>, <<<<"sleep", 2>>, <<"lock">>, <<"set", 1>>, <<"unlock">>, <<"nt1">>>>>>,spur |-> 2,call |-> <<[p |-> 0, d |-> <<>>, kind |-> "none", t0 |-> <<>>], [p |-> 0, d |-> <<>>, kind |-> "none", t0 |-> <<>>], [p |-> 0, d |-> <<>>, kind |-> "none", t0 |-> <<>>]>>,pc |-> <<"run", "run", "run">>,cw |-> {},sh |-> 0,now |-> 0,ended |-> {},ec |-> <<0, 0, 0>>]),
    ([res |-> <<0, 0, 0>>,mo |-> 2,flag |-> <<0, 0>>,bad |-> FALSE,fl |-> <<0, 0>>,own |-> 2,ip |-> <<1, 2, 1>>,dl |-> <<-1, -1, -1>>,cnt |-> 0,lv |-> <<0, 0, 0>>,hr |-> <<>>,sys |-> <<>>,inside |-> -1,prog |-> <<<<<<"lock">>, <<"waitp", 1>>, <<"in">>, <<"unlock">>, <<"lock">>, <<"set", 2>>, <<"unlock">>, <<"ntall">>>>, <<<<"lock">>, <<"waitfp", 2, 3>>, <<"unlock">>>>, <<<<"sleep", 2>>, <<"lock">>, <<"set", 1>>, <<"unlock">>, <<"nt1">>>>>>,spur |-> 2,call |-> <<[p |-> 0, d |-> <<>>, kind |-> "none", t0 |-> <<>>], [p |-> 0, d |-> <<>>, kind |-> "none", t0 |-> <<>>], [p |-> 0, d |-> <<>>, kind |-> "none", t0 |-> <<>>]>>,pc |-> <<"run", "run", "run">>,cw |-> {},sh |-> 0,now |-> 0,ended |-> {},ec |-> <<0, 0, 0>>]),
    ([res |-> <<0, 0, 0>>,mo |-> 2,flag |-> <<0, 0>>,bad |-> FALSE,fl |-> <<0, 0>>,own |-> -1,ip |-> <<1, 2, 1>>,dl |-> <<-1, -1, -1>>,cnt |-> 0,lv |-> <<0, 0, 0>>,hr |-> <<>>,sys |-> <<>>,inside |-> -1,prog |-> <<<<<<"lock">>, <<"waitp", 1>>, <<"in">>, <<"unlock">>, <<"lock">>, <<"set", 2>>, <<"unlock">>, <<"ntall">>>>, <<<<"lock">>, <<"waitfp", 2, 3>>, <<"unlock">>>>, <<<<"sleep", 2>>, <<"lock">>, <<"set", 1>>, <<"unlock">>, <<"nt1">>>>>>,spur |-> 2,call |-> <<[p |-> 0, d |-> <<>>, kind |-> "none", t0 |-> <<>>], [p |-> 2, d |-> <<3>>, kind |-> "wait_for_pred", t0 |-> <<>>], [p |-> 0, d |-> <<>>, kind |-> "none", t0 |-> <<>>]>>,pc |-> <<"run", "loop", "run">>,cw |-> {},sh |-> 0,now |-> 0,ended |-> {},ec |-> <<0, 0, 0>>]),
    ([res |-> <<0, 0, 0>>,mo |-> -1,flag |-> <<0, 0>>,bad |-> FALSE,fl |-> <<0, 0>>,own |-> -1,ip |-> <<1, 2, 1>>,dl |-> <<-1, 3, -1>>,cnt |-> 0,lv |-> <<0, 0, 0>>,hr |-> <<>>,sys |-> <<>>,inside |-> -1,prog |-> <<<<<<"lock">>, <<"waitp", 1>>, <<"in">>, <<"unlock">>, <<"lock">>, <<"set", 2>>, <<"unlock">>, <<"ntall">>>>, <<<<"lock">>, <<"waitfp", 2, 3>>, <<"unlock">>>>, <<<<"sleep", 2>>, <<"lock">>, <<"set", 1>>, <<"unlock">>, <<"nt1">>>>>>,spur |-> 2,call |-> <<[p |-> 0, d |-> <<>>, kind |-> "none", t0 |-> <<>>], [p |-> 2, d |-> <<3>>, kind |-> "wait_for_pred", t0 |-> <<>>], [p |-> 0, d |-> <<>>, kind |-> "none", t0 |-> <<>>]>>,pc |-> <<"run", "blocked", "run">>,cw |-> {2},sh |-> 0,now |-> 0,ended |-> {},ec |-> <<0, 0, 0>>]),
    ([res |-> <<0, 0, 0>>,mo |-> -1,flag |-> <<0, 0>>,bad |-> FALSE,fl |-> <<0, 0>>,own |-> -1,ip |-> <<1, 2, 1>>,dl |-> <<-1, -1, -1>>,cnt |-> 0,lv |-> <<0, 0, 0>>,hr |-> <<>>,sys |-> <<>>,inside |-> -1,prog |-> <<<<<<"lock">>, <<"waitp", 1>>, <<"in">>, <<"unlock">>, <<"lock">>, <<"set", 2>>, <<"unlock">>, <<"ntall">>>>, <<<<"lock">>, <<"waitfp", 2, 3>>, <<"unlock">>>>, <<<<"sleep", 2>>, <<"lock">>, <<"set", 1>>, <<"unlock">>, <<"nt1">>>>>>,spur |-> 1,call |-> <<[p |-> 0, d |-> <<>>, kind |-> "none", t0 |-> <<>>], [p |-> 2, d |-> <<3>>, kind |-> "wait_for_pred", t0 |-> <<>>], [p |-> 0, d |-> <<>>, kind |-> "none", t0 |-> <<>>]>>,pc |-> <<"run", "reacq", "run">>,cw |-> {},sh |-> 0,now |-> 0,ended |-> {},ec |-> <<0, 0, 0>>]),
    ([res |-> <<0, 0, 0>>,mo |-> 1,flag |-> <<0, 0>>,bad |-> FALSE,fl |-> <<0, 0>>,own |-> 1,ip |-> <<2, 2, 1>>,dl |-> <<-1, -1, -1>>,cnt |-> 0,lv |-> <<0, 0, 0>>,hr |-> <<>>,sys |-> <<>>,inside |-> -1,prog |-> <<<<<<"lock">>, <<"waitp", 1>>, <<"in">>, <<"unlock">>, <<"lock">>, <<"set", 2>>, <<"unlock">>, <<"ntall">>>>, <<<<"lock">>, <<"waitfp", 2, 3>>, <<"unlock">>>>, <<<<"sleep", 2>>, <<"lock">>, <<"set", 1>>, <<"unlock">>, <<"nt1">>>>>>,spur |-> 1,call |-> <<[p |-> 0, d |-> <<>>, kind |-> "none", t0 |-> <<>>], [p |-> 2, d |-> <<3>>, kind |-> "wait_for_pred", t0 |-> <<>>], [p |-> 0, d |-> <<>>, kind |-> "none", t0 |-> <<>>]>>,pc |-> <<"run", "reacq", "run">>,cw |-> {},sh |-> 0,now |-> 0,ended |-> {},ec |-> <<0, 0, 0>>]),
    ([res |-> <<0, 0, 0>>,mo |-> 1,flag |-> <<0, 0>>,bad |-> FALSE,fl |-> <<0, 0>>,own |-> -1,ip |-> <<2, 2, 1>>,dl |-> <<-1, -1, -1>>,cnt |-> 0,lv |-> <<0, 0, 0>>,hr |-> <<>>,sys |-> <<>>,inside |-> -1,prog |-> <<<<<<"lock">>, <<"waitp", 1>>, <<"in">>, <<"unlock">>, <<"lock">>, <<"set", 2>>, <<"unlock">>, <<"ntall">>>>, <<<<"lock">>, <<"waitfp", 2, 3>>, <<"unlock">>>>, <<<<"sleep", 2>>, <<"lock">>, <<"set", 1>>, <<"unlock">>, <<"nt1">>>>>>,spur |-> 1,call |-> <<[p |-> 1, d |-> <<>>, kind |-> "wait_pred", t0 |-> <<>>], [p |-> 2, d |-> <<3>>, kind |-> "wait_for_pred", t0 |-> <<>>], [p |-> 0, d |-> <<>>, kind |-> "none", t0 |-> <<>>]>>,pc |-> <<"loop", "reacq", "run">>,cw |-> {},sh |-> 0,now |-> 0,ended |-> {},ec |-> <<0, 0, 0>>]),
    ([res |-> <<0, 0, 0>>,mo |-> -1,flag |-> <<0, 0>>,bad |-> FALSE,fl |-> <<0, 0>>,own |-> -1,ip |-> <<2, 2, 1>>,dl |-> <<-1, -1, -1>>,cnt |-> 0,lv |-> <<0, 0, 0>>,hr |-> <<>>,sys |-> <<>>,inside |-> -1,prog |-> <<<<<<"lock">>, <<"waitp", 1>>, <<"in">>, <<"unlock">>, <<"lock">>, <<"set", 2>>, <<"unlock">>, <<"ntall">>>>, <<<<"lock">>, <<"waitfp", 2, 3>>, <<"unlock">>>>, <<<<"sleep", 2>>, <<"lock">>, <<"set", 1>>, <<"unlock">>, <<"nt1">>>>>>,spur |-> 1,call |-> <<[p |-> 1, d |-> <<>>, kind |-> "wait_pred", t0 |-> <<>>], [p |-> 2, d |-> <<3>>, kind |-> "wait_for_pred", t0 |-> <<>>], [p |-> 0, d |-> <<>>, kind |-> "none", t0 |-> <<>>]>>,pc |-> <<"blocked", "reacq", "run">>,cw |-> {1},sh |-> 0,now |-> 0,ended |-> {},ec |-> <<0, 0, 0>>]),
    ([res |-> <<0, 0, 0>>,mo |-> 2,flag |-> <<0, 0>>,bad |-> FALSE,fl |-> <<0, 0>>,own |-> -1,ip |-> <<2, 2, 1>>,dl |-> <<-1, -1, -1>>,cnt |-> 0,lv |-> <<0, 0, 0>>,hr |-> <<>>,sys |-> <<>>,inside |-> -1,prog |-> <<<<<<"lock">>, <<"waitp", 1>>, <<"in">>, <<"unlock">>, <<"lock">>, <<"set", 2>>, <<"unlock">>, <<"ntall">>>>, <<<<"lock">>, <<"waitfp", 2, 3>>, <<"unlock">>>>, <<<<"sleep", 2>>, <<"lock">>, <<"set", 1>>, <<"unlock">>, <<"nt1">>>>>>,spur |-> 1,call |-> <<[p |-> 1, d |-> <<>>, kind |-> "wait_pred", t0 |-> <<>>], [p |-> 2, d |-> <<3>>, kind |-> "wait_for_pred", t0 |-> <<>>], [p |-> 0, d |-> <<>>, kind |-> "none", t0 |-> <<>>]>>,pc |-> <<"blocked", "loop", "run">>,cw |-> {1},sh |-> 0,now |-> 0,ended |-> {},ec |-> <<0, 0, 0>>]),
    ([res |-> <<0, 0, 0>>,mo |-> -1,flag |-> <<0, 0>>,bad |-> FALSE,fl |-> <<0, 0>>,own |-> -1,ip |-> <<2, 2, 1>>,dl |-> <<-1, 3, -1>>,cnt |-> 0,lv |-> <<0, 0, 0>>,hr |-> <<>>,sys |-> <<>>,inside |-> -1,prog |-> <<<<<<"lock">>, <<"waitp", 1>>, <<"in">>, <<"unlock">>, <<"lock">>, <<"set", 2>>, <<"unlock">>, <<"ntall">>>>, <<<<"lock">>, <<"waitfp", 2, 3>>, <<"unlock">>>>, <<<<"sleep", 2>>, <<"lock">>, <<"set", 1>>, <<"unlock">>, <<"nt1">>>>>>,spur |-> 1,call |-> <<[p |-> 1, d |-> <<>>, kind |-> "wait_pred", t0 |-> <<>>], [p |-> 2, d |-> <<3>>, kind |-> "wait_for_pred", t0 |-> <<>>], [p |-> 0, d |-> <<>>, kind |-> "none", t0 |-> <<>>]>>,pc |-> <<"blocked", "blocked", "run">>,cw |-> {1, 2},sh |-> 0,now |-> 0,ended |-> {},ec |-> <<0, 0, 0>>]),
    ([res |-> <<0, 0, 0>>,mo |-> -1,flag |-> <<0, 0>>,bad |-> FALSE,fl |-> <<0, 0>>,own |-> -1,ip |-> <<2, 2, 1>>,dl |-> <<-1, 3, -1>>,cnt |-> 0,lv |-> <<0, 0, 0>>,hr |-> <<>>,sys |-> <<>>,inside |-> -1,prog |-> <<<<<<"lock">>, <<"waitp", 1>>, <<"in">>, <<"unlock">>, <<"lock">>, <<"set", 2>>, <<"unlock">>, <<"ntall">>>>, <<<<"lock">>, <<"waitfp", 2, 3>>, <<"unlock">>>>, <<<<"sleep", 2>>, <<"lock">>, <<"set", 1>>, <<"unlock">>, <<"nt1">>>>>>,spur |-> 0,call |-> <<[p |-> 1, d |-> <<>>, kind |-> "wait_pred", t0 |-> <<>>], [p |-> 2, d |-> <<3>>, kind |-> "wait_for_pred", t0 |-> <<>>], [p |-> 0, d |-> <<>>, kind |-> "none", t0 |-> <<>>]>>,pc |-> <<"reacq", "blocked", "run">>,cw |-> {2},sh |-> 0,now |-> 0,ended |-> {},ec |-> <<0, 0, 0>>]),
    ([res |-> <<0, 0, 0>>,mo |-> -1,flag |-> <<0, 0>>,bad |-> FALSE,fl |-> <<0, 0>>,own |-> -1,ip |-> <<2, 2, 1>>,dl |-> <<-1, 3, 2>>,cnt |-> 0,lv |-> <<0, 0, 0>>,hr |-> <<>>,sys |-> <<>>,inside |-> -1,prog |-> <<<<<<"lock">>, <<"waitp", 1>>, <<"in">>, <<"unlock">>, <<"lock">>, <<"set", 2>>, <<"unlock">>, <<"ntall">>>>, <<<<"lock">>, <<"waitfp", 2, 3>>, <<"unlock">>>>, <<<<"sleep", 2>>, <<"lock">>, <<"set", 1>>, <<"unlock">>, <<"nt1">>>>>>,spur |-> 0,call |-> <<[p |-> 1, d |-> <<>>, kind |-> "wait_pred", t0 |-> <<>>], [p |-> 2, d |-> <<3>>, kind |-> "wait_for_pred", t0 |-> <<>>], [p |-> 0, d |-> <<2>>, kind |-> "sleep", t0 |-> <<>>]>>,pc |-> <<"reacq", "blocked", "sleeping">>,cw |-> {2},sh |-> 0,now |-> 0,ended |-> {},ec |-> <<0, 0, 0>>]),
    ([res |-> <<0, 0, 0>>,mo |-> -1,flag |-> <<0, 0>>,bad |-> FALSE,fl |-> <<0, 0>>,own |-> -1,ip |-> <<2, 2, 1>>,dl |-> <<-1, 3, -1>>,cnt |-> 0,lv |-> <<0, 0, 0>>,hr |-> <<>>,sys |-> <<>>,inside |-> -1,prog |-> <<<<<<"lock">>, <<"waitp", 1>>, <<"in">>, <<"unlock">>, <<"lock">>, <<"set", 2>>, <<"unlock">>, <<"ntall">>>>, <<<<"lock">>, <<"waitfp", 2, 3>>, <<"unlock">>>>, <<<<"sleep", 2>>, <<"lock">>, <<"set", 1>>, <<"unlock">>, <<"nt1">>>>>>,spur |-> 0,call |-> <<[p |-> 1, d |-> <<>>, kind |-> "wait_pred", t0 |-> <<>>], [p |-> 2, d |-> <<3>>, kind |-> "wait_for_pred", t0 |-> <<>>], [p |-> 0, d |-> <<2>>, kind |-> "sleep", t0 |-> <<>>]>>,pc |-> <<"reacq", "blocked", "slept">>,cw |-> {2},sh |-> 0,now |-> 2,ended |-> {},ec |-> <<0, 0, 0>>]),
    ([res |-> <<0, 0, 0>>,mo |-> 1,flag |-> <<0, 0>>,bad |-> FALSE,fl |-> <<0, 0>>,own |-> -1,ip |-> <<2, 2, 1>>,dl |-> <<-1, 3, -1>>,cnt |-> 0,lv |-> <<0, 0, 0>>,hr |-> <<>>,sys |-> <<>>,inside |-> -1,prog |-> <<<<<<"lock">>, <<"waitp", 1>>, <<"in">>, <<"unlock">>, <<"lock">>, <<"set", 2>>, <<"unlock">>, <<"ntall">>>>, <<<<"lock">>, <<"waitfp", 2, 3>>, <<"unlock">>>>, <<<<"sleep", 2>>, <<"lock">>, <<"set", 1>>, <<"unlock">>, <<"nt1">>>>>>,spur |-> 0,call |-> <<[p |-> 1, d |-> <<>>, kind |-> "wait_pred", t0 |-> <<>>], [p |-> 2, d |-> <<3>>, kind |-> "wait_for_pred", t0 |-> <<>>], [p |-> 0, d |-> <<2>>, kind |-> "sleep", t0 |-> <<>>]>>,pc |-> <<"loop", "blocked", "slept">>,cw |-> {2},sh |-> 0,now |-> 2,ended |-> {},ec |-> <<0, 0, 0>>]),
    ([res |-> <<0, 0, 0>>,mo |-> -1,flag |-> <<0, 0>>,bad |-> FALSE,fl |-> <<0, 0>>,own |-> -1,ip |-> <<2, 2, 1>>,dl |-> <<-1, 3, -1>>,cnt |-> 0,lv |-> <<0, 0, 0>>,hr |-> <<>>,sys |-> <<>>,inside |-> -1,prog |-> <<<<<<"lock">>, <<"waitp", 1>>, <<"in">>, <<"unlock">>, <<"lock">>, <<"set", 2>>, <<"unlock">>, <<"ntall">>>>, <<<<"lock">>, <<"waitfp", 2, 3>>, <<"unlock">>>>, <<<<"sleep", 2>>, <<"lock">>, <<"set", 1>>, <<"unlock">>, <<"nt1">>>>>>,spur |-> 0,call |-> <<[p |-> 1, d |-> <<>>, kind |-> "wait_pred", t0 |-> <<>>], [p |-> 2, d |-> <<3>>, kind |-> "wait_for_pred", t0 |-> <<>>], [p |-> 0, d |-> <<2>>, kind |-> "sleep", t0 |-> <<>>]>>,pc |-> <<"blocked", "blocked", "slept">>,cw |-> {1, 2},sh |-> 0,now |-> 2,ended |-> {},ec |-> <<0, 0, 0>>]),
    ([res |-> <<0, 0, 0>>,mo |-> -1,flag |-> <<0, 0>>,bad |-> FALSE,fl |-> <<0, 0>>,own |-> -1,ip |-> <<2, 2, 2>>,dl |-> <<-1, 3, -1>>,cnt |-> 0,lv |-> <<0, 0, 0>>,hr |-> <<2>>,sys |-> <<>>,inside |-> -1,prog |-> <<<<<<"lock">>, <<"waitp", 1>>, <<"in">>, <<"unlock">>, <<"lock">>, <<"set", 2>>, <<"unlock">>, <<"ntall">>>>, <<<<"lock">>, <<"waitfp", 2, 3>>, <<"unlock">>>>, <<<<"sleep", 2>>, <<"lock">>, <<"set", 1>>, <<"unlock">>, <<"nt1">>>>>>,spur |-> 0,call |-> <<[p |-> 1, d |-> <<>>, kind |-> "wait_pred", t0 |-> <<>>], [p |-> 2, d |-> <<3>>, kind |-> "wait_for_pred", t0 |-> <<>>], [p |-> 0, d |-> <<>>, kind |-> "none", t0 |-> <<>>]>>,pc |-> <<"blocked", "blocked", "run">>,cw |-> {1, 2},sh |-> 0,now |-> 2,ended |-> {},ec |-> <<0, 0, 0>>]),
    ([res |-> <<0, 0, 0>>,mo |-> 3,flag |-> <<0, 0>>,bad |-> FALSE,fl |-> <<0, 0>>,own |-> 3,ip |-> <<2, 2, 3>>,dl |-> <<-1, 3, -1>>,cnt |-> 0,lv |-> <<0, 0, 0>>,hr |-> <<2>>,sys |-> <<>>,inside |-> -1,prog |-> <<<<<<"lock">>, <<"waitp", 1>>, <<"in">>, <<"unlock">>, <<"lock">>, <<"set", 2>>, <<"unlock">>, <<"ntall">>>>, <<<<"lock">>, <<"waitfp", 2, 3>>, <<"unlock">>>>, <<<<"sleep", 2>>, <<"lock">>, <<"set", 1>>, <<"unlock">>, <<"nt1">>>>>>,spur |-> 0,call |-> <<[p |-> 1, d |-> <<>>, kind |-> "wait_pred", t0 |-> <<>>], [p |-> 2, d |-> <<3>>, kind |-> "wait_for_pred", t0 |-> <<>>], [p |-> 0, d |-> <<>>, kind |-> "none", t0 |-> <<>>]>>,pc |-> <<"blocked", "blocked", "run">>,cw |-> {1, 2},sh |-> 0,now |-> 2,ended |-> {},ec |-> <<0, 0, 0>>]),
    ([res |-> <<0, 0, 0>>,mo |-> 3,flag |-> <<1, 0>>,bad |-> FALSE,fl |-> <<1, 0>>,own |-> 3,ip |-> <<2, 2, 4>>,dl |-> <<-1, 3, -1>>,cnt |-> 0,lv |-> <<0, 0, 0>>,hr |-> <<2>>,sys |-> <<>>,inside |-> -1,prog |-> <<<<<<"lock">>, <<"waitp", 1>>, <<"in">>, <<"unlock">>, <<"lock">>, <<"set", 2>>, <<"unlock">>, <<"ntall">>>>, <<<<"lock">>, <<"waitfp", 2, 3>>, <<"unlock">>>>, <<<<"sleep", 2>>, <<"lock">>, <<"set", 1>>, <<"unlock">>, <<"nt1">>>>>>,spur |-> 0,call |-> <<[p |-> 1, d |-> <<>>, kind |-> "wait_pred", t0 |-> <<>>], [p |-> 2, d |-> <<3>>, kind |-> "wait_for_pred", t0 |-> <<>>], [p |-> 0, d |-> <<>>, kind |-> "none", t0 |-> <<>>]>>,pc |-> <<"blocked", "blocked", "run">>,cw |-> {1, 2},sh |-> 0,now |-> 2,ended |-> {},ec |-> <<0, 0, 0>>]),
    ([res |-> <<0, 0, 0>>,mo |-> -1,flag |-> <<1, 0>>,bad |-> FALSE,fl |-> <<1, 0>>,own |-> -1,ip |-> <<2, 2, 5>>,dl |-> <<-1, 3, -1>>,cnt |-> 0,lv |-> <<0, 0, 0>>,hr |-> <<2>>,sys |-> <<>>,inside |-> -1,prog |-> <<<<<<"lock">>, <<"waitp", 1>>, <<"in">>, <<"unlock">>, <<"lock">>, <<"set", 2>>, <<"unlock">>, <<"ntall">>>>, <<<<"lock">>, <<"waitfp", 2, 3>>, <<"unlock">>>>, <<<<"sleep", 2>>, <<"lock">>, <<"set", 1>>, <<"unlock">>, <<"nt1">>>>>>,spur |-> 0,call |-> <<[p |-> 1, d |-> <<>>, kind |-> "wait_pred", t0 |-> <<>>], [p |-> 2, d |-> <<3>>, kind |-> "wait_for_pred", t0 |-> <<>>], [p |-> 0, d |-> <<>>, kind |-> "none", t0 |-> <<>>]>>,pc |-> <<"blocked", "blocked", "run">>,cw |-> {1, 2},sh |-> 0,now |-> 2,ended |-> {},ec |-> <<0, 0, 0>>]),
    ([res |-> <<0, 0, 0>>,mo |-> -1,flag |-> <<1, 0>>,bad |-> FALSE,fl |-> <<1, 0>>,own |-> -1,ip |-> <<2, 2, 6>>,dl |-> <<-1, -1, -1>>,cnt |-> 0,lv |-> <<0, 0, 0>>,hr |-> <<2>>,sys |-> <<>>,inside |-> -1,prog |-> <<<<<<"lock">>, <<"waitp", 1>>, <<"in">>, <<"unlock">>, <<"lock">>, <<"set", 2>>, <<"unlock">>, <<"ntall">>>>, <<<<"lock">>, <<"waitfp", 2, 3>>, <<"unlock">>>>, <<<<"sleep", 2>>, <<"lock">>, <<"set", 1>>, <<"unlock">>, <<"nt1">>>>>>,spur |-> 0,call |-> <<[p |-> 1, d |-> <<>>, kind |-> "wait_pred", t0 |-> <<>>], [p |-> 2, d |-> <<3>>, kind |-> "wait_for_pred", t0 |-> <<>>], [p |-> 0, d |-> <<>>, kind |-> "none", t0 |-> <<>>]>>,pc |-> <<"blocked", "reacq", "run">>,cw |-> {1},sh |-> 0,now |-> 2,ended |-> {},ec |-> <<0, 0, 0>>]),
    ([res |-> <<0, 0, 0>>,mo |-> 2,flag |-> <<1, 0>>,bad |-> FALSE,fl |-> <<1, 0>>,own |-> -1,ip |-> <<2, 2, 6>>,dl |-> <<-1, -1, -1>>,cnt |-> 0,lv |-> <<0, 0, 0>>,hr |-> <<2>>,sys |-> <<>>,inside |-> -1,prog |-> <<<<<<"lock">>, <<"waitp", 1>>, <<"in">>, <<"unlock">>, <<"lock">>, <<"set", 2>>, <<"unlock">>, <<"ntall">>>>, <<<<"lock">>, <<"waitfp", 2, 3>>, <<"unlock">>>>, <<<<"sleep", 2>>, <<"lock">>, <<"set", 1>>, <<"unlock">>, <<"nt1">>>>>>,spur |-> 0,call |-> <<[p |-> 1, d |-> <<>>, kind |-> "wait_pred", t0 |-> <<>>], [p |-> 2, d |-> <<3>>, kind |-> "wait_for_pred", t0 |-> <<>>], [p |-> 0, d |-> <<>>, kind |-> "none", t0 |-> <<>>]>>,pc |-> <<"blocked", "loop", "run">>,cw |-> {1},sh |-> 0,now |-> 2,ended |-> {},ec |-> <<0, 0, 0>>]),
    ([res |-> <<0, 0, 0>>,mo |-> -1,flag |-> <<1, 0>>,bad |-> FALSE,fl |-> <<1, 0>>,own |-> -1,ip |-> <<2, 2, 6>>,dl |-> <<-1, 5, -1>>,cnt |-> 0,lv |-> <<0, 0, 0>>,hr |-> <<2>>,sys |-> <<>>,inside |-> -1,prog |-> <<<<<<"lock">>, <<"waitp", 1>>, <<"in">>, <<"unlock">>, <<"lock">>, <<"set", 2>>, <<"unlock">>, <<"ntall">>>>, <<<<"lock">>, <<"waitfp", 2, 3>>, <<"unlock">>>>, <<<<"sleep", 2>>, <<"lock">>, <<"set", 1>>, <<"unlock">>, <<"nt1">>>>>>,spur |-> 0,call |-> <<[p |-> 1, d |-> <<>>, kind |-> "wait_pred", t0 |-> <<>>], [p |-> 2, d |-> <<3>>, kind |-> "wait_for_pred", t0 |-> <<>>], [p |-> 0, d |-> <<>>, kind |-> "none", t0 |-> <<>>]>>,pc |-> <<"blocked", "blocked", "run">>,cw |-> {1, 2},sh |-> 0,now |-> 2,ended |-> {},ec |-> <<0, 0, 0>>]),
    ([res |-> <<0, 110, 0>>,mo |-> -1,flag |-> <<1, 0>>,bad |-> FALSE,fl |-> <<1, 0>>,own |-> -1,ip |-> <<2, 2, 6>>,dl |-> <<-1, -1, -1>>,cnt |-> 0,lv |-> <<0, 0, 0>>,hr |-> <<2>>,sys |-> <<>>,inside |-> -1,prog |-> <<<<<<"lock">>, <<"waitp", 1>>, <<"in">>, <<"unlock">>, <<"lock">>, <<"set", 2>>, <<"unlock">>, <<"ntall">>>>, <<<<"lock">>, <<"waitfp", 2, 3>>, <<"unlock">>>>, <<<<"sleep", 2>>, <<"lock">>, <<"set", 1>>, <<"unlock">>, <<"nt1">>>>>>,spur |-> 0,call |-> <<[p |-> 1, d |-> <<>>, kind |-> "wait_pred", t0 |-> <<>>], [p |-> 2, d |-> <<3>>, kind |-> "wait_for_pred", t0 |-> <<>>], [p |-> 0, d |-> <<>>, kind |-> "none", t0 |-> <<>>]>>,pc |-> <<"blocked", "reacq", "run">>,cw |-> {1},sh |-> 0,now |-> 5,ended |-> {},ec |-> <<0, 0, 0>>]),
    ([res |-> <<0, 110, 0>>,mo |-> 2,flag |-> <<1, 0>>,bad |-> FALSE,fl |-> <<1, 0>>,own |-> -1,ip |-> <<2, 2, 6>>,dl |-> <<-1, -1, -1>>,cnt |-> 0,lv |-> <<0, 0, 0>>,hr |-> <<2>>,sys |-> <<>>,inside |-> -1,prog |-> <<<<<<"lock">>, <<"waitp", 1>>, <<"in">>, <<"unlock">>, <<"lock">>, <<"set", 2>>, <<"unlock">>, <<"ntall">>>>, <<<<"lock">>, <<"waitfp", 2, 3>>, <<"unlock">>>>, <<<<"sleep", 2>>, <<"lock">>, <<"set", 1>>, <<"unlock">>, <<"nt1">>>>>>,spur |-> 0,call |-> <<[p |-> 1, d |-> <<>>, kind |-> "wait_pred", t0 |-> <<>>], [p |-> 2, d |-> <<3>>, kind |-> "wait_for_pred", t0 |-> <<>>], [p |-> 0, d |-> <<>>, kind |-> "none", t0 |-> <<>>]>>,pc |-> <<"blocked", "loop", "run">>,cw |-> {1},sh |-> 0,now |-> 5,ended |-> {},ec |-> <<0, 110, 0>>]),
    ([res |-> <<0, 110, 0>>,mo |-> 2,flag |-> <<1, 0>>,bad |-> FALSE,fl |-> <<1, 0>>,own |-> 2,ip |-> <<2, 3, 6>>,dl |-> <<-1, -1, -1>>,cnt |-> 0,lv |-> <<0, 0, 0>>,hr |-> <<5>>,sys |-> <<>>,inside |-> -1,prog |-> <<<<<<"lock">>, <<"waitp", 1>>, <<"in">>, <<"unlock">>, <<"lock">>, <<"set", 2>>, <<"unlock">>, <<"ntall">>>>, <<<<"lock">>, <<"waitfp", 2, 3>>, <<"unlock">>>>, <<<<"sleep", 2>>, <<"lock">>, <<"set", 1>>, <<"unlock">>, <<"nt1">>>>>>,spur |-> 0,call |-> <<[p |-> 1, d |-> <<>>, kind |-> "wait_pred", t0 |-> <<>>], [p |-> 0, d |-> <<>>, kind |-> "none", t0 |-> <<>>], [p |-> 0, d |-> <<>>, kind |-> "none", t0 |-> <<>>]>>,pc |-> <<"blocked", "run", "run">>,cw |-> {1},sh |-> 0,now |-> 5,ended |-> {},ec |-> <<0, 110, 0>>]),
    ([res |-> <<0, 110, 0>>,mo |-> -1,flag |-> <<1, 0>>,bad |-> FALSE,fl |-> <<1, 0>>,own |-> -1,ip |-> <<2, 4, 6>>,dl |-> <<-1, -1, -1>>,cnt |-> 0,lv |-> <<0, 0, 0>>,hr |-> <<5>>,sys |-> <<>>,inside |-> -1,prog |-> <<<<<<"lock">>, <<"waitp", 1>>, <<"in">>, <<"unlock">>, <<"lock">>, <<"set", 2>>, <<"unlock">>, <<"ntall">>>>, <<<<"lock">>, <<"waitfp", 2, 3>>, <<"unlock">>>>, <<<<"sleep", 2>>, <<"lock">>, <<"set", 1>>, <<"unlock">>, <<"nt1">>>>>>,spur |-> 0,call |-> <<[p |-> 1, d |-> <<>>, kind |-> "wait_pred", t0 |-> <<>>], [p |-> 0, d |-> <<>>, kind |-> "none", t0 |-> <<>>], [p |-> 0, d |-> <<>>, kind |-> "none", t0 |-> <<>>]>>,pc |-> <<"blocked", "run", "run">>,cw |-> {1},sh |-> 0,now |-> 5,ended |-> {},ec |-> <<0, 110, 0>>])
    >>
----


=============================================================================

---- CONFIG SyncMC_TTrace_1790502436 ----
CONSTANTS
    WBase = 32768
    Thr = { 1 , 2 , 3 }
    Flags = { 1 , 2 }
    Spur = 2
    Bug = "none"
    ProgSet <- ProgsAll

INVARIANT
    _inv

CHECK_DEADLOCK
    \* CHECK_DEADLOCK off because of PROPERTY or INVARIANT above.
    FALSE

INIT
    _init

NEXT
    _next

CONSTANT
    _TETrace <- _trace

ALIAS
    _expression
=============================================================================
\* Generated on Sun Sep 27 09:47:19 UTC 2026