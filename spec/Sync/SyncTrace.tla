----------------------------- MODULE SyncTrace -----------------------------
(* Trace validation for X06: one recorded event of harness/sync_scenario.c per step, checked against Sync.tla.   *)
(* 64-bit tick values arrive as JSON arrays of base-2^15 limbs, i.e. directly as Wide numbers.                    *)
EXTENDS Sync, TraceCommon
VARIABLES l
Ev == TraceLog[l]

TReset == /\ Ev.e = "Reset"
          /\ own' = Free /\ call' = [k \in Thr |-> Idle] /\ flag' = [p \in Flags |-> 0]
          /\ inside' = Free /\ cnt' = 0 /\ hr' = WZero /\ sys' = WZero /\ ended' = {}
TSetup == Ev.e = "Setup" /\ SetupOk(Ev.rcm, Ev.rcc)
TLaunch == Ev.e = "Launch" /\ Ev.rc = 0 /\ UNCHANGED avars
TThreadBegin == Ev.e = "ThreadBegin" /\ ThreadBegin(Ev.k)
TThreadEnd == Ev.e = "ThreadEnd" /\ ThreadEnd(Ev.k)
TJoinRet == Ev.e = "JoinRet" /\ JoinRet(Ev.k, Ev.thr, Ev.rc)
TLockRet == Ev.e = "LockRet" /\ LockRet(Ev.k, Ev.rc)
TTryRet == Ev.e = "TryRet" /\ TryRet(Ev.k, Ev.rc, Ev.err)
TUnlock == Ev.e = "Unlock" /\ Unlock(Ev.k, Ev.rc)
TEnter == Ev.e = "Enter" /\ Enter(Ev.k, Ev.v)
TLeave == Ev.e = "Leave" /\ Leave(Ev.k, Ev.v)
TSetFlag == Ev.e = "SetFlag" /\ SetFlag(Ev.k, Ev.p, Ev.v)
TNotify == Ev.e = "Notify" /\ Notify(Ev.k, Ev.rc)
TWaitBegin == Ev.e = "WaitBegin" /\ WaitBegin(Ev.k, Ev.kind, Ev.p, Ev.d, Ev.t)
TWaitRet == Ev.e = "WaitRet" /\ WaitRet(Ev.k, Ev.rc, Ev.err, Ev.fl, Ev.t)
TSleepBegin == Ev.e = "SleepBegin" /\ SleepBegin(Ev.k, Ev.d, Ev.t)
TSleepRet == Ev.e = "SleepRet" /\ SleepRet(Ev.k, Ev.t)
TClock == Ev.e = "Clock" /\ Clock(Ev.k, Ev.rch, Ev.rcs, Ev.hr, Ev.sys)
TCleanUp == Ev.e = "CleanUp" /\ CleanUp
TEnd == Ev.e = "End" /\ EndOk(Ev.live, Ev.unjoined, Ev.anomalies)

TNext == l <= TraceLen /\ l' = l + 1 /\
         (TReset \/ TSetup \/ TLaunch \/ TThreadBegin \/ TThreadEnd \/ TJoinRet \/ TLockRet \/ TTryRet \/ TUnlock
            \/ TEnter \/ TLeave \/ TSetFlag \/ TNotify \/ TWaitBegin \/ TWaitRet \/ TSleepBegin \/ TSleepRet
            \/ TClock \/ TCleanUp \/ TEnd)
TSpec == (l = 1 /\ AInit) /\ [][TNext]_<<avars, l>>
=============================================================================
