---------------------------- MODULE LinkedHashMC ----------------------------
(* Bounded exploration of LinkedHash (all operation sequences over NC classes x NP key objects,   *)
(* with and without destructors) and behaviour generation for replay.                             *)
EXTENDS LinkedHash, TLC, Json

CONSTANTS MaxVal, GenDepth
VARIABLES nextVal, hist
mcvars == <<order, kd, nvd, vdead, dk, dv, nextVal, hist>>

Op(name, c, p, v) == [op |-> name, c |-> c, p |-> p, v |-> v]
Rec(o) == hist' = IF GenDepth > 0 THEN Append(hist, o) ELSE hist
G == GenDepth > 0 => Len(hist) < GenDepth
B(x) == IF x THEN 1 ELSE 0

\* the first history entry carries the configuration (c = key destructor, p = value destructor)
MCInit == /\ \E k \in BOOLEAN, v \in BOOLEAN :
                /\ LHInit(k, v)
                /\ hist = IF GenDepth > 0 THEN <<Op("RESET", B(k), B(v), 0)>> ELSE <<>>
          /\ nextVal = 1

\* the destructor observations are determined by the pre-state: enumerate the one consistent choice
SeqOf(S) == CHOOSE s \in [1..Cardinality(S) -> S] : Range(s) = S
DK(K) == SeqOf(IF dk THEN K ELSE {})
DV(V) == SeqOf(IF dv THEN V ELSE {})
All == Range(order)

MCPut == /\ G /\ nextVal <= MaxVal
         /\ \E c \in Classes, p \in Ptrs :
               LET i == IdxOf(c) IN
               /\ Put(c, p, nextVal, TRUE,
                      DK(IF i # 0 /\ order[i].p # p THEN {KeyOf(order[i])} ELSE {}),
                      DV(IF i # 0 THEN {order[i].v} ELSE {}))
               /\ Rec(Op("PUT", c, p, nextVal))
         /\ nextVal' = nextVal + 1
\* no value destructor: the same value object again (also under the key object already stored), or NULL
MCPutAgain == /\ G /\ ~dv /\ nextVal <= MaxVal /\ nextVal' = nextVal + 1     \* (counts against the same budget of puts)
              /\ \E c \in Classes, p \in Ptrs, v \in {0} \cup {e.v : e \in All} :
                    LET i == IdxOf(c) IN
                    /\ Put(c, p, v, TRUE, DK(IF i # 0 /\ order[i].p # p THEN {KeyOf(order[i])} ELSE {}), <<>>)
                    /\ Rec(Op("PUT", c, p, v))
MCFind == G /\ UNCHANGED nextVal /\ \E c \in Classes, p \in Ptrs, v \in 0..MaxVal :
              Find(c, TRUE, v) /\ Rec(Op("FIND", c, p, 0))
MCFindMove == G /\ UNCHANGED nextVal /\ \E c \in Classes, p \in Ptrs, v \in 0..MaxVal :
              FindAndMoveToBack(c, TRUE, v, <<>>, <<>>) /\ Rec(Op("FINDMV", c, p, 0))
MCRemove == G /\ UNCHANGED nextVal /\ \E c \in Classes, p \in Ptrs :
              LET i == IdxOf(c) IN
              /\ Remove(c, TRUE, DK(IF i # 0 THEN {KeyOf(order[i])} ELSE {}), DV(IF i # 0 THEN {order[i].v} ELSE {}))
              /\ Rec(Op("REMOVE", c, p, 0))
MCClear == G /\ UNCHANGED nextVal /\ Clear(DK({KeyOf(e) : e \in All}), DV({e.v : e \in All})) /\ Rec(Op("CLEAR", 0, 0, 0))
MCMoveToEnd == G /\ UNCHANGED nextVal /\ \E c \in Classes : MoveToEnd(c, <<>>, <<>>) /\ Rec(Op("TOEND", c, 0, 0))

MCNext == MCPut \/ MCPutAgain \/ MCFind \/ MCFindMove \/ MCRemove \/ MCClear \/ MCMoveToEnd
MCSpec == MCInit /\ [][MCNext]_mcvars

(* property clauses as checks on the model *)
(* a put leaves its entry at the back, and is the only way the set of classes grows *)
PutAtBack == [][MCPut => (Len(order') > 0 /\ order'[Len(order')].v = nextVal)]_mcvars
(* also when key and value objects are the ones already stored: last afterwards, nothing else moved *)
PutAgainAtBack == [][MCPutAgain => (Len(order') > 0 /\ \A c \in Classes :
                        (Has(c) /\ order'[Len(order')].c # c) =>
                            \E j \in 1..Len(order') : order'[j] = order[IdxOf(c)])]_mcvars
(* every value that ever left the table has been destroyed exactly once (when a destructor is installed) *)
DisplacedDestroyed == dv => vdead = (1..(nextVal - 1)) \ {e.v : e \in All}
(* a key object's destructor count never exceeds the number of times it was displaced: it is in the table or not *)
Emit == (GenDepth > 0 /\ Len(hist) = GenDepth) => PrintT(<<"SCRIPT", ToJson([ops |-> hist])>>)
=============================================================================
