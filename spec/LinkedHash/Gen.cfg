SPECIFICATION MCSpec
CONSTANTS NC = 4
  NP = 2
  MaxVal = 60
  GenDepth = 40
INVARIANT Emit
