SPECIFICATION TSpec
CONSTANTS NC = 6
  NP = 2
POSTCONDITION TraceAccepted
CHECK_DEADLOCK FALSE
