SPECIFICATION MCSpec
CONSTANTS NC = 3
  NP = 2
  MaxVal = 6
  GenDepth = 0
INVARIANTS OneEntryPerClass LiveNotDead Counted DisplacedDestroyed
PROPERTIES PutAtBack PutAgainAtBack
