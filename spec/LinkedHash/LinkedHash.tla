------------------------------ MODULE LinkedHash ------------------------------
(* aws_linked_hash_table as property C18 states it: an ordered map.  Iteration order is insertion *)
(* order; putting a key that is already present (equal by the user's comparison) replaces the     *)
(* value and moves the entry to the back; find / remove / clear agree with the ordered map; the   *)
(* key and value destructors run exactly once per displaced entry.                                *)
(*                                                                                                 *)
(* Keys are objects <<class, ptr>>: two key objects of one class compare equal although they are  *)
(* distinct pointers.  When an entry is replaced by a put with the *same* key object, that object *)
(* stays in the table and is not destroyed (it is not displaced); with a different object of the  *)
(* class the old key object is destroyed.  Values are objects (natural numbers, 0 = NULL): fresh *)
(* per put when a value destructor is installed, arbitrary (repeated, NULL) when none is.         *)
(* Destructors are optional (dk, dv).  Every action relates pre-state, arguments, the reported    *)
(* result and the destructor calls observed *during that call* (dks: key objects, dvs: values, as *)
(* sequences in call order - the order is left open, multiplicity is not) to the post-state.      *)
EXTENDS Naturals, Sequences, FiniteSets

CONSTANTS NC, NP                 \* classes 1..NC, key objects 1..NP per class

VARIABLES order,                 \* Seq([c, p, v])   iteration order, front = oldest
          kd,                    \* [1..NC*NP -> Nat] destructor calls per key object so far
          nvd,                   \* number of value destructor calls so far
          vdead,                 \* values destroyed so far (a value object is destroyed at most once)
          dk, dv                 \* destructors installed?
lhvars == <<order, kd, nvd, vdead, dk, dv>>

Classes == 1..NC
Ptrs == 1..NP
KIdx(c, p) == (c - 1) * NP + p
Range(s) == {s[i] : i \in 1..Len(s)}
IdxOf(c) == IF \E i \in 1..Len(order) : order[i].c = c THEN CHOOSE i \in 1..Len(order) : order[i].c = c ELSE 0
Has(c) == IdxOf(c) # 0
WithoutIdx(s, i) == SubSeq(s, 1, i - 1) \o SubSeq(s, i + 1, Len(s))
KeyOf(e) == <<e.c, e.p>>

(* seq lists exactly the members of S, each once *)
ExactlyOnce(seq, S) == Len(seq) = Cardinality(S) /\ Range(seq) = S

(* the destructor calls a step must show when the key objects K and the values V are displaced *)
(* NULL (0) is a value like any other for the container: an entry whose value is NULL is displaced like the rest, and the  *)
(* value destructor is called for it too, with NULL.  V = the displaced non-NULL value objects (each destroyed exactly     *)
(* once, ever); the number of displaced NULL values follows from the entries before and after (az = 1 when the step itself   *)
(* stores a NULL value).                                                                                                  *)
ZeroCount(s) == Cardinality({i \in 1..Len(s) : s[i].v = 0})
Destroys5(dks, dvs, K, V0, az) ==
    LET V == V0 \ {0}
        zc == ZeroCount(order) + az - ZeroCount(order')
    IN
    /\ ExactlyOnce(dks, IF dk THEN K ELSE {})
    /\ IF dv THEN ExactlyOnce(SelectSeq(dvs, LAMBDA x : x # 0), V) /\ Len(dvs) = Cardinality(V) + zc ELSE dvs = <<>>
    /\ (dv => V \cap vdead = {})
    /\ kd' = [i \in DOMAIN kd |-> kd[i] + (IF dk /\ \E k \in K : KIdx(k[1], k[2]) = i THEN 1 ELSE 0)]
    /\ nvd' = nvd + (IF dv THEN Cardinality(V) + zc ELSE 0)
    /\ vdead' = IF dv THEN vdead \cup V ELSE vdead
Destroys(dks, dvs, K, V0) == Destroys5(dks, dvs, K, V0, 0)

LHInit(k, v) == /\ order = <<>> /\ kd = [i \in 1..(NC * NP) |-> 0] /\ nvd = 0 /\ vdead = {}
                /\ dk = k /\ dv = v

Put(c, p, v, ok, dks, dvs) ==
    /\ ok                                                       \* allocation cannot fail
    \* environment: with a value destructor installed, a fresh non-NULL value object per put; without one any pointer
    \* may be stored, including NULL (v = 0) and the very object that is already there
    /\ dv => (v = 0 \/ (v \notin vdead /\ \A i \in 1..Len(order) : order[i].v # v))
    /\ LET i == IdxOf(c)
           new == [c |-> c, p |-> p, v |-> v]
       IN IF i = 0
          THEN /\ order' = Append(order, new)
               /\ Destroys5(dks, dvs, {}, {}, IF v = 0 THEN 1 ELSE 0)
          ELSE /\ order' = Append(WithoutIdx(order, i), new)   \* replaced and moved to the back
               /\ Destroys5(dks, dvs, IF order[i].p # p THEN {KeyOf(order[i])} ELSE {}, {order[i].v}, IF v = 0 THEN 1 ELSE 0)
    /\ UNCHANGED <<dk, dv>>

(* find: v = 0 stands for "*p_value == NULL" *)
Find(c, ok, v) ==
    /\ ok
    /\ v = IF Has(c) THEN order[IdxOf(c)].v ELSE 0
    /\ UNCHANGED lhvars

FindAndMoveToBack(c, ok, v, dks, dvs) ==
    /\ ok
    /\ v = IF Has(c) THEN order[IdxOf(c)].v ELSE 0
    /\ order' = IF Has(c) THEN Append(WithoutIdx(order, IdxOf(c)), order[IdxOf(c)]) ELSE order
    /\ Destroys(dks, dvs, {}, {})
    /\ UNCHANGED <<dk, dv>>

(* remove: the *stored* key object and the stored value are displaced; removing an absent key    *)
(* changes nothing (its result code is not documented)                                           *)
Remove(c, ok, dks, dvs) ==
    /\ Has(c) => ok
    /\ IF Has(c)
       THEN /\ order' = WithoutIdx(order, IdxOf(c))
            /\ Destroys(dks, dvs, {KeyOf(order[IdxOf(c)])}, {order[IdxOf(c)].v})
       ELSE /\ order' = order /\ Destroys(dks, dvs, {}, {})
    /\ UNCHANGED <<dk, dv>>

(* clear and clean_up displace every entry *)
Clear(dks, dvs) ==
    /\ order' = <<>>
    /\ Destroys(dks, dvs, {KeyOf(e) : e \in Range(order)}, {e.v : e \in Range(order)})
    /\ UNCHANGED <<dk, dv>>

(* move_node_to_end_of_list on the node of class c (the node pointer comes from the iteration list) *)
MoveToEnd(c, dks, dvs) ==
    /\ Has(c)
    /\ order' = Append(WithoutIdx(order, IdxOf(c)), order[IdxOf(c)])
    /\ Destroys(dks, dvs, {}, {})
    /\ UNCHANGED <<dk, dv>>

-----------------------------------------------------------------------------
OneEntryPerClass == \A i, j \in 1..Len(order) : order[i].c = order[j].c => i = j
LiveNotDead == \A i \in 1..Len(order) : dv => order[i].v \notin vdead
Counted == nvd = Cardinality(vdead)
=============================================================================
