--------------------------- MODULE LinkedHashTrace ---------------------------
(* Trace validation for the linked-hash-table half of C18: every recorded call must be the         *)
(* LinkedHash action of the same name with the logged arguments, result and the destructor calls   *)
(* counted by the adapter during that call; after every call the public iteration list (keys and  *)
(* values in order), the element count and the cumulative destructor counters must equal the       *)
(* specification's.                                                                                *)
EXTENDS LinkedHash, TraceCommon

VARIABLES l
Ev == TraceLog[l]
Ok == Ev.rc = 0

Observed(s) ==
    /\ Len(s.keys) = Len(order') /\ Len(s.vals) = Len(order')
    /\ \A i \in 1..Len(order') : s.keys[i] = <<order'[i].c, order'[i].p>> /\ s.vals[i] = order'[i].v
    /\ s.fok = 1                                          \* the iteration list is a well-formed list
    /\ s.n = Len(order')                                  \* aws_linked_hash_table_get_element_count
    /\ \A i \in DOMAIN kd' : s.kd[i] = kd'[i]             \* destructor calls per key object
    /\ s.nvd = nvd'

TReset == /\ Ev.e = "Reset" /\ Ev.kind = "lht"
          /\ order' = <<>> /\ kd' = [i \in 1..(NC * NP) |-> 0] /\ nvd' = 0 /\ vdead' = {}
          /\ dk' = (Ev.dk = 1) /\ dv' = (Ev.dv = 1)
          /\ Observed(Ev.s)
TPut == Ev.e = "Put" /\ Put(Ev.c, Ev.p, Ev.v, Ok, Ev.dks, Ev.dvs) /\ Observed(Ev.s)
TFind == Ev.e = "Find" /\ Find(Ev.c, Ok, Ev.v) /\ Ev.dks = <<>> /\ Ev.dvs = <<>> /\ Observed(Ev.s)
TFindMove == Ev.e = "FindMove" /\ FindAndMoveToBack(Ev.c, Ok, Ev.v, Ev.dks, Ev.dvs) /\ Observed(Ev.s)
TRemove == Ev.e = "Remove" /\ Remove(Ev.c, Ok, Ev.dks, Ev.dvs) /\ Observed(Ev.s)
TClear == Ev.e = "Clear" /\ Clear(Ev.dks, Ev.dvs) /\ Observed(Ev.s)
TMoveToEnd == Ev.e = "MoveToEnd" /\ MoveToEnd(Ev.c, Ev.dks, Ev.dvs) /\ Observed(Ev.s)
(* clean_up at the end of an execution displaces everything that is left; afterwards only counters remain *)
TFin == /\ Ev.e = "Fin" /\ Clear(Ev.dks, Ev.dvs)
        /\ \A i \in DOMAIN kd' : Ev.kd[i] = kd'[i]
        /\ Ev.nvd = nvd'
TEnd == Ev.e = "End" /\ UNCHANGED lhvars

TNext == /\ l <= TraceLen /\ l' = l + 1
         /\ (TReset \/ TPut \/ TFind \/ TFindMove \/ TRemove \/ TClear \/ TMoveToEnd \/ TFin \/ TEnd)
TInit == l = 1 /\ LHInit(FALSE, FALSE)
TSpec == TInit /\ [][TNext]_<<lhvars, l>>
=============================================================================
