SPECIFICATION MCSpec
CONSTANTS
  Tokens <- TokensNoEmpty
  MaxArgs = 3
  Cfgs = {1, 2, 3}
  Switch = TRUE
  GenDepth = 16
INVARIANT Emit
