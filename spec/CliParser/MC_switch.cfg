SPECIFICATION MCSpec
CONSTANTS
  Tokens <- TokensTiny
  MaxArgs = 2
  Cfgs = {1, 2, 3}
  Switch = TRUE
  GenDepth = 0
INVARIANTS TypeOK OptindBound ConsumedPrefix RefsConsumed EndIffExhausted Determined
PROPERTIES MonotoneP OnceOnlyP ProgressP StickyEndP EndP RewindP ResetStateP DispatchP
