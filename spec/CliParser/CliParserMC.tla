---------------------------- MODULE CliParserMC ----------------------------
(* Bounded exhaustive exploration of CliParser: every argv of at most MaxArgs elements (behind the   *)
(* program name) over a small token alphabet, for a few option tables / optstrings with all three    *)
(* argument kinds, every sequence of getopt calls, reruns (both ways) and dispatches; and behaviour  *)
(* generation (simulation with a history variable printed as a JSON script).                         *)
EXTENDS CliParser, TLC, Json

CONSTANTS Tokens,      \* token alphabet (set of byte sequences)
          MaxArgs,     \* longest argv behind the program name
          Cfgs,        \* which (table, optstring) pairs: subset of DOMAIN TableOf
          Switch,      \* may the table / optstring / argv be replaced in the middle of a behaviour
          GenDepth
VARIABLES hist,        \* the script so far (generation only)
          act          \* which kind of step led here (lets the step properties below name the step cheaply)

mcvars == <<argv, table, optstr, optind, pending, oarg, parg, role, ret, hist, act>>

(* ---- strings: "p" 112, "al" 97 108, "am" 97 109, "be" 98 101, "ga" 103 97, "de" 100 101, "ze" 122 101, "v" 118 ---- *)
Prog == <<112>>
L(name) == <<45, 45>> \o name
S(c) == <<45, c>>
NmAl == <<97, 108>>
NmAm == <<97, 109>>
NmBe == <<98, 101>>
NmGa == <<103, 97>>
NmDe == <<100, 101>>
NmZe == <<122, 101>>
Val == <<118>>

(* long known: none / required / optional / not in optstring; long unknown; short known (none, required, optional, short-only *)
(* required); short unknown; a value; "--", "-", "-ab", "--be=v"; the empty string                                           *)
TokLongAl == L(NmAl)
TokLongBe == L(NmBe)
TokLongGa == L(NmGa)
TokLongDe == L(NmDe)
TokLongZe == L(NmZe)
TokA == S(97)
TokB == S(98)
TokC == S(99)
TokE == S(101)
TokZ == S(122)
TokDashDash == <<45, 45>>
TokDash == <<45>>
TokCluster == <<45, 97, 98>>
TokLongEq == L(NmBe) \o <<61, 118>>
TokEmpty == <<>>

TokensCore == {TokLongBe, TokLongGa, TokLongZe, TokLongDe, TokA, TokB, TokZ, Val, TokDash}
TokensNoEmpty == {TokLongAl, TokLongBe, TokLongGa, TokLongDe, TokLongZe, TokA, TokB, TokC, TokE, TokZ, Val,
                  TokDashDash, TokDash, TokCluster, TokLongEq}
TokensTiny == {TokLongZe, TokLongBe, TokB, Val}
TokensAll == {TokLongAl, TokLongBe, TokLongGa, TokLongDe, TokLongZe, TokA, TokB, TokC, TokE, TokZ, Val,
              TokDashDash, TokDash, TokCluster, TokLongEq, TokEmpty}

Opt(named, name, val, ha) == [named |-> named, name |-> name, val |-> val, ha |-> ha]
(* 1: all kinds; "de" is in the table but not in the optstring; 'e' is a short-only entry (name NULL)                  *)
(* 2: two names for one character, has_arg fields that disagree with the optstring, another optstring order           *)
(* 3: nothing at all                                                                                                   *)
TableOf == << <<Opt(TRUE, NmAl, 97, 0), Opt(TRUE, NmBe, 98, 1), Opt(TRUE, NmGa, 99, 2), Opt(TRUE, NmDe, 100, 0),
                Opt(FALSE, <<>>, 101, 1)>>,
              <<Opt(TRUE, NmAl, 97, 1), Opt(TRUE, NmAm, 97, 0), Opt(TRUE, NmBe, 98, 0)>>,
              <<>> >>
OptstrOf == << <<97, 98, 58, 99, 58, 58, 101, 58>>,      \* "ab:c::e:"
               <<98, 58, 97>>,                           \* "b:a"
               <<>> >>

(* dispatch tables: [name, h]; commands "v", "V", "--be" *)
DT(name, h) == [name |-> name, h |-> h]
DTables == { <<>>, <<DT(Val, 0)>>, <<DT(<<86>>, 0)>>, <<DT(<<86>>, 0), DT(Val, 1)>>, <<DT(TokLongBe, 0), DT(Val, 1), DT(Val, 2)>> }

SeqsUpTo(T, n) == UNION {[1..k -> T] : k \in 0..n}
Argvs == {<<Prog>> \o s : s \in SeqsUpTo(Tokens, MaxArgs)}

G == GenDepth > 0 => Len(hist) < GenDepth
Rec(o) == hist' = (IF GenDepth > 0 THEN Append(hist, o) ELSE hist) /\ act' = o.op
B(b) == IF b THEN 1 ELSE 0
(* generation only: anything but a getopt call happens directly after a getopt call, so that at least every other *)
(* step of a generated behaviour is a call of the parser                                                          *)
AfterGet == IF GenDepth = 0 THEN TRUE ELSE hist[Len(hist)].op = "GETOPT"

MCInit ==
    /\ \E c \in Cfgs : table = TableOf[c] /\ optstr = OptstrOf[c]
    /\ argv \in Argvs
    /\ optind = 1 /\ pending = FALSE /\ oarg = 0 /\ parg = 0 /\ ret = NoRet
    /\ role = [i \in 1..Len(argv) |-> IF i = 1 THEN "program" ELSE "none"]
    /\ hist = IF GenDepth > 0
              THEN <<[op |-> "TABLE", t |-> table], [op |-> "OPTSTR", s |-> optstr], [op |-> "ARGV", m |-> "I", av |-> argv]>>
              ELSE <<>>
    /\ act = "INIT"

(* every outcome the specification allows (the trace specification uses GetOpt = "some outcome fits the report" + Apply) *)
MCGetOpt == G /\ CanCall /\ \E o \in Outcomes, hl \in (IF GenDepth > 0 THEN BOOLEAN ELSE {TRUE}) :
                Apply(o) /\ Rec([op |-> "GETOPT", hl |-> B(hl)])
MCRewindR == G /\ AfterGet /\ Rewind("R") /\ Rec([op |-> "REWINDR"])
MCRewindO == G /\ AfterGet /\ Rewind("O") /\ Rec([op |-> "REWINDO"])
(* a dispatch does not depend on how far the parser got: when exploring exhaustively it is tried at the start of a run only *)
MCDispatch == G /\ AfterGet /\ (GenDepth > 0 \/ ret = NoRet) /\ \E dt \in DTables, rv \in {0, -1, 7} : \E o \in DOutcomes(dt, rv) :
                /\ Dispatch(dt, rv, 5, o.called, o.h, o.hargc, o.hoff, IF Argc >= 2 THEN argv[2] ELSE <<>>, 5, o.rc, TRUE)
                /\ Rec([op |-> "DISPATCH", dt |-> dt, rv |-> rv])
MCSetTable == G /\ AfterGet /\ Switch /\ \E c \in Cfgs : table # TableOf[c] /\ SetTable(TableOf[c]) /\ Rec([op |-> "TABLE", t |-> TableOf[c]])
MCSetOptstr == G /\ AfterGet /\ Switch /\ \E c \in Cfgs : optstr # OptstrOf[c] /\ SetOptstr(OptstrOf[c]) /\ Rec([op |-> "OPTSTR", s |-> OptstrOf[c]])
(* (generation: one random candidate per step, otherwise this action would crowd out all others in the random walk) *)
MCSetArgv == G /\ AfterGet /\ Switch /\ \E a \in (IF GenDepth > 0 THEN {RandomElement(Argvs)} ELSE Argvs), m \in {"R", "O"} : SetArgv(a, m) /\ Rec([op |-> "ARGV", m |-> m, av |-> a])

MCNext == MCGetOpt \/ MCRewindR \/ MCRewindO \/ MCDispatch \/ MCSetTable \/ MCSetOptstr \/ MCSetArgv
MCSpec == MCInit /\ [][MCNext]_mcvars

(* ---- properties ---- *)
StartState == /\ optind = 1 /\ ~pending /\ ret = NoRet
              /\ role = [i \in 1..Argc |-> IF i = 1 THEN "program" ELSE "none"]

IsGetOpt == act' = "GETOPT"
MonotoneP == [][IsGetOpt => Monotone]_mcvars                        \* optind never decreases ...
OnceOnlyP == [][IsGetOpt => OnceOnly]_mcvars                        \* ... no element is consumed twice
ProgressP == [][(IsGetOpt /\ ret' # END) => optind' \in {optind + 1, optind + 2}]_mcvars      \* one or two elements per call
StickyEndP == [][(IsGetOpt /\ ret = END) => (ret' = END /\ optind' = optind)]_mcvars       \* after -1 always -1
EndP == [][(IsGetOpt /\ ret' = END) => (optind = Argc /\ optind' = Argc)]_mcvars              \* -1 only when all consumed
RewindP == [][act' \in {"REWINDR", "REWINDO"} => StartState']_mcvars                                        \* both ways restart the run
ResetStateP == [][act' = "REWINDR" => (oarg' = 0 /\ parg' = 0)]_mcvars                         \* reset_state: as at program start
DispatchP == [][act' = "DISPATCH" => UNCHANGED pvars]_mcvars

Emit == (GenDepth > 0 /\ Len(hist) = GenDepth) => PrintT(<<"SCRIPT", ToJson([ops |-> hist])>>)
=============================================================================
