----------------------------- MODULE CliParser -----------------------------
(* The command line parser as include/aws/common/command_line_parser.h documents it (extra X07):     *)
(* aws_cli_getopt_long with the globals aws_cli_optind / aws_cli_optarg / aws_cli_positional_arg,    *)
(* aws_cli_reset_state, and aws_cli_dispatch_on_subcommand.                                          *)
(*                                                                                                   *)
(* Strings (argv elements, option names, the optstring, command names) are sequences of bytes        *)
(* 1..255.  argv[1] is the program name (C argv[0]); the C value of aws_cli_optind is kept as it is, *)
(* so the element the next call looks at is argv[optind + 1].  A reference to an argv element (what  *)
(* aws_cli_optarg / aws_cli_positional_arg point at) is its index in argv, 0 stands for NULL.        *)
(*                                                                                                   *)
(* One call of aws_cli_getopt_long is the relation GetOpt between the state before, the inputs (argv,*)
(* option table, optstring: all three are arguments of every call), what the call reported (return   *)
(* value, new optind, optarg, positional arg, *longindex) and the state after.  What the header does *)
(* not say is left open: the marker Open in an outcome field means "any value".                      *)
(*                                                                                                   *)
(* What the header says (and nothing more is demanded here):                                         *)
(*   - the option characters are the `val`s of the table; a character followed by ':' in optstring   *)
(*     requires an argument; '::' = optional, "not implemented yet" (so: either behaviour);          *)
(*   - "--name" (exact name) and "-c" select a table entry; the call returns its val and sets        *)
(*     *longindex to its index; an entry whose val is not in optstring gives '?';                    *)
(*   - an option-looking element that matches no entry gives '?';                                    *)
(*   - an option with an argument takes the next element ("--name value", "-n value"), optarg points *)
(*     at it; no next element: '?' (POSIX intent);                                                   *)
(*   - an element that is not an option gives 0x02 and aws_cli_positional_arg points at it;          *)
(*   - -1 "when all arguments that can be parsed have been parsed";                                  *)
(*   - aws_cli_optind is the index of the next element; setting it to 1, or aws_cli_reset_state(),   *)
(*     starts another run.                                                                           *)
(* Left open (header silent, see OpenTok / pending below): "-" and "--" alone, "-abc" (more than one *)
(* character behind one dash), "--name=value"; the element right after an option-looking element     *)
(* that matched nothing (it may be reported as positional, or as '?': the unknown option's presumed  *)
(* argument); optarg / positional / longindex whenever the header does not define them, except that  *)
(* optarg is NULL after every call that did not return an option with an argument (intent: "if an    *)
(* option has an argument ... this will be set to the argument portion"; marked OptargIntent).       *)
EXTENDS Naturals, Integers, Sequences, FiniteSets

VARIABLES argv,        \* the argument vector the parser runs over (sequence of byte sequences), <<>> before the first one
          table,       \* option table: sequence of [named, name, val, ha]   (ha = the has_arg field: 0 none, 1 required, 2 optional)
          optstr,      \* the optstring
          optind,      \* aws_cli_optind
          pending,     \* the element consumed last looked like an option and matched no table entry
          oarg,        \* aws_cli_optarg        : 0 NULL, i > 0 = argv[i], Open = not defined by the header
          parg,        \* aws_cli_positional_arg: same encoding
          role,        \* per argv element: how it was consumed ("none" = not yet)
          ret          \* return value of the last call of this run (NoRet: none yet)

pvars == <<argv, table, optstr, optind, pending, oarg, parg, role, ret>>

DASH == 45
COLON == 58
EQUALS == 61
QM == 63           \* '?'
STX == 2           \* 0x02, positional argument
END == -1
Open == -2
NoRet == -3

Argc == Len(argv)
MinOf(S) == CHOOSE i \in S : \A j \in S : i <= j
Range(s) == {s[i] : i \in DOMAIN s}
Match(spec, obs) == spec = Open \/ spec = obs

Fold(c) == IF c >= 65 /\ c <= 90 THEN c + 32 ELSE c
FoldSeq(x) == [i \in 1..Len(x) |-> Fold(x[i])]

-----------------------------------------------------------------------------
(* lexical classes of one argv element *)
IsDashTok(t) == Len(t) >= 1 /\ t[1] = DASH
StrictLong(t) == /\ Len(t) > 2 /\ t[1] = DASH /\ t[2] = DASH
                 /\ EQUALS \notin Range(SubSeq(t, 3, Len(t)))           \* "--name"
StrictShort(t) == Len(t) = 2 /\ t[1] = DASH /\ t[2] # DASH             \* "-c"
OpenTok(t) == IsDashTok(t) /\ ~StrictLong(t) /\ ~StrictShort(t)        \* "-", "--", "-abc", "--name=value"

LongMatches(t) == {i \in DOMAIN table : table[i].named /\ table[i].name = SubSeq(t, 3, Len(t))}
ShortMatches(c) == {i \in DOMAIN table : table[i].val = c}

(* the optstring: is v an option character, and what follows it *)
Pos(v) == {p \in DOMAIN optstr : optstr[p] = v}
InOptstr(v) == v \in 1..255 /\ v # COLON /\ Pos(v) # {}
ColonAt(p) == p <= Len(optstr) /\ optstr[p] = COLON
Kind(v) == LET p == MinOf(Pos(v)) IN
           IF ColonAt(p + 1) THEN (IF ColonAt(p + 2) THEN "optional" ELSE "required") ELSE "none"

-----------------------------------------------------------------------------
(* outcomes of one call: [ret, noi (optind afterwards), oa, pa, li, pend, r1, r2 (roles of the consumed elements)] *)
Out(r, n, oa, pa, li, pend, r1, r2) ==
    [ret |-> r, noi |-> n, oa |-> oa, pa |-> pa, li |-> li, pend |-> pend, r1 |-> r1, r2 |-> r2]

Cur == argv[optind + 1]
CurRef == optind + 1
NextRef == optind + 2
HasNext == optind + 1 < Argc

OptargIntent == 0      \* aws_cli_optarg after a call that reported no option argument: NULL

AtEnd == Out(END, optind, OptargIntent, Open, Open, pending, "none", "none")
Unknown == Out(QM, optind + 1, OptargIntent, Open, Open, TRUE, "unknown", "none")
NotInOptstr == Out(QM, optind + 1, OptargIntent, Open, Open, FALSE, "option", "none")
Plain(i) == Out(table[i].val, optind + 1, OptargIntent, Open, i - 1, FALSE, "option", "none")
WithArg(i) == IF HasNext THEN Out(table[i].val, optind + 2, NextRef, Open, i - 1, FALSE, "option", "argument")
              ELSE Out(QM, optind + 1, OptargIntent, Open, Open, FALSE, "option", "none")     \* required argument missing
ForEntry(i) == LET v == table[i].val IN
    IF ~InOptstr(v) THEN {NotInOptstr}
    ELSE IF Kind(v) = "none" THEN {Plain(i)}
    ELSE IF Kind(v) = "required" THEN {WithArg(i)}
    ELSE {Plain(i), WithArg(i)}                                                                \* '::' not implemented yet
OptionOutcomes(F) == IF F = {} THEN {Unknown} ELSE UNION {ForEntry(i) : i \in F}

Positional == Out(STX, optind + 1, OptargIntent, CurRef, Open, FALSE, "positional", "none")
Swallowed == Out(QM, optind + 1, OptargIntent, Open, Open, FALSE, "swallowed", "none")
PositionalOutcomes == {Positional} \cup (IF pending THEN {Swallowed} ELSE {})

OpenOutcomes ==
    {Out(r, n, Open, IF r = STX THEN CurRef ELSE Open, Open, p, "open", IF n = optind + 2 THEN "argument" ELSE "none") :
        r \in {QM, STX} \cup {table[i].val : i \in DOMAIN table}, n \in {optind + 1, optind + 2} \cap (1..Argc), p \in BOOLEAN}

Outcomes ==
    IF optind >= Argc THEN {AtEnd}
    ELSE IF ~IsDashTok(Cur) THEN PositionalOutcomes
    ELSE IF StrictLong(Cur) THEN OptionOutcomes(LongMatches(Cur))
    ELSE IF StrictShort(Cur) THEN OptionOutcomes(ShortMatches(Cur[2]))
    ELSE OpenOutcomes

(* the state after a call with outcome o *)
Apply(o) ==
    /\ optind' = o.noi /\ pending' = o.pend /\ oarg' = o.oa /\ parg' = o.pa /\ ret' = o.ret
    /\ role' = [i \in 1..Argc |-> IF i = optind + 1 /\ o.noi > optind THEN o.r1
                                  ELSE IF i = optind + 2 /\ o.noi = optind + 2 THEN o.r2 ELSE role[i]]
    /\ UNCHANGED <<argv, table, optstr>>

(* aws_cli_getopt_long(argc, argv, optstring, longopts, longindex): r = return value, n = aws_cli_optind afterwards,     *)
(* oa / pa = what aws_cli_optarg / aws_cli_positional_arg point at afterwards, li = *longindex afterwards (haveli: a     *)
(* non-NULL longindex was passed). The call is allowed iff some outcome fits what was reported.                          *)
Fits(o, r, n, oa, pa, li, haveli) ==
    /\ o.ret = r /\ o.noi = n
    /\ Match(o.oa, oa) /\ Match(o.pa, pa)
    /\ haveli => Match(o.li, li)
CanCall == Argc >= 1 /\ optind >= 1
GetOpt(r, n, oa, pa, li, haveli) ==
    /\ CanCall
    /\ \E o \in Outcomes : Fits(o, r, n, oa, pa, li, haveli) /\ Apply(o)

-----------------------------------------------------------------------------
(* the environment: which table / optstring the following calls pass, which argv, and starting a run *)
SetTable(t) == table' = t /\ UNCHANGED <<argv, optstr, optind, pending, oarg, parg, role, ret>>
SetOptstr(s) == optstr' = s /\ UNCHANGED <<argv, table, optind, pending, oarg, parg, role, ret>>

Start(a) == /\ argv' = a /\ optind' = 1 /\ pending' = FALSE /\ ret' = NoRet
            /\ role' = [i \in 1..Len(a) |-> IF i = 1 THEN "program" ELSE "none"]

(* another set of arguments; the run starts either with aws_cli_reset_state() ("R": every global as at program start)  *)
(* or with aws_cli_optind = 1 ("O", the header's other way; optarg / positional then still point into the old vector). *)
(* The first vector of a process needs neither ("I": aws_cli_optind is "initialized to 1").                            *)
SetArgv(a, mode) ==
    /\ Len(a) >= 1 /\ mode \in {"R", "O", "I"}
    /\ mode = "I" => argv = <<>>                    \* nothing has been parsed yet
    /\ Start(a)
    /\ IF mode = "R" THEN oarg' = 0 /\ parg' = 0
       ELSE IF mode = "I" THEN UNCHANGED <<oarg, parg>>
       ELSE oarg' = Open /\ parg' = Open
    /\ UNCHANGED <<table, optstr>>

(* rerun the parser over the same argv *)
Rewind(mode) ==
    /\ Argc >= 1 /\ mode \in {"R", "O"}
    /\ Start(argv)
    /\ IF mode = "R" THEN oarg' = 0 /\ parg' = 0 ELSE UNCHANGED <<oarg, parg>>
    /\ UNCHANGED <<table, optstr>>

PInit == /\ argv = <<>> /\ table = <<>> /\ optstr = <<>> /\ optind = 1 /\ pending = FALSE
         /\ oarg = 0 /\ parg = 0 /\ role = <<>> /\ ret = NoRet

-----------------------------------------------------------------------------
(* aws_cli_dispatch_on_subcommand(argc, argv, dt, Len(dt), user_data).  dt: sequence of [name, h] (h identifies the     *)
(* handler function of the entry); rv = what the handler will return, tag = identifies user_data.                        *)
(* "Dispatches ... with a subcommand from the second input argument in argv[], if dispatch table contains a command     *)
(* that matches the argument": the handler of a matching entry runs once with (argc - 1, argv + 1, name, user_data) and  *)
(* its return value is passed through.  No second argument, or no match: AWS_OP_ERR with an error raised (which error    *)
(* code is not documented).  "command_name should be the exact string": whether an entry that differs only in letter     *)
(* case matches is left open (the code matches it); which of several matching entries is taken is left open.             *)
DFail == [called |-> 0, h |-> -1, hargc |-> -1, hoff |-> -1, rc |-> -1]
DCall(dt, i, rv) == [called |-> 1, h |-> dt[i].h, hargc |-> Argc - 1, hoff |-> 1, rc |-> rv]
DOutcomes(dt, rv) ==
    IF Argc < 2 THEN {DFail}
    ELSE LET cmd == argv[2]
             IM == {i \in DOMAIN dt : FoldSeq(dt[i].name) = FoldSeq(cmd)}
             EX == {i \in DOMAIN dt : dt[i].name = cmd}
         IN {DCall(dt, i, rv) : i \in IM} \cup (IF EX = {} THEN {DFail} ELSE {})

(* called = how often a handler ran; h, hargc, hoff (argv pointer it got minus the argv passed in), hname (command_name  *)
(* it got), htag (user data it got): as seen by the handler; rc = return value; raised = aws_last_error() was set        *)
Dispatch(dt, rv, tag, called, h, hargc, hoff, hname, htag, rc, raised) ==
    /\ Argc >= 1
    /\ \E o \in DOutcomes(dt, rv) :
          /\ o.called = called /\ o.rc = rc
          /\ called = 1 => /\ o.h = h /\ o.hargc = hargc /\ o.hoff = hoff /\ htag = tag
                           /\ FoldSeq(hname) = FoldSeq(argv[2])       \* "the name of the command being handled"
          /\ called = 0 => raised
    /\ UNCHANGED pvars                                                 \* the parser's globals are not involved

-----------------------------------------------------------------------------
(* properties of the specification (checked by TLC in CliParserMC) *)
Roles == {"program", "none", "option", "argument", "positional", "unknown", "swallowed", "open"}
TypeOK ==
    /\ optind \in Nat /\ pending \in BOOLEAN
    /\ oarg \in {Open} \cup (0..Argc) /\ parg \in {Open} \cup (0..Argc)
    /\ Len(role) = Argc /\ \A i \in 1..Argc : role[i] \in Roles

(* optind never exceeds argc (and starts at 1) *)
OptindBound == Argc >= 1 => (1 <= optind /\ optind <= Argc)

(* every element in front of optind has been consumed as exactly one thing, nothing behind it has been looked at *)
ConsumedPrefix == \A i \in 1..Argc : (role[i] # "none") <=> (i <= optind)

(* right after a call: optarg is an element consumed as an option argument, directly behind its option; positional is *)
(* the element consumed by that call                                                                                  *)
RefsConsumed ==
    ret # NoRet =>
        /\ oarg > 0 => (oarg = optind /\ role[oarg] = "argument" /\ role[oarg - 1] = "option")
        /\ parg > 0 => (parg <= optind /\ role[parg] \in {"positional", "open"} /\ ret = STX)
        /\ ret = STX => parg > 0

(* the end is reported exactly when nothing is left *)
EndIffExhausted == Argc >= 1 => ((optind >= Argc) <=> (END \in {o.ret : o \in Outcomes}))

(* the specification has teeth: where nothing is left open there is exactly one outcome *)
Determined ==
    (/\ Argc >= 1 /\ optind < Argc /\ ~pending /\ ~OpenTok(Cur)
     /\ IsDashTok(Cur) => LET M == IF StrictLong(Cur) THEN LongMatches(Cur) ELSE ShortMatches(Cur[2]) IN
                          /\ Cardinality(M) <= 1
                          /\ \A i \in M : InOptstr(table[i].val) => Kind(table[i].val) # "optional")
    => Cardinality(Outcomes) = 1

(* step properties *)
Monotone == optind' >= optind                                   \* of a GetOpt step
OnceOnly == \A i \in 1..Argc : role[i] # "none" => role'[i] = role[i]     \* of a GetOpt step
=============================================================================
