SPECIFICATION MCSpec
CONSTANTS
  Tokens <- TokensCore
  MaxArgs = 4
  Cfgs = {1, 2}
  Switch = FALSE
  GenDepth = 0
INVARIANTS TypeOK OptindBound ConsumedPrefix RefsConsumed EndIffExhausted Determined
PROPERTIES MonotoneP OnceOnlyP ProgressP StickyEndP EndP RewindP ResetStateP DispatchP
