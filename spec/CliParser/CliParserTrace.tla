-------------------------- MODULE CliParserTrace --------------------------
(* Trace validation for X07: every event recorded from the real aws_cli_getopt_long /              *)
(* aws_cli_reset_state / aws_cli_dispatch_on_subcommand must be explained by the CliParser action   *)
(* of the same name with exactly the logged inputs and results, and after every call the public     *)
(* globals (aws_cli_optind, what aws_cli_optarg and aws_cli_positional_arg point at) and the        *)
(* contents of argv must be what the specification says (where it says anything).                   *)
EXTENDS CliParser, TraceCommon

VARIABLES l
Ev == TraceLog[l]

Observed(s) ==
    /\ s.oi = optind'
    /\ s.av = argv'                       \* the library never changes the caller's strings
    /\ Match(oarg', s.oa)
    /\ Match(parg', s.pa)

TableOfEv(t) == [i \in 1..Len(t) |-> [named |-> t[i].nn = 1, name |-> t[i].nm, val |-> t[i].v, ha |-> t[i].ha]]
DTableOfEv(t) == [i \in 1..Len(t) |-> [name |-> t[i].nm, h |-> t[i].h]]

TReset == /\ Ev.e = "Reset"
          /\ argv' = <<>> /\ table' = <<>> /\ optstr' = <<>> /\ optind' = 1 /\ pending' = FALSE
          /\ oarg' = 0 /\ parg' = 0 /\ role' = <<>> /\ ret' = NoRet
          /\ Observed(Ev.s)
TTable == Ev.e = "Table" /\ SetTable(TableOfEv(Ev.t)) /\ Observed(Ev.s)
TOptStr == Ev.e = "OptStr" /\ SetOptstr(Ev.os) /\ Observed(Ev.s)
TArgv == Ev.e = "Argv" /\ SetArgv(Ev.s.av, Ev.m) /\ Observed(Ev.s)
TRewind == Ev.e = "Rewind" /\ Rewind(Ev.m) /\ Observed(Ev.s)
TGetOpt == Ev.e = "GetOpt" /\ GetOpt(Ev.ret, Ev.s.oi, Ev.s.oa, Ev.s.pa, Ev.li, Ev.hl = 1) /\ Observed(Ev.s)
TDispatch == /\ Ev.e = "Dispatch"
             /\ Dispatch(DTableOfEv(Ev.dt), Ev.rv, Ev.tag, Ev.called, Ev.h, Ev.hargc, Ev.hoff, Ev.hname, Ev.htag,
                         Ev.rc, Ev.raised = 1)
             /\ Observed(Ev.s)
TEnd == Ev.e = "End" /\ Ev.live = 0 /\ UNCHANGED pvars

TNext == /\ l <= TraceLen /\ l' = l + 1
         /\ \/ TReset \/ TTable \/ TOptStr \/ TArgv \/ TRewind \/ TGetOpt \/ TDispatch \/ TEnd
TInit == l = 1 /\ PInit
TSpec == TInit /\ [][TNext]_<<pvars, l>>
=============================================================================
