------------------------------ MODULE ParsersMC ------------------------------
(* Input enumeration for C04.  The state space IS the input family: a state is (family, token string);  *)
(* each family has its own structural token alphabet (delimiters in every order, truncations, unbalanced *)
(* nesting, ... all arise as token strings) and its own length bound.  TLC enumerates every string of    *)
(* every family breadth first and prints its bytes (Emit); checks/c04.py feeds them to the parsers that   *)
(* consume that family.  There is nothing to verify at model level beyond the shape of what is emitted   *)
(* (TypeOK); the property is judged on the recorded calls (ParsersTrace).                                *)
EXTENDS Parsers, TLC, Json, FiniteSets

CONSTANTS Lens          \* [family -> maximal number of tokens]
VARIABLES fam, s

B(str) == str            \* token byte sequences are written as tuples below
Tok == [
  xml   |-> << <<60>>, <<62>>, <<47>>, <<63>>, <<33>>, <<61>>, <<34>>, <<32>>, <<97>>, <<98>>,
               <<60,47,97,62>>, <<60,97,62>> >>,                                  \* < > / ? ! = " sp a b </a> <a>
  uri   |-> << <<58>>, <<47>>, <<63>>, <<64>>, <<91>>, <<93>>, <<38>>, <<61>>, <<37>>, <<104>>, <<49>>, <<71>> >>,
                                                                                  \* : / ? @ [ ] & = % h 1 G
  json  |-> << <<123>>, <<125>>, <<91>>, <<93>>, <<58>>, <<44>>, <<34>>, <<92>>, <<117>>, <<49>>, <<101>>,
               <<45>>, <<46>>, <<116>>, <<110>> >>,                               \* { } [ ] : , " \ u 1 e - . t n
  cbor2 |-> << <<0>>, <<1>>, <<24>>, <<95>>, <<159>>, <<255>>, <<130>>, <<97>> >>,   \* bytes following a head byte
  date  |-> << <<49>>, <<48>>, <<45>>, <<58>>, <<84>>, <<90>>, <<32>>, <<44>>, <<74,97,110>>, <<77,111,110>>,
               <<71,77,84>>, <<43>>, <<46>> >>,                                   \* 1 0 - : T Z sp , Jan Mon GMT + .
  b64   |-> << <<65>>, <<81>>, <<61>>, <<43>>, <<45>>, <<10>> >>,                 \* A Q = + - \n
  hex   |-> << <<48>>, <<57>>, <<97>>, <<70>>, <<103>>, <<32>> >>,                \* 0 9 a F g sp
  utf8  |-> << <<65>>, <<128>>, <<194>>, <<224>>, <<237>>, <<244>> >>,
  uint  |-> << <<48>>, <<57>>, <<49>>, <<102>>, <<45>>, <<32>> >>,                \* 0 9 1 f - sp
  ip4   |-> << <<49>>, <<50,53>>, <<50,53,54>>, <<46>>, <<48>>, <<97>> >>,        \* 1 25 256 . 0 a
  ip6   |-> << <<58>>, <<58,58>>, <<49>>, <<102,102,102,102>>, <<37>>, <<50,53>>, <<103>>, <<122>> >>
                                                                                  \* : :: 1 ffff % 25 g z
]
Families == DOMAIN Tok \cup {"cbor"}

LensQuick == [xml |-> 5, uri |-> 4, json |-> 4, cbor |-> 3, date |-> 4, b64 |-> 5, hex |-> 5, utf8 |-> 5, uint |-> 5,
              ip4 |-> 5, ip6 |-> 4]
LensThorough == [xml |-> 6, uri |-> 5, json |-> 5, cbor |-> 3, date |-> 5, b64 |-> 6, hex |-> 6, utf8 |-> 6, uint |-> 6,
                 ip4 |-> 6, ip6 |-> 5]

RECURSIVE CatTok(_, _, _)
CatTok(tb, ts, i) == IF i > Len(ts) THEN <<>> ELSE tb[ts[i]] \o CatTok(tb, ts, i + 1)
(* cbor: the first token is the head byte itself (0..255), the following ones index cbor2 *)
Bytes == IF fam = "cbor"
         THEN IF s = <<>> THEN <<>> ELSE <<s[1]>> \o CatTok(Tok.cbor2, Tail(s), 1)
         ELSE CatTok(Tok[fam], s, 1)

Init == fam \in (DOMAIN Lens) /\ s = <<>>
(* one named action per family, so that the coverage report shows that every family was enumerated *)
ExtXml == fam = "xml" /\ Len(s) < Lens.xml /\ (\E t \in 1..Len(Tok.xml) : s' = Append(s, t)) /\ UNCHANGED fam
ExtUri == fam = "uri" /\ Len(s) < Lens.uri /\ (\E t \in 1..Len(Tok.uri) : s' = Append(s, t)) /\ UNCHANGED fam
ExtJson == fam = "json" /\ Len(s) < Lens.json /\ (\E t \in 1..Len(Tok.json) : s' = Append(s, t)) /\ UNCHANGED fam
ExtDate == fam = "date" /\ Len(s) < Lens.date /\ (\E t \in 1..Len(Tok.date) : s' = Append(s, t)) /\ UNCHANGED fam
ExtB64 == fam = "b64" /\ Len(s) < Lens.b64 /\ (\E t \in 1..Len(Tok.b64) : s' = Append(s, t)) /\ UNCHANGED fam
ExtHex == fam = "hex" /\ Len(s) < Lens.hex /\ (\E t \in 1..Len(Tok.hex) : s' = Append(s, t)) /\ UNCHANGED fam
ExtUtf8 == fam = "utf8" /\ Len(s) < Lens.utf8 /\ (\E t \in 1..Len(Tok.utf8) : s' = Append(s, t)) /\ UNCHANGED fam
ExtUint == fam = "uint" /\ Len(s) < Lens.uint /\ (\E t \in 1..Len(Tok.uint) : s' = Append(s, t)) /\ UNCHANGED fam
ExtIp4 == fam = "ip4" /\ Len(s) < Lens.ip4 /\ (\E t \in 1..Len(Tok.ip4) : s' = Append(s, t)) /\ UNCHANGED fam
ExtIp6 == fam = "ip6" /\ Len(s) < Lens.ip6 /\ (\E t \in 1..Len(Tok.ip6) : s' = Append(s, t)) /\ UNCHANGED fam
ExtCbor == /\ fam = "cbor" /\ Len(s) < Lens.cbor
           /\ IF s = <<>> THEN \E h \in 0..255 : s' = <<h>>
              ELSE \E t \in 1..Len(Tok.cbor2) : s' = Append(s, t)
           /\ UNCHANGED fam
Next == ExtXml \/ ExtUri \/ ExtJson \/ ExtDate \/ ExtB64 \/ ExtHex \/ ExtUtf8 \/ ExtUint \/ ExtIp4 \/ ExtIp6 \/ ExtCbor
Spec == Init /\ [][Next]_<<fam, s>>

TypeOK == /\ fam \in Families
          /\ Len(s) <= Lens[fam]
          /\ \A i \in 1..Len(Bytes) : Bytes[i] \in 0..255
Emit == PrintT(<<"SCRIPT", ToJson([f |-> fam, b |-> Bytes])>>)
=============================================================================
