SPECIFICATION Spec
CONSTANTS Lens <- LensThorough
INVARIANTS TypeOK Emit
CHECK_DEADLOCK FALSE
