SPECIFICATION Spec
CONSTANTS Lens <- LensQuick
INVARIANTS TypeOK Emit
CHECK_DEADLOCK FALSE
