------------------------------- MODULE Parsers -------------------------------
(* C04 - decoders and parsers are total and memory-safe on arbitrary input (level: exploration).      *)
(*                                                                                                  *)
(* What a specification can say about "arbitrary bytes in, verdict out" without re-stating every      *)
(* grammar (C05, C10-C13, C19 do that for the well-formed side):                                      *)
(*   Channel   a verdict was produced through the function's documented channel:                       *)
(*               "rc"   AWS_OP_SUCCESS, or AWS_OP_ERR together with a registered error code            *)
(*                      (aws_error_name is neither "Unknown Error Code" nor the code 0)               *)
(*               "ptr"  a value or NULL          "bool"  true or false                                *)
(*   Views     every cursor handed back into the input lies inside it: 0 <= off /\ off + len <= n      *)
(* Memory safety itself (no access outside the input / output blocks, no crash, no hang) is not a      *)
(* predicate over the event: it is observed by the harness run time (exact-size heap blocks under      *)
(* AddressSanitizer, fatal-signal handlers, per-input watchdog) and shows as a missing event (Died).   *)
(* The action below is the relation between one call's input and everything it reported.               *)
EXTENDS Naturals, Integers, Sequences

Channel == [xml |-> "rc", json |-> "ptr", cbor |-> "rc", uri |-> "rc", query |-> "rc", pctdec |-> "rc",
            date |-> "rc", b64dec |-> "rc", hexdec |-> "rc", utf8 |-> "rc", uuid |-> "rc",
            ipv4 |-> "bool", ipv6 |-> "bool", u64 |-> "rc", u64hex |-> "rc"]
ParserNames == DOMAIN Channel

NotRegistered == {"", "Unknown Error Code", "AWS_ERROR_SUCCESS"}

ChannelOk(p, rc, err, res) ==
    CASE Channel[p] = "rc" -> IF rc = 0 THEN TRUE ELSE rc = -1 /\ err \notin NotRegistered
      [] Channel[p] = "ptr" -> res \in {0, 1} /\ rc = 0
      [] OTHER -> res \in {0, 1} /\ rc = 0

ViewOk(v, n) == v[1] >= 0 /\ v[2] >= 0 /\ v[1] + v[2] <= n
ViewsOk(views, n) == \A i \in 1..Len(views) : ViewOk(views[i], n)

(* one call of parser p on an input of n bytes that reported (rc, err, res, views) *)
Parse(p, n, rc, err, res, views) ==
    /\ p \in ParserNames
    /\ ChannelOk(p, rc, err, res)
    /\ ViewsOk(views, n)
=============================================================================
