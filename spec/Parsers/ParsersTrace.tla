----------------------------- MODULE ParsersTrace -----------------------------
(* Trace validation for C04: every Parse event (one call of one parser on one input) must satisfy      *)
(* Parsers!Parse.  Crashes, sanitizer reports and watchdog expiry never reach this module: the runner   *)
(* reports the Died event of the harness as a violation by itself.                                      *)
EXTENDS Parsers, TraceCommon

VARIABLES l, count
Ev == TraceLog[l]
Chk(b) == b = TRUE

TParse == /\ Ev.e = "Parse"
          /\ Chk(Parse(Ev.p, Ev.n, Ev.rc, Ev.err, Ev.res, Ev.views))
          /\ count' = count + 1
TReset == Ev.e = "Reset" /\ count' = 0
TEnd == Ev.e = "End" /\ Ev.live = 0 /\ UNCHANGED count

TNext == /\ l <= TraceLen /\ l' = l + 1
         /\ \/ TReset \/ TParse \/ TEnd
TInit == l = 1 /\ count = 0
TSpec == TInit /\ [][TNext]_<<l, count>>
=============================================================================
