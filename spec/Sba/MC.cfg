SPECIFICATION Spec
CONSTANTS CPP = 2
  MaxPages = 4
  MaxLive = 5
INVARIANTS LiveNotFree FreeDistinct NoReturnedPageInUse LiveInOwnedPages CountExact OwnedNotReturned AtMostWorkingPageWhenIdle
CHECK_DEADLOCK FALSE
