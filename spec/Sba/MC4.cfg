SPECIFICATION Spec
CONSTANTS CPP = 3
  MaxPages = 5
  MaxLive = 9
INVARIANTS LiveNotFree FreeDistinct NoReturnedPageInUse LiveInOwnedPages CountExact OwnedNotReturned AtMostWorkingPageWhenIdle
CHECK_DEADLOCK FALSE
