------------------------------- MODULE SbaTrace -------------------------------
EXTENDS Sba, TraceCommon
VARIABLES l, nnew
Ev == TraceLog[l]

TReset == Ev.e = "Reset" /\ live' = << >> /\ moving' = << >> /\ used' = {} /\ act' = 0 /\ mt' = 0 /\ nnew' = << >>
TSetup == Ev.e = "Setup" /\ mt' = Ev.mt /\ UNCHANGED <<live, moving, used, act, nnew>>
TAcq == Ev.e = "Acq" /\ Acq(Ev) /\ UNCHANGED nnew
TRelBegin == Ev.e = "RelBegin" /\ RelBegin(Ev.id) /\ UNCHANGED nnew
TRelEnd == Ev.e = "RelEnd" /\ RelEnd(Ev) /\ UNCHANGED nnew
TReallocBegin == /\ Ev.e = "ReallocBegin" /\ ReallocBegin(Ev.id, Ev.nold, Ev.nnew)
                 /\ nnew' = [i \in DOMAIN nnew \cup {Ev.id} |-> IF i = Ev.id THEN Ev.nnew ELSE nnew[i]]
TReallocEnd == Ev.e = "ReallocEnd" /\ Ev.id \in DOMAIN nnew /\ ReallocEnd(Ev, nnew[Ev.id]) /\ UNCHANGED nnew
TQuery == Ev.e = "Query" /\ Query(Ev) /\ UNCHANGED nnew
TDestroyed == Ev.e = "Destroyed" /\ Destroyed(Ev) /\ UNCHANGED nnew
TEnd == Ev.e = "End" /\ Ev.live = 0 /\ Ev.unjoined = 0 /\ UNCHANGED <<svars, nnew>>

TNext == l <= TraceLen /\ l' = l + 1 /\
         (TReset \/ TSetup \/ TAcq \/ TRelBegin \/ TRelEnd \/ TReallocBegin \/ TReallocEnd \/ TQuery \/ TDestroyed \/ TEnd)
TSpec == (l = 1 /\ SInit(0) /\ nnew = << >>) /\ [][TNext]_<<svars, nnew, l>>
=============================================================================
