--------------------------------- MODULE Sba ---------------------------------
(* Property C03 over what a user of the small block allocator observes: the address (page        *)
(* ordinal, offset) and size of every block handed out, content checks made by the user, the      *)
(* reported byte counts. A block is "small" when a size class serves it: acquired with n <= 512,  *)
(* or grown by realloc to n <= 512; a block shrunk in place keeps what it had (documented:        *)
(* realloc to a smaller size returns the same pointer).                                           *)
EXTENDS Naturals, Integers, Sequences, FiniteSets

VARIABLES live,      \* [id -> [page, off, n, cls]]   cls = 0 for parent-served blocks
          moving,    \* [id -> [n, cls, page, off]]   blocks inside a realloc call
          used,      \* size classes that have served at least one block so far
          act,       \* running sum of the classes of all blocks in live and moving (kept incrementally: cheap to validate)
          mt

svars == <<live, moving, used, act, mt>>

Cls(n) == IF n <= 32 THEN 32 ELSE IF n <= 64 THEN 64 ELSE IF n <= 128 THEN 128 ELSE IF n <= 256 THEN 256
          ELSE IF n <= 512 THEN 512 ELSE 0

Active == act

Overlaps(a, b) == a.page = b.page /\ a.off < b.off + b.n /\ b.off < a.off + a.n
Disjoint(blk, f) == \A i \in DOMAIN f : ~Overlaps(blk, f[i])

Put(f, id, rec) == [i \in DOMAIN f \cup {id} |-> IF i = id THEN rec ELSE f[i]]
Drop(f, id) == [i \in DOMAIN f \ {id} |-> f[i]]

SInit(m) == live = << >> /\ moving = << >> /\ used = {} /\ act = 0 /\ mt = m

(* acquire / calloc: aligned, inside no other live block, whole size writable (checked by the user's fill under   *)
(* ASan), calloc memory zeroed, nobody else's contents disturbed (bad = 0), exact accounting when quiescent        *)
Acq(ev) ==
    /\ ev.id \notin DOMAIN live /\ ev.n >= 1
    /\ ev.al16 = 1 /\ ev.bad = 0 /\ ev.zero = 1
    /\ LET b == [page |-> ev.page, off |-> ev.off, n |-> ev.n, cls |-> Cls(ev.n)] IN
       /\ Disjoint(b, live)          \* (a block inside another thread's realloc call may already have been given back)
       /\ live' = Put(live, ev.id, b)
       /\ used' = used \cup ({b.cls} \ {0})
       /\ act' = act + b.cls
    /\ UNCHANGED <<moving, mt>>
    /\ ev.active >= 0 => ev.active = Active'

RelBegin(id) ==
    /\ id \in DOMAIN live /\ live' = Drop(live, id) /\ act' = act - live[id].cls /\ UNCHANGED <<moving, used, mt>>
RelEnd(ev) ==
    /\ ev.bad = 0 /\ (ev.active >= 0 => ev.active = Active) /\ UNCHANGED svars

ReallocBegin(id, nold, nnew) ==
    /\ id \in DOMAIN live /\ live[id].n = nold
    /\ moving' = Put(moving, id, live[id]) /\ live' = Drop(live, id) /\ UNCHANGED <<used, act, mt>>

(* realloc: contents kept up to the smaller size; a block that stays where it is keeps its class (and must fit    *)
(* it); a block that moves is served according to its new size; size 0 releases                                   *)
ReallocEnd(ev, nnew) ==
    /\ ev.id \in DOMAIN moving /\ ev.rc = 0 /\ ev.bad = 0
    /\ LET old == moving[ev.id] IN
       IF nnew = 0
       THEN /\ ev.null = 1 /\ live' = live /\ used' = used /\ act' = act - old.cls
       ELSE /\ ev.null = 0 /\ ev.prefix = 1 /\ ev.al16 = 1
            /\ LET cls == IF ev.moved = 0 THEN old.cls ELSE Cls(nnew)     \* same chunk -> same class; a new block -> class of its size
                   b == [page |-> ev.page, off |-> ev.off, n |-> nnew, cls |-> cls] IN
               /\ ev.moved = 0 => (ev.page = old.page /\ ev.off = old.off /\ (old.cls # 0 => nnew <= old.cls))
               /\ Disjoint(b, live)
               /\ live' = Put(live, ev.id, b)
               /\ used' = used \cup ({cls} \ {0})
               /\ act' = act - old.cls + cls
    /\ moving' = Drop(moving, ev.id) /\ UNCHANGED mt
    /\ ev.active >= 0 => ev.active = Active'

(* quiescent query: exact byte count; whole pages; with nothing small outstanding at most one page per class *)
Query(ev) ==
    /\ moving = << >>
    /\ ev.active = Active /\ ev.reserved_rem = 0
    \* nothing small outstanding: at most one (working) page per size class, and only for classes that were ever used
    /\ (\A i \in DOMAIN live : live[i].cls = 0) => ev.reserved_pages <= Cardinality(used)
    /\ ev.reserved_pages * 4096 >= ev.active
    /\ UNCHANGED svars

(* destroy returns all remaining memory *)
Destroyed(ev) == live = << >> /\ moving = << >> /\ ev.parent_live = 0 /\ ev.leaks = 0 /\ UNCHANGED svars
=============================================================================
