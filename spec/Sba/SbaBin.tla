------------------------------- MODULE SbaBin -------------------------------
(* Implementation-shaped model of ONE size class of the small block allocator                     *)
(* (source/allocator_sba.c: s_sba_alloc_from_bin / s_sba_free_to_bin):                            *)
(*   alloc : reuse the most recently freed chunk, else carve the next chunk of the working page   *)
(*           (a page that has been carved completely moves to the active list), else take a new   *)
(*           page as working page                                                                 *)
(*   free  : alloc_count--; if the page is now empty and is not the working page: purge all its   *)
(*           chunks from the free list, drop it from the active list and give it back; otherwise  *)
(*           push the chunk on the free list                                                      *)
(* CPP = chunks per page (127, 63, 31, 15, 7 in the real geometry; 2..3 here).                    *)
(* Checked for every acquire / release history: live chunks are pairwise distinct, never on the   *)
(* free list, never inside a page that was given back; no chunk of a returned page stays on the   *)
(* free list; alloc_count of every page = its live chunks (so bytes_active is exact); when        *)
(* nothing is live at most the working page is retained.                                          *)
EXTENDS Naturals, Sequences, FiniteSets

CONSTANTS CPP, MaxPages, MaxLive

VARIABLES nextPage,     \* pages are numbered as they are obtained from the system
          cursor,       \* <<page, next chunk index>> or <<0, 0>>: the working page
          active,       \* set of fully carved pages still owned
          count,        \* [page -> alloc_count]
          free,         \* Seq(<<page, idx>>)  free list (LIFO)
          live,         \* set of <<page, idx>> handed out
          returned      \* set of pages given back to the system

vars == <<nextPage, cursor, active, count, free, live, returned>>
NoCursor == <<0, 0>>
Owned == active \cup (IF cursor = NoCursor THEN {} ELSE {cursor[1]})
Range(s) == {s[i] : i \in 1 .. Len(s)}

Init == /\ nextPage = 1 /\ cursor = NoCursor /\ active = {} /\ count = [p \in 1 .. MaxPages |-> 0]
        /\ free = <<>> /\ live = {} /\ returned = {}

AllocFromFree ==
    /\ free # <<>> /\ Cardinality(live) < MaxLive
    /\ LET c == free[Len(free)] IN
       /\ live' = live \cup {c} /\ count' = [count EXCEPT ![c[1]] = @ + 1]
       /\ free' = SubSeq(free, 1, Len(free) - 1)
    /\ UNCHANGED <<nextPage, cursor, active, returned>>

AllocFromCursor ==
    /\ free = <<>> /\ cursor # NoCursor /\ Cardinality(live) < MaxLive
    /\ LET p == cursor[1]
           i == cursor[2] IN
       /\ live' = live \cup {<<p, i>>} /\ count' = [count EXCEPT ![p] = @ + 1]
       /\ IF i = CPP THEN cursor' = NoCursor /\ active' = active \cup {p}
          ELSE cursor' = <<p, i + 1>> /\ active' = active
    /\ UNCHANGED <<nextPage, free, returned>>

(* new working page; the real code then carves from it in the same call: composed here *)
AllocNewPage ==
    /\ free = <<>> /\ cursor = NoCursor /\ nextPage <= MaxPages /\ Cardinality(live) < MaxLive
    /\ LET p == nextPage IN
       /\ live' = live \cup {<<p, 1>>} /\ count' = [count EXCEPT ![p] = 1]
       /\ IF CPP = 1 THEN cursor' = NoCursor /\ active' = active \cup {p}
          ELSE cursor' = <<p, 2>> /\ active' = active
       /\ nextPage' = nextPage + 1
    /\ UNCHANGED <<free, returned>>

Free(c) ==
    /\ c \in live
    /\ LET p == c[1] IN
       /\ live' = live \ {c}
       /\ count' = [count EXCEPT ![p] = @ - 1]
       /\ IF count[p] = 1 /\ (cursor = NoCursor \/ cursor[1] # p)
          THEN /\ free' = SelectSeq(free, LAMBDA x : x[1] # p)            \* purge the page's chunks
               /\ active' = active \ {p} /\ returned' = returned \cup {p}
          ELSE /\ free' = Append(free, c) /\ UNCHANGED <<active, returned>>
    /\ UNCHANGED <<nextPage, cursor>>

Next == AllocFromFree \/ AllocFromCursor \/ AllocNewPage \/ (\E c \in live : Free(c))
Spec == Init /\ [][Next]_vars

LiveNotFree == live \cap Range(free) = {}
FreeDistinct == \A i, j \in 1 .. Len(free) : i # j => free[i] # free[j]
NoReturnedPageInUse == \A c \in live \cup Range(free) : c[1] \notin returned
LiveInOwnedPages == \A c \in live \cup Range(free) : c[1] \in Owned
CountExact == \A p \in 1 .. MaxPages : count[p] = Cardinality({c \in live : c[1] = p})
OwnedNotReturned == Owned \cap returned = {}
AtMostWorkingPageWhenIdle == live = {} => active = {}
=============================================================================
