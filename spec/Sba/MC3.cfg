SPECIFICATION Spec
CONSTANTS CPP = 3
  MaxPages = 4
  MaxLive = 7
INVARIANTS LiveNotFree FreeDistinct NoReturnedPageInUse LiveInOwnedPages CountExact OwnedNotReturned AtMostWorkingPageWhenIdle
CHECK_DEADLOCK FALSE
