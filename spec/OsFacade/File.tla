--------------------------------- MODULE File ---------------------------------
(* The file API of aws-c-common (include/aws/common/file.h and the two readers declared in       *)
(* byte_buf.h) as its header documents it: a tree of directories and files with byte contents.   *)
(* A path is a sequence of name ids below a private root directory (the adapter owns the mapping *)
(* id -> name and the place of the root); a content is the abstract value [n, h1, h2] = length    *)
(* and two composable polynomial digests, so that "the bytes read are the bytes written" and      *)
(* "append = concatenation" are statements the specification can make without holding bytes.      *)
(* Every action is a relation between the pre-state, the arguments, the reported result and the   *)
(* post-state. Where the header is silent the relation leaves the result open ("may succeed or    *)
(* fail") and only requires: reported success => the documented post-state; reported failure =>   *)
(* nothing changed.                                                                               *)
EXTENDS Naturals, Integers, Sequences, FiniteSets

CONSTANTS NameIds          \* finite set of integers: the names an entry can have

VARIABLES dirs,            \* set of paths that are directories (the root <<>> is always one)
          files,           \* function: path of a regular file -> content
          links,           \* set of paths that are symbolic links (made by the adapter; their targets lie outside the tree)
          fh,              \* the stdio handle obtained from aws_fopen / aws_fopen_safe (at most one)
          it               \* the directory entry iterator (at most one)

fvars == <<dirs, files, links, fh, it>>

Root == <<>>
Parent(p) == SubSeq(p, 1, Len(p) - 1)
IsPrefix(p, q) == Len(p) <= Len(q) /\ SubSeq(q, 1, Len(p)) = p
StrictPrefix(p, q) == Len(p) < Len(q) /\ SubSeq(q, 1, Len(p)) = p
Nodes == dirs \cup DOMAIN files \cup links
IsDir(p) == p \in dirs
IsFile(p) == p \in DOMAIN files
IsLink(p) == p \in links
Exists(p) == p \in Nodes
Under(p) == {q \in Nodes : StrictPrefix(p, q)}                      \* everything below p
Children(p) == {q \in Nodes : Len(q) = Len(p) + 1 /\ Parent(q) = p}
Prefixes(p) == {SubSeq(p, 1, k) : k \in 0..Len(p)}
ThroughFile(p) == \E k \in 0..(Len(p) - 1) : IsFile(SubSeq(p, 1, k))  \* a proper prefix of p is a regular file

(* ---- contents: length + two polynomial digests  H(s) = SUM (s[i]+1) * B^(n-i)  (mod P)          *)
P1 == 32749
P2 == 32719
HB == 263
RECURSIVE PowMod(_, _, _)
PowMod(b, e, m) == IF e = 0 THEN 1
                   ELSE LET h == PowMod(b, e \div 2, m)
                            s == (h * h) % m
                        IN IF e % 2 = 1 THEN (s * b) % m ELSE s
Empty == [n |-> 0, h1 |-> 0, h2 |-> 0]
Cat(c, d) == [n  |-> c.n + d.n,
              h1 |-> (c.h1 * PowMod(HB, d.n, P1) + d.h1) % P1,
              h2 |-> (c.h2 * PowMod(HB, d.n, P2) + d.h2) % P2]

PutFile(p, c) == [q \in (DOMAIN files) \cup {p} |-> IF q = p THEN c ELSE files[q]]
DropFiles(S) == [q \in (DOMAIN files) \ S |-> files[q]]

NoFh == [open |-> FALSE]
NoIt == [open |-> FALSE]

FileInit == dirs = {Root} /\ files = [q \in {} |-> Empty] /\ links = {} /\ fh = NoFh /\ it = NoIt

(* ---- 64-bit offsets: <<hi, lo>> = hi * 2^30 + lo, 0 <= lo < 2^30 (TLC integers are 32 bit)       *)
W30 == 1073741824
WNorm(w) == IF w[2] >= W30 THEN <<w[1] + 1, w[2] - W30>> ELSE w
WAddSmall(w, k) == WNorm(<<w[1], w[2] + k>>)       \* 0 <= k < 2^30
WNonNeg(w) == w[1] >= 0
WZero == <<0, 0>>
WRemaining(w, n) == IF w[1] > 0 \/ w[2] >= n THEN 0 ELSE n - w[2]   \* bytes between a non-negative position and the end

-----------------------------------------------------------------------------
(* Ground truth: the adapter itself writes a file with plain stdio / makes a directory with       *)
(* plain mkdir (not the library). Obligation of the script: the parent directory exists.          *)
RawPut(p, c) ==
    /\ p # Root /\ IsDir(Parent(p)) /\ ~IsDir(p) /\ ~IsLink(p)
    /\ files' = PutFile(p, c)
    /\ UNCHANGED <<dirs, links, fh, it>>
RawAppend(p, c) ==
    /\ IsFile(p)
    /\ files' = PutFile(p, Cat(files[p], c))
    /\ UNCHANGED <<dirs, links, fh, it>>
RawMkdir(p) ==
    /\ p # Root /\ IsDir(Parent(p)) /\ ~Exists(p)
    /\ dirs' = dirs \cup {p}
    /\ UNCHANGED <<files, links, fh, it>>

(* a symbolic link made by the adapter with plain symlink(2); its target (an empty directory, a small file or    *)
(* nothing) lies outside the tree. Scripts never hand the library a path that names or passes through a link;    *)
(* links matter as *contents* of directories that are listed, moved and deleted.                                 *)
RawSymlink(p) ==
    /\ p # Root /\ IsDir(Parent(p)) /\ ~Exists(p)
    /\ links' = links \cup {p}
    /\ UNCHANGED <<dirs, files, fh, it>>

(* aws_directory_create: "Creates a directory if it doesn't currently exist. If the directory     *)
(* already exists, it's ignored and assumed successful."  Silent on: a regular file of that name   *)
(* (posix code reports success and creates nothing), missing ancestors (posix code fails).         *)
DirCreate(p, ok) ==
    /\ IsDir(p) => ok
    /\ (~Exists(p) /\ IsDir(Parent(p))) => ok
    /\ IF ok /\ ~IsFile(p) /\ ~IsLink(p) /\ ~ThroughFile(p)
       THEN dirs' = dirs \cup Prefixes(p)
       ELSE UNCHANGED dirs
    /\ (ok /\ ~IsFile(p) /\ ~IsLink(p)) => ~ThroughFile(p)   \* success without a directory being there afterwards is only tolerated for "a file has that name"
    /\ UNCHANGED <<files, links, fh, it>>

(* aws_directory_exists: "Returns true if the directory currently exists. Otherwise false."       *)
DirExists(p, res) == (res <=> IsDir(p)) /\ UNCHANGED fvars
(* aws_path_exists: "Returns true if a file or path exists, otherwise, false."                     *)
PathExists(p, res) == (res <=> Exists(p)) /\ UNCHANGED fvars

(* aws_directory_delete: not empty => fails unless recursive; recursive => the entire directory    *)
(* and all of its contents are deleted; "If the directory doesn't exist, AWS_OP_SUCCESS is still   *)
(* returned" (a regular file of that name is not a directory: success, and it stays).              *)
DirDelete(p, rec, ok) ==
    /\ p # Root
    /\ IF ~IsDir(p) THEN ok /\ UNCHANGED <<dirs, files, links>>
       ELSE IF Under(p) = {} THEN ok /\ dirs' = dirs \ {p} /\ UNCHANGED <<files, links>>
       ELSE IF rec THEN /\ ok
                        /\ dirs' = {q \in dirs : ~IsPrefix(p, q)}
                        /\ files' = DropFiles({q \in DOMAIN files : IsPrefix(p, q)})
                        /\ links' = {q \in links : ~IsPrefix(p, q)}      \* "the entire directory and all of its contents"
       ELSE ~ok /\ UNCHANGED <<dirs, files, links>>
    /\ UNCHANGED <<fh, it>>

(* aws_file_delete: deletes a file; "If the file doesn't exist, AWS_OP_SUCCESS is still returned". *)
(* Silent on: the name is a directory; a proper prefix of the path is a regular file (posix code   *)
(* reports an error for both).                                                                     *)
FileDelete(p, ok) ==
    /\ IF IsFile(p) THEN ok /\ files' = DropFiles({p})
       ELSE /\ (~Exists(p) /\ ~ThroughFile(p)) => ok
            /\ UNCHANGED files
    /\ UNCHANGED <<dirs, links, fh, it>>

(* aws_directory_or_file_move: "Moves directory at from to to."  Required to work in the plain     *)
(* case (source exists, destination name free, destination's parent is a directory, not into       *)
(* itself) and to fail when there is no source; replacing an existing destination is left open      *)
(* (rename(2) semantics differ between platforms): success => the destination subtree is replaced. *)
Rebase(q, from, to) == to \o SubSeq(q, Len(from) + 1, Len(q))
Move(from, to, ok) ==
    /\ from # Root /\ to # Root
    /\ ~Exists(from) => ~ok
    /\ (Exists(from) /\ ~Exists(to) /\ IsDir(Parent(to)) /\ ~IsPrefix(from, to)) => ok
    /\ IF ok /\ from # to
       THEN /\ ~IsPrefix(from, to) /\ IsDir(Parent(to))
            /\ dirs' = {q \in dirs : ~IsPrefix(to, q) /\ ~IsPrefix(from, q)}
                          \cup {Rebase(q, from, to) : q \in {r \in dirs : IsPrefix(from, r)}}
            /\ LET keep == {q \in DOMAIN files : ~IsPrefix(to, q) /\ ~IsPrefix(from, q)}
                   mv == {q \in DOMAIN files : IsPrefix(from, q)}
               IN files' = [q \in keep \cup {Rebase(r, from, to) : r \in mv} |->
                               IF q \in keep THEN files[q]
                               ELSE files[CHOOSE r \in mv : Rebase(r, from, to) = q]]
            /\ links' = {q \in links : ~IsPrefix(to, q) /\ ~IsPrefix(from, q)}
                           \cup {Rebase(q, from, to) : q \in {r \in links : IsPrefix(from, r)}}
       ELSE UNCHANGED <<dirs, files, links>>
    /\ UNCHANGED <<fh, it>>

(* ---- directory entries as the callback / the iterator shows them                                *)
(* e = [p: what the "path" field denotes, projected below the root, pabs: 1 iff that text starts   *)
(*      with the separator ("Absolute path to the entry"), t: file_type bits, sz: file_size,       *)
(*      rel: what the "relative_path" field denotes when resolved against the working directory,   *)
(*      relabs: 1 iff the relative_path text starts with the separator]                            *)
(* kind = -1 for a directory, -2 for a symbolic link (only the SYM_LINK bit of file_type and the   *)
(* relative path are specified for those), else the length of the regular file.                    *)
RelStyles == {"r", "d", "R"}                  \* the caller's path was relative to the working directory
EntryIs(e, q, kind, style) ==
    /\ kind # -2 => (e.p = q /\ e.pabs = 1)
    /\ CASE kind = -1 -> e.t = 4
         [] kind = -2 -> (e.t \div 2) % 2 = 1
         [] OTHER -> e.t = 1 /\ e.sz = kind
    /\ e.rel = q
    /\ (style \in RelStyles) => e.relabs = 0
KindOf(q) == IF IsDir(q) THEN -1 ELSE IF IsLink(q) THEN -2 ELSE files[q].n

(* aws_directory_traverse: every entry below the start exactly once (children only when not        *)
(* recursive); recursive = post-order, depth-first (a directory is reported right after the last   *)
(* entry of its own subtree); the callback returning false ends the traversal (no further          *)
(* callback). The return value after such an abort is not documented and left open; the order of   *)
(* siblings is unspecified. stop = k > 0: the k-th callback returns false.                         *)
TraverseOK(p, style, rec, stop, ok, seen) ==
    IF ~IsDir(p) THEN ~ok /\ seen = <<>>
    ELSE LET exp == IF rec THEN Under(p) ELSE Children(p)
             total == Cardinality(exp)
         IN /\ \A i \in 1..Len(seen) : seen[i].rel \in exp /\ EntryIs(seen[i], seen[i].rel, KindOf(seen[i].rel), style)
            /\ \A i, j \in 1..Len(seen) : i # j => seen[i].rel # seen[j].rel
            /\ IF stop = 0 \/ stop > total THEN ok /\ Len(seen) = total ELSE Len(seen) = stop
            /\ rec => \A i \in 1..Len(seen) : IsDir(seen[i].rel) =>
                          LET k == Cardinality(Under(seen[i].rel))
                          IN i > k /\ {seen[j].rel : j \in (i - k)..(i - 1)} = Under(seen[i].rel)
Traverse(p, style, rec, stop, ok, seen) == TraverseOK(p, style, rec, stop, ok, seen) /\ UNCHANGED fvars

(* ---- iterator over the entries of one directory: a fixed but unspecified order, discovered as   *)
(* the iterator is moved. order = the names seen so far in iterator order, pos = current index.    *)
NoEntry == [null |-> 1]
IterNew(p, style, ok, cur) ==
    /\ ~it.open
    /\ ok <=> IsDir(p)                       \* "If path is invalid ... NULL will be returned"
    /\ IF ok
       THEN LET ch == Children(p) IN
            /\ IF ch = {} THEN cur.null = 1                 \* "Returns NULL if the iterator contains no entries"
               ELSE cur.null = 0 /\ cur.rel \in ch /\ EntryIs(cur, cur.rel, KindOf(cur.rel), style)
            /\ it' = [open |-> TRUE, style |-> style, kinds |-> [q \in ch |-> KindOf(q)],
                      order |-> IF ch = {} THEN <<>> ELSE <<cur.rel>>, pos |-> IF ch = {} THEN 0 ELSE 1]
       ELSE UNCHANGED it
    /\ UNCHANGED <<dirs, files, links, fh>>
ItN == Cardinality(DOMAIN it.kinds)
ItRange == {it.order[i] : i \in 1..Len(it.order)}
CurIs(cur, q) == cur.null = 0 /\ EntryIs(cur, q, it.kinds[q], it.style)
(* next / previous: success iff another entry is available in that direction, else AWS_OP_ERR with *)
(* AWS_ERROR_LIST_EMPTY (documented) and the iterator stays where it was.                          *)
IterNext(ok, err, cur) ==
    /\ it.open
    /\ ok <=> it.pos < ItN
    /\ IF ok
       THEN IF it.pos < Len(it.order)
            THEN CurIs(cur, it.order[it.pos + 1]) /\ it' = [it EXCEPT !.pos = @ + 1]
            ELSE /\ cur.null = 0 /\ cur.rel \in (DOMAIN it.kinds) \ ItRange /\ CurIs(cur, cur.rel)
                 /\ it' = [it EXCEPT !.pos = @ + 1, !.order = Append(@, cur.rel)]
       ELSE /\ err = "AWS_ERROR_LIST_EMPTY"
            /\ IF it.pos = 0 THEN cur.null = 1 ELSE CurIs(cur, it.order[it.pos])
            /\ UNCHANGED it
    /\ UNCHANGED <<dirs, files, links, fh>>
IterPrev(ok, err, cur) ==
    /\ it.open
    /\ ok <=> it.pos > 1
    /\ IF ok
       THEN CurIs(cur, it.order[it.pos - 1]) /\ it' = [it EXCEPT !.pos = @ - 1]
       ELSE /\ err = "AWS_ERROR_LIST_EMPTY"
            /\ IF it.pos = 0 THEN cur.null = 1 ELSE CurIs(cur, it.order[it.pos])
            /\ UNCHANGED it
    /\ UNCHANGED <<dirs, files, links, fh>>
IterDestroy == it.open /\ it' = NoIt /\ UNCHANGED <<dirs, files, links, fh>>

(* ---- aws_fopen / aws_fopen_safe: "Opens file at file_path using mode. Returns the FILE pointer   *)
(* if successful."  m = first letter of the mode. Reading an existing regular file, and creating   *)
(* / truncating / appending where the parent directory exists, must work; a missing file ("r"), a  *)
(* missing parent or a directory of that name ("w", "a") cannot be opened.                         *)
Fopen(p, m, ok) ==
    /\ ~fh.open /\ p # Root
    /\ IF m = "r"
       THEN /\ IsFile(p) => ok
            /\ ~Exists(p) => ~ok
            /\ UNCHANGED files
       ELSE /\ (IsFile(p) \/ (~Exists(p) /\ IsDir(Parent(p)))) => ok
            /\ (IsDir(p) \/ (~Exists(p) /\ ~IsDir(Parent(p)))) => ~ok
            /\ IF ok THEN files' = PutFile(p, IF m = "w" \/ ~IsFile(p) THEN Empty ELSE files[p])
               ELSE UNCHANGED files
    /\ fh' = IF ok THEN [open |-> TRUE, p |-> p, m |-> m, pos |-> WZero] ELSE fh
    /\ UNCHANGED <<dirs, links, it>>
(* an empty path / an empty mode names nothing that could be opened *)
FopenBad(ok) == ~ok /\ UNCHANGED fvars
(* the adapter writes a chunk through the handle with plain fwrite + fflush (modes w, a) *)
Fwrite(c) ==
    /\ fh.open /\ fh.m \in {"w", "a"} /\ IsFile(fh.p)
    /\ files' = PutFile(fh.p, Cat(files[fh.p], c))
    /\ UNCHANGED <<dirs, links, fh, it>>
(* aws_file_get_length: the length of the file behind the handle *)
Flen(ok, len) ==
    /\ fh.open /\ IsFile(fh.p)
    /\ ok /\ len = files[fh.p].n
    /\ UNCHANGED fvars
(* aws_fseek(file, offset, whence in {SEEK_SET, SEEK_END}): success puts the position at offset /  *)
(* length + offset; a negative target cannot succeed. pos = what ftello reports afterwards.        *)
Fseek(off, whence, ok, pos) ==
    /\ fh.open /\ fh.m = "r" /\ IsFile(fh.p)
    /\ LET target == IF whence = "set" THEN off ELSE WAddSmall(off, files[fh.p].n)
       IN IF WNonNeg(target) THEN ok /\ pos = target ELSE ~ok
    /\ fh' = [fh EXCEPT !.pos = pos]
    /\ UNCHANGED <<dirs, files, links, it>>
(* the adapter reads with plain fread until end of file: c = what it got *)
FreadRest(c) ==
    /\ fh.open /\ fh.m = "r" /\ IsFile(fh.p) /\ WNonNeg(fh.pos)
    /\ c.n = WRemaining(fh.pos, files[fh.p].n)
    /\ fh.pos = WZero => c = files[fh.p]
    /\ fh' = [fh EXCEPT !.pos = WAddSmall(@, c.n)]
    /\ UNCHANGED <<dirs, files, links, it>>
Fclose == fh.open /\ fh' = NoFh /\ UNCHANGED <<dirs, files, links, it>>

(* ---- aws_byte_buf_init_from_file[_with_size_hint] (byte_buf.h): "If successful, out_buf is       *)
(* allocated and filled with the data ... Otherwise, out_buf remains unused ... a null terminator  *)
(* is appended, but is not included as part of the length field."                                  *)
(* r = [rc, c: content of the buffer, nul: 1 iff capacity > len and buffer[len] = 0, own: 1 iff    *)
(*      the buffer belongs to the allocator that was passed, unused: 0 zeroed / 1 untouched / 2]   *)
BufFromFile(p, nopath, r) ==
    /\ UNCHANGED fvars
    /\ IF ~nopath /\ IsFile(p)
       THEN r.rc = 0 /\ r.c = files[p] /\ r.nul = 1 /\ r.own = 1
       ELSE IF nopath \/ ~Exists(p) THEN r.rc # 0 /\ r.unused \in {0, 1}
       ELSE r.rc # 0 => r.unused \in {0, 1}          \* a directory: not documented; if refused, the buffer is unused

(* a source whose size is not known in advance (a FIFO fed by another process with content w): the same promise - the    *)
(* whole content, a terminator behind it, a buffer of the caller's allocator whose block covers the capacity it claims  *)
BufFromFifo(r) == /\ UNCHANGED fvars /\ r.made = 1 /\ r.rc = 0 /\ r.c = r.w /\ r.nul = 1 /\ r.own = 1

(* ---- separators                                                                                 *)
Seps == {47, 92}                              \* '/' and '\' : the separators of the supported platforms
IsSepAll(res) == (\A i \in 0..255 : (res[i + 1] = 1) <=> (i \in Seps)) /\ UNCHANGED fvars
PlatSep(res) == res = 47 /\ UNCHANGED fvars   \* this is the posix build
Normalize(in, out) ==
    /\ Len(out) = Len(in)
    /\ \A i \in 1..Len(in) : out[i] = IF in[i] \in Seps THEN 47 ELSE in[i]
    /\ UNCHANGED fvars

-----------------------------------------------------------------------------
(* internal consistency of the specification (checked by TLC, MC.cfg)                              *)
TreeInv == /\ Root \in dirs
           /\ dirs \cap DOMAIN files = {} /\ links \cap (dirs \cup DOMAIN files) = {}
           /\ \A q \in Nodes : q # Root => Parent(q) \in dirs
HandleInv == fh.open => IsFile(fh.p)          \* under the scripts' discipline: the open file is not deleted or moved
IterInv == it.open => /\ it.pos <= Len(it.order) /\ Len(it.order) <= ItN
                      /\ (it.pos = 0) <=> (ItN = 0)
                      /\ \A i, j \in 1..Len(it.order) : i # j => it.order[i] # it.order[j]
                      /\ ItRange \subseteq DOMAIN it.kinds
=============================================================================
