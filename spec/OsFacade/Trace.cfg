SPECIFICATION TSpec
CONSTANTS NameIds = {1, 2, 3, 4, 5, 6, 7}
  EnvNames = {0, 1, 2, 3, 11}
  HomeName = 0
POSTCONDITION TraceAccepted
CHECK_DEADLOCK FALSE
